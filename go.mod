module verif

go 1.26.5

require (
	cloud.google.com/go/storage v1.62.3
	github.com/BurntSushi/toml v1.6.0
	github.com/DeRuina/timberjack v1.4.5
	github.com/Masterminds/semver/v3 v3.5.0
	github.com/Microsoft/hcsshim v0.14.1
	github.com/apparentlymart/go-cidr v1.1.1
	github.com/approvals/go-approval-tests v1.11.0
	github.com/aws/aws-sdk-go-v2 v1.42.0
	github.com/aws/aws-sdk-go-v2/config v1.32.25
	github.com/aws/aws-sdk-go-v2/feature/ec2/imds v1.18.29
	github.com/aws/smithy-go v1.27.2
	github.com/bits-and-blooms/bitset v1.24.5
	github.com/buger/jsonparser v1.2.0
	github.com/container-storage-interface/spec v1.12.0
	github.com/containernetworking/cni v1.3.0
	github.com/containernetworking/plugins v1.9.1
	github.com/davecgh/go-spew v1.1.2-0.20180830191138-d8f796af33cc
	github.com/docopt/docopt-go v0.0.0-20180111231733-ee0de3bc6815
	github.com/envoyproxy/go-control-plane/envoy v1.37.0
	github.com/fsnotify/fsnotify v1.10.1
	github.com/gavv/monotime v0.0.0-20190418164738-30dba4353424
	github.com/go-logr/logr v1.4.3
	github.com/gofrs/flock v0.13.0
	github.com/gogo/googleapis v1.4.1
	github.com/golang/snappy v1.0.0
	github.com/google/btree v1.1.3
	github.com/google/go-cmp v0.7.0
	github.com/google/go-containerregistry v0.21.6
	github.com/google/go-github/v53 v53.2.0
	github.com/google/netstack v0.0.0-20191123085552-55fcc16cd0eb
	github.com/google/nftables v0.3.0
	github.com/google/safetext v0.0.0-20260330151545-1fb717a317c5
	github.com/google/uuid v1.6.0
	github.com/gopacket/gopacket v1.6.1
	github.com/gruntwork-io/terratest v1.0.0
	github.com/hashicorp/yamux v0.1.2
	github.com/ishidawataru/sctp v0.0.0-20251114114122-19ddcbc6aae2
	github.com/jedib0t/go-pretty/v6 v6.8.1
	github.com/jinzhu/copier v0.4.0
	github.com/joho/godotenv v1.5.1
	github.com/juju/clock v1.1.1
	github.com/juju/errors v1.0.0
	github.com/juju/mutex v0.0.0-20180619145857-d21b13acf4bf
	github.com/kardianos/osext v0.0.0-20190222173326-2bc1f35cddc0
	github.com/kelseyhightower/envconfig v1.4.0
	github.com/kelseyhightower/memkv v0.1.1
	github.com/libp2p/go-reuseport v0.4.0
	github.com/mcuadros/go-version v0.0.0-20190830083331-035f6764e8d2
	github.com/mdlayher/arp v0.0.0-20260528070854-93566ba168e9
	github.com/mdlayher/ethernet v0.0.0-20220221185849-529eae5b6118
	github.com/mdlayher/ndp v1.1.0
	github.com/mdlayher/packet v1.1.2
	github.com/mipearson/rfw v0.0.0-20170619235010-6f0a6f3266ba
	github.com/natefinch/atomic v1.0.1
	github.com/nmrshll/go-cp v0.0.0-20180115193924-61436d3b7cfa
	github.com/onsi/ginkgo/v2 v2.32.0
	github.com/onsi/gomega v1.42.0
	github.com/patrickmn/go-cache v2.1.0+incompatible
	github.com/pkg/errors v0.9.1
	github.com/projectcalico/api v0.0.0-20260303210141-543421943355
	github.com/projectcalico/calico/lib/datastructures v0.0.0-00010101000000-000000000000
	github.com/projectcalico/calico/lib/httpmachinery v0.0.0-00010101000000-000000000000
	github.com/projectcalico/calico/lib/logrusr v0.0.0-00010101000000-000000000000
	github.com/projectcalico/calico/lib/std v0.0.0-00010101000000-000000000000
	github.com/prometheus/client_golang v1.23.2
	github.com/prometheus/client_model v0.6.2
	github.com/prometheus/common v0.68.1
	github.com/prometheus/procfs v0.20.1
	github.com/safchain/ethtool v0.7.0
	github.com/shirou/gopsutil/v4 v4.26.5
	github.com/sirupsen/logrus v1.9.4
	github.com/slack-go/slack v0.26.0
	github.com/snowzach/rotatefilehook v0.0.0-20220211133110-53752135082d
	github.com/spf13/cast v1.10.0
	github.com/spf13/cobra v1.10.2
	github.com/spf13/pflag v1.0.10
	github.com/spf13/viper v1.21.0
	github.com/stretchr/testify v1.11.1
	github.com/tchap/go-patricia/v2 v2.3.3
	github.com/termie/go-shutil v0.0.0-20140729215957-bcacb06fecae
	github.com/tigera/operator/api v0.0.0-20260615132847-f444e3b593ce
	github.com/urfave/cli/v3 v3.10.0
	github.com/vishvananda/netlink v1.3.1
	go.etcd.io/etcd/api/v3 v3.7.0
	go.etcd.io/etcd/client/pkg/v3 v3.7.0
	go.etcd.io/etcd/client/v2 v2.305.31
	go.etcd.io/etcd/client/v3 v3.7.0
	go.yaml.in/yaml/v3 v3.0.4
	go4.org/netipx v0.0.0-20231129151722-fdeea329fbba
	golang.org/x/mod v0.38.0
	golang.org/x/net v0.57.0
	golang.org/x/oauth2 v0.36.0
	golang.org/x/sync v0.22.0
	golang.org/x/sys v0.47.0
	golang.org/x/text v0.40.0
	golang.org/x/time v0.15.0
	golang.zx2c4.com/wireguard/wgctrl v0.0.0-20241231184526-a9ab2273dd10
	google.golang.org/genproto/googleapis/rpc v0.0.0-20260615183401-62b3387ff324
	google.golang.org/grpc v1.82.1
	google.golang.org/protobuf v1.36.12-0.20260120151049-f2248ac996af
	gopkg.in/go-playground/validator.v9 v9.31.0
	gopkg.in/ini.v1 v1.67.3
	gopkg.in/yaml.v3 v3.0.1
	helm.sh/helm/v3 v3.21.1
	k8s.io/api v0.37.0-beta.0
	k8s.io/apiextensions-apiserver v0.37.0-beta.0
	k8s.io/apimachinery v0.37.0-beta.0
	k8s.io/apiserver v0.37.0-beta.0
	k8s.io/client-go v0.37.0-beta.0
	k8s.io/component-base v0.37.0-beta.0
	k8s.io/klog/v2 v2.140.0
	k8s.io/kube-aggregator v0.37.0-beta.0
	k8s.io/kube-openapi v0.31.0
	k8s.io/kubectl v0.37.0-beta.0
	k8s.io/kubernetes v1.37.0-beta.0
	k8s.io/utils v0.0.0-20260626114624-be93311217bd
	kubevirt.io/api v1.9.0
	kubevirt.io/client-go v1.9.0-beta.0.0.20260731113834-b7f13e6a8fd7
	modernc.org/memory v1.11.0
	sigs.k8s.io/controller-runtime v0.24.1
	sigs.k8s.io/gateway-api v1.5.1
	sigs.k8s.io/gateway-api/conformance v1.5.1
	sigs.k8s.io/kind v0.32.0
	sigs.k8s.io/knftables v0.0.21
	sigs.k8s.io/network-policy-api v0.2.0
	sigs.k8s.io/yaml v1.6.0
)

require (
	github.com/fatih/camelcase v1.0.0 // indirect
	github.com/go-openapi/swag/cmdutils v0.25.4 // indirect
	github.com/go-openapi/swag/conv v0.25.4 // indirect
	github.com/go-openapi/swag/fileutils v0.25.4 // indirect
	github.com/go-openapi/swag/jsonutils v0.25.4 // indirect
	github.com/go-openapi/swag/loading v0.25.4 // indirect
	github.com/go-openapi/swag/mangling v0.25.4 // indirect
	github.com/go-openapi/swag/netutils v0.25.4 // indirect
	github.com/go-openapi/swag/stringutils v0.25.4 // indirect
	github.com/go-openapi/swag/typeutils v0.25.4 // indirect
	github.com/go-openapi/swag/yamlutils v0.25.4 // indirect
	github.com/google/cadvisor/lib v0.60.4 // indirect
)

require (
	al.essio.dev/pkg/shellescape v1.5.1 // indirect
	cel.dev/expr v0.25.1 // indirect
	cloud.google.com/go v0.123.0 // indirect
	cloud.google.com/go/auth v0.20.0 // indirect
	cloud.google.com/go/auth/oauth2adapt v0.2.8 // indirect
	cloud.google.com/go/compute/metadata v0.9.0 // indirect
	cloud.google.com/go/iam v1.7.0 // indirect
	cloud.google.com/go/monitoring v1.24.3 // indirect
	cyphar.com/go-pathrs v0.2.5 // indirect
	filippo.io/edwards25519 v1.2.0 // indirect
	github.com/Azure/go-ansiterm v0.0.0-20250102033503-faa5f7b0171c // indirect
	github.com/GoogleCloudPlatform/opentelemetry-operations-go/detectors/gcp v1.32.0 // indirect
	github.com/GoogleCloudPlatform/opentelemetry-operations-go/exporter/metric v0.55.0 // indirect
	github.com/GoogleCloudPlatform/opentelemetry-operations-go/internal/resourcemapping v0.55.0 // indirect
	github.com/JeffAshton/win_pdh v0.0.0-20161109143554-76bb4ee9f0ab // indirect
	github.com/MakeNowJust/heredoc v1.0.0 // indirect
	github.com/Microsoft/go-winio v0.6.2 // indirect
	github.com/Microsoft/hnslib v0.1.3 // indirect
	github.com/NYTimes/gziphandler v1.1.1 // indirect
	github.com/ProtonMail/go-crypto v1.0.0 // indirect
	github.com/alexflint/go-filemutex v1.3.0 // indirect
	github.com/antlr4-go/antlr/v4 v4.13.1 // indirect
	github.com/aws/aws-sdk-go-v2/aws/protocol/eventstream v1.7.9 // indirect
	github.com/aws/aws-sdk-go-v2/credentials v1.19.24 // indirect
	github.com/aws/aws-sdk-go-v2/feature/s3/transfermanager v0.1.17 // indirect
	github.com/aws/aws-sdk-go-v2/internal/configsources v1.4.29 // indirect
	github.com/aws/aws-sdk-go-v2/internal/endpoints/v2 v2.7.29 // indirect
	github.com/aws/aws-sdk-go-v2/internal/v4a v1.4.30 // indirect
	github.com/aws/aws-sdk-go-v2/service/acm v1.38.2 // indirect
	github.com/aws/aws-sdk-go-v2/service/autoscaling v1.66.1 // indirect
	github.com/aws/aws-sdk-go-v2/service/cloudwatchlogs v1.69.1 // indirect
	github.com/aws/aws-sdk-go-v2/service/dynamodb v1.57.2 // indirect
	github.com/aws/aws-sdk-go-v2/service/ec2 v1.297.1 // indirect
	github.com/aws/aws-sdk-go-v2/service/ecr v1.57.1 // indirect
	github.com/aws/aws-sdk-go-v2/service/ecs v1.78.1 // indirect
	github.com/aws/aws-sdk-go-v2/service/iam v1.53.8 // indirect
	github.com/aws/aws-sdk-go-v2/service/internal/accept-encoding v1.13.12 // indirect
	github.com/aws/aws-sdk-go-v2/service/internal/checksum v1.9.14 // indirect
	github.com/aws/aws-sdk-go-v2/service/internal/endpoint-discovery v1.11.22 // indirect
	github.com/aws/aws-sdk-go-v2/service/internal/presigned-url v1.13.29 // indirect
	github.com/aws/aws-sdk-go-v2/service/internal/s3shared v1.19.22 // indirect
	github.com/aws/aws-sdk-go-v2/service/kms v1.50.5 // indirect
	github.com/aws/aws-sdk-go-v2/service/lambda v1.89.1 // indirect
	github.com/aws/aws-sdk-go-v2/service/rds v1.118.1 // indirect
	github.com/aws/aws-sdk-go-v2/service/route53 v1.62.6 // indirect
	github.com/aws/aws-sdk-go-v2/service/s3 v1.99.1 // indirect
	github.com/aws/aws-sdk-go-v2/service/secretsmanager v1.41.6 // indirect
	github.com/aws/aws-sdk-go-v2/service/signin v1.2.0 // indirect
	github.com/aws/aws-sdk-go-v2/service/sns v1.39.16 // indirect
	github.com/aws/aws-sdk-go-v2/service/sqs v1.42.26 // indirect
	github.com/aws/aws-sdk-go-v2/service/ssm v1.68.5 // indirect
	github.com/aws/aws-sdk-go-v2/service/sso v1.31.3 // indirect
	github.com/aws/aws-sdk-go-v2/service/ssooidc v1.36.6 // indirect
	github.com/aws/aws-sdk-go-v2/service/sts v1.43.3 // indirect
	github.com/beorn7/perks v1.0.1 // indirect
	github.com/blang/semver/v4 v4.0.0 // indirect
	github.com/boombuler/barcode v1.0.1 // indirect
	github.com/cenkalti/backoff/v5 v5.0.3 // indirect
	github.com/cespare/xxhash/v2 v2.3.0 // indirect
	github.com/chai2010/gettext-go v1.0.2 // indirect
	github.com/clipperhouse/uax29/v2 v2.6.0 // indirect
	github.com/cloudflare/circl v1.6.3 // indirect
	github.com/cncf/xds/go v0.0.0-20260202195803-dba9d589def2 // indirect
	github.com/containerd/cgroups/v3 v3.1.2 // indirect
	github.com/containerd/containerd/api v1.11.1 // indirect
	github.com/containerd/errdefs v1.0.0 // indirect
	github.com/containerd/errdefs/pkg v0.3.0 // indirect
	github.com/containerd/log v0.1.0 // indirect
	github.com/containerd/ttrpc v1.2.9 // indirect
	github.com/containerd/typeurl/v2 v2.3.0 // indirect
	github.com/coreos/go-iptables v0.8.0 // indirect
	github.com/coreos/go-semver v0.3.1 // indirect
	github.com/coreos/go-systemd/v22 v22.7.0 // indirect
	github.com/cpuguy83/go-md2man/v2 v2.0.7 // indirect
	github.com/cyphar/filepath-securejoin v0.7.0 // indirect
	github.com/distribution/reference v0.6.0 // indirect
	github.com/docker/cli v29.4.3+incompatible // indirect
	github.com/docker/docker-credential-helpers v0.9.5 // indirect
	github.com/docker/go-units v0.5.0 // indirect
	github.com/ebitengine/purego v0.10.0 // indirect
	github.com/emicklei/go-restful/v3 v3.13.0 // indirect
	github.com/envoyproxy/gateway v1.7.2 // indirect
	github.com/envoyproxy/protoc-gen-validate v1.3.3 // indirect
	github.com/evanphx/json-patch v5.9.11+incompatible // indirect
	github.com/evanphx/json-patch/v5 v5.9.11 // indirect
	github.com/exponent-io/jsonpath v0.0.0-20210407135951-1de76d718b3f // indirect
	github.com/felixge/httpsnoop v1.0.4 // indirect
	github.com/fxamacker/cbor/v2 v2.9.1 // indirect
	github.com/gabriel-vasile/mimetype v1.4.13 // indirect
	github.com/go-errors/errors v1.4.2 // indirect
	github.com/go-jose/go-jose/v4 v4.1.4 // indirect
	github.com/go-kit/log v0.2.1 // indirect
	github.com/go-logfmt/logfmt v0.6.1 // indirect
	github.com/go-logr/stdr v1.2.2 // indirect
	github.com/go-logr/zapr v1.3.0 // indirect
	github.com/go-ole/go-ole v1.3.0 // indirect
	github.com/go-openapi/jsonpointer v0.22.4 // indirect
	github.com/go-openapi/jsonreference v0.21.4 // indirect
	github.com/go-openapi/swag v0.25.4 // indirect
	github.com/go-openapi/swag/jsonname v0.25.4 // indirect
	github.com/go-playground/form v3.1.4+incompatible // indirect
	github.com/go-playground/locales v0.14.1 // indirect
	github.com/go-playground/universal-translator v0.18.1 // indirect
	github.com/go-playground/validator/v10 v10.30.3 // indirect
	github.com/go-sql-driver/mysql v1.9.3 // indirect
	github.com/go-task/slim-sprig/v3 v3.0.0 // indirect
	github.com/go-viper/mapstructure/v2 v2.4.0 // indirect
	github.com/godbus/dbus/v5 v5.2.2 // indirect
	github.com/gogo/protobuf v1.3.2 // indirect
	github.com/golang/groupcache v0.0.0-20210331224755-41bb18bfe9da // indirect
	github.com/golang/protobuf v1.5.4 // indirect
	github.com/gonvenience/bunt v1.3.5 // indirect
	github.com/gonvenience/neat v1.3.12 // indirect
	github.com/gonvenience/term v1.0.2 // indirect
	github.com/gonvenience/text v1.0.7 // indirect
	github.com/gonvenience/wrap v1.1.2 // indirect
	github.com/gonvenience/ytbx v1.4.4 // indirect
	github.com/google/cel-go v0.29.0 // indirect
	github.com/google/gnostic-models v0.7.0 // indirect
	github.com/google/go-querystring v1.1.0 // indirect
	github.com/google/pprof v0.0.0-20260402051712-545e8a4df936 // indirect
	github.com/google/s2a-go v0.1.9 // indirect
	github.com/googleapis/enterprise-certificate-proxy v0.3.14 // indirect
	github.com/googleapis/gax-go/v2 v2.21.0 // indirect
	github.com/gorilla/mux v1.8.1 // indirect
	github.com/gorilla/websocket v1.5.4-0.20250319132907-e064f32e3674 // indirect
	github.com/grpc-ecosystem/go-grpc-middleware/providers/prometheus v1.1.0 // indirect
	github.com/grpc-ecosystem/go-grpc-middleware/v2 v2.3.3 // indirect
	github.com/grpc-ecosystem/grpc-gateway/v2 v2.29.0 // indirect
	github.com/gruntwork-io/go-commons v0.8.0 // indirect
	github.com/hashicorp/errwrap v1.1.0 // indirect
	github.com/hashicorp/go-multierror v1.1.1 // indirect
	github.com/homeport/dyff v1.6.0 // indirect
	github.com/inconshreveable/mousetrap v1.1.0 // indirect
	github.com/jackc/pgpassfile v1.0.0 // indirect
	github.com/jackc/pgservicefile v0.0.0-20240606120523-5a60cdf6a761 // indirect
	github.com/jackc/pgx/v5 v5.9.2 // indirect
	github.com/jackc/puddle/v2 v2.2.2 // indirect
	github.com/josharian/native v1.1.0 // indirect
	github.com/json-iterator/go v1.1.12 // indirect
	github.com/klauspost/compress v1.18.6 // indirect
	github.com/klauspost/cpuid/v2 v2.2.10 // indirect
	github.com/kylelemons/godebug v1.1.0 // indirect
	github.com/leodido/go-urn v1.4.0 // indirect
	github.com/liggitt/tabwriter v0.0.0-20181228230101-89fcab3d43de // indirect
	github.com/lithammer/dedent v1.1.0 // indirect
	github.com/lucasb-eyer/go-colorful v1.2.0 // indirect
	github.com/lufia/plan9stats v0.0.0-20251013123823-9fd1530e3ec3 // indirect
	github.com/mattn/go-ciede2000 v0.0.0-20170301095244-782e8c62fec3 // indirect
	github.com/mattn/go-isatty v0.0.20 // indirect
	github.com/mattn/go-runewidth v0.0.19 // indirect
	github.com/mattn/go-zglob v0.0.2-0.20190814121620-e3c945676326 // indirect
	github.com/mdlayher/genetlink v1.3.2 // indirect
	github.com/mdlayher/netlink v1.7.3-0.20250113171957-fbb4dce95f42 // indirect
	github.com/mdlayher/socket v0.5.1 // indirect
	github.com/miekg/dns v1.1.72 // indirect
	github.com/mitchellh/go-ps v1.0.0 // indirect
	github.com/mitchellh/go-wordwrap v1.0.1 // indirect
	github.com/mitchellh/hashstructure v1.1.0 // indirect
	github.com/moby/spdystream v0.5.1 // indirect
	github.com/moby/sys/mountinfo v0.7.2 // indirect
	github.com/moby/sys/userns v0.1.0 // indirect
	github.com/moby/term v0.5.2 // indirect
	github.com/modern-go/concurrent v0.0.0-20180306012644-bacd9c7ef1dd // indirect
	github.com/modern-go/reflect2 v1.0.3-0.20250322232337-35a7c28c31ee // indirect
	github.com/monochromegane/go-gitignore v0.0.0-20200626010858-205db1a8cc00 // indirect
	github.com/munnerz/goautoneg v0.0.0-20191010083416-a7dc8b61c822 // indirect
	github.com/mxk/go-flowrate v0.0.0-20140419014527-cca7078d478f // indirect
	github.com/opencontainers/cgroups v0.0.7 // indirect
	github.com/opencontainers/go-digest v1.0.0 // indirect
	github.com/opencontainers/image-spec v1.1.1 // indirect
	github.com/opencontainers/runtime-spec v1.3.0 // indirect
	github.com/opencontainers/selinux v1.15.1 // indirect
	github.com/openshift/custom-resource-status v1.1.2 // indirect
	github.com/pborman/uuid v1.2.1 // indirect
	github.com/pelletier/go-toml v1.9.5 // indirect
	github.com/pelletier/go-toml/v2 v2.2.4 // indirect
	github.com/peterbourgon/diskv v2.0.1+incompatible // indirect
	github.com/planetscale/vtprotobuf v0.6.1-0.20240319094008-0393e58bdf10 // indirect
	github.com/pmezard/go-difflib v1.0.1-0.20181226105442-5d4384ee4fb2 // indirect
	github.com/power-devops/perfstat v0.0.0-20240221224432-82ca36839d55 // indirect
	github.com/pquerna/otp v1.4.0 // indirect
	github.com/prometheus-operator/prometheus-operator/pkg/apis/monitoring v0.90.1 // indirect
	github.com/robfig/cron/v3 v3.0.1 // indirect
	github.com/russross/blackfriday/v2 v2.1.0 // indirect
	github.com/sagikazarmark/locafero v0.11.0 // indirect
	github.com/sergi/go-diff v1.4.0 // indirect
	github.com/sourcegraph/conc v0.3.1-0.20240121214520-5f936abd7ae8 // indirect
	github.com/spf13/afero v1.15.0 // indirect
	github.com/spiffe/go-spiffe/v2 v2.6.0 // indirect
	github.com/stretchr/objx v0.5.3 // indirect
	github.com/subosito/gotenv v1.6.0 // indirect
	github.com/texttheater/golang-levenshtein v1.0.1 // indirect
	github.com/tigera/api v0.0.0-20260417005328-22f813a9c2dc // indirect
	github.com/tklauser/go-sysconf v0.3.16 // indirect
	github.com/tklauser/numcpus v0.11.0 // indirect
	github.com/urfave/cli v1.22.16 // indirect
	github.com/virtuald/go-ordered-json v0.0.0-20170621173500-b18e6e673d74 // indirect
	github.com/vishvananda/netns v0.0.5 // indirect
	github.com/x448/float16 v0.8.4 // indirect
	github.com/xlab/treeprint v1.2.0 // indirect
	github.com/yusufpapurcu/wmi v1.2.4 // indirect
	github.com/zeebo/xxh3 v1.1.0
	go.opencensus.io v0.24.0 // indirect
	go.opentelemetry.io/auto/sdk v1.2.1 // indirect
	go.opentelemetry.io/contrib/detectors/gcp v1.43.0 // indirect
	go.opentelemetry.io/contrib/instrumentation/github.com/emicklei/go-restful/otelrestful v0.69.0 // indirect
	go.opentelemetry.io/contrib/instrumentation/google.golang.org/grpc/otelgrpc v0.68.0 // indirect
	go.opentelemetry.io/contrib/instrumentation/net/http/otelhttp v0.69.0 // indirect
	go.opentelemetry.io/otel v1.44.0 // indirect
	go.opentelemetry.io/otel/exporters/otlp/otlptrace v1.44.0 // indirect
	go.opentelemetry.io/otel/exporters/otlp/otlptrace/otlptracegrpc v1.44.0 // indirect
	go.opentelemetry.io/otel/metric v1.44.0 // indirect
	go.opentelemetry.io/otel/sdk v1.44.0 // indirect
	go.opentelemetry.io/otel/sdk/metric v1.44.0 // indirect
	go.opentelemetry.io/otel/trace v1.44.0 // indirect
	go.opentelemetry.io/proto/otlp v1.10.0 // indirect
	go.uber.org/multierr v1.11.0 // indirect
	go.uber.org/zap v1.27.1 // indirect
	go.yaml.in/yaml/v2 v2.4.4 // indirect
	golang.org/x/crypto v0.54.0 // indirect
	golang.org/x/exp v0.0.0-20260410095643-746e56fc9e2f // indirect
	golang.org/x/telemetry v0.0.0-20260708182218-49f421fb7959 // indirect
	golang.org/x/term v0.45.0 // indirect
	golang.org/x/tools v0.48.0 // indirect
	golang.zx2c4.com/wireguard v0.0.0-20231211153847-12269c276173 // indirect
	google.golang.org/api v0.276.0 // indirect
	google.golang.org/genproto v0.0.0-20260319201613-d00831a3d3e7 // indirect
	google.golang.org/genproto/googleapis/api v0.0.0-20260526163538-3dc84a4a5aaa // indirect
	gopkg.in/evanphx/json-patch.v4 v4.13.0 // indirect
	gopkg.in/inf.v0 v0.9.1 // indirect
	gopkg.in/natefinch/lumberjack.v2 v2.2.1 // indirect
	gopkg.in/yaml.v2 v2.4.0 // indirect
	k8s.io/cli-runtime v0.37.0-beta.0 // indirect
	k8s.io/cloud-provider v0.37.0-beta.0 // indirect
	k8s.io/component-helpers v0.37.0-beta.0 // indirect
	k8s.io/controller-manager v0.37.0-beta.0 // indirect
	k8s.io/cri-api v0.37.0-beta.0 // indirect
	k8s.io/cri-client v0.37.0-beta.0 // indirect
	k8s.io/cri-streaming v0.0.0 // indirect
	k8s.io/csi-translation-lib v0.37.0-beta.0 // indirect
	k8s.io/dynamic-resource-allocation v0.37.0-beta.0 // indirect
	k8s.io/kms v0.37.0-beta.0 // indirect
	k8s.io/kube-scheduler v0.37.0-beta.0 // indirect
	k8s.io/kubelet v0.37.0-beta.0 // indirect
	k8s.io/mount-utils v0.37.0-beta.0 // indirect
	k8s.io/pod-security-admission v0.37.0-beta.0
	k8s.io/streaming v0.37.0-beta.0 // indirect
	kubevirt.io/containerized-data-importer-api v1.64.0 // indirect
	kubevirt.io/controller-lifecycle-operator-sdk/api v0.2.4 // indirect
	sigs.k8s.io/apiserver-network-proxy/konnectivity-client v0.36.0 // indirect
	sigs.k8s.io/json v0.0.0-20250730193827-2d320260d730 // indirect
	sigs.k8s.io/kustomize/api v0.21.1 // indirect
	sigs.k8s.io/kustomize/kyaml v0.21.1 // indirect
	sigs.k8s.io/randfill v1.0.0
	sigs.k8s.io/structured-merge-diff/v6 v6.4.2 // indirect
)

replace (
	github.com/projectcalico/api => /repo/api
	github.com/projectcalico/calico/lib/datastructures => /repo/lib/datastructures
	github.com/projectcalico/calico/lib/httpmachinery => /repo/lib/httpmachinery
	github.com/projectcalico/calico/lib/logrusr => /repo/lib/logrusr
	github.com/projectcalico/calico/lib/std => /repo/lib/std

	// Need replacements for all the k8s subsidiary projects that are pulled in indirectly because
	// the kubernets repo pulls them in via a replacement to its own vendored copies, which doesn't work for
	// transient imports.
	k8s.io/api => k8s.io/api v0.37.0-beta.0
	k8s.io/apiextensions-apiserver => k8s.io/apiextensions-apiserver v0.37.0-beta.0
	k8s.io/apimachinery => k8s.io/apimachinery v0.37.0-beta.0
	k8s.io/apiserver => k8s.io/apiserver v0.37.0-beta.0
	k8s.io/cli-runtime => k8s.io/cli-runtime v0.37.0-beta.0
	k8s.io/client-go => k8s.io/client-go v0.37.0-beta.0
	k8s.io/cloud-provider => k8s.io/cloud-provider v0.37.0-beta.0
	k8s.io/cluster-bootstrap => k8s.io/cluster-bootstrap v0.37.0-beta.0
	k8s.io/code-generator => k8s.io/code-generator v0.37.0-beta.0
	k8s.io/component-base => k8s.io/component-base v0.37.0-beta.0
	k8s.io/component-helpers => k8s.io/component-helpers v0.37.0-beta.0
	k8s.io/controller-manager => k8s.io/controller-manager v0.37.0-beta.0
	k8s.io/cri-api => k8s.io/cri-api v0.37.0-beta.0
	k8s.io/cri-streaming => k8s.io/cri-streaming v0.37.0-beta.0
	k8s.io/csi-translation-lib => k8s.io/csi-translation-lib v0.37.0-beta.0
	k8s.io/endpointslice => k8s.io/endpointslice v0.37.0-beta.0
	k8s.io/externaljwt => k8s.io/externaljwt v0.37.0-beta.0
	k8s.io/kube-aggregator => k8s.io/kube-aggregator v0.37.0-beta.0
	k8s.io/kube-controller-manager => k8s.io/kube-controller-manager v0.37.0-beta.0
	// kubevirt.io/client-go requires a tagged kube-openapi version that doesn't
	// exist; pin to the pseudo-version used by the rest of our k8s dependencies.
	k8s.io/kube-openapi => k8s.io/kube-openapi v0.0.0-20260618221249-bc653b64f974
	k8s.io/kube-proxy => k8s.io/kube-proxy v0.37.0-beta.0
	k8s.io/kube-scheduler => k8s.io/kube-scheduler v0.37.0-beta.0
	k8s.io/kubectl => k8s.io/kubectl v0.37.0-beta.0
	k8s.io/kubelet => k8s.io/kubelet v0.37.0-beta.0
	k8s.io/metrics => k8s.io/metrics v0.37.0-beta.0
	k8s.io/mount-utils => k8s.io/mount-utils v0.37.0-beta.0
	k8s.io/pod-security-admission => k8s.io/pod-security-admission v0.37.0-beta.0
	k8s.io/sample-apiserver => k8s.io/sample-apiserver v0.37.0-beta.0
)

require github.com/projectcalico/calico v0.0.0

replace github.com/projectcalico/calico => /repo

require github.com/anishathalye/porcupine v1.3.0

require go.etcd.io/gofail v0.2.0

/* /verif/cstub/bpf_helpers.h - minimal stand-in for libbpf's bpf_helpers.h (libbpf is not installed in
 * this sandbox).  It declares just enough for felix/bpf-gpl headers to be parsed by clang so that
 * sizeof/offsetof of the shared structures can be read out (C13) and so that conntrack_cleanup.c can be
 * compiled natively (C14).  Helper functions are declared as ordinary external functions; for the
 * layout probe they are never called, for the native cleaner they are supplied by cprobe/ctmaps.c. */
#ifndef __VERIF_BPF_HELPERS_STUB__
#define __VERIF_BPF_HELPERS_STUB__

#include <linux/types.h>
#include <linux/bpf.h>

#define SEC(name) __attribute__((section(name), used))
#ifndef __always_inline
#define __always_inline inline __attribute__((always_inline))
#endif
#ifndef __noinline
#define __noinline __attribute__((noinline))
#endif
#ifndef __weak
#define __weak __attribute__((weak))
#endif
#define __uint(name, val) int (*name)[val]
#define __type(name, val) typeof(val) *name
#define __array(name, val) typeof(val) *name[]
#define __kconfig __attribute__((section(".kconfig")))
#define __ksym __attribute__((section(".ksyms")))
#ifndef offsetof
#define offsetof(TYPE, MEMBER) __builtin_offsetof(TYPE, MEMBER)
#endif
#ifndef barrier
#define barrier() asm volatile("" ::: "memory")
#endif
#ifndef barrier_var
#define barrier_var(var) asm volatile("" : "+r"(var))
#endif
#ifndef __bpf_unreachable
#define __bpf_unreachable() __builtin_trap()
#endif

struct __sk_buff;
struct xdp_md;
struct bpf_sock_addr;
struct bpf_fib_lookup;
struct bpf_spin_lock;

void *bpf_map_lookup_elem(void *map, const void *key);
long bpf_map_update_elem(void *map, const void *key, const void *value, __u64 flags);
long bpf_map_delete_elem(void *map, const void *key);
long bpf_for_each_map_elem(void *map, void *callback_fn, void *callback_ctx, __u64 flags);
__u64 bpf_ktime_get_ns(void);
__u64 bpf_ktime_get_boot_ns(void);
long bpf_trace_printk(const char *fmt, __u32 fmt_size, ...);
long bpf_trace_vprintk(const char *fmt, __u32 fmt_size, const void *data, __u32 data_len);
__u32 bpf_get_prandom_u32(void);
__u32 bpf_get_smp_processor_id(void);
long bpf_skb_store_bytes(struct __sk_buff *skb, __u32 offset, const void *from, __u32 len, __u64 flags);
long bpf_skb_load_bytes(const void *skb, __u32 offset, void *to, __u32 len);
long bpf_l3_csum_replace(struct __sk_buff *skb, __u32 offset, __u64 from, __u64 to, __u64 size);
long bpf_l4_csum_replace(struct __sk_buff *skb, __u32 offset, __u64 from, __u64 to, __u64 flags);
long bpf_tail_call(void *ctx, void *prog_array_map, __u32 index);
long bpf_clone_redirect(struct __sk_buff *skb, __u32 ifindex, __u64 flags);
long bpf_redirect(__u32 ifindex, __u64 flags);
long bpf_redirect_neigh(__u32 ifindex, void *params, int plen, __u64 flags);
long bpf_redirect_peer(__u32 ifindex, __u64 flags);
long bpf_perf_event_output(void *ctx, void *map, __u64 flags, void *data, __u64 size);
long bpf_ringbuf_output(void *ringbuf, void *data, __u64 size, __u64 flags);
__s64 bpf_csum_diff(__be32 *from, __u32 from_size, __be32 *to, __u32 to_size, __wsum seed);
long bpf_skb_change_head(struct __sk_buff *skb, __u32 len, __u64 flags);
long bpf_skb_change_tail(struct __sk_buff *skb, __u32 len, __u64 flags);
long bpf_skb_pull_data(struct __sk_buff *skb, __u32 len);
long bpf_skb_adjust_room(struct __sk_buff *skb, __s32 len_diff, __u32 mode, __u64 flags);
long bpf_skb_change_type(struct __sk_buff *skb, __u32 type);
long bpf_skb_change_proto(struct __sk_buff *skb, __be16 proto, __u64 flags);
long bpf_fib_lookup(void *ctx, struct bpf_fib_lookup *params, int plen, __u32 flags);
__u64 bpf_get_socket_cookie(void *ctx);
long bpf_xdp_adjust_head(struct xdp_md *xdp_md, int delta);
long bpf_xdp_adjust_tail(struct xdp_md *xdp_md, int delta);
long bpf_spin_lock(struct bpf_spin_lock *lock);
long bpf_spin_unlock(struct bpf_spin_lock *lock);
long bpf_probe_read(void *dst, __u32 size, const void *unsafe_ptr);
long bpf_probe_read_kernel(void *dst, __u32 size, const void *unsafe_ptr);
long bpf_probe_read_user(void *dst, __u32 size, const void *unsafe_ptr);
__u64 bpf_get_current_pid_tgid(void);
long bpf_get_current_comm(void *buf, __u32 size_of_buf);
long bpf_bind(struct bpf_sock_addr *ctx, void *addr, int addr_len);
long bpf_skb_ecn_set_ce(struct __sk_buff *skb);
long bpf_setsockopt(void *bpf_socket, int level, int optname, void *optval, int optlen);
long bpf_getsockopt(void *bpf_socket, int level, int optname, void *optval, int optlen);
long bpf_sk_release(void *sock);
long bpf_loop(__u32 nr_loops, void *callback_fn, void *callback_ctx, __u64 flags);
long bpf_snprintf(char *str, __u32 str_size, const char *fmt, __u64 *data, __u32 data_len);

#endif

/* /verif/cstub/bpf_core_read.h - stand-in for libbpf's bpf_core_read.h; CO-RE relocations are not
 * needed for layout probing or for the native conntrack cleaner. */
#ifndef __VERIF_BPF_CORE_READ_STUB__
#define __VERIF_BPF_CORE_READ_STUB__
#define bpf_core_field_exists(field...) 1
#define bpf_core_type_exists(type) 1
#define bpf_core_enum_value_exists(t, v) 1
#define bpf_core_field_size(field...) 0
#define BPF_CORE_READ(src, a, ...) ((src)->a)
#ifndef __builtin_preserve_access_index
#endif
#endif

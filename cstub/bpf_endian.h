/* /verif/cstub/bpf_endian.h - stand-in for libbpf's bpf_endian.h (little-endian hosts only). */
#ifndef __VERIF_BPF_ENDIAN_STUB__
#define __VERIF_BPF_ENDIAN_STUB__
#include <linux/types.h>
#if __BYTE_ORDER__ != __ORDER_LITTLE_ENDIAN__
#error "stub assumes a little-endian target"
#endif
#define bpf_htons(x) ((__be16)__builtin_bswap16((__u16)(x)))
#define bpf_ntohs(x) ((__u16)__builtin_bswap16((__u16)(x)))
#define bpf_htonl(x) ((__be32)__builtin_bswap32((__u32)(x)))
#define bpf_ntohl(x) ((__u32)__builtin_bswap32((__u32)(x)))
#define bpf_cpu_to_be64(x) ((__be64)__builtin_bswap64((__u64)(x)))
#define bpf_be64_to_cpu(x) ((__u64)__builtin_bswap64((__u64)(x)))
#define bpf_constant_htons(x) bpf_htons(x)
#define bpf_constant_ntohs(x) bpf_ntohs(x)
#define bpf_constant_htonl(x) bpf_htonl(x)
#define bpf_constant_ntohl(x) bpf_ntohl(x)
#endif

// C32 — flow aggregation conserves counts and emits each window once.
//
// Real code driven
//   - ring cases (7 of 8): goldmane/pkg/storage.BucketRing built with NewBucketRing(n, interval, now,
//     WithPushAfter, WithBucketsToAggregate, WithNowFunc(virtual clock)[, WithStreamReceiver]) and
//     driven single-threaded through AddFlow / Rollover(nil|sink) / EmitFlowCollections / List /
//     Statistics / FlowSet.  Flows are built through types.ProtoToFlow, the path the collector uses.
//   - goldmane cases (1 of 8): the real goldmane.Goldmane main loop (242 buckets) with concurrent
//     Receive goroutines, concurrent List/Statistics callers, sink attach/detach and rollovers
//     triggered through the exported rollover-function option; this is what makes -race meaningful.
//
// Ledger: the harness keeps, per (flow key, bucket start), the sum of the counters of the flows the
// ring accepted.  Acceptance is *observed*, not predicted: after every AddFlow the whole retained
// history is read back bucket by bucket (List over each single-bucket range) and must equal either
// the ledger (flow rejected) or the ledger plus that flow's counters in the one bucket that covers
// the flow's StartTime (flow accepted).  After every Rollover the read-back must equal the ledger
// restricted to [BeginningOfHistory, EndOfHistory).
//
// Oracle
//   - conservation / exactly one bucket: the read-back rule above, after every mutating operation;
//   - range queries: List over bucket-aligned ranges (0 = unbounded), with and without the sorted
//     indices, returns exactly the keys with retained ledger entries in range with the ledger sums;
//     Statistics (group by policy; packets/bytes/live connections; aggregated and time series) over
//     bucket-aligned ranges equals the per-policy ledger sums; FlowSet over an aligned range contains
//     every key of the buckets starting in [gt, lt) and nothing outside the buckets starting in [gt, lt];
//     List over unaligned ranges is only sandwiched (>= sum of buckets fully inside, <= sum of buckets
//     overlapping), because the retained granularity is the bucket;
//   - emission: every FlowCollection received by the sink has StartTime < EndTime, is disjoint from
//     every collection received before (so no window is emitted twice), and contains exactly the
//     ledger sums, per key, of the retained buckets in [StartTime, EndTime) at the moment of emission
//     (no accepted flow of the window left out, nothing counted that is not in the window);
//   - steady-sink ring cases (half of the ring cases: small ring of pushAfter+aggregate+3..+6 buckets,
//     sink attached on EVERY rollover, quiet / steady / mixed traffic phases over several laps of the
//     ring, final drain of pushAfter+aggregate+2 rollovers without new flows): every flow that was
//     accepted while its bucket was still ahead of the emission point must be covered by a collection
//     received after its acceptance (end-to-end sink conservation; together with the per-collection
//     and disjointness checks: exactly once).  Flows accepted later than that, or in cases where
//     some rollover ran without the sink, are not entitled: the unchanged code can legitimately leave
//     such buckets out (the walk stops at the first already-pushed window start).
//   - goldmane cases: after a quiescence barrier, List over the fed range equals the sum of everything
//     fed (every flow counted exactly once despite concurrency); emitted windows pairwise disjoint;
//     after enough sequential rollovers with a sink attached, the sum of everything emitted equals the
//     sum of everything fed.
//
// Deliberately not checked
//   - which flows are accepted (late / future-dated flows may be rejected; the statement only speaks
//     about accepted flows); result order, pagination, filters, filter hints, label intersection,
//     flow StartTime/EndTime fields of results, stream (Receiver) content, rule-level statistics.
//   - A flow key never carries two different rules of the same policy, so that "once per policy" and
//     "once per rule" coincide (policy-level statistics add a flow once per rule it hit).
//   - Flows added to a bucket after that bucket's window was emitted are not expected in any emission.
//   - WithBucketsToAggregate(0) (an endless loop in EmitFlowCollections) and windows larger than the
//     ring are outside the configuration contract and not generated: n >= pushAfter + aggregate + 3.
//   - goldmane cases: the quiescence barrier is 64 sequentially served List calls after the feeders have
//     returned (Go's select serves a ready flow channel with probability >= 1/2 per iteration, and one
//     service drains the whole backlog), not a clock.
//
// FINDING (fixed in /repo as df56604; the revert is kept in /verif/seeded/C32-revert-df56604/patch.diff)
//
//	goldmane/pkg/storage/bucket_ring.go, EmitFlowCollections: the backward walk stopped only when the
//	head index was strictly inside the next window (indexBetween is strict on both sides).  When the
//	walk landed exactly on the head index, i.e. when (len(buckets) - 1 - pushAfter) is a multiple of
//	bucketsToAggregate and no bucket further back was marked pushed, it wrapped around the ring into
//	the newest buckets and revisited buckets it had already collected in the same call: overlapping,
//	premature windows (violation key emitted-windows-overlap, smallest witness in
//	checks/c32/witness-emitted-windows-overlap.json; follow-on key gm-emitted-total-differs-from-fed)
//	or, e.g. for bucketsToAggregate == 1, a walk that never terminated (violation key
//	emit-flow-collections-walk-does-not-terminate).  Reachable with the daemon's 242 buckets through
//	valid settings such as EMIT_AFTER_SECONDS=15..29 with the default windows.
//
// The ring cases are single-threaded and fully replayable.  In the goldmane cases the interleaving of
// the feeder/query/sink goroutines with the main loop is a real schedule and not replayable; the fed
// flows, requests and rollover counts are.  Watchdogs -> Inconclusive.
package main

import (
	"fmt"
	"io"
	"sort"
	"sync"
	"sync/atomic"
	"time"

	"github.com/sirupsen/logrus"

	"github.com/projectcalico/calico/goldmane/pkg/goldmane"
	"github.com/projectcalico/calico/goldmane/pkg/storage"
	"github.com/projectcalico/calico/goldmane/pkg/types"
	"github.com/projectcalico/calico/goldmane/proto"

	"verif/internal/harness"
)

// ---------------------------------------------------------------------------------------------
// runaway guard
//
// EmitFlowCollections walks backwards through the ring one aggregation window at a time; for every
// valid configuration it must finish within one lap, i.e. after examining at most as many windows as
// the ring has buckets.  Before df56604 it did not for some (ring size, pushAfter, bucketsToAggregate)
// combinations, and a goroutine stuck in that loop cannot be interrupted from outside and allocates
// without bound.  The harness therefore observes the walk through the one side channel the public API
// offers, the logger: maybeBuildFlowCollection logs one debug record per examined window.  While an
// emitting call runs, debug logging is switched on (output discarded, null formatter) and a hook
// counts those records per call (a record that does not continue the end-to-start chain of the
// previous one begins a new call); a walk that examines more than n+2 windows in one call is cut off by a panic
// out of the hook (ring cases, recovered by the caller) or by parking the goroutine (goldmane cases)
// and reported as a VIOLATION (key emit-flow-collections-walk-does-not-terminate): such a walk has
// necessarily revisited buckets, so it either re-emits a window or never ends.  The counter
// emit_walk_steps_observed (with a floor) shows that the side channel is still alive.
const walkMessage = "Checking if bucket range should be emitted"

type runawayErr struct{}

type runawayHook struct {
	armed   atomic.Bool
	park    atomic.Bool
	count   atomic.Int64
	limit   atomic.Int64
	seen    atomic.Int64
	tripped atomic.Bool
	notify  atomic.Pointer[func()]
	prev    atomic.Int64 // startIndex of the previous record; a record whose endIndex differs starts a new walk
}

func (h *runawayHook) Levels() []logrus.Level { return []logrus.Level{logrus.DebugLevel} }

func (h *runawayHook) Fire(e *logrus.Entry) error {
	if !h.armed.Load() || e.Message != walkMessage {
		return nil
	}
	h.seen.Add(1)
	// Within one call the walk is chained: each window ends where the previous one started.  A record
	// that does not continue the chain is the first window of a new call (the goldmane loop emits on
	// every rollover and sink change), so the per-call count starts again.
	si, ok1 := e.Data["startIndex"].(int)
	ei, ok2 := e.Data["endIndex"].(int)
	if ok1 && ok2 {
		if int64(ei) != h.prev.Load() {
			h.count.Store(0)
		}
		h.prev.Store(int64(si))
	}
	if h.count.Add(1) <= h.limit.Load() {
		return nil
	}
	h.tripped.Store(true)
	if h.park.Load() {
		if f := h.notify.Load(); f != nil {
			(*f)()
		}
		select {} // park the runaway goroutine for good
	}
	panic(runawayErr{})
}

var guard = &runawayHook{}

type nullFormatter struct{}

func (nullFormatter) Format(*logrus.Entry) ([]byte, error) { return nil, nil }

// ---------------------------------------------------------------------------------------------
// flow keys and counters

type cnt struct {
	PktIn, PktOut, ByteIn, ByteOut, Started, Completed, Live int64
}

func (c *cnt) add(o cnt) {
	c.PktIn += o.PktIn
	c.PktOut += o.PktOut
	c.ByteIn += o.ByteIn
	c.ByteOut += o.ByteOut
	c.Started += o.Started
	c.Completed += o.Completed
	c.Live += o.Live
}

func (c cnt) leq(o cnt) bool {
	return c.PktIn <= o.PktIn && c.PktOut <= o.PktOut && c.ByteIn <= o.ByteIn && c.ByteOut <= o.ByteOut &&
		c.Started <= o.Started && c.Completed <= o.Completed && c.Live <= o.Live
}

func cntOf(f *types.Flow) cnt {
	return cnt{f.PacketsIn, f.PacketsOut, f.BytesIn, f.BytesOut, f.NumConnectionsStarted, f.NumConnectionsCompleted, f.NumConnectionsLive}
}

type polID struct {
	Kind            proto.PolicyKind
	Namespace, Name string
	Tier            string
}

type keyDef struct {
	idx      int
	pk       *proto.FlowKey
	tk       types.FlowKey
	reporter proto.Reporter
	hits     []*proto.PolicyHit // distinct policies, enforced + pending
}

var policyPool = []polID{
	{proto.PolicyKind_CalicoNetworkPolicy, "ns1", "np-a", "default"},
	{proto.PolicyKind_CalicoNetworkPolicy, "ns2", "np-b", "default"},
	{proto.PolicyKind_GlobalNetworkPolicy, "", "gnp-a", "security"},
	{proto.PolicyKind_GlobalNetworkPolicy, "", "gnp-b", "platform"},
	{proto.PolicyKind_StagedNetworkPolicy, "ns1", "staged-a", "default"},
}

func genKeys(r interface{ Intn(int) int }, n int) []*keyDef {
	var out []*keyDef
	for i := 0; i < n; i++ {
		k := &keyDef{idx: i}
		k.reporter = proto.Reporter_Src
		if r.Intn(2) == 0 {
			k.reporter = proto.Reporter_Dst
		}
		// choose 1..3 distinct policies; the last may be a pending (staged) hit
		perm := []int{0, 1, 2, 3, 4}
		for a := len(perm) - 1; a > 0; a-- {
			b := r.Intn(a + 1)
			perm[a], perm[b] = perm[b], perm[a]
		}
		nh := 1 + r.Intn(3)
		trace := &proto.PolicyTrace{}
		for j := 0; j < nh; j++ {
			p := policyPool[perm[j]]
			h := &proto.PolicyHit{Kind: p.Kind, Namespace: p.Namespace, Name: p.Name, Tier: p.Tier,
				Action: proto.Action(1 + r.Intn(3)), PolicyIndex: int64(j), RuleIndex: int64(r.Intn(3))}
			k.hits = append(k.hits, h)
			if p.Kind == proto.PolicyKind_StagedNetworkPolicy {
				trace.PendingPolicies = append(trace.PendingPolicies, h)
			} else {
				trace.EnforcedPolicies = append(trace.EnforcedPolicies, h)
				if r.Intn(3) == 0 { // the same hit also in the pending trace (deduplicated by the index)
					trace.PendingPolicies = append(trace.PendingPolicies, h)
				}
			}
		}
		k.pk = &proto.FlowKey{
			SourceName: fmt.Sprintf("src-%d", i), SourceNamespace: fmt.Sprintf("ns%d", i%3), SourceType: proto.EndpointType_WorkloadEndpoint,
			DestName: fmt.Sprintf("dst-%d", i%4), DestNamespace: fmt.Sprintf("ns%d", i%2), DestType: proto.EndpointType_WorkloadEndpoint,
			DestPort: int64(80 + i), Proto: "tcp", Reporter: k.reporter, Action: proto.Action(1 + r.Intn(2)), Policies: trace,
		}
		k.tk = *types.ProtoToFlowKey(k.pk)
		out = append(out, k)
	}
	return out
}

func mkFlow(r interface{ Intn(int) int }, k *keyDef, start int64) (*types.Flow, cnt) {
	pf := &proto.Flow{Key: k.pk, StartTime: start, EndTime: start + 1,
		SourceLabels: []string{"app=a", "tier=x"}, DestLabels: []string{"app=b"},
		PacketsIn: int64(1 + r.Intn(50)), PacketsOut: int64(r.Intn(50)), BytesIn: int64(r.Intn(5000)), BytesOut: int64(r.Intn(5000)),
		NumConnectionsStarted: int64(r.Intn(3)), NumConnectionsCompleted: int64(r.Intn(3)), NumConnectionsLive: int64(r.Intn(4))}
	f := types.ProtoToFlow(pf)
	return f, cntOf(f)
}

// ---------------------------------------------------------------------------------------------
// ledger

type ledger struct {
	interval int64
	m        map[int64]map[int]*cnt // bucket start -> key idx -> sums
}

func (l *ledger) add(b int64, k int, c cnt) {
	if l.m[b] == nil {
		l.m[b] = map[int]*cnt{}
	}
	if l.m[b][k] == nil {
		l.m[b][k] = &cnt{}
	}
	l.m[b][k].add(c)
}

func (l *ledger) trim(begin int64) int {
	n := 0
	for b := range l.m {
		if b < begin {
			n += len(l.m[b])
			delete(l.m, b)
		}
	}
	return n
}

// sum over buckets selected by sel
func (l *ledger) sum(sel func(bStart int64) bool) map[int]cnt {
	out := map[int]cnt{}
	for b, ks := range l.m {
		if !sel(b) {
			continue
		}
		for k, c := range ks {
			t := out[k]
			t.add(*c)
			out[k] = t
		}
	}
	return out
}

func diffMaps(got, want map[int]cnt) []string {
	var d []string
	for k, w := range want {
		g, ok := got[k]
		if !ok {
			d = append(d, fmt.Sprintf("key %d missing (want %+v)", k, w))
		} else if g != w {
			d = append(d, fmt.Sprintf("key %d got %+v want %+v", k, g, w))
		}
	}
	for k, g := range got {
		if _, ok := want[k]; !ok {
			d = append(d, fmt.Sprintf("key %d unexpected (got %+v)", k, g))
		}
	}
	sort.Strings(d)
	if len(d) > 8 {
		d = d[:8]
	}
	return d
}

// ---------------------------------------------------------------------------------------------
// sink / receiver

type emitted struct {
	start, end int64
	flows      map[types.FlowKey]cnt
	dupKeys    int
	op         int
}

type recSink struct {
	mu  sync.Mutex
	got []emitted
	op  int
}

func (s *recSink) Receive(fc *storage.FlowCollection) {
	e := emitted{start: fc.StartTime, end: fc.EndTime, flows: map[types.FlowKey]cnt{}}
	for i := range fc.Flows {
		f := &fc.Flows[i]
		if _, dup := e.flows[*f.Key]; dup {
			e.dupKeys++
		}
		c := e.flows[*f.Key]
		c.add(cntOf(f))
		e.flows[*f.Key] = c
	}
	s.mu.Lock()
	e.op = s.op
	s.got = append(s.got, e)
	s.mu.Unlock()
}

type nopReceiver struct{ n atomic.Int64 }

func (r *nopReceiver) Receive(p storage.FlowProvider, id string) {
	r.n.Add(1)
	p.Iter(func(storage.FlowBuilder) bool { return false })
}

// ---------------------------------------------------------------------------------------------
// ring case

type ringCase struct {
	c        *harness.Case
	ring     *storage.BucketRing
	n        int
	interval int64
	P, A     int
	keys     []*keyDef
	byKey    map[types.FlowKey]int
	led      *ledger
	sink     *recSink
	ops      []string
	seenWin  []emitted
	checked  int // collections already validated
	now      int64
	emittedB map[int64]bool // bucket starts covered by an emission
	steady   bool           // sink attached on every rollover; end-to-end sink conservation is judged
	entitled []entitledFlow
}

// entitledFlow is a flow that was accepted while its bucket was still ahead of the emission point
// (bucket start >= start of the bucket pushAfter behind "now"), in a case where every rollover has the
// sink attached: it must reach the sink in exactly one collection.
type entitledFlow struct {
	bucket int64
	key    int
	op     int
}

func (rc *ringCase) op(f string, a ...any) {
	rc.ops = append(rc.ops, fmt.Sprintf(f, a...))
	rc.sink.mu.Lock()
	rc.sink.op = len(rc.ops) - 1
	rc.sink.mu.Unlock()
}

func (rc *ringCase) witness(extra map[string]any) map[string]any {
	ops := rc.ops
	if len(ops) > 400 {
		ops = ops[len(ops)-400:]
	}
	m := map[string]any{"n": rc.n, "interval": rc.interval, "pushAfter": rc.P, "bucketsToAggregate": rc.A, "keys": len(rc.keys), "ops": ops}
	for k, v := range extra {
		m[k] = v
	}
	return m
}

// guarded runs an emitting call under the runaway guard; it reports true if the walk was cut off.
func (rc *ringCase) guarded(fn func()) (runaway bool) {
	guard.count.Store(0)
	guard.prev.Store(-1)
	guard.limit.Store(int64(rc.n + 2))
	guard.park.Store(false)
	guard.tripped.Store(false)
	guard.armed.Store(true)
	logrus.SetLevel(logrus.DebugLevel)
	defer func() {
		logrus.SetLevel(logrus.PanicLevel)
		guard.armed.Store(false)
		if r := recover(); r != nil {
			if _, ok := r.(runawayErr); !ok {
				panic(r)
			}
			runaway = true
		}
	}()
	fn()
	return false
}

func (rc *ringCase) runaway(where string) {
	rc.c.Count("emit_walk_runaway_cases", 1)
	rc.c.Distinct("emit_walk_runaway_config", rc.n, rc.P, rc.A)
	rc.c.Violationf("emit-flow-collections-walk-does-not-terminate", rc.witness(map[string]any{"call": where, "windows_examined_limit": rc.n + 2}),
		"%s on a ring of %d buckets (pushAfter %d, bucketsToAggregate %d) examined more than %d windows in one call: the walk does not stop within one lap of the ring",
		where, rc.n, rc.P, rc.A, rc.n+2)
}

func (rc *ringCase) list(gte, lt int64, sortBy proto.SortBy) (map[int]cnt, bool) {
	req := &proto.FlowListRequest{StartTimeGte: gte, StartTimeLt: lt}
	if sortBy != proto.SortBy_Time {
		req.SortBy = []*proto.SortOption{{SortBy: sortBy}}
	}
	flows, _, err := rc.ring.List(req)
	if err != nil {
		rc.c.Violationf("list-error", rc.witness(map[string]any{"gte": gte, "lt": lt}), "List(%d,%d) failed: %v", gte, lt, err)
		return nil, false
	}
	out := map[int]cnt{}
	for _, f := range flows {
		i, ok := rc.byKey[*f.Key]
		if !ok {
			rc.c.Violationf("list-unknown-key", rc.witness(nil), "List returned a flow key that was never added")
			return nil, false
		}
		if _, dup := out[i]; dup {
			rc.c.Violationf("list-duplicate-key", rc.witness(map[string]any{"gte": gte, "lt": lt, "key": i}), "List(%d,%d) returned key %d twice", gte, lt, i)
			return nil, false
		}
		out[i] = cntOf(f)
	}
	return out, true
}

// readBack reads every retained bucket through a single-bucket List.
func (rc *ringCase) readBack() (map[int64]map[int]cnt, bool) {
	out := map[int64]map[int]cnt{}
	for b := rc.ring.BeginningOfHistory(); b < rc.ring.EndOfHistory(); b += rc.interval {
		m, ok := rc.list(b, b+rc.interval, proto.SortBy_Time)
		if !ok {
			return nil, false
		}
		rc.c.Count("bucket_readbacks", 1)
		if len(m) > 0 {
			out[b] = m
		}
	}
	return out, true
}

func (rc *ringCase) ledgerView(extraB int64, extraK int, extra *cnt) map[int64]map[int]cnt {
	out := map[int64]map[int]cnt{}
	for b, ks := range rc.led.m {
		for k, c := range ks {
			if out[b] == nil {
				out[b] = map[int]cnt{}
			}
			out[b][k] = *c
		}
	}
	if extra != nil {
		if out[extraB] == nil {
			out[extraB] = map[int]cnt{}
		}
		t := out[extraB][extraK]
		t.add(*extra)
		out[extraB][extraK] = t
	}
	return out
}

func sameView(a, b map[int64]map[int]cnt) bool {
	if len(a) != len(b) {
		return false
	}
	for bs, ka := range a {
		kb, ok := b[bs]
		if !ok || len(ka) != len(kb) {
			return false
		}
		for k, c := range ka {
			if kb[k] != c {
				return false
			}
		}
	}
	return true
}

func viewDiff(got, want map[int64]map[int]cnt) []string {
	var d []string
	seen := map[int64]bool{}
	for b := range got {
		seen[b] = true
	}
	for b := range want {
		seen[b] = true
	}
	for b := range seen {
		for _, s := range diffMaps(got[b], want[b]) {
			d = append(d, fmt.Sprintf("bucket %d: %s", b, s))
		}
	}
	sort.Strings(d)
	if len(d) > 10 {
		d = d[:10]
	}
	return d
}

// checkEmissions validates collections received since the last call against the current ledger.
func (rc *ringCase) checkEmissions() {
	rc.sink.mu.Lock()
	got := append([]emitted(nil), rc.sink.got[rc.checked:]...)
	rc.checked = len(rc.sink.got)
	rc.sink.mu.Unlock()
	for _, e := range got {
		rc.c.Count("collections_emitted", 1)
		w := map[string]any{"window": []int64{e.start, e.end}}
		if e.start >= e.end {
			rc.c.Violationf("emitted-window-inverted", rc.witness(w), "sink received a collection with window [%d,%d)", e.start, e.end)
			continue
		}
		for _, p := range rc.seenWin {
			if e.start < p.end && p.start < e.end {
				w["previous_window"] = []int64{p.start, p.end}
				w["previous_op"] = p.op
				key := "emitted-windows-overlap"
				if e.start == p.start && e.end == p.end {
					key = "window-emitted-twice"
				}
				rc.c.Violationf(key, rc.witness(w), "sink received window [%d,%d) (op %d) after window [%d,%d) (op %d): not disjoint", e.start, e.end, e.op, p.start, p.end, p.op)
				break
			}
		}
		rc.seenWin = append(rc.seenWin, e)
		if e.dupKeys > 0 {
			rc.c.Violationf("emitted-key-twice-in-collection", rc.witness(w), "collection [%d,%d) lists %d flow key(s) more than once", e.start, e.end, e.dupKeys)
		}
		want := rc.led.sum(func(b int64) bool { return b >= e.start && b < e.end })
		gotM := map[int]cnt{}
		for fk, c := range e.flows {
			i, ok := rc.byKey[fk]
			if !ok {
				i = -1
			}
			gotM[i] = c
		}
		rc.c.Count("emitted_flows_compared", int64(len(want)))
		if d := diffMaps(gotM, want); len(d) > 0 {
			w["diff"] = d
			rc.c.Violationf("emitted-collection-differs-from-ledger", rc.witness(w),
				"collection [%d,%d) differs from the accepted flows of its window: %v", e.start, e.end, d)
		}
		for b := e.start; b < e.end; b += rc.interval {
			rc.emittedB[b] = true
		}
		// a window newer than the configured push delay (observation only, not part of the statement)
		if e.end > rc.ring.EndOfHistory()-rc.interval*int64(2+rc.P) {
			rc.c.Count("emissions_newer_than_push_delay", 1)
		}
	}
}

func runRing(c *harness.Case) {
	r := c.R
	rc := &ringCase{c: c, byKey: map[types.FlowKey]int{}, sink: &recSink{}, emittedB: map[int64]bool{}}
	rc.interval = []int64{1, 5, 15}[r.Intn(3)]
	rc.P = r.Intn(5)
	rc.A = 1 + r.Intn(4)
	rc.n = rc.P + rc.A + 3 + r.Intn(c.Pick(8, 20))
	rc.steady = r.Intn(2) == 0
	if rc.steady {
		rc.n = rc.P + rc.A + 3 + r.Intn(4) // small ring: laps are cheap
	}
	nKeys := 1 + r.Intn(c.Pick(8, 16))
	rc.keys = genKeys(r, nKeys)
	for _, k := range rc.keys {
		rc.byKey[k.tk] = k.idx
	}
	rc.led = &ledger{interval: rc.interval, m: map[int64]map[int]*cnt{}}
	rc.now = 1700000100 - 1700000100%rc.interval
	clock := func() time.Time { return time.Unix(rc.now, 0) }
	opts := []storage.BucketRingOption{storage.WithPushAfter(rc.P), storage.WithBucketsToAggregate(rc.A), storage.WithNowFunc(clock)}
	var recv *nopReceiver
	if r.Intn(2) == 0 {
		recv = &nopReceiver{}
		opts = append(opts, storage.WithStreamReceiver(recv))
	}
	rc.ring = storage.NewBucketRing(rc.n, int(rc.interval), rc.now, opts...)
	rc.op("NewBucketRing n=%d interval=%d now=%d pushAfter=%d aggregate=%d history=[%d,%d)", rc.n, rc.interval, rc.now, rc.P, rc.A,
		rc.ring.BeginningOfHistory(), rc.ring.EndOfHistory())

	// per-policy ledger for Statistics: bucket -> policy -> (packets, bytes, conns) by action/direction
	type polStats struct{ packets, bytes, conns [6]int64 } // AllowedIn, AllowedOut, DeniedIn, DeniedOut, PassedIn, PassedOut
	pstats := map[int64]map[polID]*polStats{}
	addStats := func(b int64, k *keyDef, c cnt) {
		if pstats[b] == nil {
			pstats[b] = map[polID]*polStats{}
		}
		seen := map[polID]bool{}
		for _, h := range k.hits {
			id := polID{h.Kind, h.Namespace, h.Name, h.Tier}
			if seen[id] {
				continue
			}
			seen[id] = true
			ps := pstats[b][id]
			if ps == nil {
				ps = &polStats{}
				pstats[b][id] = ps
			}
			base := map[proto.Action]int{proto.Action_Allow: 0, proto.Action_Deny: 2, proto.Action_Pass: 4}[h.Action]
			ps.packets[base] += c.PktIn
			ps.packets[base+1] += c.PktOut
			ps.bytes[base] += c.ByteIn
			ps.bytes[base+1] += c.ByteOut
			if k.reporter == proto.Reporter_Src {
				ps.conns[base+1] += c.Live
			} else {
				ps.conns[base] += c.Live
			}
		}
	}

	verifyState := func(what string) bool {
		got, ok := rc.readBack()
		if !ok {
			return false
		}
		want := rc.ledgerView(0, 0, nil)
		if !sameView(got, want) {
			c.Violationf("retained-history-differs-from-ledger", rc.witness(map[string]any{"diff": viewDiff(got, want)}),
				"after %s the retained history differs from the ledger of accepted flows: %v", what, viewDiff(got, want))
			return false
		}
		return true
	}

	doRollover := func(withSink bool) bool {
		begin, end := rc.ring.BeginningOfHistory(), rc.ring.EndOfHistory()
		rc.now += rc.interval
		rc.op("Rollover sink=%v", withSink)
		if withSink {
			if rc.guarded(func() { rc.ring.Rollover(rc.sink) }) {
				rc.runaway("Rollover(sink)")
				return false
			}
		} else {
			rc.ring.Rollover(nil)
		}
		c.Count("rollovers", 1)
		nb := rc.ring.BeginningOfHistory()
		if nb != begin+rc.interval || rc.ring.EndOfHistory() != end+rc.interval {
			c.Violationf("rollover-window", rc.witness(nil), "Rollover moved history from [%d,%d) to [%d,%d)", begin, end, nb, rc.ring.EndOfHistory())
			return false
		}
		dropped := rc.led.trim(nb)
		c.Count("ledger_entries_expired", int64(dropped))
		for b := range pstats {
			if b < nb {
				delete(pstats, b)
			}
		}
		for b := range rc.emittedB {
			if b < nb {
				delete(rc.emittedB, b)
			}
		}
		rc.checkEmissions()
		return verifyState("Rollover")
	}

	nOps := c.Pick(80, 160)
	if rc.steady {
		nOps = c.Pick(60, 120) + rc.n*c.Pick(8, 14) // several laps of the (small) ring
	}
	phase, phaseLeft := 0, 0
	for i := 0; i < nOps && !c.Failed(); i++ {
		begin, end := rc.ring.BeginningOfHistory(), rc.ring.EndOfHistory()
		x, y := r.Intn(20), r.Intn(12)
		if rc.steady {
			// traffic phases: quiet (rollovers only), steady (one flow into the filling bucket per
			// rollover), mixed (the general operation mix, rollover-heavy)
			if phaseLeft == 0 {
				phase, phaseLeft = r.Intn(3), 2+r.Intn(2*rc.n)
			}
			phaseLeft--
			switch phase {
			case 0:
				if x%4 == 0 {
					x = 15 + x%5 // a query
				} else {
					x = 9
				}
			case 1:
				if i%2 == 0 {
					x, y = 0, 0
				} else {
					x = 9
				}
			default:
				if x%3 == 0 {
					x = 9
				}
			}
		}
		switch {
		case x < 9: // AddFlow
			k := rc.keys[r.Intn(nKeys)]
			var start int64
			kind := ""
			switch {
			case y < 4: // the currently filling bucket
				start = end - 2*rc.interval + int64(r.Intn(int(rc.interval)))
				kind = "now"
			case y < 7: // anywhere in the retained history
				start = begin + int64(r.Intn(int(end-begin)))
				kind = "in-window"
			case y == 7: // the head (one bucket in the future)
				start = end - rc.interval + int64(r.Intn(int(rc.interval)))
				kind = "head"
			case y == 8: // boundaries
				start = []int64{begin, end - 1, begin - 1, end}[r.Intn(4)]
				kind = "boundary"
			case y == 9: // late
				start = begin - 1 - int64(r.Intn(int(3*rc.interval)))
				kind = "late"
			case y == 10: // future
				start = end + int64(r.Intn(int(3*rc.interval)))
				kind = "future"
			default: // a bucket whose window was already emitted, if any
				start = begin + int64(r.Intn(int(end-begin)))
				kind = "in-window"
				for b := begin; b < end; b += rc.interval { // oldest retained emitted bucket (deterministic)
					if rc.emittedB[b] {
						start = b
						kind = "into-emitted"
						break
					}
				}
			}
			f, fc := mkFlow(r, k, start)
			rc.op("AddFlow key=%d start=%d (%s) %+v", k.idx, start, kind, fc)
			rc.ring.AddFlow(f)
			c.Count("addflow_"+kind, 1)
			got, ok := rc.readBack()
			if !ok {
				return
			}
			b := start - ((start%rc.interval)+rc.interval)%rc.interval
			switch {
			case sameView(got, rc.ledgerView(0, 0, nil)):
				c.Count("flows_rejected", 1)
				if start >= begin && start < end {
					c.Count("flows_rejected_inside_history", 1)
				}
			case sameView(got, rc.ledgerView(b, k.idx, &fc)):
				c.Count("flows_accepted", 1)
				rc.led.add(b, k.idx, fc)
				addStats(b, k, fc)
				if rc.emittedB[b] {
					c.Count("flows_accepted_into_emitted_bucket", 1)
				}
				if rc.steady && b >= end-rc.interval*int64(2+rc.P) {
					rc.entitled = append(rc.entitled, entitledFlow{bucket: b, key: k.idx, op: len(rc.ops) - 1})
				}
			default:
				want := rc.ledgerView(b, k.idx, &fc)
				c.Violationf("addflow-not-conserved", rc.witness(map[string]any{"diff_vs_accepted": viewDiff(got, want), "diff_vs_rejected": viewDiff(got, rc.ledgerView(0, 0, nil))}),
					"after AddFlow(key %d, start %d) the retained history is neither unchanged nor grown by exactly that flow in bucket %d: %v", k.idx, start, b, viewDiff(got, want))
				return
			}
		case x < 13: // Rollover
			if !doRollover(rc.steady || r.Intn(2) == 0) {
				return
			}
		case x < 15: // EmitFlowCollections
			rc.op("EmitFlowCollections")
			if rc.guarded(func() { rc.ring.EmitFlowCollections(rc.sink) }) {
				rc.runaway("EmitFlowCollections")
				return
			}
			c.Count("emit_calls", 1)
			rc.checkEmissions()
			if !verifyState("EmitFlowCollections") {
				return
			}
		case x < 17: // List over a range
			aligned := r.Intn(4) != 0
			var gte, lt int64
			nb := (end - begin) / rc.interval
			if aligned {
				if r.Intn(3) != 0 {
					gte = begin + rc.interval*int64(r.Intn(int(nb)))
				}
				if r.Intn(3) != 0 {
					lo := begin
					if gte != 0 {
						lo = gte
					}
					lt = lo + rc.interval*int64(1+r.Intn(int((end-lo)/rc.interval)))
				}
			} else {
				gte = begin + int64(r.Intn(int(end-begin)))
				lt = gte + 1 + int64(r.Intn(int(end-gte)))
			}
			sortBy := []proto.SortBy{proto.SortBy_Time, proto.SortBy_Time, proto.SortBy_DestName, proto.SortBy_SourceName, proto.SortBy_DestNamespace, proto.SortBy_SourceNamespace}[r.Intn(6)]
			rc.op("List gte=%d lt=%d sort=%v aligned=%v", gte, lt, sortBy, aligned)
			got, ok := rc.list(gte, lt, sortBy)
			if !ok {
				return
			}
			inner := rc.led.sum(func(b int64) bool { return (gte == 0 || b >= gte) && (lt == 0 || b+rc.interval <= lt) })
			if aligned {
				c.Count("range_queries_exact", 1)
				if d := diffMaps(got, inner); len(d) > 0 {
					c.Violationf("list-range-differs-from-ledger", rc.witness(map[string]any{"gte": gte, "lt": lt, "sort": sortBy.String(), "diff": d}),
						"List(gte=%d, lt=%d, sort=%v) differs from the ledger sums of the retained flows in range: %v", gte, lt, sortBy, d)
					return
				}
			} else {
				c.Count("range_queries_sandwiched", 1)
				outer := rc.led.sum(func(b int64) bool { return b+rc.interval > gte && b < lt })
				for k, in := range inner {
					g, ok := got[k]
					if !ok || !in.leq(g) {
						c.Violationf("list-unaligned-below-inner-sum", rc.witness(map[string]any{"gte": gte, "lt": lt, "key": k}),
							"List(gte=%d, lt=%d): key %d returned %+v (present=%v), less than the sum %+v of the buckets fully inside the range", gte, lt, k, g, ok, in)
						return
					}
				}
				for k, g := range got {
					if !g.leq(outer[k]) {
						c.Violationf("list-unaligned-above-outer-sum", rc.witness(map[string]any{"gte": gte, "lt": lt, "key": k}),
							"List(gte=%d, lt=%d): key %d returned %+v, more than the sum %+v of the buckets overlapping the range", gte, lt, k, g, outer[k])
						return
					}
				}
			}
		case x < 19: // Statistics
			headStart := end - rc.interval
			nb := (headStart - begin) / rc.interval
			var gte, lt int64
			if r.Intn(3) != 0 {
				gte = begin + rc.interval*int64(r.Intn(int(nb)))
			}
			if r.Intn(3) != 0 {
				lo := begin
				if gte != 0 {
					lo = gte
				}
				lt = lo + rc.interval*int64(1+r.Intn(int((headStart-lo)/rc.interval)))
			}
			typ := proto.StatisticType(r.Intn(3))
			ts := r.Intn(2) == 0
			rc.op("Statistics gte=%d lt=%d type=%v timeSeries=%v", gte, lt, typ, ts)
			res, err := rc.ring.Statistics(&proto.StatisticsRequest{StartTimeGte: gte, StartTimeLt: lt, Type: typ, GroupBy: proto.StatisticsGroupBy_Policy, TimeSeries: ts})
			if err != nil {
				c.Violationf("statistics-error", rc.witness(map[string]any{"gte": gte, "lt": lt}), "Statistics(%d,%d) failed: %v", gte, lt, err)
				return
			}
			c.Count("statistics_queries", 1)
			lo, hi := gte, lt
			if lo == 0 {
				lo = begin
			}
			if hi == 0 {
				hi = headStart
			}
			// expected: policy -> bucket -> six counters
			want := map[polID]map[int64][6]int64{}
			for b, ps := range pstats {
				if b < lo || b >= hi {
					continue
				}
				for id, s := range ps {
					if want[id] == nil {
						want[id] = map[int64][6]int64{}
					}
					want[id][b] = [][6]int64{s.packets, s.bytes, s.conns}[typ]
				}
			}
			got := map[polID]map[int64][6]int64{}
			for _, sr := range res {
				id := polID{sr.Policy.Kind, sr.Policy.Namespace, sr.Policy.Name, sr.Policy.Tier}
				if got[id] != nil {
					c.Violationf("statistics-policy-twice", rc.witness(nil), "Statistics returned policy %+v twice", id)
					return
				}
				got[id] = map[int64][6]int64{}
				for j := range sr.AllowedIn {
					x := int64(-1)
					if ts {
						x = sr.X[j]
					}
					got[id][x] = [6]int64{sr.AllowedIn[j], sr.AllowedOut[j], sr.DeniedIn[j], sr.DeniedOut[j], sr.PassedIn[j], sr.PassedOut[j]}
				}
			}
			if !ts { // fold expectation over time
				for id, bs := range want {
					var t [6]int64
					for _, v := range bs {
						for j := range t {
							t[j] += v[j]
						}
					}
					want[id] = map[int64][6]int64{-1: t}
				}
			}
			if fmt.Sprint(got) != fmt.Sprint(want) {
				c.Violationf("statistics-differ-from-ledger", rc.witness(map[string]any{"gte": gte, "lt": lt, "type": typ.String(), "time_series": ts,
					"got": fmt.Sprint(got), "want": fmt.Sprint(want)}),
					"Statistics(gte=%d, lt=%d, %v, timeSeries=%v) differs from the per-policy ledger sums: got %v want %v", gte, lt, typ, ts, got, want)
				return
			}
		default: // FlowSet
			nb := (end - begin) / rc.interval
			var gt, lt int64
			if r.Intn(3) != 0 {
				gt = begin + rc.interval*int64(r.Intn(int(nb)))
			}
			if r.Intn(3) != 0 {
				lo := begin
				if gt != 0 {
					lo = gt
				}
				lt = lo + rc.interval*int64(1+r.Intn(int((end-lo)/rc.interval)))
			}
			rc.op("FlowSet gt=%d lt=%d", gt, lt)
			set := rc.ring.FlowSet(gt, lt)
			c.Count("flowset_queries", 1)
			got := map[int]bool{}
			for d := range set.All() {
				if i, ok := rc.byKey[d.Key]; ok {
					got[i] = true
				}
			}
			must := rc.led.sum(func(b int64) bool { return (gt == 0 || b >= gt) && (lt == 0 || b < lt) })
			may := rc.led.sum(func(b int64) bool { return (gt == 0 || b >= gt) && (lt == 0 || b <= lt) })
			for k := range must {
				if !got[k] {
					c.Violationf("flowset-misses-key", rc.witness(map[string]any{"gt": gt, "lt": lt, "key": k}), "FlowSet(%d,%d) lacks key %d which has accepted flows in range", gt, lt, k)
					return
				}
			}
			for k := range got {
				if _, ok := may[k]; !ok {
					c.Violationf("flowset-extra-key", rc.witness(map[string]any{"gt": gt, "lt": lt, "key": k}), "FlowSet(%d,%d) contains key %d which has no accepted flow in range", gt, lt, k)
					return
				}
			}
		}
	}
	if c.Failed() {
		return
	}
	// steady-sink cases: drain (no new flows) until every entitled flow's bucket is at least a whole
	// aggregation window behind the emission point, then every entitled flow must have been handed to
	// the sink in a collection received after the flow was accepted.  Collections are individually
	// checked against the ledger and against each other (disjoint), so coverage means "exactly once".
	if rc.steady {
		for i := 0; i < rc.P+rc.A+2; i++ {
			if !doRollover(true) {
				return
			}
		}
		var lost []string
		for _, e := range rc.entitled {
			covered := false
			for _, w := range rc.seenWin {
				if w.start <= e.bucket && e.bucket < w.end && w.op > e.op {
					covered = true
					break
				}
			}
			c.Count("entitled_flows_checked", 1)
			if !covered {
				lost = append(lost, fmt.Sprintf("key %d bucket %d accepted at op %d", e.key, e.bucket, e.op))
			}
		}
		if len(lost) > 0 {
			var wins [][]int64
			for _, w := range rc.seenWin {
				wins = append(wins, []int64{w.start, w.end, int64(w.op)})
			}
			n := len(lost)
			if n > 10 {
				lost = lost[:10]
			}
			c.Violationf("accepted-flow-never-emitted", rc.witness(map[string]any{"lost": lost, "windows_start_end_op": wins}),
				"sink attached on every rollover, ring drained: %d flow(s) accepted ahead of the emission point were never handed to the sink: %v", n, lost)
			return
		}
		c.Count("steady_sink_cases", 1)
	}
	// final: catch up emission and verify everything once more
	rc.op("EmitFlowCollections (final)")
	if rc.guarded(func() { rc.ring.EmitFlowCollections(rc.sink) }) {
		rc.runaway("EmitFlowCollections")
		return
	}
	rc.checkEmissions()
	verifyState("the final emission")
	c.Count("ring_cases", 1)
	c.Count("emit_walk_steps_observed", guard.seen.Swap(0))
	if len(rc.seenWin) > 0 && len(rc.led.m) > 0 {
		c.NonTrivial(rc.ops)
	}
	c.Distinct("ring_config", rc.n, rc.interval, rc.P, rc.A)
	if c.Index < 6 {
		ops := rc.ops
		if len(ops) > 12 {
			ops = ops[:12]
		}
		c.Sample(map[string]any{"n": rc.n, "interval": rc.interval, "pushAfter": rc.P, "aggregate": rc.A, "keys": nKeys, "windows_emitted": len(rc.seenWin), "first_ops": ops})
	}
}

// ---------------------------------------------------------------------------------------------
// goldmane case: the real main loop under concurrency

func runGoldmane(c *harness.Case) {
	r := c.R
	const interval = 15
	P := 4 + r.Intn(3)
	A := 2 + r.Intn(4)
	nKeys := 2 + r.Intn(6)
	keys := genKeys(r, nKeys)
	byName := map[string]int{}
	for _, k := range keys {
		byName[k.pk.SourceName] = k.idx
	}
	var now atomic.Int64
	t0 := int64(1700000100)
	now.Store(t0)
	var rmu sync.Mutex
	rcond := sync.NewCond(&rmu)
	var rollCh chan time.Time
	rollCalls := 0
	rollFn := func(time.Duration) <-chan time.Time {
		rmu.Lock()
		defer rmu.Unlock()
		rollCh = make(chan time.Time, 1)
		rollCalls++
		rcond.Broadcast()
		return rollCh
	}
	// runaway guard in park mode for the whole case (emission happens on the main loop goroutine)
	runawayCh := make(chan struct{})
	var once sync.Once
	nf := func() {
		once.Do(func() { close(runawayCh) })
		rmu.Lock()
		rcond.Broadcast()
		rmu.Unlock()
	}
	guard.notify.Store(&nf)
	guard.count.Store(0)
	guard.prev.Store(-1)
	guard.limit.Store(242 + 2)
	guard.park.Store(true)
	guard.tripped.Store(false)
	guard.armed.Store(true)
	logrus.SetLevel(logrus.DebugLevel)
	defer func() {
		logrus.SetLevel(logrus.PanicLevel)
		guard.armed.Store(false)
		guard.notify.Store(nil)
		c.Count("emit_walk_steps_observed", guard.seen.Swap(0))
	}()
	isRunaway := func() bool {
		if guard.tripped.Load() {
			c.Count("emit_walk_runaway_cases", 1)
			c.Distinct("emit_walk_runaway_config", 242, P, A)
			c.Violationf("emit-flow-collections-walk-does-not-terminate", map[string]any{"n": 242, "pushIndex": P, "bucketsToCombine": A},
				"goldmane main loop (242 buckets, pushIndex %d, bucketsToCombine %d): EmitFlowCollections examined more than 244 windows in one call; the loop goroutine was parked", P, A)
			return true
		}
		return false
	}
	gm := goldmane.NewGoldmane(goldmane.WithRolloverTime(interval*time.Second), goldmane.WithRolloverFunc(rollFn),
		goldmane.WithNowFunc(func() time.Time { return time.Unix(now.Load(), 0) }),
		goldmane.WithBucketsToCombine(A), goldmane.WithPushIndex(P))
	<-gm.Run(t0)
	defer gm.Stop()
	timedOut := atomic.Bool{}
	wd := time.AfterFunc(60*time.Second, func() {
		timedOut.Store(true)
		rmu.Lock()
		rcond.Broadcast()
		rmu.Unlock()
	})
	defer wd.Stop()
	// rollover: advance the clock, fire the timer channel, wait until the loop has asked for the next timer
	rollover := func() bool {
		rmu.Lock()
		defer rmu.Unlock()
		want := rollCalls + 1
		now.Add(interval)
		rollCh <- time.Unix(now.Load(), 0)
		for rollCalls < want && !timedOut.Load() && !guard.tripped.Load() {
			rcond.Wait()
		}
		return rollCalls >= want
	}

	// flows: all inside [t0-2*interval, t0+interval), far away from both ends of the 242-bucket ring
	nFeeders := 2 + r.Intn(3)
	perFeeder := c.Pick(150, 400)
	fed := map[int]cnt{}
	feeds := make([][]*types.Flow, nFeeders)
	for i := range feeds {
		for j := 0; j < perFeeder; j++ {
			k := keys[r.Intn(nKeys)]
			start := t0 - 2*interval + int64(r.Intn(3*interval))
			f, fc := mkFlow(r, k, start)
			feeds[i] = append(feeds[i], f)
			t := fed[k.idx]
			t.add(fc)
			fed[k.idx] = t
		}
	}
	nQueries := 20 + r.Intn(40)
	type q struct {
		stats   bool
		gte, lt int64
	}
	queries := make([]q, nQueries)
	for i := range queries {
		queries[i] = q{stats: r.Intn(3) == 0, gte: t0 - int64(interval*(1+r.Intn(6))), lt: t0 + int64(interval*(1+r.Intn(3)))}
	}
	r1 := r.Intn(P - 1) // rollovers during the concurrent phase: too few for any fed bucket to be due
	sinkToggles := 2 + r.Intn(5)

	sink := &recSink{}
	var wg sync.WaitGroup
	for i := range feeds {
		wg.Add(1)
		go func(fl []*types.Flow) {
			defer wg.Done()
			for _, f := range fl {
				gm.Receive(f)
			}
		}(feeds[i])
	}
	wg.Add(1)
	go func() {
		defer wg.Done()
		for _, qu := range queries {
			if qu.stats {
				_, _ = gm.Statistics(&proto.StatisticsRequest{StartTimeGte: qu.gte, StartTimeLt: qu.lt, Type: proto.StatisticType_PacketCount, GroupBy: proto.StatisticsGroupBy_Policy})
			} else {
				_, _ = gm.List(&proto.FlowListRequest{StartTimeGte: qu.gte, StartTimeLt: qu.lt})
			}
		}
	}()
	wg.Add(1)
	go func() {
		defer wg.Done()
		for i := 0; i < sinkToggles; i++ {
			if i%2 == 0 {
				<-gm.SetSink(sink)
			} else {
				<-gm.SetSink(nil)
			}
		}
	}()
	ok := true
	for i := 0; i < r1 && ok; i++ {
		ok = rollover()
	}
	wgDone := make(chan struct{})
	go func() { wg.Wait(); close(wgDone) }()
	select {
	case <-wgDone:
	case <-runawayCh:
	case <-time.After(60 * time.Second):
		timedOut.Store(true)
	}
	if isRunaway() {
		return
	}
	if !ok || timedOut.Load() {
		c.Inconclusive("goldmane-rollover-watchdog")
		return
	}
	c.Count("gm_flows_fed", int64(nFeeders*perFeeder))
	c.Count("gm_concurrent_queries", int64(nQueries))
	c.Count("gm_sink_toggles", int64(sinkToggles))

	// quiescence barrier: 64 sequentially served requests
	full := &proto.FlowListRequest{StartTimeGte: t0 - 4*interval, StartTimeLt: t0 + 2*interval}
	var res *proto.FlowListResult
	for i := 0; i < 64; i++ {
		var err error
		res, err = gm.List(&proto.FlowListRequest{StartTimeGte: full.StartTimeGte, StartTimeLt: full.StartTimeLt})
		if err != nil {
			c.Violationf("gm-list-error", map[string]any{"err": err.Error()}, "Goldmane.List failed: %v", err)
			return
		}
	}
	got := map[int]cnt{}
	for _, fr := range res.Flows {
		i, okk := byName[fr.Flow.Key.SourceName]
		if !okk {
			i = -1
		}
		t := got[i]
		t.add(cnt{fr.Flow.PacketsIn, fr.Flow.PacketsOut, fr.Flow.BytesIn, fr.Flow.BytesOut, fr.Flow.NumConnectionsStarted, fr.Flow.NumConnectionsCompleted, fr.Flow.NumConnectionsLive})
		got[i] = t
	}
	cfg := map[string]any{"pushIndex": P, "bucketsToCombine": A, "feeders": nFeeders, "per_feeder": perFeeder, "rollovers_while_feeding": r1, "sink_toggles": sinkToggles}
	c.Count("gm_conservation_checks", 1)
	if d := diffMaps(got, fed); len(d) > 0 {
		cfg["diff"] = d
		c.Violationf("gm-concurrent-ingest-not-conserved", cfg, "after concurrent ingestion the listed totals differ from the sum of the flows fed: %v", d)
		return
	}

	// drain phase: sink attached, enough sequential rollovers for every fed bucket to be emitted once
	<-gm.SetSink(sink)
	for i := 0; i < P+A+4 && ok; i++ {
		ok = rollover()
	}
	if isRunaway() {
		return
	}
	if !ok {
		c.Inconclusive("goldmane-rollover-watchdog")
		return
	}
	// one more served request so that the last rollover's emission has completed
	_, _ = gm.List(&proto.FlowListRequest{StartTimeGte: full.StartTimeGte, StartTimeLt: full.StartTimeLt})
	sink.mu.Lock()
	ems := append([]emitted(nil), sink.got...)
	sink.mu.Unlock()
	total := map[int]cnt{}
	var wins [][]int64
	for i, e := range ems {
		wins = append(wins, []int64{e.start, e.end})
		for j := 0; j < i; j++ {
			p := ems[j]
			if e.start < p.end && p.start < e.end {
				cfg["windows"] = wins
				c.Violationf("emitted-windows-overlap", cfg, "goldmane sink received window [%d,%d) after window [%d,%d): not disjoint", e.start, e.end, p.start, p.end)
				return
			}
		}
		for fk, cc := range e.flows {
			i := -1
			for _, k := range keys {
				if k.tk == fk {
					i = k.idx
				}
			}
			t := total[i]
			t.add(cc)
			total[i] = t
		}
	}
	c.Count("gm_collections_emitted", int64(len(ems)))
	c.Count("gm_emission_total_checks", 1)
	if d := diffMaps(total, fed); len(d) > 0 {
		cfg["diff"] = d
		cfg["windows"] = wins
		c.Violationf("gm-emitted-total-differs-from-fed", cfg, "after draining, the sum of all emitted collections differs from the sum of the flows fed: %v", d)
		return
	}
	c.Count("goldmane_cases", 1)
	c.NonTrivial("goldmane", P, A, nFeeders, perFeeder, r1, sinkToggles)
	c.Distinct("gm_config", P, A)
}

func run(c *harness.Case) {
	if c.Index%8 == 7 {
		runGoldmane(c)
		return
	}
	runRing(c)
}

func main() {
	logrus.SetOutput(io.Discard)
	logrus.SetFormatter(nullFormatter{})
	logrus.SetLevel(logrus.PanicLevel)
	logrus.AddHook(guard)
	harness.Main(harness.Check{
		ID:    "C32",
		Level: "exploration",
		Rule: "ring cases (7 of 8): PRNG ring (n = pushAfter+aggregate+3..+10 buckets, interval 1|5|15 s, pushAfter 0..4, aggregate 1..4, 1..8 flow keys with 1..3 policy hits) and 80 (thorough 160) PRNG operations " +
			"AddFlow (now / anywhere in history / head / boundaries / late / future / into an already emitted bucket), Rollover with or without sink, EmitFlowCollections, List, Statistics, FlowSet; " +
			"goldmane cases (1 of 8): the real Goldmane loop with 2..4 concurrent feeders, concurrent queries, sink attach/detach and rollovers; " +
			"non-trivial = at least one window emitted and a non-empty ledger (ring) / always (goldmane); distinct by the operation list",
		Assumptions: []string{
			"the ledger is updated from observed acceptance (read-back of every retained bucket after every AddFlow), not from a model of the acceptance rule",
			"ring cases are single-threaded; only the goldmane cases exercise concurrency (real, not replayable schedules) and give the race detector something to see",
			"flow keys never hit two different rules of one policy; rule-level statistics are not judged",
			"goldmane cases use a 64-request quiescence barrier instead of a clock",
		},
		Cases: func(tier string) int {
			if tier == "thorough" {
				return 10000
			}
			return 1000
		},
		Run:         run,
		CaseTimeout: 120 * time.Second,
		Floors: map[string]int64{"flows_accepted": 5000, "flows_rejected": 500, "rollovers": 3000, "collections_emitted": 500, "emitted_flows_compared": 500,
			"range_queries_exact": 1000, "statistics_queries": 1000, "flowset_queries": 500, "bucket_readbacks": 50000,
			"entitled_flows_checked": 3000, "steady_sink_cases": 100, "gm_conservation_checks": 20, "gm_emission_total_checks": 20, "flows_accepted_into_emitted_bucket": 20, "emit_walk_steps_observed": 2000},
	})
}

// C30 — Windows rule flattening preserves policy verdicts for supported rules.
//
// Real code driven: policysets.NewPolicySets(fake HNS, IP set cache, no static rules),
// AddOrReplacePolicySet for generated policies and profiles, GetPolicySetRules once per tier (and once
// for the profiles) in the layout felix/dataplane/windows/endpoint_mgr.go builds, then the real
// flattenTiers and rewritePriorities (verif export of package windataplane), and ProcessIpSetUpdate
// after IP set contents change.
//
// Generated rules use only criteria the Windows dataplane supports: IPv4, no negation, no ICMP, no named
// ports; protocol by name or number or absent; 0-3 CIDRs per side (sometimes with IPv6 entries mixed in),
// at most one IP set per side (alone or together with CIDRs), port lists, (ip,proto,port) sets in egress
// rules; actions allow / deny / pass; ip_version 4, 6 or unset.  Some IP sets and port lists are larger
// than the 4000-entries-per-HNS-rule chunk so that one rule is split over several HNS rules.
//
// Judged twice per packet: (a) every per-tier list exactly as GetPolicySetRules returns it (first matching
// rule of the tier's policies: allow / block / pass, else the end-of-tier rule) and (b) the flattened,
// re-prioritised endpoint list against refpolicy.Endpoint.
// Oracle: an evaluator of HNS ACL semantics written here (a rule matches when protocol (256 = any),
// local/remote address lists and local/remote port lists all match; the matching rule with the lowest
// priority value decides; if several matching rules share that priority they must agree on the action,
// which is what "all permutations of equal-priority rules" amounts to) against
// /verif/internal/refpolicy.Endpoint on the same tiers, profiles, IP sets and packet.
//
// Deliberately not checked:
//   - a pass action, or default action Pass, in the LAST rule list when that list is a tier (the default
//     tier): Windows turns it into block while the policy model continues with the profiles; not generated.
//   - more than one positive IP set on one side of a rule (the flattener unions them, the model
//     intersects; the calculation graph emits at most one per side).
//   - (ip,proto,port) sets in ingress rules (API validation forbids destination services there).
//   - packets for which refpolicy reports the documented profile-pass ambiguity; log actions; static rules;
//     host rules; IPv6 packets (the Windows dataplane is IPv4-only).
//   - the tier assembly of windows/endpoint_mgr.go (which tiers are included, when profiles are appended)
//     is mirrored by the harness, not executed.
package main

import (
	"fmt"
	"io"
	"net/netip"
	"sort"
	"strconv"
	"strings"

	"github.com/sirupsen/logrus"

	windataplane "github.com/projectcalico/calico/felix/dataplane/windows"
	"github.com/projectcalico/calico/felix/dataplane/windows/hns"
	"github.com/projectcalico/calico/felix/dataplane/windows/policysets"
	"github.com/projectcalico/calico/felix/proto"

	"verif/internal/harness"
	"verif/internal/refpolicy"
)

// ---------------------------------------------------------------- fakes

type fakeHNS struct{ ruleID bool }

func (f fakeHNS) GetHNSSupportedFeatures() hns.HNSSupportedFeatures {
	return hns.HNSSupportedFeatures{Acl: hns.HNSAclFeatures{AclAddressLists: true, AclNoHostRulePriority: true, AclPortRanges: true, AclRuleId: f.ruleID}}
}

type setCache struct{ m map[string][]string }

func (s *setCache) GetIPSetMembers(id string) []string {
	// Contract of the real cache (felix/dataplane/windows/ipsets.GetIPSetMembers): nil for an unknown
	// set AND for a set without members, "so that policy rules related to this ipset won't be populated".
	v := s.m[id]
	if len(v) == 0 {
		return nil
	}
	return v
}

type noStatic struct{}

func (noStatic) ReadData() ([]byte, error) { return nil, policysets.ErrNoRuleSpecified }

// ---------------------------------------------------------------- generator

type gen struct {
	c     *harness.Case
	sets  map[string][]string // id -> members (as Felix's IP set cache holds them)
	ipp   map[string]bool     // id is an (ip,proto,port) set
	nets  []string
	addrs []netip.Addr
	nrule int
}

var cidrPool = []string{"10.0.0.0/8", "10.1.0.0/16", "10.1.2.0/24", "10.1.2.3/32", "10.2.0.0/15", "192.168.0.0/16", "192.168.7.0/24",
	"172.16.0.0/12", "0.0.0.0/0", "10.1.2.128/25", "10.200.0.0/30", "192.168.7.77/32"}
var addrPool = []string{"10.1.2.3", "10.1.2.4", "10.1.2.200", "10.1.3.1", "10.2.0.1", "10.3.255.255", "10.200.0.2", "10.200.0.4", "192.168.7.77",
	"192.168.7.78", "192.168.8.1", "172.16.5.5", "172.32.0.1", "8.8.8.8", "11.0.0.1", "10.9.0.5", "10.9.1.7",
	"10.9.15.200", "10.9.16.1", "10.9.31.5", "10.9.40.1"} // 10.9.x.y: members of the big IP sets, in different 4000-entry chunks

func (g *gen) newNetSet(big bool) string {
	id := fmt.Sprintf("s:set%d", len(g.sets))
	var m []string
	for n := g.c.R.Intn(4); n > 0; n-- {
		if g.c.R.Intn(2) == 0 {
			m = append(m, cidrPool[g.c.R.Intn(len(cidrPool)-3)]) // not 0.0.0.0/0
		} else {
			m = append(m, addrPool[g.c.R.Intn(len(addrPool))])
		}
	}
	if big {
		// > 4000 members so that the rule is split into chunks: 10.9.x.y /32s
		n := 4001 + g.c.R.Intn(4500)
		for i := 0; i < n; i++ {
			m = append(m, fmt.Sprintf("10.9.%d.%d", i/256, i%256))
		}
		g.c.Count("big_ip_sets", 1)
	}
	g.sets[id] = m
	return id
}

func (g *gen) newIPPortSet() string {
	id := fmt.Sprintf("svc:set%d", len(g.sets))
	var m []string
	for n := 1 + g.c.R.Intn(5); n > 0; n-- {
		m = append(m, fmt.Sprintf("%s,%s:%d", addrPool[g.c.R.Intn(len(addrPool))], []string{"tcp", "udp"}[g.c.R.Intn(2)], []int{53, 80, 443, 8080}[g.c.R.Intn(4)]))
	}
	g.sets[id] = m
	g.ipp[id] = true
	return id
}

func (g *gen) cidrs() []string {
	var out []string
	for n := 1 + g.c.R.Intn(3); n > 0; n-- {
		out = append(out, cidrPool[g.c.R.Intn(len(cidrPool))])
	}
	if g.c.R.Intn(6) == 0 {
		out = append(out, "fd00::/64") // mixed families: the v6 entry is irrelevant for v4 packets
	}
	return out
}

func (g *gen) ports(big bool) []*proto.PortRange {
	var out []*proto.PortRange
	if big {
		// > 4000 disjoint ranges: odd ports
		n := 4001 + g.c.R.Intn(1500)
		for i := 0; i < n; i++ {
			out = append(out, &proto.PortRange{First: int32(2*i + 1001), Last: int32(2*i + 1001)})
		}
		g.c.Count("big_port_lists", 1)
		return out
	}
	for n := 1 + g.c.R.Intn(4); n > 0; n-- {
		switch g.c.R.Intn(4) {
		case 0:
			p := int32([]int{1, 53, 80, 443, 8080, 65535}[g.c.R.Intn(6)])
			out = append(out, &proto.PortRange{First: p, Last: p})
		case 1:
			lo := int32([]int{1, 79, 1000, 30000, 65000}[g.c.R.Intn(5)])
			out = append(out, &proto.PortRange{First: lo, Last: lo + int32([]int{1, 2, 100, 535}[g.c.R.Intn(4)])})
		case 2:
			out = append(out, &proto.PortRange{First: 60000, Last: 65535})
		default:
			p := int32(1 + g.c.R.Intn(65535))
			out = append(out, &proto.PortRange{First: p, Last: p})
		}
	}
	return out
}

func (g *gen) rule(inbound bool, allowPass bool, thorough bool) *proto.Rule {
	g.nrule++
	r := &proto.Rule{RuleId: fmt.Sprintf("r%d", g.nrule)}
	acts := []string{"allow", "deny", "allow", "deny", "pass", "next-tier"}
	if !allowPass {
		acts = acts[:4]
	}
	r.Action = acts[g.c.R.Intn(len(acts))]
	if r.Action == "allow" && g.c.R.Intn(8) == 0 {
		r.Action = "" // "" means allow
	}
	switch g.c.R.Intn(8) {
	case 0:
		r.IpVersion = proto.IPVersion_IPV6 // never applies to IPv4
	case 1, 2:
		r.IpVersion = proto.IPVersion_IPV4
	}
	if !inbound && g.c.R.Intn(8) == 0 {
		r.DstIpPortSetIds = []string{g.newIPPortSet()}
		return r // mutually exclusive with every other criterion
	}
	portProto := false
	switch g.c.R.Intn(7) {
	case 0:
		r.Protocol = &proto.Protocol{NumberOrName: &proto.Protocol_Name{Name: "tcp"}}
		portProto = true
	case 1:
		r.Protocol = &proto.Protocol{NumberOrName: &proto.Protocol_Name{Name: "udp"}}
		portProto = true
	case 2:
		r.Protocol = &proto.Protocol{NumberOrName: &proto.Protocol_Number{Number: 6}}
		portProto = true
	case 3:
		r.Protocol = &proto.Protocol{NumberOrName: &proto.Protocol_Name{Name: "sctp"}}
		portProto = true
	case 4:
		r.Protocol = &proto.Protocol{NumberOrName: &proto.Protocol_Number{Number: 47}}
	}
	bigChance := 60
	if thorough {
		bigChance = 25
	}
	if g.c.R.Intn(2) == 0 {
		r.SrcNet = g.cidrs()
	}
	if g.c.R.Intn(3) == 0 {
		r.SrcIpSetIds = []string{g.newNetSet(g.c.R.Intn(bigChance) == 0)}
	}
	if g.c.R.Intn(2) == 0 {
		r.DstNet = g.cidrs()
	}
	if g.c.R.Intn(3) == 0 {
		r.DstIpSetIds = []string{g.newNetSet(g.c.R.Intn(bigChance) == 0)}
	}
	if portProto {
		if g.c.R.Intn(2) == 0 {
			r.DstPorts = g.ports(g.c.R.Intn(bigChance) == 0)
		}
		if g.c.R.Intn(4) == 0 {
			r.SrcPorts = g.ports(false)
		}
	}
	return r
}

func (g *gen) ruleList(inbound, allowPass, thorough bool) []*proto.Rule {
	var out []*proto.Rule
	for n := g.c.R.Intn(5); n > 0; n-- {
		out = append(out, g.rule(inbound, allowPass, thorough))
	}
	return out
}

// ---------------------------------------------------------------- HNS reference evaluation

func inList(list string, a netip.Addr) (bool, error) {
	for _, s := range strings.Split(list, ",") {
		s = strings.TrimSpace(s)
		if strings.Contains(s, "/") {
			p, err := netip.ParsePrefix(s)
			if err != nil {
				return false, fmt.Errorf("bad CIDR %q in HNS rule", s)
			}
			if p.Contains(a) {
				return true, nil
			}
		} else {
			x, err := netip.ParseAddr(s)
			if err != nil {
				return false, fmt.Errorf("bad address %q in HNS rule", s)
			}
			if x == a {
				return true, nil
			}
		}
	}
	return false, nil
}

func portIn(list string, p uint16) (bool, error) {
	for _, s := range strings.Split(list, ",") {
		if i := strings.IndexByte(s, '-'); i >= 0 {
			lo, e1 := strconv.Atoi(s[:i])
			hi, e2 := strconv.Atoi(s[i+1:])
			if e1 != nil || e2 != nil {
				return false, fmt.Errorf("bad port range %q in HNS rule", s)
			}
			if int(p) >= lo && int(p) <= hi {
				return true, nil
			}
		} else {
			v, err := strconv.Atoi(s)
			if err != nil {
				return false, fmt.Errorf("bad port %q in HNS rule", s)
			}
			if int(p) == v {
				return true, nil
			}
		}
	}
	return false, nil
}

func hnsMatches(r *hns.ACLPolicy, inbound bool, pkt *refpolicy.Packet) (bool, error) {
	if r.Protocol != 256 && r.Protocol != uint16(pkt.Proto) {
		return false, nil
	}
	local, remote := pkt.Src, pkt.Dst
	lport, rport := pkt.SrcPort, pkt.DstPort
	if inbound {
		local, remote = pkt.Dst, pkt.Src
		lport, rport = pkt.DstPort, pkt.SrcPort
	}
	if r.LocalAddresses != "" {
		if in, err := inList(r.LocalAddresses, local); err != nil || !in {
			return false, err
		}
	}
	if r.RemoteAddresses != "" {
		if in, err := inList(r.RemoteAddresses, remote); err != nil || !in {
			return false, err
		}
	}
	hasPorts := refpolicy.HasPorts(pkt.Proto)
	if r.LocalPorts != "" {
		if !hasPorts {
			return false, nil
		}
		if in, err := portIn(r.LocalPorts, lport); err != nil || !in {
			return false, err
		}
	}
	if r.RemotePorts != "" {
		if !hasPorts {
			return false, nil
		}
		if in, err := portIn(r.RemotePorts, rport); err != nil || !in {
			return false, err
		}
	}
	return true, nil
}

// hnsVerdict: lowest priority value wins; equal-priority matching rules must agree.
func hnsVerdict(rules []*hns.ACLPolicy, inbound bool, pkt *refpolicy.Packet) (action string, prio int, ambiguous bool, err error) {
	best := -1
	acts := map[hns.ActionType]bool{}
	for _, r := range rules {
		m, e := hnsMatches(r, inbound, pkt)
		if e != nil {
			return "", 0, false, e
		}
		if !m {
			continue
		}
		p := int(r.Priority)
		if best == -1 || p < best {
			best = p
			acts = map[hns.ActionType]bool{r.Action: true}
		} else if p == best {
			acts[r.Action] = true
		}
	}
	if best == -1 {
		return "none", 0, false, nil
	}
	if len(acts) > 1 {
		return "", best, true, nil
	}
	for a := range acts {
		return string(a), best, false, nil
	}
	return "none", 0, false, nil
}

// ---------------------------------------------------------------- the case

// Two hand-written layouts (cases 0 and 1): a pass rule on some TCP ports in a first tier followed by an
// allow rule on other TCP ports in the default tier.  Case 0: the port lists are disjoint, so the pair
// can never allow anything.  Case 1: both lists contain port 65535.
const nStructured = 2

func structuredPolicy(idx int, tierName string) *proto.Policy {
	tcp := &proto.Protocol{NumberOrName: &proto.Protocol_Name{Name: "tcp"}}
	pr := func(lo, hi int32) []*proto.PortRange { return []*proto.PortRange{{First: lo, Last: hi}} }
	var r *proto.Rule
	switch {
	case idx == 0 && tierName == "tier0":
		r = &proto.Rule{Action: "pass", Protocol: tcp, DstPorts: pr(80, 80), RuleId: "pass80"}
	case idx == 0:
		r = &proto.Rule{Action: "allow", Protocol: tcp, DstPorts: pr(443, 443), RuleId: "allow443"}
	case tierName == "tier0":
		r = &proto.Rule{Action: "pass", Protocol: tcp, DstPorts: pr(60000, 65535), RuleId: "pass60000-65535"}
	default:
		r = &proto.Rule{Action: "allow", Protocol: tcp, DstPorts: pr(65535, 65535), RuleId: "allow65535"}
	}
	return &proto.Policy{InboundRules: []*proto.Rule{r}, OutboundRules: []*proto.Rule{r}}
}

type tier struct {
	name          string
	defaultAction string
	pols          []string // policy set ids, in order
}

func renderRules(rules []*hns.ACLPolicy, max int) []string {
	var out []string
	for i, r := range rules {
		if i >= max {
			out = append(out, fmt.Sprintf("... %d more", len(rules)-max))
			break
		}
		tr := func(s string) string {
			if len(s) > 120 {
				return s[:120] + "..."
			}
			return s
		}
		out = append(out, fmt.Sprintf("prio=%d %s proto=%d local=%s lports=%s remote=%s rports=%s id=%s", r.Priority, r.Action, r.Protocol,
			tr(r.LocalAddresses), tr(r.LocalPorts), tr(r.RemoteAddresses), tr(r.RemotePorts), r.Id))
	}
	return out
}

func run(c *harness.Case) {
	g := &gen{c: c, sets: map[string][]string{}, ipp: map[string]bool{}}
	cache := &setCache{m: g.sets}
	ps := policysets.NewPolicySets(fakeHNS{ruleID: c.R.Intn(2) == 0}, []policysets.IPSetCache{cache}, noStatic{})

	// ---- layout: 0-3 named tiers, optionally the default tier last, 1-2 profiles
	thorough := c.Thorough()
	var tiers []*tier
	structured := c.Index < nStructured
	for n := c.R.Intn(3); n > 0 && !structured; n-- {
		da := "Deny"
		if c.R.Intn(3) == 0 {
			da = "Pass"
		}
		tiers = append(tiers, &tier{name: fmt.Sprintf("tier%d", len(tiers)), defaultAction: da})
	}
	hasDefault := c.R.Intn(2) == 0
	if structured {
		tiers = append(tiers, &tier{name: "tier0", defaultAction: "Deny"})
		hasDefault = true
	}
	if hasDefault {
		tiers = append(tiers, &tier{name: "default", defaultAction: "Deny"})
	}
	ref := &refpolicy.EndpointPolicy{}
	policies := map[string]*proto.Policy{}
	for _, t := range tiers {
		rt := &refpolicy.Tier{Name: t.name, DefaultAction: t.defaultAction}
		for n := 1 + c.R.Intn(3); n > 0; n-- {
			id := fmt.Sprintf("%s%s/p%d", policysets.PolicyNamePrefix, t.name, len(policies))
			allowPass := t.name != "default"
			pol := &proto.Policy{InboundRules: g.ruleList(true, allowPass, thorough), OutboundRules: g.ruleList(false, allowPass, thorough)}
			if structured {
				pol = structuredPolicy(c.Index, t.name)
				n = 1
			}
			policies[id] = pol
			t.pols = append(t.pols, id)
			ps.AddOrReplacePolicySet(id, pol)
			rp := &refpolicy.Policy{Name: id, Inbound: pol.InboundRules, Outbound: pol.OutboundRules}
			rt.Ingress = append(rt.Ingress, rp)
			rt.Egress = append(rt.Egress, rp)
		}
		ref.Tiers = append(ref.Tiers, rt)
	}
	var profIDs []string
	profiles := map[string]*proto.Profile{}
	for n := 1 + c.R.Intn(2); n > 0; n-- {
		id := fmt.Sprintf("%sprof%d", policysets.ProfileNamePrefix, len(profIDs))
		pr := &proto.Profile{InboundRules: g.ruleList(true, true, thorough), OutboundRules: g.ruleList(false, true, thorough)}
		profiles[id] = pr
		profIDs = append(profIDs, id)
		ps.AddOrReplacePolicySet(id, pr)
		ref.Profiles = append(ref.Profiles, &refpolicy.Profile{Name: id, Inbound: pr.InboundRules, Outbound: pr.OutboundRules})
	}
	// (when the default tier applies, Windows never consults the profiles; the model would only reach them
	// through a pass out of the default tier, which is not generated)
	if hasDefault {
		ref.Profiles = nil
	}

	type tierList struct {
		name  string
		rules []*hns.ACLPolicy // exactly what GetPolicySetRules returned (copied before flattening mutates it)
		ref   []*proto.Rule    // the tier's rules for the direction, in policy order
		drop  bool
	}
	var perTier map[bool][]tierList
	build := func(inbound bool) ([]*hns.ACLPolicy, error) {
		var lists [][]*hns.ACLPolicy
		if perTier == nil {
			perTier = map[bool][]tierList{}
		}
		perTier[inbound] = nil
		snapshot := func(name string, ids []string, rules []*hns.ACLPolicy, drop bool) {
			tl := tierList{name: name, drop: drop}
			for _, r := range rules {
				cp := *r
				tl.rules = append(tl.rules, &cp)
			}
			for _, id := range ids {
				var rs []*proto.Rule
				if p := policies[id]; p != nil {
					rs = p.OutboundRules
					if inbound {
						rs = p.InboundRules
					}
				} else if p := profiles[id]; p != nil {
					rs = p.OutboundRules
					if inbound {
						rs = p.InboundRules
					}
				}
				tl.ref = append(tl.ref, rs...)
			}
			perTier[inbound] = append(perTier[inbound], tl)
		}
		for _, t := range tiers {
			l := ps.GetPolicySetRules(t.pols, inbound, t.defaultAction != "Pass")
			snapshot(t.name, t.pols, l, t.defaultAction != "Pass")
			lists = append(lists, l)
		}
		if len(lists) == 0 || !hasDefault {
			l := ps.GetPolicySetRules(profIDs, inbound, true)
			snapshot("profiles", profIDs, l, true)
			lists = append(lists, l)
		}
		flat := windataplane.VerifFlattenTiers(lists)
		windataplane.VerifRewritePriorities(flat, policysets.PolicyRuleMaxPriority)
		for _, r := range flat {
			if r.Action != hns.Allow && r.Action != hns.Block {
				return flat, fmt.Errorf("flattened rule list still contains action %q, which HNS does not know", r.Action)
			}
		}
		return flat, nil
	}

	// candidate packets
	addrs := make([]netip.Addr, len(addrPool))
	for i, s := range addrPool {
		addrs[i] = netip.MustParseAddr(s)
	}
	portCands := []uint16{1, 53, 79, 80, 81, 443, 1000, 1001, 1002, 1003, 8080, 9001, 30000, 30100, 59999, 60000, 65000, 65534, 65535}
	protoCands := []uint8{6, 17, 132, 1, 47}
	nTiers := len(tiers)
	summary := map[string]any{"tiers": nTiers, "default_tier": hasDefault, "profiles": len(profIDs)}
	c.NonTrivial(fmt.Sprint(summary), g.nrule, len(g.sets), c.Index)
	if c.Index < 2 {
		c.Sample(summary)
	}

	dumpRules := func(rs []*proto.Rule) []string {
		var out []string
		for _, r := range rs {
			t := r.String()
			if len(t) > 400 {
				t = t[:400] + "..."
			}
			out = append(out, t)
		}
		return out
	}
	dumpLayout := func(inbound bool) any {
		out := map[string]any{}
		for id, p := range policies {
			if inbound {
				out[id] = dumpRules(p.InboundRules)
			} else {
				out[id] = dumpRules(p.OutboundRules)
			}
		}
		for id, p := range profiles {
			if inbound {
				out[id] = dumpRules(p.InboundRules)
			} else {
				out[id] = dumpRules(p.OutboundRules)
			}
		}
		var order []string
		for _, t := range tiers {
			order = append(order, fmt.Sprintf("%s(default %s): %v", t.name, t.defaultAction, t.pols))
		}
		out["_tiers"] = order
		out["_profiles"] = profIDs
		small := map[string][]string{}
		for id, m := range g.sets {
			if len(m) > 12 {
				small[id] = append(append([]string{}, m[:12]...), fmt.Sprintf("... %d members", len(m)))
			} else {
				small[id] = m
			}
		}
		out["_ipsets"] = small
		return out
	}
	judge := func(phase string) bool {
		sets := refpolicy.IPSets{}
		for id, m := range g.sets {
			s, err := refpolicy.ParseIPSet(m)
			if err != nil {
				c.Inconclusive("generator-ipset")
				return false
			}
			sets[id] = s
		}
		for _, inbound := range []bool{true, false} {
			flat, err := build(inbound)
			detail := map[string]any{"phase": phase, "inbound": inbound, "layout": summary}
			if err != nil {
				detail["hns_rules"] = renderRules(flat, 40)
				c.Violationf("unflattened-action", detail, "%v", err)
				return false
			}
			c.Count("hns_rules", int64(len(flat)))
			c.Count("rule_lists_built", 1)
			dir := refpolicy.Direction(0)
			_ = dir
			nPk := c.Pick(40, 80)
			for i := 0; i < nPk; i++ {
				pkt := refpolicy.Packet{IPVersion: 4, Src: addrs[c.R.Intn(len(addrs))], Dst: addrs[c.R.Intn(len(addrs))],
					Proto: protoCands[c.R.Intn(len(protoCands))]}
				if c.R.Intn(3) == 0 {
					pkt.Proto = 6
				}
				if refpolicy.HasPorts(pkt.Proto) {
					pkt.SrcPort = portCands[c.R.Intn(len(portCands))]
					pkt.DstPort = portCands[c.R.Intn(len(portCands))]
					if c.R.Intn(4) == 0 {
						pkt.DstPort = uint16(1001 + 2*c.R.Intn(5000) + c.R.Intn(2))
					}
				}
				// aim some packets at (ip,port) set members
				if !inbound && c.R.Intn(5) == 0 {
					ippIDs := make([]string, 0, len(g.ipp))
					for id := range g.ipp {
						ippIDs = append(ippIDs, id)
					}
					sort.Strings(ippIDs)
					for _, id := range ippIDs {
						m := g.sets[id]
						if len(m) > 0 {
							mm := m[0]
							a, rest, _ := strings.Cut(mm, ",")
							pn, port, _ := strings.Cut(rest, ":")
							pv, _ := strconv.Atoi(port)
							pkt.Dst = netip.MustParseAddr(a)
							pkt.DstPort = uint16(pv)
							pkt.Proto = map[string]uint8{"tcp": 6, "udp": 17}[pn]
							if pkt.SrcPort == 0 {
								pkt.SrcPort = 40000
							}
						}
						break
					}
				}
				// (a) every per-tier list, exactly as GetPolicySetRules returned it, evaluated by priority
				for _, tl := range perTier[inbound] {
					res := refpolicy.EvalRules(tl.ref, &pkt, sets)
					want := "Block"
					switch res.Action {
					case refpolicy.Allow:
						want = "Allow"
					case refpolicy.Deny:
						want = "Block"
					case refpolicy.Pass:
						want = string(policysets.ActionPass)
					default:
						if !tl.drop {
							want = string(policysets.ActionPass)
						}
					}
					act, prio, amb, err := hnsVerdict(tl.rules, inbound, &pkt)
					c.Count("tier_level_judgements", 1)
					if err != nil || amb || act != want {
						detail["tier"] = tl.name
						detail["packet"] = pkt.String()
						detail["hns_rules"] = renderRules(tl.rules, 60)
						detail["proto_rules"] = dumpRules(tl.ref)
						switch {
						case err != nil:
							c.Violationf("malformed-hns-rule", detail, "%v", err)
						case amb:
							c.Violationf("equal-priority-rules-disagree", detail, "tier %s, packet %s: matching HNS rules at priority %d have different actions, so the verdict depends on HNS's tie-break",
								tl.name, pkt.String(), prio)
						default:
							c.Violationf("tier-rule-list-wrong-verdict", detail, "tier %s, packet %s: first matching policy rule says %s, the rules returned by GetPolicySetRules give %s at priority %d",
								tl.name, pkt.String(), want, act, prio)
						}
						return false
					}
				}
				var d refpolicy.Decision
				if inbound {
					d = refpolicy.Endpoint(ref, refpolicy.Ingress, refpolicy.KindNormal, &pkt, sets)
				} else {
					d = refpolicy.Endpoint(ref, refpolicy.Egress, refpolicy.KindNormal, &pkt, sets)
				}
				if d.Ambiguous {
					c.Count("packets_skipped_profile_pass_ambiguity", 1)
					continue
				}
				act, prio, amb, err := hnsVerdict(flat, inbound, &pkt)
				if err != nil {
					detail["hns_rules"] = renderRules(flat, 40)
					c.Violationf("malformed-hns-rule", detail, "%v", err)
					return false
				}
				c.Count("packets_judged", 1)
				detail["packet"] = pkt.String()
				detail["reference"] = fmt.Sprintf("%v (%s tier=%s policy=%s rule=%d)", d.Verdict, d.Why, d.Tier, d.Policy, d.Rule)
				if amb {
					detail["hns_rules"] = renderRules(flat, 60)
					c.Violationf("equal-priority-rules-disagree", detail, "packet %s: matching HNS rules at priority %d have different actions, so the verdict depends on HNS's tie-break", pkt.String(), prio)
					return false
				}
				want := "Block"
				if d.Verdict == refpolicy.Allowed {
					want = "Allow"
					c.Count("packets_allowed", 1)
				} else {
					c.Count("packets_denied", 1)
				}
				if d.Why == "policy" || d.Why == "profile" {
					c.Count("packets_decided_by_a_rule", 1)
				}
				if act != want {
					detail["hns_rules"] = renderRules(flat, 60)
					detail["proto_rules"] = dumpLayout(inbound)
					detail["hns_verdict"] = fmt.Sprintf("%s at priority %d", act, prio)
					key := "hns-allows-what-policy-denies"
					if want == "Allow" {
						key = "hns-blocks-what-policy-allows"
					}
					c.Violationf(key, detail, "%s packet %s: policy semantics say %v (%s %s/%s rule %d), the HNS rules give %s at priority %d",
						map[bool]string{true: "inbound", false: "outbound"}[inbound], pkt.String(), d.Verdict, d.Why, d.Tier, d.Policy, d.Rule, act, prio)
					return false
				}
			}
		}
		return true
	}

	if !judge("initial") {
		return
	}
	// ---- IP set churn: change members, tell the policy sets, judge again
	ids := make([]string, 0, len(g.sets))
	for id := range g.sets {
		ids = append(ids, id)
	}
	sort.Strings(ids)
	if len(ids) > 0 {
		for n := 1 + c.R.Intn(2); n > 0; n-- {
			id := ids[c.R.Intn(len(ids))]
			if g.ipp[id] {
				g.sets[id] = append([]string{fmt.Sprintf("%s,tcp:%d", addrPool[c.R.Intn(len(addrPool))], 80)}, g.sets[id][:len(g.sets[id])/2]...)
			} else {
				var m []string
				for k := c.R.Intn(4); k > 0; k-- {
					m = append(m, addrPool[c.R.Intn(len(addrPool))])
				}
				if c.R.Intn(2) == 0 && len(g.sets[id]) > 0 && len(g.sets[id]) < 100 {
					m = append(m, g.sets[id][0])
				}
				g.sets[id] = m
			}
			stale := ps.ProcessIpSetUpdate(id)
			c.Count("ipset_updates", 1)
			c.Count("policy_sets_recomputed", int64(len(stale)))
		}
		if !judge("after-ipset-update") {
			return
		}
	}
}

func main() {
	logrus.SetOutput(io.Discard)
	logrus.SetLevel(logrus.PanicLevel)
	harness.Main(harness.Check{
		ID:    "C30",
		Level: "exploration",
		Rule: "cases 0-1 are hand-written two-tier layouts (pass on some TCP ports, then allow on other TCP ports); every other case builds 0-2 named tiers (default action Deny or Pass) optionally followed by the default tier, 1-3 policies per tier and 1-2 profiles, each with 0-4 inbound and outbound rules from the Windows-supported criteria " +
			"(protocol name/number/absent, CIDR lists with occasional IPv6 entries, one IP set per side alone or with CIDRs, port lists, (ip,proto,port) sets in egress rules, allow/deny/pass, ip_version 4/6/unset; some IP sets and port lists exceed 4000 entries), " +
			"evaluates 40 (thorough 80) packets per direction from an address/port/protocol pool aimed at rule boundaries, then changes 1-2 IP sets, calls ProcessIpSetUpdate and evaluates again; every case is non-trivial, distinct by layout and case",
		Assumptions: []string{
			"HNS ACL semantics are modelled here: protocol 256 = any, empty address/port list = any, lowest priority value wins, equal-priority matching rules must agree (order-free)",
			"reference semantics: /verif/internal/refpolicy.Endpoint (KindNormal)",
			"the tier assembly of felix/dataplane/windows/endpoint_mgr.go is mirrored (tiers with policies, profiles appended when the default tier does not apply); flattenTiers and rewritePriorities are the real ones (verif export)",
		},
		Cases: func(tier string) int {
			if tier == "thorough" {
				return 60000
			}
			return 1500
		},
		Run: run,
		Floors: map[string]int64{"packets_judged": 50000, "packets_allowed": 5000, "packets_denied": 5000, "packets_decided_by_a_rule": 5000, "hns_rules": 10000,
			"tier_level_judgements": 100000, "ipset_updates": 500, "policy_sets_recomputed": 300, "big_ip_sets": 5, "big_port_lists": 5},
	})
}

// C14 — BPF conntrack cleanup never removes a live connection.
//
// Real code driven: conntrack.Scanner + conntrack.LivenessScanner (mock clock via timeshim/mocktime)
// over in-memory conntrack and cleanup-queue maps (felix/bpf/mock.Map), and -- "native" cases -- the
// REAL kernel-side cleaner felix/bpf-gpl/conntrack_cleanup.c, compiled for the host at check time with
// AddressSanitizer+UBSan (native.go, /verif/cprobe/ctmaps.c) and run as a child process that receives
// and returns the byte images of both maps.  "mock" cases (1 in 4, IPv4 only) use the repo's
// mock.NewMockBPFCleaner instead; it deletes unconditionally, so no traffic is injected between
// judgement and deletion there.
//
// The harness is the Cleaner the scanner calls.  In native cases it first applies a PRNG batch of
// TRAFFIC EVENTS (what packets do to the map: refresh last_seen of a normal entry; of both legs of a NAT
// pair when the packet hits the forward key; of the reverse leg only when it hits the reverse key),
// biased towards entries that were just queued for deletion, and only then runs the cleaner.  Traffic is
// also applied while the scanner is iterating -- the conntrack map is iterated LIVE in a PRNG order
// (ctGetHook.Iter), so an entry visited later shows what packets did since the iteration began; in
// particular a reply packet may refresh a reverse entry right after its forward entry was judged --
// on the scanner's live look-ups of reverse entries, and between scans.
//
// Oracles
//
//	safety   every entry that disappears during a scan is judged at the moment it disappears, on the
//	         map contents just before the cleaner ran: let TR be its tracking entry (the entry itself;
//	         for a NAT forward entry its reverse entry).  The removal is legal iff
//	             T_scan - TR.last_seen > min{ timeouts applicable to TR's protocol and state }.
//	         Traffic after the judgement makes TR.last_seen >= T_scan, so a refreshed entry can never be
//	         removed legally; an entry that was never idle long enough cannot either.  The cleaner may
//	         not change or add conntrack entries.
//	liveness an entry whose tracking entry is idle past max{applicable timeouts} at the start of scan k
//	         and sees no traffic afterwards is gone at the end of scan k+1.
//	sanitizer a sanitizer report / crash of the native cleaner is a violation (the Go scanner and the
//	         C cleaner exchange exactly the bytes the kernel maps would hold).
//	The applicable timeouts are written from timeouts.Timeouts and the statement: ICMP/ICMPv6 -> ICMP,
//	UDP -> UDP, other non-TCP -> generic; TCP: RST seen on a leg -> reset; FIN on both legs (either leg
//	for DSR-forwarded) -> fins; established (SYN+ACK both legs) or DSR -> established, plus the
//	documented 2 minutes when a reset timestamp is recorded; otherwise -> syn-sent.  Where several
//	apply, safety uses the smallest and liveness the largest, so the oracle is never stricter than any
//	reading of "the timeout for its protocol and state".
//
// Known finding (known_findings.json, key live-nat-forward-removed:queued-alone-on-equal-timestamps): the
// scanner queues a NAT forward entry alone when its last_seen equals the reverse entry's; the cleaner
// then removes it even if a packet refreshed only the reverse leg after the judgement.  That exact shape
// (and nothing else) is reported under that key, and the case continues after it so that it cannot mask
// other violations.  Equal-timestamp pairs are generated on purpose.
//
// Deliberately not checked
//   - removal of a NAT forward entry that has no reverse entry at that moment (the code removes it at
//     once as useless; the statement does not cover it) -- counted, not judged;
//   - a refresh by another CPU between the cleaner's look-up and its delete inside one
//     process_ccq_entry call (needs real BPF concurrency);
//   - entries of unknown type, connection-limit accounting, the stale-NAT and workload-removal
//     scanners, map auto-resizing, RST marking;
//   - whether both legs of an expired idle pair leave in the same cleaner run.
package main

import (
	"encoding/binary"
	"fmt"
	"io"
	"net"
	"sort"
	"time"

	"github.com/sirupsen/logrus"

	"github.com/projectcalico/calico/felix/bpf/conntrack"
	"github.com/projectcalico/calico/felix/bpf/conntrack/timeouts"
	v4 "github.com/projectcalico/calico/felix/bpf/conntrack/v4"
	"github.com/projectcalico/calico/felix/bpf/maps"
	"github.com/projectcalico/calico/felix/bpf/mock"
	"github.com/projectcalico/calico/felix/timeshim/mocktime"

	"verif/internal/harness"
)

// ---------------------------------------------------------------------------------------------
// native cleaner management (one child per IP version per worker process)

var (
	nativeBin   = map[int]string{}
	nativeErr   = map[int]string{}
	nativeChild = map[int]*child{}
)

func setup(tier string) error {
	for _, v := range []int{4, 6} {
		p, q := conntrack.MapParams, conntrack.MapParamsCleanup
		if v == 6 {
			p, q = conntrack.MapParamsV6, conntrack.MapParamsCleanupV6
		}
		bin, err := buildNativeCleaner(v, p.VersionedName(), q.VersionedName())
		if err != nil {
			nativeErr[v] = err.Error()
			continue
		}
		nativeBin[v] = bin
	}
	return nil
}

func getChild(v int) (*child, error) {
	if c := nativeChild[v]; c != nil && !c.dead {
		return c, nil
	}
	c, err := startChild(nativeBin[v])
	if err != nil {
		return nil, err
	}
	nativeChild[v] = c
	return c, nil
}

// ---------------------------------------------------------------------------------------------
// world

type trafficEv struct {
	When  string `json:"when"`
	Entry string `json:"entry"`
	How   string `json:"how"`
	TS    int64  `json:"ts"`
}

type world struct {
	c      *harness.Case
	ipver  int
	native bool
	ct     *mock.Map
	ccq    *mock.Map
	mt     *mocktime.MockTime
	to     timeouts.Timeouts
	tScan  int64
	scan   int
	tick   int64 // monotone ns added to traffic timestamps
	events []trafficEv
	inScan bool
	// liveness bookkeeping: key -> tracking last_seen when found idle past max timeout at a scan start
	doomed map[string]int64
	// fatal: a violation other than the listed known finding was recorded; the case stops.  Occurrences
	// of the known finding are recorded but the case goes on, so that they cannot hide anything else.
	fatal bool
}

// violation records a violation that ends the case.
func (w *world) violation(key string, detail any, format string, args ...any) {
	w.fatal = true
	w.c.Violationf(key, detail, format, args...)
}

// knownShapeKey is the key of the one accepted finding (known_findings.json).  It is emitted ONLY for:
// a NAT forward entry, its reverse entry present, queued ALONE (dummy reverse key) with
// last_seen == rev_last_seen in the queue value (i.e. the two legs carried the same timestamp when
// judged), whose own last_seen is still that value, removed although a packet since the judgement
// refreshed only the reverse leg.
const knownShapeKey = "live-nat-forward-removed:queued-alone-on-equal-timestamps"

func (w *world) ks() int {
	if w.ipver == 6 {
		return conntrack.KeyV6Size
	}
	return conntrack.KeySize
}

func (w *world) key(b []byte) conntrack.KeyInterface {
	if w.ipver == 6 {
		return conntrack.KeyV6FromBytes(b)
	}
	return conntrack.KeyFromBytes(b)
}

func (w *world) val(b []byte) conntrack.ValueInterface {
	if w.ipver == 6 {
		return conntrack.ValueV6FromBytes(b)
	}
	return conntrack.ValueFromBytes(b)
}

const offLastSeen = 8 // struct calico_ct_value.last_seen (C13 checks the Go accessors against the C header)
const offRSTSeen = 0

func setLastSeen(v string, ts int64) string {
	b := []byte(v)
	binary.LittleEndian.PutUint64(b[offLastSeen:], uint64(ts))
	return string(b)
}

// applicable timeouts of a tracking entry
func (w *world) applicable(proto uint8, v conntrack.ValueInterface) []time.Duration {
	t := w.to
	switch proto {
	case 6:
		d := v.Data()
		dsr := v.Flags()&v4.FlagNATFwdDsr != 0
		var a []time.Duration
		if d.A2B.RstSeen || d.B2A.RstSeen {
			a = append(a, t.TCPResetSeen)
		}
		if (d.A2B.FinSeen && d.B2A.FinSeen) || (dsr && (d.A2B.FinSeen || d.B2A.FinSeen)) {
			a = append(a, t.TCPFinsSeen)
		}
		if (d.A2B.SynSeen && d.A2B.AckSeen && d.B2A.SynSeen && d.B2A.AckSeen) || dsr {
			if v.RSTSeen() != 0 {
				a = append(a, 2*time.Minute)
			}
			a = append(a, t.TCPEstablished)
		} else {
			a = append(a, t.TCPSynSent)
		}
		return a
	case 1, 58:
		return []time.Duration{t.ICMPTimeout}
	case 17:
		return []time.Duration{t.UDPTimeout}
	}
	return []time.Duration{t.GenericTimeout}
}

func minMax(a []time.Duration) (time.Duration, time.Duration) {
	mn, mx := a[0], a[0]
	for _, x := range a {
		if x < mn {
			mn = x
		}
		if x > mx {
			mx = x
		}
	}
	return mn, mx
}

// tracking returns the tracking entry of key k in the given image: itself, or the reverse entry of
// a NAT forward entry.  ok=false: forward entry without a (reverse-typed) reverse entry.
func (w *world) tracking(img map[string]string, k string) (tk string, tv conntrack.ValueInterface, ok bool) {
	v := w.val([]byte(img[k]))
	if v.Type() != conntrack.TypeNATForward {
		return k, v, true
	}
	rk := string(v.ReverseNATKey().AsBytes())
	rvs, present := img[rk]
	if !present {
		return "", nil, false
	}
	rv := w.val([]byte(rvs))
	if rv.Type() != conntrack.TypeNATReverse {
		return "", nil, false
	}
	return rk, rv, true
}

func copyMap(m map[string]string) map[string]string {
	o := make(map[string]string, len(m))
	for k, v := range m {
		o[k] = v
	}
	return o
}

func sortedKeys(m map[string]string) []string {
	ks := make([]string, 0, len(m))
	for k := range m {
		ks = append(ks, k)
	}
	sort.Strings(ks)
	return ks
}

// traffic applies one packet's effect on entry k (which must exist).
func (w *world) traffic(when, k string) {
	vs, ok := w.ct.Contents[k]
	if !ok {
		return
	}
	w.tick++
	ts := w.mt.KTimeNanos() + w.tick
	v := w.val([]byte(vs))
	how := "hit"
	switch v.Type() {
	case conntrack.TypeNATForward:
		rk := string(v.ReverseNATKey().AsBytes())
		rvs, ok := w.ct.Contents[rk]
		if !ok {
			return // the kernel would delete the orphan forward entry; not modelled
		}
		w.ct.Contents[k] = setLastSeen(vs, ts)
		w.ct.Contents[rk] = setLastSeen(rvs, ts)
		how = "hit on forward key: both legs refreshed"
	case conntrack.TypeNATReverse:
		w.ct.Contents[k] = setLastSeen(vs, ts)
		how = "hit on reverse key: reverse leg refreshed"
	default:
		w.ct.Contents[k] = setLastSeen(vs, ts)
	}
	w.c.Count("traffic_events", 1)
	w.c.Count("traffic_"+when, 1)
	if len(w.events) < 400 {
		w.events = append(w.events, trafficEv{When: fmt.Sprintf("scan %d %s", w.scan, when), Entry: w.key([]byte(k)).String(), How: how, TS: ts})
	}
}

func (w *world) burst(when string, prefer []string, p float64) {
	r := w.c.R
	for _, k := range prefer {
		if r.Float64() < p {
			w.traffic(when, k)
		}
	}
	all := sortedKeys(w.ct.Contents)
	for i, n := 0, r.Intn(4); i < n && len(all) > 0; i++ {
		w.traffic(when, all[r.Intn(len(all))])
	}
}

// ctGetHook wraps the conntrack map so that the scanner's live look-ups (reverse entry of a forward
// entry) are points at which packets may arrive.
type ctGetHook struct {
	*mock.Map
	w *world
}

func (m *ctGetHook) Get(k []byte) ([]byte, error) {
	w := m.w
	if w.native && w.inScan && w.c.R.Intn(6) == 0 {
		all := sortedKeys(w.ct.Contents)
		if len(all) > 0 {
			if w.c.R.Intn(2) == 0 {
				w.traffic("mid-scan", string(k)) // the very entry being looked up
			} else {
				w.traffic("mid-scan", all[w.c.R.Intn(len(all))])
			}
		}
	}
	return m.Map.Get(k)
}

// Iter replaces mock.Map's snapshot iteration with a LIVE one, as the kernel map behaves: the keys
// present at the start are visited in a PRNG order (in half of the NAT pairs the forward entry is
// forced before its reverse entry, the order in which one half can be judged before a packet
// refreshes the other), every visit reads the entry's CURRENT value, entries deleted meanwhile are
// skipped, and -- native cases -- packets arrive between visits: most pointedly a reply packet on the
// reverse key right after the forward entry of that pair was visited.
func (m *ctGetHook) Iter(f maps.IterCallback) error {
	w := m.w
	r := w.c.R
	m.Map.IterCount++
	if m.Map.IterErr != nil {
		return m.Map.IterErr
	}
	keys := sortedKeys(m.Map.Contents)
	r.Shuffle(len(keys), func(i, j int) { keys[i], keys[j] = keys[j], keys[i] })
	pos := make(map[string]int, len(keys))
	for i, k := range keys {
		pos[k] = i
	}
	for _, k := range append([]string(nil), keys...) {
		v := w.val([]byte(m.Map.Contents[k]))
		if v.Type() != conntrack.TypeNATForward || r.Intn(2) == 0 {
			continue
		}
		rk := string(v.ReverseNATKey().AsBytes())
		if pr, ok := pos[rk]; ok && pr < pos[k] {
			pf := pos[k]
			keys[pr], keys[pf] = k, rk
			pos[k], pos[rk] = pr, pf
		}
	}
	for _, k := range keys {
		vs, ok := m.Map.Contents[k]
		if !ok {
			continue // deleted since the iteration started (cleaner batch)
		}
		w.c.Count("live_iteration_visits", 1)
		if f([]byte(k), []byte(vs)) == maps.IterDelete {
			delete(m.Map.Contents, k)
		}
		if !w.native || !w.inScan {
			continue
		}
		if v := w.val([]byte(vs)); v.Type() == conntrack.TypeNATForward && r.Intn(3) == 0 {
			rk := string(v.ReverseNATKey().AsBytes())
			if _, present := m.Map.Contents[rk]; present {
				w.c.Count("reply_packet_right_after_forward_visit", 1)
				if pos[rk] > pos[k] {
					w.c.Count("reply_packet_before_reverse_visit", 1)
				}
				w.traffic("mid-scan", rk)
			}
		} else if r.Intn(15) == 0 {
			w.traffic("mid-scan", keys[r.Intn(len(keys))])
		}
	}
	return nil
}

// ---------------------------------------------------------------------------------------------
// the harness cleaner

type hCleaner struct{ w *world }

func (h *hCleaner) Close() error { return nil }

func (h *hCleaner) Run(opts ...conntrack.RunOpt) (*conntrack.CleanupContext, error) {
	w := h.w
	c := w.c
	c.Count("cleaner_runs", 1)
	queue := copyMap(w.ccq.Contents)
	c.Count("entries_queued", int64(len(queue)))
	if w.native {
		c.Count("cleaner_runs_native", 1)
		// packets arrive between the judgement and the cleaner
		var queued []string
		for _, qk := range sortedKeys(queue) {
			queued = append(queued, qk)
			ov := conntrack.CleanupValueFromBytes
			if w.ipver == 6 {
				ov = conntrack.CleanupValueV6FromBytes
			}
			if o := ov([]byte(queue[qk])).OtherNATKey(); o.Proto() != 0 {
				queued = append(queued, string(o.AsBytes()))
			}
		}
		w.burst("window", queued, []float64{0, 0.1, 0.35}[c.R.Intn(3)])
	} else {
		c.Count("cleaner_runs_mock", 1)
	}
	before := copyMap(w.ct.Contents)
	var cleaned uint64
	if w.native {
		ch, err := getChild(w.ipver)
		if err != nil {
			c.Inconclusive("native cleaner could not be started: " + err.Error())
			return &conntrack.CleanupContext{}, nil
		}
		qvs := conntrack.MapParamsCleanup.ValueSize
		vs := conntrack.ValueSize
		if w.ipver == 6 {
			qvs, vs = conntrack.MapParamsCleanupV6.ValueSize, conntrack.ValueV6Size
		}
		res, err := ch.run(w.ks(), vs, qvs, before, queue, uint64(w.mt.KTimeNanos()))
		if err != nil {
			c.Count("sanitizer_or_crash_reports", 1)
			w.violation("native-cleaner-sanitizer-or-crash", w.detail(map[string]any{"report": err.Error()}),
				"the natively built conntrack_cleanup program died (sanitizer report or crash): %.300s", err.Error())
			return &conntrack.CleanupContext{}, nil
		}
		w.ct.Contents = res.ct
		w.ccq.Contents = res.ccq
		cleaned = res.numCleaned
		if res.rc != 0 {
			w.violation("native-cleaner-nonzero-return", w.detail(nil), "conntrack_cleanup returned %d", res.rc)
		}
	} else {
		if _, err := mock.NewMockBPFCleaner(w.ct, w.ccq).Run(); err != nil {
			c.Inconclusive("mock cleaner error: " + err.Error())
		}
	}
	after := w.ct.Contents
	ndel := uint64(0)
	for _, k := range sortedKeys(before) {
		if _, still := after[k]; still {
			if after[k] != before[k] {
				w.violation("cleaner-modified-entry", w.detail(map[string]any{"entry": w.key([]byte(k)).String()}),
					"the cleaner changed conntrack entry %s", w.key([]byte(k)))
			}
			continue
		}
		ndel++
		w.judgeRemoval(k, before, queue)
	}
	for k := range after {
		if _, was := before[k]; !was {
			w.violation("cleaner-added-entry", w.detail(map[string]any{"entry": w.key([]byte(k)).String()}), "the cleaner added conntrack entry %s", w.key([]byte(k)))
		}
	}
	if w.native && cleaned != ndel {
		c.Count("num_cleaned_mismatch", 1)
	}
	return &conntrack.CleanupContext{NumKVsCleaned: ndel}, nil
}

func (w *world) detail(extra map[string]any) map[string]any {
	d := map[string]any{"ipver": w.ipver, "native_cleaner": w.native, "scan": w.scan, "t_scan": w.tScan,
		"timeouts": fmt.Sprintf("%+v", w.to), "traffic": w.events}
	for k, v := range extra {
		d[k] = v
	}
	return d
}

func (w *world) judgeRemoval(k string, before, queue map[string]string) {
	c := w.c
	key := w.key([]byte(k))
	v := w.val([]byte(before[k]))
	c.Count("removals_observed", 1)
	tk, tv, ok := w.tracking(before, k)
	if !ok {
		c.Count("orphan_forward_removed_unjudged", 1)
		return
	}
	a := w.applicable(key.Proto(), tv)
	mn, _ := minMax(a)
	age := time.Duration(w.tScan - tv.LastSeen())
	c.Count("removals_judged", 1)
	kind := "normal"
	switch {
	case v.Type() == conntrack.TypeNATForward:
		kind = "nat-forward"
	case v.Type() == conntrack.TypeNATReverse:
		kind = "nat-reverse"
	}
	c.Count("removals_judged_"+kind, 1)
	if age > mn {
		return
	}
	refreshed := tv.LastSeen() >= w.tScan
	det := w.detail(map[string]any{
		"removed": key.String(), "removed_value": v.String(), "kind": kind,
		"tracking_entry": w.key([]byte(tk)).String(), "tracking_value": tv.String(),
		"tracking_last_seen": tv.LastSeen(), "age_at_judgement": age.String(), "applicable_timeouts": fmt.Sprint(a),
		"refreshed_after_judgement": refreshed, "queue_entry": fmt.Sprintf("%x", queue[k]),
	})
	if refreshed && kind == "nat-forward" && w.isKnownShape(k, v, tv, queue) {
		c.Count("known_shape_observed", 1)
		c.Violationf(knownShapeKey, det,
			"NAT forward entry %s (queued alone because its last_seen equalled the reverse entry's) was removed although a packet refreshed the reverse entry %s after the judgement (last_seen=%d >= scan time %d)",
			key, w.key([]byte(tk)), tv.LastSeen(), w.tScan)
		return
	}
	if refreshed {
		w.violation("live-entry-removed-after-traffic:"+kind, det,
			"%s entry %s was removed although its connection carried traffic after it was judged (tracking entry %s last_seen=%d >= scan time %d)",
			kind, key, w.key([]byte(tk)), tv.LastSeen(), w.tScan)
	} else {
		w.violation("entry-removed-before-timeout:"+kind, det,
			"%s entry %s was removed after being idle for only %s; the applicable timeouts are %v", kind, key, age, a)
	}
}

// isKnownShape: see knownShapeKey.  fv is the removed forward entry (as it was just before the
// cleaner ran), rv its reverse entry at that moment.
func (w *world) isKnownShape(k string, fv, rv conntrack.ValueInterface, queue map[string]string) bool {
	q, ok := queue[k]
	if !ok {
		return false // the forward key itself was not queued (e.g. removed through a pair entry)
	}
	cv := conntrack.CleanupValueFromBytes
	if w.ipver == 6 {
		cv = conntrack.CleanupValueV6FromBytes
	}
	qv := cv([]byte(q))
	if qv == nil {
		return false
	}
	for _, b := range qv.OtherNATKey().AsBytes() {
		if b != 0 {
			return false // queued with a real reverse key
		}
	}
	ts, rts := qv.Timestamp(), qv.RevTimestamp()
	if ts != rts {
		return false // the legs did not carry equal timestamps at judgement
	}
	if uint64(fv.LastSeen()) != ts {
		return false // the forward entry's own last_seen changed since the judgement
	}
	if rv.LastSeen() < w.tScan {
		return false // the reverse leg was not refreshed after the judgement
	}
	return true
}

// ---------------------------------------------------------------------------------------------
// generation

var durations = []time.Duration{time.Second, 5 * time.Second, 20 * time.Second, 30 * time.Second, 40 * time.Second, 60 * time.Second,
	120 * time.Second, 600 * time.Second, time.Hour, 2 * time.Hour}

func (w *world) addr(i int) net.IP {
	if w.ipver == 6 {
		return net.ParseIP(fmt.Sprintf("fd00::%x:%x", i/250+1, i%250+1))
	}
	return net.IPv4(10, byte(i/62500), byte(i/250%250), byte(i%250+1)).To4()
}

func (w *world) mkKey(proto uint8, a net.IP, pa uint16, b net.IP, pb uint16) conntrack.KeyInterface {
	if w.ipver == 6 {
		return conntrack.NewKeyV6(proto, a, pa, b, pb)
	}
	return conntrack.NewKey(proto, a, pa, b, pb)
}

func randLeg(c *harness.Case, proto uint8, est bool) conntrack.Leg {
	r := c.R
	l := conntrack.Leg{Bytes: uint64(r.Intn(1 << 20)), Packets: uint32(r.Intn(1000)), Seqno: r.Uint32(), Ifindex: uint32(r.Intn(40)), Opener: r.Intn(2) == 0, Approved: true}
	if proto == 6 {
		if est {
			l.SynSeen, l.AckSeen = true, true
		} else {
			l.SynSeen = r.Intn(2) == 0
			l.AckSeen = r.Intn(3) == 0
		}
		l.FinSeen = r.Intn(4) == 0
		l.RstSeen = r.Intn(8) == 0
	}
	return l
}

var protoChoices = []uint8{6, 6, 6, 17, 17, 1, 58, 132, 47}

func (w *world) generate(n int, t1 int64) {
	c := w.c
	r := c.R
	put := func(k conntrack.KeyInterface, v []byte) { w.ct.Contents[string(k.AsBytes())] = string(v) }
	for i := 0; i < n; i++ {
		proto := protoChoices[r.Intn(len(protoChoices))]
		if w.ipver == 4 && proto == 58 {
			proto = 1
		}
		est := r.Intn(2) == 0
		la, lb := randLeg(c, proto, est), randLeg(c, proto, est)
		flags := uint32(0)
		if proto == 6 && r.Intn(10) == 0 {
			flags |= v4.FlagNATFwdDsr
		}
		if r.Intn(6) == 0 {
			flags |= v4.FlagNATOut
		}
		// pick last_seen next to one of the thresholds that matter for this entry (or any timeout)
		var probe conntrack.ValueInterface
		if w.ipver == 6 {
			probe = conntrack.NewValueV6Normal(0, flags, la, lb)
		} else {
			probe = conntrack.NewValueNormal(0, flags, la, lb)
		}
		cand := w.applicable(proto, probe)
		cand = append(cand, durations[r.Intn(len(durations))])
		th := cand[r.Intn(len(cand))]
		deltas := []time.Duration{-time.Hour, -30 * time.Second, -time.Second, -1, 0, 1, time.Second, 30 * time.Second, time.Hour}
		age := th + deltas[r.Intn(len(deltas))]
		if age < 0 {
			age = time.Duration(r.Intn(1000)) * time.Millisecond
		}
		ls := time.Duration(t1) - age
		rstTS := uint64(0)
		if proto == 6 && r.Intn(8) == 0 {
			rstTS = uint64(ls) - uint64(r.Intn(1000))
		}
		cli, cport := w.addr(3*i), uint16(1024+r.Intn(60000))
		svc, sport := w.addr(3*i+1), uint16(1+r.Intn(1000))
		be, bport := w.addr(3*i+2), uint16(8000+r.Intn(100))
		poke := func(b []byte) []byte {
			if rstTS != 0 {
				binary.LittleEndian.PutUint64(b[offRSTSeen:], rstTS)
			}
			return b
		}
		switch kind := r.Intn(10); {
		case kind < 4: // normal
			k := w.mkKey(proto, cli, cport, be, bport)
			if w.ipver == 6 {
				put(k, poke(conntrack.NewValueV6Normal(ls, flags, la, lb).AsBytes()))
			} else {
				put(k, poke(conntrack.NewValueNormal(ls, flags, la, lb).AsBytes()))
			}
			c.Count("gen_normal", 1)
		case kind < 8: // NAT pair, or (kind 7) sometimes an orphan
			fk := w.mkKey(proto, cli, cport, svc, sport)
			rk := w.mkKey(proto, cli, cport, be, bport)
			fls := ls
			if r.Intn(2) == 0 { // last packet came in on the reverse key: the forward leg is older
				fls = ls - time.Duration(1+r.Intn(5_000_000_000))
			}
			orphan := 0
			if kind == 7 {
				orphan = r.Intn(3) // 0 pair, 1 forward only, 2 reverse only
			}
			if orphan != 2 {
				if w.ipver == 6 {
					put(fk, conntrack.NewValueV6NATForward(fls, flags, rk.(conntrack.KeyV6)).AsBytes())
				} else {
					put(fk, conntrack.NewValueNATForward(fls, flags, rk.(conntrack.Key)).AsBytes())
				}
			}
			if orphan != 1 {
				if w.ipver == 6 {
					put(rk, poke(conntrack.NewValueV6NATReverse(ls, flags, la, lb, nil, svc, sport).AsBytes()))
				} else {
					put(rk, poke(conntrack.NewValueNATReverse(ls, flags, la, lb, net.IPv4zero, svc, sport).AsBytes()))
				}
			}
			c.Count([]string{"gen_nat_pair", "gen_orphan_forward", "gen_orphan_reverse"}[orphan], 1)
			if orphan == 0 && fls == ls {
				c.Count("gen_nat_pair_equal_timestamps", 1)
			}
		default: // a fresh entry that must survive
			k := w.mkKey(proto, cli, cport, be, bport)
			fresh := time.Duration(t1) - time.Duration(r.Intn(900))*time.Millisecond
			if w.ipver == 6 {
				put(k, conntrack.NewValueV6Normal(fresh, flags, la, lb).AsBytes())
			} else {
				put(k, conntrack.NewValueNormal(fresh, flags, la, lb).AsBytes())
			}
			c.Count("gen_fresh", 1)
		}
	}
}

func randTimeouts(c *harness.Case) timeouts.Timeouts {
	r := c.R
	t := timeouts.DefaultTimeouts()
	if r.Intn(3) == 0 {
		return t
	}
	pick := func() time.Duration { return durations[r.Intn(len(durations))] }
	t.TCPSynSent, t.TCPEstablished, t.TCPFinsSeen, t.TCPResetSeen = pick(), pick(), pick(), pick()
	t.UDPTimeout, t.GenericTimeout, t.ICMPTimeout = pick(), pick(), pick()
	return t
}

// ---------------------------------------------------------------------------------------------

func run(c *harness.Case) {
	r := c.R
	w := &world{c: c, ipver: 4, doomed: map[string]int64{}}
	w.native = c.Index%4 != 0
	if w.native && r.Intn(3) == 0 {
		w.ipver = 6
	}
	if w.native && nativeBin[w.ipver] == "" {
		c.Count("native_unavailable", 1)
		if c.Index < 8 {
			c.Sample(map[string]any{"native_cleaner_unavailable": nativeErr[w.ipver]})
		}
		w.native, w.ipver = false, 4
	}
	ctP, ccqP := conntrack.MapParams, conntrack.MapParamsCleanup
	kfb, vfb := conntrack.KeyFromBytes, conntrack.ValueFromBytes
	if w.ipver == 6 {
		ctP, ccqP = conntrack.MapParamsV6, conntrack.MapParamsCleanupV6
		kfb, vfb = conntrack.KeyV6FromBytes, conntrack.ValueV6FromBytes
	}
	w.ct, w.ccq = mock.NewMockMap(ctP), mock.NewMockMap(ccqP)
	w.mt = mocktime.New()
	w.to = randTimeouts(c)
	w.mt.IncrementTime(time.Duration(2+r.Intn(100)) * time.Second)

	n := 10 + r.Intn(c.Pick(60, 150))
	big := c.Thorough() && c.Index%200 == 1 // enough expired entries to cross the scanner's 1000-entry cleaner batch
	if big {
		n = 2600 + r.Intn(800)
		c.Count("big_maps", 1)
	}
	w.generate(n, w.mt.KTimeNanos())
	c.Count("entries_generated", int64(len(w.ct.Contents)))

	ls := conntrack.NewLivenessScanner(w.to, r.Intn(2) == 0, conntrack.WithTimeShim(w.mt))
	var ctMap maps.Map = &ctGetHook{Map: w.ct, w: w}
	sc := conntrack.NewScanner(ctMap, kfb, vfb, nil, "Disabled", w.ccq, w.ipver, &hCleaner{w: w}, ls)
	if sc == nil {
		c.Inconclusive("NewScanner returned nil")
		return
	}

	scans := 3
	var sig []any
	for w.scan = 1; w.scan <= scans && !w.fatal; w.scan++ {
		w.tScan = w.mt.KTimeNanos()
		start := copyMap(w.ct.Contents)
		// liveness bookkeeping: which entries are idle past every applicable timeout right now
		newDoomed := map[string]int64{}
		for _, k := range sortedKeys(start) {
			tk, tv, ok := w.tracking(start, k)
			if !ok {
				// orphan forward entry: must go too
				newDoomed[k] = -1
				continue
			}
			_ = tk
			_, mx := minMax(w.applicable(w.key([]byte(k)).Proto(), tv))
			if time.Duration(w.tScan-tv.LastSeen()) > mx {
				newDoomed[k] = tv.LastSeen()
			}
		}
		c.Count("entries_scanned", int64(len(start)))
		w.inScan = true
		sc.Scan()
		w.inScan = false
		c.Count("scans", 1)
		if w.fatal {
			return
		}
		end := w.ct.Contents
		// anything that vanished outside a cleaner run?  (The scanner itself must not delete when a cleaner is configured.)
		// -- removals inside cleaner runs were judged there; compare totals.
		gone := 0
		for k := range start {
			if _, ok := end[k]; !ok {
				gone++
			}
		}
		sig = append(sig, len(start), gone)
		// liveness: entries doomed at the start of the PREVIOUS scan must be gone now unless traffic touched them
		dk := make([]string, 0, len(w.doomed))
		for k := range w.doomed {
			dk = append(dk, k)
		}
		sort.Strings(dk)
		for _, k := range dk {
			ts := w.doomed[k]
			if _, still := end[k]; !still {
				c.Count("liveness_confirmed", 1)
				continue
			}
			tk, tv, ok := w.tracking(end, k)
			switch {
			case ts == -1 && !ok:
				// still an orphan forward entry after two scans
				w.violation("orphan-forward-survives-two-scans", w.detail(map[string]any{"entry": w.key([]byte(k)).String()}),
					"NAT forward entry %s without a reverse entry survived two scans", w.key([]byte(k)))
				return
			case ts == -1 || !ok:
				continue // its situation changed (reverse entry appeared/vanished)
			case tv.LastSeen() != ts:
				c.Count("liveness_excused_by_traffic", 1)
				continue
			}
			age := time.Duration(w.tScan - tv.LastSeen())
			w.violation("expired-entry-survives-two-scans", w.detail(map[string]any{
				"entry": w.key([]byte(k)).String(), "value": w.val([]byte(end[k])).String(),
				"tracking_entry": w.key([]byte(tk)).String(), "tracking_value": tv.String(), "idle_for": age.String(),
				"applicable_timeouts": fmt.Sprint(w.applicable(w.key([]byte(k)).Proto(), tv))}),
				"entry %s has been idle for %s (past every applicable timeout since the scan before last) with no traffic and is still present after two scans",
				w.key([]byte(k)), age)
			return
		}
		w.doomed = newDoomed
		// time passes, packets flow
		adv := []time.Duration{2 * time.Second, 10 * time.Second, 25 * time.Second, 61 * time.Second, 10 * time.Minute, time.Hour}[r.Intn(6)]
		w.mt.IncrementTime(adv)
		if r.Intn(2) == 0 {
			w.burst("between-scans", nil, 0)
		}
	}
	c.NonTrivial(w.ipver, w.native, fmt.Sprint(sig), fmt.Sprintf("%+v", w.to))
	c.Distinct("timeout_configs", fmt.Sprintf("%+v", w.to))
	if c.Index < 4 {
		c.Sample(map[string]any{"ipver": w.ipver, "native": w.native, "entries": n, "scan_sizes_and_removals": sig, "timeouts": fmt.Sprintf("%+v", w.to), "traffic_events": len(w.events)})
	}
}

func main() {
	logrus.SetOutput(io.Discard)
	logrus.SetLevel(logrus.PanicLevel)
	harness.Main(harness.Check{
		ID:    "C14",
		Level: "exploration",
		Rule: "one case = one generated conntrack map (10-70 entries, thorough 10-160 and every 200th case ~3000: normal, NAT forward+reverse pairs with equal or older forward timestamp, orphan forward/reverse; " +
			"TCP in PRNG flag states incl. DSR and recorded-reset timestamp, UDP, ICMP, ICMPv6, SCTP, GRE; last_seen placed at -1h..+1h, +-1s, +-1ns and exactly at an applicable or arbitrary timeout; " +
			"default or PRNG timeouts) scanned 3 times by the real Scanner+LivenessScanner with the clock advanced 2s..1h in between; 3 of 4 cases run the natively compiled real conntrack_cleanup.c " +
			"(IPv4 2/3, IPv6 1/3) with traffic injected between judgement and cleaning, during the iteration and between scans, 1 of 4 the repo's mock cleaner without in-window traffic; every case is non-trivial; " +
			"distinct by (ip version, cleaner, per-scan sizes and removals, timeouts)",
		Assumptions: []string{
			"maps are felix/bpf/mock.Map with its snapshot Iter replaced by a live iteration in PRNG order (current values at each visit, forward entry before reverse entry forced in half of the NAT pairs, packets injected between visits); no LRU eviction is modelled",
			"native cases run the tree's conntrack_cleanup.c compiled for x86-64 with ASan/UBSan against user-space map helpers (/verif/cprobe/ctmaps.c: hash maps, exact-size elements, RCU-like deferred free, single CPU); " +
				"BPF inline asm (not on the cleaner's path) is replaced by traps; the BPF verifier and JIT are not involved",
			"the timeout table is written from timeouts.Timeouts and the statement (plus the 2-minute rule for a recorded reset); with several applicable timeouts safety uses the smallest, liveness the largest",
			"a refresh between the cleaner's look-up and its delete inside one process_ccq_entry call is not producible here",
			"CGO off (libbpf stubs), no race detector; the scanner is driven from one goroutine",
		},
		Cases: func(tier string) int {
			if tier == "thorough" {
				return 12000
			}
			return 1600
		},
		Setup: setup,
		Run:   run,
		Floors: map[string]int64{"scans": 3000, "cleaner_runs": 2000, "cleaner_runs_native": 1500, "cleaner_runs_mock": 400, "removals_judged": 5000,
			"removals_judged_nat-forward": 500, "removals_judged_nat-reverse": 500, "traffic_window": 1000, "traffic_mid-scan": 100, "reply_packet_before_reverse_visit": 200, "live_iteration_visits": 20000, "liveness_confirmed": 500,
			"gen_nat_pair_equal_timestamps": 300},
	})
}

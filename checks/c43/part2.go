// C43 part 2: the real cluster-route managers of the Linux dataplane behind the resolver.
//
// Every proto message the event sequencer emits is handed to the real vxlanManager, ipipManager and
// noEncapManager (all three share one route table, as in the internal dataplane) and, at every
// flush, CompleteDeferredWork is called on each.  The route table is a recorder: the last SetRoutes
// per (route class, interface) is what Felix wants in the kernel.
//
// Deliberately not checked (part 2):
//   - targets whose owner has no Node resource (no address to route via), or whose pool is absent or
//     load-balancer-only (no manager is responsible);
//   - VXLAN targets while the local node has no VXLAN tunnel address of its own (no local VTEP: the
//     manager documents that it falls back to tunnel routes) or while the owner has no VTEP;
//   - /32 routes of tunnel addresses and of addresses allocated to the local node (programmed or not,
//     by design of the flags; only that nothing else stale is programmed is checked);
//   - the tunnel devices themselves, FDB/neighbour entries, the allowed-sources IP set, MTU and protocol.
package main

import (
	"fmt"
	"net"
	"net/netip"
	"sort"
	"strings"

	"github.com/vishvananda/netlink"

	dpsets "github.com/projectcalico/calico/felix/dataplane/ipsets"
	intdataplane "github.com/projectcalico/calico/felix/dataplane/linux"
	"github.com/projectcalico/calico/felix/ifacemonitor"
	"github.com/projectcalico/calico/felix/netlinkshim"
	"github.com/projectcalico/calico/felix/proto"
	"github.com/projectcalico/calico/felix/routetable"
	"github.com/projectcalico/calico/felix/rules"
	"github.com/projectcalico/calico/felix/vxlanfdb"

	"verif/internal/harness"
)

const (
	parentDev = "eth0"
	vxlanDev  = "vxlan.calico"
	vxlanDev6 = "vxlan-v6.calico"
	ipipDev   = "tunl0"
)

// recRouteTable records SetRoutes calls.
type recRouteTable struct {
	routes map[routetable.RouteClass]map[string][]routetable.Target
	nSet   int64
}

func (t *recRouteTable) SetRoutes(class routetable.RouteClass, iface string, targets []routetable.Target) {
	if t.routes[class] == nil {
		t.routes[class] = map[string][]routetable.Target{}
	}
	t.routes[class][iface] = append([]routetable.Target(nil), targets...)
	t.nSet++
}
func (t *recRouteTable) RouteRemove(class routetable.RouteClass, iface string, key routetable.RouteKey) {
	var out []routetable.Target
	for _, x := range t.routes[class][iface] {
		if x.RouteKey != key {
			out = append(out, x)
		}
	}
	if t.routes[class] != nil {
		t.routes[class][iface] = out
	}
}
func (t *recRouteTable) RouteUpdate(class routetable.RouteClass, iface string, target routetable.Target) {
	t.RouteRemove(class, iface, target.RouteKey)
	if t.routes[class] == nil {
		t.routes[class] = map[string][]routetable.Target{}
	}
	t.routes[class][iface] = append(t.routes[class][iface], target)
}
func (t *recRouteTable) OnIfaceStateChanged(string, int, ifacemonitor.State) {}
func (t *recRouteTable) QueueResync()                                         {}
func (t *recRouteTable) Apply() error                                         { return nil }
func (t *recRouteTable) Index() int                                           { return 254 }
func (t *recRouteTable) QueueResyncIface(string)                              {}
func (t *recRouteTable) ReadRoutesFromKernel(string) ([]routetable.Target, error) {
	return nil, nil
}

// fakeNL: the host has one NIC, eth0, that carries every address the local node may announce
// (every host address of the universe).
// Only LinkList/AddrList are reachable from OnUpdate/CompleteDeferredWork (the device-sync goroutines
// are not started); anything else would nil-panic, which the harness reports.
type fakeNL struct {
	netlinkshim.Interface
}

func (fakeNL) LinkList() ([]netlink.Link, error) {
	la := netlink.NewLinkAttrs()
	la.Name = parentDev
	la.Index = 2
	la.Flags = net.FlagUp
	return []netlink.Link{&netlink.Device{LinkAttrs: la}}, nil
}

func (fakeNL) AddrList(link netlink.Link, family int) ([]netlink.Addr, error) {
	if link.Attrs().Name != parentDev {
		return nil, nil
	}
	cands := nodeAddrCands
	if family == netlink.FAMILY_V6 {
		cands = nodeAddr6Cands
	}
	var out []netlink.Addr
	seen := map[string]bool{}
	// (the local node may, in a history, be given any address of the universe)
	for _, n := range nodeNames {
		for _, cidr := range cands[n] {
			p := netip.MustParsePrefix(cidr)
			if seen[p.Addr().String()] {
				continue
			}
			seen[p.Addr().String()] = true
			ipa := net.ParseIP(p.Addr().String())
			if p.Addr().Is4() {
				ipa = ipa.To4()
			}
			out = append(out, netlink.Addr{IPNet: &net.IPNet{IP: ipa, Mask: net.CIDRMask(p.Bits(), p.Addr().BitLen())}})
		}
	}
	return out, nil
}

type fakeFDB struct{ n int64 }

func (f *fakeFDB) SetVTEPs([]vxlanfdb.VTEP) { f.n++ }

type mgrSink struct {
	rt   *recRouteTable // IPv4 main table
	rt6  *recRouteTable // IPv6 main table (int_dataplane gives the v6 managers their own RouteTable)
	mgrs []intdataplane.VerifRouteManager
	msgs int64
}

func newMgrSink(c *harness.Case, s *state) dpSink {
	rt := &recRouteTable{routes: map[routetable.RouteClass]map[string][]routetable.Target{}}
	cfg := intdataplane.Config{
		Hostname:                 me,
		MaxIPSetSize:             1000,
		IPIPMTU:                  1440,
		ProgramIPIPClusterRoutes: true,
		RulesConfig:              rules.Config{VXLANVNI: 4096, VXLANPort: 4789},
	}
	rt6 := &recRouteTable{routes: map[routetable.RouteClass]map[string][]routetable.Target{}}
	k := &mgrSink{rt: rt, rt6: rt6}
	k.mgrs = append(k.mgrs,
		intdataplane.VerifNewVXLANManager(dpsets.NewMockIPSets(), rt, &fakeFDB{}, vxlanDev, 4, 1410, cfg, fakeNL{}),
		intdataplane.VerifNewIPIPManager(rt, ipipDev, 4, 1440, cfg, fakeNL{}),
		intdataplane.VerifNewNoEncapManager(rt, 4, cfg, fakeNL{}),
		// as int_dataplane.go builds the IPv6 instances (non-BPF: own device, own route table)
		intdataplane.VerifNewVXLANManager(dpsets.NewMockIPSets(), rt6, &fakeFDB{}, vxlanDev6, 6, 1390, cfg, fakeNL{}),
		intdataplane.VerifNewNoEncapManager(rt6, 6, cfg, fakeNL{}),
	)
	return k
}

func (k *mgrSink) OnMsg(msg any) {
	k.msgs++
	for _, m := range k.mgrs {
		m.OnUpdate(msg)
	}
}

func (k *mgrSink) Apply() {
	for _, m := range k.mgrs {
		_ = m.CompleteDeferredWork()
	}
}

type progEntry struct {
	class routetable.RouteClass
	iface string
	t     routetable.Target
}

func (k *mgrSink) byDst() map[string][]progEntry {
	out := map[string][]progEntry{}
	for ti, tbl := range []*recRouteTable{k.rt, k.rt6} {
		classes := make([]int, 0)
		for cl := range tbl.routes {
			classes = append(classes, int(cl))
		}
		sort.Ints(classes)
		for _, cl := range classes {
			ifs := tbl.routes[routetable.RouteClass(cl)]
			for _, ifn := range sortedKeysB(ifs) {
				for _, t := range ifs[ifn] {
					d := t.CIDR.String()
					if isV6(d) != (ti == 1) {
						d = "wrong-table:" + d // a v4 route in the v6 table or vice versa is explained by nothing
					}
					out[d] = append(out[d], progEntry{routetable.RouteClass(cl), ifn, t})
				}
			}
		}
	}
	return out
}

func classesFor(t proto.IPPoolType, v6 bool) (tunnel, same, bh routetable.RouteClass, dev string) {
	switch t {
	case proto.IPPoolType_VXLAN:
		if v6 {
			return routetable.RouteClassVXLANTunnel, routetable.RouteClassVXLANSameSubnet, routetable.RouteClassBlackholeVXLAN, vxlanDev6
		}
		return routetable.RouteClassVXLANTunnel, routetable.RouteClassVXLANSameSubnet, routetable.RouteClassBlackholeVXLAN, vxlanDev
	case proto.IPPoolType_IPIP:
		return routetable.RouteClassIPIPTunnel, routetable.RouteClassIPIPSameSubnet, routetable.RouteClassBlackholeIPIP, ipipDev
	default:
		return routetable.RouteClassNoEncap, routetable.RouteClassNoEncap, routetable.RouteClassBlackholeNoEncap, ""
	}
}

func isBlackholeClass(c routetable.RouteClass) bool {
	return c == routetable.RouteClassBlackholeVXLAN || c == routetable.RouteClassBlackholeIPIP || c == routetable.RouteClassBlackholeNoEncap
}

func fmtEntries(es []progEntry) string {
	s := ""
	for _, e := range es {
		gw := "-"
		if e.t.GW != nil {
			gw = e.t.GW.String()
		}
		s += fmt.Sprintf("[%v dev=%s type=%q gw=%s] ", e.class, e.iface, e.t.Type, gw)
	}
	if s == "" {
		return "nothing"
	}
	return s
}

func checkMgrSink(c *harness.Case, s *state, ds dpSink) *verdict {
	k := ds.(*mgrSink)
	c.Count("dataplane_msgs", k.msgs)
	c.Count("setroutes_calls", k.rt.nSet+k.rt6.nSet)
	prog := k.byDst()
	mine := s.Nodes[me]

	for _, t := range s.remoteTargets() {
		pi := s.poolFor(netip.MustParsePrefix(t.Dst))
		if pi == nil || pi.lb || pi.ptype == proto.IPPoolType_NONE {
			c.Count("p2_skipped_no_pool", 1)
			continue
		}
		v6 := isV6(t.Dst)
		owner := s.Nodes[t.Owner]
		if owner == nil || mine == nil || s.nodeAddr(t.Owner, v6) == "" || s.nodeAddr(me, v6) == "" {
			c.Count("p2_skipped_node_unknown", 1)
			continue
		}
		myTun, ownerTun := mine.VXLANTun, owner.VXLANTun
		if v6 {
			myTun, ownerTun = mine.VXLANTun6, owner.VXLANTun6
		}
		if pi.ptype == proto.IPPoolType_VXLAN && myTun == "" {
			c.Count("p2_skipped_no_local_vtep", 1)
			continue
		}
		tunnelCl, sameCl, _, dev := classesFor(pi.ptype, v6)
		direct := pi.ptype == proto.IPPoolType_NO_ENCAP || (pi.cs && s.inMySubnet(t.Owner, v6))
		es := prog[t.Dst]
		what := fmt.Sprintf("%s %s owned by %s (%s), pool %v cross-subnet=%v, local node %s", t.Kind, t.Dst, t.Owner, s.nodeAddr(t.Owner, v6), pi.ptype, pi.cs, s.nodeAddr(me, v6))
		if direct {
			c.Count("p2_direct_targets", 1)
			if v6 {
				c.Count("p2_direct_targets_v6", 1)
			}
			if len(es) != 1 || es[0].class != sameCl || es[0].iface != parentDev || es[0].t.Type != routetable.TargetTypeNoEncap ||
				es[0].t.GW == nil || es[0].t.GW.String() != s.nodeIP(t.Owner, v6) {
				return &verdict{"direct-route-wrong:" + t.Kind, fmt.Sprintf("%s must be routed directly via %s on %s in class %v; programmed: %s", what, s.nodeIP(t.Owner, v6), parentDev, sameCl, fmtEntries(es))}
			}
			continue
		}
		// tunnel required
		for _, e := range es {
			if e.class != tunnelCl || e.iface != dev {
				return &verdict{"tunnel-target-routed-elsewhere:" + t.Kind, fmt.Sprintf("%s must go over tunnel device %s only; programmed: %s", what, dev, fmtEntries(es))}
			}
		}
		switch pi.ptype {
		case proto.IPPoolType_VXLAN:
			if ownerTun == "" {
				c.Count("p2_skipped_owner_no_vtep", 1)
				if len(es) != 0 {
					return &verdict{"route-via-withdrawn-vtep", fmt.Sprintf("%s: the owner has no VTEP yet something is programmed: %s", what, fmtEntries(es))}
				}
				continue
			}
			c.Count("p2_tunnel_targets", 1)
			if v6 {
				c.Count("p2_tunnel_targets_v6", 1)
			}
			if len(es) != 1 || es[0].t.Type != routetable.TargetTypeVXLAN || es[0].t.GW == nil || es[0].t.GW.String() != netip.MustParseAddr(ownerTun).String() {
				return &verdict{"tunnel-route-wrong:" + t.Kind, fmt.Sprintf("%s must be routed on %s via the owner's VTEP %s; programmed: %s", what, dev, ownerTun, fmtEntries(es))}
			}
		case proto.IPPoolType_IPIP:
			c.Count("p2_tunnel_targets", 1)
			if len(es) != 1 || es[0].t.Type != routetable.TargetTypeOnLink || es[0].t.GW == nil || es[0].t.GW.String() != s.nodeIP(t.Owner, v6) {
				return &verdict{"tunnel-route-wrong:" + t.Kind, fmt.Sprintf("%s must be routed on %s on-link via %s; programmed: %s", what, dev, s.nodeIP(t.Owner, v6), fmtEntries(es))}
			}
		}
	}

	// Local blocks: blackholes, per pool type; and nothing else is blackholed.
	wantBH := map[string]routetable.RouteClass{}
	for _, b := range sortedKeysB(s.Blocks) {
		bv := s.Blocks[b]
		p := netip.MustParsePrefix(b)
		if bv.Host != me || fullLen(p) {
			continue
		}
		pi := s.poolFor(p)
		if pi == nil || pi.lb || pi.ptype == proto.IPPoolType_NONE {
			continue
		}
		_, _, bh, _ := classesFor(pi.ptype, isV6(b))
		wantBH[b] = bh
		c.Count("p2_local_blocks", 1)
		found := false
		for _, e := range prog[b] {
			if e.class == bh && e.iface == routetable.InterfaceNone && e.t.Type == routetable.TargetTypeBlackhole {
				found = true
			}
		}
		if !found {
			return &verdict{"blackhole-missing", fmt.Sprintf("local block %s (pool %v) has no blackhole route in class %v; programmed: %s", b, pi.ptype, bh, fmtEntries(prog[b]))}
		}
	}
	weps := s.wepIPs()
	for _, dst := range sortedKeysB(prog) {
		if strings.HasPrefix(dst, "wrong-table:") {
			return &verdict{"route-in-wrong-family-table", fmt.Sprintf("programmed route %s %s", dst, fmtEntries(prog[dst]))}
		}
		d := netip.MustParsePrefix(dst)
		for _, e := range prog[dst] {
			c.Count("p2_programmed_routes_checked", 1)
			if isBlackholeClass(e.class) || e.t.Type == routetable.TargetTypeBlackhole {
				if fullLen(d) && weps[d.Addr().String()] {
					return &verdict{"blackhole-covers-local-workload", fmt.Sprintf("blackhole route %s is a local workload's own address: %s", dst, fmtEntries(prog[dst]))}
				}
				if cl, ok := wantBH[dst]; !ok || cl != e.class {
					return &verdict{"stale-blackhole", fmt.Sprintf("blackhole route %s in class %v is not a local block of that pool type in the final state", dst, e.class)}
				}
				continue
			}
			// cluster routes: must be explained by the final state
			explained := false
			for b, bv := range s.Blocks {
				p := netip.MustParsePrefix(b)
				if b == dst && bv.Host != "" && bv.Host != me {
					explained = true
				}
				if fullLen(d) && p.Contains(d.Addr()) {
					for ord, y := range bv.Allocs {
						if y != "" && y != bv.Host && ordinalIP(b, ord) == d.Addr().String() {
							explained = true
						}
					}
				}
			}
			if fullLen(d) && s.tunnelAddrs()[d.Addr().String()] {
				explained = true
			}
			if !explained {
				return &verdict{"stale-cluster-route", fmt.Sprintf("programmed route %s %s is explained by nothing in the final datastore state", dst, fmtEntries(prog[dst]))}
			}
		}
	}
	return nil
}

func init() {
	newSink = newMgrSink
	checkSink = checkMgrSink
}

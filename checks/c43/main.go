// C43 — cluster routes take the path their pool's encapsulation requires.
//
// Part 1 drives the real calc.L3RouteResolver, calc.VXLANResolver and calc.DataplanePassthru, wired
// to two dispatchers and the real calc.EventSequencer exactly as calc_graph.go wires them, with two
// different generated histories (different intermediate values, different interleavings) that end in
// the same datastore state.  The proto messages the sequencer emits are folded into a route map and
// judged against an oracle computed from the final datastore state only; the two folds must agree.
//
// Part 2 (part2.go) hands every emitted message to the real vxlanManager, ipipManager and
// noEncapManager (through felix/dataplane/linux/export_verif_routes.go) whose SetRoutes calls a
// recording route table captures, and judges direct-vs-tunnel programming and blackholes.
//
// Deliberately not checked:
//   - transient output while a history is being replayed (only the final fold is judged);
//   - fields of RouteUpdate the statement does not mention (NatOutgoing, TunnelType): differences
//     between the two orders in those are only counted (aux_field_order_differences);
//   - /32 routes of tunnel addresses, host addresses and pool CIDRs beyond "explained by the final
//     state"; routes whose destination collides with a tunnel address or (for borrowed addresses)
//     a local workload's address: the code's tie-breaks there are more specific than the statement;
//   - addresses borrowed by the local node from a remote block (flagged both local and remote by
//     design) beyond the local-workload flag;
//   - blocks whose pool is absent or load-balancer-only (no encapsulation to require anything);
//   - WorkloadIPs route source, wireguard, IPIP over IPv6 (does not exist).
package main

import (
	"fmt"
	"io"
	"net/netip"
	"sort"
	"strings"

	"github.com/sirupsen/logrus"
	googleproto "google.golang.org/protobuf/proto"

	"github.com/projectcalico/calico/felix/calc"
	"github.com/projectcalico/calico/felix/config"
	"github.com/projectcalico/calico/felix/dispatcher"
	"github.com/projectcalico/calico/felix/proto"
	"github.com/projectcalico/calico/libcalico-go/lib/apis/internalapi"
	"github.com/projectcalico/calico/libcalico-go/lib/backend/api"
	"github.com/projectcalico/calico/libcalico-go/lib/backend/encap"
	"github.com/projectcalico/calico/libcalico-go/lib/backend/model"
	"github.com/projectcalico/calico/libcalico-go/lib/backend/syncersv1/updateprocessors"
	calinet "github.com/projectcalico/calico/libcalico-go/lib/net"

	v3 "github.com/projectcalico/api/pkg/apis/projectcalico/v3"

	"verif/internal/harness"
)

const me = "me"

// ---------------------------------------------------------------------------------------------
// Universe (IPv4)

var nodeNames = []string{me, "n1", "n2", "n3", "n4"}

// Candidate host addresses per node: never shared between two nodes in a final state.
var nodeAddrCands = map[string][]string{
	me:   {"192.168.0.1/24", "192.168.0.1/16", "192.168.1.1/24", "172.16.0.1/24"},
	"n1": {"192.168.0.2/24", "192.168.1.2/24"},
	"n2": {"192.168.0.3/24", "192.168.1.3/24", "192.168.0.3/32"},
	"n3": {"192.168.1.4/24", "192.168.0.4/24"},
	"n4": {"172.16.0.5/24", "192.168.0.5/25"},
}

// IPv6 host address candidates per node; an IPv6 address is optional and can be removed again.
var nodeAddr6Cands = map[string][]string{
	me:   {"fd00:a::1/64", "fd00:a::1/48", "fd00:b::1/64"},
	"n1": {"fd00:a::2/64", "fd00:b::2/64"},
	"n2": {"fd00:a::3/64", "fd00:a:0:1::3/64"}, // the second is inside the local /48 but outside the local /64
	"n3": {"fd00:b::4/64", "fd00:a::4/64"},
	"n4": {"fd00:c::5/64", "fd00:a::5/64"},
}

var poolCands = []string{"10.0.0.0/16", "10.1.0.0/16", "10.2.0.0/24", "10.3.0.0/26", "fd10::/48", "fd11::/48", "fd12::/122"}
var poolModes = []string{"none", "ipip", "ipip-cs", "vxlan", "vxlan-cs"}
var poolModes6 = []string{"none", "vxlan", "vxlan-cs", "vxlan-cs"} // IPIP is IPv4 only

func isV6(s string) bool { return strings.Contains(s, ":") }

// fullLen: the prefix is a single address (/32 or /128).
func fullLen(p netip.Prefix) bool { return p.Bits() == p.Addr().BitLen() }

// hostSuffix renders a single address as a CIDR string.
func hostCIDR(ip string) string {
	if isV6(ip) {
		return ip + "/128"
	}
	return ip + "/32"
}

func blockSize(p netip.Prefix) int { return 1 << (p.Addr().BitLen() - p.Bits()) }

// Disjoint block candidates; 10.3.0.0/26 coincides with a pool CIDR, 10.0.2.0/32 is a single-address
// block, 10.9.0.0/26 is in no pool.
var blockCands = []string{"10.0.0.0/26", "10.0.0.64/26", "10.0.1.0/26", "10.0.2.0/32", "10.1.0.0/26", "10.1.0.64/26",
	"10.2.0.0/26", "10.2.0.64/28", "10.3.0.0/26", "10.9.0.0/26",
	// IPv6: fd12::/122 coincides with a pool, fd10:0:0:2::/128 is a single-address block, fd19::/122 is in no pool.
	"fd10::/122", "fd10::40/122", "fd10:0:0:1::/122", "fd10:0:0:2::/128", "fd11::/122", "fd11::40/122", "fd12::/122", "fd19::/122"}

var wepNames = []string{"w0", "w1", "w2"}

type poolV struct {
	Mode   string `json:"mode"`
	Masq   bool   `json:"masq,omitempty"`
	LBOnly bool   `json:"lb_only,omitempty"`
}

type nodeV struct {
	Addr     string `json:"addr"` // CIDR form
	VXLANTun string `json:"vxlan_tun,omitempty"`
	IPIPTun  string `json:"ipip_tun,omitempty"`
	MAC      string `json:"mac,omitempty"`
	// IPv6 (all optional)
	Addr6     string `json:"addr6,omitempty"` // CIDR form
	VXLANTun6 string `json:"vxlan_tun6,omitempty"`
	MAC6      string `json:"mac6,omitempty"`
}

type blockV struct {
	Host   string         `json:"host"` // "" = no affinity
	Allocs map[int]string `json:"allocs,omitempty"`
}

type wepV struct {
	IPs []string `json:"ips"`
}

type state struct {
	Pools  map[string]*poolV  `json:"pools"`
	Nodes  map[string]*nodeV  `json:"nodes"`
	Blocks map[string]*blockV `json:"blocks"`
	WEPs   map[string]*wepV   `json:"weps"`
}

// one datastore update: Val == nil means delete.
type upd struct {
	Kind string `json:"kind"` // pool|node|block|wep
	Key  string `json:"key"`
	Val  any    `json:"val"`
}

func ordinalIP(block string, ord int) string {
	p := netip.MustParsePrefix(block)
	a := p.Addr()
	for i := 0; i < ord; i++ {
		a = a.Next()
	}
	return a.String()
}

func tunnelCands(node string, kind string) []string {
	i := 0
	for k, n := range nodeNames {
		if n == node {
			i = k
		}
	}
	base := 10
	if kind == "ipip" {
		base = 20
	}
	out := []string{
		fmt.Sprintf("10.0.3.%d", base+i),         // in pool 10.0.0.0/16, in no block
		ordinalIP("10.0.0.0/26", base+i),         // inside a block (whoever owns it)
		ordinalIP("10.1.0.64/26", base+i),        // inside a block of another pool
		fmt.Sprintf("10.7.0.%d", base+i),         // in no pool
	}
	if node == "n1" && kind == "vxlan" {
		out = append(out, "10.0.2.0") // the /32 block itself
	}
	if kind == "vxlan6" {
		out = []string{
			fmt.Sprintf("fd10:0:0:3::%x", base+i), // in pool fd10::/48, in no block
			ordinalIP("fd10::/122", base+i),       // inside a block
			ordinalIP("fd11::40/122", base+i),     // inside a block of another pool
			fmt.Sprintf("fd17::%x", base+i),       // in no pool
		}
		if node == "n1" {
			out = append(out, "fd10:0:0:2::") // the /128 block itself
		}
	}
	return out
}

// ---------------------------------------------------------------------------------------------
// Generators
//
// A case is a TRUE datastore history: a sequence of mutations, each of which keeps the datastore
// consistent the way Calico's own writers keep it (an address is recorded in its IPAM block, with the
// node attribute, BEFORE a node's tunnel address or a workload endpoint starts using it, and the
// record goes away only AFTER the user is gone; a block is deleted only when nothing uses it).  What
// Felix sees of it is, per resource kind (one watch per kind), a snapshot of that kind at some point
// of the history followed by the remaining events of that kind in order; the kinds are interleaved
// arbitrarily.  Two such deliveries of the same true history are compared.

func sortedKeysB[V any](m map[string]V) []string {
	out := make([]string, 0, len(m))
	for k := range m {
		out = append(out, k)
	}
	sort.Strings(out)
	return out
}

func (s *state) tunnelAddrs() map[string]bool {
	t := map[string]bool{}
	for _, n := range s.Nodes {
		if n.VXLANTun != "" {
			t[n.VXLANTun] = true
		}
		if n.IPIPTun != "" {
			t[n.IPIPTun] = true
		}
		if n.VXLANTun6 != "" {
			t[n.VXLANTun6] = true
		}
	}
	return t
}

func cloneBlock(b *blockV) *blockV {
	cp := &blockV{Host: b.Host, Allocs: map[int]string{}}
	for k, v := range b.Allocs {
		cp.Allocs[k] = v
	}
	return cp
}

// blockOf returns the existing block containing ip and the ordinal of ip in it.
func (s *state) blockOf(ip string) (string, int) {
	a := netip.MustParseAddr(ip)
	for _, b := range sortedKeysB(s.Blocks) {
		p := netip.MustParsePrefix(b)
		if p.Contains(a) {
			ord := 0
			for x := p.Addr(); x != a; x = x.Next() {
				ord++
			}
			return b, ord
		}
	}
	return "", 0
}

// inUse: ip is a tunnel address of an existing node or an address of a local workload.
func (s *state) inUse(ip string) bool {
	return s.tunnelAddrs()[ip] || s.wepIPs()[ip]
}

type world struct {
	c      *harness.Case
	st     *state
	events map[string][]upd // per kind, in true order
	nMut   int
}

func (w *world) emit(kind, key string, val any) {
	w.events[kind] = append(w.events[kind], upd{Kind: kind, Key: key, Val: val})
}

func (w *world) emitBlock(b string) {
	if bv := w.st.Blocks[b]; bv != nil {
		w.emit("block", b, cloneBlock(bv))
	} else {
		w.emit("block", b, (*blockV)(nil))
	}
}

func (w *world) emitNode(n string) {
	if nv := w.st.Nodes[n]; nv != nil {
		cp := *nv
		w.emit("node", n, &cp)
	} else {
		w.emit("node", n, (*nodeV)(nil))
	}
}

func (w *world) emitWEP(name string) {
	if wv := w.st.WEPs[name]; wv != nil {
		w.emit("wep", name, &wepV{IPs: append([]string{}, wv.IPs...)})
	} else {
		w.emit("wep", name, (*wepV)(nil))
	}
}

// record / unrecord an address in its block (if it lies in an existing block), emitting the block.
func (w *world) record(ip, owner string) {
	if ip == "" {
		return
	}
	if b, ord := w.st.blockOf(ip); b != "" && w.st.Blocks[b].Allocs[ord] != owner {
		w.st.Blocks[b].Allocs[ord] = owner
		w.emitBlock(b)
	}
}

func (w *world) unrecord(ip string) {
	if ip == "" || w.st.inUse(ip) {
		return
	}
	if b, ord := w.st.blockOf(ip); b != "" {
		if _, ok := w.st.Blocks[b].Allocs[ord]; ok && w.c.R.Intn(4) != 0 { // sometimes the record leaks
			delete(w.st.Blocks[b].Allocs, ord)
			w.emitBlock(b)
		}
	}
}

func (w *world) addrTaken(addr, except string) bool {
	ip := netip.MustParsePrefix(addr).Addr()
	for n, nv := range w.st.Nodes {
		if n == except {
			continue
		}
		if nv.Addr != "" && netip.MustParsePrefix(nv.Addr).Addr() == ip {
			return true
		}
		if nv.Addr6 != "" && netip.MustParsePrefix(nv.Addr6).Addr() == ip {
			return true
		}
	}
	return false
}

func (w *world) mutate() {
	c, st := w.c, w.st
	w.nMut++
	switch r := c.R.Intn(100); {
	case r < 12: // pool create / change
		p := poolCands[c.R.Intn(len(poolCands))]
		v := &poolV{Mode: poolModes[c.R.Intn(len(poolModes))], Masq: c.R.Intn(2) == 0, LBOnly: c.R.Intn(14) == 0}
		if isV6(p) {
			v.Mode = poolModes6[c.R.Intn(len(poolModes6))]
		}
		st.Pools[p] = v
		cp := *v
		w.emit("pool", p, &cp)
	case r < 16: // pool delete
		p := poolCands[c.R.Intn(len(poolCands))]
		if st.Pools[p] != nil {
			delete(st.Pools, p)
			w.emit("pool", p, (*poolV)(nil))
		}
	case r < 30: // node create / address change
		n := nodeNames[c.R.Intn(len(nodeNames))]
		if nv := st.Nodes[n]; nv != nil && c.R.Intn(2) == 0 {
			// IPv6 address of an existing node: set, change (re-addressing) or remove
			nu := ""
			if nv.Addr6 == "" || c.R.Intn(4) != 0 {
				cands := nodeAddr6Cands[n]
				nu = cands[c.R.Intn(len(cands))]
				if c.R.Intn(10) == 0 {
					o := nodeNames[c.R.Intn(len(nodeNames))]
					nu = nodeAddr6Cands[o][c.R.Intn(len(nodeAddr6Cands[o]))]
				}
				if w.addrTaken(nu, n) {
					return
				}
			}
			if nu == nv.Addr6 {
				return
			}
			nv.Addr6 = nu
			if c.R.Intn(4) == 0 {
				nv.MAC6 = fmt.Sprintf("66:aa:bb:cc:ee:%02x", c.R.Intn(4))
			}
			w.emitNode(n)
			return
		}
		cands := nodeAddrCands[n]
		addr := cands[c.R.Intn(len(cands))]
		if c.R.Intn(10) == 0 { // take over the address of another node if it is free right now
			o := nodeNames[c.R.Intn(len(nodeNames))]
			addr = nodeAddrCands[o][c.R.Intn(len(nodeAddrCands[o]))]
		}
		if w.addrTaken(addr, n) {
			return
		}
		if st.Nodes[n] == nil {
			st.Nodes[n] = &nodeV{}
		}
		st.Nodes[n].Addr = addr
		if c.R.Intn(4) == 0 {
			st.Nodes[n].MAC = fmt.Sprintf("66:aa:bb:cc:dd:%02x", c.R.Intn(4))
		}
		w.emitNode(n)
	case r < 34: // node delete (its tunnel addresses stop being used; records may linger)
		n := nodeNames[c.R.Intn(len(nodeNames))]
		if nv := st.Nodes[n]; nv != nil {
			delete(st.Nodes, n)
			w.emitNode(n)
			w.unrecord(nv.VXLANTun)
			w.unrecord(nv.IPIPTun)
			w.unrecord(nv.VXLANTun6)
		}
	case r < 48: // node tunnel address set / change / clear
		n := nodeNames[c.R.Intn(len(nodeNames))]
		nv := st.Nodes[n]
		if nv == nil {
			return
		}
		kind := []string{"vxlan", "ipip", "vxlan6", "vxlan6"}[c.R.Intn(4)]
		old := nv.VXLANTun
		if kind == "ipip" {
			old = nv.IPIPTun
		} else if kind == "vxlan6" {
			old = nv.VXLANTun6
		}
		nu := ""
		if c.R.Intn(5) != 0 {
			t := tunnelCands(n, kind)
			nu = t[c.R.Intn(len(t))]
		}
		if nu == old {
			return
		}
		if nu != "" {
			if b, _ := st.blockOf(nu); b != "" && fullLen(netip.MustParsePrefix(b)) && st.Blocks[b].Host != n {
				return // a dedicated /32 tunnel block is used by its own node only
			} else if b == "" {
				for _, cand := range blockCands {
					if netip.MustParsePrefix(cand).Contains(netip.MustParseAddr(nu)) {
						return // IPAM hands out addresses from existing blocks only
					}
				}
			}
			w.record(nu, n) // IPAM first
		}
		switch kind {
		case "ipip":
			nv.IPIPTun = nu
		case "vxlan6":
			nv.VXLANTun6 = nu
		default:
			nv.VXLANTun = nu
		}
		w.emitNode(n)
		if old != "" {
			w.unrecord(old)
		}
	case r < 62: // block create / affinity change
		b := blockCands[c.R.Intn(len(blockCands))]
		var host string
		switch q := c.R.Intn(10); {
		case q < 3:
			host = me
		case q < 9:
			host = nodeNames[1+c.R.Intn(len(nodeNames)-1)]
		}
		if bv := st.Blocks[b]; bv != nil {
			if fullLen(netip.MustParsePrefix(b)) && len(bv.Allocs) > 0 {
				return // keep a used /32 block with its owner
			}
			bv.Host = host
		} else {
			st.Blocks[b] = &blockV{Host: host, Allocs: map[int]string{}}
		}
		w.emitBlock(b)
	case r < 76: // allocation add / change / release (not one that is in use)
		bs := sortedKeysB(st.Blocks)
		if len(bs) == 0 {
			return
		}
		b := bs[c.R.Intn(len(bs))]
		bv := st.Blocks[b]
		p := netip.MustParsePrefix(b)
		if fullLen(p) {
			return
		}
		ord := 1 + c.R.Intn(5)
		if st.inUse(ordinalIP(b, ord)) {
			return
		}
		if _, ok := bv.Allocs[ord]; ok && c.R.Intn(3) == 0 {
			delete(bv.Allocs, ord)
		} else {
			switch q := c.R.Intn(10); {
			case q < 3:
				bv.Allocs[ord] = bv.Host
			case q < 9:
				bv.Allocs[ord] = nodeNames[c.R.Intn(len(nodeNames))]
			default:
				bv.Allocs[ord] = "" // allocation without a recorded node
			}
		}
		w.emitBlock(b)
	case r < 80: // block delete (only when nothing uses it)
		bs := sortedKeysB(st.Blocks)
		if len(bs) == 0 {
			return
		}
		b := bs[c.R.Intn(len(bs))]
		p := netip.MustParsePrefix(b)
		for ip := range st.tunnelAddrs() {
			if p.Contains(netip.MustParseAddr(ip)) {
				return
			}
		}
		for ip := range st.wepIPs() {
			if p.Contains(netip.MustParseAddr(ip)) {
				return
			}
		}
		delete(st.Blocks, b)
		w.emitBlock(b)
	case r < 94: // local workload create / address change
		name := wepNames[c.R.Intn(len(wepNames))]
		var ips []string
		k := 1
		if c.R.Intn(6) == 0 {
			k = 2
		}
		for i := 0; i < k; i++ {
			var ip string
			if c.R.Intn(12) == 0 {
				ip = []string{"10.0.5.1", "10.0.5.2", "10.7.1.1", "fd10:0:0:5::1"}[c.R.Intn(4)] // assigned outside Calico IPAM, in no block
			} else {
				bs := sortedKeysB(st.Blocks)
				if len(bs) == 0 {
					continue
				}
				b := bs[c.R.Intn(len(bs))]
				ord := 0
				if !fullLen(netip.MustParsePrefix(b)) {
					ord = 1 + c.R.Intn(6)
				} else if st.Blocks[b].Host != me {
					continue
				}
				ip = ordinalIP(b, ord)
			}
			if st.inUse(ip) {
				continue
			}
			dup := false
			for _, e := range ips {
				dup = dup || e == ip
			}
			if !dup {
				ips = append(ips, ip)
			}
		}
		if len(ips) == 0 {
			return
		}
		var old []string
		if wv := st.WEPs[name]; wv != nil {
			old = wv.IPs
		}
		for _, ip := range ips {
			w.record(ip, me) // the CNI plugin allocates before it creates the endpoint
		}
		st.WEPs[name] = &wepV{IPs: ips}
		w.emitWEP(name)
		for _, ip := range old {
			w.unrecord(ip)
		}
	default: // local workload delete
		name := wepNames[c.R.Intn(len(wepNames))]
		if wv := st.WEPs[name]; wv != nil {
			delete(st.WEPs, name)
			w.emitWEP(name)
			for _, ip := range wv.IPs {
				w.unrecord(ip)
			}
		}
	}
}

func genTrueHistory(c *harness.Case) *world {
	w := &world{c: c, events: map[string][]upd{},
		st: &state{Pools: map[string]*poolV{}, Nodes: map[string]*nodeV{}, Blocks: map[string]*blockV{}, WEPs: map[string]*wepV{}}}
	n := c.Pick(110, 180) + c.R.Intn(50)
	for i := 0; i < n; i++ {
		w.mutate()
	}
	return w
}

var kinds = []string{"pool", "node", "block", "wep"}

// delivery builds one legitimate view of the true history.
func (w *world) delivery(c *harness.Case) []upd {
	var lists [][]upd
	for _, k := range kinds {
		ev := w.events[k]
		if len(ev) == 0 {
			continue
		}
		cut := 0
		switch c.R.Intn(4) {
		case 0: // the watch started before anything happened
		case 1:
			cut = len(ev) // a single list of the final state of this kind
		default:
			cut = c.R.Intn(len(ev) + 1)
		}
		last := map[string]upd{}
		for _, e := range ev[:cut] {
			last[e.Key] = e
		}
		var l []upd
		ks := sortedKeysB(last)
		c.R.Shuffle(len(ks), func(i, j int) { ks[i], ks[j] = ks[j], ks[i] })
		for _, key := range ks {
			if !isNilVal(last[key].Val) {
				l = append(l, last[key])
			}
		}
		l = append(l, ev[cut:]...)
		if c.R.Intn(5) == 0 { // resync of this kind at the end: the final values again
			fin := map[string]upd{}
			for _, e := range ev {
				fin[e.Key] = e
			}
			fk := sortedKeysB(fin)
			c.R.Shuffle(len(fk), func(i, j int) { fk[i], fk[j] = fk[j], fk[i] })
			for _, key := range fk {
				if !isNilVal(fin[key].Val) {
					l = append(l, fin[key])
				}
			}
		}
		if len(l) > 0 {
			lists = append(lists, l)
		}
	}
	var out []upd
	for len(lists) > 0 {
		i := c.R.Intn(len(lists))
		// take a short run from one kind, then switch
		run := 1 + c.R.Intn(4)
		for run > 0 && len(lists[i]) > 0 {
			out = append(out, lists[i][0])
			lists[i] = lists[i][1:]
			run--
		}
		if len(lists[i]) == 0 {
			lists = append(lists[:i], lists[i+1:]...)
		}
	}
	return out
}

func isNilVal(v any) bool {
	switch x := v.(type) {
	case nil:
		return true
	case *poolV:
		return x == nil
	case *nodeV:
		return x == nil
	case *blockV:
		return x == nil
	case *wepV:
		return x == nil
	}
	return false
}

// ---------------------------------------------------------------------------------------------
// Conversion to the KVs Felix's syncer would deliver

func poolKV(cidr string, v *poolV) api.Update {
	key := model.IPPoolKey{CIDR: netip.MustParsePrefix(cidr)}
	if v == nil {
		return api.Update{KVPair: model.KVPair{Key: key}, UpdateType: api.UpdateTypeKVDeleted}
	}
	p := &model.IPPool{CIDR: calinet.MustParseCIDR(cidr), Masquerade: v.Masq, IPAM: true}
	switch v.Mode {
	case "ipip":
		p.IPIPMode = encap.Always
	case "ipip-cs":
		p.IPIPMode = encap.CrossSubnet
	case "vxlan":
		p.VXLANMode = encap.Always
	case "vxlan-cs":
		p.VXLANMode = encap.CrossSubnet
	}
	if v.LBOnly {
		p.AllowedUses = []v3.IPPoolAllowedUse{v3.IPPoolAllowedUseLoadBalancer}
	} else {
		p.AllowedUses = []v3.IPPoolAllowedUse{v3.IPPoolAllowedUseWorkload, v3.IPPoolAllowedUseTunnel}
	}
	return api.Update{KVPair: model.KVPair{Key: key, Value: p}, UpdateType: api.UpdateTypeKVUpdated}
}

func blockKV(cidr string, v *blockV) api.Update {
	key := model.BlockKey{CIDR: netip.MustParsePrefix(cidr)}
	if v == nil {
		return api.Update{KVPair: model.KVPair{Key: key}, UpdateType: api.UpdateTypeKVDeleted}
	}
	p := netip.MustParsePrefix(cidr)
	size := blockSize(p)
	b := &model.AllocationBlock{CIDR: calinet.MustParseCIDR(cidr), Allocations: make([]*int, size)}
	if v.Host != "" {
		aff := "host:" + v.Host
		b.Affinity = &aff
	}
	ords := make([]int, 0, len(v.Allocs))
	for o := range v.Allocs {
		ords = append(ords, o)
	}
	sort.Ints(ords)
	for _, o := range ords {
		if o >= size {
			continue
		}
		idx := len(b.Attributes)
		h := fmt.Sprintf("handle-%d", o)
		attrs := map[string]string{}
		if v.Allocs[o] != "" {
			attrs[model.IPAMBlockAttributeNode] = v.Allocs[o]
		}
		b.Attributes = append(b.Attributes, model.AllocationAttribute{HandleID: &h, ActiveOwnerAttrs: attrs})
		b.Allocations[o] = &idx
	}
	for o := 0; o < size; o++ {
		if b.Allocations[o] == nil {
			b.Unallocated = append(b.Unallocated, o)
		}
	}
	return api.Update{KVPair: model.KVPair{Key: key, Value: b}, UpdateType: api.UpdateTypeKVUpdated}
}

func wepKV(name string, v *wepV) api.Update {
	key := model.WorkloadEndpointKey{Hostname: me, OrchestratorID: "k8s", WorkloadID: "default/" + name, EndpointID: "eth0"}
	if v == nil {
		return api.Update{KVPair: model.KVPair{Key: key}, UpdateType: api.UpdateTypeKVDeleted}
	}
	w := &model.WorkloadEndpoint{State: "active", Name: "cali" + name}
	for _, ip := range v.IPs {
		if isV6(ip) {
			w.IPv6Nets = append(w.IPv6Nets, calinet.MustParseCIDR(ip+"/128"))
		} else {
			w.IPv4Nets = append(w.IPv4Nets, calinet.MustParseCIDR(ip+"/32"))
		}
	}
	return api.Update{KVPair: model.KVPair{Key: key, Value: w}, UpdateType: api.UpdateTypeKVUpdated}
}

// nodeKVs expands a Node resource through the real FelixNodeUpdateProcessor (Node resource +
// HostConfig keys for the tunnel addresses/MAC + Wireguard key), as Felix's syncer does.
func nodeKVs(proc interface {
	Process(*model.KVPair) ([]*model.KVPair, error)
}, name string, v *nodeV) []api.Update {
	key := model.ResourceKey{Kind: internalapi.KindNode, Name: name}
	kv := &model.KVPair{Key: key}
	if v != nil {
		n := internalapi.NewNode()
		n.Name = name
		n.Spec.BGP = &internalapi.NodeBGPSpec{IPv4Address: v.Addr, IPv6Address: v.Addr6, IPv4IPIPTunnelAddr: v.IPIPTun}
		n.Spec.IPv4VXLANTunnelAddr = v.VXLANTun
		n.Spec.VXLANTunnelMACAddr = v.MAC
		n.Spec.IPv6VXLANTunnelAddr = v.VXLANTun6
		n.Spec.VXLANTunnelMACAddrV6 = v.MAC6
		kv.Value = n
	}
	kvs, err := proc.Process(kv)
	if err != nil {
		panic("harness: node update processor rejected a generated node: " + err.Error())
	}
	var out []api.Update
	for _, k := range kvs {
		t := api.UpdateTypeKVUpdated
		if k.Value == nil {
			t = api.UpdateTypeKVDeleted
		}
		out = append(out, api.Update{KVPair: *k, UpdateType: t})
	}
	return out
}

// ---------------------------------------------------------------------------------------------
// The pipeline under test

type dpSink interface {
	OnMsg(msg any)
	Apply()
}

type pipeline struct {
	allUpd, local *dispatcher.Dispatcher
	seq           *calc.EventSequencer
	nodeProc      interface {
		Process(*model.KVPair) ([]*model.KVPair, error)
	}
	routes     map[string]*proto.RouteUpdate
	vteps      map[string]*proto.VXLANTunnelEndpointUpdate
	hosts      map[string]*proto.HostMetadataUpdate
	nUpd, nRem int64
	sink       dpSink
}

func newPipeline(sink dpSink) *pipeline {
	p := &pipeline{allUpd: dispatcher.NewDispatcher(), local: dispatcher.NewDispatcher(),
		routes: map[string]*proto.RouteUpdate{}, vteps: map[string]*proto.VXLANTunnelEndpointUpdate{},
		hosts: map[string]*proto.HostMetadataUpdate{}, sink: sink,
		nodeProc: updateprocessors.NewFelixNodeUpdateProcessor(false)}
	p.seq = calc.NewEventSequencer(config.New())
	p.seq.Callback = p.onMsg
	// as calc_graph.go: passthru, L3 resolver (CalicoIPAM route source), VXLAN resolver
	calc.NewDataplanePassthru(p.seq).RegisterWith(p.allUpd)
	l3 := calc.NewL3RouteResolver(me, p.seq, "CalicoIPAM")
	l3.OnAlive = func() {}
	l3.RegisterWith(p.allUpd, p.local)
	calc.NewVXLANResolver(me, p.seq).RegisterWith(p.allUpd)
	return p
}

func (p *pipeline) onMsg(msg any) {
	switch m := msg.(type) {
	case *proto.RouteUpdate:
		p.routes[m.Dst] = m
		p.nUpd++
	case *proto.RouteRemove:
		delete(p.routes, m.Dst)
		p.nRem++
	case *proto.VXLANTunnelEndpointUpdate:
		p.vteps[m.Node] = m
	case *proto.VXLANTunnelEndpointRemove:
		delete(p.vteps, m.Node)
	case *proto.HostMetadataUpdate:
		p.hosts[m.Hostname] = m
	case *proto.HostMetadataRemove:
		delete(p.hosts, m.Hostname)
	}
	if p.sink != nil {
		p.sink.OnMsg(msg)
	}
}

func (p *pipeline) deliver(u upd) {
	switch u.Kind {
	case "pool":
		v, _ := u.Val.(*poolV)
		p.allUpd.OnUpdate(poolKV(u.Key, v))
	case "block":
		v, _ := u.Val.(*blockV)
		p.allUpd.OnUpdate(blockKV(u.Key, v))
	case "node":
		v, _ := u.Val.(*nodeV)
		for _, kv := range nodeKVs(p.nodeProc, u.Key, v) {
			p.allUpd.OnUpdate(kv)
		}
	case "wep":
		v, _ := u.Val.(*wepV)
		// local endpoints reach the resolver through the local-endpoint dispatcher only
		p.local.OnUpdate(wepKV(u.Key, v))
	}
}

func (p *pipeline) flush() {
	p.seq.Flush()
	if p.sink != nil {
		p.sink.Apply()
	}
}

func (p *pipeline) replay(c *harness.Case, h []upd) {
	for _, u := range h {
		p.deliver(u)
		if c.R.Intn(3) == 0 {
			p.flush()
		}
	}
	p.flush()
}

// ---------------------------------------------------------------------------------------------
// Oracle (from the final datastore state only)

type poolInfo struct {
	cidr  netip.Prefix
	ptype proto.IPPoolType
	cs    bool
	lb    bool // load-balancer-only pool: not judged
}

func (s *state) poolFor(dst netip.Prefix) *poolInfo {
	for cidr, v := range s.Pools {
		p := netip.MustParsePrefix(cidr)
		if p.Bits() <= dst.Bits() && p.Contains(dst.Addr()) {
			pi := &poolInfo{cidr: p, ptype: proto.IPPoolType_NO_ENCAP}
			switch v.Mode {
			case "ipip", "ipip-cs":
				pi.ptype = proto.IPPoolType_IPIP
			case "vxlan", "vxlan-cs":
				pi.ptype = proto.IPPoolType_VXLAN
			}
			pi.cs = strings.HasSuffix(v.Mode, "-cs")
			if v.LBOnly {
				pi.ptype = proto.IPPoolType_NONE
				pi.lb = true
			}
			return pi
		}
	}
	return nil
}

// nodeAddr returns node n's host address (CIDR form) of the family of dst, "" if it has none.
func (s *state) nodeAddr(n string, v6 bool) string {
	v := s.Nodes[n]
	if v == nil {
		return ""
	}
	if v6 {
		return v.Addr6
	}
	return v.Addr
}

func (s *state) nodeIP(n string, v6 bool) string {
	if a := s.nodeAddr(n, v6); a != "" {
		return netip.MustParsePrefix(a).Addr().String()
	}
	return ""
}

// inMySubnet: the local node is known and its subnet contains node n's address.
func (s *state) inMySubnet(n string, v6 bool) bool {
	mine, other := s.nodeAddr(me, v6), s.nodeAddr(n, v6)
	if mine == "" || other == "" {
		return false
	}
	return netip.MustParsePrefix(mine).Masked().Contains(netip.MustParsePrefix(other).Addr())
}

func hasType(r *proto.RouteUpdate, t proto.RouteType) bool { return r.Types&t == t }

type target struct {
	Dst   string `json:"dst"`
	Owner string `json:"owner"`
	Kind  string `json:"kind"` // remote-block | borrowed
}

// remoteTargets lists the destinations the statement quantifies over: remote blocks and addresses
// borrowed by a remote node, excluding the collisions listed under "Deliberately not checked".
func (s *state) remoteTargets() []target {
	var out []target
	tun := s.tunnelAddrs()
	weps := s.wepIPs()
	for _, b := range sortedKeysB(s.Blocks) {
		bv := s.Blocks[b]
		p := netip.MustParsePrefix(b)
		if bv.Host != "" && bv.Host != me {
			if !(fullLen(p) && (tun[p.Addr().String()] || weps[p.Addr().String()])) {
				out = append(out, target{Dst: b, Owner: bv.Host, Kind: "remote-block"})
			}
		}
		for ord, y := range bv.Allocs {
			if y == "" || y == me || y == bv.Host || fullLen(p) {
				continue
			}
			a := ordinalIP(b, ord)
			if tun[a] || weps[a] {
				continue
			}
			out = append(out, target{Dst: hostCIDR(a), Owner: y, Kind: "borrowed"})
		}
	}
	sort.Slice(out, func(i, j int) bool { return out[i].Dst < out[j].Dst })
	return out
}

func (s *state) wepIPs() map[string]bool {
	m := map[string]bool{}
	for _, w := range s.WEPs {
		for _, ip := range w.IPs {
			m[ip] = true
		}
	}
	return m
}

type verdict struct {
	key string
	msg string
}

func (s *state) checkRoutes(c *harness.Case, routes map[string]*proto.RouteUpdate) *verdict {
	// (a)+(b): remote blocks and borrowed addresses
	for _, t := range s.remoteTargets() {
		c.Count("remote_targets_checked", 1)
		v6 := isV6(t.Dst)
		if v6 {
			c.Count("remote_targets_checked_v6", 1)
		}
		r := routes[t.Dst]
		if r == nil {
			return &verdict{"route-missing:" + t.Kind, fmt.Sprintf("no route for %s %s owned by %s", t.Kind, t.Dst, t.Owner)}
		}
		if !hasType(r, proto.RouteType_REMOTE_WORKLOAD) {
			return &verdict{"remote-type-missing:" + t.Kind, fmt.Sprintf("route %s (%s of %s) is not typed REMOTE_WORKLOAD: %v", t.Dst, t.Kind, t.Owner, r)}
		}
		if r.DstNodeName != t.Owner {
			return &verdict{"wrong-owner:" + t.Kind, fmt.Sprintf("route %s names node %q, the datastore says %q: %v", t.Dst, r.DstNodeName, t.Owner, r)}
		}
		if r.DstNodeIp != s.nodeIP(t.Owner, v6) {
			return &verdict{"wrong-owner-ip:" + t.Kind, fmt.Sprintf("route %s has node IP %q, node %s has %q: %v", t.Dst, r.DstNodeIp, t.Owner, s.nodeIP(t.Owner, v6), r)}
		}
		pi := s.poolFor(netip.MustParsePrefix(t.Dst))
		if pi != nil && pi.lb {
			continue
		}
		wantType, wantSame := proto.IPPoolType_NONE, false
		if pi != nil {
			wantType = pi.ptype
			wantSame = pi.cs && s.inMySubnet(t.Owner, v6)
			if pi.cs {
				c.Count("cross_subnet_targets", 1)
			}
		}
		if r.IpPoolType != wantType {
			return &verdict{"wrong-pool-type:" + t.Kind, fmt.Sprintf("route %s has pool type %v, its pool requires %v: %v", t.Dst, r.IpPoolType, wantType, r)}
		}
		if r.SameSubnet != wantSame {
			return &verdict{"wrong-same-subnet:" + t.Kind, fmt.Sprintf("route %s has SameSubnet=%v, expected %v (pool cross-subnet=%v, owner %s at %q, local node %+v): %v",
				t.Dst, r.SameSubnet, wantSame, pi != nil && pi.cs, t.Owner, s.nodeIP(t.Owner, v6), s.Nodes[me], r)}
		}
		if wantSame {
			c.Count("same_subnet_targets", 1)
			if v6 {
				c.Count("same_subnet_targets_v6", 1)
			}
		}
		if t.Kind == "borrowed" {
			c.Count("borrowed_targets", 1)
		}
	}
	// (c) local blocks, (d) local workloads
	weps := s.wepIPs()
	for _, b := range sortedKeysB(s.Blocks) {
		bv := s.Blocks[b]
		p := netip.MustParsePrefix(b)
		if bv.Host != me || fullLen(p) {
			continue
		}
		c.Count("local_blocks_checked", 1)
		r := routes[b]
		if r == nil {
			return &verdict{"route-missing:local-block", fmt.Sprintf("no route for local block %s", b)}
		}
		if !hasType(r, proto.RouteType_LOCAL_WORKLOAD) || r.LocalWorkload {
			return &verdict{"local-block-flags", fmt.Sprintf("local block %s: want type LOCAL_WORKLOAD without the local-workload flag: %v", b, r)}
		}
		wantType := proto.IPPoolType_NONE
		if pi := s.poolFor(p); pi != nil {
			wantType = pi.ptype
		}
		if r.IpPoolType != wantType {
			return &verdict{"wrong-pool-type:local-block", fmt.Sprintf("local block %s has pool type %v, its pool requires %v: %v", b, r.IpPoolType, wantType, r)}
		}
	}
	for ip := range weps {
		c.Count("local_weps_checked", 1)
		r := routes[hostCIDR(ip)]
		if r == nil {
			return &verdict{"route-missing:local-wep", fmt.Sprintf("no route for local workload address %s", ip)}
		}
		if !r.LocalWorkload || !hasType(r, proto.RouteType_LOCAL_WORKLOAD) {
			return &verdict{"local-wep-not-flagged", fmt.Sprintf("local workload address %s is not flagged as a live local workload: %v", ip, r)}
		}
	}
	// (e) nothing stale: every route and every workload type must be explained by the final state
	tun := s.tunnelAddrs()
	for _, dst := range sortedKeysB(routes) {
		r := routes[dst]
		c.Count("routes_explained_checks", 1)
		d := netip.MustParsePrefix(dst)
		known := false
		if _, ok := s.Pools[dst]; ok {
			known = true
		}
		remoteOK, localOK := false, false
		for b, bv := range s.Blocks {
			p := netip.MustParsePrefix(b)
			inside := p.Bits() <= d.Bits() && p.Contains(d.Addr())
			if b == dst && bv.Host != "" {
				known = true
			}
			if inside && bv.Host != "" {
				if bv.Host == me {
					localOK = true
				} else {
					remoteOK = true
				}
			}
			if inside && fullLen(d) {
				for ord, y := range bv.Allocs {
					if y != "" && y != bv.Host && ordinalIP(b, ord) == d.Addr().String() {
						known = true
						if y == me {
							localOK = true
						} else {
							remoteOK = true
						}
					}
				}
			}
		}
		if fullLen(d) {
			a := d.Addr().String()
			if tun[a] || weps[a] {
				known = true
			}
			if weps[a] {
				localOK = true
			}
			for n := range s.Nodes {
				if s.nodeIP(n, false) == a || s.nodeIP(n, true) == a {
					known = true
				}
			}
		}
		if !known {
			return &verdict{"stale-route", fmt.Sprintf("route %s is explained by nothing in the final datastore state: %v", dst, r)}
		}
		if hasType(r, proto.RouteType_REMOTE_WORKLOAD) && !remoteOK {
			return &verdict{"stale-remote-workload-type", fmt.Sprintf("route %s is typed REMOTE_WORKLOAD but no remote block or remote borrower covers it: %v", dst, r)}
		}
		if hasType(r, proto.RouteType_LOCAL_WORKLOAD) && !localOK {
			return &verdict{"stale-local-workload-type", fmt.Sprintf("route %s is typed LOCAL_WORKLOAD but no local block, local borrower or local workload covers it: %v", dst, r)}
		}
		if r.LocalWorkload && !weps[d.Addr().String()] {
			return &verdict{"stale-local-workload-flag", fmt.Sprintf("route %s carries the live-local-workload flag but no local workload has that address: %v", dst, r)}
		}
	}
	return nil
}

// relevant projects a route onto the fields the statement fixes.
func relevant(r *proto.RouteUpdate) string {
	if r == nil {
		return "<none>"
	}
	return fmt.Sprintf("types=%v pool=%v node=%s ip=%s same=%v local=%v borrowed=%v", r.Types, r.IpPoolType, r.DstNodeName, r.DstNodeIp, r.SameSubnet, r.LocalWorkload, r.Borrowed)
}

// ---------------------------------------------------------------------------------------------

var newSink func(c *harness.Case, s *state) dpSink               // set by part 2
var checkSink func(c *harness.Case, s *state, k dpSink) *verdict // set by part 2

// snapshot: the final state delivered once, as a start-of-day list of every kind.
func (w *world) snapshot() []upd {
	var out []upd
	for _, k := range sortedKeysB(w.st.Pools) {
		cp := *w.st.Pools[k]
		out = append(out, upd{Kind: "pool", Key: k, Val: &cp})
	}
	for _, k := range sortedKeysB(w.st.Nodes) {
		cp := *w.st.Nodes[k]
		out = append(out, upd{Kind: "node", Key: k, Val: &cp})
	}
	for _, k := range sortedKeysB(w.st.Blocks) {
		out = append(out, upd{Kind: "block", Key: k, Val: cloneBlock(w.st.Blocks[k])})
	}
	for _, k := range sortedKeysB(w.st.WEPs) {
		out = append(out, upd{Kind: "wep", Key: k, Val: &wepV{IPs: append([]string{}, w.st.WEPs[k].IPs...)}})
	}
	return out
}

// nestedInBlockCand: dst is a single address strictly inside one of the block CIDRs of the universe.
func nestedInBlockCand(dst string) bool {
	d := netip.MustParsePrefix(dst)
	if !fullLen(d) {
		return false
	}
	for _, b := range blockCands {
		p := netip.MustParsePrefix(b)
		if !fullLen(p) && p.Contains(d.Addr()) {
			return true
		}
	}
	return false
}

// onlyBlockDerived: two routes differ only in what the L3 resolver derives from the COVERING block
// of a nested address (the workload type bits contributed by the parent block and the borrowed flag).
func onlyBlockDerived(a, b *proto.RouteUpdate) bool {
	if a == nil || b == nil {
		return false
	}
	mask := ^(proto.RouteType_LOCAL_WORKLOAD | proto.RouteType_REMOTE_WORKLOAD)
	return a.Types&mask == b.Types&mask && a.IpPoolType == b.IpPoolType && a.DstNodeName == b.DstNodeName &&
		a.DstNodeIp == b.DstNodeIp && a.SameSubnet == b.SameSubnet && a.LocalWorkload == b.LocalWorkload
}

// onlySameSubnetDiffers: two routes agree on everything the statement fixes except SameSubnet.
func onlySameSubnetDiffers(a, b *proto.RouteUpdate) bool {
	if a == nil || b == nil || a.SameSubnet == b.SameSubnet {
		return false
	}
	return a.Types == b.Types && a.IpPoolType == b.IpPoolType && a.DstNodeName == b.DstNodeName && a.DstNodeIp == b.DstNodeIp &&
		a.LocalWorkload == b.LocalWorkload && a.Borrowed == b.Borrowed
}

func run(c *harness.Case) {
	w := genTrueHistory(c)
	fin := w.st
	h1 := w.delivery(c)
	h2 := w.delivery(c)
	h3 := w.snapshot()
	detail := map[string]any{"final": fin, "history1": h1, "history2": h2}
	c.Count("true_history_mutations", int64(w.nMut))

	// pipeline 0 and 1: two legitimate views of the history; pipeline 2: the final state only.
	var sinks [3]dpSink
	var pipes [3]*pipeline
	for i, h := range [][]upd{h1, h2, h3} {
		if newSink != nil {
			sinks[i] = newSink(c, fin)
		}
		pipes[i] = newPipeline(sinks[i])
		pipes[i].replay(c, h)
		c.Count("updates_delivered", int64(len(h)))
		c.Count("route_updates_seen", pipes[i].nUpd)
		c.Count("route_removes_seen", pipes[i].nRem)
	}
	name := []string{"history 1", "history 2", "final-state snapshot"}
	// The snapshot run is judged by the oracle first: it has no history to depend on.
	if v := fin.checkRoutes(c, pipes[2].routes); v != nil {
		detail["history_judged"] = 3
		c.Violationf(v.key, detail, "%s: %s", name[2], v.msg)
		return
	}
	// Order independence, on the fields the statement fixes: each history against the snapshot.
	for i := 0; i < 2; i++ {
		keys := map[string]bool{}
		for k := range pipes[i].routes {
			keys[k] = true
		}
		for k := range pipes[2].routes {
			keys[k] = true
		}
		for _, k := range sortedKeysB(keys) {
			a, b := pipes[i].routes[k], pipes[2].routes[k]
			c.Count("order_comparisons", 1)
			if relevant(a) != relevant(b) {
				detail["history_judged"] = i + 1
				key := "order-dependent-route"
				if nestedInBlockCand(k) && onlyBlockDerived(a, b) {
					key = "nested-route-not-refreshed-on-block-change"
				} else if onlySameSubnetDiffers(a, b) {
					key = "same-subnet-stale-after-local-subnet-change"
				}
				c.Violationf(key, detail, "%s: route %s differs from what the same final datastore state yields when delivered on its own: [%s] vs [%s]", name[i], k, relevant(a), relevant(b))
				return
			}
			if a != nil && b != nil && !googleproto.Equal(a, b) {
				c.Count("aux_field_order_differences", 1)
			}
		}
		if v := fin.checkRoutes(c, pipes[i].routes); v != nil {
			detail["history_judged"] = i + 1
			c.Violationf(v.key, detail, "%s: %s", name[i], v.msg)
			return
		}
	}
	if checkSink != nil {
		for i := range sinks {
			if v := checkSink(c, fin, sinks[i]); v != nil {
				detail["history_judged"] = i + 1
				c.Violationf(v.key, detail, "%s: %s", name[i], v.msg)
				return
			}
		}
	}
	nt := len(fin.remoteTargets())
	if nt > 0 && len(fin.Pools) > 0 {
		c.NonTrivial(fmt.Sprintf("%v", h1), fmt.Sprintf("%v", h2))
	}
	c.Distinct("final_states", fmt.Sprintf("%v|%v|%v|%v", sortedKeysB(fin.Pools), sortedKeysB(fin.Nodes), sortedKeysB(fin.Blocks), sortedKeysB(fin.WEPs)))
	if c.Index < 4 {
		c.Sample(map[string]any{"final": fin, "history1_len": len(h1), "history2_len": len(h2), "routes": len(pipes[0].routes), "remote_targets": nt})
	}
}

func main() {
	logrus.SetOutput(io.Discard)
	logrus.SetLevel(logrus.PanicLevel)
	harness.Main(harness.Check{
		ID:    "C43",
		Level: "exploration",
		Rule: "each case is a TRUE datastore history of 110-160 (thorough 180-230) consistency-preserving mutations over 4 IPv4 + 3 IPv6 disjoint pools (none/ipip/vxlan x always/cross-subnet, IPv6 without ipip; LB-only), 5 nodes incl. the local one " +
			"(addresses in/out of the local subnet, VXLAN/IPIP tunnel addresses in/out of blocks and pools), 10 IPv4 + 8 IPv6 disjoint blocks (a /32 and a /128 block, a block equal to a pool, a block in no pool; affinity changes and releases; affine, borrowed, ownerless allocations) " +
			"and 3 local workloads; IPAM records precede use and outlive it. Felix's view of it is built twice independently: per resource kind a snapshot at a random point followed by the remaining events in order, kinds interleaved at random, random flush points, optional resync; " +
			"a third run delivers the final state alone. Every emitted message also goes to the real vxlan/ipip/noencap managers (shared recording route table, CompleteDeferredWork at every flush) whose final SetRoutes state is judged. non-trivial = the final state has a pool and at least one remote block or borrowed address; distinct by the two delivered histories",
		Assumptions: []string{
			"IPv4 and IPv6 (dual stack: every node has an IPv4 address, the IPv6 address is optional, can change subnet and can be removed); CalicoIPAM route source; node resources are expanded by the real FelixNodeUpdateProcessor; pools/blocks/endpoints are delivered as the v1 model types Felix's syncer produces",
			"the datastore's own invariants hold in the true history: pools disjoint, blocks disjoint, node addresses unique at every instant, addresses in use are recorded in their IPAM block with the node attribute",
			"one watch per resource kind: per-kind event order is preserved, cross-kind order is arbitrary",
			"single goroutine; no race detector (CGO-off binary: felix/dataplane/linux needs the libbpf stub)",
			"part 2 fakes: a recording routetable.Interface (last SetRoutes per class+interface wins), a netlink shim that answers LinkList/AddrList with one NIC eth0 carrying every host address of the universe, a no-op VXLAN FDB, the repo's MockIPSets; tunnel device sync goroutines are not started",
		},
		Cases: func(tier string) int {
			if tier == "thorough" {
				return 12000
			}
			return 600
		},
		Run: run,
		Floors: map[string]int64{"updates_delivered": 3000, "route_updates_seen": 3000, "route_removes_seen": 300, "remote_targets_checked": 800,
			"same_subnet_targets": 30, "borrowed_targets": 100, "local_blocks_checked": 100, "local_weps_checked": 50, "order_comparisons": 2000,
			"remote_targets_checked_v6": 300, "same_subnet_targets_v6": 5, "p2_direct_targets_v6": 5, "p2_tunnel_targets_v6": 5,
			"dataplane_msgs": 10000, "setroutes_calls": 5000, "p2_direct_targets": 100, "p2_tunnel_targets": 100, "p2_local_blocks": 150, "p2_programmed_routes_checked": 500},
	})
}

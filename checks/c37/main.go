// C37 — length-limited kernel object names never collide.
//
// Real code driven: hash.GetLengthLimitedID, hash.MakeUniqueID (through calc.IPSetData.UniqueID),
// rules.PolicyChainName / ProfileChainName / EndpointChainName (iptables limit 28 and nftables limit
// 256), rules.PolicyGroup.ChainName, ipsets.IPVersionConfig.NameForMainIPSet / NameForTempIPSet,
// nftables.LegalizeSetName, and vmipam.CreateVMHandleID (limit 128; not a kernel object, same helper).
//
// Oracle: per case a family of *distinct* identities is generated (distinct by construction: the
// identity tuple written by the generator is the map key) and every name is entered in a plain
// map name -> identity.  Judged: (1) two different identities never share a name — within a class and
// across classes that live in the same kernel namespace (all chains in one map, all sets in one map);
// (2) len(name) <= the limit of that object kind (28 iptables chain, 256 nftables chain/set, 31 ipset,
// 128 VM handle); (3) the same identity gives the same name on a second call, on a freshly built
// object, and in the other worker processes of the run (digest files in VERIF_RUNDIR).
//
// Identities are valid ones (what the validators in libcalico-go/lib/validator/v3 admit): policy and
// profile names are DNS-1123 subdomains (<= 253, k8s-derived policy names "knp.default."+253),
// namespaces DNS labels (<= 63), interface names [a-zA-Z0-9_.-]{1,15}.  Families are hostile: one
// long stem cut at every length from limit-3 to limit+3 of every prefix in use and far beyond it
// (so members differ only after the truncation point), last-character flips, namespace/name pairs
// whose concatenation coincides, every policy kind, names beginning with the shortening marker
// where the validator allows it (interface names).
//
// A second sub-run drives GetLengthLimitedID directly with arbitrary printable suffixes, including
// ones beginning with "_" and the feedback construction (the suffix of a name that was just
// produced is fed back as an identity).
//
// Deliberately not checked
//   - the empty identity (invalid upstream);
//   - suffixes beginning with "_" at limits larger than prefix+1+43 (256 nftables, 128 VM handle):
//     there a shortened name is prefix+"_"+43 hash characters, which is SHORTER than the limit, so
//     the unshortened identity "_"+<those 43 characters> maps to the same name (the marker rule only
//     protects names that fill the limit exactly).  No validator admits such an identity for a
//     policy, profile or namespace (they cannot begin with "_" or contain upper case) and interface
//     names are at most 15 characters, so the property as stated (distinct policies, profiles,
//     groups, endpoints, IP sets) is not affected; the collision is recorded in counter
//     marker_feedback_collision_large_limit and reported, not judged;
//   - NFLOG prefixes (maybeHash in felix/rules/nflogprefix.go): not chain or set names;
//   - truncated-hash collisions between unrelated identities: not reachable by sampling (>= 90 bits);
//   - a fixed expected spelling of any name (only injectivity, limit, determinism).
package main

import (
	"crypto/sha256"
	"encoding/hex"
	"fmt"
	"io"
	"math/rand"
	"os"
	"path/filepath"
	"sort"
	"strings"
	"sync"

	apiv3 "github.com/projectcalico/api/pkg/apis/projectcalico/v3"
	"github.com/sirupsen/logrus"

	"github.com/projectcalico/calico/felix/calc"
	"github.com/projectcalico/calico/felix/ipsets"
	"github.com/projectcalico/calico/felix/labelindex/ipsetmember"
	"github.com/projectcalico/calico/felix/nftables"
	"github.com/projectcalico/calico/felix/rules"
	"github.com/projectcalico/calico/felix/types"
	"github.com/projectcalico/calico/libcalico-go/lib/backend/model"
	"github.com/projectcalico/calico/libcalico-go/lib/hash"
	"github.com/projectcalico/calico/libcalico-go/lib/ipam/vmipam"
	"github.com/projectcalico/calico/libcalico-go/lib/selector"

	"verif/internal/harness"
)

const (
	iptLimit   = 28  // felix/iptables.MaxChainNameLength
	nftLimit   = 256 // knftables.NameLengthMax
	ipsetLimit = 31  // felix/ipsets.MaxIPSetNameLength
	vmLimit    = 128
)

// ------------------------------------------------------------------ valid-name generators

const alnum = "abcdefghijklmnopqrstuvwxyz0123456789"

// dnsName returns a DNS-1123 subdomain of exactly n characters with labels of at most maxLabel.
func dnsName(R *rand.Rand, n, maxLabel int) string {
	if n <= 0 {
		return ""
	}
	b := make([]byte, n)
	for i := range b {
		b[i] = alnum[R.Intn(len(alnum))]
	}
	cur := 0
	want := 1 + R.Intn(maxLabel)
	for i := 0; i < n; i++ {
		cur++
		if cur > want && i >= 1 && i <= n-2 && b[i-1] != '.' {
			b[i] = '.'
			cur = 0
			want = 1 + R.Intn(maxLabel)
		}
	}
	for i := 1; i < n-1; i++ {
		if b[i] != '.' && b[i-1] != '.' && b[i+1] != '.' && R.Intn(12) == 0 {
			b[i] = '-'
		}
	}
	return string(b)
}

// dnsLabel returns a DNS-1123 label of exactly n (<= 63) characters.
func dnsLabel(R *rand.Rand, n int) string {
	b := make([]byte, n)
	for i := range b {
		b[i] = alnum[R.Intn(len(alnum))]
	}
	for i := 1; i < n-1; i++ {
		if R.Intn(10) == 0 {
			b[i] = '-'
		}
	}
	return string(b)
}

// cut returns a valid name of exactly n characters that shares its first n-1 characters with stem.
func cut(stem string, n int) string {
	if n > len(stem) {
		n = len(stem)
	}
	if n <= 0 {
		return "x"
	}
	b := []byte(stem[:n])
	if b[n-1] == '.' || b[n-1] == '-' {
		b[n-1] = 'x'
	}
	return string(b)
}

func flipLast(s string) string {
	b := []byte(s)
	if b[len(b)-1] == 'q' {
		b[len(b)-1] = 'r'
	} else {
		b[len(b)-1] = 'q'
	}
	return string(b)
}

func flipAt(s string, i int) string {
	if i < 0 || i >= len(s) || s[i] == '.' || s[i] == '-' {
		return s
	}
	b := []byte(s)
	if b[i] == 'z' {
		b[i] = 'y'
	} else {
		b[i] = 'z'
	}
	return string(b)
}

// ------------------------------------------------------------------ the per-case registry

type registry struct {
	c      *harness.Case
	chains map[string]string // chain name -> identity
	sets   map[string]string // set name -> identity
	other  map[string]string
	failed bool
}

func (g *registry) add(space map[string]string, spaceName, name, identity string, limit int) {
	if g.failed {
		return
	}
	g.c.Count("names", 1)
	if len(name) > limit {
		g.failed = true
		g.c.Violationf("over-limit:"+spaceName, map[string]any{"identity": identity, "name": name, "limit": limit},
			"%s name %q (%d chars) of %s exceeds the limit %d", spaceName, name, len(name), identity, limit)
		return
	}
	if len(name) == limit {
		g.c.Count("names_at_limit", 1)
	}
	if prev, ok := space[name]; ok && prev != identity {
		g.failed = true
		g.c.Violationf("collision:"+spaceName, map[string]any{"identity_a": prev, "identity_b": identity, "name": name},
			"%s name %q is given to two different identities: %s and %s", spaceName, name, prev, identity)
		return
	}
	space[name] = identity
}

func (g *registry) same(what, identity, a, b string) {
	if g.failed {
		return
	}
	g.c.Count("determinism_comparisons", 1)
	if a != b {
		g.failed = true
		g.c.Violationf("nondeterministic:"+what, map[string]any{"identity": identity, "first": a, "second": b},
			"%s of %s: %q then %q", what, identity, a, b)
	}
}

// ------------------------------------------------------------------ policy / profile / endpoint chains

type kindInfo struct {
	kind       string
	namespaced bool
	k8s        bool
}

var kinds = []kindInfo{
	{apiv3.KindNetworkPolicy, true, false},
	{apiv3.KindStagedNetworkPolicy, true, false},
	{apiv3.KindStagedKubernetesNetworkPolicy, true, true},
	{model.KindKubernetesNetworkPolicy, true, true},
	{apiv3.KindGlobalNetworkPolicy, false, false},
	{apiv3.KindStagedGlobalNetworkPolicy, false, false},
	{model.KindKubernetesClusterNetworkPolicy, false, true},
}

var polPrefixes = []rules.PolicyChainNamePrefix{rules.PolicyInboundPfx, rules.PolicyOutboundPfx}
var profPrefixes = []rules.ProfileChainNamePrefix{rules.ProfileInboundPfx, rules.ProfileOutboundPfx}
var epPrefixes = []string{rules.WorkloadToEndpointPfx, rules.WorkloadFromEndpointPfx, rules.SetEndPointMarkPfx, rules.HostToEndpointPfx,
	rules.HostFromEndpointPfx, rules.HostToEndpointForwardPfx, rules.HostFromEndpointForwardPfx, rules.WorkloadARPPfx}

func (g *registry) policy(p types.PolicyID, nft bool) {
	limit := iptLimit
	if nft {
		limit = nftLimit
	}
	id := fmt.Sprintf("policy{kind=%s ns=%s name=%s}", p.Kind, p.Namespace, p.Name)
	for _, pfx := range polPrefixes {
		pc := p
		n1 := rules.PolicyChainName(pfx, &pc, nft)
		pc2 := types.PolicyID{Name: strings.Clone(p.Name), Namespace: strings.Clone(p.Namespace), Kind: p.Kind}
		n2 := rules.PolicyChainName(pfx, &pc2, nft)
		g.same("policy chain name", id, n1, n2)
		g.add(g.chains, "chain", n1, string(pfx)+"|"+id, limit)
		if len(string(pfx))+len(p.ID()) > limit {
			g.c.Count("policy_names_shortened", 1)
			if nft {
				g.c.Count("nft_names_shortened", 1)
			}
		}
	}
	g.c.Count("policy_identities", 1)
}

func (g *registry) profile(name string, nft bool) {
	limit := iptLimit
	if nft {
		limit = nftLimit
	}
	id := "profile{" + name + "}"
	for _, pfx := range profPrefixes {
		n1 := rules.ProfileChainName(pfx, &types.ProfileID{Name: name}, nft)
		n2 := rules.ProfileChainName(pfx, &types.ProfileID{Name: strings.Clone(name)}, nft)
		g.same("profile chain name", id, n1, n2)
		g.add(g.chains, "chain", n1, string(pfx)+"|"+id, limit)
		if len(string(pfx))+len(name) > limit {
			g.c.Count("profile_names_shortened", 1)
			if nft {
				g.c.Count("nft_names_shortened", 1)
			}
		}
	}
	g.c.Count("profile_identities", 1)
}

func (g *registry) endpoint(iface string, nft bool) {
	limit := iptLimit
	if nft {
		limit = nftLimit
	}
	id := "endpoint{" + iface + "}"
	for _, pfx := range epPrefixes {
		n1 := rules.EndpointChainName(pfx, iface, limit)
		n2 := rules.EndpointChainName(pfx, strings.Clone(iface), limit)
		g.same("endpoint chain name", id, n1, n2)
		g.add(g.chains, "chain", n1, pfx+"|"+id, limit)
	}
	g.c.Count("endpoint_identities", 1)
}

// lengths of interest for an identity string whose prefix has pfxLen characters
func lengthsAround(limit, pfxLen, fixed int) []int {
	var l []int
	for d := -3; d <= 3; d++ {
		if n := limit - pfxLen - fixed + d; n >= 1 {
			l = append(l, n)
		}
	}
	return l
}

func runChains(c *harness.Case, g *registry, nft bool) {
	R := c.R
	limit := iptLimit
	if nft {
		limit = nftLimit
	}
	stem := dnsName(R, 330, 1+R.Intn(24))
	nsStem := dnsLabel(R, 63)

	// --- profiles: every length around the limit for both prefixes, far beyond, and the k8s-derived forms
	plens := map[int]bool{1: true, 2: true, 253: true, 252: true, 200 + R.Intn(50): true, 40 + R.Intn(100): true}
	for _, pfx := range profPrefixes {
		for _, n := range lengthsAround(limit, len(pfx), 0) {
			plens[n] = true
		}
		for _, n := range lengthsAround(iptLimit, len(pfx), 0) {
			plens[n] = true
		}
	}
	for _, n := range sortedKeys(plens) {
		if n > 253 {
			continue
		}
		nm := cut(stem, n)
		g.profile(nm, nft)
		g.profile(flipLast(nm), nft)
		if n > 30 {
			g.profile(flipAt(nm, 19), nft) // differs before the iptables truncation point
			g.profile(flipAt(nm, n/2), nft)
		}
	}
	for _, p := range []string{"kns.", "ksa."} {
		for _, n := range []int{1, 10, 15, 16, 17, 63, 200, 240, 241, 242, 243, 244, 249} {
			g.profile(p+cut(stem, n), nft)
		}
	}

	// --- policies
	for _, k := range kinds {
		fixed := len(types.PolicyID{Kind: k.kind, Name: "", Namespace: ""}.KindShortName()) + 1 // "np/"
		nss := []string{""}
		if k.namespaced {
			nss = []string{cut(nsStem, 1), cut(nsStem, 7), cut(nsStem, 8), cut(nsStem, 62), nsStem, flipLast(nsStem), "default"}
		}
		for _, ns := range nss {
			f := fixed
			if ns != "" {
				f += len(ns) + 1
			}
			lens := map[int]bool{1: true, 2: true, 63: true, 127: true}
			if k.k8s {
				lens[253] = true
				lens[252] = true
				lens[180+R.Intn(70)] = true
			}
			for _, pfx := range polPrefixes {
				for _, n := range lengthsAround(limit, len(pfx), f) {
					lens[n] = true
				}
				for _, n := range lengthsAround(iptLimit, len(pfx), f) {
					lens[n] = true
				}
			}
			for _, n := range sortedKeys(lens) {
				maxName := 127
				if k.k8s {
					maxName = 253
				}
				if n > maxName {
					continue
				}
				var nm string
				if k.k8s {
					nm = cut(stem, n)
				} else {
					// calico policy names: label or label.label
					if n <= 63 {
						nm = cut(nsStem, n)
					} else {
						nm = nsStem + "." + cut(nsStem, n-64)
					}
				}
				g.policy(types.PolicyID{Name: nm, Namespace: ns, Kind: k.kind}, nft)
				g.policy(types.PolicyID{Name: flipLast(nm), Namespace: ns, Kind: k.kind}, nft)
				if k.k8s && R.Intn(3) == 0 {
					g.policy(types.PolicyID{Name: "knp.default." + nm, Namespace: ns, Kind: k.kind}, nft)
				}
			}
		}
	}
	// namespace/name pairs whose concatenation coincides: (a-b, c) vs (a, b-c)
	for i := 0; i < 12; i++ {
		a, b, cc := dnsLabel(R, 1+R.Intn(8)), dnsLabel(R, 1+R.Intn(8)), dnsLabel(R, 1+R.Intn(20))
		for _, k := range kinds {
			if !k.namespaced {
				continue
			}
			g.policy(types.PolicyID{Name: cc, Namespace: a + "-" + b, Kind: k.kind}, nft)
			g.policy(types.PolicyID{Name: b + "-" + cc, Namespace: a, Kind: k.kind}, nft)
			g.policy(types.PolicyID{Name: b + "." + cc, Namespace: a, Kind: k.kind}, nft)
		}
		// a global policy whose name looks like ns.name of a namespaced one
		g.policy(types.PolicyID{Name: a + "." + cc, Kind: apiv3.KindGlobalNetworkPolicy}, nft)
	}

	// --- endpoints: interface names, all lengths, marker-leading ones
	ifAlpha := "abcXYZ019_.-"
	seen := map[string]bool{}
	for n := 1; n <= 15; n++ {
		for rep := 0; rep < 4; rep++ {
			b := make([]byte, n)
			for i := range b {
				b[i] = ifAlpha[R.Intn(len(ifAlpha))]
			}
			switch rep {
			case 0:
				b[0] = '_'
			case 1:
				copy(b, "cali")
			case 2:
				copy(b, "fw-") // looks like the tail of another prefix
			}
			s := string(b)
			if !seen[s] {
				seen[s] = true
				g.endpoint(s, nft)
			}
		}
	}
}

func sortedKeys(m map[int]bool) []int {
	l := make([]int, 0, len(m))
	for k := range m {
		l = append(l, k)
	}
	sort.Ints(l)
	return l
}

// ------------------------------------------------------------------ policy groups

func runGroups(c *harness.Case, g *registry) {
	R := c.R
	var pols []*types.PolicyID
	for i := 0; i < 4; i++ {
		k := kinds[R.Intn(len(kinds))]
		p := &types.PolicyID{Name: dnsName(R, 1+R.Intn(40), 20), Kind: k.kind}
		if k.namespaced {
			p.Namespace = dnsLabel(R, 1+R.Intn(20))
		}
		pols = append(pols, p)
	}
	// relatives: the same name (and namespace) under every kind, namespace and name swapped, and a
	// namespace/name pair with the same concatenation
	baseNS, baseName := dnsLabel(R, 1+R.Intn(10)), dnsLabel(R, 1+R.Intn(10))
	for _, k := range kinds {
		if k.namespaced {
			pols = append(pols, &types.PolicyID{Name: baseName, Namespace: baseNS, Kind: k.kind},
				&types.PolicyID{Name: baseNS, Namespace: baseName, Kind: k.kind})
		} else {
			pols = append(pols, &types.PolicyID{Name: baseName, Kind: k.kind})
		}
	}
	pols = append(pols, &types.PolicyID{Name: "b-" + baseName, Namespace: baseNS + "-a", Kind: apiv3.KindNetworkPolicy},
		&types.PolicyID{Name: "a-b-" + baseName, Namespace: baseNS, Kind: apiv3.KindNetworkPolicy})
	{
		// drop accidental duplicates (namespace == name)
		uniq := map[types.PolicyID]bool{}
		var l []*types.PolicyID
		for _, p := range pols {
			if !uniq[*p] {
				uniq[*p] = true
				l = append(l, p)
			}
		}
		pols = l
	}
	sels := []string{"all()", "has(a)", "a == 'b'", "a == 'b' && c == 'd'", "projectcalico.org/namespace == 'default'", ""}
	type gid struct {
		dir  rules.PolicyDirection
		sel  string
		list string
	}
	seen := map[gid]bool{}
	for i := 0; i < 60+len(pols); i++ {
		n := 1 + R.Intn(4)
		perm := R.Perm(len(pols))[:n]
		if i >= 60 {
			perm = []int{i - 60} // every policy also as a singleton group
		}
		var list []*types.PolicyID
		var desc []string
		for _, j := range perm {
			list = append(list, pols[j])
			desc = append(desc, fmt.Sprintf("%s/%s/%s", pols[j].Kind, pols[j].Namespace, pols[j].Name))
		}
		for _, dir := range []rules.PolicyDirection{rules.PolicyDirectionInbound, rules.PolicyDirectionOutbound} {
			sel := sels[R.Intn(len(sels))]
			if i >= 60 {
				sel = sels[0]
			}
			id := gid{dir, sel, strings.Join(desc, ",")}
			if seen[id] {
				continue
			}
			seen[id] = true
			ident := fmt.Sprintf("group{dir=%s sel=%q policies=[%s]}", dir, sel, id.list)
			g1 := &rules.PolicyGroup{Direction: dir, Policies: list, Selector: sel}
			n1 := g1.ChainName()
			n1again := g1.ChainName() // cached
			cp := make([]*types.PolicyID, len(list))
			for k, p := range list {
				q := *p
				cp[k] = &q
			}
			g2 := &rules.PolicyGroup{Direction: dir, Policies: cp, Selector: strings.Clone(sel)}
			g.same("policy group chain name", ident, n1, n1again)
			g.same("policy group chain name", ident, n1, g2.ChainName())
			g.add(g.chains, "chain", n1, ident, iptLimit)
			c.Count("group_identities", 1)
		}
	}
}

// ------------------------------------------------------------------ IP sets

var ipv4Cfg = ipsets.NewIPVersionConfig(ipsets.IPFamilyV4, ipsets.IPSetNamePrefix, nil, nil)
var ipv6Cfg = ipsets.NewIPVersionConfig(ipsets.IPFamilyV6, ipsets.IPSetNamePrefix, nil, nil)

func runIPSets(c *harness.Case, g *registry, nft bool) {
	R := c.R
	ids := map[string]string{} // set ID -> identity
	addSet := func(ident string, mk func() *calc.IPSetData) {
		d1, d2 := mk(), mk()
		id := d1.UniqueID()
		g.same("IP set ID", ident, id, d2.UniqueID())
		g.same("IP set ID", ident, id, d1.UniqueID())
		if prev, ok := ids[id]; ok && prev != ident && !g.failed {
			g.failed = true
			c.Violationf("collision:ipset-id", map[string]any{"identity_a": prev, "identity_b": ident, "id": id}, "IP set ID %q given to %s and %s", id, prev, ident)
			return
		}
		ids[id] = ident
		for _, cfg := range []*ipsets.IPVersionConfig{ipv4Cfg, ipv6Cfg} {
			name := cfg.NameForMainIPSet(id)
			g.same("IP set name", ident, name, cfg.NameForMainIPSet(strings.Clone(id)))
			fam := string(cfg.Family)
			if nft {
				ln := nftables.LegalizeSetName(name)
				g.same("nft set name", ident, ln, nftables.LegalizeSetName(cfg.NameForMainIPSet(id)))
				g.add(g.sets, "nft-set", ln, fam+"|"+ident, nftLimit)
				if strings.Contains(ln, ":") {
					g.failed = true
					c.Violationf("illegal-nft-set-name", map[string]any{"identity": ident, "name": ln}, "legalized set name %q still contains ':'", ln)
				}
			} else {
				g.add(g.sets, "ipset", name, fam+"|"+ident, ipsetLimit)
			}
		}
		c.Count("ipset_identities", 1)
	}
	labels := []string{"a", "role", "app.kubernetes.io/name", "projectcalico.org/namespace", dnsName(R, 30, 10)}
	for i := 0; i < 40; i++ {
		l := labels[R.Intn(len(labels))]
		v := dnsLabel(R, 1+R.Intn(30))
		var expr string
		switch R.Intn(5) {
		case 0:
			expr = fmt.Sprintf("%s == '%s'", l, v)
		case 1:
			expr = fmt.Sprintf("%s != '%s'", l, v)
		case 2:
			expr = fmt.Sprintf("has(%s) && x == '%s'", l, v)
		case 3:
			expr = fmt.Sprintf("%s in {'%s','%s0'}", l, v, v)
		default:
			expr = fmt.Sprintf("%s contains '%s'", l, v)
		}
		sel, err := selector.Parse(expr)
		if err != nil {
			c.Inconclusive("harness selector did not parse: " + expr)
			return
		}
		addSet("selector{"+expr+"}", func() *calc.IPSetData { return &calc.IPSetData{Selector: sel} })
		port := dnsLabel(R, 1+R.Intn(15))
		for _, pr := range []ipsetmember.Protocol{ipsetmember.ProtocolTCP, ipsetmember.ProtocolUDP, ipsetmember.ProtocolSCTP} {
			pr := pr
			addSet(fmt.Sprintf("namedport{%s,%d,%s}", expr, pr, port), func() *calc.IPSetData {
				return &calc.IPSetData{Selector: sel, NamedPortProtocol: pr, NamedPort: port}
			})
		}
	}
	for i := 0; i < 30; i++ {
		svc := dnsLabel(R, 1+R.Intn(63)) + "/" + dnsName(R, 1+R.Intn(253), 20)
		for _, ports := range []bool{false, true} {
			ports := ports
			addSet(fmt.Sprintf("service{%s,ports=%v}", svc, ports), func() *calc.IPSetData {
				return &calc.IPSetData{Service: svc, ServiceIncludePorts: ports}
			})
		}
	}
	// temporary set names
	for _, cfg := range []*ipsets.IPVersionConfig{ipv4Cfg, ipv6Cfg} {
		for _, n := range []uint{0, 1, 9, 10, 99, 100, uint(R.Intn(1 << 20)), 1<<32 - 1, ^uint(0)} {
			name := cfg.NameForTempIPSet(n)
			g.same("temp IP set name", fmt.Sprint(n), name, cfg.NameForTempIPSet(n))
			space, limit, kind := g.sets, ipsetLimit, "ipset"
			if nft {
				name = nftables.LegalizeSetName(name)
				limit, kind = nftLimit, "nft-set"
			}
			g.add(space, kind, name, fmt.Sprintf("%s|temp{%d}", cfg.Family, n), limit)
		}
	}
}

// ------------------------------------------------------------------ VM handle IDs (same helper, limit 128)

func runVMHandles(c *harness.Case, g *registry) {
	R := c.R
	stem := dnsName(R, 260, 20)
	nsStem := dnsLabel(R, 63)
	for _, network := range []string{"", "k8s-pod-network", dnsLabel(R, 1+R.Intn(40))} {
		eff := network
		if eff == "" {
			eff = "k8s-pod-network"
		}
		pfxLen := len(eff) + len(".vmi.")
		for _, ns := range []string{cut(nsStem, 1), "vmi", cut(nsStem, 20), nsStem} {
			lens := map[int]bool{1: true, 63: true, 253: true, 200: true}
			for _, n := range lengthsAround(vmLimit, pfxLen, len(ns)+1) {
				lens[n] = true
			}
			for _, n := range sortedKeys(lens) {
				if n > 253 {
					continue
				}
				vm := cut(stem, n)
				for _, v := range []string{vm, flipLast(vm)} {
					id := fmt.Sprintf("vm{net=%s ns=%s vm=%s}", eff, ns, v)
					h := vmipam.CreateVMHandleID(network, ns, v)
					g.same("VM handle", id, h, vmipam.CreateVMHandleID(network, strings.Clone(ns), strings.Clone(v)))
					g.add(g.other, "vm-handle", h, id, vmLimit)
					c.Count("vm_identities", 1)
				}
			}
		}
	}
}

// ------------------------------------------------------------------ the helper itself, arbitrary suffixes

func runRaw(c *harness.Case, g *registry) {
	R := c.R
	type cfg struct {
		pfx string
		max int
	}
	cfgs := []cfg{{"cali-pi-", 28}, {"cali-pri-", 28}, {"cali-tw-", 28}, {"", 20}, {"x", 45}, {"cali-po-", 256}, {"cali-pro-", 256}, {"k8s-pod-network.vmi.", 128}}
	alpha := "abcxyzABC019_-./:"
	for _, cf := range cfgs {
		names := map[string]string{}
		room := cf.max - len(cf.pfx)
		exact := cf.max-1-len(cf.pfx) <= 43 // a shortened name fills the limit exactly
		stemB := make([]byte, room+300)
		for i := range stemB {
			stemB[i] = alpha[R.Intn(len(alpha))]
		}
		stem := string(stemB)
		var suffixes []string
		for d := -3; d <= 3; d++ {
			if n := room + d; n >= 1 {
				s := stem[:n]
				suffixes = append(suffixes, s, "_"+s[1:], s[:n-1]+"~", "_"+s[1:n-1]+"~")
			}
		}
		for _, n := range []int{1, 2, room + 40, room + 299} {
			if n >= 1 && n <= len(stem) {
				suffixes = append(suffixes, stem[:n], "_"+stem[1:n])
			}
		}
		suffixes = append(suffixes, "_", "__", "_"+strings.Repeat("a", 42), "_"+strings.Repeat("a", 43))
		add := func(s string, fedBack bool) string {
			n1 := hash.GetLengthLimitedID(cf.pfx, s, cf.max)
			n2 := hash.GetLengthLimitedID(cf.pfx, strings.Clone(s), cf.max)
			ident := fmt.Sprintf("raw{prefix=%q max=%d suffix=%q}", cf.pfx, cf.max, s)
			g.same("GetLengthLimitedID", ident, n1, n2)
			c.Count("raw_calls", 1)
			if g.failed {
				return n1
			}
			if len(n1) > cf.max {
				g.failed = true
				c.Violationf("over-limit:raw", map[string]any{"identity": ident, "name": n1}, "GetLengthLimitedID returned %d chars for limit %d (%s)", len(n1), cf.max, ident)
				return n1
			}
			if !strings.HasPrefix(n1, cf.pfx) {
				g.failed = true
				c.Violationf("raw-prefix-lost", map[string]any{"identity": ident, "name": n1}, "name %q does not start with the fixed prefix (%s)", n1, ident)
				return n1
			}
			if prev, ok := names[n1]; ok && prev != s {
				markerInvolved := strings.HasPrefix(prev, "_") || strings.HasPrefix(s, "_")
				if !exact && markerInvolved {
					c.Count("marker_feedback_collision_large_limit", 1) // recorded, see header
					return n1
				}
				g.failed = true
				c.Violationf("collision:raw", map[string]any{"prefix": cf.pfx, "max": cf.max, "suffix_a": prev, "suffix_b": s, "name": n1, "fed_back": fedBack},
					"GetLengthLimitedID(%q, _, %d) maps %q and %q to the same name %q", cf.pfx, cf.max, prev, s, n1)
				return n1
			}
			names[n1] = s
			return n1
		}
		var produced []string
		seen := map[string]bool{}
		for _, s := range suffixes {
			if s == "" || seen[s] {
				continue
			}
			seen[s] = true
			produced = append(produced, add(s, false))
		}
		// feedback: what follows the prefix in a produced name becomes an identity
		for _, n := range produced {
			if g.failed {
				return
			}
			fb := strings.TrimPrefix(n, cf.pfx)
			if fb == "" || seen[fb] {
				continue
			}
			seen[fb] = true
			add(fb, true)
			c.Count("raw_feedback", 1)
		}
	}
}

// ------------------------------------------------------------------ determinism across worker processes

var crossOnce sync.Once

func crossProcess(c *harness.Case) {
	dir := os.Getenv("VERIF_RUNDIR")
	if dir == "" {
		c.Count("crossprocess_skipped", 1)
		return
	}
	R := rand.New(rand.NewSource(20260921)) // the same list in every process
	h := sha256.New()
	for i := 0; i < 300; i++ {
		k := kinds[R.Intn(len(kinds))]
		p := types.PolicyID{Name: dnsName(R, 1+R.Intn(253), 20), Kind: k.kind}
		if k.namespaced {
			p.Namespace = dnsLabel(R, 1+R.Intn(63))
		}
		for _, nft := range []bool{false, true} {
			io.WriteString(h, rules.PolicyChainName(rules.PolicyInboundPfx, &p, nft)+"\n")
			io.WriteString(h, rules.ProfileChainName(rules.ProfileOutboundPfx, &types.ProfileID{Name: p.Name}, nft)+"\n")
		}
		grp := &rules.PolicyGroup{Direction: rules.PolicyDirectionInbound, Policies: []*types.PolicyID{&p}, Selector: "has(" + p.Name + ")"}
		io.WriteString(h, grp.ChainName()+"\n")
		d := &calc.IPSetData{Service: p.Namespace + "/" + p.Name, ServiceIncludePorts: i%2 == 0}
		io.WriteString(h, ipv4Cfg.NameForMainIPSet(d.UniqueID())+"\n")
	}
	digest := hex.EncodeToString(h.Sum(nil))
	me := filepath.Join(dir, fmt.Sprintf("c37-digest-%d", os.Getpid()))
	if err := os.WriteFile(me, []byte(digest), 0o644); err != nil {
		c.Count("crossprocess_skipped", 1)
		return
	}
	files, _ := filepath.Glob(filepath.Join(dir, "c37-digest-*"))
	for _, f := range files {
		b, err := os.ReadFile(f)
		if err != nil || len(b) == 0 || f == me {
			continue
		}
		c.Count("crossprocess_comparisons", 1)
		if string(b) != digest {
			c.Violationf("nondeterministic:across-processes", map[string]any{"mine": digest, "other": string(b), "other_file": f},
				"the names of a fixed identity list differ between two worker processes (needs two processes to reproduce)")
			return
		}
	}
}

func run(c *harness.Case) {
	crossOnce.Do(func() { crossProcess(c) })
	nft := c.Index%2 == 1
	g := &registry{c: c, chains: map[string]string{}, sets: map[string]string{}, other: map[string]string{}}
	runChains(c, g, nft)
	if !g.failed {
		runGroups(c, g)
	}
	if !g.failed {
		runIPSets(c, g, nft)
	}
	if !g.failed {
		runVMHandles(c, g)
	}
	if !g.failed {
		runRaw(c, g)
	}
	if len(g.chains) > 100 {
		c.NonTrivial(c.Seed)
	}
	c.Distinct("names_per_case", len(g.chains)+len(g.sets)+len(g.other))
	if c.Index < 2 {
		var ex []string
		for n, id := range g.chains {
			if len(ex) < 6 && len(n) >= iptLimit {
				if len(id) > 120 {
					id = id[:120] + "..."
				}
				ex = append(ex, n+" <= "+id)
			}
		}
		sort.Strings(ex)
		c.Sample(map[string]any{"nft": nft, "chain_names": len(g.chains), "set_names": len(g.sets), "examples": ex})
	}
}

func main() {
	logrus.SetOutput(io.Discard)
	logrus.SetLevel(logrus.PanicLevel)
	harness.Main(harness.Check{
		ID:    "C37",
		Level: "exploration",
		Rule: "even cases iptables mode (limit 28 / ipset 31), odd cases nftables mode (limit 256, legalized set names); per case one family of ~1500 valid identities built from one 330-character DNS-1123 stem: profiles and policies of all 7 kinds cut at limit-3..limit+3 of every prefix for both limits, at 1,2,63,127,252,253 and random lengths far beyond the limit, last-character and mid-string flips, " +
			"namespace/name pairs with coinciding concatenation, interface names of every length incl. marker-leading, 120 policy groups, ~220 IP set identities through calc.IPSetData.UniqueID, temp set names, VM handle IDs, and raw GetLengthLimitedID calls with arbitrary suffixes incl. '_'-leading and fed-back names; " +
			"non-trivial = more than 100 chain names registered in the case; distinct by case seed",
		Assumptions: []string{
			"identities are those the v3 validators admit; distinctness of identities is by construction (the generator's tuple is the map key)",
			"injectivity is judged inside one case (a family of related identities) and across object classes of that case; collisions between unrelated identities of different cases would be truncated-hash collisions (>= 90 bits)",
			"raw GetLengthLimitedID: collisions that involve a '_'-leading suffix at limits where a shortened name does not fill the limit (256, 128) are recorded, not judged (see header of checks/c37/main.go)",
			"cross-process determinism compares digests between the worker processes of one run; it is skipped when VERIF_RUNDIR is unset",
		},
		Cases: func(tier string) int {
			if tier == "thorough" {
				return 8000
			}
			return 160
		},
		Run: run,
		Floors: map[string]int64{"names": 30000, "names_at_limit": 2000, "policy_names_shortened": 3000, "profile_names_shortened": 500, "nft_names_shortened": 500,
			"group_identities": 1000, "ipset_identities": 3000, "endpoint_identities": 500, "vm_identities": 500, "raw_calls": 3000, "raw_feedback": 500, "determinism_comparisons": 30000},
	})
}

// C21 — IPAM release is safe against stale requests and honours cooldown.
//
// Real code driven: libcalico-go/lib/ipam ReleaseIPs / ReleaseByHandle / AutoAssign / AssignIP
// through clientv3.NewFromBackend(casstore).IPAM(), i.e. allocationBlock.release (sequence-number
// and handle comparison), releaseByHandle, addCooldownAttribute, garbageCollect (cooldown and the
// Unallocated FIFO), autoAssign's walk over Unallocated.
//
// A case is one sequential history (1-2 clients on 1-2 hosts, operation-level interleaving) over
// a tiny pool (8 or 16 addresses in /30 or /29 blocks) with IPCooldownSeconds in {0, 600, 1200}:
// assignments, releases carrying every combination of {no qualifier, right handle, wrong handle,
// current sequence number, stale sequence number (that of an earlier allocation of the same
// address, or off by one, or zero)}, repeated releases of addresses that are already released or
// still cooling down, ReleaseByHandle of live / already released / unknown handles, and time
// advancing in steps between 30 s and 25 min.  Time advances by shifting the stored ReleasedAt
// stamps back (casstore.ShiftTimestamps), so the real code's time.Now() comparisons see it.
//
// Oracle (ground truth = what the real code wrote into the blocks, read before and after each call):
//  1. a ReleaseIPs option that names a wrong handle or a sequence number different from the stored
//     one for a live allocation leaves that allocation exactly as it was (same handle, same
//     sequence number);
//  2. releasing addresses that are not currently allocated (free or cooling), without a sequence
//     number, returns no error, reports them as not allocated, and changes no allocation and no
//     handle record;
//  3. an address that was freed at virtual time t is not allocated again (by anyone) before
//     t + cooldown - 60 s;
//  4. at every committed block update (under the store lock): the entries that stay on the
//     Unallocated list keep their relative order and precede the entries added by this write (freed
//     addresses go to the tail), and an AutoAssign takes its addresses from the head of the list
//     (longest-free first; addresses freed by the same write are ties);
//  5. a ReleaseByHandle(h) that returns nil has freed every address that carried h and no other;
//     one that fails has freed nothing that did not carry h.
//
// Also: the structural block check and the "allocation only disappears when its release was asked
// for" check of C19 run on every write.
//
// Deliberately not checked:
//   - that a well-formed release succeeds, which address AutoAssign picks beyond the FIFO rule,
//     error texts; a release with a sequence number on a non-allocated address may return an error
//     (it changes nothing);
//   - the relative order of addresses that finish their cooldown in the same garbage-collection
//     pass (the code appends them in ordinal order; they count as freed at the same instant);
//   - the one-second granularity of stored stamps and real elapsed time: absorbed by the 60 s slack
//     (a case lasting more than 10 s of wall clock is inconclusive);
//   - reservations (C20), concurrency (C19), IPCooldownSeconds < 0.
package main

import (
	"fmt"
	"sort"
	"time"

	apiv3 "github.com/projectcalico/api/pkg/apis/projectcalico/v3"
	"github.com/sirupsen/logrus"

	"github.com/projectcalico/calico/libcalico-go/lib/backend/model"
	"github.com/projectcalico/calico/libcalico-go/lib/ipam"

	"verif/internal/casstore"
	"verif/internal/harness"
	"verif/internal/ipamkit"
)

type hist struct {
	c        *harness.Case
	w        *ipamkit.World
	cooldown int
	start    time.Time
	shifted  time.Duration
	log      []map[string]any
	spec     ipamkit.WorldSpec

	freedAt  map[string]float64  // addr -> virtual time of the write that freed it
	pastSeqs map[string][]uint64 // addr -> sequence numbers of earlier allocations
	curOp    *ipamkit.OpRec
	fifoBad  []string
}

func (h *hist) vnow() float64 { return h.shifted.Seconds() + time.Since(h.start).Seconds() }

func (h *hist) wit() map[string]any {
	return map[string]any{"pools": h.spec.Pools, "config": h.spec.Config, "cooldown_s": h.cooldown, "history": h.log,
		"final_ipam_state": h.w.Store.Dump("/calico/ipam/")}
}

func indexOf(l []int, x int) int {
	for i, v := range l {
		if v == x {
			return i
		}
	}
	return -1
}

// fifoCheck is oracle 4; it runs under the store lock at every committed block update.
func (h *hist) fifoCheck(wr *casstore.Write) {
	if _, ok := wr.Key.(model.BlockKey); !ok || wr.Kind != casstore.WriteUpdated {
		return
	}
	ob, _ := wr.Old().(*model.AllocationBlock)
	nb, _ := wr.New().(*model.AllocationBlock)
	if ob == nil || nb == nil {
		return
	}
	h.c.Count("fifo_checks", 1)
	old, cur := ob.Unallocated, nb.Unallocated
	// survivors keep their order and precede the newly appended entries
	lastOldIdx, sawNew := -1, false
	for _, o := range cur {
		i := indexOf(old, o)
		if i < 0 {
			sawNew = true
			continue
		}
		if sawNew {
			h.fifoBad = append(h.fifoBad, fmt.Sprintf("rev %d block %s: ordinal %d was already on the Unallocated list %v but now sits behind entries added by this write: %v", wr.Rev, nb.CIDR.String(), o, old, cur))
		}
		if i < lastOldIdx {
			h.fifoBad = append(h.fifoBad, fmt.Sprintf("rev %d block %s: Unallocated %v was reordered to %v", wr.Rev, nb.CIDR.String(), old, cur))
		}
		lastOldIdx = i
	}
	// AutoAssign takes from the head
	if h.curOp != nil && h.curOp.Step.Kind == ipamkit.KAutoAssign {
		maxTaken, minKept, tookFresh := -1, len(old), false
		for i, o := range old {
			if indexOf(cur, o) >= 0 {
				if i < minKept {
					minKept = i
				}
			} else if nb.Allocations[o] != nil {
				if i > maxTaken {
					maxTaken = i
				}
			}
		}
		for o := range nb.Allocations {
			if nb.Allocations[o] != nil && ob.Allocations[o] != nil {
				oa, na := ob.Attributes[*ob.Allocations[o]], nb.Attributes[*nb.Allocations[o]]
				if oa.ReleasedAt != nil && na.ReleasedAt == nil {
					tookFresh = true // cooled down and re-allocated within this one write
				}
			}
		}
		if maxTaken >= 0 {
			h.c.Count("fifo_head_checks", 1)
		}
		if maxTaken > minKept || (tookFresh && minKept < len(old)) {
			h.fifoBad = append(h.fifoBad, fmt.Sprintf("rev %d block %s: AutoAssign did not take the head of the Unallocated list: before %v, after %v", wr.Rev, nb.CIDR.String(), old, cur))
		}
	}
}

func (h *hist) exec(lc *ipamkit.LClient, s ipamkit.Step) *ipamkit.OpRec {
	// Exec tags the client with the OpRec; keep a pointer for the FIFO check as well.
	h.curOp = &ipamkit.OpRec{Step: s}
	rec := h.w.Exec(lc, s)
	h.curOp = nil
	h.log = append(h.log, map[string]any{"vtime_s": int(h.vnow()), "op": rec})
	h.c.Count("ops", 1)
	now := h.vnow()
	// cooldown oracle (3) and bookkeeping, from the writes this op committed
	for a := range rec.Acquired {
		if t, ok := h.freedAt[a]; ok {
			h.c.Count("reuses_judged", 1)
			if h.cooldown > 0 {
				h.c.Count("reuses_judged_with_cooldown", 1)
				if now-t >= float64(h.cooldown) && now-t < float64(h.cooldown)+600 {
					h.c.Count("reuses_soon_after_cooldown", 1)
				}
			}
			if now-t < float64(h.cooldown-60) {
				h.c.Violationf("address-reused-before-cooldown", h.wit(),
					"%s was freed at virtual time %.0f s and allocated again by op#%d %s at %.0f s: %.0f s later, cooldown is %d s", a, t, rec.ID, s.Kind, now, now-t, h.cooldown)
			}
		}
		h.pastSeqs[a] = append(h.pastSeqs[a], rec.AcqSeq[a])
	}
	for a := range rec.Freed {
		h.freedAt[a] = now
	}
	for _, m := range h.fifoBad {
		h.c.Violationf("unallocated-queue-order", h.wit(), "op#%d %s: %s", rec.ID, s.Kind, m)
	}
	h.fifoBad = nil
	return rec
}

func run(c *harness.Case) {
	r := c.R
	h := &hist{c: c, start: time.Now(), freedAt: map[string]float64{}, pastSeqs: map[string][]uint64{}}
	h.cooldown = []int{0, 600, 600, 1200}[r.Intn(4)]
	hosts := []string{"host-a", "host-b"}[:1+r.Intn(2)]
	pool := ipamkit.PoolSpec{Name: "pool4", CIDR: "10.21.0.0/29", BlockSize: 30, AllowedUses: []apiv3.IPPoolAllowedUse{apiv3.IPPoolAllowedUseWorkload}}
	switch r.Intn(3) {
	case 0:
		pool.BlockSize = 29
	case 1:
		pool.CIDR, pool.BlockSize = "10.21.0.0/28", 29
	}
	h.spec = ipamkit.WorldSpec{Pools: []ipamkit.PoolSpec{pool}, Config: &ipam.IPAMConfig{AutoAllocateBlocks: true, IPCooldownSeconds: h.cooldown}}
	for _, n := range hosts {
		h.spec.Nodes = append(h.spec.Nodes, ipamkit.NodeSpec{Name: n})
	}
	w, err := ipamkit.NewWorld(h.spec)
	if err != nil {
		c.Inconclusive("setup: " + err.Error())
		return
	}
	defer w.Store.Shutdown()
	h.w = w
	tr := ipamkit.NewTracker(w, ipamkit.TrackerOpts{Structural: true, Ownership: true})
	trHook := w.Store.OnCommit
	w.Store.OnCommit = func(wr *casstore.Write) { trHook(wr); h.fifoCheck(wr) }
	var clients []*ipamkit.LClient
	for _, n := range hosts {
		clients = append(clients, w.AddClient(n))
	}
	c.Sample(map[string]any{"pool": pool, "cooldown": h.cooldown, "hosts": hosts})
	c.Count("cases_cooldown_"+fmt.Sprint(h.cooldown), 1)

	hseq := 0
	var handles []string
	staleProbes, doubleProbes := 0, 0
	nSteps := c.Pick(40, 60)
	for i := 0; i < nSteps && !c.Failed(); i++ {
		lc := clients[r.Intn(len(clients))]
		own := w.OwnersNow()
		var live, notLive []string
		for _, a := range w.Universe {
			if own[a].Live {
				live = append(live, a)
			} else {
				notLive = append(notLive, a)
			}
		}
		switch x := r.Intn(100); {
		case x < 30: // AutoAssign
			s := ipamkit.Step{Kind: ipamkit.KAutoAssign, Num4: 1 + r.Intn(2)}
			if len(handles) > 0 && r.Intn(5) == 0 {
				s.Handle = handles[r.Intn(len(handles))]
			} else {
				hseq++
				s.Handle = fmt.Sprintf("h%d", hseq)
				handles = append(handles, s.Handle)
			}
			h.exec(lc, s)
		case x < 36: // AssignIP
			hseq++
			s := ipamkit.Step{Kind: ipamkit.KAssignIP, IP: w.Universe[r.Intn(len(w.Universe))], Handle: fmt.Sprintf("h%d", hseq)}
			handles = append(handles, s.Handle)
			h.exec(lc, s)
		case x < 62 && len(live) > 0: // release live addresses with assorted qualifiers
			n := 1 + r.Intn(2)
			seen := map[string]bool{}
			var s ipamkit.Step
			s.Kind = ipamkit.KReleaseIPs
			type expect struct {
				addr  string
				pre   ipamkit.Owner
				stale bool
			}
			var exps []expect
			for j := 0; j < n; j++ {
				a := live[r.Intn(len(live))]
				if seen[a] {
					continue
				}
				seen[a] = true
				o := own[a]
				ro := ipamkit.RelOpt{Addr: a}
				stale := false
				switch q := r.Intn(10); {
				case q < 2: // no qualifier
				case q < 4:
					ro.Handle = o.Handle
				case q < 5:
					ro.Handle, stale = "someone-else", true
				case q < 7: // current sequence number (and sometimes the handle)
					sq := o.Seq
					ro.Seq = &sq
					if r.Intn(2) == 0 {
						ro.Handle = o.Handle
					}
				default: // stale sequence number
					var sq uint64
					switch past := h.pastSeqs[a]; {
					case len(past) > 1 && r.Intn(2) == 0:
						sq = past[r.Intn(len(past)-1)] // an earlier allocation of this address
					case r.Intn(3) == 0:
						sq = 0
					case r.Intn(2) == 0:
						sq = o.Seq - 1
					default:
						sq = o.Seq + 1
					}
					if sq != o.Seq {
						ro.Seq = &sq
						stale = true
						if r.Intn(2) == 0 {
							ro.Handle = o.Handle
						}
					}
				}
				s.Rel = append(s.Rel, ro)
				exps = append(exps, expect{a, o, stale})
			}
			rec := h.exec(lc, s)
			after := w.OwnersNow()
			for _, e := range exps {
				if !e.stale {
					c.Count("clean_releases", 1)
					continue
				}
				staleProbes++
				c.Count("stale_release_probes", 1)
				if got := after[e.addr]; !got.Live || got.Handle != e.pre.Handle || got.Seq != e.pre.Seq {
					c.Violationf("stale-release-freed-address", h.wit(),
						"op#%d ReleaseIPs %+v named a wrong handle or stale sequence number for %s (stored: handle %q, sequence %d) yet the allocation changed to %s (sequence %d); call returned err=%q",
						rec.ID, s.Rel, e.addr, e.pre.Handle, e.pre.Seq, got, got.Seq, rec.Err)
				}
			}
		case x < 74 && len(notLive) > 0: // release addresses that are not allocated (free or cooling), no sequence number
			var s ipamkit.Step
			s.Kind = ipamkit.KReleaseIPs
			seen := map[string]bool{}
			cooling := 0
			for j := 0; j < 1+r.Intn(3); j++ {
				a := notLive[r.Intn(len(notLive))]
				if _, wasFreed := h.freedAt[a]; !wasFreed && r.Intn(3) != 0 {
					continue // prefer addresses that were released before
				}
				if seen[a] {
					continue
				}
				seen[a] = true
				ro := ipamkit.RelOpt{Addr: a}
				if r.Intn(3) == 0 {
					ro.Handle = "any-handle"
				}
				if own[a].Cooling {
					cooling++
				}
				s.Rel = append(s.Rel, ro)
			}
			if len(s.Rel) == 0 {
				continue
			}
			rec := h.exec(lc, s)
			doubleProbes++
			c.Count("double_release_probes", 1)
			c.Count("double_release_probes_cooling", int64(cooling))
			after := w.OwnersNow()
			changed := len(rec.Acquired) > 0 || len(rec.Freed) > 0
			for _, d := range rec.HandleDelta {
				changed = changed || d != 0
			}
			for _, ro := range s.Rel {
				if after[ro.Addr].Live {
					changed = true
				}
			}
			if rec.Error() != nil || changed || len(rec.Unallocated) != len(s.Rel) {
				c.Violationf("double-release-not-harmless", h.wit(),
					"op#%d ReleaseIPs %+v named only addresses that were not allocated, without sequence numbers: err=%q, reported not-allocated=%v, allocations changed=%v",
					rec.ID, s.Rel, rec.Err, rec.Unallocated, changed)
			}
		case x < 86 && len(handles) > 0: // ReleaseByHandle
			hd := handles[r.Intn(len(handles))]
			if r.Intn(10) == 0 {
				hd = "never-used"
			}
			var mine []string
			for _, a := range live {
				if own[a].Handle == hd {
					mine = append(mine, a)
				}
			}
			rec := h.exec(lc, ipamkit.Step{Kind: ipamkit.KReleaseByHandle, Handle: hd})
			c.Count("release_by_handle_calls", 1)
			if len(mine) > 0 {
				c.Count("release_by_handle_with_live", 1)
			}
			after := w.OwnersNow()
			var others, left []string
			for a, o := range own {
				if o.Live && o.Handle != hd && (!after[a].Live || after[a].Handle != o.Handle) {
					others = append(others, a)
				}
			}
			for _, a := range mine {
				if after[a].Live && after[a].Handle == hd {
					left = append(left, a)
				}
			}
			sort.Strings(others)
			if len(others) > 0 {
				c.Violationf("release-by-handle-freed-foreign-address", h.wit(), "op#%d ReleaseByHandle(%q) changed allocations that did not carry that handle: %v", rec.ID, hd, others)
			}
			if rec.Error() == nil && len(left) > 0 {
				c.Violationf("release-by-handle-left-addresses", h.wit(), "op#%d ReleaseByHandle(%q) returned nil but %v still carry the handle", rec.ID, hd, left)
			}
		default: // time passes
			d := []time.Duration{30 * time.Second, 5 * time.Minute, 9 * time.Minute, 11 * time.Minute, 25 * time.Minute}[r.Intn(5)]
			w.Store.ShiftTimestamps(d)
			h.shifted += d
			h.log = append(h.log, map[string]any{"vtime_s": int(h.vnow()), "time_advanced_s": int(d.Seconds())})
			c.Count("time_advances", 1)
		}
		if time.Since(h.start) > 10*time.Second {
			c.Inconclusive("case took more than 10 s of wall clock")
			return
		}
	}
	for _, f := range tr.Findings {
		c.Violationf(f.Key, h.wit(), "%s", f.Msg)
	}
	c.Count("committed_writes", tr.NWrites)
	c.Count("allocations_committed", tr.NAllocs)
	c.Count("frees_committed", tr.NFrees)
	if staleProbes > 0 && doubleProbes > 0 {
		c.NonTrivial(fmt.Sprint(h.log))
	}
}

func main() {
	harness.Main(harness.Check{
		ID:    "C21",
		Level: "exploration",
		Rule: "case = sequential history of 40-60 steps on an 8- or 16-address pool with IPCooldownSeconds in {0,600,1200}: AutoAssign/AssignIP, ReleaseIPs with {none, right/wrong handle, current/stale sequence number}, releases of free or cooling addresses, ReleaseByHandle, virtual time steps of 30 s..25 min; " +
			"non-trivial = at least one stale-qualifier probe and one double-release probe (distinct by history)",
		Assumptions: []string{
			"virtual time = casstore.ShiftTimestamps on stored ReleasedAt stamps + real elapsed time; 60 s slack; cases over 10 s wall are inconclusive",
			"histories are sequential; ground truth is read from the stored blocks before and after each call",
			"addresses freed by the same datastore write count as freed at the same instant",
		},
		Cases: func(tier string) int {
			if tier == "thorough" {
				return 40000
			}
			return 1000
		},
		Setup:       func(tier string) error { logrus.SetLevel(logrus.PanicLevel); return nil },
		Run:         run,
		CaseTimeout: 120 * time.Second,
		Floors: map[string]int64{"ops": 3000, "stale_release_probes": 300, "double_release_probes": 200, "double_release_probes_cooling": 30, "release_by_handle_with_live": 100,
			"reuses_judged_with_cooldown": 100, "reuses_soon_after_cooldown": 5, "fifo_checks": 1000, "fifo_head_checks": 300, "time_advances": 300},
	})
}

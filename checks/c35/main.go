// C35 — mark-bit allocation is collision-free and reversible.
package main

import (
	"fmt"
	"math/bits"

	"github.com/projectcalico/calico/felix/markbits"

	"verif/internal/harness"
)

func structuredMask(i int) (uint32, bool) {
	switch {
	case i < 32:
		return 1 << uint(i), true // single bit
	case i == 32:
		return 0xffffffff, true
	case i == 33:
		return 0xaaaaaaaa, true
	case i == 34:
		return 0x55555555, true
	case i == 35:
		return 0, true
	case i < 36+32:
		return 0xffffffff << uint(i-36), true // top runs
	case i < 36+64:
		return 0xffffffff >> uint(i-68), true // bottom runs
	}
	return 0, false
}

func run(c *harness.Case) {
	mask, ok := structuredMask(c.Index)
	if !ok {
		mask = c.R.Uint32()
		switch c.R.Intn(4) {
		case 0:
			mask &= c.R.Uint32() // sparser
		case 1:
			mask &= c.R.Uint32() & c.R.Uint32()
		}
	}
	pop := bits.OnesCount32(mask)
	if pop >= 2 {
		c.NonTrivial(mask)
	}
	c.Sample(map[string]any{"mask": fmt.Sprintf("%#x", mask), "popcount": pop})
	detail := map[string]any{"mask": fmt.Sprintf("%#x", mask)}

	// Number <-> mark round trip; the statement does not make it depend on how many bits have been
	// handed out, so it is checked on a fresh manager and on the allocating one at every prefix.
	m2 := markbits.NewMarkBitsManager(mask, "verif")
	limit := uint64(1) << uint(pop)
	checkOn := func(m2 *markbits.MarkBitsManager, n uint64) bool {
		mark, err := m2.MapNumberToMark(int(n))
		c.Count("number_maps", 1)
		if n >= limit {
			// The statement only speaks about numbers that fit the mask; what happens to the others
			// is recorded, not judged.
			if err == nil {
				c.Count("oversize_accepted", 1)
			} else {
				c.Count("oversize_rejected", 1)
			}
			return true
		}
		if err != nil {
			c.Violationf("number-rejected", detail, "mask %#x: number %d fits %d bits but: %v", mask, n, pop, err)
			return false
		}
		if mark&^mask != 0 {
			c.Violationf("mark-outside-mask", detail, "mask %#x: number %d -> mark %#x outside the mask", mask, n, mark)
			return false
		}
		back, err := m2.MapMarkToNumber(mark)
		if err != nil || uint64(back) != n {
			c.Violationf("roundtrip", detail, "mask %#x: number %d -> mark %#x -> %d (%v)", mask, n, mark, back, err)
			return false
		}
		return true
	}
	check := func(n uint64) bool { return checkOn(m2, n) }
	probe := func(m *markbits.MarkBitsManager) bool {
		c.Count("midalloc_probes", 1)
		for k := 0; k < 6; k++ {
			var n uint64
			switch k {
			case 0:
				n = 0
			case 1:
				n = limit - 1
			case 2:
				n = limit
				if n > 0xffffffff {
					n = limit - 1
				}
			default:
				n = uint64(c.R.Int63n(int64(limit)))
			}
			if !checkOn(m, n) {
				return false
			}
		}
		return true
	}
	// Allocation: mixed single-bit and block allocations until exhaustion.
	m := markbits.NewMarkBitsManager(mask, "verif")
	if m.AvailableMarkBitCount() != pop {
		c.Violationf("available-count", detail, "mask %#x: AvailableMarkBitCount=%d want %d", mask, m.AvailableMarkBitCount(), pop)
	}
	var seen uint32
	allocated := 0
	for allocated < pop {
		if c.R.Intn(3) == 0 {
			want := 1 + c.R.Intn(5)
			blk, n := m.NextBlockBitsMark(want)
			exp := want
			if pop-allocated < want {
				exp = pop - allocated
			}
			c.Count("block_allocs", 1)
			if n != exp || bits.OnesCount32(blk) != n {
				c.Violationf("block-size", detail, "mask %#x: block alloc of %d returned %#x n=%d, expected %d bits", mask, want, blk, n, exp)
				return
			}
			if blk&seen != 0 || blk&^mask != 0 {
				c.Violationf("block-collision", detail, "mask %#x: block %#x collides with %#x or leaves the mask", mask, blk, seen)
				return
			}
			seen |= blk
			allocated += n
		} else {
			b, err := m.NextSingleBitMark()
			c.Count("single_allocs", 1)
			if err != nil {
				c.Violationf("early-exhaustion", detail, "mask %#x: allocation %d of %d failed: %v", mask, allocated+1, pop, err)
				return
			}
			if bits.OnesCount32(b) != 1 || b&^mask != 0 || b&seen != 0 {
				c.Violationf("single-collision", detail, "mask %#x: bit %#x not a fresh single bit inside the mask (already %#x)", mask, b, seen)
				return
			}
			seen |= b
			allocated++
		}
		if !probe(m) {
			return
		}
		if m.AvailableMarkBitCount() != pop-allocated {
			c.Violationf("available-count", detail, "mask %#x: after %d allocations AvailableMarkBitCount=%d", mask, allocated, m.AvailableMarkBitCount())
			return
		}
	}
	if seen != mask {
		c.Violationf("not-exhaustive", detail, "mask %#x: allocated union %#x", mask, seen)
	}
	// pop+1-th allocation must fail, repeatedly, and must not disturb state.
	for k := 0; k < 3; k++ {
		if b, err := m.NextSingleBitMark(); err == nil {
			c.Violationf("over-allocation", detail, "mask %#x: allocation beyond exhaustion returned %#x", mask, b)
			return
		}
		if blk, n := m.NextBlockBitsMark(2); n != 0 || blk != 0 {
			c.Violationf("over-allocation", detail, "mask %#x: block allocation beyond exhaustion returned %#x,%d", mask, blk, n)
			return
		}
		c.Count("exhausted_allocs", 2)
	}
	if !probe(m) {
		return
	}

	if pop <= 12 {
		for n := uint64(0); n < limit+3; n++ {
			if !check(n) {
				return
			}
		}
	} else {
		for k := 0; k < 600; k++ {
			var n uint64
			switch c.R.Intn(4) {
			case 0:
				n = uint64(c.R.Int63n(int64(limit)))
			case 1:
				n = limit - 1 - uint64(c.R.Intn(4))
			case 2:
				n = uint64(1) << uint(c.R.Intn(pop))
			default:
				n = limit + uint64(c.R.Intn(4))
				if n > 0xffffffff {
					n = limit - 1
				}
			}
			if !check(n) {
				return
			}
		}
	}
	// distinct numbers map to distinct marks (injectivity, sampled pairs)
	if pop >= 1 {
		for k := 0; k < 50; k++ {
			a := uint64(c.R.Int63n(int64(limit)))
			b := uint64(c.R.Int63n(int64(limit)))
			ma, _ := m2.MapNumberToMark(int(a))
			mb, _ := m2.MapNumberToMark(int(b))
			if (a == b) != (ma == mb) {
				c.Violationf("not-injective", detail, "mask %#x: numbers %d,%d -> marks %#x,%#x", mask, a, b, ma, mb)
				return
			}
		}
	}
	// a mark with a bit outside the mask must be rejected
	if mask != 0xffffffff {
		bad := uint32(1) << uint(bits.TrailingZeros32(^mask))
		if _, err := m2.MapMarkToNumber(bad | (mask & c.R.Uint32())); err == nil {
			c.Violationf("foreign-mark-accepted", detail, "mask %#x: mark with foreign bit %#x accepted", mask, bad)
		}
	}
}

func main() {
	harness.Main(harness.Check{
		ID:    "C35",
		Level: "exploration",
		Rule: "cases 0..99 are structured masks (each single bit, all, alternating, empty, top and bottom runs), the rest PRNG masks of varying density; " +
			"per mask: mixed single/block allocation to exhaustion + 3 over-allocations, number<->mark round trip for every number when popcount<=12 else 600 sampled incl. boundaries; " +
			"non-trivial = popcount>=2, distinct by mask",
		Assumptions: []string{"MapNumberToMark takes an int; numbers above 2^32-1 are not generated"},
		Cases: func(tier string) int {
			if tier == "thorough" {
				return 200000
			}
			return 3000
		},
		Run:    run,
		Floors: map[string]int64{"number_maps": 1000, "single_allocs": 1000},
	})
}

// C40 — host protection and workload isolation hold on every packet path.
//
// Real code driven: rules.NewRenderer(cfg, nft) and ALL the chains a Felix node programs for a
// generated configuration: StaticRawTableChains, StaticMangleTableChains,
// StaticFilterTableChains, StaticFilterForwardAppendRules, WorkloadDispatchChains (+
// DispatchMappings verdict maps for nftables), HostDispatchChains / FromHostDispatchChains /
// ToHostDispatchChains, WorkloadEndpointToIptablesChains, HostEndpointTo{Raw,MangleIngress,
// MangleEgress,Filter}Chains, PolicyToIptablesChains, ProfileToIptablesChains,
// PolicyGroupToIptablesChains, BlockedCIDRsToIptablesChains, EgressDSCPChain.  The kernel's
// built-in chains get the jump rules int_dataplane.go installs (raw PREROUTING/OUTPUT, mangle
// PREROUTING/POSTROUTING, filter INPUT/FORWARD/OUTPUT + the FORWARD append rules).  For
// nftables everything goes through the real nftables.NewTableLayer namespacing into one table.
//
// internal/nfsim walks the hooks in kernel order, carrying the packet mark from hook to hook
// (and turning the conntrack state into UNTRACKED after a NOTRACK in raw):
//
//	to the host     raw PREROUTING -> mangle PREROUTING -> filter INPUT
//	forwarded       raw PREROUTING -> mangle PREROUTING -> filter FORWARD -> mangle POSTROUTING
//	from the host   raw OUTPUT -> filter OUTPUT -> mangle POSTROUTING
//
// ACCEPT or falling off a built-in chain continues with the next hook; DROP/REJECT ends the
// walk.
//
// Oracle (the four clauses of the statement):
//
//	(a) failsafes: a packet to the host through a host-endpoint interface on a configured inbound
//	    failsafe port (NEW), a packet from the host out of such an interface on an outbound
//	    failsafe port (NEW), and the responses to both (ESTABLISHED, source port = the failsafe
//	    port) are never dropped, whatever untracked / pre-DNAT / normal host policy exists
//	    (deny-all policies are generated on purpose);
//	(b) a packet arriving from an interface that has a workload prefix but is not a known
//	    workload is dropped on the to-the-host path and on the forwarded path;
//	(c) a packet from a known workload to the host: if the workload's egress policy (reference
//	    verdict) denies it, it is dropped; if it allows it, the configured endpoint-to-host action
//	    decides (DROP: dropped, REJECT: rejected, ACCEPT / RETURN: not dropped);
//	(d) with IPIP (IPv4) or VXLAN enabled, an IPIP packet / a UDP packet to the VXLAN port
//	    addressed to the host whose source is not in the all-hosts / all-VXLAN-sources set is
//	    dropped.
//
// Deliberately not checked:
//   - rule-level matching and profile pass handling (C08, C09): policies here use
//     rulegen.SimpleRule (<= 2 positive match blocks, no protocol+notProtocol) and profiles
//     contain no pass-action rules, so the known findings of C08/C09 cannot surface here;
//   - the nat table (no clause of the statement concerns it), IPVS mode, Wireguard, OpenStack
//     special cases, BPF mode, flow offload, Istio;
//   - (b) and (c) for ICMPv6 types 130-136 to the host (Felix deliberately lets them through
//     before dispatch/policy so that the host can act as a router); (c) also for
//     IPIP / VXLAN-port packets (handled before the workload rules) and, when a wildcard host
//     endpoint with pre-DNAT policy exists, for packets the reference allows (the wildcard
//     host endpoint's pre-DNAT policy legitimately applies to them first);
//   - (d) positive direction (tunnel packets FROM cluster hosts): counted, not judged;
//   - failsafes on the forwarded path (forward chains have no failsafes by design).
package main

import (
	"errors"
	"fmt"
	"io"
	"net/netip"
	"os"
	"strings"

	v3 "github.com/projectcalico/api/pkg/apis/projectcalico/v3"
	"github.com/sirupsen/logrus"

	"github.com/projectcalico/calico/felix/generictables"
	"github.com/projectcalico/calico/felix/ipsets"
	"github.com/projectcalico/calico/felix/iptables"
	"github.com/projectcalico/calico/felix/nftables"
	"github.com/projectcalico/calico/felix/proto"
	"github.com/projectcalico/calico/felix/rules"
	"github.com/projectcalico/calico/felix/types"

	"verif/internal/harness"
	"verif/internal/nfsim"
	"verif/internal/refpolicy"
	"verif/internal/rulegen"
)

const okCounter = "cases_without_harness_error"

func harnessError(c *harness.Case, err error) {
	c.Count(okCounter, -1)
	c.Count("harness_errors", 1)
	fmt.Fprintf(os.Stderr, "HARNESS-ERROR case %d: %v\n", c.Index, err)
	c.Inconclusive("harness-error: nfsim could not parse a rendered rule")
}

func polID(p *rulegen.LPolicy) *types.PolicyID {
	return &types.PolicyID{Name: p.Name, Namespace: p.Namespace, Kind: p.Kind}
}

func tierGroups(l *rulegen.Layout) []rules.TierPolicyGroups {
	var out []rules.TierPolicyGroups
	sel := 0
	mk := func(groups [][]*rulegen.LPolicy, dir rules.PolicyDirection) []*rules.PolicyGroup {
		var gs []*rules.PolicyGroup
		for _, g := range groups {
			sel++
			pg := &rules.PolicyGroup{Direction: dir, Selector: fmt.Sprintf("sel == '%d'", sel)}
			for _, p := range g {
				pg.Policies = append(pg.Policies, polID(p))
			}
			gs = append(gs, pg)
		}
		return gs
	}
	for _, t := range l.Tiers {
		out = append(out, rules.TierPolicyGroups{Name: t.Name, DefaultAction: t.DefaultAction,
			IngressPolicies: mk(t.IngressGroups, rules.PolicyDirectionInbound),
			EgressPolicies:  mk(t.EgressGroups, rules.PolicyDirectionOutbound)})
	}
	return out
}

// stripProfilePass removes pass-action rules from profiles (see "Deliberately not checked").
func stripProfilePass(l *rulegen.Layout) {
	f := func(rs []*proto.Rule) []*proto.Rule {
		var out []*proto.Rule
		for _, r := range rs {
			if a, _ := refpolicy.ActionOf(r); a != refpolicy.Pass {
				out = append(out, r)
			}
		}
		return out
	}
	for _, p := range l.Profiles {
		p.Inbound, p.Outbound = f(p.Inbound), f(p.Outbound)
	}
}

// denyAll is a layout with one tier holding one policy that denies everything in both
// directions.
func denyAll(prefix string) *rulegen.Layout {
	p := &rulegen.LPolicy{Name: prefix + "deny-all", Kind: "GlobalNetworkPolicy", Tier: prefix + "tier", Ingress: true, Egress: true,
		Inbound: []*proto.Rule{{Action: "deny"}}, Outbound: []*proto.Rule{{Action: "deny"}}}
	t := &rulegen.LTier{Name: prefix + "tier", DefaultAction: "Deny", Policies: []*rulegen.LPolicy{p},
		IngressGroups: [][]*rulegen.LPolicy{{p}}, EgressGroups: [][]*rulegen.LPolicy{{p}}}
	return &rulegen.Layout{Tiers: []*rulegen.LTier{t}}
}

// keyWildcardEstablished identifies one specific situation found on the unchanged tree (see the
// final report): with a wildcard ("*") host endpoint and FilterAllowAction=ACCEPT, cali-FORWARD
// jumps to the from-host-endpoint forward dispatch BEFORE the workload dispatch; the wildcard
// endpoint's forward chain starts with "ctstate RELATED,ESTABLISHED -> ACCEPT", so an established
// packet from an unknown workload-prefixed interface is accepted and never reaches the
// "Unknown interface" drop.  Emitted only for exactly that walk; at most 4 times per worker.
const keyWildcardEstablished = "unknown-workload:established-packet-accepted-by-wildcard-hep-forward-chain"

var knownEmitted = map[string]int{}

func emitKnown(key string) bool {
	knownEmitted[key]++
	return knownEmitted[key] <= 4
}

type hookRef struct{ table, chain string }

var (
	pathToHost   = []hookRef{{"raw", "PREROUTING"}, {"mangle", "PREROUTING"}, {"filter", "INPUT"}}
	pathForward  = []hookRef{{"raw", "PREROUTING"}, {"mangle", "PREROUTING"}, {"filter", "FORWARD"}, {"mangle", "POSTROUTING"}}
	pathFromHost = []hookRef{{"raw", "OUTPUT"}, {"filter", "OUTPUT"}, {"mangle", "POSTROUTING"}}
)

// world is one rendered node: three tables.
type world struct {
	flavor nfsim.Flavor
	rs     map[string]*nfsim.Ruleset
	tbl    map[string]nfsim.TableAndMaps
	pfx    map[string]string // chain-name prefix per table (nft layers)
}

func newWorld(flavor nfsim.Flavor, ipv uint8) *world {
	w := &world{flavor: flavor, rs: map[string]*nfsim.Ruleset{}, tbl: map[string]nfsim.TableAndMaps{}, pfx: map[string]string{}}
	if flavor == nfsim.NFT {
		one := nfsim.NewRuleset(flavor, ipv)
		for _, t := range []string{"raw", "mangle", "filter"} {
			w.rs[t], w.tbl[t], w.pfx[t] = one, one.Table(t), t+"-"
		}
		return w
	}
	for _, t := range []string{"raw", "mangle", "filter"} {
		rs := nfsim.NewRuleset(flavor, ipv)
		w.rs[t], w.tbl[t], w.pfx[t] = rs, rs.Table(""), ""
	}
	return w
}

type walkResult struct {
	dropped  bool
	rejected bool
	where    string // "table/HOOK" of the drop
	last     *nfsim.Result
	lastHook string
	trace    string
	perHook  map[string]*nfsim.Result
}

func (w *world) walk(path []hookRef, pkt nfsim.Packet) (*walkResult, error) {
	wr := &walkResult{perHook: map[string]*nfsim.Result{}}
	var tr strings.Builder
	for _, h := range path {
		res, err := w.rs[h.table].Run(w.pfx[h.table]+h.chain, &pkt)
		if err != nil {
			return nil, err
		}
		fmt.Fprintf(&tr, "== %s/%s -> %s mark=%#x\n%s", h.table, h.chain, res.Verdict, res.Mark, res.TraceString())
		wr.last, wr.lastHook = res, h.table+"/"+h.chain
		wr.perHook[wr.lastHook] = res
		pkt.Mark = res.Mark
		if res.NoTrack {
			pkt.CTState = nfsim.CTUntracked
		}
		if res.Verdict == nfsim.Drop || res.Verdict == nfsim.Reject {
			wr.dropped, wr.rejected, wr.where = true, res.Verdict == nfsim.Reject, wr.lastHook
			break
		}
	}
	wr.trace = tr.String()
	return wr, nil
}

func addrIn(c *harness.Case, pfx netip.Prefix) netip.Addr {
	b := pfx.Masked().Addr().AsSlice()
	for i := pfx.Bits(); i < len(b)*8; i++ {
		if c.R.Intn(2) == 0 {
			b[i/8] |= 1 << (7 - uint(i%8))
		}
	}
	a, _ := netip.AddrFromSlice(b)
	return a
}

func run(c *harness.Case) {
	c.Count(okCounter, 1)
	ipv := uint8(4)
	if c.R.Intn(3) == 0 {
		ipv = 6
	}
	g := rulegen.New(c.R, rulegen.Config{})
	simple := func(prefix string, maxTiers int) *rulegen.Layout {
		l := g.Layout(rulegen.LayoutConfig{IPVersion: ipv, ComplexRulePct: -1, MaxTiers: maxTiers, MaxPolicies: 4, MaxRules: 3, NamePrefix: prefix})
		stripProfilePass(l)
		return l
	}
	hostile := func(prefix string) *rulegen.Layout {
		switch c.R.Intn(5) {
		case 0:
			return &rulegen.Layout{}
		case 1, 2:
			return denyAll(prefix)
		}
		l := simple(prefix, 2)
		l.Profiles = nil
		return l
	}

	// ---- configuration
	wlPrefixes := []string{"cali"}
	if c.R.Intn(4) == 0 {
		wlPrefixes = []string{"cali", "tap"}
	}
	hostNet, otherHost, outsider := "10.240.0.0/24", "10.240.0.7", "203.0.113.9"
	thisHost := "10.240.0.1"
	if ipv == 6 {
		hostNet, otherHost, outsider, thisHost = "fd00:240::/64", "fd00:240::7", "2001:db8:ffff::9", "fd00:240::1"
	}
	failPorts := []uint16{22, 53, 67, 68, 179, 2379, 2380, 5473, 6443, 6666, 6667, 10250}
	protoPort := func() v3.ProtoPort {
		pp := v3.ProtoPort{Protocol: []string{"tcp", "udp"}[c.R.Intn(2)], Port: failPorts[c.R.Intn(len(failPorts))]}
		switch c.R.Intn(6) {
		case 0:
			pp.Net = hostNet
		case 1:
			if ipv == 4 {
				pp.Net = "0.0.0.0/0"
			} else {
				pp.Net = "::/0"
			}
		case 2:
			// a CIDR of the OTHER family: the rule is not rendered for this family, so this
			// failsafe does not exist here
			if ipv == 4 {
				pp.Net = "fd00::/8"
			} else {
				pp.Net = "10.0.0.0/8"
			}
		}
		return pp
	}
	var fsIn, fsOut []v3.ProtoPort
	for i, n := 0, c.R.Intn(5); i < n; i++ {
		fsIn = append(fsIn, protoPort())
	}
	for i, n := 0, c.R.Intn(5); i < n; i++ {
		fsOut = append(fsOut, protoPort())
	}
	e2h := []string{"DROP", "RETURN", "ACCEPT", "REJECT", ""}[c.R.Intn(5)]
	cfg := rules.Config{
		IPSetConfigV4:         ipsets.NewIPVersionConfig(ipsets.IPFamilyV4, "cali", nil, nil),
		IPSetConfigV6:         ipsets.NewIPVersionConfig(ipsets.IPFamilyV6, "cali", nil, nil),
		WorkloadIfacePrefixes: wlPrefixes,
		MarkAccept:            0x10000, MarkPass: 0x20000, MarkDrop: 0x200000, MarkScratch0: 0x40000, MarkScratch1: 0x80000,
		MarkEndpoint: 0xff000000, MarkNonCaliEndpoint: 0x01000000,
		FailsafeInboundHostPorts: fsIn, FailsafeOutboundHostPorts: fsOut,
		// Felix's defaults: the names are never empty in a real configuration
		WireguardInterfaceName: "wireguard.cali", WireguardInterfaceNameV6: "wg-v6.cali", WireguardMark: 0x100000,
		EndpointToHostAction:           e2h,
		IPIPEnabled:                    c.R.Intn(2) == 0,
		VXLANEnabled:                   c.R.Intn(2) == 0,
		VXLANEnabledV6:                 c.R.Intn(2) == 0,
		VXLANPort:                      4789,
		FlowLogsEnabled:                c.R.Intn(2) == 0,
		DisableConntrackInvalid:        c.R.Intn(3) == 0,
		AllowVXLANPacketsFromWorkloads: c.R.Intn(2) == 0,
		AllowIPIPPacketsFromWorkloads:  c.R.Intn(2) == 0,
	}
	if c.R.Intn(3) == 0 {
		cfg.FilterAllowAction = "RETURN"
	}
	if c.R.Intn(3) == 0 {
		cfg.MangleAllowAction = "RETURN"
	}
	reject := c.R.Intn(4) == 0
	if reject {
		cfg.FilterDenyAction = "REJECT"
	}
	if c.R.Intn(5) == 0 {
		cfg.ServiceLoopPrevention = "Drop"
	}
	vxlanOn := (ipv == 4 && cfg.VXLANEnabled) || (ipv == 6 && cfg.VXLANEnabledV6)
	ipipOn := ipv == 4 && cfg.IPIPEnabled

	// ---- endpoints
	type workload struct {
		iface  string
		layout *rulegen.Layout
	}
	var wls []workload
	for i, n := 0, 1+c.R.Intn(2); i < n; i++ {
		wls = append(wls, workload{iface: fmt.Sprintf("%s%011x", wlPrefixes[c.R.Intn(len(wlPrefixes))], c.R.Int63n(1<<44)), layout: simple(fmt.Sprintf("w%d-", i), 3)})
	}
	hepIfaces := []string{"eth0"}
	if c.R.Intn(3) == 0 {
		hepIfaces = append(hepIfaces, "eth1")
	}
	wildcard := c.R.Intn(3) == 0
	const allIfaces = "any-interface-at-all"
	type hostEP struct {
		iface                               string
		normal, forward, untracked, preDNAT *rulegen.Layout
	}
	var heps []hostEP
	names := append([]string(nil), hepIfaces...)
	if wildcard {
		names = append(names, allIfaces)
	}
	for i, n := range names {
		h := hostEP{iface: n, normal: hostile(fmt.Sprintf("h%dn-", i)), forward: hostile(fmt.Sprintf("h%df-", i)),
			untracked: hostile(fmt.Sprintf("h%du-", i)), preDNAT: hostile(fmt.Sprintf("h%dp-", i))}
		if n == allIfaces {
			h.untracked = &rulegen.Layout{} // untracked policy is not supported on the wildcard host endpoint
		}
		if c.R.Intn(2) == 0 {
			h.normal.Profiles = nil
		}
		heps = append(heps, h)
	}
	wildcardPreDNAT := false
	for _, h := range heps {
		if h.iface == allIfaces && len(h.preDNAT.Tiers) > 0 {
			wildcardPreDNAT = true
		}
	}
	sets := g.IPSets()

	// ---- probe packets (shared by both renderers)
	local, _ := netip.ParseAddr(thisHost)
	type probe struct {
		clause string
		path   []hookRef
		pkt    nfsim.Packet
		// expectation
		mustPass  bool // (a): never dropped
		mustDrop  bool // (b), (c denied), (d)
		wantRej   *bool
		skipJudge bool
		note      string
	}
	var probes []probe
	uni := func() refpolicy.Packet { return g.UniversePacket(ipv) }
	hn := netip.MustParsePrefix(hostNet)
	// (a) failsafes
	for _, pp := range fsIn {
		pn := uint8(6)
		if pp.Protocol == "udp" {
			pn = 17
		}
		src := uni().Src
		exists := true
		if pp.Net != "" {
			n := netip.MustParsePrefix(pp.Net)
			if n.Addr().Is6() != (ipv == 6) {
				exists = false
			} else {
				src = addrIn(c, n)
			}
		}
		if !exists {
			continue
		}
		for _, iface := range names {
			in := iface
			if iface == allIfaces {
				in = "ens7"
			}
			p := refpolicy.Packet{IPVersion: ipv, Src: src, Dst: local, Proto: pn, SrcPort: uint16(1024 + c.R.Intn(60000)), DstPort: pp.Port}
			probes = append(probes, probe{clause: "a-inbound-failsafe", path: pathToHost, mustPass: true,
				pkt:  nfsim.Packet{Packet: p, InIface: in, CTState: nfsim.CTNew, DstLocal: true, TCPSyn: true},
				note: fmt.Sprintf("inbound failsafe %s:%d net=%q via %s", pp.Protocol, pp.Port, pp.Net, in)})
			// the response, leaving through the same interface
			r := refpolicy.Packet{IPVersion: ipv, Src: local, Dst: src, Proto: pn, SrcPort: pp.Port, DstPort: p.SrcPort}
			probes = append(probes, probe{clause: "a-inbound-failsafe-response", path: pathFromHost, mustPass: true,
				pkt:  nfsim.Packet{Packet: r, OutIface: in, CTState: nfsim.CTEstablished, SrcLocal: true, SrcLocalOnOutIf: true},
				note: fmt.Sprintf("response to inbound failsafe %s:%d net=%q via %s", pp.Protocol, pp.Port, pp.Net, in)})
		}
	}
	for _, pp := range fsOut {
		pn := uint8(6)
		if pp.Protocol == "udp" {
			pn = 17
		}
		dst := uni().Dst
		exists := true
		if pp.Net != "" {
			n := netip.MustParsePrefix(pp.Net)
			if n.Addr().Is6() != (ipv == 6) {
				exists = false
			} else {
				dst = addrIn(c, n)
			}
		}
		if !exists {
			continue
		}
		for _, iface := range names {
			out := iface
			if iface == allIfaces {
				out = "ens7"
			}
			p := refpolicy.Packet{IPVersion: ipv, Src: local, Dst: dst, Proto: pn, SrcPort: uint16(1024 + c.R.Intn(60000)), DstPort: pp.Port}
			probes = append(probes, probe{clause: "a-outbound-failsafe", path: pathFromHost, mustPass: true,
				pkt:  nfsim.Packet{Packet: p, OutIface: out, CTState: nfsim.CTNew, SrcLocal: true, SrcLocalOnOutIf: true, TCPSyn: true, CTDNAT: c.R.Intn(3) == 0},
				note: fmt.Sprintf("outbound failsafe %s:%d net=%q via %s", pp.Protocol, pp.Port, pp.Net, out)})
			r := refpolicy.Packet{IPVersion: ipv, Src: dst, Dst: local, Proto: pn, SrcPort: pp.Port, DstPort: p.SrcPort}
			probes = append(probes, probe{clause: "a-outbound-failsafe-response", path: pathToHost, mustPass: true,
				pkt:  nfsim.Packet{Packet: r, InIface: out, CTState: nfsim.CTEstablished, DstLocal: true},
				note: fmt.Sprintf("response to outbound failsafe %s:%d net=%q via %s", pp.Protocol, pp.Port, pp.Net, out)})
		}
	}
	// (b) unknown workload-prefixed interfaces
	knownWl := map[string]bool{}
	for _, w := range wls {
		knownWl[w.iface] = true
	}
	for i := 0; i < 5; i++ {
		var name string
		switch i {
		case 0:
			name = wls[0].iface[:len(wls[0].iface)-1] // a known name cut by one character
		case 1:
			name = wls[0].iface[:len(wls[0].iface)-1] + "z"
		case 2:
			name = wlPrefixes[c.R.Intn(len(wlPrefixes))]
		default:
			name = fmt.Sprintf("%s%x", wlPrefixes[c.R.Intn(len(wlPrefixes))], c.R.Int63n(1<<40))
		}
		if knownWl[name] {
			continue
		}
		for _, st := range []nfsim.CTState{nfsim.CTNew, nfsim.CTEstablished} {
			p := uni()
			p.Dst = local
			if ipv == 6 && p.Proto == refpolicy.ProtoICMPv6 {
				p.ICMPType = 128 // not one of the router-essential types Felix lets through before dispatch
			}
			probes = append(probes, probe{clause: "b-unknown-workload-to-host", path: pathToHost, mustDrop: true,
				pkt: nfsim.Packet{Packet: p, InIface: name, CTState: st, DstLocal: true, TCPSyn: true}, note: "from unknown interface " + name})
			q := uni()
			probes = append(probes, probe{clause: "b-unknown-workload-forwarded", path: pathForward, mustDrop: true,
				pkt: nfsim.Packet{Packet: q, InIface: name, OutIface: "eth0", CTState: st, TCPSyn: true}, note: "from unknown interface " + name})
		}
	}
	// (c) known workload -> host
	type cProbe struct {
		idx int
		wl  int
	}
	var cIdx []cProbe
	for wi, w := range wls {
		var pkts []refpolicy.Packet
		for i, n := 0, c.Pick(14, 24); i < n; i++ {
			pkts = append(pkts, uni())
		}
		all := w.layout.AllRules()
		for i := 0; i < 2 && len(all) > 0; i++ {
			pkts = append(pkts, g.Packets(all[c.R.Intn(len(all))], ipv, 3)...)
		}
		for _, p := range pkts {
			if p.Proto == refpolicy.ProtoIPIP || (p.Proto == refpolicy.ProtoUDP && p.DstPort == 4789) {
				continue
			}
			if ipv == 6 && p.Proto == refpolicy.ProtoICMPv6 && p.ICMPType >= 130 && p.ICMPType <= 136 {
				continue
			}
			probes = append(probes, probe{clause: "c-workload-to-host", path: pathToHost,
				pkt: nfsim.Packet{Packet: p, InIface: w.iface, CTState: nfsim.CTNew, DstLocal: true, TCPSyn: true}, note: "from workload " + w.iface})
			cIdx = append(cIdx, cProbe{len(probes) - 1, wi})
		}
	}
	// (d) tunnel packets
	out, _ := netip.ParseAddr(outsider)
	oh, _ := netip.ParseAddr(otherHost)
	if ipipOn {
		for _, in := range []string{"eth0", "eth5", "tunl0"} {
			probes = append(probes,
				probe{clause: "d-ipip-from-non-host", path: pathToHost, mustDrop: true, note: "IPIP from " + outsider + " via " + in,
					pkt: nfsim.Packet{Packet: refpolicy.Packet{IPVersion: 4, Src: out, Dst: local, Proto: refpolicy.ProtoIPIP}, InIface: in, CTState: nfsim.CTNew, DstLocal: true}},
				probe{clause: "d-ipip-from-host", path: pathToHost, skipJudge: true, note: "IPIP from " + otherHost + " via " + in,
					pkt: nfsim.Packet{Packet: refpolicy.Packet{IPVersion: 4, Src: oh, Dst: local, Proto: refpolicy.ProtoIPIP}, InIface: in, CTState: nfsim.CTNew, DstLocal: true}})
		}
	}
	if vxlanOn {
		for _, in := range []string{"eth0", "eth5"} {
			probes = append(probes,
				probe{clause: "d-vxlan-from-non-host", path: pathToHost, mustDrop: true, note: "VXLAN from " + outsider + " via " + in,
					pkt: nfsim.Packet{Packet: refpolicy.Packet{IPVersion: ipv, Src: out, Dst: local, Proto: refpolicy.ProtoUDP, SrcPort: 40000, DstPort: 4789}, InIface: in, CTState: nfsim.CTNew, DstLocal: true}},
				probe{clause: "d-vxlan-from-host", path: pathToHost, skipJudge: true, note: "VXLAN from " + otherHost + " via " + in,
					pkt: nfsim.Packet{Packet: refpolicy.Packet{IPVersion: ipv, Src: oh, Dst: local, Proto: refpolicy.ProtoUDP, SrcPort: 40000, DstPort: 4789}, InIface: in, CTState: nfsim.CTNew, DstLocal: true}})
		}
	}
	_ = hn

	nontrivial := false
	for _, flavor := range []nfsim.Flavor{nfsim.Iptables, nfsim.NFT} {
		fl := flavor.String()
		nft := flavor == nfsim.NFT
		renderer := rules.NewRenderer(cfg, nft)
		maxLen := iptables.MaxChainNameLength
		if nft {
			maxLen = nftables.MaxChainNameLength
		}
		w := newWorld(flavor, ipv)
		nRules := 0
		upd := func(table string, chains ...*generictables.Chain) {
			for _, ch := range chains {
				if ch != nil {
					nRules += len(ch.Rules)
					w.tbl[table].UpdateChain(ch)
				}
			}
		}
		// IP sets
		ipc := cfg.IPSetConfigV4
		if ipv == 6 {
			ipc = cfg.IPSetConfigV6
		}
		mustSet := func(ms ...string) *refpolicy.IPSet {
			s, err := refpolicy.ParseIPSet(ms)
			if err != nil {
				panic(err)
			}
			return s
		}
		special := map[string]*refpolicy.IPSet{
			rules.IPSetIDAllHostNets:          mustSet(hostNet),
			rules.IPSetIDAllVXLANSourceNets:   mustSet(hostNet),
			rules.IPSetIDThisHostIPs:          mustSet(thisHost),
			rules.IPSetIDDSCPEndpoints:        mustSet(),
			rules.IPSetIDNetworkPools:         mustSet(),
			rules.IPSetIDNATOutgoingMasqPools: mustSet(),
			rules.IPSetIDNoFlowOffload:        mustSet(),
		}
		seenRS := map[*nfsim.Ruleset]bool{}
		for _, t := range []string{"raw", "mangle", "filter"} {
			rs := w.rs[t]
			if seenRS[rs] {
				continue
			}
			seenRS[rs] = true
			nm := func(id string) string {
				n := ipc.NameForMainIPSet(id)
				if nft {
					n = nftables.LegalizeSetName(n)
				}
				return n
			}
			for id, s := range special {
				rs.AddSet(nm(id), s, false)
			}
			for id, s := range sets {
				rs.AddSet(nm(id), s, g.IsIPPortSet(id))
			}
		}
		// static chains + the jumps from the kernel's built-in chains (int_dataplane.go)
		jump := func(target string) []generictables.Rule {
			dr := renderer.(*rules.DefaultRuleRenderer)
			return []generictables.Rule{{Match: dr.NewMatch(), Action: dr.Jump(target)}}
		}
		upd("raw", renderer.StaticRawTableChains(ipv)...)
		upd("raw", &generictables.Chain{Name: rules.ChainRpfSkip})
		w.tbl["raw"].InsertOrAppendRules("PREROUTING", jump(rules.ChainRawPrerouting))
		w.tbl["raw"].InsertOrAppendRules("OUTPUT", jump(rules.ChainRawOutput))
		upd("mangle", renderer.StaticMangleTableChains(ipv)...)
		upd("mangle", renderer.EgressDSCPChain(nil))
		w.tbl["mangle"].InsertOrAppendRules("PREROUTING", jump(rules.ChainManglePrerouting))
		w.tbl["mangle"].InsertOrAppendRules("POSTROUTING", jump(rules.ChainManglePostrouting))
		upd("filter", renderer.StaticFilterTableChains(ipv)...)
		upd("filter", renderer.BlockedCIDRsToIptablesChains([]string{"10.96.0.0/12", "fd00:96::/108"}, ipv)...)
		w.tbl["filter"].InsertOrAppendRules("FORWARD", jump(rules.ChainFilterForward))
		w.tbl["filter"].InsertOrAppendRules("INPUT", jump(rules.ChainFilterInput))
		w.tbl["filter"].InsertOrAppendRules("OUTPUT", jump(rules.ChainFilterOutput))
		w.tbl["filter"].AppendRules("FORWARD", renderer.StaticFilterForwardAppendRules())

		// policies / profiles / groups into the tables that use them
		addLayout := func(l *rulegen.Layout, tables []string, untracked, preDNAT bool) []string {
			var profIDs []string
			for _, t := range l.Tiers {
				for _, p := range t.Policies {
					chains := renderer.PolicyToIptablesChains(polID(p), &proto.Policy{Namespace: p.Namespace, Tier: t.Name,
						InboundRules: p.Inbound, OutboundRules: p.Outbound, Untracked: untracked, PreDnat: preDNAT}, ipv)
					for _, tb := range tables {
						upd(tb, chains...)
					}
				}
			}
			for _, tg := range tierGroups(l) {
				for _, pg := range append(append([]*rules.PolicyGroup(nil), tg.IngressPolicies...), tg.EgressPolicies...) {
					if !pg.ShouldBeInlined() {
						for _, tb := range tables {
							upd(tb, renderer.PolicyGroupToIptablesChains(pg)...)
						}
					}
				}
			}
			for _, p := range l.Profiles {
				in, out := renderer.ProfileToIptablesChains(&types.ProfileID{Name: p.Name}, &proto.Profile{InboundRules: p.Inbound, OutboundRules: p.Outbound}, ipv)
				for _, tb := range tables {
					upd(tb, in, out)
				}
				profIDs = append(profIDs, p.Name)
			}
			return profIDs
		}
		// workloads
		eps := map[types.WorkloadEndpointID]*proto.WorkloadEndpoint{}
		for i, wl := range wls {
			profs := addLayout(wl.layout, []string{"filter"}, false, false)
			upd("filter", renderer.WorkloadEndpointToIptablesChains(wl.iface, nil, true, tierGroups(wl.layout), profs, nil)...)
			eps[types.WorkloadEndpointID{OrchestratorId: "k8s", WorkloadId: fmt.Sprintf("ns/pod-%d", i), EndpointId: "eth0"}] = &proto.WorkloadEndpoint{Name: wl.iface}
		}
		upd("filter", renderer.WorkloadDispatchChains(eps)...)
		if nft {
			from, to := renderer.DispatchMappings(eps)
			w.tbl["filter"].AddOrReplaceMap(nftables.MapMetadata{Name: rules.NftablesFromWorkloadDispatchMap, Type: nftables.MapTypeInterfaceMatch}, from)
			w.tbl["filter"].AddOrReplaceMap(nftables.MapMetadata{Name: rules.NftablesToWorkloadDispatchMap, Type: nftables.MapTypeInterfaceMatch}, to)
		}
		// host endpoints
		hepMap, hepRaw, hepPre := map[string]types.HostEndpointID{}, map[string]types.HostEndpointID{}, map[string]types.HostEndpointID{}
		defaultIface := ""
		for i, h := range heps {
			id := types.HostEndpointID{EndpointId: fmt.Sprintf("hep-%d", i)}
			profs := addLayout(h.normal, []string{"mangle", "filter"}, false, false)
			addLayout(h.forward, []string{"filter"}, false, false)
			addLayout(h.preDNAT, []string{"mangle"}, false, true)
			upd("filter", renderer.HostEndpointToFilterChains(h.iface, tierGroups(h.normal), tierGroups(h.forward), nil, profs)...)
			upd("mangle", renderer.HostEndpointToMangleEgressChains(h.iface, tierGroups(h.normal), profs)...)
			upd("mangle", renderer.HostEndpointToMangleIngressChains(h.iface, tierGroups(h.preDNAT))...)
			if h.iface == allIfaces {
				defaultIface = allIfaces
				continue
			}
			addLayout(h.untracked, []string{"raw"}, true, false)
			upd("raw", renderer.HostEndpointToRawChains(h.iface, tierGroups(h.untracked))...)
			hepMap[h.iface], hepRaw[h.iface], hepPre[h.iface] = id, id, id
		}
		upd("raw", renderer.HostDispatchChains(hepRaw, "", false)...)
		upd("filter", renderer.HostDispatchChains(hepMap, defaultIface, true)...)
		upd("mangle", renderer.FromHostDispatchChains(hepPre, defaultIface)...)
		upd("mangle", renderer.ToHostDispatchChains(hepMap, defaultIface)...)
		c.Count("rules_rendered_"+fl, int64(nRules))
		c.Count("configs_"+fl, 1)

		detail := func(extra map[string]any) map[string]any {
			d := map[string]any{"renderer": fl, "ipVersion": ipv, "workload_prefixes": wlPrefixes, "failsafe_in": fsIn, "failsafe_out": fsOut,
				"endpoint_to_host_action": e2h, "ipip": cfg.IPIPEnabled, "vxlan": vxlanOn, "filter_allow": cfg.FilterAllowAction, "mangle_allow": cfg.MangleAllowAction,
				"reject": reject, "host_endpoints": names}
			var wn []string
			for _, wl := range wls {
				wn = append(wn, wl.iface)
			}
			d["workloads"] = wn
			for k, v := range extra {
				d[k] = v
			}
			return d
		}
		for _, t := range []string{"raw", "mangle", "filter"} {
			if err := w.rs[t].Err(); err != nil {
				if nfsim.IsRejected(err) {
					class := "unknown"
					var ne *nfsim.Error
					if errors.As(err, &ne) && ne.Class != "" {
						class = ne.Class
					}
					c.Violationf("rejected:"+class+":"+fl, detail(map[string]any{"table": t, "error": err.Error()}), "%s %s table: the rendered chains would be refused at load time: %v", fl, t, err)
					return
				}
				harnessError(c, err)
				return
			}
		}

		cWl := map[int]int{}
		for _, ci := range cIdx {
			cWl[ci.idx] = ci.wl
		}
		for pi, pr := range probes {
			wr, err := w.walk(pr.path, pr.pkt)
			if err != nil {
				if nfsim.IsUnparsed(err) {
					harnessError(c, err)
					return
				}
				c.Violationf("walk-error:"+fl, detail(map[string]any{"probe": pr.note, "error": err.Error()}), "%s: %v", fl, err)
				return
			}
			c.Count("packets_"+fl, 1)
			c.Count("clause_"+pr.clause, 1)
			bad := ""
			why := ""
			switch {
			case pr.skipJudge:
				if wr.dropped {
					c.Count("unjudged_dropped_"+pr.clause, 1)
				}
			case pr.mustPass:
				nontrivial = true
				if wr.dropped {
					bad = "failsafe-traffic-dropped"
				}
			case pr.mustDrop:
				if !wr.dropped {
					bad = strings.SplitN(pr.clause, "-", 2)[1] + "-not-dropped"
				}
			case pr.clause == "c-workload-to-host":
				wl := wls[cWl[pi]]
				d := refpolicy.Endpoint(wl.layout.Ref(), refpolicy.Egress, refpolicy.KindNormal, &pr.pkt.Packet, sets)
				why = d.String()
				if d.Ambiguous {
					break
				}
				c.Count("c_ref_"+d.Verdict.String(), 1)
				switch {
				case d.Verdict == refpolicy.Denied:
					if !wr.dropped {
						bad = "workload-to-host-not-stopped-by-egress-policy"
					} else if wr.where != "filter/INPUT" && !wildcardPreDNAT {
						bad = "workload-to-host-dropped-in-the-wrong-place"
					}
				case wildcardPreDNAT:
					c.Count("c_allowed_not_judged_wildcard_prednat", 1)
				default:
					nontrivial = true
					switch e2h {
					case "DROP":
						if !wr.dropped || wr.rejected {
							bad = "endpoint-to-host-action-DROP-not-applied"
						}
					case "REJECT":
						if !wr.rejected {
							bad = "endpoint-to-host-action-REJECT-not-applied"
						}
					case "ACCEPT":
						if wr.dropped || wr.last.Verdict != nfsim.Accept {
							bad = "endpoint-to-host-action-ACCEPT-not-applied"
						}
					default:
						if wr.dropped || wr.last.Verdict != nfsim.FellThrough {
							bad = "endpoint-to-host-action-RETURN-not-applied"
						}
					}
				}
			}
			if bad != "" && pr.clause == "b-unknown-workload-forwarded" && wildcard && cfg.FilterAllowAction != "RETURN" &&
				(pr.pkt.CTState == nfsim.CTEstablished || pr.pkt.CTState == nfsim.CTRelated) {
				// FINDING (see keyWildcardEstablished): only the exact situation qualifies.
				fr := wr.perHook["filter/FORWARD"]
				wildChain := w.pfx["filter"] + rules.EndpointChainName(rules.HostFromEndpointForwardPfx, allIfaces, maxLen)
				if fr != nil && fr.Verdict == nfsim.Accept && len(fr.Trace) > 0 && fr.Trace[len(fr.Trace)-1].Chain == wildChain {
					c.Count("finding_wildcard_established", 1)
					if emitKnown(keyWildcardEstablished) {
						c.Violationf(keyWildcardEstablished, detail(map[string]any{"clause": pr.clause, "probe": pr.note, "packet": pr.pkt.Packet.String(),
							"in_iface": pr.pkt.InIface, "out_iface": pr.pkt.OutIface, "walk": wr.trace}),
							"%s v%d: an ESTABLISHED packet arriving from the unknown workload-prefixed interface %q is ACCEPTed by the conntrack rule of the wildcard host endpoint's forward chain %s before the workload dispatch chain can drop it",
							fl, ipv, pr.pkt.InIface, wildChain)
					}
					continue
				}
			}
			if bad != "" {
				var dump strings.Builder
				for _, h := range pr.path {
					if wr.lastHook == h.table+"/"+h.chain {
						for _, n := range wr.last.ChainsVisited() {
							dump.WriteString(w.rs[h.table].DumpChain(n))
						}
					}
				}
				c.Violationf(bad+":"+fl, detail(map[string]any{"clause": pr.clause, "probe": pr.note, "packet": pr.pkt.Packet.String(),
					"in_iface": pr.pkt.InIface, "out_iface": pr.pkt.OutIface, "ctstate": int(pr.pkt.CTState), "reference": why,
					"observed": map[string]any{"dropped": wr.dropped, "rejected": wr.rejected, "where": wr.where, "last_hook": wr.lastHook, "last_verdict": wr.last.Verdict.String()},
					"walk":     wr.trace, "chains_of_last_hook": dump.String()}),
					"%s v%d clause %s (%s): packet %s in=%q out=%q: dropped=%v at %q, last hook %s verdict %s; reference: %s",
					fl, ipv, pr.clause, pr.note, pr.pkt.Packet, pr.pkt.InIface, pr.pkt.OutIface, wr.dropped, wr.where, wr.lastHook, wr.last.Verdict, why)
				return
			}
		}
	}
	if nontrivial {
		c.NonTrivial(fmt.Sprint(fsIn), fmt.Sprint(fsOut), e2h, ipv, cfg.IPIPEnabled, vxlanOn, len(wls), names, c.Index)
	}
	c.Distinct("config_shapes", len(fsIn), len(fsOut), e2h, ipv, ipipOn, vxlanOn, wildcard, len(hepIfaces), cfg.FilterAllowAction, cfg.MangleAllowAction, reject)
	if c.Index < 5 {
		c.Sample(map[string]any{"failsafe_in": fsIn, "failsafe_out": fsOut, "endpoint_to_host": e2h, "ipv": ipv, "ipip": ipipOn, "vxlan": vxlanOn, "host_endpoints": names, "probes": len(probes)})
	}
}

func tierFromArgs() string {
	for i, a := range os.Args {
		for _, p := range []string{"-tier=", "--tier="} {
			if strings.HasPrefix(a, p) {
				return a[len(p):]
			}
		}
		if (a == "-tier" || a == "--tier") && i+1 < len(os.Args) {
			return os.Args[i+1]
		}
	}
	return "quick"
}

func cases(tier string) int {
	if tier == "thorough" {
		return 15000
	}
	return 400
}

func main() {
	logrus.SetOutput(io.Discard)
	logrus.SetLevel(logrus.PanicLevel)
	harness.Main(harness.Check{
		ID:    "C40",
		Level: "exploration",
		Rule: "one node configuration per case: 0-4 inbound and 0-4 outbound failsafe ports (tcp/udp, optional CIDR of either family), DefaultEndpointToHostAction DROP/RETURN/ACCEPT/REJECT, IPIP and VXLAN on/off, filter/mangle allow actions, DROP/REJECT, IPv4/IPv6, both renderers; " +
			"1-2 workloads with generated policy, 1-2 named host endpoints and an optional wildcard host endpoint, each with normal / apply-on-forward / untracked / pre-DNAT policy that is empty, deny-all or generated; " +
			"all static, dispatch, endpoint, policy and profile chains rendered and walked in kernel hook order; probes per clause: failsafe packets and their responses on every host endpoint, unknown workload-prefixed interfaces (input and forward, NEW and ESTABLISHED), ~20 packets per workload to the host, tunnel packets from non-hosts; " +
			"non-trivial = at least one failsafe probe or one workload-to-host packet allowed by the reference was judged; distinct by configuration",
		Assumptions: []string{
			"internal/nfsim walks the rendered text; the hook order, 'ACCEPT or end of a built-in chain = next hook', the mark carried between hooks and UNTRACKED after NOTRACK are modelled by the check as the kernel does",
			"the built-in chains contain only Felix's own jump rules as int_dataplane.go installs them (InsertOrAppendRules at the top, AppendRules at the end of FORWARD); no other software's rules",
			"addrtype LOCAL, rpfilter and conntrack state are inputs of the packet model (to-the-host packets have a local destination, RPF passes)",
			"internal/refpolicy.Endpoint gives the workload egress verdict for clause (c); only simple rules and no profile pass rules are used (C08/C09 cover those and their known findings)",
		},
		Cases: cases,
		Run:   run,
		Floors: map[string]int64{
			okCounter:                             int64(cases(tierFromArgs())),
			"rules_rendered_iptables":             20000,
			"rules_rendered_nft":                  20000,
			"packets_iptables":                    3000,
			"packets_nft":                         3000,
			"clause_a-inbound-failsafe":           200,
			"clause_a-outbound-failsafe":          200,
			"clause_a-inbound-failsafe-response":  200,
			"clause_a-outbound-failsafe-response": 200,
			"clause_b-unknown-workload-to-host":   400,
			"clause_b-unknown-workload-forwarded": 400,
			"clause_c-workload-to-host":           2000,
			"c_ref_allowed":                       300,
			"c_ref_denied":                        500,
			"clause_d-ipip-from-non-host":         50,
			"clause_d-vxlan-from-non-host":        50,
		},
	})
}

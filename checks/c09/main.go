// C09 — endpoint verdicts follow tier, pass, staged and profile semantics.
//
// Real code driven: rules.NewRenderer(cfg, nft) and, for one generated layout per case,
// WorkloadEndpointToIptablesChains, HostEndpointToFilterChains (normal + forward chains),
// HostEndpointToRawChains (untracked), HostEndpointToMangleIngressChains (pre-DNAT),
// HostEndpointToMangleEgressChains, PolicyToIptablesChains for every policy,
// ProfileToIptablesChains for every profile, PolicyGroupToIptablesChains for every group that
// is not inlined.  All chains are rendered to text by the real iptables / nftables renderers
// and walked by internal/nfsim from the endpoint chain with a NEW connection's packet.
//
// Oracle: internal/refpolicy.Endpoint (tiers in order; first allow/deny final; pass -> next
// tier; a tier with an enforced policy for the direction that matches nothing denies unless its
// default action is Pass; staged policies never matter; then profiles; anything not allowed is
// denied; untracked / pre-DNAT / forward kinds as documented in refpolicy).
//
//	reference Allowed    the walk must not drop: it ends with the accept mark set (RETURN to the
//	                     caller) or a terminal ACCEPT; untracked: NOTRACK must have been applied
//	reference Denied     DROP (REJECT when FilterDenyAction=REJECT)
//	reference NoVerdict  the walk falls back to the caller with the accept mark clear
//
// The same rule objects are rendered by both renderers and (PRNG) first for the other IP version,
// 15% of the CIDR lists of version-less rules carry an entry of the other family, the reference
// is evaluated on pristine deep copies taken before the first render, and a render that changes
// a rule it was given is reported as render-mutates-input-rule.
//
// Deliberately not checked:
//   - rule-level matching (C08's subject): policies here use rulegen.SimpleRule only, i.e. at
//     most two positive match blocks and never protocol+notProtocol, so that C08's findings do
//     not re-appear here as endpoint-level alarms;
//   - packets of established / related / invalid connections (the conntrack fast path is not in
//     the statement); every packet is evaluated as ctstate NEW;
//   - a "pass" rule matching in a profile while a LATER profile would allow the packet
//     (refpolicy.Decision.Ambiguous: the documentation does not define it);
//   - packets that the from-workload chain drops as VXLAN/IPIP encapsulation when
//     Allow{VXLAN,IPIP}PacketsFromWorkloads is off (separate, documented feature);
//   - an initial mark with the drop bit already set (Felix owns its mark bits; nothing sets the
//     drop bit except immediately before DROP); accept/pass/scratch bits ARE randomised on entry;
//   - which NFLOG/LOG records are produced.
package main

import (
	"errors"
	"fmt"
	"io"
	"os"
	"strings"

	"github.com/sirupsen/logrus"
	googleproto "google.golang.org/protobuf/proto"

	"github.com/projectcalico/calico/felix/generictables"
	"github.com/projectcalico/calico/felix/ipsets"
	"github.com/projectcalico/calico/felix/nftables"
	"github.com/projectcalico/calico/felix/proto"
	"github.com/projectcalico/calico/felix/rules"
	"github.com/projectcalico/calico/felix/types"

	"verif/internal/harness"
	"verif/internal/nfsim"
	"verif/internal/refpolicy"
	"verif/internal/rulegen"
)

const okCounter = "cases_without_harness_error"

func harnessError(c *harness.Case, err error) {
	c.Count(okCounter, -1)
	c.Count("harness_errors", 1)
	fmt.Fprintf(os.Stderr, "HARNESS-ERROR case %d: %v\n", c.Index, err)
	c.Inconclusive("harness-error: nfsim could not parse a rendered rule")
}

func polID(p *rulegen.LPolicy) *types.PolicyID {
	return &types.PolicyID{Name: p.Name, Namespace: p.Namespace, Kind: p.Kind}
}

// tierGroups converts the layout to the renderer's input.
func tierGroups(l *rulegen.Layout) []rules.TierPolicyGroups {
	var out []rules.TierPolicyGroups
	sel := 0
	mk := func(groups [][]*rulegen.LPolicy, dir rules.PolicyDirection) []*rules.PolicyGroup {
		var gs []*rules.PolicyGroup
		for _, g := range groups {
			sel++
			pg := &rules.PolicyGroup{Direction: dir, Selector: fmt.Sprintf("sel == '%d'", sel)}
			for _, p := range g {
				pg.Policies = append(pg.Policies, polID(p))
			}
			gs = append(gs, pg)
		}
		return gs
	}
	for _, t := range l.Tiers {
		out = append(out, rules.TierPolicyGroups{Name: t.Name, DefaultAction: t.DefaultAction,
			IngressPolicies: mk(t.IngressGroups, rules.PolicyDirectionInbound),
			EgressPolicies:  mk(t.EgressGroups, rules.PolicyDirectionOutbound)})
	}
	return out
}

// Key of the finding recorded in /verif/known_findings.json; emitted ONLY for the exact failing
// situation (see passBitLeakVerdict), at most a few times per worker (the harness keeps 50
// violation records per worker) and counted every time (known_pass_bit_leak).
const keyPassLeak = "profiles:pass-bit-not-cleared-before-profile-chains"

var knownEmitted = map[string]int{}

func emitKnown(key string) bool {
	knownEmitted[key]++
	return knownEmitted[key] <= 4
}

// passBitLeakVerdict models the known finding: endpointIptablesChain clears the pass mark at
// the start of every tier but not before the profile chains.  When the tiers end because a
// pass RULE matched in the last tier that has policies for the direction, the profile chains
// are entered with the pass mark set; a pass-action rule in a profile renders
// [match -> set pass][pass set -> RETURN] and the second rule then fires whether or not the
// rule matched, so the profile is cut off at its first pass-action rule.  ok is true only when
// the pass mark is set on entry to the profiles; verdict is what the chains then produce.
func passBitLeakVerdict(ep *refpolicy.EndpointPolicy, dir refpolicy.Direction, p *refpolicy.Packet, sets refpolicy.IPSets) (refpolicy.Verdict, bool) {
	passBit := false
	for _, t := range ep.Tiers {
		pols := t.Ingress
		if dir == refpolicy.Egress {
			pols = t.Egress
		}
		if len(pols) == 0 {
			continue
		}
		passBit = false
		enforced := 0
	policies:
		for _, pol := range pols {
			if pol.Staged {
				continue
			}
			enforced++
			rl := pol.Inbound
			if dir == refpolicy.Egress {
				rl = pol.Outbound
			}
			switch refpolicy.EvalRules(rl, p, sets).Action {
			case refpolicy.Allow, refpolicy.Deny:
				return 0, false // decided in the tiers: profiles not reached
			case refpolicy.Pass:
				passBit = true
				break policies
			}
		}
		if !passBit && enforced > 0 && !strings.EqualFold(t.DefaultAction, "Pass") {
			return 0, false // end-of-tier deny
		}
	}
	if !passBit {
		return 0, false
	}
	for _, pr := range ep.Profiles {
		rl := pr.Inbound
		if dir == refpolicy.Egress {
			rl = pr.Outbound
		}
	rules:
		for _, r := range rl {
			a, _ := refpolicy.ActionOf(r)
			switch a {
			case refpolicy.Pass:
				break rules // pass mark already set: RETURN fires
			case refpolicy.Allow:
				if refpolicy.MatchRule(r, p, sets) {
					return refpolicy.Allowed, true
				}
			case refpolicy.Deny:
				if refpolicy.MatchRule(r, p, sets) {
					return refpolicy.Denied, true
				}
			}
		}
	}
	return refpolicy.Denied, true
}

// mixFamilies inserts a CIDR of the other IP family into some CIDR lists of rules that have no
// explicit ip_version (FilterRuleToIPVersion documents how such rules are handled).
func mixFamilies(c *harness.Case, l *rulegen.Layout, ipv uint8) {
	other := []string{"fd00:77::/64", "2001:db8:5::1/128", "fd00:78:1::/48"}
	if ipv == 6 {
		other = []string{"172.16.5.0/24", "192.0.2.7/32", "10.200.0.0/16"}
	}
	ins := func(l []string) []string {
		if len(l) == 0 || c.R.Intn(100) >= 15 {
			return l
		}
		i := c.R.Intn(len(l) + 1)
		out := append([]string(nil), l[:i]...)
		out = append(out, other[c.R.Intn(len(other))])
		return append(out, l[i:]...)
	}
	for _, r := range l.AllRules() {
		if r.IpVersion != proto.IPVersion_ANY {
			continue
		}
		r.SrcNet, r.DstNet, r.NotSrcNet, r.NotDstNet = ins(r.SrcNet), ins(r.DstNet), ins(r.NotSrcNet), ins(r.NotDstNet)
	}
}

// cloneRef deep-copies every rule of a reference endpoint policy.
func cloneRef(ep *refpolicy.EndpointPolicy) *refpolicy.EndpointPolicy {
	cl := func(rs []*proto.Rule) []*proto.Rule {
		var out []*proto.Rule
		for _, r := range rs {
			out = append(out, googleproto.Clone(r).(*proto.Rule))
		}
		return out
	}
	out := &refpolicy.EndpointPolicy{}
	seen := map[*refpolicy.Policy]*refpolicy.Policy{}
	conv := func(p *refpolicy.Policy) *refpolicy.Policy {
		if q, ok := seen[p]; ok {
			return q
		}
		q := &refpolicy.Policy{Name: p.Name, Staged: p.Staged, Inbound: cl(p.Inbound), Outbound: cl(p.Outbound)}
		seen[p] = q
		return q
	}
	for _, t := range ep.Tiers {
		nt := &refpolicy.Tier{Name: t.Name, DefaultAction: t.DefaultAction}
		for _, p := range t.Ingress {
			nt.Ingress = append(nt.Ingress, conv(p))
		}
		for _, p := range t.Egress {
			nt.Egress = append(nt.Egress, conv(p))
		}
		out.Tiers = append(out.Tiers, nt)
	}
	for _, p := range ep.Profiles {
		out.Profiles = append(out.Profiles, &refpolicy.Profile{Name: p.Name, Inbound: cl(p.Inbound), Outbound: cl(p.Outbound)})
	}
	return out
}

type target struct {
	name  string // what is evaluated, for witnesses
	chain *generictables.Chain
	dir   refpolicy.Direction
	kind  refpolicy.Kind
	ep    *refpolicy.EndpointPolicy
	encap bool // from-workload chain: VXLAN/IPIP encap drop rules may be present
}

func run(c *harness.Case) {
	c.Count(okCounter, 1)
	ipv := uint8(4)
	if c.R.Intn(3) == 0 {
		ipv = 6
	}
	g := rulegen.New(c.R, rulegen.Config{})
	lcfg := rulegen.LayoutConfig{IPVersion: ipv, ComplexRulePct: -1, MaxGroup: 12}
	if c.Thorough() {
		lcfg.MaxTiers, lcfg.MaxRules = 5, 5
	}
	layout := g.Layout(lcfg)
	fwdLayout := &rulegen.Layout{}
	if c.R.Intn(3) != 0 {
		fwdLayout = g.Layout(rulegen.LayoutConfig{IPVersion: ipv, ComplexRulePct: -1, MaxTiers: 2, MaxPolicies: 4, MaxProfiles: -1, NamePrefix: "fwd-"})
	}
	sets := g.IPSets()

	// Some CIDR lists get an entry of the OTHER family (rule without ip_version), and the same
	// rule objects are rendered for the other IP version first (PRNG) and by both renderers, as
	// Felix renders one ActivePolicyUpdate for IPv4 and IPv6.  The reference works on pristine
	// deep copies taken now, before the first render, and rendering must leave its input alone.
	mixFamilies(c, layout, ipv)
	mixFamilies(c, fwdLayout, ipv)
	liveRules := append(layout.AllRules(), fwdLayout.AllRules()...)
	var pristineRules []*proto.Rule
	for _, r := range liveRules {
		pristineRules = append(pristineRules, googleproto.Clone(r).(*proto.Rule))
	}
	ref, fwdRef := cloneRef(layout.Ref()), cloneRef(fwdLayout.Ref())
	otherFamilyFirst := c.R.Intn(2) == 0
	mutationReported := false

	perm := c.R.Perm(32)
	bit := func(i int) uint32 { return 1 << uint(perm[i]) }
	accept, pass, drop, scratch0, scratch1 := bit(0), bit(1), bit(2), bit(3), bit(4)
	endpointMark := bit(5) | bit(6) | bit(7)
	cfg := rules.Config{
		IPSetConfigV4:         ipsets.NewIPVersionConfig(ipsets.IPFamilyV4, "cali", nil, nil),
		IPSetConfigV6:         ipsets.NewIPVersionConfig(ipsets.IPFamilyV6, "cali", nil, nil),
		WorkloadIfacePrefixes: []string{"cali"},
		MarkAccept:            accept, MarkPass: pass, MarkDrop: drop, MarkScratch0: scratch0, MarkScratch1: scratch1,
		MarkEndpoint: endpointMark, MarkNonCaliEndpoint: bit(5),
		FlowLogsEnabled:                c.R.Intn(2) == 0,
		DisableConntrackInvalid:        c.R.Intn(3) == 0,
		AllowVXLANPacketsFromWorkloads: c.R.Intn(2) == 0,
		AllowIPIPPacketsFromWorkloads:  c.R.Intn(2) == 0,
		VXLANPort:                      4789,
	}
	reject := c.R.Intn(4) == 0
	if reject {
		cfg.FilterDenyAction = "REJECT"
	}
	switch c.R.Intn(3) {
	case 0:
		cfg.FilterAllowAction = "RETURN"
	}
	if c.R.Intn(3) == 0 {
		cfg.MangleAllowAction = "RETURN"
	}
	epKind := c.R.Intn(10) // 0-4 workload, 5-6 hep filter, 7 hep raw, 8 hep mangle ingress, 9 hep mangle egress
	var qos *proto.QoSControls
	if epKind <= 4 && c.R.Intn(8) == 0 {
		qos = &proto.QoSControls{IngressPacketRate: 100, IngressPacketBurst: 5, EgressPacketRate: 50, EgressPacketBurst: 7,
			IngressMaxConnections: int64(c.R.Intn(2) * 10), EgressMaxConnections: int64(c.R.Intn(2) * 20)}
	}

	// packets: the small universe plus boundary packets of a few rules
	var pkts []refpolicy.Packet
	for i, n := 0, c.Pick(22, 30); i < n; i++ {
		pkts = append(pkts, g.UniversePacket(ipv))
	}
	all := append(layout.AllRules(), fwdLayout.AllRules()...)
	for i := 0; i < 3 && len(all) > 0; i++ {
		pkts = append(pkts, g.Packets(all[c.R.Intn(len(all))], ipv, 3)...)
	}

	shape := layoutShape(layout)
	nontrivial := false
	adminUp := c.R.Intn(12) != 0
	// context tag for violation keys: does a profile of this endpoint contain a pass rule?
	profileHasPass := false
	for _, p := range layout.Profiles {
		for _, r := range append(append([]*proto.Rule(nil), p.Inbound...), p.Outbound...) {
			if a, _ := refpolicy.ActionOf(r); a == refpolicy.Pass {
				profileHasPass = true
			}
		}
	}
	for _, flavor := range []nfsim.Flavor{nfsim.Iptables, nfsim.NFT} {
		fl := flavor.String()
		renderer := rules.NewRenderer(cfg, flavor == nfsim.NFT)
		rs := nfsim.NewRuleset(flavor, ipv)
		ipc := cfg.IPSetConfigV4
		if ipv == 6 {
			ipc = cfg.IPSetConfigV6
		}
		for sid, s := range sets {
			name := ipc.NameForMainIPSet(sid)
			if flavor == nfsim.NFT {
				name = nftables.LegalizeSetName(name)
			}
			rs.AddSet(name, s, g.IsIPPortSet(sid))
		}
		nRules := 0
		add := func(chains ...*generictables.Chain) {
			for _, ch := range chains {
				if ch != nil {
					nRules += len(ch.Rules)
					_ = rs.AddChain(ch)
				}
			}
		}
		if otherFamilyFirst {
			// the other IP version's policy manager renders the same objects first
			for _, l := range []*rulegen.Layout{layout, fwdLayout} {
				for _, t := range l.Tiers {
					for _, p := range t.Policies {
						renderer.PolicyToIptablesChains(polID(p), &proto.Policy{Namespace: p.Namespace, Tier: t.Name, InboundRules: p.Inbound, OutboundRules: p.Outbound}, 10-ipv)
					}
				}
				for _, p := range l.Profiles {
					renderer.ProfileToIptablesChains(&types.ProfileID{Name: p.Name}, &proto.Profile{InboundRules: p.Inbound, OutboundRules: p.Outbound}, 10-ipv)
				}
			}
			c.Count("other_family_rendered_first_"+fl, 1)
		}
		// policies, profiles and groups of both layouts
		var profIDs []string
		for li, l := range []*rulegen.Layout{layout, fwdLayout} {
			for _, t := range l.Tiers {
				for _, p := range t.Policies {
					add(renderer.PolicyToIptablesChains(polID(p), &proto.Policy{Namespace: p.Namespace, Tier: t.Name,
						InboundRules: p.Inbound, OutboundRules: p.Outbound, Untracked: epKind == 7, PreDnat: epKind == 8}, ipv)...)
				}
			}
			for _, tg := range tierGroups(l) {
				for _, pg := range append(append([]*rules.PolicyGroup(nil), tg.IngressPolicies...), tg.EgressPolicies...) {
					if !pg.ShouldBeInlined() {
						add(renderer.PolicyGroupToIptablesChains(pg)...)
						c.Count("group_chains_"+fl, 1)
					} else {
						c.Count("groups_inlined_"+fl, 1)
					}
				}
			}
			if li == 0 {
				for _, p := range l.Profiles {
					in, out := renderer.ProfileToIptablesChains(&types.ProfileID{Name: p.Name}, &proto.Profile{InboundRules: p.Inbound, OutboundRules: p.Outbound}, ipv)
					add(in, out)
					profIDs = append(profIDs, p.Name)
				}
			}
		}
		// failsafe chains referenced by host endpoint chains (empty port lists here: C40 covers them)
		var static []*generictables.Chain
		switch epKind {
		case 7:
			static = renderer.StaticRawTableChains(ipv)
		case 8, 9:
			static = renderer.StaticMangleTableChains(ipv)
		default:
			static = renderer.StaticFilterTableChains(ipv)
		}
		for _, ch := range static {
			if ch.Name == rules.ChainFailsafeIn || ch.Name == rules.ChainFailsafeOut {
				add(ch)
			}
		}

		if !mutationReported {
			for i, r := range liveRules {
				if !googleproto.Equal(r, pristineRules[i]) {
					mutationReported = true
					c.Violationf("render-mutates-input-rule", map[string]any{"renderer": fl, "ipVersion": ipv, "other_family_first": otherFamilyFirst,
						"rule_before": pristineRules[i].String(), "rule_after": r.String()},
						"%s v%d: rendering the policy/profile chains changed a proto.Rule it was given: before %s, after %s", fl, ipv, pristineRules[i], r)
					break
				}
			}
		}
		tiers, fwdTiers := tierGroups(layout), tierGroups(fwdLayout)
		noProf := &refpolicy.EndpointPolicy{Tiers: ref.Tiers}
		var targets []target
		switch {
		case epKind <= 4:
			chains := renderer.WorkloadEndpointToIptablesChains("cali12345ab", nil, adminUp, tiers, profIDs, qos)
			add(chains...)
			if !adminUp {
				// admin-down: everything is dropped, whatever the policy
				down := &refpolicy.EndpointPolicy{}
				targets = append(targets, target{"workload(admin down) to-endpoint", chains[0], refpolicy.Ingress, refpolicy.KindNormal, down, false},
					target{"workload(admin down) from-endpoint", chains[1], refpolicy.Egress, refpolicy.KindNormal, down, false})
			} else {
				targets = append(targets, target{"workload to-endpoint (ingress)", chains[0], refpolicy.Ingress, refpolicy.KindNormal, ref, false},
					target{"workload from-endpoint (egress)", chains[1], refpolicy.Egress, refpolicy.KindNormal, ref, true})
			}
		case epKind <= 6:
			chains := renderer.HostEndpointToFilterChains("eth0", tiers, fwdTiers, nil, profIDs)
			add(chains...)
			targets = append(targets,
				target{"host endpoint to-host-endpoint (egress, normal)", chains[0], refpolicy.Egress, refpolicy.KindNormal, ref, false},
				target{"host endpoint from-host-endpoint (ingress, normal)", chains[1], refpolicy.Ingress, refpolicy.KindNormal, ref, false},
				target{"host endpoint to-hep-forward (egress, forward)", chains[2], refpolicy.Egress, refpolicy.KindForward, fwdRef, false},
				target{"host endpoint from-hep-forward (ingress, forward)", chains[3], refpolicy.Ingress, refpolicy.KindForward, fwdRef, false})
		case epKind == 7:
			chains := renderer.HostEndpointToRawChains("eth0", tiers)
			add(chains...)
			targets = append(targets,
				target{"host endpoint raw to-host-endpoint (egress, untracked)", chains[0], refpolicy.Egress, refpolicy.KindUntracked, noProf, false},
				target{"host endpoint raw from-host-endpoint (ingress, untracked)", chains[1], refpolicy.Ingress, refpolicy.KindUntracked, noProf, false})
		case epKind == 8:
			chains := renderer.HostEndpointToMangleIngressChains("eth0", tiers)
			add(chains...)
			targets = append(targets, target{"host endpoint mangle from-host-endpoint (ingress, pre-DNAT)", chains[0], refpolicy.Ingress, refpolicy.KindPreDNAT, noProf, false})
		default:
			chains := renderer.HostEndpointToMangleEgressChains("eth0", tiers, profIDs)
			add(chains...)
			targets = append(targets, target{"host endpoint mangle to-host-endpoint (egress, normal)", chains[0], refpolicy.Egress, refpolicy.KindNormal, ref, false})
		}
		c.Count("rules_rendered_"+fl, int64(nRules))
		c.Count("layouts_"+fl, 1)

		detail := func(extra map[string]any) map[string]any {
			d := map[string]any{"renderer": fl, "ipVersion": ipv, "layout": layout.Summary(), "forward_layout": fwdLayout.Summary(),
				"marks":    fmt.Sprintf("accept=%#x pass=%#x drop=%#x scratch0=%#x scratch1=%#x", accept, pass, drop, scratch0, scratch1),
				"flowlogs": cfg.FlowLogsEnabled, "reject": reject, "ipsets": g.SetMembers()}
			for k, v := range extra {
				d[k] = v
			}
			return d
		}
		if err := rs.Err(); err != nil {
			if nfsim.IsRejected(err) {
				class := "unknown"
				var ne *nfsim.Error
				if errors.As(err, &ne) && ne.Class != "" {
					class = ne.Class
				}
				c.Violationf("rejected:"+class+":"+fl, detail(map[string]any{"error": err.Error(), "rendered": rs.Dump()}),
					"%s v%d: the rendered chains would be refused at load time: %v", fl, ipv, err)
				continue
			}
			harnessError(c, err)
			return
		}

		for _, tg := range targets {
			for _, p := range pkts {
				if tg.encap && ((!cfg.AllowVXLANPacketsFromWorkloads && p.Proto == refpolicy.ProtoUDP && p.DstPort == 4789) ||
					(!cfg.AllowIPIPPacketsFromWorkloads && p.Proto == refpolicy.ProtoIPIP)) {
					continue
				}
				d := refpolicy.Endpoint(tg.ep, tg.dir, tg.kind, &p, sets)
				if d.Ambiguous {
					c.Count("ambiguous_skipped", 1)
					continue
				}
				pkt := &nfsim.Packet{Packet: p, CTState: nfsim.CTNew, InIface: "cali12345ab", OutIface: "eth0", TCPSyn: true}
				pkt.Mark = c.R.Uint32() &^ drop
				res, err := rs.Run(tg.chain.Name, pkt)
				if err != nil {
					if nfsim.IsUnparsed(err) {
						harnessError(c, err)
						return
					}
					c.Violationf("walk-error:"+fl, detail(map[string]any{"error": err.Error(), "rendered": rs.Dump()}), "%s: %v", fl, err)
					return
				}
				c.Count("packets_"+fl, 1)
				c.Count("ref_"+d.Verdict.String()+"_"+fl, 1)
				c.Count("why_"+d.Why, 1)
				var got refpolicy.Verdict
				switch res.Verdict {
				case nfsim.Drop, nfsim.Reject:
					got = refpolicy.Denied
				case nfsim.Accept:
					got = refpolicy.Allowed
				default:
					if res.Mark&accept != 0 {
						got = refpolicy.Allowed
					} else {
						got = refpolicy.NoVerdict
					}
				}
				bad := ""
				switch {
				case got != d.Verdict:
					bad = fmt.Sprintf("verdict-%s-want-%s", got, d.Verdict)
				case d.Verdict == refpolicy.Denied && reject != (res.Verdict == nfsim.Reject):
					bad = "deny-action-not-as-configured"
				case d.Verdict == refpolicy.Allowed && tg.kind == refpolicy.KindUntracked && !res.NoTrack:
					bad = "untracked-allow-without-notrack"
				}
				if d.Why == "policy" || d.Why == "profile" || d.Why == "end-of-tier" {
					nontrivial = true
				}
				if bad != "" && tg.kind == refpolicy.KindNormal && got != d.Verdict {
					// KNOWN FINDING?  Only the exact pass-bit-leak situation qualifies.
					if leak, ok := passBitLeakVerdict(tg.ep, tg.dir, &p, sets); ok && leak == got {
						c.Count("known_pass_bit_leak", 1)
						if emitKnown(keyPassLeak) {
							var chains strings.Builder
							for _, n := range res.ChainsVisited() {
								chains.WriteString(rs.DumpChain(n))
							}
							c.Violationf(keyPassLeak, detail(map[string]any{
								"target": tg.name, "packet": p.String(), "reference": d.String(), "observed": got.String(),
								"trace": res.TraceString(), "chains_visited": chains.String()}),
								"%s v%d %s: the last tier ended with a pass rule, so the profile chains are entered with the pass mark set and each profile is cut off at its first pass-action rule: reference %s, rendered chains %s for packet %s",
								fl, ipv, tg.name, d, got, p)
						}
						continue
					}
				}
				if bad != "" {
					if profileHasPass && tg.kind == refpolicy.KindNormal && (d.Why == "profile" || d.Why == "no-profile-match") {
						bad += ":profile-has-pass-rule"
					}
					var chains strings.Builder
					for _, n := range res.ChainsVisited() {
						chains.WriteString(rs.DumpChain(n))
					}
					c.Violationf(bad+":"+tg.kind.String()+":"+fl, detail(map[string]any{
						"target": tg.name, "packet": p.String(), "initial_mark": fmt.Sprintf("%#x", pkt.Mark),
						"reference": d.String(),
						"observed": map[string]any{"verdict": res.Verdict.String(), "returned": res.Returned, "mark": fmt.Sprintf("%#x", res.Mark),
							"accept_bit": res.Mark&accept != 0, "notrack": res.NoTrack, "trace": res.TraceString()},
						"chains_visited": chains.String()}),
						"%s v%d %s: reference says %s but the rendered chains gave %s (nfsim verdict=%s accept-bit=%v) for packet %s",
						fl, ipv, tg.name, d, got, res.Verdict, res.Mark&accept != 0, p)
					return
				}
			}
		}
	}
	if nontrivial {
		c.NonTrivial(shape, ipv, epKind)
	}
	c.Distinct("layout_shapes", shape)
	if c.Index < 6 {
		c.Sample(map[string]any{"layout": layout.Summary(), "ipVersion": ipv, "endpoint_kind": epKind})
	}
}

// layoutShape: tiers x (default action, per policy: staged?, directions, group sizes) + profiles.
func layoutShape(l *rulegen.Layout) string {
	var b strings.Builder
	for _, t := range l.Tiers {
		fmt.Fprintf(&b, "T%s[", t.DefaultAction[:1])
		for _, p := range t.Policies {
			s := "e"
			if p.Staged {
				s = "s"
			}
			if p.Ingress {
				s += "i"
			}
			if p.Egress {
				s += "o"
			}
			b.WriteString(s + ",")
		}
		b.WriteString("|")
		for _, g := range t.IngressGroups {
			fmt.Fprintf(&b, "%d,", len(g))
		}
		b.WriteString("|")
		for _, g := range t.EgressGroups {
			fmt.Fprintf(&b, "%d,", len(g))
		}
		b.WriteString("]")
	}
	fmt.Fprintf(&b, "P%d", len(l.Profiles))
	return b.String()
}

func tierFromArgs() string {
	for i, a := range os.Args {
		for _, p := range []string{"-tier=", "--tier="} {
			if strings.HasPrefix(a, p) {
				return a[len(p):]
			}
		}
		if (a == "-tier" || a == "--tier") && i+1 < len(os.Args) {
			return os.Args[i+1]
		}
	}
	return "quick"
}

func cases(tier string) int {
	if tier == "thorough" {
		return 60000
	}
	return 1500
}

func main() {
	logrus.SetOutput(io.Discard)
	logrus.SetLevel(logrus.PanicLevel)
	harness.Main(harness.Check{
		ID:    "C09",
		Level: "exploration",
		Rule: "one endpoint layout per case: 0-4 tiers (default action Deny/Pass), 1-12 policies per tier of all kinds (25% staged, sometimes an all-staged tier), ingress/egress applicability, " +
			"a random partition of each direction's policies into groups of 1-12 (inline and own-chain, crossing the return stride of 5), 0-3 profiles, simple rules over a small packet universe; " +
			"rendered as a workload endpoint (50%, sometimes admin-down or with QoS controls) or a host endpoint (filter normal+forward, raw untracked, mangle pre-DNAT, mangle egress), both renderers, IPv4/IPv6, flow logs on/off, DROP/REJECT; " +
			"~30 packets per chain with random accept/pass/scratch mark bits on entry; non-trivial = some packet was decided by a policy rule, a profile rule or an end-of-tier default; distinct by layout shape x IP version x endpoint kind",
		Assumptions: []string{
			"internal/nfsim walks the rendered text with kernel chain semantics (jump/goto/return, mark set/match); trusted interpreter",
			"internal/refpolicy.Endpoint is the reference (written from the documentation); a profile 'pass' followed by a later allowing profile is not judged",
			"rule-level matching is C08's subject: only simple rules (<= 2 positive match blocks, no protocol+notProtocol) are used here",
			"known finding profiles:pass-bit-not-cleared-before-profile-chains is emitted only when the tiers ended through a matching pass rule (pass mark set on entry to the profile chains), the observed verdict differs from the reference and equals the verdict of the model 'every profile is cut off at its first pass-action rule'; emitted at most 4 times per worker, counted every time",
			"failsafe chains are rendered with empty port lists (C40 covers failsafes); conntrack state is NEW for every packet",
		},
		Cases: cases,
		Run:   run,
		Floors: map[string]int64{
			okCounter:                 int64(cases(tierFromArgs())),
			"rules_rendered_iptables": 20000,
			"rules_rendered_nft":      20000,
			"packets_iptables":        5000,
			"packets_nft":             5000,
			"ref_allowed_iptables":    500,
			"ref_denied_iptables":     1000,
			"ref_allowed_nft":         500,
			"ref_denied_nft":          1000,
			"ref_no-verdict_iptables": 50,
			"ref_no-verdict_nft":      50,
			"group_chains_iptables":   300,
			"group_chains_nft":        300,
			"why_policy":              2000,
			"why_end-of-tier":         500,
			"why_profile":             100,
			"why_no-profile-match":    100,
		},
	})
}

// C05 — missing or invalid references fail closed.
//
// Real code driven: the assembled calculation graph of C01 (calc.ValidationFilter in front,
// ActiveRulesCalculator's DummyDropRules stand-in behind), fed histories generated in a mode that
// favours endpoints naming absent profiles, profiles deleted while referenced, late creation and
// valid -> invalid -> valid replacement of profiles, policies, endpoints, network sets.
//
// Oracle:
//
//	(1) invalid == absent, online: the history H and the history H' (the same ops, every value
//	    tagged invalid replaced by a deletion) are run on two real graphs side by side; after EVERY
//	    flush the two shadow dataplanes must be equal.  Because both graphs see the same sequence,
//	    this isolates the treatment of invalid values from any other history effect.  In addition a
//	    fresh graph fed the final state S and one fed S-without-invalid-values must agree.
//	    Histories contain "profile flap" macro-ops: inside one flush window all local endpoints naming
//	    profile P go away, P's rules change validity, the endpoints come back.
//	(2) fail closed: after every post-in-sync flush, for every profile id listed by an emitted local
//	    endpoint: if the delivered datastore state has no valid ProfileRules for it, the emitted
//	    ActiveProfileUpdate rules must deny every probe packet in both directions (reference
//	    evaluator verif/internal/calcgen/denyall.go); if it has, the emitted rules must be the real
//	    ones (same number of rules, same actions in order), i.e. the deny stand-in was replaced;
//	    at the end every profile the dataplane holds must equal (proto.Equal) the one a fresh graph emits.
//
// Validity tags come from the generator and are verified per case against the repo's validators
// (typha/pkg/validator/v1, libcalico-go/lib/validator/v3 and the two workload-endpoint rules of the
// filter, restated in calcgen.SelfCheck) — NOT against calc.ValidationFilter, which is under test.
// A mismatch makes the case inconclusive (and the run a HARNESS-ERROR through the floors).
//
// Deliberately not checked:
//   - what a policy whose Tier resource is missing does (not fixed by the statement);
//   - invalid keys (only values are generated invalid; the validation filter validates values);
//   - history effects unrelated to validity (C01).
package main

import (
	"fmt"
	"sort"
	"strings"
	"time"

	googleproto "google.golang.org/protobuf/proto"

	"github.com/projectcalico/calico/felix/proto"
	"github.com/projectcalico/calico/libcalico-go/lib/backend/model"

	"verif/internal/calcgen"
	"verif/internal/harness"
	"verif/internal/shadowdp"
)

// withoutInvalid returns ops with every invalid value replaced by a deletion.
func withoutInvalid(u *calcgen.Universe, ops []calcgen.Op) ([]calcgen.Op, int) {
	out := make([]calcgen.Op, len(ops))
	n := 0
	for i, op := range ops {
		out[i] = op
		if op.Kind != calcgen.OpUpdates {
			continue
		}
		kvs := make([]calcgen.KV, len(op.KVs))
		for j, kv := range op.KVs {
			kvs[j] = kv
			if kv.Val != calcgen.Absent && !u.Keys[kv.Key].Values[kv.Val].Valid {
				kvs[j].Val = calcgen.Absent
				n++
			}
		}
		out[i].KVs = kvs
	}
	return out, n
}

func actions(rs []*proto.Rule) []string {
	out := make([]string, len(rs))
	for i, r := range rs {
		out[i] = r.Action
	}
	return out
}

func modelActions(rs []model.Rule) []string {
	out := make([]string, len(rs))
	for i, r := range rs {
		out[i] = r.Action
	}
	return out
}

// failClosed judges rule (2) on the shadow against delivered state s.
func failClosed(c *harness.Case, u *calcgen.Universe, s calcgen.State, sh *shadowdp.Shadow) (key, msg string) {
	rules := map[string]*model.ProfileRules{} // valid profile rules by name
	for _, k := range u.KeysOfClass(calcgen.ClassProfileRules) {
		if v := u.EffectiveValue(s, k); v != nil {
			rules[u.Keys[k].Key.(model.ProfileRulesKey).Name] = v.(*model.ProfileRules)
		}
	}
	listed := map[string]string{}
	for id, ep := range sh.State.WEPs {
		for _, p := range ep.ProfileIds {
			listed[p] = "workload endpoint " + id
		}
	}
	for id, ep := range sh.State.HEPs {
		for _, p := range ep.ProfileIds {
			listed[p] = "host endpoint " + id
		}
	}
	names := make([]string, 0, len(listed))
	for p := range listed {
		names = append(names, p)
	}
	sort.Strings(names)
	for _, p := range names {
		by := listed[p]
		emitted, ok := sh.State.Profiles[p]
		if !ok {
			continue // a C02 matter (endpoint references a profile the dataplane lacks)
		}
		if real, valid := rules[p]; valid {
			c.Count("real_profile_judgements", 1)
			if strings.Join(actions(emitted.InboundRules), ",") != strings.Join(modelActions(real.InboundRules), ",") ||
				strings.Join(actions(emitted.OutboundRules), ",") != strings.Join(modelActions(real.OutboundRules), ",") {
				return "real-rules-not-emitted", fmt.Sprintf("profile %q (listed by %s) has valid rules in the datastore (actions in=%v out=%v) but the dataplane holds in=%v out=%v",
					p, by, modelActions(real.InboundRules), modelActions(real.OutboundRules), actions(emitted.InboundRules), actions(emitted.OutboundRules))
			}
			continue
		}
		c.Count("missing_profile_judgements", 1)
		for i, rs := range [][]*proto.Rule{emitted.InboundRules, emitted.OutboundRules} {
			dir := [...]string{"inbound", "outbound"}[i]
			ok, why, err := calcgen.DeniesAll(rs, sh.State.IPSets)
			if err != nil {
				c.Count("deny_all_unknown", 1)
				continue
			}
			if !ok {
				return "missing-profile-not-deny-all", fmt.Sprintf("profile %q (listed by %s) is absent/invalid in the datastore but its emitted %s rules do not deny everything: %s (rules: %v)",
					p, by, dir, why, rs)
			}
		}
	}
	return "", ""
}

func run(c *harness.Case) {
	size := calcgen.Size{ProfileChurn: true, Extra: c.Thorough() && c.Index%2 == 0}
	sc := calcgen.NewScenario(c.R, calcgen.ScenarioOptions{Size: size, MinSteps: 30, MaxSteps: c.Pick(120, 200),
		History: calcgen.HistoryOptions{FlapPercent: 12, Focus: []string{calcgen.ClassProfileRules, calcgen.ClassProfileRules, calcgen.ClassWEP, calcgen.ClassHEP, calcgen.ClassPolicy, calcgen.ClassProfileLabels, calcgen.ClassNetSet}}})
	if err := sc.U.SelfCheck(); err != nil {
		calcgen.Debugf("case %d: %v", c.Index, err)
		c.Inconclusive("generator-tag-mismatch")
		c.Count("generator_tag_mismatch", 1)
		return
	}
	c.Count("histories", 1)
	opsB, nInvalid := withoutInvalid(sc.U, sc.H.Ops)
	c.Count("invalid_values_delivered", int64(nInvalid))

	// Two graphs side by side: A gets the history, B the history with invalid values as deletions.
	shA, shB := shadowdp.New(), shadowdp.New()
	dA := calcgen.NewDriver(sc.U, sc.Graph, func(m any) { shA.OnMessage(m) })
	dB := calcgen.NewDriver(sc.U, sc.Graph, func(m any) { shB.OnMessage(m) })
	reported := map[string]bool{}
	sawMissing := false
	for i, op := range sc.H.Ops {
		dA.Apply(op)
		dB.Apply(opsB[i])
		if op.Kind != calcgen.OpFlush {
			continue
		}
		c.Count("flushes_compared", 1)
		for _, e := range shadowdp.DiffEntries(shA.State, shB.State) {
			key := "invalid-not-absent:" + e.Key()
			if reported[key] {
				continue
			}
			reported[key] = true
			w := sc.Witness()
			w["op_index"] = i
			w["legend"] = "A=graph fed the history, B=graph fed the same history with every invalid value delivered as a deletion"
			w["diff"] = e.Text
			c.Violationf(key, w, "after op %d an invalid value is not treated as absent: %s", i, e.Text)
		}
		if dA.InSync() {
			c.Count("flushes_judged_fail_closed", 1)
			if key, msg := failClosed(c, sc.U, dA.Delivered(), shA); key != "" && !reported[key] {
				reported[key] = true
				w := sc.Witness()
				w["op_index"] = i
				w["delivered_state_at_flush"] = sc.U.DescribeState(dA.Delivered())
				c.Violationf(key, w, "after op %d: %s", i, msg)
			}
			for _, p := range shA.State.Profiles {
				if len(p.InboundRules) == 1 && len(p.OutboundRules) == 1 && p.InboundRules[0].Action == "deny" {
					sawMissing = true
				}
			}
		}
	}
	c.Count("messages_folded", int64(shA.NumMessages+shB.NumMessages))

	// Fresh graphs: final state vs final state with invalid values removed.
	fS := sc.RunFresh(sc.H.Final, nil, false)
	fS2 := sc.RunFresh(sc.U.WithoutInvalid(sc.H.Final), nil, false)
	c.Count("fresh_comparisons", 1)
	for _, e := range shadowdp.DiffEntries(fS.Shadow.State, fS2.Shadow.State) {
		key := "fresh-invalid-not-absent:" + e.Key()
		if reported[key] {
			continue
		}
		reported[key] = true
		w := sc.Witness()
		w["legend"] = "A=fresh graph fed the final state, B=fresh graph fed the final state without its invalid values"
		w["diff"] = e.Text
		c.Violationf(key, w, "a fresh graph treats an invalid value differently from absence: %s", e.Text)
	}

	// The profiles the dataplane holds at the end must be the ones a fresh graph emits for the final
	// state without its invalid values (deny stand-in where the rules are absent/invalid, the real
	// rules, ids included, where they are valid).
	for name, p := range shA.State.Profiles {
		fp, ok := fS2.Shadow.State.Profiles[name]
		if !ok {
			continue
		}
		c.Count("final_profile_comparisons", 1)
		if !googleproto.Equal(p, fp) && !reported["profile-rules-differ-from-fresh"] {
			reported["profile-rules-differ-from-fresh"] = true
			w := sc.Witness()
			w["profile"] = name
			w["after_history"] = fmt.Sprint(p)
			w["fresh"] = fmt.Sprint(fp)
			c.Violationf("profile-rules-differ-from-fresh", w, "profile %q: the dataplane holds %v after the history but a fresh graph fed the final state emits %v", name, p, fp)
		}
	}
	c.Count("batches_profile-flap", int64(sc.H.Distortions["profile-flap"]))

	if nInvalid > 0 && sawMissing {
		c.NonTrivial(shA.State.Summary(), fmt.Sprint(sc.H.Final))
	}
	c.Distinct("final_states", shA.State.Summary(), fmt.Sprint(sc.H.Final))
	if c.Index < 3 {
		c.Sample(map[string]any{"graph": fmt.Sprintf("%+v", sc.Graph), "ops": len(sc.H.Ops), "invalid_values_delivered": nInvalid, "final": shA.State.Summary()})
	}
}

func main() {
	harness.Main(harness.Check{
		ID:    "C05",
		Level: "exploration",
		Rule: "generator of C01 in profile-churn mode (endpoints name 1-3 of 5 profiles or an always-absent one; two invalid candidates per profile-rules and workload-endpoint key, one per policy / host endpoint / network set / profile-labels key; key choice biased to profiles and endpoints); " +
			"non-trivial = the history delivered >=1 invalid value and a deny stand-in profile was in the dataplane at some judged flush; distinct by final state",
		Assumptions: []string{
			"validity tags are the generator's; Universe.SelfCheck verifies each per case against typha/pkg/validator/v1 and libcalico-go/lib/validator/v3 (trusted) plus the two workload-endpoint rules restated from validation_filter.go",
			"deny-all is decided by a small reference evaluator of proto.Rule on a fixed probe-packet set (verif/internal/calcgen/denyall.go); unmodelled criteria => that profile is not judged",
			"shadowdp fold is the observer",
		},
		Cases: func(tier string) int {
			if tier == "thorough" {
				return 5120
			}
			return 256
		},
		Run: run,
		Floors: map[string]int64{"histories": 40, "flushes_compared": 400, "invalid_values_delivered": 300, "missing_profile_judgements": 500,
			"real_profile_judgements": 150, "fresh_comparisons": 30, "batches_profile-flap": 100, "final_profile_comparisons": 50},
		CaseTimeout: 180 * time.Second,
	})
}

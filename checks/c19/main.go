// C19 — IPAM never gives one address to two live allocations.
//
// Real code driven: libcalico-go/lib/ipam (the ipamClient obtained from
// clientv3.NewFromBackend(cfg, casstore client).IPAM()) — AutoAssign, AssignIP, ReleaseIPs,
// ReleaseByHandle, IPsByHandle, ClaimAffinity, ReleaseAffinity, ReleaseHostAffinities,
// ReleasePoolAffinities, RemoveIPAMHost — called by 2–4 logical clients on 2–3 hosts against one
// in-memory compare-and-swap datastore (internal/casstore), with tiny pools (a /28 of /30 blocks
// and a /124 of /126 blocks) so that every operation contends.
//
// A case is one generated scenario (cluster, IPAM config, client scripts).  In scheduled cases
// internal/dsched serialises the clients at datastore-operation granularity (uniform or PCT
// picks from the case PRNG; the decision list is the schedule).  The scenario is run once without
// faults; then it is re-run with the same seed once for EVERY datastore write attempt of that
// run and every applicable fault kind (abort-before, lost-reply, spurious conflict, crash-after)
// injected at that write; then a few more times with random multi-fault plans and fresh
// schedules.  Every eighth case is free-running instead (real goroutine concurrency, random
// faults) for the Go race detector; there every client first allocates 3+3 addresses under one
// handle and releases them in one ReleaseIPs call, so that the call's per-block goroutines really
// run in parallel.
//
// Oracles (all on recorded observations, none re-implements IPAM):
//  1. online, at every committed block write (under the store lock): the written block is
//     well-formed (Unallocated ∪ allocated ordinals is a partition, attribute indexes valid); no
//     address passes from owned(h1) to owned(h2≠h1) in one write; a live allocation disappears only
//     in a write of an operation that asked to release that address or that handle;
//  2. every address returned by AutoAssign/AssignIP was written into its block under the caller's
//     handle by a committed write of that very operation;
//  3. per address, the client-visible history (acquire / observe-owned / release / release-by-handle,
//     with what each call reported) is checked by porcupine against the model free | owned(h);
//     failed calls and calls hit by a fault have unknown outcome, and the latter never return;
//  4. at each quiescent point, every handle that no faulted operation could have touched has a
//     handle record equal to the per-block counts of allocations carrying it.
//
// Deliberately not checked:
//   - which address/block is chosen, partial fulfilment, error texts: a call may fail (retry loops
//     may exhaust) as long as nothing is double-allocated;
//   - leaks caused by injected faults (an allocation written by an operation whose reply was lost
//     stays allocated; its handle record may over- or under-count): such handles are "tainted" and
//     excluded from oracle 4, and the operation stays open in oracle 3;
//   - sequence-number semantics of ReleaseIPs (C21), affinity invariants (C22), pool/limit rules (C20);
//   - IPCooldownSeconds > 0 (C21); HostReservedAttr / Windows paths; MaxAllocToHandlePerIPVersion.
package main

import (
	"math/rand"
	"runtime"
	"time"

	apiv3 "github.com/projectcalico/api/pkg/apis/projectcalico/v3"
	"github.com/sirupsen/logrus"

	"github.com/projectcalico/calico/libcalico-go/lib/ipam"

	"verif/internal/dsched"
	"verif/internal/harness"
	"verif/internal/ipamkit"
)

func genCase(r *rand.Rand, thorough bool) *ipamkit.ConcCase {
	hosts := []string{"host-a", "host-b", "host-c"}[:2+r.Intn(2)]
	cc := &ipamkit.ConcCase{
		Tracker:       ipamkit.TrackerOpts{Structural: true, Ownership: true},
		CheckReturned: true, CheckLin: true, CheckHandles: true,
		SharedPct: 15,
		Shift:     3 * time.Minute,
	}
	for _, h := range hosts {
		cc.Spec.Nodes = append(cc.Spec.Nodes, ipamkit.NodeSpec{Name: h, Labels: map[string]string{"kubernetes.io/hostname": h}})
	}
	uses := []apiv3.IPPoolAllowedUse{apiv3.IPPoolAllowedUseWorkload, apiv3.IPPoolAllowedUseTunnel}
	cc.Spec.Pools = []ipamkit.PoolSpec{
		{Name: "pool4", CIDR: "10.19.0.0/28", BlockSize: 30, AllowedUses: uses},
		{Name: "pool6", CIDR: "fd00:19::/124", BlockSize: 126, AllowedUses: uses},
	}
	if r.Intn(4) == 0 { // even smaller v4 space: two blocks
		cc.Spec.Pools[0].CIDR = "10.19.0.0/29"
	}
	cfg := ipam.IPAMConfig{AutoAllocateBlocks: true}
	if r.Intn(2) == 0 {
		cfg.StrictAffinity = true
		cfg.MaxBlocksPerHost = []int{0, 0, 1, 2, 3}[r.Intn(5)]
	}
	cc.Spec.Config = &cfg
	nc := 2 + r.Intn(3)
	for i := 0; i < nc; i++ {
		cc.ClientHosts = append(cc.ClientHosts, hosts[r.Intn(len(hosts))])
	}
	cc.NOps = 2 + r.Intn(2)
	if thorough {
		cc.NOps = 3 + r.Intn(2)
	}
	cc.Phases = 1
	if r.Intn(3) == 0 {
		cc.Phases = 2
	}
	cc.Weights = ipamkit.Weights{
		ipamkit.KAutoAssign: 38, ipamkit.KAssignIP: 10, ipamkit.KReleaseIPs: 18, ipamkit.KReleaseByHandle: 12,
		ipamkit.KReleaseHostAffinities: 6, ipamkit.KClaimAffinity: 5, ipamkit.KReleaseAffinity: 4,
		ipamkit.KIPsByHandle: 3, ipamkit.KReleasePoolAffinities: 2, ipamkit.KRemoveIPAMHost: 2,
	}
	return cc
}

func run(c *harness.Case) {
	cc := genCase(c.R, c.Thorough())
	d := &ipamkit.Driver{C: c, CC: cc, Seed: c.R.Int63(), Mode: dsched.Uniform, RandomRuns: c.Pick(2, 4), FreeRunning: c.Index%8 == 7, FreeRuns: 3, MultiBlockRelease: true}
	if c.R.Intn(2) == 0 {
		d.Mode, d.Depth = dsched.PCT, 2+c.R.Intn(3)
	}
	c.Sample(map[string]any{"clients": cc.ClientHosts, "config": cc.Spec.Config, "nops": cc.NOps, "phases": cc.Phases, "mode": d.Mode.String(), "pool4": cc.Spec.Pools[0].CIDR})
	d.Run()
}

func main() {
	harness.Main(harness.Check{
		ID:    "C19",
		Level: "fault_enumeration",
		Rule: "case = generated cluster (2-3 hosts, /28 or /29 v4 pool of /30 blocks + /124 v6 pool of /126 blocks, strict or non-strict affinity, block cap) with 2-4 clients running 2-5 random IPAM calls each in 1-2 phases; " +
			"scheduled cases: 1 fault-free run + one re-run per (datastore write attempt x applicable fault kind) + 2-4 random multi-fault runs; every 8th case free-running under -race; " +
			"non-trivial = at least two clients (distinct by schedule)",
		Assumptions: []string{
			"internal/casstore models the datastore: linearizable compare-and-swap KV with etcd-like revisions; faults are abort-before, lost-reply, spurious conflict, crash-after at a datastore call",
			"interleavings are explored at datastore-operation granularity (code between two datastore calls is treated as atomic) in scheduled mode; GOMAXPROCS=1 serialises ReleaseIPs' per-block fan-out",
			"replay is exact except for Go map iteration order inside the code under test (multi-block ReleaseIPs / ReleaseByHandle); the witness carries the full recorded history",
			"porcupine v1.3.0 is trusted as linearizability checker; 20 s timeout per partition -> inconclusive",
		},
		Cases: func(tier string) int {
			if tier == "thorough" {
				return 400
			}
			return 48
		},
		Setup: func(tier string) error {
			logrus.SetLevel(logrus.PanicLevel)
			runtime.GOMAXPROCS(1)
			return nil
		},
		Run:         run,
		CaseTimeout: 600 * time.Second,
		Floors: map[string]int64{
			"runs": 400, "logical_ops": 5000, "committed_writes": 15000, "conflicts_seen": 1000, "conflicts_real": 500,
			"fault_abort-before": 100, "fault_lost-reply": 100, "fault_spurious-conflict": 80, "fault_crash-after": 100,
			"allocations_committed": 3000, "frees_committed": 500, "porcupine_partitions": 5000, "handles_compared": 1000,
			"online_checks": 10000, "free_runs": 5,
		},
	})
}

// C45 — every node elects the same owner for a load-balancer address.
//
// Real code driven: lib/datastructures/hashring.Ring (New with replicas/probes/hash options, Insert,
// Remove with its deferred sweep, Len, Lookup).
//
// Oracle.  The property is relational: the owner is a current member and depends only on the current
// member set.  The monitor keeps the member set in a plain map (key -> last inserted version) and, at
// every lookup point, requires
//   (a) Len() == |map|, found == (|map|>0), and when not found the zero value;
//   (b) the returned value is the *latest* value of a key that is in the map (current member, no
//       stale value after re-insert);
//   (c) the same key looked up on rings of the same configuration built *fresh* from the map — once in
//       sorted order, once in a shuffled order, once through a "noisy" history (extra members inserted
//       and removed, members removed and re-inserted before any lookup) — returns the same owner.
//       The fresh ring is the statement's own reference point ("compared with a ring built fresh from
//       the final set"); it is the same code but a different execution, which is what history
//       independence means.
// An independent 40-line reference ring written here (sorted (hash,key) slice, nearest clockwise
// virtual node over all probes) is evaluated as well; its agreement is *recorded* in the counters
// model_agree/model_disagree and NOT judged, because the statement does not fix the placement rule.
//
// Hostility: besides the default XXH3 hash, deliberately weak deterministic hashes (6..12 bit) are
// supplied through WithHash so that virtual nodes of different members collide, probes land exactly
// on virtual nodes and wrap around the end of the ring; member names include prefixes of each other;
// lookups are interleaved with 0..6 mutations so the sweep runs in every state (pending deletes,
// pending deletes re-inserted, unsorted appended entries).
//
// Deliberately not checked
//   - which member owns a key (placement rule, balance, ~1/N movement): recorded only;
//   - concurrent use (documented as not safe for concurrent use);
//   - keys containing NUL bytes (host names cannot contain them; the salt encoding separates with NUL).
package main

import (
	"encoding/binary"
	"fmt"
	"hash/fnv"
	"sort"

	"github.com/zeebo/xxh3"

	"github.com/projectcalico/calico/lib/datastructures/hashring"

	"verif/internal/harness"
)

type val struct {
	Name string
	Ver  int
}

type hashKind struct {
	name string
	fn   hashring.Hash // nil = package default
	ref  func([]byte) uint64
}

func weak(bits uint, useFnv bool) func([]byte) uint64 {
	return func(b []byte) uint64 {
		var h uint64
		if useFnv {
			f := fnv.New64a()
			f.Write(b)
			h = f.Sum64()
		} else {
			h = xxh3.Hash(b)
		}
		// spread the few surviving bits over the whole 64-bit circle so wrap-around happens
		return (h & ((1 << bits) - 1)) << (64 - bits)
	}
}

func hashes() []hashKind {
	w6, w8, w12 := weak(6, false), weak(8, true), weak(12, false)
	low := func(b []byte) uint64 { return xxh3.Hash(b) & 0xff } // everything at the start of the circle
	return []hashKind{
		{"default-xxh3", nil, xxh3.Hash},
		{"default-xxh3", nil, xxh3.Hash},
		{"xxh3-explicit", xxh3.Hash, xxh3.Hash},
		{"weak6", w6, w6},
		{"weak8-fnv", w8, w8},
		{"weak12", w12, w12},
		{"low8", low, low},
	}
}

var names = []string{"node-1", "node-10", "node-100", "node-2", "n", "no", "node-a.example.com", "node-b.example.com",
	"ip-10-0-0-1", "ip-10-0-0-11", "worker", "worker-0", "kind-control-plane", "x"}

type cfg struct {
	replicas, probes int
	h                hashKind
}

func newRing(c cfg) *hashring.Ring[val] {
	opts := []hashring.Option{hashring.WithReplicas(c.replicas), hashring.WithProbes(c.probes)}
	if c.h.fn != nil {
		opts = append(opts, hashring.WithHash(c.h.fn))
	}
	if c.replicas == 1 && c.probes == 1 && c.h.fn == nil {
		return hashring.New[val]() // all defaults
	}
	return hashring.New[val](opts...)
}

// ---- independent reference ring (recorded, not judged)

type refEntry struct {
	h uint64
	k string
}

func salted(h func([]byte) uint64, key string, i int) uint64 {
	b := append([]byte(key), 0)
	var idx [4]byte
	binary.LittleEndian.PutUint32(idx[:], uint32(i))
	return h(append(b, idx[:]...))
}

func refEntries(c cfg, members []string) []refEntry {
	var es []refEntry
	for _, m := range members {
		for i := 0; i < c.replicas; i++ {
			es = append(es, refEntry{salted(c.h.ref, m, i), m})
		}
	}
	sort.Slice(es, func(i, j int) bool {
		if es[i].h != es[j].h {
			return es[i].h < es[j].h
		}
		return es[i].k < es[j].k
	})
	return es
}

func refOwner(c cfg, es []refEntry, key string) string {
	best := ^uint64(0)
	owner := es[0].k
	for p := 0; p < c.probes; p++ {
		probe := salted(c.h.ref, key, p)
		idx := sort.Search(len(es), func(i int) bool { return es[i].h >= probe })
		if idx == len(es) {
			idx = 0
		}
		if d := es[idx].h - probe; d < best {
			best, owner = d, es[idx].k
		}
	}
	return owner
}

// ---- the run

func run(c *harness.Case) {
	R := c.R
	hs := hashes()
	var cf cfg
	switch c.Index % 8 {
	case 0:
		cf = cfg{100, 1, hs[0]} // production setting (proxy_neigh_mgr.go)
	case 1:
		cf = cfg{1, 1, hs[R.Intn(len(hs))]}
	case 2:
		cf = cfg{1, 21, hs[R.Intn(len(hs))]}
	case 3:
		cf = cfg{10, 10, hs[R.Intn(len(hs))]}
	case 4:
		cf = cfg{100, 1, hs[3+R.Intn(len(hs)-3)]} // production replicas, colliding hash
	default:
		cf = cfg{1 + R.Intn(6), 1 + R.Intn(5), hs[R.Intn(len(hs))]}
	}
	universe := append([]string(nil), names...)
	R.Shuffle(len(universe), func(i, j int) { universe[i], universe[j] = universe[j], universe[i] })
	universe = universe[:4+R.Intn(len(universe)-3)]
	// big clusters: the production replica count with 20..60 nodes (tables of several thousand virtual
	// nodes, where size-dependent code paths such as incremental sorting would kick in)
	big := c.Index%8 == 0 || (c.Thorough() && R.Intn(4) == 0)
	if big {
		universe = append([]string(nil), names...)
		for i, n := 0, 10+R.Intn(50); i < n; i++ {
			universe = append(universe, fmt.Sprintf("big-%d", i))
		}
	}

	ring := newRing(cf)
	model := map[string]int{}
	var ops []string
	serial := 0
	detail := func() map[string]any {
		o := ops
		if len(o) > 120 {
			o = o[len(o)-120:]
		}
		return map[string]any{"replicas": cf.replicas, "probes": cf.probes, "hash": cf.h.name, "ops": o, "members": members(model)}
	}
	lookupKeys := func(n int) []string {
		ks := make([]string, 0, n)
		for i := 0; i < n; i++ {
			switch R.Intn(5) {
			case 0:
				ks = append(ks, universe[R.Intn(len(universe))])
			case 1:
				ks = append(ks, fmt.Sprintf("fd00::%x", R.Intn(4096)))
			default:
				ks = append(ks, fmt.Sprintf("10.%d.%d.%d", R.Intn(3), R.Intn(4), R.Intn(256)))
			}
		}
		return ks
	}

	mutations, lookups, removedThenReinserted, sweeps := 0, 0, 0, 0
	if big {
		// the cluster is learned in bulk, then one lookup sorts the table; churn follows in small batches
		for _, k := range universe {
			if R.Intn(10) < 8 {
				serial++
				ring.Insert(k, val{k, serial})
				model[k] = serial
				ops = append(ops, fmt.Sprintf("insert %s v%d", k, serial))
				c.Count("inserts", 1)
			}
		}
		if v, ok := ring.Lookup("warm-up"); !ok || model[v.Name] != v.Ver {
			c.Violationf("owner-not-member", detail(), "Lookup after bulk insert returned %+v,%v", v, ok)
			return
		}
		c.Count("big_cluster_cases", 1)
	}
	pendingRemoved := map[string]bool{} // removed since the last lookup (sweep not yet run)
	targetLookups := c.Pick(200, 300)
	if big {
		targetLookups = c.Pick(50, 80) // fresh rings of several thousand virtual nodes are expensive
	}
	sizes := map[int]bool{}
	for lookups < targetLookups {
		// 0..6 mutations
		nm := R.Intn(7)
		bias := []int{25, 55, 85}[R.Intn(3)] // shrinking, steady or growing block
		if big {
			bias = []int{45, 50, 55}[R.Intn(3)] // keep the cluster large
		}
		for m := 0; m < nm; m++ {
			k := universe[R.Intn(len(universe))]
			x := 98
			if R.Intn(100) < 97 {
				x = 60
				if R.Intn(100) < bias {
					x = 0
				}
			}
			if x >= 55 && x < 97 && len(model) > 0 && R.Intn(10) < 7 {
				mem := members(model)
				k = mem[R.Intn(len(mem))] // remove a current member most of the time
			}
			switch {
			case x < 55:
				serial++
				if pendingRemoved[k] {
					removedThenReinserted++
					c.Count("reinsert_before_sweep", 1)
				}
				ring.Insert(k, val{k, serial})
				model[k] = serial
				ops = append(ops, fmt.Sprintf("insert %s v%d", k, serial))
				c.Count("inserts", 1)
			case x < 97:
				if _, in := model[k]; in {
					pendingRemoved[k] = true
					c.Count("removes_member", 1)
				} else {
					c.Count("removes_nonmember", 1)
				}
				ring.Remove(k)
				delete(model, k)
				ops = append(ops, "remove "+k)
			default: // remove everything (ring goes empty with pending deletes)
				if big && R.Intn(4) != 0 {
					break
				}
				for _, mk := range members(model) {
					ring.Remove(mk)
					pendingRemoved[mk] = true
					delete(model, mk)
				}
				ops = append(ops, "remove-all")
				c.Count("remove_all", 1)
			}
			mutations++
			if got := ring.Len(); got != len(model) {
				c.Violationf("len", detail(), "Len()=%d after %q, member set has %d", got, ops[len(ops)-1], len(model))
				return
			}
		}
		mem := members(model)
		sizes[len(mem)] = true
		c.Distinct("member_set_size", len(mem))
		if len(pendingRemoved) > 0 {
			sweeps++
		}
		pendingRemoved = map[string]bool{}

		// fresh rings from the current member set
		var fresh []*hashring.Ring[val]
		if len(mem) > 0 {
			f1 := newRing(cf)
			for _, k := range mem {
				f1.Insert(k, val{k, model[k]})
			}
			f2 := newRing(cf)
			sh := append([]string(nil), mem...)
			R.Shuffle(len(sh), func(i, j int) { sh[i], sh[j] = sh[j], sh[i] })
			for _, k := range sh {
				f2.Insert(k, val{k, model[k]})
			}
			// noisy history ending in the same set, no lookup before the end
			f3 := newRing(cf)
			for _, k := range universe {
				f3.Insert(k, val{k, -1})
			}
			if R.Intn(2) == 0 {
				f3.Lookup("warm-up") // sorted once, so later inserts append to a sorted table
			}
			for _, k := range universe {
				f3.Remove(k)
			}
			for i := len(sh) - 1; i >= 0; i-- {
				f3.Insert(sh[i], val{sh[i], model[sh[i]]})
			}
			fresh = []*hashring.Ring[val]{f1, f2, f3}
		}

		var refEs []refEntry
		if len(mem) > 0 {
			refEs = refEntries(cf, mem)
		}
		nl := 1 + R.Intn(8)
		for _, key := range lookupKeys(nl) {
			got, ok := ring.Lookup(key)
			lookups++
			c.Count("lookups", 1)
			if ok != (len(mem) > 0) {
				c.Violationf("found", detail(), "Lookup(%q) found=%v with %d members", key, ok, len(mem))
				return
			}
			if !ok {
				c.Count("lookups_empty", 1)
				if got != (val{}) {
					c.Violationf("empty-nonzero", detail(), "Lookup(%q) on an empty ring returned %+v", key, got)
					return
				}
				continue
			}
			ver, in := model[got.Name]
			if !in {
				c.Violationf("owner-not-member", detail(), "Lookup(%q) returned %+v which is not a current member", key, got)
				return
			}
			if ver != got.Ver {
				c.Violationf("stale-value", detail(), "Lookup(%q) returned %+v but the latest value of that member is v%d", key, got, ver)
				return
			}
			for i, f := range fresh {
				fv, fok := f.Lookup(key)
				c.Count("fresh_comparisons", 1)
				if !fok || fv != got {
					d := detail()
					d["key"] = key
					d["fresh_kind"] = []string{"sorted", "shuffled", "noisy"}[i]
					c.Violationf("history-dependent-owner", d, "Lookup(%q)=%+v after the history, but %+v (found=%v) on a ring built fresh (%s) from the same %d members",
						key, got, fv, fok, d["fresh_kind"], len(mem))
					return
				}
			}
			if refOwner(cf, refEs, key) == got.Name {
				c.Count("model_agree", 1)
			} else {
				c.Count("model_disagree", 1)
			}
			if got2, ok2 := ring.Lookup(key); !ok2 || got2 != got { // repeatable
				c.Violationf("not-repeatable", detail(), "two consecutive Lookup(%q): %+v then %+v", key, got, got2)
				return
			}
		}
		if ring.Len() != len(model) {
			c.Violationf("len", detail(), "Len()=%d after lookups, member set has %d", ring.Len(), len(model))
			return
		}
	}
	c.Count("mutations", int64(mutations))
	c.Count("sweeps", int64(sweeps))
	if len(sizes) >= 3 && sweeps >= 3 {
		first := ops
		if len(first) > 10 {
			first = first[:10]
		}
		c.NonTrivial(cf.replicas, cf.probes, cf.h.name, fmt.Sprint(first))
	}
	c.Distinct("config", cf.replicas, cf.probes, cf.h.name)
	if c.Index < 4 {
		first := ops
		if len(first) > 15 {
			first = first[:15]
		}
		c.Sample(map[string]any{"replicas": cf.replicas, "probes": cf.probes, "hash": cf.h.name, "first_ops": first, "lookups": lookups})
	}
}

func members(m map[string]int) []string {
	l := make([]string, 0, len(m))
	for k := range m {
		l = append(l, k)
	}
	sort.Strings(l)
	return l
}

func main() {
	harness.Main(harness.Check{
		ID:    "C45",
		Level: "exploration",
		Rule: "per case one ring configuration (replicas/probes from {100/1 production, 1/1, 1/21, 10/10, random small}, hash from {default XXH3, explicit XXH3, 6/8/12-bit weak hashes, low-8}); " +
			"a history over 4..14 node names (some prefixes of others) of blocks of 0..6 insert/remove/remove-all mutations followed by 1..8 lookups until 200 (thorough 300) lookups; " +
			"every lookup is compared with three fresh rings (sorted, shuffled, noisy history) built from the current member set. Non-trivial = at least 3 distinct member-set sizes and 3 sweeps; distinct by config and first 10 ops",
		Assumptions: []string{
			"history independence is judged against fresh rings of the same real code (a different execution), as the statement defines it; the independent reference ring is recorded (model_agree/model_disagree), not judged",
			"the supplied weak hashes are deterministic functions of the bytes (contract of WithHash)",
			"single goroutine (Ring is documented as not safe for concurrent use)",
		},
		Cases: func(tier string) int {
			if tier == "thorough" {
				return 30000
			}
			return 3000
		},
		Run:    run,
		Floors: map[string]int64{"lookups": 60000, "fresh_comparisons": 100000, "sweeps": 5000, "reinsert_before_sweep": 2000, "lookups_empty": 500, "model_agree": 30000},
	})
}

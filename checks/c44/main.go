// C44 — each workload interface carries exactly the state of its preferred endpoint.
//
// Drives the real felix/dataplane/linux endpointManager (verif export VerifNewEndpointManager, built
// with CGO off) with histories of WorkloadEndpointUpdate / WorkloadEndpointRemove / interface up-down
// messages over 4 endpoint ids and 3 interface names (collisions, renames, admin down, remove and
// re-add), calling ResolveUpdateBatch + CompleteDeferredWork at PRNG points.  The manager talks to
// recording fakes written here: filter table (chains by name), route table (routes per interface),
// nft dispatch maps, proc-sys writer, link-address manager.  The rule renderer and the endpoint mark
// mapper are the repo's real ones.
//
// Every endpoint VERSION (each update) carries a unique profile id and a unique /32, so every chain and
// every route in the fakes can be attributed to one version of one endpoint.
//
// Oracle, at every quiescent point (after CompleteDeferredWork), from the statement:
//
//	(1) per interface name with >=1 live claimant (live = latest update not followed by a remove):
//	    the to/from endpoint chains exist and carry the marker of exactly one endpoint, which is a
//	    live claimant of that name in its LATEST version; the routes of that interface belong to the
//	    same endpoint version and exist iff that endpoint is administratively up ("active"); the
//	    dispatch (iptables dispatch chains evaluated on the interface name, or the nft verdict maps)
//	    sends the interface to its own endpoint chains, which exist.
//	(2) per interface name with no live claimant: no endpoint chains, no routes, no dispatch entry.
//	(3) order independence: a fresh manager given only the live endpoints, in one batch, in ascending
//	    and in descending id order, ends with the same owner per interface and identical chains,
//	    routes and dispatch.
//
// The tie-break between claimants (lowest id wins) is NOT encoded; (3) only requires that it is the
// same whatever the order.
//
// Deliberately not checked: policy-group chains, endpoint-mark chains (IPVS support off), status
// reports, proc-sys writes, QoS qdiscs (the code reads them through real netlink on interfaces that do
// not exist here; failures are ignored by the code), host endpoints, live migration, BPF mode, ARP
// chains, states in the middle of a batch, route programming below routetable.SetRoutes.
package main

import (
	"context"
	"errors"
	"fmt"
	"io"
	"os"
	"regexp"
	"sort"
	"strings"

	"github.com/sirupsen/logrus"

	intdataplane "github.com/projectcalico/calico/felix/dataplane/linux"
	"github.com/projectcalico/calico/felix/environment"
	"github.com/projectcalico/calico/felix/generictables"
	"github.com/projectcalico/calico/felix/ifacemonitor"
	"github.com/projectcalico/calico/felix/ip"
	"github.com/projectcalico/calico/felix/ipsets"
	"github.com/projectcalico/calico/felix/iptables"
	"github.com/projectcalico/calico/felix/netlinkshim"
	"github.com/projectcalico/calico/felix/nftables"
	"github.com/projectcalico/calico/felix/proto"
	"github.com/projectcalico/calico/felix/routetable"
	"github.com/projectcalico/calico/felix/rules"

	"verif/internal/harness"
)

// ---------------------------------------------------------------- recording fakes

type recTable struct {
	name   string
	chains map[string]*generictables.Chain
	ops    int
}

func newRecTable(name string) *recTable {
	return &recTable{name: name, chains: map[string]*generictables.Chain{}}
}
func (t *recTable) UpdateChain(c *generictables.Chain) {
	t.ops++
	t.chains[c.Name] = c
}
func (t *recTable) UpdateChains(cs []*generictables.Chain) {
	for _, c := range cs {
		t.UpdateChain(c)
	}
}
func (t *recTable) RemoveChains(cs []*generictables.Chain) {
	for _, c := range cs {
		t.RemoveChainByName(c.Name)
	}
}
func (t *recTable) RemoveChainByName(n string) {
	t.ops++
	delete(t.chains, n)
}

type recRoutes struct {
	routes   map[string][]routetable.Target
	ops      int
	badClass []string
}

func (r *recRoutes) SetRoutes(class routetable.RouteClass, iface string, targets []routetable.Target) {
	r.ops++
	if class != routetable.RouteClassLocalWorkload {
		r.badClass = append(r.badClass, fmt.Sprintf("%v/%s", class, iface))
	}
	if len(targets) == 0 {
		delete(r.routes, iface)
		return
	}
	r.routes[iface] = append([]routetable.Target(nil), targets...)
}
func (r *recRoutes) RouteRemove(class routetable.RouteClass, iface string, key routetable.RouteKey) {
	r.ops++
	var out []routetable.Target
	for _, t := range r.routes[iface] {
		if t.RouteKey != key {
			out = append(out, t)
		}
	}
	if len(out) == 0 {
		delete(r.routes, iface)
	} else {
		r.routes[iface] = out
	}
}
func (r *recRoutes) RouteUpdate(class routetable.RouteClass, iface string, target routetable.Target) {
	r.RouteRemove(class, iface, target.RouteKey)
	r.routes[iface] = append(r.routes[iface], target)
}
func (r *recRoutes) Index() int                                               { return 0 }
func (r *recRoutes) QueueResyncIface(string)                                  {}
func (r *recRoutes) ReadRoutesFromKernel(string) ([]routetable.Target, error) { return nil, nil }
func (r *recRoutes) OnIfaceStateChanged(string, int, ifacemonitor.State)      {}
func (r *recRoutes) QueueResync()                                             {}
func (r *recRoutes) Apply() error                                             { return nil }

type recMaps struct {
	maps map[string]map[string][]string
}

func (m *recMaps) AddOrReplaceMap(meta nftables.MapMetadata, members map[string][]string) {
	cp := map[string][]string{}
	for k, v := range members {
		cp[k] = append([]string(nil), v...)
	}
	m.maps[meta.Name] = cp
}
func (m *recMaps) RemoveMap(id string)                                { delete(m.maps, id) }
func (m *recMaps) MapUpdates() *nftables.MapUpdates                   { return nil }
func (m *recMaps) FinishMapUpdates(*nftables.MapUpdates)              {}
func (m *recMaps) LoadDataplaneState(context.Context, []string) error { return nil }
func (m *recMaps) InvalidateMapsCache()                               {}

type noLinkAddrs struct{}

func (noLinkAddrs) QueueResync()                              {}
func (noLinkAddrs) SetLinkLocalAddress(string, ip.CIDR) error { return nil }
func (noLinkAddrs) RemoveLinkLocalAddress(string)             {}
func (noLinkAddrs) GetNlHandle() (netlinkshim.Interface, error) {
	return nil, errors.New("verif: no netlink")
}
func (noLinkAddrs) Apply() error { return nil }

// ---------------------------------------------------------------- world

type world struct {
	nft    bool
	mgr    *intdataplane.VerifEndpointManager
	filter *recTable
	routes *recRoutes
	maps   *recMaps
}

func rrConfig() rules.Config {
	return rules.Config{
		IPSetConfigV4:         ipsets.NewIPVersionConfig(ipsets.IPFamilyV4, "cali", nil, nil),
		IPSetConfigV6:         ipsets.NewIPVersionConfig(ipsets.IPFamilyV6, "cali", nil, nil),
		MarkAccept:            0x8,
		MarkPass:              0x10,
		MarkScratch0:          0x20,
		MarkScratch1:          0x40,
		MarkDrop:              0x80,
		MarkEndpoint:          0xff00,
		MarkNonCaliEndpoint:   0x0100,
		WorkloadIfacePrefixes: []string{"cali"},
		VXLANPort:             4789,
		VXLANVNI:              4096,
	}
}

func newWorld(nft bool) *world {
	w := &world{nft: nft, filter: newRecTable("filter"), routes: &recRoutes{routes: map[string][]routetable.Target{}}}
	cfg := intdataplane.VerifEndpointManagerConfig{
		IPVersion:           4,
		WlInterfacePrefixes: []string{"cali"},
		NFT:                 nft,
		FloatingIPsEnabled:  true,
		NormalRoutePriority: 1024, ElevatedRoutePriority: 512,
		DefaultRPFilter: "1",
		RawTable:        newRecTable("raw"), MangleTable: newRecTable("mangle"), FilterTable: w.filter,
		RuleRenderer: rules.NewRenderer(rrConfig(), nft),
		RouteTable:   w.routes,
		EPMarkMapper: rules.NewEndpointMarkMapper(0xff00, 0x0100),
		OnStatusUpdate: func(ipVersion uint8, id any, status string, extraInfo any) {
		},
		WriteProcSys: func(path, value string) error { return nil },
		OsStat:       func(path string) (os.FileInfo, error) { return nil, nil },
		LinkAddrsMgr: noLinkAddrs{},
	}
	if nft {
		w.maps = &recMaps{maps: map[string]map[string][]string{}}
		cfg.FilterMaps = w.maps
	}
	w.mgr = intdataplane.VerifNewEndpointManager(cfg)
	return w
}

func (w *world) flush() error {
	if err := w.mgr.ResolveUpdateBatch(); err != nil {
		return err
	}
	return w.mgr.CompleteDeferredWork()
}

// ---------------------------------------------------------------- model of the fed history

var epIDs = []*proto.WorkloadEndpointID{
	{OrchestratorId: "k8s", WorkloadId: "ns/podA", EndpointId: "eth0"},
	{OrchestratorId: "k8s", WorkloadId: "ns/podA", EndpointId: "eth1"},
	{OrchestratorId: "k8s", WorkloadId: "ns/podB", EndpointId: "eth0"},
	{OrchestratorId: "openstack", WorkloadId: "vm1", EndpointId: "tap1"},
}
var ifaceNames = []string{"caliif0", "caliif1", "caliif2"}

type epVersion struct {
	ep      int
	version int
	iface   string
	active  bool
	ipnet   string
	profile string
}

func (v *epVersion) String() string {
	return fmt.Sprintf("ep%d.v%d(%s,active=%v)", v.ep, v.version, v.iface, v.active)
}

func (v *epVersion) msg() *proto.WorkloadEndpointUpdate {
	state := "active"
	if !v.active {
		state = "inactive"
	}
	return &proto.WorkloadEndpointUpdate{
		Id: epIDs[v.ep],
		Endpoint: &proto.WorkloadEndpoint{
			State:      state,
			Name:       v.iface,
			Mac:        fmt.Sprintf("02:00:00:00:%02x:%02x", v.ep, v.version%256),
			ProfileIds: []string{v.profile},
			Ipv4Nets:   []string{v.ipnet},
		},
	}
}

var markerRe = regexp.MustCompile(`cali-pr[io]-(e\d+v\d+)`)

var features = &environment.Features{}

func renderChain(c *generictables.Chain) string {
	var sb strings.Builder
	for _, r := range c.Rules {
		if r.Match != nil {
			sb.WriteString(r.Match.Render())
		}
		sb.WriteString(" => ")
		if r.Action != nil {
			sb.WriteString(r.Action.ToFragment(features))
		}
		sb.WriteString("\n")
	}
	return sb.String()
}

// snapshot is what an observer of the fakes sees for one interface name.
type ifaceState struct {
	ToChain, FromChain string   // rendered rules ("" = chain absent)
	Markers            []string // endpoint-version markers found in the two chains
	Routes             []string // CIDRs
	DispatchTo         string   // chain the to-workload dispatch sends this interface to ("" = none/unknown interface)
	DispatchFrom       string
}

func maxChainLen(nft bool) int {
	if nft {
		return nftables.MaxChainNameLength
	}
	return iptables.MaxChainNameLength
}

var ifRe = regexp.MustCompile(`--(in|out)-interface (\S+)`)
var gotoRe = regexp.MustCompile(`--(goto|jump) (\S+)`)

// dispatchIpt walks the iptables dispatch chains for interface name n.
func dispatchIpt(t *recTable, root string, n string) string {
	cur := root
	for depth := 0; depth < 20; depth++ {
		ch := t.chains[cur]
		if ch == nil {
			return "<missing chain " + cur + ">"
		}
		next := ""
		for _, r := range ch.Rules {
			m := ""
			if r.Match != nil {
				m = r.Match.Render()
			}
			im := ifRe.FindStringSubmatch(m)
			matches := false
			switch {
			case im == nil:
				matches = strings.TrimSpace(m) == "" // unconditional rule (the final drop)
			case strings.HasSuffix(im[2], "+"):
				matches = strings.HasPrefix(n, strings.TrimSuffix(im[2], "+"))
			default:
				matches = im[2] == n
			}
			if !matches {
				continue
			}
			a := ""
			if r.Action != nil {
				a = r.Action.ToFragment(features)
			}
			gm := gotoRe.FindStringSubmatch(a)
			if gm == nil {
				return "" // drop / unknown interface
			}
			next = gm[2]
			if !strings.HasPrefix(next, "cali-") {
				return "" // terminal target (DROP/REJECT...): unknown interface
			}
			break
		}
		if next == "" {
			return ""
		}
		if !strings.HasPrefix(next, root) { // left the dispatch tree
			return next
		}
		cur = next
	}
	return "<dispatch loop>"
}

func (w *world) observe(n string) ifaceState {
	var s ifaceState
	toName := rules.EndpointChainName(rules.WorkloadToEndpointPfx, n, maxChainLen(w.nft))
	fromName := rules.EndpointChainName(rules.WorkloadFromEndpointPfx, n, maxChainLen(w.nft))
	mk := map[string]bool{}
	if c := w.filter.chains[toName]; c != nil {
		s.ToChain = "chain " + toName + "\n" + renderChain(c)
		for _, m := range markerRe.FindAllStringSubmatch(s.ToChain, -1) {
			mk[m[1]] = true
		}
	}
	if c := w.filter.chains[fromName]; c != nil {
		s.FromChain = "chain " + fromName + "\n" + renderChain(c)
		for _, m := range markerRe.FindAllStringSubmatch(s.FromChain, -1) {
			mk[m[1]] = true
		}
	}
	for m := range mk {
		s.Markers = append(s.Markers, m)
	}
	sort.Strings(s.Markers)
	for _, t := range w.routes.routes[n] {
		s.Routes = append(s.Routes, t.CIDR.String())
	}
	sort.Strings(s.Routes)
	if w.nft {
		if v := w.maps.maps[rules.NftablesToWorkloadDispatchMap][n]; len(v) > 0 {
			s.DispatchTo = strings.TrimPrefix(strings.Join(v, " "), "goto ")
		}
		if v := w.maps.maps[rules.NftablesFromWorkloadDispatchMap][n]; len(v) > 0 {
			s.DispatchFrom = strings.TrimPrefix(strings.Join(v, " "), "goto ")
		}
	} else {
		s.DispatchTo = dispatchIpt(w.filter, rules.ChainToWorkloadDispatch, n)
		s.DispatchFrom = dispatchIpt(w.filter, rules.ChainFromWorkloadDispatch, n)
	}
	return s
}

// ---------------------------------------------------------------- the case

type opT struct {
	kind   string // update | remove | iface | flush
	ep     int
	iface  string
	active bool
	up     bool
	index  int
}

// structured histories: the smallest shapes of the four shadowing situations (run in both modes)
func structured(i int) []opT {
	U := func(ep int, iface string) opT { return opT{kind: "update", ep: ep, iface: iface, active: true} }
	R := func(ep int) opT { return opT{kind: "remove", ep: ep} }
	F := opT{kind: "flush"}
	switch i {
	case 0: // the active endpoint moves to another interface while a second endpoint waits for the old one
		return []opT{U(0, "caliif0"), U(1, "caliif0"), F, U(0, "caliif1"), F}
	case 1: // a shadowed endpoint moves elsewhere, then the endpoint that shadowed it goes away
		return []opT{U(0, "caliif0"), U(1, "caliif0"), F, U(1, "caliif2"), F, R(0), F}
	case 2: // an active endpoint moves onto an interface where a preferred endpoint already is
		return []opT{U(0, "caliif0"), F, U(1, "caliif1"), F, U(1, "caliif0"), F}
	case 3: // both claimants removed in one batch
		return []opT{U(0, "caliif0"), U(1, "caliif0"), F, R(0), R(1), F}
	default: // the preferred claimant removed and the other updated in one batch
		return []opT{U(0, "caliif0"), U(1, "caliif0"), F, R(0), U(1, "caliif0"), F}
	}
}

const nStructured = 10
const replicas = 3 // the manager iterates Go maps: run every history on several fresh managers

func generate(c *harness.Case) []opT {
	var ops []opT
	liveIface := map[int]string{}
	nOps := 6 + c.R.Intn(c.Pick(24, 40))
	for op := 0; op < nOps; op++ {
		switch r := c.R.Intn(10); {
		case r < 6:
			i := c.R.Intn(len(epIDs))
			o := opT{kind: "update", ep: i, active: c.R.Intn(4) != 0}
			prev, had := liveIface[i]
			if had && c.R.Intn(3) != 0 {
				o.iface = prev
			} else {
				o.iface = ifaceNames[c.R.Intn(len(ifaceNames))]
			}
			liveIface[i] = o.iface
			ops = append(ops, o)
		case r < 8:
			i := c.R.Intn(len(epIDs))
			if _, had := liveIface[i]; !had && c.R.Intn(3) != 0 {
				continue
			}
			delete(liveIface, i)
			ops = append(ops, opT{kind: "remove", ep: i})
		default:
			ops = append(ops, opT{kind: "iface", iface: ifaceNames[c.R.Intn(len(ifaceNames))], up: c.R.Intn(2) == 0, index: 10 + c.R.Intn(3)})
		}
		if c.R.Intn(3) == 0 {
			ops = append(ops, opT{kind: "flush"})
		}
	}
	return append(ops, opT{kind: "flush"})
}

func run(c *harness.Case) {
	var ops []opT
	nft := c.R.Intn(2) == 0
	if c.Index < nStructured {
		ops = structured(c.Index % 5)
		nft = c.Index >= 5
	} else {
		ops = generate(c)
	}
	for rep := 0; rep < replicas; rep++ {
		if !execute(c, ops, nft, rep) {
			return
		}
	}
}

func execute(c *harness.Case, ops []opT, nft bool, replica int) bool {
	w := newWorld(nft)
	live := map[int]*epVersion{} // by endpoint index: latest version, absent = removed
	versions := map[int]int{}
	var log []string
	collisions, renames, checks := 0, 0, 0

	judge := func(final bool) bool {
		if err := w.flush(); err != nil {
			c.Inconclusive("flush-error")
			return false
		}
		log = append(log, "FLUSH")
		c.Count("flushes", 1)
		detail := map[string]any{"history": log, "nft": nft, "replica": replica}
		var liveDesc []string
		for i := range epIDs {
			if v := live[i]; v != nil {
				liveDesc = append(liveDesc, v.String())
			}
		}
		detail["live_endpoints"] = liveDesc
		if len(w.routes.badClass) > 0 {
			c.Violationf("route-class", detail, "routes set with a class other than local-workload: %v", w.routes.badClass)
			return false
		}

		// reference runs: fresh managers given only the live endpoints, ascending and descending
		refs := []*world{newWorld(nft), newWorld(nft)}
		for k, ref := range refs {
			for j := range epIDs {
				i := j
				if k == 1 {
					i = len(epIDs) - 1 - j
				}
				if v := live[i]; v != nil {
					ref.mgr.OnUpdate(v.msg())
				}
			}
			if err := ref.flush(); err != nil {
				c.Inconclusive("flush-error")
				return false
			}
		}

		owners := map[string]string{}
		for _, n := range ifaceNames {
			st := w.observe(n)
			var claimants []*epVersion
			for i := range epIDs {
				if v := live[i]; v != nil && v.iface == n {
					claimants = append(claimants, v)
				}
			}
			c.Count("interface_checks", 1)
			checks++
			d := map[string]any{}
			for k, v := range detail {
				d[k] = v
			}
			d["interface"] = n
			d["observed"] = st
			var cl []string
			for _, v := range claimants {
				cl = append(cl, v.String())
			}
			d["live_claimants"] = cl
			toName := rules.EndpointChainName(rules.WorkloadToEndpointPfx, n, maxChainLen(nft))
			fromName := rules.EndpointChainName(rules.WorkloadFromEndpointPfx, n, maxChainLen(nft))

			if len(claimants) == 0 {
				c.Count("unclaimed_interface_checks", 1)
				if st.ToChain != "" || st.FromChain != "" || len(st.Routes) > 0 || st.DispatchTo != "" || st.DispatchFrom != "" {
					c.Violationf("state-left-for-unused-interface", d, "interface %s has no live endpoint but state remains: chains(to=%v from=%v) routes=%v dispatch(to=%q from=%q)",
						n, st.ToChain != "", st.FromChain != "", st.Routes, st.DispatchTo, st.DispatchFrom)
					return false
				}
				continue
			}
			if len(claimants) > 1 {
				c.Count("contended_interface_checks", 1)
			}
			// (1) chains exist
			if st.ToChain == "" || st.FromChain == "" {
				c.Violationf("claimed-interface-without-chains", d, "interface %s is claimed by live endpoint(s) %v but its endpoint chains are missing (to=%v from=%v)",
					n, cl, st.ToChain != "", st.FromChain != "")
				return false
			}
			// dispatch sends the interface to its own chains
			if st.DispatchTo != toName || st.DispatchFrom != fromName {
				c.Violationf("dispatch-wrong", d, "interface %s (claimed by %v): dispatch goes to (%q,%q), expected (%q,%q)", n, cl, st.DispatchTo, st.DispatchFrom, toName, fromName)
				return false
			}
			// owner by markers and routes
			var owner *epVersion
			if len(st.Markers) > 1 {
				c.Violationf("chains-mix-endpoints", d, "interface %s: chains carry markers of several endpoint versions %v", n, st.Markers)
				return false
			}
			if len(st.Markers) == 1 {
				for _, v := range claimants {
					if v.profile == st.Markers[0] {
						owner = v
					}
				}
				if owner == nil {
					c.Violationf("chains-of-non-claimant-or-stale-version", d, "interface %s: chains carry marker %s which is not the latest version of any live claimant %v", n, st.Markers[0], cl)
					return false
				}
				if !owner.active {
					c.Violationf("admin-down-endpoint-has-open-chains", d, "interface %s: owner %v is administratively down but its chains still jump to its profile", n, owner)
					return false
				}
			}
			if len(st.Routes) > 0 {
				var rOwner *epVersion
				for _, v := range claimants {
					if len(st.Routes) == 1 && v.ipnet == st.Routes[0] {
						rOwner = v
					}
				}
				if rOwner == nil {
					c.Violationf("routes-of-non-claimant-or-stale-version", d, "interface %s: routes %v are not those of the latest version of any live claimant %v", n, st.Routes, cl)
					return false
				}
				if !rOwner.active {
					c.Violationf("routes-for-admin-down-endpoint", d, "interface %s: routes %v exist but their endpoint %v is administratively down", n, st.Routes, rOwner)
					return false
				}
				if owner != nil && owner != rOwner {
					c.Violationf("chains-and-routes-of-different-endpoints", d, "interface %s: chains belong to %v, routes to %v", n, owner, rOwner)
					return false
				}
				owner = rOwner
			}
			if owner == nil {
				// no markers and no routes: the owner must be an admin-down claimant
				anyDown := false
				for _, v := range claimants {
					if !v.active {
						anyDown = true
					}
				}
				if !anyDown {
					c.Violationf("active-endpoint-without-state", d, "interface %s: every live claimant %v is active, yet the chains carry no profile jump and there are no routes", n, cl)
					return false
				}
				owners[n] = "<an admin-down claimant>"
			} else {
				if len(st.Markers) == 0 || len(st.Routes) == 0 {
					c.Violationf("active-owner-partially-programmed", d, "interface %s: owner %v is active but markers=%v routes=%v", n, owner, st.Markers, st.Routes)
					return false
				}
				owners[n] = owner.String()
			}

			// (3) order independence: same as fresh managers
			for k, ref := range refs {
				rs := ref.observe(n)
				c.Count("reference_comparisons", 1)
				if rs.ToChain != st.ToChain || rs.FromChain != st.FromChain || fmt.Sprint(rs.Routes) != fmt.Sprint(st.Routes) ||
					rs.DispatchTo != st.DispatchTo || rs.DispatchFrom != st.DispatchFrom {
					d["reference_order"] = []string{"ascending ids", "descending ids"}[k]
					d["reference_observed"] = rs
					c.Violationf("owner-depends-on-update-order", d, "interface %s: after the history the state is markers=%v routes=%v, a fresh manager given the same live endpoints (%s) has markers=%v routes=%v",
						n, st.Markers, st.Routes, d["reference_order"], rs.Markers, rs.Routes)
					return false
				}
			}
		}
		// nothing for names outside the universe either: every endpoint chain in the table belongs to a known name
		for name := range w.filter.chains {
			if strings.HasPrefix(name, string(rules.WorkloadToEndpointPfx)) || strings.HasPrefix(name, string(rules.WorkloadFromEndpointPfx)) {
				known := false
				for _, n := range ifaceNames {
					if name == rules.EndpointChainName(rules.WorkloadToEndpointPfx, n, maxChainLen(nft)) || name == rules.EndpointChainName(rules.WorkloadFromEndpointPfx, n, maxChainLen(nft)) {
						known = true
					}
				}
				if !known {
					c.Violationf("unexpected-endpoint-chain", detail, "chain %s does not belong to any interface of the universe", name)
					return false
				}
			}
		}
		for n := range w.routes.routes {
			known := false
			for _, x := range ifaceNames {
				known = known || x == n
			}
			if !known {
				c.Violationf("unexpected-routes", detail, "routes for unknown interface %s", n)
				return false
			}
		}
		c.Distinct("final_ownerships", fmt.Sprint(owners))
		return true
	}

	for _, o := range ops {
		switch o.kind {
		case "update":
			i := o.ep
			versions[i]++
			v := &epVersion{ep: i, version: versions[i], active: o.active, iface: o.iface}
			prev := live[i]
			if prev != nil && prev.iface != v.iface {
				renames++
				c.Count("renames", 1)
			}
			for j := range epIDs {
				if x := live[j]; j != i && x != nil && x.iface == v.iface {
					collisions++
					c.Count("collisions", 1)
					break
				}
			}
			v.ipnet = fmt.Sprintf("10.%d.%d.%d/32", 65+i, v.version/250, 1+v.version%250)
			v.profile = fmt.Sprintf("e%dv%d", i, v.version)
			live[i] = v
			w.mgr.OnUpdate(v.msg())
			log = append(log, "UPDATE "+v.String())
			c.Count("endpoint_updates", 1)
		case "remove":
			delete(live, o.ep)
			w.mgr.OnUpdate(&proto.WorkloadEndpointRemove{Id: epIDs[o.ep]})
			log = append(log, fmt.Sprintf("REMOVE ep%d", o.ep))
			c.Count("endpoint_removes", 1)
		case "iface":
			st := ifacemonitor.StateDown
			if o.up {
				st = ifacemonitor.StateUp
			}
			w.mgr.OnUpdate(intdataplane.NewIfaceStateUpdate(o.iface, st, o.index))
			log = append(log, fmt.Sprintf("IFACE %s %v", o.iface, st))
			c.Count("iface_state_updates", 1)
		case "flush":
			if !judge(false) {
				return false
			}
		}
	}
	if replica == 0 {
		if collisions > 0 || renames > 0 {
			c.NonTrivial(strings.Join(log, ";"))
		}
		if c.Index == 0 || c.Index == nStructured {
			c.Sample(map[string]any{"nft": nft, "history": log})
		}
	}
	_ = checks
	return true
}

func main() {
	logrus.SetOutput(io.Discard)
	logrus.SetLevel(logrus.PanicLevel)
	harness.Main(harness.Check{
		ID:    "C44",
		Level: "exploration",
		Rule: "cases 0-9 are five hand-written minimal shadowing histories in iptables and nftables mode; the rest are PRNG histories of 6-30 (thorough 6-46) operations over 4 workload endpoint ids (differing in orchestrator, workload and endpoint id) and 3 interface names: update (new version: same or other interface, active 3/4), remove, " +
			"interface up/down; ResolveUpdateBatch+CompleteDeferredWork after an operation with probability 1/3 and at the end, judged each time; iptables or nftables mode per case; every history is executed on 3 fresh managers (the manager iterates Go maps); " +
			"non-trivial = at least one interface collision or rename, distinct by the operation list",
		Assumptions: []string{
			"CGO off (felix/dataplane/linux imports libbpf): no race detector; the endpoint manager is single-goroutine by design",
			"fakes: filter table = chains by name (UpdateChain(s)/RemoveChains/RemoveChainByName), route table = last SetRoutes per interface, nft maps = last AddOrReplaceMap; the real generictables/routetable layers below are not exercised",
			"real rules.NewRenderer and EndpointMarkMapper; chain/route attribution relies on a unique profile id and /32 per endpoint version",
			"QoS qdisc reads in the code under test hit real netlink for interfaces that do not exist; the code ignores those errors",
		},
		Cases: func(tier string) int {
			if tier == "thorough" {
				return 50000
			}
			return 1000
		},
		Run:    run,
		Floors: map[string]int64{"interface_checks": 3000, "contended_interface_checks": 300, "unclaimed_interface_checks": 300, "reference_comparisons": 3000, "collisions": 500, "renames": 500, "flushes": 1000},
	})
}

// C36 — CIDR trie lookups agree with plain prefix arithmetic.
//
// Real code driven: felix/ip.CIDRTrie (Update/Delete/Get/LPM/Covers/Intersects/CoveredBy/
// ClosestDescendants/LookupPath/ToSlice/Visit) for IPv4 and IPv6, and felix/calc.IpTrie
// (InsertKey/DeleteKey/GetKeys/GetLongestPrefixCidr/GetLongestPrefixCidrWithNamespaceIsolation).
//
// Oracle: a plain map of stored prefixes; a prefix is (128-bit address as two uint64, length) and
// containment is mask-and-compare written here.  Nothing of felix/ip is used on the oracle side except
// for turning a returned ip.CIDR back into bytes (Addr().AsNetIP(), Prefix()).
//
// Deliberately not checked
//   - LPM with a query that is not a single address: the repo's own test expects
//     LPM(2.0.0.0/7) over {2.0.0.0/8,...} to return 2.0.0.0/8, i.e. the walk follows the query's base
//     address.  For such queries only the parts every reading agrees on are judged: the answer is a
//     stored prefix that contains the query's base address and carries that prefix's data, and an
//     answer at least as long as the longest stored prefix covering the whole query exists whenever
//     such a prefix is stored.  Single-address queries (what all production callers pass) are judged
//     exactly.
//   - Intersects(q) on its own when the only stored prefixes overlapping q are strict ancestors of q:
//     the implementation answers false there (its only caller uses Get||Intersects||Covers as the
//     overlap test).  Judged: Intersects is true when some stored prefix lies inside q, false when no
//     stored prefix overlaps q, and Intersects||Covers equals "some stored prefix overlaps q".
//   - CoveredBy on an empty trie (dereferences the nil root; no production caller) is not called.
//   - ClosestDescendants(parent) is judged exactly only when parent is stored (what its callers
//     guarantee); otherwise only "every returned element is a true closest stored descendant".
//   - Order of ToSlice/Visit/LookupPath/ClosestDescendants results (compared as sets, no duplicates).
//   - calc.IpTrie: which of several keys of the winning CIDR is returned (tie-break) — only
//     membership in the winning CIDR's key set; DeleteKey is only called for (cidr,key) pairs that
//     are present (its callers' contract).
package main

import (
	"fmt"
	"io"
	"net"
	"sort"

	"github.com/sirupsen/logrus"

	"github.com/projectcalico/calico/felix/calc"
	"github.com/projectcalico/calico/felix/ip"
	"github.com/projectcalico/calico/libcalico-go/lib/backend/model"

	"verif/internal/harness"
)

// ---------------------------------------------------------------- reference prefix arithmetic

type pfx struct {
	v6     bool
	hi, lo uint64 // v4: address in the top 32 bits of hi
	n      int
}

func mask128(hi, lo uint64, n int) (uint64, uint64) {
	switch {
	case n <= 0:
		return 0, 0
	case n < 64:
		return hi & (^uint64(0) << uint(64-n)), 0
	case n == 64:
		return hi, 0
	case n < 128:
		return hi, lo & (^uint64(0) << uint(128-n))
	}
	return hi, lo
}

func mk(v6 bool, hi, lo uint64, n int) pfx {
	hi, lo = mask128(hi, lo, n)
	return pfx{v6, hi, lo, n}
}

// contains: p ⊇ q
func (p pfx) contains(q pfx) bool {
	if p.v6 != q.v6 || p.n > q.n {
		return false
	}
	h, l := mask128(q.hi, q.lo, p.n)
	return h == p.hi && l == p.lo
}

func (p pfx) strictlyContains(q pfx) bool { return p.n < q.n && p.contains(q) }

func (p pfx) maxLen() int {
	if p.v6 {
		return 128
	}
	return 32
}

func (p pfx) isHost() bool { return p.n == p.maxLen() }

func (p pfx) bytes() []byte {
	if !p.v6 {
		a := uint32(p.hi >> 32)
		return []byte{byte(a >> 24), byte(a >> 16), byte(a >> 8), byte(a)}
	}
	b := make([]byte, 16)
	for i := 0; i < 8; i++ {
		b[i] = byte(p.hi >> uint(56-8*i))
		b[8+i] = byte(p.lo >> uint(56-8*i))
	}
	return b
}

func (p pfx) String() string { return fmt.Sprintf("%s/%d", net.IP(p.bytes()).String(), p.n) }

// toCIDR builds the repo's CIDR through its public constructors.  raw is the unmasked address: the
// constructors are expected to canonicalise.
func toCIDR(v6 bool, hi, lo uint64, n int, viaString bool) ip.CIDR {
	raw := pfx{v6, hi, lo, n}
	bits := 32
	if v6 {
		bits = 128
	}
	if viaString {
		return ip.MustParseCIDROrIP(fmt.Sprintf("%s/%d", net.IP(raw.bytes()).String(), n))
	}
	return ip.CIDRFromIPNet(&net.IPNet{IP: net.IP(raw.bytes()), Mask: net.CIDRMask(n, bits)})
}

func fromCIDR(c ip.CIDR) (pfx, bool) {
	if c == nil {
		return pfx{}, false
	}
	b := []byte(c.Addr().AsNetIP())
	switch c.Version() {
	case 4:
		if len(b) == 16 {
			b = b[12:]
		}
		if len(b) != 4 {
			return pfx{}, false
		}
		a := uint32(b[0])<<24 | uint32(b[1])<<16 | uint32(b[2])<<8 | uint32(b[3])
		return pfx{false, uint64(a) << 32, 0, int(c.Prefix())}, true
	case 6:
		if len(b) != 16 {
			return pfx{}, false
		}
		var hi, lo uint64
		for i := 0; i < 8; i++ {
			hi = hi<<8 | uint64(b[i])
			lo = lo<<8 | uint64(b[8+i])
		}
		return pfx{true, hi, lo, int(c.Prefix())}, true
	}
	return pfx{}, false
}

// ---------------------------------------------------------------- generator

type gen struct {
	c  *harness.Case
	v6 bool
	// short: whether this case may store/query prefixes shorter than /7 (which cover nearly everything and
	// would make Covers/LPM answers uniform); true for about a third of the cases.
	short bool
}

var v4Bases = []uint32{0x0a010200, 0x0a010300, 0x0a018000, 0xc0a80000, 0x0a010200, 0x0a010300}
var v4Lens = []int{0, 1, 7, 8, 9, 15, 16, 17, 22, 23, 24, 24, 25, 25, 26, 27, 28, 29, 30, 30, 31, 31, 32, 32, 32}
var lowBytes = []uint32{0, 1, 2, 3, 4, 127, 128, 129, 254, 255}

var v6His = []uint64{0x20010db800000000, 0x20010db800000001, 0x20010db880000000, 0xa0010db800000000, 0x20010db800000000}
var v6Los = []uint64{0, 0x100, 0x8000000000000000, 0x8000000000000100, 0x0000000100000000, 0}
var v6Lens = []int{0, 1, 2, 16, 32, 33, 48, 60, 62, 63, 64, 64, 65, 66, 68, 96, 97, 112, 119, 120, 120, 121, 122, 124, 126, 127, 127, 128, 128, 128}

// raw returns an unmasked address and a length.
func (g *gen) raw() (hi, lo uint64, n int) {
	r := g.c.R
	if !g.v6 {
		a := v4Bases[r.Intn(len(v4Bases))]
		if r.Intn(3) == 0 {
			a |= uint32(r.Intn(256))
		} else {
			a |= lowBytes[r.Intn(len(lowBytes))]
		}
		n = v4Lens[r.Intn(len(v4Lens))]
		if n < 7 && !g.short {
			n = 24 + r.Intn(9)
		}
		return uint64(a) << 32, 0, n
	}
	hi = v6His[r.Intn(len(v6His))]
	lo = v6Los[r.Intn(len(v6Los))]
	if r.Intn(3) == 0 {
		lo |= uint64(r.Intn(256))
	} else {
		lo |= uint64(lowBytes[r.Intn(len(lowBytes))])
	}
	n = v6Lens[r.Intn(len(v6Lens))]
	if n < 7 && !g.short {
		n = 120 + r.Intn(9)
	}
	return hi, lo, n
}

// ---------------------------------------------------------------- the CIDRTrie run

type state struct {
	c      *harness.Case
	g      *gen
	trie   *ip.CIDRTrie
	model  map[pfx]int
	ops    []string
	serial int
}

func (s *state) sorted() []pfx {
	l := make([]pfx, 0, len(s.model))
	for p := range s.model {
		l = append(l, p)
	}
	sort.Slice(l, func(i, j int) bool {
		a, b := l[i], l[j]
		if a.hi != b.hi {
			return a.hi < b.hi
		}
		if a.lo != b.lo {
			return a.lo < b.lo
		}
		return a.n < b.n
	})
	return l
}

func (s *state) detail(q pfx) map[string]any {
	st := []string{}
	for _, p := range s.sorted() {
		st = append(st, p.String())
	}
	ops := s.ops
	if len(ops) > 80 {
		ops = ops[len(ops)-80:]
	}
	return map[string]any{"ops": ops, "stored": st, "query": q.String()}
}

func (s *state) fail(key string, q pfx, format string, a ...any) bool {
	s.c.Violationf(key, s.detail(q), format, a...)
	return false
}

// query picks a query prefix: a fresh random one, a stored one, a host or child inside a stored one,
// or a parent of a stored one.
func (s *state) query() (pfx, ip.CIDR) {
	r := s.c.R
	st := s.sorted()
	mode := r.Intn(6)
	if len(st) == 0 {
		mode = 0
	}
	switch mode {
	case 1:
		p := st[r.Intn(len(st))]
		return p, toCIDR(p.v6, p.hi, p.lo, p.n, false)
	case 2: // a host address inside a stored prefix
		p := st[r.Intn(len(st))]
		hi, lo := p.hi, p.lo
		max := p.maxLen()
		free := max - p.n
		if free > 0 {
			bitsv := uint64(r.Int63())
			if free < 63 {
				bitsv &= (uint64(1) << uint(free)) - 1
			}
			if p.v6 {
				lo |= bitsv
				if p.n < 64 && r.Intn(2) == 0 {
					hi |= uint64(r.Int63()) & (^uint64(0) >> uint(p.n))
				}
			} else {
				hi |= (bitsv & 0xffffffff & (uint64(0xffffffff) >> uint(p.n))) << 32
			}
		}
		q := mk(p.v6, hi, lo, max)
		return q, toCIDR(q.v6, q.hi, q.lo, q.n, r.Intn(2) == 0)
	case 3: // a parent of a stored prefix
		p := st[r.Intn(len(st))]
		n := p.n
		if n > 0 {
			n -= 1 + r.Intn(minInt(n, 4))
		}
		q := mk(p.v6, p.hi, p.lo, n)
		return q, toCIDR(q.v6, p.hi, p.lo, n, false)
	case 4: // a child of a stored prefix
		p := st[r.Intn(len(st))]
		n := p.n
		if n < p.maxLen() {
			n += 1 + r.Intn(minInt(p.maxLen()-n, 4))
		}
		hi, lo := p.hi, p.lo
		if p.v6 {
			lo |= uint64(r.Intn(256))
		} else {
			hi |= uint64(r.Intn(256)) << 32
		}
		if !mk(p.v6, hi, lo, p.n).contains(mk(p.v6, hi, lo, n)) || mk(p.v6, hi, lo, p.n) != p {
			hi, lo = p.hi, p.lo
		}
		q := mk(p.v6, hi, lo, n)
		return q, toCIDR(q.v6, hi, lo, n, false)
	}
	hi, lo, n := s.g.raw()
	if mode == 5 {
		n = pfx{v6: s.g.v6}.maxLen()
	}
	q := mk(s.g.v6, hi, lo, n)
	return q, toCIDR(s.g.v6, hi, lo, n, r.Intn(4) == 0)
}

func minInt(a, b int) int {
	if a < b {
		return a
	}
	return b
}

func (s *state) checkQueries(q pfx, qc ip.CIDR) bool {
	c := s.c
	// the constructor must canonicalise
	if back, ok := fromCIDR(qc); !ok || back != q {
		return s.fail("cidr-canonical-form", q, "constructor produced %v for %v", qc, q)
	}

	// --- Get
	want, stored := s.model[q]
	got := s.trie.Get(qc)
	c.Count("get", 1)
	if stored != (got != nil) || (stored && got != any(want)) {
		return s.fail("get", q, "Get(%v)=%v, stored=%v want data %v", q, got, stored, want)
	}

	// reference answers by scanning the stored prefixes
	var longestCover, longestAddr pfx
	haveCover, haveAddr, inside := false, false, false
	qHost := mk(q.v6, q.hi, q.lo, q.maxLen())
	for p := range s.model {
		if p.contains(q) && (!haveCover || p.n > longestCover.n) {
			longestCover, haveCover = p, true
		}
		if p.contains(qHost) && (!haveAddr || p.n > longestAddr.n) {
			longestAddr, haveAddr = p, true
		}
		if q.contains(p) {
			inside = true
		}
	}

	// --- LPM
	lc, ld := s.trie.LPM(qc)
	c.Count("lpm", 1)
	if q.isHost() {
		c.Count("lpm_host", 1)
		if haveCover != (ld != nil) {
			return s.fail("lpm-found", q, "LPM(%v) data=%v but a covering stored prefix exists=%v (%v)", q, ld, haveCover, longestCover)
		}
		if haveCover {
			c.Count("lpm_host_hit", 1)
			lp, ok := fromCIDR(lc)
			if !ok || lp != longestCover || ld != any(s.model[longestCover]) {
				return s.fail("lpm-longest", q, "LPM(%v)=%v,%v want %v,%v", q, lc, ld, longestCover, s.model[longestCover])
			}
		}
	} else {
		if ld != nil {
			lp, ok := fromCIDR(lc)
			d, isStored := s.model[lp]
			if !ok || !isStored || ld != any(d) || !lp.contains(qHost) {
				return s.fail("lpm-nonhost-bogus", q, "LPM(%v)=%v,%v is not a stored prefix containing the base address with its data", q, lc, ld)
			}
			if haveCover && lp.n < longestCover.n {
				return s.fail("lpm-nonhost-short", q, "LPM(%v)=%v shorter than covering stored %v", q, lc, longestCover)
			}
		} else if haveCover {
			return s.fail("lpm-nonhost-missed", q, "LPM(%v) found nothing but %v is stored and covers it", q, longestCover)
		}
	}

	// --- Covers / Intersects
	cov := s.trie.Covers(qc)
	inter := s.trie.Intersects(qc)
	c.Count("covers", 1)
	c.Count("intersects", 1)
	if cov != haveCover {
		return s.fail("covers", q, "Covers(%v)=%v want %v", q, cov, haveCover)
	}
	if haveCover {
		c.Count("covers_true", 1)
	}
	if inside && !inter {
		return s.fail("intersects-missed", q, "Intersects(%v)=false but a stored prefix lies inside it", q)
	}
	if !inside && !haveCover && inter {
		return s.fail("intersects-bogus", q, "Intersects(%v)=true but no stored prefix overlaps it", q)
	}
	if (inter || cov) != (inside || haveCover) {
		return s.fail("overlap", q, "Intersects||Covers(%v)=%v want %v", q, inter || cov, inside || haveCover)
	}
	if inside {
		c.Count("intersects_true", 1)
	}

	// --- CoveredBy (not on an empty trie)
	if len(s.model) > 0 {
		wantCB := true
		for p := range s.model {
			if !q.contains(p) {
				wantCB = false
				break
			}
		}
		c.Count("coveredby", 1)
		if wantCB {
			c.Count("coveredby_true", 1)
		}
		if gotCB := s.trie.CoveredBy(qc); gotCB != wantCB {
			return s.fail("coveredby", q, "CoveredBy(%v)=%v want %v", q, gotCB, wantCB)
		}
	}

	// --- LookupPath
	var buf []ip.CIDRTrieEntry
	if c.R.Intn(2) == 0 {
		buf = make([]ip.CIDRTrieEntry, 1, 8)
		buf[0] = ip.CIDRTrieEntry{CIDR: qc, Data: "junk"}
	}
	path := s.trie.LookupPath(buf, qc)
	c.Count("lookuppath", 1)
	wantPath := map[pfx]int{}
	if stored {
		for p, d := range s.model {
			if p.contains(q) {
				wantPath[p] = d
			}
		}
	}
	if len(path) != len(wantPath) {
		return s.fail("lookuppath", q, "LookupPath(%v) returned %d entries, want %d", q, len(path), len(wantPath))
	}
	for _, e := range path {
		p, ok := fromCIDR(e.CIDR)
		d, in := wantPath[p]
		if !ok || !in || e.Data != any(d) {
			return s.fail("lookuppath", q, "LookupPath(%v) returned unexpected %v=%v", q, e.CIDR, e.Data)
		}
		delete(wantPath, p)
	}

	// --- ClosestDescendants
	wantCD := map[pfx]bool{}
	for d := range s.model {
		if !q.strictlyContains(d) {
			continue
		}
		closest := true
		for m := range s.model {
			if q.strictlyContains(m) && m.strictlyContains(d) {
				closest = false
				break
			}
		}
		if closest {
			wantCD[d] = true
		}
	}
	var cbuf []ip.CIDR
	pre := 0
	if stored && c.R.Intn(3) == 0 {
		cbuf = append(make([]ip.CIDR, 0, 4), qc)
		pre = 1
	}
	cd := s.trie.ClosestDescendants(cbuf, qc)
	c.Count("closestdesc", 1)
	if stored {
		c.Count("closestdesc_stored_parent", 1)
		if len(cd) < pre || (pre == 1 && cd[0] != qc) {
			return s.fail("closestdesc-buffer", q, "ClosestDescendants(%v) did not append to the caller's buffer", q)
		}
		cd = cd[pre:]
		if len(cd) != len(wantCD) {
			return s.fail("closestdesc", q, "ClosestDescendants(%v)=%v want %d entries", q, cd, len(wantCD))
		}
	}
	seen := map[pfx]bool{}
	for _, e := range cd {
		p, ok := fromCIDR(e)
		if !ok || !wantCD[p] || seen[p] {
			return s.fail("closestdesc", q, "ClosestDescendants(%v) returned %v which is not a closest stored descendant (or twice)", q, e)
		}
		seen[p] = true
	}
	if stored && len(wantCD) > 0 {
		c.Count("closestdesc_nonempty", 1)
	}
	return true
}

func (s *state) checkContents() bool {
	c := s.c
	sl := s.trie.ToSlice()
	c.Count("toslice", 1)
	if len(sl) != len(s.model) {
		return s.fail("contents", pfx{v6: s.g.v6}, "ToSlice has %d entries, model %d", len(sl), len(s.model))
	}
	seen := map[pfx]bool{}
	for _, e := range sl {
		p, ok := fromCIDR(e.CIDR)
		d, in := s.model[p]
		if !ok || !in || seen[p] || e.Data != any(d) {
			return s.fail("contents", p, "ToSlice entry %v=%v not in model (or duplicated / stale data)", e.CIDR, e.Data)
		}
		seen[p] = true
	}
	// Visit, with an early stop
	stopAfter := -1
	if len(s.model) > 0 && c.R.Intn(2) == 0 {
		stopAfter = 1 + c.R.Intn(len(s.model))
	}
	calls := 0
	bad := ""
	s.trie.Visit(func(cidr ip.CIDR, data any) bool {
		calls++
		p, ok := fromCIDR(cidr)
		d, in := s.model[p]
		if !ok || !in || data != any(d) {
			bad = fmt.Sprintf("%v=%v", cidr, data)
		}
		return calls != stopAfter
	})
	wantCalls := len(s.model)
	if stopAfter > 0 {
		wantCalls = stopAfter
	}
	if bad != "" || calls != wantCalls {
		return s.fail("visit", pfx{v6: s.g.v6}, "Visit made %d calls (want %d), bad entry %q", calls, wantCalls, bad)
	}
	return true
}

func runTrie(c *harness.Case, v6 bool) bool {
	g := &gen{c: c, v6: v6, short: c.R.Intn(3) == 0}
	s := &state{c: c, g: g, trie: ip.NewCIDRTrie(), model: map[pfx]int{}}
	nops := c.Pick(60, 90)
	maxStored := 0
	deletesOfStored := 0
	for i := 0; i < nops; i++ {
		r := c.R.Intn(100)
		st := s.sorted()
		switch {
		case r < 55 || len(st) == 0:
			hi, lo, n := g.raw()
			p := mk(v6, hi, lo, n)
			s.serial++
			s.ops = append(s.ops, "update "+p.String())
			s.trie.Update(toCIDR(v6, hi, lo, n, c.R.Intn(4) == 0), s.serial)
			s.model[p] = s.serial
			c.Count("updates", 1)
		case r < 85:
			p := st[c.R.Intn(len(st))]
			s.ops = append(s.ops, "delete "+p.String())
			s.trie.Delete(toCIDR(v6, p.hi, p.lo, p.n, false))
			delete(s.model, p)
			deletesOfStored++
			c.Count("deletes_stored", 1)
		default: // delete of something probably not stored (possibly an intermediate node)
			q, qc := s.query()
			s.ops = append(s.ops, "delete "+q.String())
			s.trie.Delete(qc)
			if _, in := s.model[q]; in {
				deletesOfStored++
			}
			delete(s.model, q)
			c.Count("deletes_other", 1)
		}
		if len(s.model) > maxStored {
			maxStored = len(s.model)
		}
		if !s.checkContents() {
			return false
		}
		for k := 0; k < 6; k++ {
			q, qc := s.query()
			if !s.checkQueries(q, qc) {
				return false
			}
		}
	}
	// drain: delete everything in random order, checking along the way
	st := s.sorted()
	c.R.Shuffle(len(st), func(i, j int) { st[i], st[j] = st[j], st[i] })
	for _, p := range st {
		s.ops = append(s.ops, "delete "+p.String())
		s.trie.Delete(toCIDR(v6, p.hi, p.lo, p.n, false))
		delete(s.model, p)
		c.Count("deletes_stored", 1)
		if !s.checkContents() {
			return false
		}
		q, qc := s.query()
		if !s.checkQueries(q, qc) {
			return false
		}
	}
	if maxStored >= 4 && deletesOfStored >= 2 {
		fp := s.ops
		if len(fp) > 12 {
			fp = fp[:12]
		}
		c.NonTrivial(v6, fmt.Sprint(fp))
	}
	c.Distinct("max_stored", maxStored)
	if c.Index < 4 {
		first := s.ops
		if len(first) > 20 {
			first = first[:20]
		}
		c.Sample(map[string]any{"v6": v6, "first_ops": first, "max_stored": maxStored})
	}
	return true
}

// ---------------------------------------------------------------- calc.IpTrie (patricia based)

func runIpTrie(c *harness.Case) {
	t := calc.NewIpTrie()
	type ck struct {
		p pfx
		k string
	}
	modelKeys := map[pfx]map[string]bool{}
	names := []string{"g1", "g2", "ns1/a", "ns1/b", "ns2/a", "ns3/z"}
	var ops []string
	fail := func(key string, format string, a ...any) {
		st := []string{}
		for p, ks := range modelKeys {
			st = append(st, fmt.Sprintf("%v:%v", p, len(ks)))
		}
		sort.Strings(st)
		c.Violationf("iptrie-"+key, map[string]any{"ops": ops, "stored": st}, format, a...)
	}
	nsOf := func(name string) string {
		for i := 0; i < len(name); i++ {
			if name[i] == '/' {
				return name[:i]
			}
		}
		return ""
	}
	short := c.R.Intn(3) == 0
	g4, g6 := &gen{c: c, v6: false, short: short}, &gen{c: c, v6: true, short: short}
	rnd := func() (pfx, ip.CIDR) {
		g := g4
		if c.R.Intn(3) == 0 {
			g = g6
		}
		hi, lo, n := g.raw()
		return mk(g.v6, hi, lo, n), toCIDR(g.v6, hi, lo, n, false)
	}
	for i := 0; i < 40; i++ {
		var present []ck
		for p, ks := range modelKeys {
			for k := range ks {
				present = append(present, ck{p, k})
			}
		}
		sort.Slice(present, func(i, j int) bool {
			if present[i].p.String() != present[j].p.String() {
				return present[i].p.String() < present[j].p.String()
			}
			return present[i].k < present[j].k
		})
		if c.R.Intn(100) < 60 || len(present) == 0 {
			p, pc := rnd()
			if len(present) > 0 && c.R.Intn(3) == 0 { // another key for an existing CIDR
				p = present[c.R.Intn(len(present))].p
				pc = toCIDR(p.v6, p.hi, p.lo, p.n, false)
			}
			name := names[c.R.Intn(len(names))]
			ops = append(ops, fmt.Sprintf("insert %v %s", p, name))
			t.InsertKey(pc, model.NetworkSetKey{Name: name})
			if modelKeys[p] == nil {
				modelKeys[p] = map[string]bool{}
			}
			modelKeys[p][name] = true
			c.Count("iptrie_inserts", 1)
		} else {
			e := present[c.R.Intn(len(present))]
			ops = append(ops, fmt.Sprintf("delete %v %s", e.p, e.k))
			t.DeleteKey(toCIDR(e.p.v6, e.p.hi, e.p.lo, e.p.n, false), model.NetworkSetKey{Name: e.k})
			delete(modelKeys[e.p], e.k)
			if len(modelKeys[e.p]) == 0 {
				delete(modelKeys, e.p)
			}
			c.Count("iptrie_deletes", 1)
		}
		// queries
		for k := 0; k < 4; k++ {
			q, qc := rnd()
			if c.R.Intn(2) == 0 && len(present) > 0 {
				q = present[c.R.Intn(len(present))].p
				qc = toCIDR(q.v6, q.hi, q.lo, q.n, false)
			}
			// GetKeys
			keys, ok := t.GetKeys(qc)
			want := modelKeys[q]
			c.Count("iptrie_getkeys", 1)
			if ok != (len(want) > 0) || len(keys) != len(want) {
				fail("getkeys", "GetKeys(%v)=%v,%v want %d keys", q, keys, ok, len(want))
				return
			}
			for _, kk := range keys {
				nk, isNS := kk.(model.NetworkSetKey)
				if !isNS || !want[nk.Name] {
					fail("getkeys", "GetKeys(%v) returned foreign key %v", q, kk)
					return
				}
			}
			// LPM on the base address of q (as a host address)
			host := mk(q.v6, q.hi, q.lo, q.maxLen())
			if c.R.Intn(2) == 0 { // or a random host inside q
				if q.v6 {
					host = mk(true, q.hi, q.lo|uint64(c.R.Intn(256)), 128)
				} else {
					host = mk(false, q.hi|uint64(c.R.Intn(256))<<32, 0, 32)
				}
			}
			addr := ip.FromNetIP(net.IP(host.bytes()))
			var best pfx
			have := false
			for p := range modelKeys {
				if p.contains(host) && (!have || p.n > best.n) {
					best, have = p, true
				}
			}
			gk, found := t.GetLongestPrefixCidr(addr)
			c.Count("iptrie_lpm", 1)
			if found != have {
				fail("lpm-found", "GetLongestPrefixCidr(%v) found=%v want %v (%v)", host, found, have, best)
				return
			}
			if have {
				c.Count("iptrie_lpm_hit", 1)
				nk, isNS := gk.(model.NetworkSetKey)
				if !isNS || !modelKeys[best][nk.Name] {
					fail("lpm-key", "GetLongestPrefixCidr(%v)=%v is not a key of the longest stored prefix %v", host, gk, best)
					return
				}
			}
			// namespace-isolated LPM
			pref := []string{"", "ns1", "ns2", "nsX"}[c.R.Intn(4)]
			classBest := [3]pfx{}
			classHave := [3]bool{}
			for p, ks := range modelKeys {
				if !p.contains(host) {
					continue
				}
				for name := range ks {
					cl := 2
					switch ns := nsOf(name); {
					case pref != "" && ns == pref:
						cl = 0
					case ns == "":
						cl = 1
					}
					if !classHave[cl] || p.n > classBest[cl].n {
						classBest[cl], classHave[cl] = p, true
					}
				}
			}
			gk, found = t.GetLongestPrefixCidrWithNamespaceIsolation(addr, pref)
			c.Count("iptrie_lpm_ns", 1)
			wantCl := -1
			for cl := 0; cl < 3; cl++ {
				if classHave[cl] {
					wantCl = cl
					break
				}
			}
			if found != (wantCl >= 0) {
				fail("lpm-ns-found", "ns-isolated LPM(%v,%q) found=%v want %v", host, pref, found, wantCl >= 0)
				return
			}
			if wantCl >= 0 {
				nk, isNS := gk.(model.NetworkSetKey)
				okKey := isNS && modelKeys[classBest[wantCl]][nk.Name]
				if okKey {
					ns := nsOf(nk.Name)
					cl := 2
					switch {
					case pref != "" && ns == pref:
						cl = 0
					case ns == "":
						cl = 1
					}
					okKey = cl == wantCl
				}
				if !okKey {
					fail("lpm-ns-key", "ns-isolated LPM(%v,%q)=%v want a class-%d key of %v", host, pref, gk, wantCl, classBest[wantCl])
					return
				}
			}
		}
	}
}

func run(c *harness.Case) {
	v6 := c.Index%2 == 1
	if !runTrie(c, v6) {
		return
	}
	if c.Index%4 == 0 {
		runIpTrie(c)
	}
}

func main() {
	logrus.SetOutput(io.Discard)
	logrus.SetLevel(logrus.PanicLevel)
	harness.Main(harness.Check{
		ID:    "C36",
		Level: "exploration",
		Rule: "even cases IPv4, odd IPv6; 60 (thorough 90) PRNG ops update/delete over prefixes concentrated in sibling /24s (v4) or /120s and around the /64 word boundary (v6) plus /0,/1 and host routes, " +
			"then a drain in random order; after every op ToSlice/Visit are compared with the model and 6 queries (random, stored, host-inside, parent-of, child-of stored) are judged for Get/LPM/Covers/Intersects/CoveredBy/LookupPath/ClosestDescendants; " +
			"every 4th case also drives calc.IpTrie with 40 ops. Non-trivial = at least 4 prefixes stored at once and 2 stored prefixes deleted; distinct by version and first 12 ops",
		Assumptions: []string{
			"oracle = map of stored prefixes with mask-and-compare containment on two uint64 words, written in the check",
			"LPM judged exactly only for single-address queries (see Deliberately not checked in checks/c36/main.go)",
			"Intersects judged as 'a stored prefix lies inside the query'; Intersects||Covers judged as full overlap",
			"CoveredBy is not called on an empty trie (nil-root dereference in the code under test, no production caller)",
		},
		Cases: func(tier string) int {
			if tier == "thorough" {
				return 60000
			}
			return 3000
		},
		Run: run,
		Floors: map[string]int64{"updates": 10000, "deletes_stored": 5000, "lpm_host_hit": 10000, "covers_true": 10000,
			"intersects_true": 10000, "coveredby_true": 300, "closestdesc_nonempty": 2000, "lookuppath": 50000, "iptrie_lpm_hit": 2000},
	})
}

// C26 — datastore watchers converge across watch failures and resyncs.
//
// Real code driven: libcalico-go/lib/backend/watchersyncer (watchersyncer.New -> watcherSyncer.run,
// one watcherCache per resource type) over a scripted fake api.Client.  The package's exported
// interval variables (MinResyncInterval, ListRetryInterval, WatchPollInterval, MissingAPIRetryTime)
// are shortened once, before any goroutine exists; the watch retry timeout is set per case through
// the exported option WithWatchRetryTimeout (1ns = every list error counts as a lost connection,
// 1h = never).
//
// The fake client is a *consistent* API server model: one versioned store with a global revision,
// a per-type event log, List = current content + current revision, Watch(rev) = replay of every
// event of the type with revision > rev followed by live events, bookmarks only when caught up, fresh
// KVPair copies per delivery.  Faults are scripted per type and per call index (all drawn from c.R
// before the syncer starts):
//
//	List:   ok | datastore error | NotFound (API not installed) | ResourceExpired | "too large
//	        resource version" | empty list with empty revision (only while the type is empty)
//	Watch:  ok | datastore error | ResourceExpired | Gone | connection refused | TooManyRequests |
//	        ErrorOperationNotSupported | ErrorResourceDoesNotExist | too large resource version
//	stream: after n events: error event | ResourceExpired error event | channel closed; bookmarks
//
// A pre-generated list of datastore mutations is applied while the syncer runs (paced with short
// sleeps; pacing never decides anything).  When the mutation list is finished every pending stream
// fault fires as soon as its watcher is caught up; fault scripts are finite, so every type ends in a
// stable List+Watch ("settled": the fake has handed out a watcher that never fails).  Barrier: after
// all types are settled the driver writes one marker resource per type; the marker is delivered by
// the stable watcher after everything the cache sent before (one results channel, FIFO), so when the
// recorder holds every marker at the marker's revision, everything earlier has been delivered.
//
// Oracle (recorded at the SyncerCallbacks boundary only)
//   - at the barrier: recorder map (key -> value, revision) == conversion of the store's final content
//     (so keys that vanished while a watch was down must have been deleted, values must be current);
//   - no OnUpdates between OnStatusUpdated(WaitForDatastore) and the next OnStatusUpdated (checked for
//     the whole run including Stop);
//   - at every OnStatusUpdated(InSync): every resource type has had at least one List call answered
//     with a complete answer (success, or NotFound = "this API is not installed, there is nothing").
//
// Deliberately not checked
//   - UpdateType (new/updated) of notifications, number and order of intermediate notifications.
//   - The exact status sequence (the code's sticky-InSync special cases for polling / missing API are
//     more specific than the statement); only the two status clauses of the statement are judged.
//   - NotFound from List is counted as a completed (empty) list for the in-sync clause: that is what
//     the code documents as a valid long-term state, and the statement does not distinguish it.
//   - Conversion: the SyncerUpdateProcessor is the harness's own (stateless; every Process call
//     returns a set-or-delete for each of the two keys a resource can map to, and deletes plus an error
//     for an unconvertible resource), which is the documented contract of that plug-in interface.
//   - SyncFailed / ParseFailed callbacks are counted, not judged.
//
// A third of the faulty cases are "blackouts": every type's first watch expires at once and is followed
// by a run of List errors under a 1ns retry timeout, so that all caches regress to WaitForDatastore
// together; half of those stop the syncer in the middle of the blackout (bounded pacing wait for the
// regression to show; if it does not show the case continues normally) and judge only the two status
// clauses, because Stop() makes the caches send their shutdown deletions while waiting.
//
// Thread schedules (syncer goroutines vs. the mutation driver) are real and not replayable; the
// fault scripts, the mutation list and the per-type configuration are.  A watchdog firing while
// waiting for "settled" or for the markers is Inconclusive.
package main

import (
	"context"
	"errors"
	"fmt"
	"io"
	"os"
	"sort"
	"strconv"
	"sync"
	"sync/atomic"
	"syscall"
	"time"

	apiv3 "github.com/projectcalico/api/pkg/apis/projectcalico/v3"
	"github.com/sirupsen/logrus"
	kerrors "k8s.io/apimachinery/pkg/api/errors"
	metav1 "k8s.io/apimachinery/pkg/apis/meta/v1"

	"github.com/projectcalico/calico/libcalico-go/lib/backend/api"
	"github.com/projectcalico/calico/libcalico-go/lib/backend/model"
	"github.com/projectcalico/calico/libcalico-go/lib/backend/watchersyncer"
	cerrors "github.com/projectcalico/calico/libcalico-go/lib/errors"

	"verif/internal/harness"
)

// ---------------------------------------------------------------------------------------------
// model datastore

type rawVal struct {
	A, B, Invalid bool
	Payload       string
}

type obj struct {
	val rawVal
	rev int
}

type ev struct {
	rev  int
	del  bool
	name string
	o    obj // set: new object; del: old object (its rev is the deletion revision)
}

type listOutcome int

const (
	lOK listOutcome = iota
	lGeneric
	lNotFound
	lExpired
	lTooLarge
	lEmptyRev
)

var listNames = []string{"ok", "error", "notfound", "expired", "toolarge", "empty-norev"}

type watchOutcome int

const (
	wOK watchOutcome = iota
	wGeneric
	wExpired
	wGone
	wRefused
	wTooMany
	wNotSupported
	wNotExist
	wTooLarge
)

var watchNames = []string{"ok", "error", "expired", "gone", "refused", "toomany", "notsupported", "notexist", "toolarge"}

const (
	sStable = iota
	sErrGeneric
	sErrExpired
	sClose
)

var streamNames = []string{"stable", "error-event", "expired-event", "closed"}

type streamPlan struct {
	n         int
	end       int
	bookmarks bool
}

type typeState struct {
	idx         int
	kind        string
	ns          string
	hasProc     bool
	sendDeletes bool
	late        bool

	objs map[string]obj
	log  []ev
	told map[string]bool // names the cache has been told exist (coverage counter only)

	listOut  []listOutcome
	watchOut []watchOutcome
	streams  []streamPlan

	listCalls, watchCalls, streamsUsed int
	listsDone                          int
	settled                            bool
}

func (t *typeState) rawKey(name string) model.ResourceKey {
	return model.ResourceKey{Kind: t.kind, Namespace: t.ns, Name: name}
}

func (t *typeState) convKeys(name string) (model.ResourceKey, model.ResourceKey) {
	return model.ResourceKey{Kind: t.kind, Namespace: t.ns, Name: name + "-a"},
		model.ResourceKey{Kind: t.kind, Namespace: t.ns, Name: name + "-b"}
}

type rec struct {
	f string
	a []any
}

func render(l []rec) []string {
	out := make([]string, len(l))
	for i, r := range l {
		out[i] = fmt.Sprintf(r.f, r.a...)
	}
	return out
}

type fake struct {
	mu   sync.Mutex
	cond *sync.Cond

	rev      int
	types    []*typeState
	byKind   map[string]*typeState
	quiesce  bool
	shutdown bool
	trace    []rec

	// measured
	nList, nListErr, nListNotFound, nListEmptyRev, nWatch, nWatchErr, nWatchNotSupp int64
	nEvents, nBookmarks, nStreamErr, nStreamExpired, nStreamClosed, nResyncVanished   int64
	nRelists                                                                         int64
}

const maxTrace = 500

func (f *fake) tr(format string, a ...any) {
	if len(f.trace) < maxTrace {
		f.trace = append(f.trace, rec{format, a})
	}
}

func newFake() *fake {
	f := &fake{rev: 10, byKind: map[string]*typeState{}}
	f.cond = sync.NewCond(&f.mu)
	return f
}

func (f *fake) typeOf(li model.ListInterface) *typeState {
	lo, ok := li.(model.ResourceListOptions)
	if !ok {
		panic(fmt.Sprintf("harness: unexpected list interface %T", li))
	}
	return f.byKind[lo.Kind]
}

// set / delete a resource.  Lock NOT held.
func (f *fake) set(t *typeState, name string, v rawVal) int {
	f.mu.Lock()
	defer f.mu.Unlock()
	f.rev++
	o := obj{val: v, rev: f.rev}
	t.objs[name] = o
	t.log = append(t.log, ev{rev: f.rev, name: name, o: o})
	f.cond.Broadcast()
	return f.rev
}

func (f *fake) del(t *typeState, name string) {
	f.mu.Lock()
	defer f.mu.Unlock()
	o, ok := t.objs[name]
	if !ok {
		return
	}
	f.rev++
	delete(t.objs, name)
	o.rev = f.rev
	t.log = append(t.log, ev{rev: f.rev, del: true, name: name, o: o})
	f.cond.Broadcast()
}

func (t *typeState) kvp(name string, o obj) *model.KVPair {
	return &model.KVPair{Key: t.rawKey(name), Value: o.val, Revision: strconv.Itoa(o.rev)}
}

var dsErr = cerrors.ErrorDatastoreError{Err: errors.New("verif: scripted datastore error")}

func tooLargeErr() error {
	return &kerrors.StatusError{ErrStatus: metav1.Status{
		Status: metav1.StatusFailure, Code: 504, Reason: metav1.StatusReasonTimeout,
		Message: "Too large resource version",
		Details: &metav1.StatusDetails{Causes: []metav1.StatusCause{{Type: metav1.CauseTypeResourceVersionTooLarge, Message: "Too large resource version"}}},
	}}
}

func (f *fake) List(ctx context.Context, li model.ListInterface, revision string) (*model.KVPairList, error) {
	t := f.typeOf(li)
	f.mu.Lock()
	defer f.mu.Unlock()
	call := t.listCalls
	t.listCalls++
	f.nList++
	if t.late && call == 0 {
		// Hold this type's first List until every other type has had a complete List answer, so that
		// a premature in-sync would be observable.  Purely logical gate plus a pacing sleep.
		stop := context.AfterFunc(ctx, func() {
			f.mu.Lock()
			f.cond.Broadcast()
			f.mu.Unlock()
		})
		for !f.shutdown && ctx.Err() == nil {
			all := true
			for _, o := range f.types {
				if o != t && o.listsDone == 0 {
					all = false
				}
			}
			if all {
				break
			}
			f.cond.Wait()
		}
		stop()
		f.mu.Unlock()
		time.Sleep(1500 * time.Microsecond)
		f.mu.Lock()
	}
	if f.shutdown || ctx.Err() != nil {
		return nil, dsErr
	}
	out := lOK
	if call < len(t.listOut) {
		out = t.listOut[call]
	}
	if (out == lExpired || out == lTooLarge) && (revision == "" || revision == "0") {
		out = lGeneric
	}
	if out == lEmptyRev && len(t.objs) > 0 {
		out = lOK
	}
	f.tr("List %s call=%d rev=%s -> %s (store rev %d, %d objs)", t.kind, call, revision, listNames[out], f.rev, len(t.objs))
	switch out {
	case lGeneric:
		f.nListErr++
		return nil, dsErr
	case lExpired:
		f.nListErr++
		return nil, kerrors.NewResourceExpired("verif: scripted too old resource version")
	case lTooLarge:
		f.nListErr++
		return nil, tooLargeErr()
	case lNotFound:
		f.nListNotFound++
		t.listsDone++
		f.cond.Broadcast()
		return nil, kerrors.NewNotFound(apiv3.Resource(t.kind), "")
	case lEmptyRev:
		f.nListEmptyRev++
		t.listsDone++
		f.cond.Broadcast()
		for n := range t.told {
			delete(t.told, n)
			f.nResyncVanished++
		}
		return &model.KVPairList{Revision: ""}, nil
	}
	names := make([]string, 0, len(t.objs))
	for n := range t.objs {
		names = append(names, n)
	}
	sort.Strings(names)
	l := &model.KVPairList{Revision: strconv.Itoa(f.rev)}
	for _, n := range names {
		l.KVPairs = append(l.KVPairs, t.kvp(n, t.objs[n]))
	}
	if t.listsDone > 0 {
		f.nRelists++
	}
	for n := range t.told {
		if _, ok := t.objs[n]; !ok {
			delete(t.told, n)
			f.nResyncVanished++
		}
	}
	for _, n := range names {
		t.told[n] = true
	}
	t.listsDone++
	f.cond.Broadcast()
	return l, nil
}

type watcher struct {
	f        *fake
	t        *typeState
	plan     streamPlan
	startRev int
	ch       chan api.WatchEvent
	stopCh   chan struct{}
	once     sync.Once
	stopped  bool
	done     atomic.Bool
}

func (w *watcher) Stop() {
	w.once.Do(func() { close(w.stopCh) })
	w.f.mu.Lock()
	w.stopped = true
	w.f.cond.Broadcast()
	w.f.mu.Unlock()
}
func (w *watcher) ResultChan() <-chan api.WatchEvent { return w.ch }
func (w *watcher) HasTerminated() bool               { return w.done.Load() }

func (w *watcher) send(ctx context.Context, e api.WatchEvent) bool {
	select {
	case w.ch <- e:
		return true
	case <-w.stopCh:
		return false
	case <-ctx.Done():
		return false
	}
}

func (w *watcher) run(ctx context.Context) {
	f, t := w.f, w.t
	defer func() {
		w.done.Store(true)
		close(w.ch)
	}()
	stop := context.AfterFunc(ctx, func() {
		f.mu.Lock()
		f.cond.Broadcast()
		f.mu.Unlock()
	})
	defer stop()
	f.mu.Lock()
	cursor := sort.Search(len(t.log), func(i int) bool { return t.log[i].rev > w.startRev })
	delivered := 0
	lastBookmark := -1
	for {
		if w.stopped || f.shutdown || ctx.Err() != nil {
			f.mu.Unlock()
			return
		}
		if w.plan.end != sStable && (delivered >= w.plan.n || (f.quiesce && cursor >= len(t.log))) {
			f.tr("Watch %s from %d: terminating after %d events with %s", t.kind, w.startRev, delivered, streamNames[w.plan.end])
			switch w.plan.end {
			case sErrGeneric:
				f.nStreamErr++
				f.mu.Unlock()
				w.send(ctx, api.WatchEvent{Type: api.WatchError, Error: dsErr})
			case sErrExpired:
				f.nStreamExpired++
				f.mu.Unlock()
				w.send(ctx, api.WatchEvent{Type: api.WatchError, Error: kerrors.NewResourceExpired("verif: scripted too old resource version")})
			default:
				f.nStreamClosed++
				f.mu.Unlock()
			}
			return
		}
		if cursor < len(t.log) {
			e := t.log[cursor]
			cursor++
			var we api.WatchEvent
			if e.del {
				we = api.WatchEvent{Type: api.WatchDeleted, Old: t.kvp(e.name, e.o)}
				delete(t.told, e.name)
			} else {
				we = api.WatchEvent{Type: api.WatchModified, New: t.kvp(e.name, e.o)}
				if !t.told[e.name] {
					we.Type = api.WatchAdded
				}
				t.told[e.name] = true
			}
			f.nEvents++
			f.mu.Unlock()
			if !w.send(ctx, we) {
				return
			}
			delivered++
			f.mu.Lock()
			continue
		}
		if w.plan.bookmarks && lastBookmark != f.rev {
			lastBookmark = f.rev
			f.nBookmarks++
			b := api.WatchEvent{Type: api.WatchBookmark, New: &model.KVPair{Revision: strconv.Itoa(f.rev)}}
			f.mu.Unlock()
			if !w.send(ctx, b) {
				return
			}
			f.mu.Lock()
			continue
		}
		f.cond.Wait()
	}
}

func (f *fake) Watch(ctx context.Context, li model.ListInterface, opts api.WatchOptions) (api.WatchInterface, error) {
	t := f.typeOf(li)
	f.mu.Lock()
	defer f.mu.Unlock()
	call := t.watchCalls
	t.watchCalls++
	f.nWatch++
	if f.shutdown || ctx.Err() != nil {
		return nil, dsErr
	}
	out := wOK
	if call < len(t.watchOut) {
		out = t.watchOut[call]
	}
	f.tr("Watch %s call=%d rev=%s -> %s", t.kind, call, opts.Revision, watchNames[out])
	if out != wOK {
		f.nWatchErr++
	}
	switch out {
	case wGeneric:
		return nil, dsErr
	case wExpired:
		return nil, kerrors.NewResourceExpired("verif: scripted too old resource version")
	case wGone:
		return nil, kerrors.NewGone("verif: scripted gone")
	case wRefused:
		return nil, fmt.Errorf("verif: dial: %w", os.NewSyscallError("connect", syscall.ECONNREFUSED))
	case wTooMany:
		return nil, kerrors.NewTooManyRequests("verif: scripted 429", 0)
	case wNotSupported:
		f.nWatchNotSupp++
		return nil, cerrors.ErrorOperationNotSupported{Operation: "Watch", Identifier: li}
	case wNotExist:
		f.nWatchNotSupp++
		return nil, cerrors.ErrorResourceDoesNotExist{Identifier: li, Err: errors.New("verif: nothing to watch yet")}
	case wTooLarge:
		return nil, tooLargeErr()
	}
	start, err := strconv.Atoi(opts.Revision)
	if err != nil {
		start = 0
	}
	plan := streamPlan{end: sStable, bookmarks: true}
	if t.streamsUsed < len(t.streams) {
		plan = t.streams[t.streamsUsed]
		t.streamsUsed++
	}
	w := &watcher{f: f, t: t, plan: plan, startRev: start, ch: make(chan api.WatchEvent), stopCh: make(chan struct{})}
	if plan.end == sStable {
		t.settled = true
		f.cond.Broadcast()
	}
	go w.run(ctx)
	return w, nil
}

// unused parts of api.Client
func (f *fake) Create(context.Context, *model.KVPair) (*model.KVPair, error)     { panic("unused") }
func (f *fake) Update(context.Context, *model.KVPair) (*model.KVPair, error)     { panic("unused") }
func (f *fake) Apply(context.Context, *model.KVPair) (*model.KVPair, error)      { panic("unused") }
func (f *fake) Delete(context.Context, model.Key, string) (*model.KVPair, error) { panic("unused") }
func (f *fake) DeleteKVP(context.Context, *model.KVPair) (*model.KVPair, error)  { panic("unused") }
func (f *fake) Get(context.Context, model.Key, string) (*model.KVPair, error)    { panic("unused") }
func (f *fake) EnsureInitialized() error                                         { return nil }
func (f *fake) Clean() error                                                     { return nil }
func (f *fake) Close() error                                                     { return nil }

// ---------------------------------------------------------------------------------------------
// SyncerUpdateProcessor of the harness (stateless, obeys the documented contract)

type proc struct {
	t        *typeState
	starts   atomic.Int64
	converts atomic.Int64
}

func (p *proc) OnSyncerStarting() { p.starts.Add(1) }

func (p *proc) Process(kvp *model.KVPair) ([]*model.KVPair, error) {
	p.converts.Add(1)
	rk := kvp.Key.(model.ResourceKey)
	ka, kb := p.t.convKeys(rk.Name)
	if kvp.Value == nil {
		return []*model.KVPair{{Key: ka}, {Key: kb}}, nil
	}
	v := kvp.Value.(rawVal)
	if v.Invalid {
		var err error = errors.New("verif: unconvertible resource")
		if len(v.Payload)%2 == 0 {
			err = cerrors.ErrorParsingDatastoreEntry{RawKey: rk.String(), RawValue: v.Payload, Err: err}
		}
		return []*model.KVPair{{Key: ka}, {Key: kb}}, err
	}
	out := []*model.KVPair{{Key: ka}, {Key: kb}}
	if v.A {
		out[0] = &model.KVPair{Key: ka, Value: v.Payload + "/a", Revision: kvp.Revision}
	}
	if v.B {
		out[1] = &model.KVPair{Key: kb, Value: v.Payload + "/b", Revision: kvp.Revision}
	}
	return out, nil
}

type entry struct {
	val any
	rev string
}

// expected conversion of the store's content.  fake lock held by caller.
func (f *fake) expected() map[string]entry {
	m := map[string]entry{}
	for _, t := range f.types {
		for name, o := range t.objs {
			rev := strconv.Itoa(o.rev)
			if !t.hasProc {
				m[t.rawKey(name).String()] = entry{o.val, rev}
				continue
			}
			if o.val.Invalid {
				continue
			}
			ka, kb := t.convKeys(name)
			if o.val.A {
				m[ka.String()] = entry{o.val.Payload + "/a", rev}
			}
			if o.val.B {
				m[kb.String()] = entry{o.val.Payload + "/b", rev}
			}
		}
	}
	return m
}

// ---------------------------------------------------------------------------------------------
// recorder

type finding struct {
	key, msg string
	detail   map[string]any
}

type recorder struct {
	mu   sync.Mutex
	cond *sync.Cond
	f    *fake

	m          map[string]entry
	haveStatus bool
	lastStatus api.SyncStatus
	statuses   []string
	findings   []finding

	nSets, nDels, nCallbacks, nStatus, nInSync, nWFD, nParseFailed, nSyncFailed int64
}

func newRecorder(f *fake) *recorder {
	r := &recorder{f: f, m: map[string]entry{}}
	r.cond = sync.NewCond(&r.mu)
	return r
}

func (r *recorder) addFinding(key, msg string, d map[string]any) {
	if len(r.findings) < 6 {
		r.findings = append(r.findings, finding{key, msg, d})
	}
}

func (r *recorder) OnStatusUpdated(st api.SyncStatus) {
	r.mu.Lock()
	defer r.mu.Unlock()
	r.nStatus++
	if len(r.statuses) < 60 {
		r.statuses = append(r.statuses, st.String())
	}
	switch st {
	case api.InSync:
		r.nInSync++
		r.f.mu.Lock()
		var notListed []string
		for _, t := range r.f.types {
			if t.listsDone == 0 {
				notListed = append(notListed, t.kind)
			}
		}
		r.f.mu.Unlock()
		if len(notListed) > 0 {
			r.addFinding("insync-before-every-type-listed",
				fmt.Sprintf("OnStatusUpdated(InSync) while no List of %v has been answered yet", notListed),
				map[string]any{"types_not_listed": notListed, "statuses": append([]string(nil), r.statuses...)})
		}
	case api.WaitForDatastore:
		if r.haveStatus {
			r.nWFD++
		}
	}
	r.haveStatus = true
	r.lastStatus = st
	r.cond.Broadcast()
}

func (r *recorder) OnUpdates(us []api.Update) {
	r.mu.Lock()
	defer r.mu.Unlock()
	r.nCallbacks++
	if r.haveStatus && r.lastStatus == api.WaitForDatastore {
		var keys []string
		for _, u := range us {
			keys = append(keys, fmt.Sprintf("%v(%v)", u.Key, u.UpdateType))
		}
		r.addFinding("update-while-waiting-for-datastore",
			fmt.Sprintf("OnUpdates with %d update(s) after OnStatusUpdated(WaitForDatastore) and before the next status: %v", len(us), head(keys)),
			map[string]any{"updates": head(keys), "statuses": append([]string(nil), r.statuses...)})
	}
	for _, u := range us {
		k := u.Key.String()
		if u.Value == nil {
			r.nDels++
			delete(r.m, k)
		} else {
			r.nSets++
			r.m[k] = entry{u.Value, u.Revision}
		}
	}
	r.cond.Broadcast()
}

func (r *recorder) ParseFailed(string, string) {
	r.mu.Lock()
	r.nParseFailed++
	r.mu.Unlock()
}

func (r *recorder) SyncFailed(error) {
	r.mu.Lock()
	r.nSyncFailed++
	r.mu.Unlock()
}

func head(l []string) []string {
	if len(l) > 12 {
		return l[:12]
	}
	return l
}

// ---------------------------------------------------------------------------------------------
// case generation

var kinds = []struct {
	kind string
	ns   string
}{
	{apiv3.KindNetworkPolicy, "ns1"},
	{apiv3.KindIPPool, ""},
	{apiv3.KindBGPPeer, ""},
	{apiv3.KindGlobalNetworkPolicy, ""},
}

type mutation struct {
	t     int
	name  string
	del   bool
	val   rawVal
	sleep time.Duration
}

func genVal(r interface{ Intn(int) int }, n int) rawVal {
	v := rawVal{Payload: fmt.Sprintf("p%d", n)}
	switch r.Intn(8) {
	case 0:
		v.Invalid = true
	case 1:
		// maps to no key at all
	case 2, 3:
		v.A = true
	case 4:
		v.B = true
	default:
		v.A, v.B = true, true
	}
	return v
}

func run(c *harness.Case) {
	r := c.R
	f := newFake()
	nTypes := 2 + r.Intn(3)
	perm := r.Perm(len(kinds))
	lateIdx := -1
	if r.Intn(2) == 0 {
		lateIdx = r.Intn(nTypes)
	}
	faulty := r.Intn(10) != 0 // one case in ten has no faults at all
	// blackout: every type loses its watch right after the first sync and then sees a run of List
	// errors with a 1ns retry timeout, so that all caches report WaitForDatastore at the same time.
	blackout := faulty && r.Intn(3) == 0
	stopInBlackout := blackout && r.Intn(2) == 0
	var planDesc []string
	for i := 0; i < nTypes; i++ {
		k := kinds[perm[i]]
		t := &typeState{idx: i, kind: k.kind, ns: k.ns, hasProc: r.Intn(3) != 0, sendDeletes: r.Intn(2) == 0,
			late: i == lateIdx, objs: map[string]obj{}, told: map[string]bool{}}
		if blackout {
			t.listOut = append(t.listOut, lOK)
			nerr := 3 + r.Intn(6)
			if stopInBlackout {
				nerr = 60
			}
			for j := 0; j < nerr; j++ {
				t.listOut = append(t.listOut, lGeneric)
			}
			t.streams = append(t.streams, streamPlan{n: r.Intn(2), end: sErrExpired})
		}
		if faulty {
			// list faults
			for j, n := 0, r.Intn(5); j < n; j++ {
				o := lOK
				if r.Intn(3) != 0 {
					o = listOutcome(1 + r.Intn(5))
				}
				t.listOut = append(t.listOut, o)
			}
			// watch creation faults, sometimes a long run of plain errors (-> MaxErrorsPerRevision)
			if r.Intn(6) == 0 {
				for j, n := 0, 4+r.Intn(4); j < n; j++ {
					t.watchOut = append(t.watchOut, wGeneric)
				}
			}
			for j, n := 0, r.Intn(6); j < n; j++ {
				o := wOK
				if r.Intn(2) == 0 {
					o = watchOutcome(1 + r.Intn(8))
				}
				t.watchOut = append(t.watchOut, o)
			}
			for j, n := 0, r.Intn(5); j < n; j++ {
				t.streams = append(t.streams, streamPlan{n: r.Intn(5), end: 1 + r.Intn(3), bookmarks: r.Intn(2) == 0})
			}
			if r.Intn(8) == 0 { // a run of error events (-> MaxErrorsPerRevision through the event path)
				for j := 0; j < 5; j++ {
					t.streams = append(t.streams, streamPlan{n: 0, end: sErrGeneric})
				}
			}
		}
		f.types = append(f.types, t)
		f.byKind[t.kind] = t
		var lo, wo, so []string
		for _, o := range t.listOut {
			lo = append(lo, listNames[o])
		}
		for _, o := range t.watchOut {
			wo = append(wo, watchNames[o])
		}
		for _, s := range t.streams {
			so = append(so, fmt.Sprintf("%d:%s", s.n, streamNames[s.end]))
		}
		planDesc = append(planDesc, fmt.Sprintf("%s proc=%v sendDeletes=%v late=%v list=%v watch=%v streams=%v",
			t.kind, t.hasProc, t.sendDeletes, t.late, lo, wo, so))
	}
	nNames := 2 + r.Intn(7)
	valN := 0
	// initial content
	for _, t := range f.types {
		for j := 0; j < nNames; j++ {
			if r.Intn(3) == 0 {
				valN++
				f.set(t, "r"+strconv.Itoa(j), genVal(r, valN))
			}
		}
	}
	// mutation list
	nMut := 20 + r.Intn(c.Pick(100, 300))
	muts := make([]mutation, nMut)
	for i := range muts {
		valN++
		m := mutation{t: r.Intn(nTypes), name: "r" + strconv.Itoa(r.Intn(nNames)), del: r.Intn(3) == 0, val: genVal(r, valN)}
		switch r.Intn(10) {
		case 0:
			m.sleep = time.Duration(500+r.Intn(1500)) * time.Microsecond
		case 1, 2, 3:
			m.sleep = time.Duration(r.Intn(250)) * time.Microsecond
		}
		muts[i] = m
	}
	retryTimeout := time.Hour
	if blackout || r.Intn(2) == 0 {
		retryTimeout = time.Nanosecond
	}

	recd := newRecorder(f)
	var rts []watchersyncer.ResourceType
	var procs []*proc
	for _, t := range f.types {
		rt := watchersyncer.ResourceType{ListInterface: model.ResourceListOptions{Kind: t.kind}, SendDeletesOnConnFail: t.sendDeletes}
		if t.hasProc {
			p := &proc{t: t}
			procs = append(procs, p)
			rt.UpdateProcessor = p
		}
		rts = append(rts, rt)
	}
	syncer := watchersyncer.New(f, rts, recd, watchersyncer.WithWatchRetryTimeout(retryTimeout))
	syncer.Start()
	stopped := false
	stopAll := func() {
		if stopped {
			return
		}
		stopped = true
		done := make(chan struct{})
		go func() {
			syncer.Stop()
			close(done)
		}()
		select {
		case <-done:
		case <-time.After(15 * time.Second):
		}
		f.mu.Lock()
		f.shutdown = true
		f.cond.Broadcast()
		f.mu.Unlock()
	}
	defer stopAll()

	report := func() map[string]any {
		f.mu.Lock()
		tr := render(f.trace)
		f.mu.Unlock()
		recd.mu.Lock()
		st := append([]string(nil), recd.statuses...)
		recd.mu.Unlock()
		var ml []string
		for i, m := range muts {
			if i >= 150 {
				break
			}
			if m.del {
				ml = append(ml, fmt.Sprintf("del %s/%s", f.types[m.t].kind, m.name))
			} else {
				ml = append(ml, fmt.Sprintf("set %s/%s=%+v", f.types[m.t].kind, m.name, m.val))
			}
		}
		return map[string]any{"types": planDesc, "watchRetryTimeout": retryTimeout.String(), "mutations": ml,
			"client_trace": tr, "statuses": st}
	}
	flush := func() {
		recd.mu.Lock()
		fs := append([]finding(nil), recd.findings...)
		recd.mu.Unlock()
		for _, fd := range fs {
			d := report()
			for k, v := range fd.detail {
				d[k] = v
			}
			c.Violationf(fd.key, d, "%s", fd.msg)
		}
		recd.mu.Lock()
		recd.findings = nil
		recd.mu.Unlock()
	}
	counters := func() {
		f.mu.Lock()
		c.Count("list_calls", f.nList)
		c.Count("list_errors", f.nListErr)
		c.Count("list_notfound", f.nListNotFound)
		c.Count("list_empty_norev", f.nListEmptyRev)
		c.Count("relists", f.nRelists)
		c.Count("watch_calls", f.nWatch)
		c.Count("watch_create_errors", f.nWatchErr)
		c.Count("watch_not_supported", f.nWatchNotSupp)
		c.Count("watch_events_delivered", f.nEvents)
		c.Count("bookmarks", f.nBookmarks)
		c.Count("stream_error_events", f.nStreamErr)
		c.Count("stream_expired_events", f.nStreamExpired)
		c.Count("stream_closed", f.nStreamClosed)
		c.Count("names_vanished_while_unwatched", f.nResyncVanished)
		f.mu.Unlock()
		recd.mu.Lock()
		c.Count("update_callbacks", recd.nCallbacks)
		c.Count("notif_set", recd.nSets)
		c.Count("notif_delete", recd.nDels)
		c.Count("status_callbacks", recd.nStatus)
		c.Count("insync_checks", recd.nInSync)
		c.Count("regressions_to_waitfordatastore", recd.nWFD)
		c.Count("parse_failed_callbacks", recd.nParseFailed)
		c.Count("sync_failed_callbacks", recd.nSyncFailed)
		recd.mu.Unlock()
		var conv int64
		for _, p := range procs {
			conv += p.converts.Load()
		}
		c.Count("conversions", conv)
		c.Count("mutations_applied", int64(len(muts)))
	}

	for _, m := range muts {
		t := f.types[m.t]
		if m.del {
			f.del(t, m.name)
		} else {
			f.set(t, m.name, m.val)
		}
		if m.sleep > 0 {
			time.Sleep(m.sleep)
		}
	}
	if stopInBlackout {
		// Pacing only: give the blackout a bounded time to show up at the recorder, then stop the
		// syncer in the middle of it.  Only the status clauses are judged in this variant.
		recd.mu.Lock()
		exp := false
		tm := time.AfterFunc(30*time.Millisecond, func() {
			recd.mu.Lock()
			exp = true
			recd.cond.Broadcast()
			recd.mu.Unlock()
		})
		for !(recd.haveStatus && recd.lastStatus == api.WaitForDatastore && recd.nWFD > 0) && !exp {
			recd.cond.Wait()
		}
		inBlackout := !exp
		recd.mu.Unlock()
		tm.Stop()
		if inBlackout {
			c.Count("stopped_in_blackout", 1)
			stopAll()
			flush()
			counters()
			c.NonTrivial(planDesc, nMut, "stop-in-blackout")
			return
		}
	}
	f.mu.Lock()
	f.quiesce = true
	f.cond.Broadcast()
	// wait until every type is settled (logical condition; watchdog -> inconclusive)
	expired := false
	timer := time.AfterFunc(40*time.Second, func() {
		f.mu.Lock()
		expired = true
		f.cond.Broadcast()
		f.mu.Unlock()
	})
	allSettled := func() bool {
		for _, t := range f.types {
			if !t.settled {
				return false
			}
		}
		return true
	}
	for !allSettled() && !expired {
		f.cond.Wait()
	}
	settled := allSettled()
	f.mu.Unlock()
	timer.Stop()

	if !settled {
		flush()
		counters()
		c.Inconclusive("types-not-settled")
		return
	}

	// markers
	type mk struct {
		key string
		rev string
	}
	var marks []mk
	for _, t := range f.types {
		rev := f.set(t, "zz-marker", rawVal{A: true, Payload: "marker"})
		k := t.rawKey("zz-marker").String()
		if t.hasProc {
			ka, _ := t.convKeys("zz-marker")
			k = ka.String()
		}
		marks = append(marks, mk{k, strconv.Itoa(rev)})
	}
	recd.mu.Lock()
	expired2 := false
	timer2 := time.AfterFunc(40*time.Second, func() {
		recd.mu.Lock()
		expired2 = true
		recd.cond.Broadcast()
		recd.mu.Unlock()
	})
	seen := func() bool {
		for _, m := range marks {
			if e, ok := recd.m[m.key]; !ok || e.rev != m.rev {
				return false
			}
		}
		return true
	}
	for !seen() && !expired2 {
		recd.cond.Wait()
	}
	reached := seen()
	got := make(map[string]entry, len(recd.m))
	for k, v := range recd.m {
		got[k] = v
	}
	lastStatus := recd.lastStatus
	recd.mu.Unlock()
	timer2.Stop()
	f.mu.Lock()
	want := f.expected()
	f.mu.Unlock()

	if !reached {
		flush()
		counters()
		c.Inconclusive("markers-not-delivered")
		return
	}
	c.Count("barrier_checks", 1)
	c.Count("barrier_keys_compared", int64(len(want)))
	if lastStatus == api.InSync {
		c.Count("barrier_status_insync", 1)
	}
	var missing, extra, stale []string
	for k, w := range want {
		g, ok := got[k]
		switch {
		case !ok:
			missing = append(missing, fmt.Sprintf("%s=%v@%s", k, w.val, w.rev))
		case g.val != w.val || g.rev != w.rev:
			stale = append(stale, fmt.Sprintf("%s: recorder %v@%s, datastore %v@%s", k, g.val, g.rev, w.val, w.rev))
		}
	}
	for k, g := range got {
		if _, ok := want[k]; !ok {
			extra = append(extra, fmt.Sprintf("%s=%v@%s", k, g.val, g.rev))
		}
	}
	sort.Strings(missing)
	sort.Strings(extra)
	sort.Strings(stale)
	if len(extra) > 0 {
		d := report()
		d["extra"] = extra
		c.Violationf("vanished-key-not-deleted", d, "after the final stable list+watch the recorder still holds %d key(s) that are not in the datastore: %v", len(extra), head(extra))
	}
	if len(missing) > 0 {
		d := report()
		d["missing"] = missing
		c.Violationf("datastore-key-missing", d, "after the final stable list+watch the recorder lacks %d key(s) of the datastore: %v", len(missing), head(missing))
	}
	if len(stale) > 0 {
		d := report()
		d["stale"] = stale
		c.Violationf("stale-value", d, "after the final stable list+watch the recorder holds old values: %v", head(stale))
	}

	// Stop: the status clause keeps being monitored while the syncer sends its shutdown deletions.
	stopAll()
	flush()
	counters()

	f.mu.Lock()
	faults := f.nListErr + f.nListNotFound + f.nWatchErr + f.nStreamErr + f.nStreamExpired + f.nStreamClosed
	f.mu.Unlock()
	if faults > 0 && len(want) > nTypes {
		c.NonTrivial(planDesc, nMut, retryTimeout)
	}
	c.Distinct("fault_script", planDesc)
	if c.Index < 6 {
		c.Sample(map[string]any{"types": planDesc, "mutations": nMut, "watchRetryTimeout": retryTimeout.String(),
			"final_keys": len(want), "faults_hit": faults})
	}
}

func main() {
	logrus.SetOutput(io.Discard)
	logrus.SetLevel(logrus.PanicLevel)
	// Shorten the package's retry intervals (exported variables), once, before any goroutine exists.
	watchersyncer.MinResyncInterval = 150 * time.Microsecond
	watchersyncer.ListRetryInterval = 250 * time.Microsecond
	watchersyncer.WatchPollInterval = 300 * time.Microsecond
	watchersyncer.MissingAPIRetryTime = 400 * time.Microsecond
	harness.Main(harness.Check{
		ID:    "C26",
		Level: "exploration",
		Rule: "each case: 2..4 resource types (with/without the harness's 1->0..2-key update processor, SendDeletesOnConnFail on/off, optionally one type whose first List is held back), " +
			"per-type PRNG fault scripts for List calls, Watch calls and watch streams, a PRNG list of 20..120 (thorough ..320) datastore mutations applied while the syncer runs, " +
			"watch retry timeout 1ns or 1h; a third of the faulty cases are 'blackouts' (every type loses its watch and then sees a run of List errors, half of them stop the syncer mid-blackout and judge only the status clauses); non-trivial = at least one fault was actually hit and the final datastore has more keys than types; distinct by fault script",
		Assumptions: []string{
			"the fake api.Client is a consistent single-store API server model (global revision, per-type event log, replay on Watch, bookmarks only when caught up); real etcd/Kubernetes backends are not run",
			"thread interleavings between the syncer's goroutines and the mutation driver are real schedules and not replayable; the scripts and mutation lists are",
			"the update processor is the harness's own stateless implementation of the documented SyncerUpdateProcessor contract",
			"NotFound from List counts as a completed (empty) list for the in-sync clause",
		},
		Cases: func(tier string) int {
			if tier == "thorough" {
				return 15000
			}
			return 600
		},
		Run:         run,
		CaseTimeout: 150 * time.Second,
		Floors: map[string]int64{"list_calls": 400, "list_errors": 50, "watch_create_errors": 50, "watch_events_delivered": 2000,
			"notif_set": 2000, "notif_delete": 500, "insync_checks": 100, "barrier_checks": 100, "relists": 50,
			"names_vanished_while_unwatched": 10, "stream_expired_events": 10, "regressions_to_waitfordatastore": 5},
	})
}

// C25 — reconnecting to Typha converges without stale or lost resources.
//
// Real code driven: libcalico-go/lib/backend/syncersv1/dedupebuffer.DedupeBuffer (New, OnUpdates,
// OnStatusUpdated, OnTyphaConnectionRestarted, SendToSinkForever, Stop).  Nothing of it is re-implemented.
//
// One case = one generated upstream history: 1..6 "connections" to a model datastore.  Every
// connection follows the call protocol of the real Typha client (syncclient.SyncerClient):
//
//	[OnTyphaConnectionRestarted, OnStatusUpdated(WaitForDatastore)]   (not for the first connection)
//	OnStatusUpdated(ResyncInProgress)
//	snapshot of the model datastore at connection time, in PRNG order and PRNG batch sizes
//	deltas (sets and deletes of keys of the connection's view), OnStatusUpdated(InSync) somewhere after
//	the snapshot, more deltas
//
// A connection other than the last may die at any point (mid snapshot, before in-sync, after in-sync);
// the model datastore changes silently while disconnected.  The downstream sink is a recording
// api.SyncerCallbacks fed by the real SendToSinkForever goroutine; it blocks inside its callbacks on a
// gate that the driver opens/steps according to a PRNG pace plan (free / stepped / phased / stalled).
//
// Barrier (logical, no clock): after the last connection's in-sync the driver feeds one more update
// for a sentinel key that was never used before.  The buffer's queue is FIFO (in-place replacement
// only), nothing is fed after the sentinel, so when the sink has received the sentinel every earlier
// queue entry has been delivered: the buffer has drained.  Only then is the view compared.
//
// Oracle
//   - at the barrier: sink view (keys and values) == view of the last connection (= fold of its stream);
//   - every notification with a value: UpdateTypeKVNew iff the sink does not hold the key,
//     UpdateTypeKVUpdated iff it does;
//   - every notification without a value: the sink holds the key, and the type is UpdateTypeKVDeleted.
//
// Deliberately not checked
//   - Status delivery (which statuses reach the sink, whether in-sync arrives): the statement is about
//     the key/value view only.  The last status seen by the sink is counted, not judged.
//   - Intermediate views, the order of notifications for different keys, how many intermediate values
//     are skipped: the buffer is allowed to reorder between keys and to skip ahead.
//   - "Pass-through" nil-valued updates for keys the connection does not have (the snapshot cache
//     forwards deletions/validation failures of unknown keys on purpose, snapcache/cache.go
//     publishBreadcrumb): they are generated in a quarter of the cases as noise on at most three keys;
//     the buffer forwards them, so for those keys the "delete only what the sink holds" and delete
//     UpdateType judgements are switched off for the whole case.  Every other nil-valued update that
//     is generated deletes a key of the connection's own view and carries UpdateTypeKVDeleted, as the
//     real syncers do.
//   - Inputs the real client cannot produce (in-sync before the end of the snapshot, restart without
//     the WaitForDatastore/ResyncInProgress that the client always sends) are not generated.
//
// Thread schedules: the interleaving between the driver goroutine and the buffer's sender goroutine is
// a real schedule and is NOT replayable; the generated history (every input) is.  Pacing uses short
// bounded sleeps, no verdict depends on them.  A barrier that is not reached within the watchdog is
// Inconclusive.
package main

import (
	"fmt"
	"io"
	"sort"
	"strconv"
	"sync"
	"time"

	"github.com/sirupsen/logrus"

	"github.com/projectcalico/calico/libcalico-go/lib/backend/api"
	"github.com/projectcalico/calico/libcalico-go/lib/backend/model"
	"github.com/projectcalico/calico/libcalico-go/lib/backend/syncersv1/dedupebuffer"

	"verif/internal/harness"
)

// ---------------------------------------------------------------------------------------------
// keys

func keyFor(i int) model.Key {
	switch i % 4 {
	case 0:
		return model.HostEndpointKey{Hostname: "host" + strconv.Itoa(i/4), EndpointID: "eth0"}
	case 1:
		return model.WorkloadEndpointKey{Hostname: "host" + strconv.Itoa(i%7), OrchestratorID: "k8s",
			WorkloadID: "ns/pod" + strconv.Itoa(i), EndpointID: "eth0"}
	case 2:
		return model.ResourceKey{Kind: "NetworkPolicy", Namespace: "ns" + strconv.Itoa(i%3), Name: "np" + strconv.Itoa(i)}
	default:
		return model.GlobalConfigKey{Name: "cfg" + strconv.Itoa(i)}
	}
}

var sentinelKey = model.GlobalConfigKey{Name: "verif-barrier-sentinel"}

// ---------------------------------------------------------------------------------------------
// recording sink with a gate

type finding struct {
	key    string
	msg    string
	detail map[string]any
}

type sink struct {
	mu   sync.Mutex
	cond *sync.Cond

	view  map[model.Key]string
	noise map[model.Key]bool // keys for which pass-through deletes were generated (not judged)

	gateOpen  bool
	permits   int
	blocked   bool
	completed int64 // callbacks that have passed the gate

	findings []finding
	trace    []rec

	nNew, nUpd, nDel, nCallbacks, nStatus int64
	lastStatus                             api.SyncStatus
	sawSentinel                            bool
	sentinelVal                            string
}

func newSink() *sink {
	s := &sink{view: map[model.Key]string{}, noise: map[model.Key]bool{}}
	s.cond = sync.NewCond(&s.mu)
	return s
}

const maxTrace = 600

// rec is a lazily formatted trace record (formatting every record of every case costs more than the
// code under test).
type rec struct {
	f string
	a []any
}

func render(l []rec) []string {
	out := make([]string, len(l))
	for i, r := range l {
		out[i] = fmt.Sprintf(r.f, r.a...)
	}
	return out
}

func (s *sink) tr(format string, a ...any) {
	if len(s.trace) < maxTrace {
		s.trace = append(s.trace, rec{format, a})
	}
}

func (s *sink) addFinding(key, msg string, d map[string]any) {
	if len(s.findings) < 8 {
		s.findings = append(s.findings, finding{key, msg, d})
	}
}

// gate blocks the calling callback until the driver lets it through.  Lock held.
func (s *sink) gate() {
	for !s.gateOpen && s.permits == 0 {
		s.blocked = true
		s.cond.Broadcast()
		s.cond.Wait()
	}
	if !s.gateOpen {
		s.permits--
	}
	s.blocked = false
	s.completed++
	s.cond.Broadcast()
}

func (s *sink) OnStatusUpdated(st api.SyncStatus) {
	s.mu.Lock()
	defer s.mu.Unlock()
	s.nStatus++
	s.lastStatus = st
	s.tr("sink status %v", st)
	s.gate()
}

func (s *sink) OnUpdates(updates []api.Update) {
	s.mu.Lock()
	defer s.mu.Unlock()
	s.nCallbacks++
	for _, u := range updates {
		k := u.Key
		old, held := s.view[k]
		if u.Value == nil {
			s.nDel++
			s.tr("sink del %v type=%v held=%v", k, u.UpdateType, held)
			if !s.noise[k] {
				if !held {
					s.addFinding("delete-for-key-sink-never-held",
						fmt.Sprintf("sink received a deletion for %v which it does not hold", k),
						map[string]any{"key": fmt.Sprint(k), "update_type": u.UpdateType.String()})
				}
				if u.UpdateType != api.UpdateTypeKVDeleted {
					s.addFinding("delete-with-wrong-update-type",
						fmt.Sprintf("sink received nil value for %v with UpdateType %v", k, u.UpdateType),
						map[string]any{"key": fmt.Sprint(k), "update_type": u.UpdateType.String()})
				}
			}
			delete(s.view, k)
			continue
		}
		v, _ := u.Value.(string)
		switch u.UpdateType {
		case api.UpdateTypeKVNew:
			s.nNew++
			if held {
				s.addFinding("new-for-key-sink-already-holds",
					fmt.Sprintf("sink received UpdateTypeKVNew for %v but already holds it (%q)", k, old),
					map[string]any{"key": fmt.Sprint(k), "held_value": old, "new_value": v})
			}
		case api.UpdateTypeKVUpdated:
			s.nUpd++
			if !held {
				s.addFinding("updated-for-key-sink-does-not-hold",
					fmt.Sprintf("sink received UpdateTypeKVUpdated for %v but does not hold it", k),
					map[string]any{"key": fmt.Sprint(k), "new_value": v})
			}
		default:
			s.addFinding("value-with-wrong-update-type",
				fmt.Sprintf("sink received a value for %v with UpdateType %v", k, u.UpdateType),
				map[string]any{"key": fmt.Sprint(k), "update_type": u.UpdateType.String()})
		}
		s.tr("sink set %v=%s type=%v held=%v", k, v, u.UpdateType, held)
		s.view[k] = v
		if k == model.Key(sentinelKey) && v == s.sentinelVal && s.sentinelVal != "" {
			s.sawSentinel = true
		}
	}
	s.cond.Broadcast()
	s.gate()
}

// ---------------------------------------------------------------------------------------------
// driver

type driver struct {
	c    *harness.Case
	d    *dedupebuffer.DedupeBuffer
	s    *sink
	ops  []rec
	fp   uint64 // fingerprint of the generated history
	mode int

	// model
	rev      int
	store    map[int]string // datastore: key index -> value
	connView map[int]string // what the current connection has told the buffer
	nKeys    int

	fedUpdates, fedStatuses, restarts, steps, stepsBlocked int64
	noiseIdx                                               []int
	everFed                                                map[int]bool
}

func (dr *driver) op(format string, a ...any) {
	if len(dr.ops) < maxTrace {
		dr.ops = append(dr.ops, rec{format, a})
	}
	dr.fp = dr.fp*1099511628211 + uint64(len(format))
}

func (dr *driver) mix(sv string) {
	for i := 0; i < len(sv); i++ {
		dr.fp = (dr.fp ^ uint64(sv[i])) * 1099511628211
	}
}

func (dr *driver) newVal(i int) string {
	dr.rev++
	return fmt.Sprintf("k%d@%d", i, dr.rev)
}

func (dr *driver) feedUpdates(us []api.Update) {
	if len(us) == 0 {
		return
	}
	for _, u := range us {
		dr.op("feed %v=%v type=%v", u.Key, u.Value, u.UpdateType)
		if sv, ok := u.Value.(string); ok {
			dr.mix(sv)
		} else {
			dr.fp = dr.fp*31 + 7 + uint64(u.UpdateType)
		}
	}
	dr.fedUpdates += int64(len(us))
	dr.d.OnUpdates(us)
	dr.pace()
}

func (dr *driver) feedStatus(st api.SyncStatus) {
	dr.op("feed status %v", st)
	dr.fedStatuses++
	dr.d.OnStatusUpdated(st)
	dr.pace()
}

func (dr *driver) restart() {
	dr.op("RESTART")
	dr.restarts++
	dr.d.OnTyphaConnectionRestarted()
	dr.connView = map[int]string{}
}

// sinkStep lets at most one sink callback through.  Pacing only: if the sink is not blocked in a
// callback within a short bounded wait (queue probably empty) the step is skipped.
func (dr *driver) sinkStep() {
	s := dr.s
	dr.steps++
	s.mu.Lock()
	defer s.mu.Unlock()
	if !s.blocked {
		expired := false
		t := time.AfterFunc(300*time.Microsecond, func() {
			s.mu.Lock()
			expired = true
			s.cond.Broadcast()
			s.mu.Unlock()
		})
		for !s.blocked && !expired {
			s.cond.Wait()
		}
		t.Stop()
		if !s.blocked {
			return
		}
	}
	dr.stepsBlocked++
	target := s.completed + 1
	s.permits++
	s.cond.Broadcast()
	for s.completed < target {
		s.cond.Wait()
	}
}

func (dr *driver) setGate(open bool) {
	dr.s.mu.Lock()
	dr.s.gateOpen = open
	dr.s.cond.Broadcast()
	dr.s.mu.Unlock()
}

// pace is called after every feed operation; what it does depends on the case's pace mode.
func (dr *driver) pace() {
	r := dr.c.R
	switch dr.mode {
	case 0: // free running sink
		if r.Intn(8) == 0 {
			time.Sleep(time.Duration(r.Intn(60)) * time.Microsecond)
		}
	case 1: // stepped: sink takes single callbacks at PRNG points
		n := 0
		switch r.Intn(6) {
		case 0, 1:
			n = 1
		case 2:
			n = 2 + r.Intn(3)
		}
		for i := 0; i < n; i++ {
			dr.sinkStep()
		}
	case 2: // phased: gate toggles
		if r.Intn(6) == 0 {
			open := r.Intn(2) == 0
			dr.op("gate open=%v", open)
			dr.setGate(open)
			if open {
				time.Sleep(time.Duration(20+r.Intn(200)) * time.Microsecond)
			}
		}
	case 3: // stalled: nothing here, the sink is released only between connections
	}
}

func (dr *driver) mkSet(i int) api.Update {
	v := dr.newVal(i)
	ut := api.UpdateTypeKVNew
	if _, ok := dr.connView[i]; ok {
		ut = api.UpdateTypeKVUpdated
	}
	dr.store[i] = v
	dr.connView[i] = v
	dr.everFed[i] = true
	return api.Update{KVPair: model.KVPair{Key: keyFor(i), Value: v, Revision: strconv.Itoa(dr.rev)}, UpdateType: ut}
}

func (dr *driver) mkDel(i int) api.Update {
	delete(dr.store, i)
	delete(dr.connView, i)
	return api.Update{KVPair: model.KVPair{Key: keyFor(i)}, UpdateType: api.UpdateTypeKVDeleted}
}

func sortedKeys(m map[int]string) []int {
	ks := make([]int, 0, len(m))
	for k := range m {
		ks = append(ks, k)
	}
	sort.Ints(ks)
	return ks
}

// silentChange mutates the datastore while no connection is up.
func (dr *driver) silentChange() {
	r := dr.c.R
	n := r.Intn(1 + dr.nKeys/2)
	if r.Intn(5) == 0 {
		n = dr.nKeys // heavy churn
	}
	for j := 0; j < n; j++ {
		i := r.Intn(dr.nKeys)
		switch r.Intn(3) {
		case 0:
			delete(dr.store, i)
		default:
			dr.store[i] = dr.newVal(i)
		}
	}
	if r.Intn(12) == 0 { // datastore wiped
		dr.store = map[int]string{}
	}
}

// deltaBatch mutates the datastore while connected and returns the updates the connection sends.
func (dr *driver) deltaBatch(allowNoise bool) []api.Update {
	r := dr.c.R
	n := 1 + r.Intn(4)
	if r.Intn(6) == 0 {
		n += r.Intn(dr.nKeys + 1)
	}
	var us []api.Update
	for j := 0; j < n; j++ {
		i := r.Intn(dr.nKeys)
		_, have := dr.connView[i]
		switch {
		case have && r.Intn(5) < 2:
			us = append(us, dr.mkDel(i))
		case !have && allowNoise && len(dr.noiseIdx) > 0 && r.Intn(4) == 0:
			// pass-through nil value for a key this connection does not have
			ni := dr.noiseIdx[r.Intn(len(dr.noiseIdx))]
			if _, ok := dr.connView[ni]; ok {
				us = append(us, dr.mkSet(ni))
				continue
			}
			ut := []api.UpdateType{api.UpdateTypeKVDeleted, api.UpdateTypeKVNew, api.UpdateTypeKVUpdated}[r.Intn(3)]
			us = append(us, api.Update{KVPair: model.KVPair{Key: keyFor(ni)}, UpdateType: ut})
		default:
			us = append(us, dr.mkSet(i))
		}
	}
	return us
}

func run(c *harness.Case) {
	r := c.R
	dr := &driver{c: c, store: map[int]string{}, connView: map[int]string{}, everFed: map[int]bool{}}
	dr.mode = r.Intn(4)
	switch r.Intn(10) {
	case 0:
		dr.nKeys = 120 + r.Intn(c.Pick(120, 400)) // more than one 100-entry batch
	case 1, 2:
		dr.nKeys = 1 + r.Intn(3)
	default:
		dr.nKeys = 3 + r.Intn(c.Pick(30, 60))
	}
	nConn := 1 + r.Intn(c.Pick(5, 8))
	if r.Intn(4) != 0 && nConn < 2 {
		nConn = 2
	}
	useNoise := r.Intn(4) == 0

	s := newSink()
	dr.s = s
	s.gateOpen = dr.mode == 0
	if useNoise {
		for j := 0; j < 1+r.Intn(3); j++ {
			ni := r.Intn(dr.nKeys)
			dr.noiseIdx = append(dr.noiseIdx, ni)
			s.noise[keyFor(ni)] = true
		}
	}
	d := dedupebuffer.New()
	dr.d = d
	senderDone := make(chan struct{})
	go func() {
		defer close(senderDone)
		d.SendToSinkForever(s)
	}()
	cleanup := func() {
		dr.setGate(true)
		d.Stop()
		select {
		case <-senderDone:
		case <-time.After(10 * time.Second):
		}
	}

	// initial datastore content
	for i := 0; i < dr.nKeys; i++ {
		if r.Intn(3) != 0 {
			dr.store[i] = dr.newVal(i)
		}
	}

	vanished := 0 // keys fed on an earlier connection that the last connection does not have
	diedMidSnapshot, diedBeforeInSync := 0, 0
	for ci := 0; ci < nConn; ci++ {
		last := ci == nConn-1
		if ci > 0 {
			dr.silentChange()
			if dr.mode == 3 && r.Intn(2) == 0 {
				// stalled mode: let the sink catch up (partly) between connections
				dr.setGate(true)
				time.Sleep(time.Duration(r.Intn(300)) * time.Microsecond)
				dr.setGate(false)
			}
			dr.restart()
			dr.feedStatus(api.WaitForDatastore)
		}
		dr.feedStatus(api.ResyncInProgress)

		// snapshot
		snap := sortedKeys(dr.store)
		r.Shuffle(len(snap), func(a, b int) { snap[a], snap[b] = snap[b], snap[a] })
		cutoff := len(snap)
		died := false
		if !last && r.Intn(3) == 0 {
			cutoff = r.Intn(len(snap) + 1)
			died = true
			diedMidSnapshot++
		}
		maxBatch := 1 + r.Intn(8)
		if r.Intn(3) == 0 {
			maxBatch = 100 + r.Intn(150)
		}
		for pos := 0; pos < cutoff; {
			n := 1 + r.Intn(maxBatch)
			if pos+n > cutoff {
				n = cutoff - pos
			}
			var us []api.Update
			for _, i := range snap[pos : pos+n] {
				v := dr.store[i]
				dr.connView[i] = v
				dr.everFed[i] = true
				us = append(us, api.Update{KVPair: model.KVPair{Key: keyFor(i), Value: v, Revision: "snap"},
					UpdateType: api.UpdateTypeKVNew})
			}
			dr.feedUpdates(us)
			pos += n
		}
		if died {
			continue
		}
		// deltas before in-sync
		for j := r.Intn(3); j > 0; j-- {
			dr.feedUpdates(dr.deltaBatch(useNoise))
		}
		if !last && r.Intn(4) == 0 {
			diedBeforeInSync++
			continue
		}
		dr.feedStatus(api.InSync)
		for j := r.Intn(5); j > 0; j-- {
			dr.feedUpdates(dr.deltaBatch(useNoise))
			if r.Intn(15) == 0 { // upstream status flap
				dr.feedStatus(api.ResyncInProgress)
				dr.feedStatus(api.InSync)
			}
		}
	}
	for i := range dr.everFed {
		if _, ok := dr.connView[i]; !ok {
			vanished++
		}
	}

	// barrier: sentinel after the last in-sync, then drain
	dr.rev++
	sv := fmt.Sprintf("sentinel@%d", dr.rev)
	s.mu.Lock()
	s.sentinelVal = sv
	s.mu.Unlock()
	dr.op("feed SENTINEL")
	d.OnUpdates([]api.Update{{KVPair: model.KVPair{Key: sentinelKey, Value: sv, Revision: strconv.Itoa(dr.rev)},
		UpdateType: api.UpdateTypeKVNew}})
	dr.fedUpdates++
	dr.setGate(true)

	timedOut := false
	timer := time.AfterFunc(30*time.Second, func() {
		s.mu.Lock()
		timedOut = true
		s.cond.Broadcast()
		s.mu.Unlock()
	})
	s.mu.Lock()
	for !s.sawSentinel && !timedOut {
		s.cond.Wait()
	}
	reached := s.sawSentinel
	// snapshot of the monitor state at the barrier
	got := make(map[model.Key]string, len(s.view))
	for k, v := range s.view {
		got[k] = v
	}
	findings := append([]finding(nil), s.findings...)
	trace := append([]rec(nil), s.trace...)
	nNew, nUpd, nDel, nCb, nSt, lastStatus := s.nNew, s.nUpd, s.nDel, s.nCallbacks, s.nStatus, s.lastStatus
	s.mu.Unlock()
	timer.Stop()
	cleanup()

	c.Count("updates_fed", dr.fedUpdates)
	c.Count("statuses_fed", dr.fedStatuses)
	c.Count("restarts", dr.restarts)
	c.Count("sink_callbacks", nCb)
	c.Count("sink_status_callbacks", nSt)
	c.Count("notifications", nNew+nUpd+nDel)
	c.Count("notif_new", nNew)
	c.Count("notif_updated", nUpd)
	c.Count("notif_deleted", nDel)
	c.Count("sink_steps", dr.steps)
	c.Count("sink_steps_found_blocked", dr.stepsBlocked)
	c.Count("conn_died_mid_snapshot", int64(diedMidSnapshot))
	c.Count("conn_died_before_insync", int64(diedBeforeInSync))
	c.Count("keys_vanished_by_last_conn", int64(vanished))
	if useNoise {
		c.Count("cases_with_passthrough_noise", 1)
	}
	c.Distinct("pace_mode", dr.mode)

	witness := func(extra map[string]any) map[string]any {
		m := map[string]any{"mode": dr.mode, "nKeys": dr.nKeys, "nConn": nConn, "ops": render(dr.ops), "sink_trace": render(trace)}
		for k, v := range extra {
			m[k] = v
		}
		return m
	}
	for _, f := range findings {
		c.Violationf(f.key, witness(f.detail), "%s", f.msg)
	}
	if !reached {
		c.Inconclusive("barrier-sentinel-not-delivered")
		return
	}
	c.Count("barrier_checks", 1)
	if lastStatus == api.InSync {
		c.Count("barrier_sink_status_insync", 1)
	}

	// expected view: the last connection's view plus the sentinel
	want := map[model.Key]string{sentinelKey: sv}
	for i, v := range dr.connView {
		want[keyFor(i)] = v
	}
	var missing, extra, stale []string
	for k, v := range want {
		g, ok := got[k]
		if !ok {
			missing = append(missing, fmt.Sprintf("%v=%s", k, v))
		} else if g != v {
			stale = append(stale, fmt.Sprintf("%v: sink %s, connection %s", k, g, v))
		}
	}
	for k, v := range got {
		if _, ok := want[k]; !ok {
			extra = append(extra, fmt.Sprintf("%v=%s", k, v))
		}
	}
	sort.Strings(missing)
	sort.Strings(extra)
	sort.Strings(stale)
	c.Count("barrier_keys_compared", int64(len(want)))
	if len(extra) > 0 {
		c.Violationf("stale-key-not-deleted-after-resync", witness(map[string]any{"extra": extra}),
			"after the last connection's in-sync and drain the sink still holds %d key(s) the connection does not have: %v", len(extra), head(extra))
	}
	if len(missing) > 0 {
		c.Violationf("resource-lost-after-resync", witness(map[string]any{"missing": missing}),
			"after the last connection's in-sync and drain the sink lacks %d key(s) of the connection's view: %v", len(missing), head(missing))
	}
	if len(stale) > 0 {
		c.Violationf("stale-value-after-resync", witness(map[string]any{"stale": stale}),
			"after the last connection's in-sync and drain the sink holds old values: %v", head(stale))
	}

	if dr.restarts > 0 && (vanished > 0 || len(dr.connView) > 0) {
		c.NonTrivial(dr.mode, dr.nKeys, nConn, dr.fp)
	}
	c.Distinct("final_view", fmt.Sprint(sortedVals(want)))
	if c.Index < 8 {
		c.Sample(map[string]any{"mode": dr.mode, "nKeys": dr.nKeys, "connections": nConn, "restarts": dr.restarts,
			"updates_fed": dr.fedUpdates, "sink_notifications": nNew + nUpd + nDel, "vanished": vanished,
			"first_ops": head(render(dr.ops))})
	}
}

func head(l []string) []string {
	if len(l) > 12 {
		return l[:12]
	}
	return l
}

func sortedVals(m map[model.Key]string) []string {
	l := make([]string, 0, len(m))
	for _, v := range m {
		l = append(l, v)
	}
	sort.Strings(l)
	return l
}

func main() {
	logrus.SetOutput(io.Discard)
	logrus.SetLevel(logrus.PanicLevel)
	harness.Main(harness.Check{
		ID:    "C25",
		Level: "exploration",
		Rule: "each case is a PRNG history of 1..6 (thorough 1..9) connections following the real Typha client's call protocol " +
			"(restart, WaitForDatastore, ResyncInProgress, snapshot of a model datastore in PRNG batches, deltas, InSync, deltas); non-final connections die " +
			"mid-snapshot / before in-sync / after in-sync, the datastore changes while disconnected; the sink is fed by the real SendToSinkForever goroutine and " +
			"paced by one of 4 gate plans; non-trivial = at least one restart and a non-empty or shrunken final view, distinct by the generated op list",
		Assumptions: []string{
			"thread interleavings between the driver and the buffer's sender goroutine are real schedules and not replayable; the generated history is",
			"the barrier relies on the buffer's queue being FIFO for a key that was never queued before (the sentinel), which is the documented design",
			"values are opaque strings; the buffer does not look inside values",
			"pass-through nil-valued updates for keys absent from the connection's view are generated as noise and not judged",
		},
		Cases: func(tier string) int {
			if tier == "thorough" {
				return 50000
			}
			return 2000
		},
		Run:         run,
		CaseTimeout: 90 * time.Second,
		Floors: map[string]int64{"updates_fed": 5000, "notifications": 3000, "restarts": 300, "barrier_checks": 500,
			"notif_deleted": 200, "keys_vanished_by_last_conn": 100, "sink_steps_found_blocked": 100},
	})
}

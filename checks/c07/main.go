// C07 — indexed selector matching equals direct selector evaluation.
//
// Real code driven: felix/labelindex.InheritIndex (UpdateSelector, DeleteSelector, UpdateLabels,
// DeleteLabels, UpdateParentLabels, DeleteParentLabels, match callbacks),
// felix/labelindex/labelrestrictionindex.LabelRestrictionIndex (AddSelector, DeleteSelector,
// AllPotentialMatches), felix/labelindex/labelnamevalueindex.LabelNameValueIndex (Add, Remove,
// StrategyFor(...).Scan) and parser.Selector.LabelRestrictions.
//
// Oracle (no code under test on the oracle side): selectors are rendered from a generated syntax tree
// and the tree is evaluated by the small evaluator below; the effective labels of an item are
// computed from three plain maps (own labels, parent lists, parent labels): own labels first, then
// the labels of the parents.  After EVERY operation
//   - the set of (selector,item) pairs for which a match is active according to the callbacks equals
//     {(s,i) | tree(s) is true on effective(i)} over the registered selectors and present items;
//   - callbacks alternate per pair: no start while started, no stop while not started;
//   - for every pair that matches, every entry of sel.LabelRestrictions() is satisfied by the
//     effective labels (must-be-present, must-be-absent, one-of-values), and the selector is among
//     LabelRestrictionIndex.AllPotentialMatches(item);
//   - for every registered selector and every restriction (label,r) of it, every item whose OWN labels
//     satisfy r is produced by LabelNameValueIndex.StrategyFor(label,r).Scan.
//
// Deliberately not checked
//   - which of two parents wins when they give DIFFERENT values for the same label (a tie-break the
//     statement does not fix): parents only ever give the per-case fixed value pval[k] for key k, so two
//     parents never disagree; own labels may take any value and override parents (documented);
//   - extra (non-matching) candidates in AllPotentialMatches / Scan, duplicates in them, strategy choice;
//   - callbacks for pairs that end an operation in the state they started it in (flapping inside one call);
//   - the named-port index built on top of these indexes (C04 covers IP set membership).
package main

import (
	"fmt"
	"io"
	"iter"
	"math/rand"
	"sort"
	"strings"

	"github.com/sirupsen/logrus"

	"github.com/projectcalico/calico/felix/labelindex"
	"github.com/projectcalico/calico/felix/labelindex/labelnamevalueindex"
	"github.com/projectcalico/calico/felix/labelindex/labelrestrictionindex"
	"github.com/projectcalico/calico/lib/std/uniquelabels"
	"github.com/projectcalico/calico/lib/std/uniquestr"
	"github.com/projectcalico/calico/libcalico-go/lib/selector"

	"verif/internal/harness"
)

// ------------------------------------------------------------------ generated selectors + reference evaluator

const (
	kEq = iota
	kNe
	kIn
	kNotIn
	kContains
	kStarts
	kEnds
	kHas
	kAll
	kNot
	kAnd
	kOr
)

type node struct {
	kind  int
	label string
	val   string
	set   []string
	kids  []*node
}

func eval(n *node, l map[string]string) bool {
	v, present := l[n.label]
	switch n.kind {
	case kEq:
		return present && v == n.val
	case kNe:
		return !present || v != n.val
	case kIn, kNotIn:
		in := false
		for _, s := range n.set {
			if present && s == v {
				in = true
			}
		}
		if n.kind == kIn {
			return in
		}
		return !in
	case kContains:
		return present && strings.Contains(v, n.val)
	case kStarts:
		return present && strings.HasPrefix(v, n.val)
	case kEnds:
		return present && strings.HasSuffix(v, n.val)
	case kHas:
		return present
	case kAll:
		return true
	case kNot:
		return !eval(n.kids[0], l)
	case kAnd:
		for _, k := range n.kids {
			if !eval(k, l) {
				return false
			}
		}
		return true
	case kOr:
		for _, k := range n.kids {
			if eval(k, l) {
				return true
			}
		}
		return false
	}
	panic("harness: unknown node kind")
}

var keys = []string{"a", "b", "c", "d"}
var vals = []string{"x", "y", "xy", "yx"}

func genTree(R *rand.Rand, depth int) *node {
	k := func() string { return keys[R.Intn(len(keys))] }
	v := func() string { return vals[R.Intn(len(vals))] }
	if depth <= 0 || R.Intn(5) < 2 {
		switch R.Intn(14) {
		case 0, 1, 2:
			return &node{kind: kEq, label: k(), val: v()}
		case 3:
			return &node{kind: kNe, label: k(), val: v()}
		case 4, 5:
			n := &node{kind: kIn, label: k()}
			for i, m := 0, R.Intn(4); i < m; i++ {
				n.set = append(n.set, v())
			}
			return n
		case 6:
			n := &node{kind: kNotIn, label: k()}
			for i, m := 0, R.Intn(3); i < m; i++ {
				n.set = append(n.set, v())
			}
			return n
		case 7:
			return &node{kind: kContains, label: k(), val: v()[:1]}
		case 8:
			return &node{kind: kStarts, label: k(), val: v()[:1]}
		case 9:
			return &node{kind: kEnds, label: k(), val: v()[:1]}
		case 10, 11:
			return &node{kind: kHas, label: k()}
		case 12:
			return &node{kind: kNot, kids: []*node{{kind: kHas, label: k()}}}
		default:
			return &node{kind: kAll}
		}
	}
	switch R.Intn(7) {
	case 0:
		return &node{kind: kNot, kids: []*node{genTree(R, depth-1)}}
	case 1, 2, 3:
		n := &node{kind: kAnd}
		for i, m := 0, 2+R.Intn(2); i < m; i++ {
			n.kids = append(n.kids, genTree(R, depth-1))
		}
		return n
	default:
		n := &node{kind: kOr}
		for i, m := 0, 2+R.Intn(2); i < m; i++ {
			n.kids = append(n.kids, genTree(R, depth-1))
		}
		return n
	}
}

func render(n *node) string {
	q := func(s string) string { return `"` + s + `"` }
	switch n.kind {
	case kEq:
		return n.label + " == " + q(n.val)
	case kNe:
		return n.label + " != " + q(n.val)
	case kIn, kNotIn:
		var m []string
		for _, s := range n.set {
			m = append(m, q(s))
		}
		op := " in "
		if n.kind == kNotIn {
			op = " not in "
		}
		return n.label + op + "{" + strings.Join(m, ", ") + "}"
	case kContains:
		return n.label + " contains " + q(n.val)
	case kStarts:
		return n.label + " starts with " + q(n.val)
	case kEnds:
		return n.label + " ends with " + q(n.val)
	case kHas:
		return "has(" + n.label + ")"
	case kAll:
		return "all()"
	case kNot:
		return "!(" + render(n.kids[0]) + ")"
	case kAnd, kOr:
		var p []string
		for _, k := range n.kids {
			p = append(p, "("+render(k)+")")
		}
		if n.kind == kAnd {
			return strings.Join(p, " && ")
		}
		return strings.Join(p, " || ")
	}
	panic("harness: unknown node kind")
}

// ------------------------------------------------------------------ adapters for the Labeled interfaces

type labeled map[string]string

func (l labeled) AllOwnAndParentLabelHandles() iter.Seq2[uniquestr.Handle, uniquestr.Handle] {
	return func(yield func(uniquestr.Handle, uniquestr.Handle) bool) {
		ks := make([]string, 0, len(l))
		for k := range l {
			ks = append(ks, k)
		}
		sort.Strings(ks)
		for _, k := range ks {
			if !yield(uniquestr.Make(k), uniquestr.Make(l[k])) {
				return
			}
		}
	}
}

type ownLabeled struct{ m map[string]string }

func (o *ownLabeled) OwnLabelHandles() iter.Seq2[uniquestr.Handle, uniquestr.Handle] {
	return labeled(o.m).AllOwnAndParentLabelHandles()
}

// ------------------------------------------------------------------ the run

type selEntry struct {
	tree *node
	text string
	sel  *selector.Selector
}

type itemEntry struct {
	own     map[string]string
	parents []string
}

type pair struct{ sel, item string }

type run struct {
	c   *harness.Case
	R   *rand.Rand
	ops []string

	idx *labelindex.InheritIndex
	lri *labelrestrictionindex.LabelRestrictionIndex[string]
	nvi *labelnamevalueindex.LabelNameValueIndex[string, *ownLabeled]

	pval    map[string]string            // the value parents give to each key
	sels    map[string]*selEntry         // registered selectors
	items   map[string]*itemEntry        // present items
	parents map[string]map[string]string // parents that currently have labels

	active  map[pair]bool
	cbError string
}

func (r *run) op(format string, a ...any) { r.ops = append(r.ops, fmt.Sprintf(format, a...)) }

func (r *run) detail() map[string]any {
	ops := r.ops
	if len(ops) > 100 {
		ops = ops[len(ops)-100:]
	}
	sels := map[string]string{}
	for id, s := range r.sels {
		sels[id] = s.text
	}
	items := map[string]string{}
	for id, it := range r.items {
		items[id] = fmt.Sprintf("own=%v parents=%v effective=%v", it.own, it.parents, r.effective(it))
	}
	return map[string]any{"ops": ops, "selectors": sels, "items": items, "parent_labels": r.parents}
}

func (r *run) effective(it *itemEntry) map[string]string {
	eff := map[string]string{}
	for _, p := range it.parents {
		for k, v := range r.parents[p] { // nil map for a parent without labels
			if _, ok := eff[k]; !ok {
				eff[k] = v // all parents give pval[k], so the order cannot matter
			}
		}
	}
	for k, v := range it.own {
		eff[k] = v
	}
	return eff
}

func sortedKeys[V any](m map[string]V) []string {
	l := make([]string, 0, len(m))
	for k := range m {
		l = append(l, k)
	}
	sort.Strings(l)
	return l
}

// verify compares everything observable with the model.  Returns false after recording a violation.
func (r *run) verify() bool {
	c := r.c
	if r.cbError != "" {
		c.Violationf("callbacks-do-not-alternate", r.detail(), "%s", r.cbError)
		return false
	}
	want := map[pair]bool{}
	for _, sid := range sortedKeys(r.sels) {
		s := r.sels[sid]
		lrs := s.sel.LabelRestrictions()
		for _, iid := range sortedKeys(r.items) {
			it := r.items[iid]
			eff := r.effective(it)
			m := eval(s.tree, eff)
			c.Count("direct_evaluations", 1)
			if m {
				want[pair{sid, iid}] = true
				// restrictions must hold on every label map the selector matches
				for l, lr := range lrs.All() {
					v, present := eff[l.Value()]
					ok := true
					if lr.MustBePresent && !present {
						ok = false
					}
					if lr.MustBeAbsent && present {
						ok = false
					}
					if lr.MustHaveOneOfValues != nil {
						found := false
						for _, h := range lr.MustHaveOneOfValues {
							if present && h.Value() == v {
								found = true
							}
						}
						if !found {
							ok = false
						}
					}
					c.Count("restriction_checks", 1)
					if !ok {
						d := r.detail()
						d["selector"], d["labels"], d["restriction"] = s.text, eff, fmt.Sprintf("%s: %v", l.Value(), lr)
						c.Violationf("restriction-excludes-a-match", d, "selector %q matches %v but its restriction on %q is %v", s.text, eff, l.Value(), lr)
						return false
					}
				}
			}
		}
	}
	// match relation
	for p := range want {
		if !r.active[p] {
			d := r.detail()
			c.Violationf("index-misses-match", d, "after %q: selector %s (%s) matches item %s (effective %v) but the index reports no active match",
				r.ops[len(r.ops)-1], p.sel, r.sels[p.sel].text, p.item, r.effective(r.items[p.item]))
			return false
		}
	}
	for p := range r.active {
		if !want[p] {
			text, eff := "<deleted>", any("<deleted>")
			if s := r.sels[p.sel]; s != nil {
				text = s.text
			}
			if it := r.items[p.item]; it != nil {
				eff = r.effective(it)
			}
			c.Violationf("index-reports-stale-match", r.detail(), "after %q: the index reports selector %s (%s) as matching item %s (effective %v) but direct evaluation says no",
				r.ops[len(r.ops)-1], p.sel, text, p.item, eff)
			return false
		}
	}
	c.Count("relation_comparisons", 1)
	c.Count("matching_pairs_seen", int64(len(want)))

	// candidate pruning: AllPotentialMatches must contain every matching selector
	for _, iid := range sortedKeys(r.items) {
		eff := r.effective(r.items[iid])
		cand := map[string]bool{}
		for id, s := range r.lri.AllPotentialMatches(labeled(eff)) {
			if s == nil || r.sels[id] == nil {
				c.Violationf("potential-match-unknown-selector", r.detail(), "AllPotentialMatches produced selector id %q which is not registered", id)
				return false
			}
			cand[id] = true
		}
		c.Count("potential_match_queries", 1)
		c.Count("potential_match_candidates", int64(len(cand)))
		c.Count("potential_match_registered", int64(len(r.sels)))
		for _, sid := range sortedKeys(r.sels) {
			if want[pair{sid, iid}] && !cand[sid] {
				d := r.detail()
				c.Violationf("candidate-index-excludes-a-match", d, "selector %s (%s) matches item %s (%v) but AllPotentialMatches does not list it", sid, r.sels[sid].text, iid, eff)
				return false
			}
		}
	}
	// own-label index: every item whose own labels satisfy a restriction is scanned
	for _, sid := range sortedKeys(r.sels) {
		s := r.sels[sid]
		for l, lr := range s.sel.LabelRestrictions().All() {
			scanned := map[string]bool{}
			strat := r.nvi.StrategyFor(l, lr)
			strat.Scan(func(id string) bool { scanned[id] = true; return true })
			c.Count("scan_strategies", 1)
			c.Distinct("strategy_kind", strat.Name())
			for _, iid := range sortedKeys(r.items) {
				own := r.items[iid].own
				v, present := own[l.Value()]
				sat := true
				if lr.MustBePresent {
					sat = present
					if present && lr.MustHaveOneOfValues != nil {
						sat = false
						for _, h := range lr.MustHaveOneOfValues {
							if h.Value() == v {
								sat = true
							}
						}
					}
				}
				if sat && !scanned[iid] {
					c.Violationf("scan-strategy-excludes-item", r.detail(), "strategy %q for restriction %s:%v of selector %q does not scan item %s whose own labels %v satisfy it",
						strat.String(), l.Value(), lr, s.text, iid, own)
					return false
				}
			}
		}
	}
	return true
}

func (r *run) randomLabels(max int) map[string]string {
	m := map[string]string{}
	for _, k := range keys {
		if r.R.Intn(len(keys)) < max {
			m[k] = vals[r.R.Intn(len(vals))]
			if r.R.Intn(3) == 0 {
				m[k] = r.pval[k]
			}
		}
	}
	return m
}

func copyMap(m map[string]string) map[string]string {
	c := map[string]string{}
	for k, v := range m {
		c[k] = v
	}
	return c
}

var selIDs = []string{"s1", "s2", "s3", "s4", "s5", "s6"}
var itemIDs = []string{"i1", "i2", "i3", "i4", "i5", "i6"}
var parentIDs = []string{"pA", "pB", "pC", "pNeverLabelled"}

func (r *run) step() bool {
	R := r.R
	switch op := R.Intn(100); {
	case op < 22: // selector add / replace
		id := selIDs[R.Intn(len(selIDs))]
		tree := genTree(R, 1+R.Intn(3))
		text := render(tree)
		sel, err := selector.Parse(text)
		if err != nil {
			r.c.Inconclusive("harness selector did not parse: " + text)
			return false
		}
		r.op("UpdateSelector(%s, %s)", id, text)
		r.idx.UpdateSelector(id, sel)
		r.lri.AddSelector(id, sel)
		r.sels[id] = &selEntry{tree, text, sel}
		r.c.Count("op_update_selector", 1)
	case op < 30:
		id := selIDs[R.Intn(len(selIDs))]
		r.op("DeleteSelector(%s)", id)
		r.idx.DeleteSelector(id)
		r.lri.DeleteSelector(id)
		delete(r.sels, id)
		r.c.Count("op_delete_selector", 1)
	case op < 60: // item add / update
		id := itemIDs[R.Intn(len(itemIDs))]
		own := r.randomLabels(2)
		var ps []string
		for i, n := 0, R.Intn(4); i < n; i++ {
			ps = append(ps, parentIDs[R.Intn(len(parentIDs))]) // duplicates possible
		}
		if old := r.items[id]; old != nil {
			switch R.Intn(5) {
			case 0: // same labels, parents permuted
				own = copyMap(old.own)
				ps = append([]string(nil), old.parents...)
				R.Shuffle(len(ps), func(i, j int) { ps[i], ps[j] = ps[j], ps[i] })
			case 1: // same labels, one parent replaced (list length unchanged)
				own = copyMap(old.own)
				ps = append([]string(nil), old.parents...)
				if len(ps) > 0 {
					ps[R.Intn(len(ps))] = parentIDs[R.Intn(len(parentIDs))]
				}
			case 2: // same parents, labels changed
				ps = append([]string(nil), old.parents...)
			}
		}
		r.op("UpdateLabels(%s, %v, %v)", id, own, ps)
		r.idx.UpdateLabels(id, uniquelabels.Make(own), ps)
		if _, ok := r.nvi.Get(id); ok {
			r.nvi.Remove(id)
		}
		r.nvi.Add(id, &ownLabeled{copyMap(own)})
		r.items[id] = &itemEntry{own, ps}
		r.c.Count("op_update_labels", 1)
	case op < 68:
		id := itemIDs[R.Intn(len(itemIDs))]
		r.op("DeleteLabels(%s)", id)
		r.idx.DeleteLabels(id)
		if _, ok := r.nvi.Get(id); ok {
			r.nvi.Remove(id)
		}
		delete(r.items, id)
		r.c.Count("op_delete_labels", 1)
	case op < 90: // parent labels: a subset of keys, always with the per-case value
		id := parentIDs[R.Intn(len(parentIDs)-1)]
		m := map[string]string{}
		for _, k := range keys {
			if R.Intn(2) == 0 {
				m[k] = r.pval[k]
			}
		}
		r.op("UpdateParentLabels(%s, %v)", id, m)
		r.idx.UpdateParentLabels(id, copyMap(m))
		r.parents[id] = m
		r.c.Count("op_update_parent", 1)
	default:
		id := parentIDs[R.Intn(len(parentIDs))]
		r.op("DeleteParentLabels(%s)", id)
		r.idx.DeleteParentLabels(id)
		delete(r.parents, id)
		r.c.Count("op_delete_parent", 1)
	}
	r.c.Count("ops", 1)
	return true
}

func runCase(c *harness.Case) {
	r := &run{c: c, R: c.R, pval: map[string]string{}, sels: map[string]*selEntry{}, items: map[string]*itemEntry{},
		parents: map[string]map[string]string{}, active: map[pair]bool{}}
	for _, k := range keys {
		r.pval[k] = vals[c.R.Intn(len(vals))]
	}
	r.idx = labelindex.NewInheritIndex(
		func(selID, itemID any) {
			p := pair{selID.(string), itemID.(string)}
			c.Count("match_started", 1)
			if r.active[p] && r.cbError == "" {
				r.cbError = fmt.Sprintf("OnMatchStarted(%s,%s) while that match is already started (during %q)", p.sel, p.item, r.ops[len(r.ops)-1])
			}
			r.active[p] = true
		},
		func(selID, itemID any) {
			p := pair{selID.(string), itemID.(string)}
			c.Count("match_stopped", 1)
			if !r.active[p] && r.cbError == "" {
				r.cbError = fmt.Sprintf("OnMatchStopped(%s,%s) without a preceding start (during %q)", p.sel, p.item, r.ops[len(r.ops)-1])
			}
			delete(r.active, p)
		})
	r.lri = labelrestrictionindex.New[string]()
	r.nvi = labelnamevalueindex.New[string, *ownLabeled]("items")

	n := c.Pick(60, 120)
	inherited := 0
	for i := 0; i < n; i++ {
		if !r.step() {
			return
		}
		if !r.verify() {
			return
		}
		for _, it := range r.items {
			if len(r.effective(it)) > len(it.own) {
				inherited++
				break
			}
		}
	}
	c.Count("states_with_inherited_labels", int64(inherited))
	first := r.ops
	if len(first) > 12 {
		first = first[:12]
	}
	if inherited >= 5 {
		c.NonTrivial(fmt.Sprint(first))
	}
	if c.Index < 3 {
		c.Sample(map[string]any{"first_ops": first})
	}
}

func main() {
	logrus.SetOutput(io.Discard)
	logrus.SetLevel(logrus.PanicLevel)
	harness.Main(harness.Check{
		ID:    "C07",
		Level: "exploration",
		Rule: "per case a history of 60 (thorough 120) PRNG operations over 6 items, 4 parents (one never given labels), 6 selector ids, 4 label keys and 4 values: selector add/replace/delete (selectors rendered from generated trees over ==, !=, in, not in, contains, starts/ends with, has, !has, all(), !, &&, ||), " +
			"item add/update (own labels; 0..3 parents with duplicates; re-sends with permuted parents, one parent replaced, labels only), item delete, parent label update/delete; after every operation the match relation, callback alternation, label restrictions, AllPotentialMatches and the own-label scan strategies are compared with the model. " +
			"Non-trivial = at least 5 states in which some item inherits a label from a parent; distinct by first 12 operations",
		Assumptions: []string{
			"reference evaluator and effective-label computation are written in checks/c07/main.go; the real parser is only used to build the Selector objects handed to the indexes",
			"two parents never give different values for one key (the tie-break between parents is not judged); own labels override parent labels",
			"single goroutine (the indexes are owned by the calculation graph goroutine)",
		},
		Cases: func(tier string) int {
			if tier == "thorough" {
				return 40000
			}
			return 3000
		},
		Run: runCase,
		Floors: map[string]int64{"ops": 20000, "relation_comparisons": 20000, "direct_evaluations": 200000, "matching_pairs_seen": 50000, "restriction_checks": 20000,
			"potential_match_queries": 20000, "scan_strategies": 20000, "match_started": 5000, "match_stopped": 3000, "states_with_inherited_labels": 5000},
	})
}

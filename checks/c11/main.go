// C11 — BPF policy programs reach the reference verdict.
//
// Real code driven: polprog.NewBuilder(...).Instructions(rules) for generated polprog.Rules, and the
// repo's IP set member encoders.  The generated programs are then EXECUTED
//
//	(a) in the real kernel: raw bpf(2) from Go (verif/internal/bpfsys, verif/internal/polexec): real
//	    verifier (a rejected program is a violation of "compiling never fails"), real LPM-trie and
//	    program-array maps, BPF_PROG_TEST_RUN; verdict = which epilogue program the policy tail-called
//	    plus pol_rc read back from the state map;
//	(b) in the interpreter verif/internal/bpfvm (bounds / uninitialised-stack sanitizer, sub-program
//	    chain), as a cross-check, and as the only executor where bpf() is refused (noted in the
//	    evidence by the counters kernel_runs / vm_only_cases).
//
// Oracle: verif/internal/refpolicy rule semantics (MatchRule / EvalRules) arranged as the builder's
// own documentation in Instructions() says: pre-DNAT tiers on the pre-NAT destination (allow ends host
// policy, fall-through continues); to/from-host traffic: normal host tiers then host profiles (or
// nothing when SuppressNormalHostPolicy), other traffic: apply-on-forward tiers (fall-through allows);
// then, unless ForHostInterface, workload tiers and profiles; a tier ends with its EndAction; profiles
// end with deny; XDP programs evaluate HostNormalTiers on the pre-NAT destination and pass on
// fall-through.  The kernel's answer is judged when available, otherwise the interpreter's.
//
// Deliberately not checked
//   - rule-hit IDs, the log flag and everything else the program leaves in the state besides pol_rc;
//   - a "pass" in a profile when a later profile would allow (documentation leaves it open; refpolicy
//     reports it as ambiguous);
//   - verdicts that depend on SCTP members of named-port IP sets: the repo's BPF member encoder drops
//     them ("Unknown protocol in named port member") and the BPF dataplane does not parse SCTP ports
//     at all; such packets are counted (sctp_named_port_unjudged);
//   - rules with an empty action string and more than one DstIpSetIds entry (the calc graph never
//     produces them for this dataplane; the builder panics on the latter by design);
//   - trampoline strides below 1000 (bpf_ep_mgr refuses them); more than jump.MaxSubPrograms (24)
//     sub-programs (the harness raises the split threshold and recompiles);
//   - interpreter/kernel disagreements and interpreter faults on programs the kernel accepted are the
//     harness's problem: inconclusive, never a violation -- with ONE exception: a read of stack bytes never
//     written in the current frame (the interpreter gives each tail-called sub-program a fresh, poisoned
//     frame, which is all a BPF program may assume) is a violation (uninitialised-stack-read-by-helper),
//     and so is the wrong verdict that follows from it (verdict-mismatch:fresh-stack-frame), even if the
//     kernel at hand happens to reuse the caller's frame and so masks it.
package main

import (
	"fmt"
	"io"
	"math/rand"
	"sort"
	"strings"

	"github.com/sirupsen/logrus"
	googleproto "google.golang.org/protobuf/proto"

	"github.com/projectcalico/calico/felix/bpf/asm"
	"github.com/projectcalico/calico/felix/bpf/polprog"
	"github.com/projectcalico/calico/felix/proto"

	"verif/internal/bpfsys"
	"verif/internal/harness"
	"verif/internal/polexec"
	"verif/internal/refpolicy"
	"verif/internal/rulegen"
)

// ---------------------------------------------------------------------------------------------
// reference

type refVerdict struct {
	V         string // allow | deny | xdp-pass
	Why       string
	Ambiguous bool
}

func protoRules(rs []polprog.Rule) []*proto.Rule {
	out := make([]*proto.Rule, len(rs))
	for i := range rs {
		out[i] = rs[i].Rule
	}
	return out
}

// evalTiers: 0 = fell through, 1 = allow, 2 = deny.
func evalTiers(tiers []polprog.Tier, pkt *refpolicy.Packet, sets refpolicy.IPSets, what string) (int, string) {
tiers:
	for ti, t := range tiers {
		for pi, p := range t.Policies {
			res := refpolicy.EvalRules(protoRules(p.Rules), pkt, sets)
			switch res.Action {
			case refpolicy.Allow:
				return 1, fmt.Sprintf("%s tier %d policy %d rule %d allows", what, ti, pi, res.Index)
			case refpolicy.Deny:
				return 2, fmt.Sprintf("%s tier %d policy %d rule %d denies", what, ti, pi, res.Index)
			case refpolicy.Pass:
				continue tiers
			}
		}
		if t.EndAction == polprog.TierEndPass {
			continue
		}
		return 2, fmt.Sprintf("%s tier %d ends with deny", what, ti)
	}
	return 0, what + " tiers fell through"
}

// evalProfiles: 1 = allow, 2 = deny.
func evalProfiles(profiles []polprog.Profile, pkt *refpolicy.Packet, sets refpolicy.IPSets, what string) (int, string, bool) {
	for pi, p := range profiles {
		res := refpolicy.EvalRules(protoRules(p.Rules), pkt, sets)
		switch res.Action {
		case refpolicy.Allow:
			return 1, fmt.Sprintf("%s profile %d rule %d allows", what, pi, res.Index), false
		case refpolicy.Deny:
			return 2, fmt.Sprintf("%s profile %d rule %d denies", what, pi, res.Index), false
		case refpolicy.Pass:
			amb := false
			for _, later := range profiles[pi+1:] {
				if refpolicy.EvalRules(protoRules(later.Rules), pkt, sets).Action == refpolicy.Allow {
					amb = true
				}
			}
			return 2, fmt.Sprintf("%s profile %d rule %d passes (= deny)", what, pi, res.Index), amb
		}
	}
	return 2, what + ": no profile matched", false
}

func reference(r polprog.Rules, pre, post *refpolicy.Packet, toOrFromHost bool, sets refpolicy.IPSets) refVerdict {
	if r.ForXDP {
		if !r.SuppressNormalHostPolicy {
			switch v, why := evalTiers(r.HostNormalTiers, pre, sets, "untracked"); v {
			case 2:
				return refVerdict{V: "deny", Why: why}
			case 0:
				return refVerdict{V: "xdp-pass", Why: why}
			}
		}
		// allowed by host policy
	} else {
		hostDone := false
		switch v, why := evalTiers(r.HostPreDnatTiers, pre, sets, "pre-DNAT"); v {
		case 2:
			return refVerdict{V: "deny", Why: why}
		case 1:
			hostDone = true
		}
		if !hostDone {
			if toOrFromHost {
				if !r.SuppressNormalHostPolicy {
					v, why := evalTiers(r.HostNormalTiers, post, sets, "host-normal")
					if v == 2 {
						return refVerdict{V: "deny", Why: why}
					}
					if v == 0 {
						pv, pwhy, amb := evalProfiles(r.HostProfiles, post, sets, "host")
						if pv == 2 {
							return refVerdict{V: "deny", Why: pwhy, Ambiguous: amb}
						}
					}
				}
			} else {
				if v, why := evalTiers(r.HostForwardTiers, post, sets, "apply-on-forward"); v == 2 {
					return refVerdict{V: "deny", Why: why}
				}
			}
		}
	}
	if r.ForHostInterface {
		return refVerdict{V: "allow", Why: "host interface: host policy allowed"}
	}
	v, why := evalTiers(r.Tiers, post, sets, "workload")
	switch v {
	case 1:
		return refVerdict{V: "allow", Why: why}
	case 2:
		return refVerdict{V: "deny", Why: why}
	}
	pv, pwhy, amb := evalProfiles(r.Profiles, post, sets, "workload")
	if pv == 1 {
		return refVerdict{V: "allow", Why: pwhy}
	}
	return refVerdict{V: "deny", Why: pwhy, Ambiguous: amb}
}

// ---------------------------------------------------------------------------------------------
// generation

type genCtx struct {
	c       *harness.Case
	g       *rulegen.Gen
	ipver   uint8
	nextID  uint64
	all     []*proto.Rule
	complex int // % of complex rules
}

func (x *genCtx) id() uint64 { x.nextID++; return x.nextID }

func (x *genCtx) rule(inProfile bool) polprog.Rule {
	var r *proto.Rule
	if x.c.R.Intn(100) < x.complex {
		r = x.g.Rule(x.ipver)
	} else {
		r = x.g.SimpleRule(x.ipver)
	}
	if x.c.R.Intn(6) == 0 {
		r = x.namedPortRule()
	}
	if r.Action == "" {
		r.Action = "allow" // see "Deliberately not checked"
	}
	if len(r.DstIpSetIds) > 1 {
		r.DstIpSetIds = r.DstIpSetIds[:1]
	}
	x.all = append(x.all, r)
	return polprog.Rule{Rule: r, MatchID: x.id()}
}

// namedPortRule: a tcp/udp rule whose (not-)source or (not-)destination port list resolves to 2-4
// named-port IP sets, optionally after a few numeric ports: the shape whose lookups form a loop that a
// program split can cut in two.
func (x *genCtx) namedPortRule() *proto.Rule {
	r := x.c.R
	pn := []string{"tcp", "udp"}[r.Intn(2)]
	ru := &proto.Rule{Action: []string{"allow", "deny", "pass", "allow"}[r.Intn(4)], Protocol: rulegen.ProtoName(pn), RuleId: fmt.Sprintf("np%d", x.nextID)}
	var sets []string
	for i, n := 0, 2+r.Intn(3); i < n; i++ {
		sets = append(sets, x.g.NewIPPortSet("n:", x.ipver, pn))
	}
	var ports []*proto.PortRange
	for i, n := 0, r.Intn(3); i < n; i++ {
		f := int32(1 + r.Intn(60000))
		ports = append(ports, &proto.PortRange{First: f, Last: f + int32(r.Intn(2))})
	}
	switch r.Intn(6) {
	case 0:
		ru.SrcNamedPortIpSetIds, ru.SrcPorts = sets, ports
	case 1:
		ru.NotDstNamedPortIpSetIds, ru.NotDstPorts = sets, ports
	case 2:
		ru.NotSrcNamedPortIpSetIds, ru.NotSrcPorts = sets, ports
	default:
		ru.DstNamedPortIpSetIds, ru.DstPorts = sets, ports
	}
	return ru
}

func (x *genCtx) policy(name string, maxRules int, inProfile bool) polprog.Policy {
	p := polprog.Policy{Kind: "GlobalNetworkPolicy", Name: name}
	if x.c.R.Intn(3) == 0 {
		p.Kind, p.Namespace = "NetworkPolicy", "ns"
	}
	for i, n := 0, x.c.R.Intn(maxRules+1); i < n; i++ {
		p.Rules = append(p.Rules, x.rule(inProfile))
	}
	return p
}

func (x *genCtx) tiers(prefix string, maxTiers, maxPols, maxRules int) []polprog.Tier {
	var out []polprog.Tier
	for ti, n := 0, x.c.R.Intn(maxTiers+1); ti < n; ti++ {
		t := polprog.Tier{Name: fmt.Sprintf("%s-t%d", prefix, ti), EndRuleID: x.id()}
		t.EndAction = []polprog.TierEndAction{polprog.TierEndDeny, polprog.TierEndPass, polprog.TierEndUndef, polprog.TierEndDeny}[x.c.R.Intn(4)]
		for pi, np := 0, x.c.R.Intn(maxPols+1); pi < np; pi++ {
			t.Policies = append(t.Policies, x.policy(fmt.Sprintf("%s-t%d-p%d", prefix, ti, pi), maxRules, false))
		}
		out = append(out, t)
	}
	return out
}

func (x *genCtx) profiles(prefix string, max, maxRules int) []polprog.Profile {
	var out []polprog.Profile
	for i, n := 0, x.c.R.Intn(max+1); i < n; i++ {
		p := x.policy(fmt.Sprintf("%s-prof%d", prefix, i), maxRules, true)
		p.Kind = "Profile"
		out = append(out, p)
	}
	return out
}

// bigPolicy returns a policy heavy enough to exceed the builder's real split threshold (~8000 jumps).
func (x *genCtx) bigPolicy(rules int) polprog.Policy {
	p := polprog.Policy{Kind: "GlobalNetworkPolicy", Name: "big"}
	r := x.c.R
	for i := 0; i < rules; i++ {
		pr := &proto.Rule{Action: []string{"allow", "deny", "pass"}[r.Intn(3)], Protocol: rulegen.ProtoName([]string{"tcp", "udp"}[r.Intn(2)]), RuleId: fmt.Sprintf("big%d", i)}
		for j, n := 0, 20+r.Intn(20); j < n; j++ {
			first := int32(1 + r.Intn(65000))
			pr.DstPorts = append(pr.DstPorts, &proto.PortRange{First: first, Last: first + int32(r.Intn(3))})
		}
		if x.ipver == 4 {
			pr.SrcNet = []string{fmt.Sprintf("10.%d.%d.0/24", r.Intn(4), r.Intn(4))}
		} else {
			pr.SrcNet = []string{fmt.Sprintf("fd00:%x::/64", r.Intn(8))}
		}
		x.all = append(x.all, pr)
		p.Rules = append(p.Rules, polprog.Rule{Rule: pr, MatchID: x.id()})
	}
	return p
}

func summary(r polprog.Rules) map[string]any {
	cnt := func(ts []polprog.Tier) string {
		var s []string
		for _, t := range ts {
			var ps []string
			for _, p := range t.Policies {
				ps = append(ps, fmt.Sprint(len(p.Rules)))
			}
			s = append(s, fmt.Sprintf("[%s end=%q]", strings.Join(ps, ","), t.EndAction))
		}
		return strings.Join(s, " ")
	}
	pc := func(ps []polprog.Profile) string {
		var s []string
		for _, p := range ps {
			s = append(s, fmt.Sprint(len(p.Rules)))
		}
		return strings.Join(s, ",")
	}
	return map[string]any{"for_host_interface": r.ForHostInterface, "suppress_normal_host_policy": r.SuppressNormalHostPolicy, "xdp": r.ForXDP,
		"pre_dnat_tiers": cnt(r.HostPreDnatTiers), "forward_tiers": cnt(r.HostForwardTiers), "host_normal_tiers": cnt(r.HostNormalTiers),
		"host_profiles": pc(r.HostProfiles), "workload_tiers": cnt(r.Tiers), "profiles": pc(r.Profiles)}
}

func dumpRules(r polprog.Rules) any {
	js := func(ts []polprog.Tier) any {
		var out []any
		for _, t := range ts {
			var ps []any
			for _, p := range t.Policies {
				var rs []string
				for _, ru := range p.Rules {
					rs = append(rs, ruleString(ru.Rule))
				}
				ps = append(ps, map[string]any{"policy": p.Name, "rules": rs})
			}
			out = append(out, map[string]any{"tier": t.Name, "end": string(t.EndAction), "policies": ps})
		}
		return out
	}
	pj := func(ps []polprog.Profile) any {
		var out []any
		for _, p := range ps {
			var rs []string
			for _, ru := range p.Rules {
				rs = append(rs, ruleString(ru.Rule))
			}
			out = append(out, map[string]any{"profile": p.Name, "rules": rs})
		}
		return out
	}
	return map[string]any{"summary": summary(r), "pre_dnat": js(r.HostPreDnatTiers), "forward": js(r.HostForwardTiers), "host_normal": js(r.HostNormalTiers),
		"host_profiles": pj(r.HostProfiles), "workload": js(r.Tiers), "profiles": pj(r.Profiles)}
}

func ruleString(r *proto.Rule) string {
	c := googleproto.Clone(r).(*proto.Rule)
	c.RuleId = ""
	s := c.String()
	if len(s) > 700 {
		s = s[:700] + "..."
	}
	return s
}

// numberedProtocols returns a deep copy of rules in which protocol NAMES are replaced by numbers
// (diagnosis only: does a mismatch come from the builder's protocol-name table?).
func numberedProtocols(r polprog.Rules) (polprog.Rules, []string) {
	var names []string
	fix := func(p **proto.Protocol) {
		if *p == nil {
			return
		}
		if n, ok := (*p).NumberOrName.(*proto.Protocol_Name); ok {
			if num, ok2 := refpolicy.ProtocolNumber(*p); ok2 {
				names = append(names, strings.ToLower(n.Name))
				*p = rulegen.ProtoNum(int32(num))
			}
		}
	}
	fr := func(rs []polprog.Rule) []polprog.Rule {
		out := make([]polprog.Rule, len(rs))
		for i, ru := range rs {
			c := googleproto.Clone(ru.Rule).(*proto.Rule)
			fix(&c.Protocol)
			fix(&c.NotProtocol)
			out[i] = polprog.Rule{Rule: c, MatchID: ru.MatchID}
		}
		return out
	}
	ft := func(ts []polprog.Tier) []polprog.Tier {
		out := make([]polprog.Tier, len(ts))
		for i, t := range ts {
			out[i] = t
			out[i].Policies = make([]polprog.Policy, len(t.Policies))
			for j, p := range t.Policies {
				out[i].Policies[j] = p
				out[i].Policies[j].Rules = fr(p.Rules)
			}
		}
		return out
	}
	fp := func(ps []polprog.Profile) []polprog.Profile {
		out := make([]polprog.Profile, len(ps))
		for i, p := range ps {
			out[i] = p
			out[i].Rules = fr(p.Rules)
		}
		return out
	}
	o := r
	o.Tiers, o.HostPreDnatTiers, o.HostForwardTiers, o.HostNormalTiers = ft(r.Tiers), ft(r.HostPreDnatTiers), ft(r.HostForwardTiers), ft(r.HostNormalTiers)
	o.Profiles, o.HostProfiles = fp(r.Profiles), fp(r.HostProfiles)
	return o, names
}

// withoutSCTPMembers drops the ip,sctp:port members, as the BPF encoder does.
func withoutSCTPMembers(members map[string][]string) refpolicy.IPSets {
	out := map[string][]string{}
	for id, ms := range members {
		var keep []string
		for _, m := range ms {
			if strings.Contains(m, ",sctp:") {
				continue
			}
			keep = append(keep, m)
		}
		out[id] = keep
	}
	return refpolicy.MustParseIPSets(out)
}

// ---------------------------------------------------------------------------------------------

// freshFrameViolation: the interpreter gives every (tail-called) program a fresh, poisoned stack frame,
// as a BPF frame is allowed to be, and records reads of bytes never written in that frame.  Such a read
// through a helper argument (the IP set lookup key) is a violation in its own right -- verifiers before
// Linux 6.3, and any unprivileged load, reject the program -- and so is a wrong verdict that follows from
// it, even though one JIT happens to leave the caller's frame in place (which masks it in the kernel
// executor).  Returns true if something was recorded.
func freshFrameViolation(c *harness.Case, vmRes polexec.Result, want refVerdict, pkt string, ps polexec.PacketState, detail func() map[string]any) bool {
	if len(vmRes.UninitReads) == 0 {
		return false
	}
	c.Count("uninitialised_stack_reads", 1)
	key := "uninitialised-stack-read"
	for _, u := range vmRes.UninitReads {
		if u.Kind == "uninit-stack-helper" {
			key = "uninitialised-stack-read-by-helper"
		}
	}
	d := detail()
	d["packet"], d["state"] = pkt, fmt.Sprintf("%+v", ps)
	d["reads"] = vmRes.UninitReads
	d["sub_program_chain"] = vmRes.Chain
	c.Violationf(key, d, "packet %s: the policy program reads stack bytes it never wrote in the current frame (%s); a tail-called sub-program starts with an unspecified frame",
		pkt, vmRes.UninitReads[0].Error())
	wantRC := int32(1)
	if want.V == "deny" {
		wantRC = 2
	}
	if vmRes.Verdict != want.V || (want.V != "xdp-pass" && vmRes.PolRC != wantRC) {
		d2 := detail()
		d2["packet"], d2["state"], d2["reference"] = pkt, fmt.Sprintf("%+v", ps), want
		d2["interpreter"] = map[string]any{"verdict": vmRes.Verdict, "pol_rc": vmRes.PolRC, "chain": vmRes.Chain, "uninitialised_reads": vmRes.UninitReads}
		c.Violationf("verdict-mismatch:fresh-stack-frame", d2,
			"packet %s: with a fresh stack frame per sub-program the BPF program says %s (pol_rc=%d), reference says %s (%s)", pkt, vmRes.Verdict, vmRes.PolRC, want.V, want.Why)
	}
	return true
}

// safeCompile runs the builder and turns a panic into a value (the harness would record any panic as
// a violation anyway; catching it here lets the case name the cause and go on).
func safeCompile(rules polprog.Rules, ids polexec.IDs, o polexec.Options, fds polexec.FDs) (progs []asm.Insns, err error, panicMsg string) {
	defer func() {
		if r := recover(); r != nil {
			panicMsg = fmt.Sprint(r)
			if e, ok := r.(*logrus.Entry); ok {
				panicMsg = e.Message
			}
		}
	}()
	progs, err = polexec.Compile(rules, ids, o, fds)
	return
}

func profilesHaveLog(r polprog.Rules) bool {
	for _, ps := range [][]polprog.Profile{r.Profiles, r.HostProfiles} {
		for _, p := range ps {
			for _, ru := range p.Rules {
				if strings.EqualFold(ru.Action, "log") {
					return true
				}
			}
		}
	}
	return false
}

// withoutProfileLogRules returns rules with the log rules of profiles removed (a log rule never changes
// a verdict, so the reference verdicts stay the same).
func withoutProfileLogRules(r polprog.Rules) polprog.Rules {
	strip := func(ps []polprog.Profile) []polprog.Profile {
		out := make([]polprog.Profile, len(ps))
		for i, p := range ps {
			out[i] = p
			out[i].Rules = nil
			for _, ru := range p.Rules {
				if !strings.EqualFold(ru.Action, "log") {
					out[i].Rules = append(out[i].Rules, ru)
				}
			}
		}
		return out
	}
	r.Profiles, r.HostProfiles = strip(r.Profiles), strip(r.HostProfiles)
	return r
}

type executors struct {
	k    *polexec.Kernel
	vm   *polexec.VM
	opts polexec.Options
}

// lastBuildFailure says why the most recent build() recorded a violation ("" = it did not):
// "log-in-profile" or "unreachable-after-split" are the two shapes after which a case can continue
// with an adjusted input, so that one finding does not hide others.
var lastBuildFailure string

func (e *executors) close() {
	if e.k != nil {
		e.k.Close()
	}
}

// build compiles rules and loads them into both executors.  A non-nil violation has been recorded.
func build(c *harness.Case, rules polprog.Rules, ids polexec.IDs, opts polexec.Options, members map[string][]string, detail func() map[string]any) (*executors, bool) {
	lastBuildFailure = ""
	e := &executors{opts: opts}
	fds := polexec.FDs{IPSets: 3, State: 4, Static: 5, PolJump: 6}
	if bpfsys.Available() == nil {
		k, err := polexec.NewKernel(opts)
		if err != nil {
			c.Inconclusive("kernel environment: " + err.Error())
			return nil, false
		}
		e.k = k
		fds = k.FDs()
	}
	var progs []asm.Insns
	compile := func() bool {
		var err error
		var pmsg string
		progs, err, pmsg = safeCompile(rules, ids, e.opts, fds)
		if pmsg != "" {
			d := detail()
			d["panic"] = pmsg
			key := "builder-panics"
			if strings.Contains(pmsg, "empty action label") && profilesHaveLog(rules) {
				key = "builder-panics:log-action-in-profile"
				lastBuildFailure = "log-in-profile"
			}
			c.Violationf(key, d, "polprog.Builder.Instructions panicked on a valid configuration: %s", pmsg)
			return false
		}
		if err != nil {
			d := detail()
			d["error"] = err.Error()
			c.Violationf("compile-error", d, "polprog.Builder.Instructions failed on a valid configuration: %v", err)
			return false
		}
		return true
	}
	for attempt := 0; ; attempt++ {
		if !compile() {
			e.close()
			return nil, false
		}
		if len(progs) <= 24 || e.opts.MaxJumps == 0 || attempt > 8 {
			break
		}
		e.opts.MaxJumps *= 2 // too many sub-programs for jump.MaxSubPrograms: raise the threshold
		c.Count("split_threshold_raised", 1)
	}
	if len(progs) > 24 {
		c.Inconclusive("more than 24 sub-programs")
		e.close()
		return nil, false
	}
	c.Count("programs_compiled", int64(len(progs)))
	ninsns := 0
	for _, p := range progs {
		ninsns += len(p)
	}
	c.Count("instructions_compiled", int64(ninsns))
	if len(progs) > 1 {
		c.Count("split_configurations", 1)
		c.Count("sub_programs_of_split_configurations", int64(len(progs)))
	}
	if e.k != nil {
		for {
			err := e.k.Load(progs, e.opts)
			if err == nil {
				break
			}
			if polexec.IsRange(err) && e.opts.TrampolineStride != 1000 {
				// what bpf_ep_mgr does: smaller trampoline stride, recompile
				ts := e.opts.TrampolineStride
				if ts == 0 {
					ts = asm.TrampolineStrideDefault
				}
				ts -= ts / 4
				if ts < 1000 {
					ts = 1000
				}
				e.opts.TrampolineStride = ts
				c.Count("trampoline_stride_reduced", 1)
				if !compile() {
					e.close()
					return nil, false
				}
				continue
			}
			if bpfsys.Transient(err) {
				c.Count("transient_kernel_errors", 1)
				c.Inconclusive("transient kernel error while loading a program: " + err.Error())
				e.close()
				return nil, false
			}
			d := detail()
			d["error"] = err.Error()
			if le, ok := err.(*polexec.LoadError); ok {
				d["verifier_log_tail"] = le.VerifierLog
				d["sub_program"] = le.Index
				d["instructions"] = le.NumInsns
				d["num_sub_programs"] = len(progs)
				if le.Index < len(progs) {
					d["program_tail"] = disasm(progs[le.Index], 60)
				}
				// the same configuration compiled with policy debug on carries the builder's labels
				dbg := e.opts
				dbg.PolicyDebug = true
				if dp, derr, pm := safeCompile(rules, ids, dbg, fds); derr == nil && pm == "" && le.Index < len(dp) {
					d["program_tail_with_labels_policy_debug_build"] = disasm(dp[le.Index], 45)
				}
			}
			key := "verifier-rejects-program"
			if le, ok := err.(*polexec.LoadError); ok && isElidedSplitTrailer(le, progs) {
				key = "verifier-rejects-program:unreachable-insn-after-split"
				lastBuildFailure = "unreachable-after-split"
			}
			c.Violationf(key, d, "the kernel verifier rejected a generated policy program: %v", err)
			e.close()
			return nil, false
		}
		c.Count("programs_verified_by_kernel", int64(len(progs)))
	}
	e.vm = polexec.NewVM(e.opts, fds)
	e.vm.Load(progs, e.opts)
	nent := 0
	for _, name := range sortedNames(members) {
		for _, key := range polexec.IPSetEntries(ids[name], members[name], opts.IPv6) {
			nent++
			if e.k != nil {
				if err := e.k.AddIPSetEntry(key); err != nil {
					c.Inconclusive("IP set map update: " + err.Error())
					e.close()
					return nil, false
				}
			}
			if err := e.vm.AddIPSetEntry(key); err != nil {
				c.Inconclusive("IP set entry: " + err.Error())
				e.close()
				return nil, false
			}
		}
	}
	c.Count("ip_set_entries", int64(nent))
	return e, true
}

// isElidedSplitTrailer recognises exactly the listed known finding: the program was split, the rejected
// sub-program is not the last one, the verifier says "unreachable insn N", N is the first of the last two
// instructions, and the sub-program ends with two consecutive "r0 = <drop>; exit" pairs -- i.e. the split
// trailer (r0 = k; goto next-program; ... tail call) was elided as dead code because the split point
// followed a tier that ends with deny and that nothing jumps past, and only the trailer's second exit
// target survived.  Any other rejection keeps the generic key.
func isElidedSplitTrailer(le *polexec.LoadError, progs []asm.Insns) bool {
	if len(progs) < 2 || le.Index >= len(progs)-1 {
		return false
	}
	p := progs[le.Index]
	n := len(p)
	if n < 4 || !strings.Contains(le.VerifierLog, fmt.Sprintf("unreachable insn %d", n-2)) {
		return false
	}
	isMovR0 := func(in asm.Insn) bool { return in.Instruction[0] == 0xb7 && in.Instruction[1]&0x0f == 0 }
	isExit := func(in asm.Insn) bool { return in.Instruction[0] == 0x95 }
	return isMovR0(p[n-4]) && isExit(p[n-3]) && isMovR0(p[n-2]) && isExit(p[n-1])
}

// disasm renders the last n instructions of a program with the builder's labels and comments.
func disasm(p asm.Insns, n int) []string {
	start := len(p) - n
	if start < 0 {
		start = 0
	}
	var out []string
	for i := start; i < len(p); i++ {
		in := p[i]
		for _, cm := range in.Comments {
			out = append(out, "      // "+cm)
		}
		for _, l := range in.Labels {
			out = append(out, "    "+l+":")
		}
		out = append(out, fmt.Sprintf("%5d: %s  %s", i, in.String(), in.Annotation))
	}
	return out
}

func sortedNames(m map[string][]string) []string {
	var n []string
	for k := range m {
		n = append(n, k)
	}
	sort.Strings(n)
	return n
}

func toState(p refpolicy.Packet, pre refpolicy.Packet, fromHost, toHost bool, r *rand.Rand) polexec.PacketState {
	ps := polexec.PacketState{Src: p.Src, Dst: pre.Dst, PreNATDst: pre.Dst, PostNATDst: p.Dst, Proto: p.Proto, FromHost: fromHost, ToHost: toHost}
	switch {
	case refpolicy.HasPorts(p.Proto):
		ps.SrcPort = p.SrcPort
		ps.DstPort = pre.DstPort
		ps.PreNATDstPort = pre.DstPort
		ps.PostNATDstPort = p.DstPort
	case p.IsICMP():
		ps.DstPort = uint16(p.ICMPType) | uint16(p.ICMPCode)<<8
		ps.PostNATDstPort = ps.DstPort // tc.c: post_nat_dport = dport when there is no NAT
	}
	// junk left in the state by whatever ran before: the program must not depend on it
	if r.Intn(4) == 0 {
		ps.PolRC = int32(r.Intn(12))
	}
	if r.Intn(6) == 0 {
		ps.RulesHit = uint32(r.Intn(34))
	}
	return ps
}

// alignedSplit is a directed case: a workload whose first tier (default deny, no pass rules) is sized
// so that the builder's REAL split threshold (production default, no hook) is crossed exactly at the
// first rule after that tier's end.  The number of single ports of the tier's last rule walks the
// alignment one jump at a time across a window around the threshold.
func alignedSplit(c *harness.Case) {
	mkRule := func(i, ports int, action string) polprog.Rule {
		pr := &proto.Rule{Action: action, Protocol: rulegen.ProtoName("tcp"), RuleId: fmt.Sprintf("r%d", i), SrcNet: []string{fmt.Sprintf("10.%d.%d.0/24", i/250, i%250)}}
		for j := 0; j < ports; j++ {
			pr.DstPorts = append(pr.DstPorts, &proto.PortRange{First: int32(1000 + j), Last: int32(1000 + j)})
		}
		return polprog.Rule{Rule: pr, MatchID: uint64(1000 + i)}
	}
	config := func(n, extra int, withSecond bool) polprog.Rules {
		pol := polprog.Policy{Kind: "GlobalNetworkPolicy", Name: "p1"}
		for i := 0; i < n; i++ {
			pol.Rules = append(pol.Rules, mkRule(i, 20, []string{"allow", "deny"}[i%2]))
		}
		pol.Rules = append(pol.Rules, mkRule(n, extra, "deny"))
		r := polprog.Rules{NoProfileMatchID: 7, Tiers: []polprog.Tier{{Name: "first", EndRuleID: 8, EndAction: polprog.TierEndDeny, Policies: []polprog.Policy{pol}}}}
		if withSecond {
			r.Tiers = append(r.Tiers, polprog.Tier{Name: "second", EndRuleID: 9, EndAction: polprog.TierEndDeny, Policies: []polprog.Policy{{Kind: "GlobalNetworkPolicy", Name: "p2",
				Rules: []polprog.Rule{{Rule: &proto.Rule{Action: "allow", Protocol: rulegen.ProtoName("udp"), RuleId: "second0"}, MatchID: 10}}}}})
		}
		return r
	}
	countJumps := func(p asm.Insns) int {
		n := 0
		for _, in := range p {
			if cl := in.Instruction[0] & 7; cl == 5 || cl == 6 {
				n++
			}
		}
		return n
	}
	opts := polexec.Options{AllowDenyJumps: true, AllowIdx: 1, DenyIdx: 2, EntryIdx: 3, Stride: 50}
	fds := polexec.FDs{IPSets: 3, State: 4, Static: 5, PolJump: 6}
	// calibrate: jumps of a single-program configuration and jumps per base rule
	p1, err1 := polexec.Compile(config(200, 1, false), polexec.IDs{}, opts, fds)
	p2, err2 := polexec.Compile(config(201, 1, false), polexec.IDs{}, opts, fds)
	if err1 != nil || err2 != nil || len(p1) != 1 || len(p2) != 1 {
		c.Inconclusive("aligned-split calibration did not yield single programs")
		return
	}
	j200, per := countJumps(p1[0]), countJumps(p2[0])-countJumps(p1[0])
	if per <= 0 {
		c.Inconclusive("aligned-split calibration: no jumps per rule")
		return
	}
	const threshold = 8192 - 200 // polprog's defaultPerProgramJumpLimit
	n := 200 + (threshold-60-j200)/per
	tried, split, loaded := 0, 0, 0
	for extra := 1; extra <= 120; extra++ {
		rules := config(n, extra, true)
		detail := func() map[string]any {
			return map[string]any{"directed": "split threshold (production default) crossed exactly at the first rule after a tier that ends with deny and has no pass rule",
				"options": fmt.Sprintf("%+v", opts), "rules": summary(rules),
				"tier_first":  fmt.Sprintf("%d rules {tcp, src 10.x.y.0/24, 20 single dst ports, allow/deny alternating} + 1 rule {tcp, src net, %d single dst ports, deny}; end action deny", n, extra),
				"tier_second": "1 rule {udp, allow}; end action deny"}
		}
		progs, err := polexec.Compile(rules, polexec.IDs{}, opts, fds)
		if err != nil {
			d := detail()
			d["error"] = err.Error()
			c.Violationf("compile-error", d, "polprog.Builder.Instructions failed on a valid configuration: %v", err)
			return
		}
		tried++
		c.Count("directed_aligned_split_variants", 1)
		if len(progs) > 1 {
			split++
			c.Count("directed_aligned_split_variants_that_split", 1)
		}
		// Load into the kernel: every variant that split for the first time or near it, and every 10th.
		if bpfsys.Available() != nil || (len(progs) == 1 && extra%10 != 0) || (len(progs) > 1 && split > 6 && extra%10 != 0) {
			continue
		}
		loaded++
		c.Count("directed_aligned_split_variants_loaded", 1)
		e, ok := build(c, rules, polexec.IDs{}, opts, nil, detail)
		if !ok {
			if lastBuildFailure == "unreachable-after-split" {
				continue // the listed finding: recorded, keep sweeping
			}
			return
		}
		e.close()
	}
	if split > 0 && split < tried {
		c.NonTrivial("aligned-split", n, per)
	}
}

// namedPortSplitSweep is a directed family: a small workload policy built around one rule whose port
// list resolves to three named-port IP sets, compiled with every split threshold from 1 to 30 so that the
// split point walks through the rule -- in particular into the named-port lookup loop after its first
// lookup -- and probed with packets decided by each of the sets and by none.
func namedPortSplitSweep(c *harness.Case) {
	r := c.R
	for _, ipver := range []uint8{4, 6} {
		for variant := 0; variant < 6; variant++ {
			g := rulegen.New(r, rulegen.Config{})
			x := &genCtx{c: c, g: g, ipver: ipver}
			pn := []string{"tcp", "udp"}[r.Intn(2)]
			sets := []string{g.NewIPPortSet("n:", ipver, pn), g.NewIPPortSet("n:", ipver, pn), g.NewIPPortSet("n:", ipver, pn)}
			np := &proto.Rule{Protocol: rulegen.ProtoName(pn), RuleId: "named"}
			allowAll := &proto.Rule{Action: "allow", RuleId: "allow-all"}
			var rl []*proto.Rule
			switch variant {
			case 0: // allow members, tier ends with deny
				np.Action, np.DstNamedPortIpSetIds = "allow", sets
				rl = []*proto.Rule{np}
			case 1: // deny members, allow the rest
				np.Action, np.DstNamedPortIpSetIds = "deny", sets
				rl = []*proto.Rule{np, allowAll}
			case 2: // allow everything but members
				np.Action, np.NotDstNamedPortIpSetIds = "allow", sets
				rl = []*proto.Rule{np}
			case 3: // source side
				np.Action, np.SrcNamedPortIpSetIds = "allow", sets
				rl = []*proto.Rule{np}
			case 4: // numeric ports first, then the sets
				np.Action, np.DstNamedPortIpSetIds = "allow", sets
				np.DstPorts = []*proto.PortRange{{First: 1, Last: 1}, {First: 7, Last: 9}}
				rl = []*proto.Rule{np}
			default: // a simple rule in front shifts the jump count
				np.Action, np.NotSrcNamedPortIpSetIds = "deny", sets
				rl = []*proto.Rule{g.SimpleRule(ipver), np, allowAll}
			}
			for _, ru := range rl {
				if len(ru.DstIpSetIds) > 1 {
					ru.DstIpSetIds = ru.DstIpSetIds[:1]
				}
			}
			var prs []polprog.Rule
			for _, ru := range rl {
				prs = append(prs, polprog.Rule{Rule: ru, MatchID: x.id()})
			}
			rules := polprog.Rules{NoProfileMatchID: x.id(), Tiers: []polprog.Tier{{Name: "t", EndRuleID: x.id(), EndAction: polprog.TierEndDeny,
				Policies: []polprog.Policy{{Kind: "GlobalNetworkPolicy", Name: "p", Rules: prs}}}}}
			members := g.SetMembers()
			ids := polexec.IDs{}
			for i, name := range g.SetIDs() {
				ids[name] = uint64(0x7000 + i)
			}
			refSets := g.IPSets()
			pkts := g.Packets(np, ipver, 24)
			for i := 0; i < 6; i++ {
				pkts = append(pkts, g.UniversePacket(ipver))
			}
			for thr := 1; thr <= 30; thr++ {
				opts := polexec.Options{IPv6: ipver == 6, AllowDenyJumps: true, AllowIdx: 1, DenyIdx: 2, EntryIdx: 3, Stride: 50, MaxJumps: thr, FlowLogs: thr%2 == 0}
				detail := func() map[string]any {
					return map[string]any{"directed": "split threshold sweep across a rule with three named-port IP sets", "variant": variant, "ipver": ipver,
						"options": fmt.Sprintf("%+v", opts), "rules": dumpRules(rules), "ip_sets": members}
				}
				e, ok := build(c, rules, ids, opts, members, detail)
				if !ok {
					if lastBuildFailure == "unreachable-after-split" {
						continue
					}
					return
				}
				c.Count("directed_named_port_split_builds", 1)
				if len(e.vm.Programs()) > 1 {
					c.Count("directed_named_port_split_builds_that_split", 1)
				}
				for _, p := range pkts {
					p := p
					ps := toState(p, p, false, false, r)
					want := reference(rules, &p, &p, false, refSets)
					vmRes, fault := e.vm.Run(ps, e.opts)
					if fault != nil {
						c.Inconclusive("interpreter fault: " + fault.Error())
						e.close()
						return
					}
					if freshFrameViolation(c, vmRes, want, p.String(), ps, detail) {
						e.close()
						return
					}
					got := vmRes
					if e.k != nil {
						kres, err := e.k.Run(ps, e.opts)
						if err != nil {
							c.Inconclusive("BPF_PROG_TEST_RUN: " + err.Error())
							e.close()
							return
						}
						got = kres
					}
					c.Count("directed_named_port_verdicts", 1)
					wantRC := int32(1)
					if want.V == "deny" {
						wantRC = 2
					}
					if got.Verdict != want.V || got.PolRC != wantRC {
						d := detail()
						d["packet"], d["reference"] = p.String(), want
						d["observed"] = map[string]any{"verdict": got.Verdict, "pol_rc": got.PolRC, "vm_chain": vmRes.Chain}
						c.Violationf("verdict-mismatch", d, "packet %s: BPF program says %s (pol_rc=%d), reference says %s (%s)", p, got.Verdict, got.PolRC, want.V, want.Why)
						e.close()
						return
					}
				}
				e.close()
			}
		}
	}
	c.NonTrivial("named-port-split-sweep")
}

func run(c *harness.Case) {
	if c.Index == 5 {
		alignedSplit(c)
		return
	}
	if c.Index == 6 || (c.Thorough() && c.Index%500 == 6) {
		namedPortSplitSweep(c)
		return
	}
	r := c.R
	ipver := uint8(4)
	if r.Intn(3) == 0 {
		ipver = 6
	}
	big := c.Index%400 == 7 || (c.Thorough() && c.Index%150 == 7)
	g := rulegen.New(r, rulegen.Config{MaxPorts: 12, MaxCIDRs: 4, MaxSetMembers: 6})
	x := &genCtx{c: c, g: g, ipver: ipver, complex: []int{10, 40, 80}[r.Intn(3)]}

	var rules polprog.Rules
	xdp := !big && r.Intn(8) == 0
	if xdp {
		rules.ForXDP, rules.ForHostInterface = true, true
		rules.HostNormalTiers = x.tiers("untracked", 3, 3, 5)
	} else {
		rules.ForHostInterface = r.Intn(3) == 0
		rules.SuppressNormalHostPolicy = r.Intn(3) == 0
		rules.HostPreDnatTiers = x.tiers("prednat", 2, 2, 4)
		rules.HostForwardTiers = x.tiers("forward", 2, 2, 4)
		rules.HostNormalTiers = x.tiers("hostnormal", 2, 2, 4)
		rules.HostProfiles = x.profiles("host", 2, 3)
		if !rules.ForHostInterface || r.Intn(4) == 0 { // unused fields may still be populated
			rules.Tiers = x.tiers("wl", 3, 4, 5)
			rules.Profiles = x.profiles("wl", 3, 4)
		}
	}
	rules.NoProfileMatchID = x.id()
	if big {
		t := polprog.Tier{Name: "big", EndRuleID: x.id(), EndAction: polprog.TierEndPass, Policies: []polprog.Policy{x.bigPolicy(220 + r.Intn(120))}}
		rules.Tiers = append([]polprog.Tier{t}, rules.Tiers...)
		rules.ForHostInterface = false
		c.Count("big_configurations", 1)
	}

	members := g.SetMembers()
	ids := polexec.IDs{}
	for i, name := range g.SetIDs() {
		ids[name] = uint64(0x1000+i)<<8 | uint64(r.Intn(256)) | uint64(r.Intn(2))<<40
	}
	sets := g.IPSets()
	setsNoSCTP := withoutSCTPMembers(members)

	opts := polexec.Options{IPv6: ipver == 6, XDP: xdp, FlowLogs: r.Intn(2) == 0, PolicyDebug: r.Intn(4) == 0,
		AllowDenyJumps: xdp || r.Intn(2) == 0, AllowIdx: r.Intn(32), DenyIdx: 32 + r.Intn(32),
		EntryIdx: r.Intn(40), Stride: 40 + r.Intn(20)}
	if !big && r.Intn(3) == 0 {
		opts.MaxJumps = []int{15, 40, 100, 300}[r.Intn(4)]
	}
	if r.Intn(3) == 0 {
		opts.TrampolineStride = []int{1000, 1500, 4000}[r.Intn(3)]
	}
	detail := func() map[string]any {
		return map[string]any{"ipver": ipver, "options": fmt.Sprintf("%+v", opts), "rules": dumpRules(rules), "ip_sets": members}
	}
	if big {
		// the witness of a big configuration would be megabytes
		detail = func() map[string]any {
			return map[string]any{"ipver": ipver, "options": fmt.Sprintf("%+v", opts), "rules": summary(rules), "note": "big configuration: rules elided"}
		}
	}

	var e *executors
	for attempt := 0; ; attempt++ {
		var ok bool
		e, ok = build(c, rules, ids, opts, members, detail)
		if ok {
			break
		}
		switch {
		case lastBuildFailure == "log-in-profile" && attempt < 3:
			// recorded; go on without the log rules (they never change a verdict)
			rules = withoutProfileLogRules(rules)
			c.Count("continued_after_log_in_profile_panic", 1)
		case lastBuildFailure == "unreachable-after-split" && attempt < 3 && opts.MaxJumps > 0:
			// recorded; go on with another split point
			opts.MaxJumps = opts.MaxJumps*2 + 7
			c.Count("continued_after_unreachable_split", 1)
		default:
			return
		}
	}
	defer e.close()
	if e.k == nil {
		c.Count("vm_only_cases", 1)
	}

	// packets
	var pkts []refpolicy.Packet
	if len(x.all) > 0 {
		for i := 0; i < 8; i++ {
			ru := x.all[r.Intn(len(x.all))]
			pkts = append(pkts, g.Packets(ru, ipver, 4)...)
		}
	}
	for len(pkts) < c.Pick(40, 60) {
		if r.Intn(3) == 0 {
			pkts = append(pkts, g.RandomPacket(ipver))
		} else {
			pkts = append(pkts, g.UniversePacket(ipver))
		}
	}
	shapes := map[string]bool{}
	protoNameHits := 0
	for i, p := range pkts {
		pre := p
		if r.Intn(3) == 0 { // DNAT: the pre-NAT destination differs
			q := pkts[r.Intn(len(pkts))]
			pre.Dst, pre.DstPort = q.Dst, q.DstPort
		}
		fromHost, toHost := r.Intn(4) == 0, r.Intn(4) == 0
		ps := toState(p, pre, fromHost, toHost, r)
		want := reference(rules, &pre, &p, fromHost || toHost, sets)
		c.Count("packets", 1)
		if want.Ambiguous {
			c.Count("ambiguous_profile_pass_unjudged", 1)
			continue
		}
		if p.Proto == refpolicy.ProtoSCTP {
			if alt := reference(rules, &pre, &p, fromHost || toHost, setsNoSCTP); alt.V != want.V {
				c.Count("sctp_named_port_unjudged", 1)
				continue
			}
		}
		var got polexec.Result
		var vmRes polexec.Result
		vmRes, fault := e.vm.Run(ps, e.opts)
		if fault == nil && freshFrameViolation(c, vmRes, want, p.String(), ps, detail) {
			return
		}
		if e.k != nil {
			kres, err := e.k.Run(ps, e.opts)
			if err != nil {
				c.Inconclusive("BPF_PROG_TEST_RUN: " + err.Error())
				return
			}
			c.Count("kernel_runs", 1)
			got = kres
			if fault != nil {
				c.Count("vm_faults_on_kernel_accepted_programs", 1)
				c.Inconclusive("interpreter fault on a program the kernel accepted: " + fault.Error())
			} else {
				c.Count("executor_comparisons", 1)
				if vmRes.Verdict != kres.Verdict || vmRes.PolRC != kres.PolRC {
					c.Count("executor_disagreements", 1)
					c.Inconclusive(fmt.Sprintf("interpreter (%s rc=%d) and kernel (%s rc=%d) disagree", vmRes.Verdict, vmRes.PolRC, kres.Verdict, kres.PolRC))
				}
			}
		} else {
			if fault != nil {
				d := detail()
				d["packet"], d["fault"] = fmt.Sprintf("%+v", ps), fault.Error()
				c.Violationf("program-faults:"+fault.Kind, d, "the generated policy program faults in the interpreter (the verifier would reject it): %v", fault)
				return
			}
			got = vmRes
		}
		if len(vmRes.Chain) > 2 {
			c.Count("packets_through_several_sub_programs", 1)
		}
		c.Count("verdicts_compared", 1)
		c.Count("verdict_"+want.V, 1)
		shapes[want.V] = true
		wantRC := int32(1)
		if want.V == "deny" {
			wantRC = 2
		}
		okV := got.Verdict == want.V && (want.V == "xdp-pass" || got.PolRC == wantRC)
		if okV {
			continue
		}
		// diagnosis: does the mismatch vanish when protocol names are given as numbers?
		key := "verdict-mismatch"
		d := detail()
		numbered, names := numberedProtocols(rules)
		if len(names) > 0 {
			if e2, ok2 := build(c, numbered, ids, e.opts, members, detail); ok2 {
				var r2 polexec.Result
				if e2.k != nil {
					r2, _ = e2.k.Run(ps, e2.opts)
				} else {
					r2, _ = e2.vm.Run(ps, e2.opts)
				}
				e2.close()
				if r2.Verdict == want.V {
					culprits := map[string]bool{}
					for _, n := range names {
						if n != "tcp" && n != "udp" && n != "icmp" && n != "sctp" {
							culprits[n] = true
						}
					}
					var cl []string
					for n := range culprits {
						cl = append(cl, n)
					}
					sort.Strings(cl)
					key = "verdict-mismatch:protocol-name-not-resolved"
					d["unresolved_protocol_names_in_configuration"] = cl
					d["diagnosis"] = "the same configuration with protocol names replaced by numbers reaches the reference verdict"
				}
			}
		}
		d["packet_index"] = i
		d["packet"] = p.String()
		d["pre_nat_packet"] = pre.String()
		d["state"] = fmt.Sprintf("%+v", ps)
		d["from_host"], d["to_host"] = fromHost, toHost
		d["reference"] = want
		d["observed"] = map[string]any{"verdict": got.Verdict, "ret": got.Ret, "pol_rc": got.PolRC, "executor": map[bool]string{true: "kernel", false: "interpreter"}[e.k != nil], "vm_chain": vmRes.Chain}
		c.Violationf(key, d, "packet %s: BPF program says %s (pol_rc=%d), reference says %s (%s)", p, got.Verdict, got.PolRC, want.V, want.Why)
		if key == "verdict-mismatch:protocol-name-not-resolved" {
			// a listed shape: keep judging the other packets (further mismatches of this shape are
			// recorded under the same key), so that it cannot hide a different defect
			protoNameHits++
			if protoNameHits < 3 {
				continue
			}
		}
		return
	}
	var sh []string
	for s := range shapes {
		sh = append(sh, s)
	}
	sort.Strings(sh)
	if len(x.all) > 0 {
		c.NonTrivial(ipver, fmt.Sprintf("%+v", e.opts), fmt.Sprint(summary(rules)), len(x.all))
	}
	c.Distinct("shapes", fmt.Sprint(summary(rules)))
	if c.Index < 3 {
		c.Sample(map[string]any{"ipver": ipver, "options": fmt.Sprintf("%+v", e.opts), "rules": summary(rules), "packets": len(pkts), "verdict_kinds": sh})
	}
}

func main() {
	logrus.SetOutput(io.Discard)
	logrus.SetLevel(logrus.PanicLevel)
	harness.Main(harness.Check{
		ID:    "C11",
		Level: "exploration",
		Rule: "one case = one generated polprog.Rules (workload or host interface, 0-2 pre-DNAT / apply-on-forward / normal host tiers, host profiles, 0-3 workload tiers x 0-4 policies x 0-5 rules, 0-3 profiles, " +
			"tier end action deny/pass/unset, SuppressNormalHostPolicy, 1/8 XDP; rules from rulegen: 10/40/80% full-featured (CIDRs, ports, named ports, selector and service IP sets, ICMP, negations, protocol names and numbers), rest simple; " +
			"IPv4 2/3, IPv6 1/3; flow logs, policy debug, compiled-in or skb->cb jump indexes, 1/3 with a lowered split threshold (15-300 jumps: chained sub-programs), trampoline stride default/1000/1500/4000; " +
			"case 7 mod 400 (thorough 7 mod 150) is a >8000-jump policy that splits at the real threshold; case 6 (thorough: also every 500th) is a directed sweep of split thresholds 1-30 over six small policies built around a rule with three named-port IP sets, IPv4 and IPv6; 1/6 of generated rules are tcp/udp rules with 2-4 named-port sets; case 5 is directed: 120 variants of a two-tier workload sized so that the production split threshold is crossed one jump at a time around the end of the first tier, loaded into the kernel) x 40 (thorough 60) packet states: boundary packets of 8 rules, universe and random packets, " +
			"1/3 with a different pre-NAT destination, to/from-host flags, junk in pol_rc/rules_hit; non-trivial = at least one rule; distinct by (ip version, options, shape)",
		Assumptions: []string{
			"reference = verif/internal/refpolicy rule matching, arranged per the comments of polprog.Builder.Instructions",
			"kernel executor: real verifier/JIT/maps via bpf(2) with an ARRAY state map (production: PERCPU_ARRAY) and two-instruction allow/deny epilogue programs; where bpf() is refused only the interpreter runs (counter vm_only_cases)",
			"packet states are built through the repo's state.State mirror (C13 checks it against the C header); ICMP states follow tc.c/parsing.h (type/code in dport, post_nat_dport = dport, pre_nat_dport = 0)",
			"CGO off (libbpf stubs), no race detector: the builder is single-threaded",
		},
		Cases: func(tier string) int {
			if tier == "thorough" {
				return 6000
			}
			return 400
		},
		Run: run,
		Floors: map[string]int64{"verdicts_compared": 1600, "programs_compiled": 60, "split_configurations": 5, "packets_through_several_sub_programs": 80,
			"verdict_allow": 200, "verdict_deny": 1200, "verdict_xdp-pass": 50, "ip_set_entries": 1500, "directed_aligned_split_variants": 50, "directed_named_port_split_builds_that_split": 100, "directed_named_port_verdicts": 3000},
	})
}

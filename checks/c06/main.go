// C06 — selectors keep their meaning through canonical formatting.
//
// Real code driven: libcalico-go/lib/selector/parser Parse / Validate (package level, i.e. the shared
// parser and validator instances, and fresh NewParser() instances), Selector.String / UniqueID /
// Evaluate / EvaluateLabels / LabelRestrictions, and the tokenizer underneath.
//
// Inputs: (1) expressions rendered from a generated syntax tree over the full grammar (==, !=, in,
// not in/notin, contains, starts with, ends with, has, all(), global(), !, &&, ||, parentheses, both
// quote styles, random white space, redundant parentheses, double negation, trailing commas and
// duplicates in sets, labels named like keywords, label names at the 512-character limit);
// (2) token-level and character-level mutations of those (token deleted / duplicated / swapped /
// replaced / inserted, quote swapped, truncation), most of which are invalid.
//
// Oracle
//   for every input s:   Validate(s)==nil  <=>  Parse(s) succeeds — on the package-level entry points
//                         and on fresh parser instances, all four must agree;
//   for every accepted s: s2 = sel.String(); Parse(s2) succeeds, Validate(s2)==nil; the re-parse has
//                         String()==s2 and UniqueID()==sel.UniqueID(); both selectors agree on 64 label
//                         maps built from the labels/values in play (absent, equal, prefix, suffix,
//                         infix, extended, empty, unrelated);
//   for generated valid s: it must be accepted, and the real evaluation must equal the evaluation of
//                         the generated syntax tree by a 40-line evaluator written here from the
//                         documented operator semantics (!= and not in match an absent label; has;
//                         contains / starts with / ends with on present labels; all() and global() true).
//                         This pins the *meaning*, which the round trip alone cannot (a consistently
//                         wrong operator would round-trip).
//   concurrent sub-run (every 40th case, 8 goroutines): the same inputs give the same acceptance,
//                         canonical text, identity and label-restriction text as they did
//                         sequentially; the binary is built with -race.
//
// Deliberately not checked
//   - that two spellings of the same tree have the same canonical text (only that they mean the same);
//   - error texts; which error is reported for an invalid input;
//   - LabelRestrictions semantics (C07 judges them); here only their stability under concurrency;
//   - inputs with a string value containing both quote characters: the grammar cannot express them.
package main

import (
	"fmt"
	"io"
	"math/rand"
	"sort"
	"strings"
	"sync"

	"github.com/sirupsen/logrus"

	"github.com/projectcalico/calico/libcalico-go/lib/selector/parser"

	"verif/internal/harness"
)

// ------------------------------------------------------------------ generated syntax tree

const (
	kEq = iota
	kNe
	kIn
	kNotIn
	kContains
	kStarts
	kEnds
	kHas
	kAll
	kGlobal
	kNot
	kAnd
	kOr
)

type node struct {
	kind  int
	label string
	val   string
	set   []string
	kids  []*node
}

// eval: the reference meaning of the tree.
func eval(n *node, l map[string]string) bool {
	v, present := l[n.label]
	switch n.kind {
	case kEq:
		return present && v == n.val
	case kNe:
		return !present || v != n.val
	case kIn, kNotIn:
		in := false
		for _, s := range n.set {
			if present && s == v {
				in = true
			}
		}
		if n.kind == kIn {
			return in
		}
		return !in
	case kContains:
		return present && strings.Contains(v, n.val)
	case kStarts:
		return present && strings.HasPrefix(v, n.val)
	case kEnds:
		return present && strings.HasSuffix(v, n.val)
	case kHas:
		return present
	case kAll, kGlobal:
		return true
	case kNot:
		return !eval(n.kids[0], l)
	case kAnd:
		for _, k := range n.kids {
			if !eval(k, l) {
				return false
			}
		}
		return true
	case kOr:
		for _, k := range n.kids {
			if eval(k, l) {
				return true
			}
		}
		return false
	}
	panic("harness: unknown node kind")
}

var labelPool = []string{"a", "b", "role", "has", "in", "not", "notin", "contains", "all", "global", "starts", "ends", "with",
	"app.kubernetes.io/name", "projectcalico.org/namespace", "a-b_c.d/e", "0", "-", ".", "_", "A", "hasx", "inn", "x.in"}
var valuePool = []string{"", "x", "xy", "yx", "xyx", "x y", "it's", `say "hi"`, "ü", "{", "}", ",", "==", "a && b", ")", "(", "!", "||", "a\nb", "\t", " ",
	"has(a)", "all()", "in", "prod", "production", "duct"}

type gen struct {
	R      *rand.Rand
	labels []string
	values []string
}

func newGen(R *rand.Rand) *gen {
	g := &gen{R: R}
	nl, nv := 2+R.Intn(4), 2+R.Intn(5)
	for i := 0; i < nl; i++ {
		g.labels = append(g.labels, labelPool[R.Intn(len(labelPool))])
	}
	if R.Intn(40) == 0 {
		g.labels = append(g.labels, strings.Repeat("L", 512)) // longest legal label
	}
	for i := 0; i < nv; i++ {
		g.values = append(g.values, valuePool[R.Intn(len(valuePool))])
	}
	return g
}

func (g *gen) label() string { return g.labels[g.R.Intn(len(g.labels))] }
func (g *gen) value() string { return g.values[g.R.Intn(len(g.values))] }

func (g *gen) tree(depth int) *node {
	R := g.R
	if depth <= 0 || R.Intn(3) == 0 {
		switch k := R.Intn(12); k {
		case 0, 1:
			return &node{kind: kEq, label: g.label(), val: g.value()}
		case 2:
			return &node{kind: kNe, label: g.label(), val: g.value()}
		case 3, 4:
			n := &node{kind: kIn + R.Intn(2), label: g.label()}
			for i, m := 0, R.Intn(4); i < m; i++ {
				n.set = append(n.set, g.value())
			}
			return n
		case 5:
			return &node{kind: kContains, label: g.label(), val: g.value()}
		case 6:
			return &node{kind: kStarts, label: g.label(), val: g.value()}
		case 7:
			return &node{kind: kEnds, label: g.label(), val: g.value()}
		case 8, 9:
			return &node{kind: kHas, label: g.label()}
		case 10:
			return &node{kind: kAll}
		default:
			return &node{kind: kGlobal}
		}
	}
	switch R.Intn(5) {
	case 0:
		return &node{kind: kNot, kids: []*node{g.tree(depth - 1)}}
	case 1, 2:
		n := &node{kind: kAnd}
		for i, m := 0, 2+R.Intn(2); i < m; i++ {
			n.kids = append(n.kids, g.tree(depth-1))
		}
		return n
	default:
		n := &node{kind: kOr}
		for i, m := 0, 2+R.Intn(2); i < m; i++ {
			n.kids = append(n.kids, g.tree(depth-1))
		}
		return n
	}
}

func depthOf(n *node) int {
	d := 0
	for _, k := range n.kids {
		if x := depthOf(k); x > d {
			d = x
		}
	}
	return d + 1
}

func hasSetOp(n *node) bool {
	if n.kind == kIn || n.kind == kNotIn {
		return true
	}
	for _, k := range n.kids {
		if hasSetOp(k) {
			return true
		}
	}
	return false
}

// ------------------------------------------------------------------ rendering to tokens and text

type tok struct {
	s    string
	word bool // needs a separator from a neighbouring word/identifier
}

func quote(R *rand.Rand, v string) string {
	switch {
	case strings.Contains(v, `"`):
		return `'` + v + `'`
	case strings.Contains(v, `'`):
		return `"` + v + `"`
	case R.Intn(2) == 0:
		return `'` + v + `'`
	}
	return `"` + v + `"`
}

func (g *gen) render(n *node, out []tok) []tok {
	R := g.R
	paren := func(k *node, force bool, out []tok) []tok {
		if force || R.Intn(6) == 0 {
			out = append(out, tok{"(", false})
			out = g.render(k, out)
			return append(out, tok{")", false})
		}
		return g.render(k, out)
	}
	wordOp := func(words ...string) tok {
		if R.Intn(2) == 0 {
			return tok{strings.Join(words, ""), true}
		}
		sep := []string{" ", "  ", "\t"}[R.Intn(3)]
		return tok{strings.Join(words, sep), true}
	}
	switch n.kind {
	case kEq:
		return append(out, tok{n.label, true}, tok{"==", false}, tok{quote(R, n.val), false})
	case kNe:
		return append(out, tok{n.label, true}, tok{"!=", false}, tok{quote(R, n.val), false})
	case kContains:
		return append(out, tok{n.label, true}, tok{"contains", true}, tok{quote(R, n.val), false})
	case kStarts:
		return append(out, tok{n.label, true}, wordOp("starts", "with"), tok{quote(R, n.val), false})
	case kEnds:
		return append(out, tok{n.label, true}, wordOp("ends", "with"), tok{quote(R, n.val), false})
	case kIn, kNotIn:
		out = append(out, tok{n.label, true})
		if n.kind == kIn {
			out = append(out, tok{"in", true})
		} else {
			out = append(out, wordOp("not", "in"))
		}
		out = append(out, tok{"{", false})
		items := append([]string(nil), n.set...)
		if len(items) > 0 && R.Intn(3) == 0 {
			items = append(items, items[R.Intn(len(items))]) // duplicate member
		}
		R.Shuffle(len(items), func(i, j int) { items[i], items[j] = items[j], items[i] })
		for i, s := range items {
			if i > 0 {
				out = append(out, tok{",", false})
			}
			out = append(out, tok{quote(R, s), false})
		}
		if len(items) > 0 && R.Intn(5) == 0 {
			out = append(out, tok{",", false}) // trailing comma is accepted by the grammar
		}
		return append(out, tok{"}", false})
	case kHas:
		inner := n.label
		if R.Intn(4) == 0 {
			inner = " " + inner + "\t"
		}
		return append(out, tok{"has(" + inner + ")", true})
	case kAll:
		return append(out, tok{[]string{"all()", "all( )"}[R.Intn(2)], true})
	case kGlobal:
		return append(out, tok{[]string{"global()", "global(\t)"}[R.Intn(2)], true})
	case kNot:
		out = append(out, tok{"!", false})
		if R.Intn(8) == 0 {
			out = append(out, tok{"!", false}, tok{"!", false}) // !!! == !
		}
		k := n.kids[0]
		return paren(k, k.kind == kAnd || k.kind == kOr, out)
	case kAnd:
		for i, k := range n.kids {
			if i > 0 {
				out = append(out, tok{"&&", false})
			}
			out = paren(k, k.kind == kOr || k.kind == kAnd, out)
		}
		return out
	case kOr:
		for i, k := range n.kids {
			if i > 0 {
				out = append(out, tok{"||", false})
			}
			out = paren(k, k.kind == kOr, out)
		}
		return out
	}
	panic("harness: unknown node kind")
}

func join(R *rand.Rand, toks []tok) string {
	var sb strings.Builder
	ws := []string{"", " ", "  ", "\t", " \t "}
	sb.WriteString(ws[R.Intn(len(ws))])
	for i, t := range toks {
		if i > 0 {
			sep := ws[R.Intn(len(ws))]
			if sep == "" && toks[i-1].word && t.word {
				sep = " "
			}
			sb.WriteString(sep)
		}
		sb.WriteString(t.s)
	}
	sb.WriteString(ws[R.Intn(len(ws))])
	return sb.String()
}

var junkToks = []tok{{"(", false}, {")", false}, {"!", false}, {"&&", false}, {"||", false}, {"==", false}, {"!=", false}, {"{", false}, {"}", false},
	{",", false}, {"in", true}, {"not", true}, {"not in", true}, {"contains", true}, {"starts with", true}, {"has(a)", true}, {"has(", false}, {"all()", true},
	{"'v'", false}, {`"`, false}, {"'", false}, {"a", true}, {"&", false}, {"|", false}, {"=", false}, {"global()", true}, {"\n", false}, {"ü", false}}

func mutate(R *rand.Rand, toks []tok) string {
	t := append([]tok(nil), toks...)
	for i, n := 0, 1+R.Intn(2); i < n && len(t) > 0; i++ {
		p := R.Intn(len(t))
		switch R.Intn(6) {
		case 0: // delete
			t = append(t[:p], t[p+1:]...)
		case 1: // duplicate
			t = append(t[:p+1], t[p:]...)
		case 2: // swap neighbours
			if p+1 < len(t) {
				t[p], t[p+1] = t[p+1], t[p]
			}
		case 3: // replace
			t[p] = junkToks[R.Intn(len(junkToks))]
		case 4: // insert
			t = append(t[:p], append([]tok{junkToks[R.Intn(len(junkToks))]}, t[p:]...)...)
		default: // quote swap inside a token
			if strings.ContainsAny(t[p].s, `'"`) {
				s := []byte(t[p].s)
				for j := range s {
					if s[j] == '\'' {
						s[j] = '"'
						break
					} else if s[j] == '"' {
						s[j] = '\''
						break
					}
				}
				t[p].s = string(s)
			}
		}
	}
	s := join(R, t)
	switch R.Intn(8) {
	case 0:
		if len(s) > 1 {
			s = s[:R.Intn(len(s))] // truncation
		}
	case 1:
		if len(s) > 0 {
			p := R.Intn(len(s))
			s = s[:p] + s[p+1:] // drop one byte
		}
	}
	return s
}

// ------------------------------------------------------------------ the checks

type outcome struct {
	accepted bool
	canon    string
	uid      string
	lr       string
}

func labelMaps(g *gen, n int) []map[string]string {
	R := g.R
	var maps []map[string]string
	maps = append(maps, map[string]string{})
	for len(maps) < n {
		m := map[string]string{}
		for _, l := range g.labels {
			if R.Intn(3) == 0 {
				continue // absent
			}
			v := g.value()
			switch R.Intn(8) {
			case 0:
				v = v + "z"
			case 1:
				v = "z" + v
			case 2:
				v = "q" + v + "q"
			case 3:
				if len(v) > 1 {
					v = v[:len(v)/2]
				}
			case 4:
				v = ""
			case 5:
				v = "unrelated"
			}
			m[l] = v
		}
		maps = append(maps, m)
	}
	return maps
}

// check judges one input string.  tree is nil for mutated inputs.
func check(c *harness.Case, g *gen, s string, tree *node, maps []map[string]string) (outcome, bool) {
	detail := map[string]any{"input": s}
	sel, errP := parser.Parse(s)
	errV := parser.Validate(s)
	sel2, errP2 := parser.NewParser().Parse(s)
	errV2 := parser.NewParser().Validate(s)
	c.Count("inputs", 1)
	if (errP == nil) != (errV == nil) || (errP == nil) != (errP2 == nil) || (errP == nil) != (errV2 == nil) {
		detail["parse_err"], detail["validate_err"] = fmt.Sprint(errP), fmt.Sprint(errV)
		detail["fresh_parse_err"], detail["fresh_validate_err"] = fmt.Sprint(errP2), fmt.Sprint(errV2)
		c.Violationf("validate-parse-disagree", detail, "Parse(%q) err=%v but Validate err=%v (fresh parser: %v / %v)", s, errP, errV, errP2, errV2)
		return outcome{}, false
	}
	if errP != nil {
		c.Count("rejected", 1)
		if tree != nil {
			c.Violationf("valid-expression-rejected", detail, "generated valid expression %q rejected: %v", s, errP)
			return outcome{}, false
		}
		return outcome{}, true
	}
	c.Count("accepted", 1)
	if sel == nil || sel2 == nil {
		c.Violationf("nil-selector", detail, "Parse(%q) returned nil selector without error", s)
		return outcome{}, false
	}
	canon, uid := sel.String(), sel.UniqueID()
	detail["canonical"] = canon
	if sel2.String() != canon || sel2.UniqueID() != uid {
		c.Violationf("parser-instances-disagree", detail, "shared parser gives %q, a fresh parser %q for %q", canon, sel2.String(), s)
		return outcome{}, false
	}
	// round trip
	re, err := parser.Parse(canon)
	if err != nil {
		c.Violationf("canonical-text-rejected", detail, "canonical text %q of %q does not parse: %v", canon, s, err)
		return outcome{}, false
	}
	if err := parser.Validate(canon); err != nil {
		c.Violationf("canonical-text-fails-validation", detail, "canonical text %q of %q fails Validate: %v", canon, s, err)
		return outcome{}, false
	}
	if re.String() != canon {
		c.Violationf("canonical-text-not-stable", detail, "%q -> %q -> %q", s, canon, re.String())
		return outcome{}, false
	}
	if re.UniqueID() != uid {
		c.Violationf("identity-changes", detail, "UniqueID %s of %q but %s after re-parsing its canonical text %q", uid, s, re.UniqueID(), canon)
		return outcome{}, false
	}
	c.Count("round_trips", 1)
	for _, m := range maps {
		a, b := sel.Evaluate(m), re.EvaluateLabels(parser.MapAsLabels(m))
		c.Count("evaluations", 1)
		if a != b {
			detail["labels"] = m
			c.Violationf("meaning-changes-in-round-trip", detail, "%q matches=%v but its canonical text %q matches=%v on %v", s, a, canon, b, m)
			return outcome{}, false
		}
		if tree != nil {
			if want := eval(tree, m); a != want {
				detail["labels"] = m
				c.Violationf("meaning-differs-from-grammar", detail, "%q evaluates to %v on %v; the operator semantics give %v", s, a, m, want)
				return outcome{}, false
			}
			c.Count("reference_evaluations", 1)
		}
	}
	return outcome{true, canon, uid, sel.LabelRestrictions().String()}, true
}

func concurrent(c *harness.Case, inputs []string, want []outcome) {
	var wg sync.WaitGroup
	var mu sync.Mutex
	var bad []string
	for w := 0; w < 8; w++ {
		wg.Add(1)
		go func(w int) {
			defer wg.Done()
			r := rand.New(rand.NewSource(int64(c.Seed) + int64(w)))
			for it := 0; it < 150; it++ {
				i := r.Intn(len(inputs))
				s := inputs[i]
				var got outcome
				switch it % 3 {
				case 0:
					sel, err := parser.Parse(s)
					got.accepted = err == nil
					if err == nil {
						got.canon, got.uid = sel.String(), sel.UniqueID()
						got.lr = sel.LabelRestrictions().String()
						_ = sel.Evaluate(map[string]string{"a": "x"})
					}
				case 1:
					got.accepted = parser.Validate(s) == nil
					got.canon, got.uid, got.lr = want[i].canon, want[i].uid, want[i].lr
				default:
					sel, err := parser.NewParser().Parse(s)
					got.accepted = err == nil
					if err == nil {
						got.canon, got.uid = sel.String(), sel.UniqueID()
						got.lr = sel.LabelRestrictions().String()
					}
				}
				if got != want[i] {
					mu.Lock()
					bad = append(bad, fmt.Sprintf("%q: sequential %+v, concurrent %+v", s, want[i], got))
					mu.Unlock()
					return
				}
			}
		}(w)
	}
	wg.Wait()
	c.Count("concurrent_runs", 1)
	c.Count("concurrent_calls", 8*150)
	if len(bad) > 0 {
		sort.Strings(bad)
		c.Violationf("concurrent-result-differs", map[string]any{"differences": bad}, "results under 8 concurrent callers differ from the sequential ones: %s", bad[0])
	}
}

func run(c *harness.Case) {
	g := newGen(c.R)
	maps := labelMaps(g, 64)
	tree := g.tree(c.Pick(4, 5))
	if depthOf(tree) >= 3 || hasSetOp(tree) {
		c.NonTrivial(fmt.Sprintf("%+v", g.render(tree, nil)))
	}
	var inputs []string
	var outs []outcome
	var lastToks []tok
	for v := 0; v < 2; v++ {
		toks := g.render(tree, nil)
		lastToks = toks
		s := join(c.R, toks)
		if v == 0 && c.Index < 4 {
			c.Sample(map[string]any{"expression": s})
		}
		o, ok := check(c, g, s, tree, maps)
		if !ok {
			return
		}
		inputs, outs = append(inputs, s), append(outs, o)
		c.Count("generated_valid", 1)
	}
	if c.Index%25 == 0 {
		for _, s := range []string{"", " ", "\t", "()", "!", "all()", "global()", "a", "a ==", "a in {", "a in {}", "a in {,}", "a in {'x',}", "a in {'x' 'y'}", "a not in {'x'\"y\"}",
			"!(!has(a))", "!(!a == 'b')", "!!a == 'b'", "!(a == 'b')", "!(!(!has(a)))"} {
			o, ok := check(c, g, s, nil, maps)
			if !ok {
				return
			}
			inputs, outs = append(inputs, s), append(outs, o)
		}
	}
	for k := 0; k < 6; k++ {
		s := mutate(c.R, lastToks)
		o, ok := check(c, g, s, nil, maps)
		if !ok {
			return
		}
		inputs, outs = append(inputs, s), append(outs, o)
		c.Count("mutated", 1)
		if o.accepted {
			c.Count("mutated_accepted", 1)
		}
	}
	if c.Index%40 == 0 {
		concurrent(c, inputs, outs)
	}
}

func main() {
	logrus.SetOutput(io.Discard)
	logrus.SetLevel(logrus.PanicLevel)
	harness.Main(harness.Check{
		ID:    "C06",
		Level: "exploration",
		Rule: "per case one syntax tree (depth <= 4, thorough 5) over 2..6 labels (incl. labels named like keywords and a 512-character label) and 2..6 values (incl. both quote characters, braces, operators, newline), rendered twice with random quoting / white space / redundant parentheses / set duplicates / trailing commas, " +
			"plus 6 token- or character-level mutations of it (mostly invalid) and, every 25th case, 20 fixed corner inputs; each accepted input is round-tripped and evaluated on 64 label maps; every 40th case re-runs its inputs from 8 goroutines. Non-trivial = tree depth >= 3 or a set operator; distinct by rendered token list",
		Assumptions: []string{
			"reference evaluator: 40 lines in checks/c06/main.go following the documented operator semantics (!= and 'not in' match an absent label; all() and global() match everything)",
			"the label maps are sampled (64 per case) from the labels and values in play and their prefix/suffix/infix variants",
			"built with -race: every data race report counts as a violation",
		},
		Cases: func(tier string) int {
			if tier == "thorough" {
				return 100000
			}
			return 4000
		},
		Run: run,
		Floors: map[string]int64{"inputs": 10000, "accepted": 3000, "rejected": 2000, "round_trips": 3000, "evaluations": 200000, "reference_evaluations": 100000,
			"mutated_accepted": 300, "concurrent_runs": 20},
	})
}

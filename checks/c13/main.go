// C13 — Go and kernel-program views of shared BPF data structures agree.
//
// C side: /verif/cprobe/layout.c is compiled AT CHECK TIME (clang -target bpf, with and without
// -DIPVER6) against the felix/bpf-gpl headers of the tree under test; sizeof/offsetof/member sizes and
// bit-field positions are read from the object's .rodata (cprobe.go).
// Go side (executed): the repo's real encoders and decoders are called with per-field sentinel bytes.
//
// One case = one row of the table (one Go accessor <-> one C member, or one total size), for IPv4
// and IPv6.  The table is finite and is enumerated completely in both tiers (Exhaustive).
//
// Oracles (never stricter than "same offset, same size, same total size"):
//
//	enc   the bytes the Go encoder emits for a field's sentinel lie at the C member's offset (in either
//	      byte order: byte order is not part of the property), the Go value is not wider than the C
//	      member, and the rest of the C member is zero;
//	dec   with a distinct byte pattern planted in every C member, the Go getter returns the pattern of
//	      its own member (either byte order; a narrower getter must return the low-order bytes);
//	bit   a Go boolean of a conntrack leg sets/reads exactly the bit that C's bit-field occupies;
//	const a hand-maintained Go offset constant equals offsetof() of the member it is documented as;
//	size  Go total size == sizeof, and the declared map key/value sizes == sizeof.
//
// Deliberately not checked
//   - byte order and value semantics (e.g. Leg.AsBytes writes seqno little-endian while
//     readConntrackLeg reads it big-endian; NewValueNATReverseSNAT stores origIP where origSrcIP is
//     meant; NewValueV6NATReverse drops real IPv6 addresses via To4()): same offset/size, so outside the
//     statement.  NewValueNATReverseSNAT is therefore not used
//     as an encoder for orig_sip; the OrigSrcIP() getter is checked.
//   - bpf/state.State beyond `flags` (ConntrackXxx, NATData, ProgStartTime, SrcAddrMasq, NATSvcID): no
//     non-test Felix code reads or writes these fields, so they are outside "every field userspace reads
//     or writes".  They are still compared and mismatches are COUNTED (stale_unused_go_fields) and
//     sampled, but never reported as violations.  Likewise unsafe.Sizeof(State) (496) vs
//     sizeof(struct cali_tc_state) (464 / 512): the shared object is the 512-byte map slot
//     (STATE_SIZE == state.MapParameters.ValueSize, which IS checked, with sizeof <= slot).
//   - polprog's IPv6 shift of ip_set_key.port/protocol/pad ("v6Adjust", a local variable of
//     setUpIPSetKey): not a constant that can be read; covered dynamically by C11.
//   - enum values (conntrack entry types, NAT flags) and unexported padding members.
//   - C members for which Go has no accessor: listed as evidence (unmapped_c_members), no verdict.
package main

import (
	"bytes"
	"encoding/binary"
	"fmt"
	"io"
	"net"
	"reflect"
	"sort"
	"strings"
	"time"

	"github.com/sirupsen/logrus"

	"github.com/projectcalico/calico/felix/bpf/conntrack"
	"github.com/projectcalico/calico/felix/bpf/conntrack/cleanupv1"
	"github.com/projectcalico/calico/felix/bpf/events"
	"github.com/projectcalico/calico/felix/bpf/ipsets"
	"github.com/projectcalico/calico/felix/bpf/maps"
	"github.com/projectcalico/calico/felix/bpf/nat"
	"github.com/projectcalico/calico/felix/bpf/polprog"
	"github.com/projectcalico/calico/felix/bpf/state"
	"github.com/projectcalico/calico/felix/ip"

	"verif/internal/harness"
)

// ---------------------------------------------------------------------------------------------
// table machinery

type mismatch struct {
	Msg      string `json:"msg"`
	Observed string `json:"observed,omitempty"`
	Expected string `json:"expected,omitempty"`
}

type row struct {
	ipver    int
	gostruct string // Go type / constant family
	cfield   string // C member reference ("ct_value.a_to_b+ct_leg.bytes") or "sizeof <struct>"
	kind     string // enc | dec | bit-enc | bit-dec | const | size | info-enc | info-dec | unmapped
	info     bool   // informational: mismatch is counted, never a violation
	check    func(L *cLayout) *mismatch
	covers   []string // C member refs this row covers (for the unmapped report)
}

func (r row) name() string {
	return fmt.Sprintf("%s/v%d/%s/%s", r.gostruct, r.ipver, r.cfield, r.kind)
}

// cref resolves "a.b+c.d" (nested members: offsets add, size is the last one's).
func cref(L *cLayout, ref string) (off, size int, err error) {
	for _, p := range strings.Split(ref, "+") {
		o, ok := L.off[p]
		if !ok {
			return 0, 0, fmt.Errorf("the layout probe has no member %q", p)
		}
		off += o
		size = L.fsz[p]
	}
	return off, size, nil
}

func sentinel(i, n int) []byte {
	b := make([]byte, n)
	for k := range b {
		b[k] = byte(1 + (i*41+k*11+7)%254)
	}
	return b
}

func rev(b []byte) []byte {
	r := make([]byte, len(b))
	for i := range b {
		r[len(b)-1-i] = b[i]
	}
	return r
}

func zero(b []byte) bool {
	for _, x := range b {
		if x != 0 {
			return false
		}
	}
	return true
}

func hx(b []byte) string { return fmt.Sprintf("%x", b) }

// checkEnc: the encoder was given `sent` for the member `ref`; img is what it produced.
func checkEnc(L *cLayout, img []byte, ref string, sent []byte) *mismatch {
	off, csz, err := cref(L, ref)
	if err != nil {
		return &mismatch{Msg: err.Error()}
	}
	w := len(sent)
	if w > csz {
		return &mismatch{Msg: fmt.Sprintf("Go encodes %d bytes for C member %s of %d bytes", w, ref, csz)}
	}
	if off+csz > len(img) {
		return &mismatch{Msg: fmt.Sprintf("C member %s occupies [%d,%d) but the Go encoding has only %d bytes", ref, off, off+csz, len(img))}
	}
	got := img[off : off+w]
	if !bytes.Equal(got, sent) && !bytes.Equal(got, rev(sent)) {
		where := bytes.Index(img, sent)
		if where < 0 {
			where = bytes.Index(img, rev(sent))
		}
		return &mismatch{Msg: fmt.Sprintf("sentinel for C member %s (offset %d, size %d) is not at that offset in the Go encoding (found at offset %d)", ref, off, csz, where),
			Observed: hx(got), Expected: hx(sent)}
	}
	if !zero(img[off+w : off+csz]) {
		return &mismatch{Msg: fmt.Sprintf("Go wrote a %d-byte value into C member %s of %d bytes and the remaining bytes are not zero", w, ref, csz),
			Observed: hx(img[off : off+csz])}
	}
	return nil
}

// plant fills every listed C member with its own pattern (by index in refs) in a zero image.
func plant(L *cLayout, size int, refs []string) ([]byte, map[string][]byte, error) {
	img := make([]byte, size)
	pats := map[string][]byte{}
	for i, ref := range refs {
		off, csz, err := cref(L, ref)
		if err != nil {
			return nil, nil, err
		}
		if off+csz > size {
			// the member lies outside the Go-sized image: the getter cannot possibly see it
			pats[ref] = sentinel(i+3, csz)
			continue
		}
		p := sentinel(i+3, csz)
		copy(img[off:], p)
		pats[ref] = p
	}
	return img, pats, nil
}

// checkDec: `got` is what the getter returned (value rendered little-endian / raw address bytes).
func checkDec(L *cLayout, ref string, pat, got []byte) *mismatch {
	off, csz, _ := cref(L, ref)
	w := len(got)
	if w > csz {
		return &mismatch{Msg: fmt.Sprintf("Go getter returns %d bytes for C member %s of %d bytes", w, ref, csz)}
	}
	if bytes.Equal(got, pat[:w]) || (w == csz && bytes.Equal(got, rev(pat))) {
		return nil
	}
	return &mismatch{Msg: fmt.Sprintf("getter does not return the bytes planted in C member %s (offset %d, size %d)", ref, off, csz),
		Observed: hx(got), Expected: hx(pat[:w])}
}

func le16(v uint16) []byte { b := make([]byte, 2); binary.LittleEndian.PutUint16(b, v); return b }
func le32(v uint32) []byte { b := make([]byte, 4); binary.LittleEndian.PutUint32(b, v); return b }
func le64(v uint64) []byte { b := make([]byte, 8); binary.LittleEndian.PutUint64(b, v); return b }
func u16(b []byte) uint16  { return binary.LittleEndian.Uint16(b) }
func u32(b []byte) uint32  { return binary.LittleEndian.Uint32(b) }
func u64(b []byte) uint64  { return binary.LittleEndian.Uint64(b) }

// binding describes one Go encoding of one C structure.
type binding struct {
	gostruct string
	ctag     string // C struct tag in the probe, for the total size ("" = no size row)
	goSize   int
	// enc: member ref -> width in bytes of the Go value; encode produces the image for the sentinels.
	enc    []encField
	encode func(v map[string][]byte) []byte
	// dec: member ref -> getter over an image.
	dec    []decField
	decLen int // image length handed to the getters (default goSize)
	info   bool
}

type encField struct {
	ref string
	w   int
}
type decField struct {
	ref string
	get func(img []byte) []byte
}

func (b binding) rows(ipver int) []row {
	var out []row
	if b.ctag != "" {
		tag, gs := b.ctag, b.goSize
		out = append(out, row{ipver: ipver, gostruct: b.gostruct, cfield: "sizeof " + tag, kind: "size", info: b.info,
			check: func(L *cLayout) *mismatch {
				cs, ok := L.size[tag]
				if !ok {
					return &mismatch{Msg: "the layout probe has no struct " + tag}
				}
				if cs != gs {
					return &mismatch{Msg: fmt.Sprintf("total size differs: Go %d bytes, C sizeof(%s) = %d", gs, tag, cs),
						Observed: fmt.Sprint(gs), Expected: fmt.Sprint(cs)}
				}
				return nil
			}})
	}
	for i := range b.enc {
		ef := b.enc[i]
		bb := b
		kind := "enc"
		if b.info {
			kind = "info-enc"
		}
		out = append(out, row{ipver: ipver, gostruct: b.gostruct, cfield: ef.ref, kind: kind, info: b.info, covers: []string{ef.ref},
			check: func(L *cLayout) *mismatch {
				vals := map[string][]byte{}
				for j, f := range bb.enc {
					vals[f.ref] = sentinel(j+1, f.w)
				}
				img := bb.encode(vals)
				return checkEnc(L, img, ef.ref, vals[ef.ref])
			}})
	}
	for i := range b.dec {
		df := b.dec[i]
		bb := b
		kind := "dec"
		if b.info {
			kind = "info-dec"
		}
		out = append(out, row{ipver: ipver, gostruct: b.gostruct, cfield: df.ref, kind: kind, info: b.info, covers: []string{df.ref},
			check: func(L *cLayout) *mismatch {
				var refs []string
				seen := map[string]bool{}
				for _, f := range bb.dec {
					if !seen[f.ref] {
						refs = append(refs, f.ref)
						seen[f.ref] = true
					}
				}
				n := bb.decLen
				if n == 0 {
					n = bb.goSize
				}
				img, pats, err := plant(L, n, refs)
				if err != nil {
					return &mismatch{Msg: err.Error()}
				}
				return checkDec(L, df.ref, pats[df.ref], df.get(img))
			}})
	}
	return out
}

// ---------------------------------------------------------------------------------------------
// the table

func addrLen(ipver int) int {
	if ipver == 6 {
		return 16
	}
	return 4
}

func cidrOf(b []byte) ip.CIDR {
	return ip.CIDRFromAddrAndPrefix(ip.FromNetIP(net.IP(b)), len(b)*8)
}

func ctKeyRefs(prefix string) []string {
	p := ""
	if prefix != "" {
		p = prefix + "+"
	}
	return []string{p + "ct_key.protocol", p + "ct_key.addr_a", p + "ct_key.port_a", p + "ct_key.addr_b", p + "ct_key.port_b"}
}

func mkCTKey(ipver int, v map[string][]byte, prefix string) conntrack.KeyInterface {
	r := ctKeyRefs(prefix)
	if ipver == 6 {
		return conntrack.NewKeyV6(v[r[0]][0], net.IP(v[r[1]]), u16(v[r[2]]), net.IP(v[r[3]]), u16(v[r[4]]))
	}
	return conntrack.NewKey(v[r[0]][0], net.IP(v[r[1]]), u16(v[r[2]]), net.IP(v[r[3]]), u16(v[r[4]]))
}

func ctKeyEncFields(ipver int, prefix string) []encField {
	r := ctKeyRefs(prefix)
	al := addrLen(ipver)
	return []encField{{r[0], 1}, {r[1], al}, {r[2], 2}, {r[3], al}, {r[4], 2}}
}

func ctKeyDecFields(prefix string, key func(img []byte) conntrack.KeyInterface) []decField {
	r := ctKeyRefs(prefix)
	return []decField{
		{r[0], func(img []byte) []byte { return []byte{key(img).Proto()} }},
		{r[1], func(img []byte) []byte { return []byte(key(img).AddrA()) }},
		{r[2], func(img []byte) []byte { return le16(key(img).PortA()) }},
		{r[3], func(img []byte) []byte { return []byte(key(img).AddrB()) }},
		{r[4], func(img []byte) []byte { return le16(key(img).PortB()) }},
	}
}

func legRefs(leg string) []string {
	return []string{"ct_value." + leg + "+ct_leg.bytes", "ct_value." + leg + "+ct_leg.packets",
		"ct_value." + leg + "+ct_leg.seqno", "ct_value." + leg + "+ct_leg.ifindex"}
}

func mkLeg(v map[string][]byte, leg string) conntrack.Leg {
	r := legRefs(leg)
	return conntrack.Leg{Bytes: u64(v[r[0]]), Packets: u32(v[r[1]]), Seqno: u32(v[r[2]]), Ifindex: u32(v[r[3]])}
}

func legEncFields(leg string) []encField {
	r := legRefs(leg)
	return []encField{{r[0], 8}, {r[1], 4}, {r[2], 4}, {r[3], 4}}
}

var ctFlagRefs = []string{"ct_value.flags", "ct_value.flags2", "ct_value.flags3", "ct_value.flags4"}

func mkFlags(v map[string][]byte) uint32 {
	return uint32(v[ctFlagRefs[0]][0]) | uint32(v[ctFlagRefs[1]][0])<<8 | uint32(v[ctFlagRefs[2]][0])<<16 | uint32(v[ctFlagRefs[3]][0])<<24
}

func ctFlagEncFields() []encField {
	return []encField{{ctFlagRefs[0], 1}, {ctFlagRefs[1], 1}, {ctFlagRefs[2], 1}, {ctFlagRefs[3], 1}}
}

func ctValueFromBytes(ipver int, img []byte) conntrack.ValueInterface {
	if ipver == 6 {
		var v conntrack.ValueV6
		copy(v[:], img)
		return v
	}
	var v conntrack.Value
	copy(v[:], img)
	return v
}

func ctKeyFromBytes(ipver int, img []byte) conntrack.KeyInterface {
	if ipver == 6 {
		var k conntrack.KeyV6
		copy(k[:], img)
		return k
	}
	var k conntrack.Key
	copy(k[:], img)
	return k
}

func buildRows(ipver int) []row {
	var rows []row
	al := addrLen(ipver)
	v6 := ipver == 6
	add := func(b binding) { rows = append(rows, b.rows(ipver)...) }

	// ---- conntrack key
	ctKeySize := conntrack.KeySize
	ctValSize := conntrack.ValueSize
	if v6 {
		ctKeySize, ctValSize = conntrack.KeyV6Size, conntrack.ValueV6Size
	}
	add(binding{gostruct: "conntrack.Key", ctag: "ct_key", goSize: ctKeySize,
		enc:    ctKeyEncFields(ipver, ""),
		encode: func(v map[string][]byte) []byte { return mkCTKey(ipver, v, "").AsBytes() },
		dec:    ctKeyDecFields("", func(img []byte) conntrack.KeyInterface { return ctKeyFromBytes(ipver, img) }),
	})

	// ---- conntrack value, three entry types
	encNormal := append([]encField{{"ct_value.last_seen", 8}}, ctFlagEncFields()...)
	encNormal = append(encNormal, legEncFields("a_to_b")...)
	encNormal = append(encNormal, legEncFields("b_to_a")...)
	add(binding{gostruct: "conntrack.Value(NewValueNormal)", ctag: "ct_value", goSize: ctValSize,
		enc: encNormal,
		encode: func(v map[string][]byte) []byte {
			ls := time.Duration(u64(v["ct_value.last_seen"]))
			if v6 {
				return conntrack.NewValueV6Normal(ls, mkFlags(v), mkLeg(v, "a_to_b"), mkLeg(v, "b_to_a")).AsBytes()
			}
			return conntrack.NewValueNormal(ls, mkFlags(v), mkLeg(v, "a_to_b"), mkLeg(v, "b_to_a")).AsBytes()
		}})

	encFwd := append([]encField{{"ct_value.last_seen", 8}}, ctFlagEncFields()...)
	encFwd = append(encFwd, ctKeyEncFields(ipver, "ct_value.nat_rev_key")...)
	encFwd = append(encFwd, encField{"ct_value.nat_sport", 2})
	add(binding{gostruct: "conntrack.Value(NewValueNATForward+SetNATSport)", goSize: ctValSize,
		enc: encFwd,
		encode: func(v map[string][]byte) []byte {
			ls := time.Duration(u64(v["ct_value.last_seen"]))
			k := mkCTKey(ipver, v, "ct_value.nat_rev_key")
			if v6 {
				val := conntrack.NewValueV6NATForward(ls, mkFlags(v), k.(conntrack.KeyV6))
				val.SetNATSport(u16(v["ct_value.nat_sport"]))
				return val.AsBytes()
			}
			val := conntrack.NewValueNATForward(ls, mkFlags(v), k.(conntrack.Key))
			val.SetNATSport(u16(v["ct_value.nat_sport"]))
			return val.AsBytes()
		}})

	encRev := append([]encField{{"ct_value.last_seen", 8}}, ctFlagEncFields()...)
	encRev = append(encRev, legEncFields("a_to_b")...)
	encRev = append(encRev, legEncFields("b_to_a")...)
	// NewValueV6NATReverse passes its addresses through net.IP.To4(), so a genuine IPv6 address is
	// dropped (a value bug in a constructor that only tests use; not a layout matter).  To still observe
	// WHERE the constructor writes, the IPv6 rows hand it IPv4-mapped addresses: 4 sentinel bytes must
	// land at the start of the 16-byte C member.
	encRev = append(encRev, encField{"ct_value.tun_ip", 4}, encField{"ct_value.orig_ip", 4},
		encField{"ct_value.orig_port", 2}, encField{"ct_value.orig_sport", 2})
	add(binding{gostruct: "conntrack.Value(NewValueNATReverse+SetOrigSport)", goSize: ctValSize,
		enc: encRev,
		encode: func(v map[string][]byte) []byte {
			ls := time.Duration(u64(v["ct_value.last_seen"]))
			tun, orig := net.IP(v["ct_value.tun_ip"]), net.IP(v["ct_value.orig_ip"])
			if v6 {
				tun, orig = net.IPv4(tun[0], tun[1], tun[2], tun[3]), net.IPv4(orig[0], orig[1], orig[2], orig[3])
				val := conntrack.NewValueV6NATReverse(ls, mkFlags(v), mkLeg(v, "a_to_b"), mkLeg(v, "b_to_a"), tun, orig, u16(v["ct_value.orig_port"]))
				val.SetOrigSport(u16(v["ct_value.orig_sport"]))
				return val.AsBytes()
			}
			val := conntrack.NewValueNATReverse(ls, mkFlags(v), mkLeg(v, "a_to_b"), mkLeg(v, "b_to_a"), tun, orig, u16(v["ct_value.orig_port"]))
			val.SetOrigSport(u16(v["ct_value.orig_sport"]))
			return val.AsBytes()
		}})

	// SetFlags on an existing value
	add(binding{gostruct: "conntrack.Value.SetFlags", goSize: ctValSize,
		enc: ctFlagEncFields(),
		encode: func(v map[string][]byte) []byte {
			return ctValueFromBytes(ipver, make([]byte, ctValSize)).SetFlags(mkFlags(v)).AsBytes()
		}})

	val := func(img []byte) conntrack.ValueInterface { return ctValueFromBytes(ipver, img) }
	decNormal := []decField{
		{"ct_value.rst_seen", func(i []byte) []byte { return le64(uint64(val(i).RSTSeen())) }},
		{"ct_value.last_seen", func(i []byte) []byte { return le64(uint64(val(i).LastSeen())) }},
		{"ct_value.type", func(i []byte) []byte { return []byte{val(i).Type()} }},
		{"ct_value.flags", func(i []byte) []byte { return []byte{byte(val(i).Flags())} }},
		{"ct_value.flags2", func(i []byte) []byte { return []byte{byte(val(i).Flags() >> 8)} }},
		{"ct_value.flags3", func(i []byte) []byte { return []byte{byte(val(i).Flags() >> 16)} }},
		{"ct_value.flags4", func(i []byte) []byte { return []byte{byte(val(i).Flags() >> 24)} }},
		{"ct_value.orig_ip", func(i []byte) []byte { return []byte(val(i).OrigIP()) }},
		{"ct_value.orig_port", func(i []byte) []byte { return le16(val(i).OrigPort()) }},
		{"ct_value.orig_sport", func(i []byte) []byte { return le16(val(i).OrigSPort()) }},
		{"ct_value.orig_sip", func(i []byte) []byte { return []byte(val(i).OrigSrcIP()) }},
		{"ct_value.tun_ip", func(i []byte) []byte { return []byte(val(i).Data().TunIP) }},
	}
	for _, leg := range []string{"a_to_b", "b_to_a"} {
		leg := leg
		r := legRefs(leg)
		pick := func(i []byte) conntrack.Leg {
			if leg == "a_to_b" {
				return val(i).Data().A2B
			}
			return val(i).Data().B2A
		}
		decNormal = append(decNormal,
			decField{r[0], func(i []byte) []byte { return le64(pick(i).Bytes) }},
			decField{r[1], func(i []byte) []byte { return le32(pick(i).Packets) }},
			decField{r[2], func(i []byte) []byte { return le32(pick(i).Seqno) }},
			decField{r[3], func(i []byte) []byte { return le32(pick(i).Ifindex) }})
	}
	add(binding{gostruct: "conntrack.Value getters (normal / NAT reverse view)", goSize: ctValSize, dec: decNormal})
	// Data() reports the same members a second time
	add(binding{gostruct: "conntrack.Value.Data()", goSize: ctValSize, dec: []decField{
		{"ct_value.orig_ip", func(i []byte) []byte { return []byte(val(i).Data().OrigDst) }},
		{"ct_value.orig_sip", func(i []byte) []byte { return []byte(val(i).Data().OrigSrc) }},
		{"ct_value.orig_port", func(i []byte) []byte { return le16(val(i).Data().OrigPort) }},
		{"ct_value.orig_sport", func(i []byte) []byte { return le16(val(i).Data().OrigSPort) }},
	}})
	decFwd := ctKeyDecFields("ct_value.nat_rev_key", func(img []byte) conntrack.KeyInterface { return val(img).ReverseNATKey() })
	decFwd = append(decFwd, decField{"ct_value.nat_sport", func(i []byte) []byte { return le16(val(i).NATSPort()) }},
		decField{"ct_value.last_seen", func(i []byte) []byte { return le64(uint64(val(i).LastSeen())) }})
	add(binding{gostruct: "conntrack.Value getters (NAT forward view)", goSize: ctValSize, dec: decFwd})

	// ---- conntrack leg bit-fields
	type legBit struct {
		c   string
		set func(l *conntrack.Leg)
		get func(l conntrack.Leg) bool
	}
	legBits := []legBit{
		{"syn_seen", func(l *conntrack.Leg) { l.SynSeen = true }, func(l conntrack.Leg) bool { return l.SynSeen }},
		{"ack_seen", func(l *conntrack.Leg) { l.AckSeen = true }, func(l conntrack.Leg) bool { return l.AckSeen }},
		{"fin_seen", func(l *conntrack.Leg) { l.FinSeen = true }, func(l conntrack.Leg) bool { return l.FinSeen }},
		{"rst_seen", func(l *conntrack.Leg) { l.RstSeen = true }, func(l conntrack.Leg) bool { return l.RstSeen }},
		{"approved", func(l *conntrack.Leg) { l.Approved = true }, func(l conntrack.Leg) bool { return l.Approved }},
		{"opener", func(l *conntrack.Leg) { l.Opener = true }, func(l conntrack.Leg) bool { return l.Opener }},
		{"workload", func(l *conntrack.Leg) { l.Workload = true }, func(l conntrack.Leg) bool { return l.Workload }},
	}
	rows = append(rows, row{ipver: ipver, gostruct: "conntrack.Leg", cfield: "sizeof ct_leg", kind: "size",
		check: func(L *cLayout) *mismatch {
			if n := len(conntrack.Leg{}.AsBytes()); n != L.size["ct_leg"] {
				return &mismatch{Msg: fmt.Sprintf("Leg.AsBytes() is %d bytes, sizeof(struct calico_ct_leg) = %d", n, L.size["ct_leg"])}
			}
			return nil
		}})
	for bi := range legBits {
		lb := legBits[bi]
		rows = append(rows, row{ipver: ipver, gostruct: "conntrack.Leg.AsBytes", cfield: "ct_leg." + lb.c, kind: "bit-enc",
			check: func(L *cLayout) *mismatch {
				cimg, ok := L.bit["ct_leg."+lb.c]
				if !ok {
					return &mismatch{Msg: "the layout probe has no bit-field ct_leg." + lb.c}
				}
				var l conntrack.Leg
				lb.set(&l)
				g := l.AsBytes()
				if !bytes.Equal(g, cimg) {
					return &mismatch{Msg: "Go sets a different bit than the C bit-field " + lb.c, Observed: hx(g), Expected: hx(cimg)}
				}
				return nil
			}})
		for _, leg := range []string{"a_to_b", "b_to_a"} {
			leg := leg
			rows = append(rows, row{ipver: ipver, gostruct: "conntrack.Value.Data()", cfield: "ct_value." + leg + "+ct_leg." + lb.c, kind: "bit-dec", covers: []string{"ct_value." + leg},
				check: func(L *cLayout) *mismatch {
					cimg, ok := L.bit["ct_leg."+lb.c]
					if !ok {
						return &mismatch{Msg: "the layout probe has no bit-field ct_leg." + lb.c}
					}
					off, ok := L.off["ct_value."+leg]
					if !ok || off+len(cimg) > ctValSize {
						return &mismatch{Msg: fmt.Sprintf("C leg %s at offset %d does not fit the Go value of %d bytes", leg, off, ctValSize)}
					}
					img := make([]byte, ctValSize)
					copy(img[off:], cimg)
					d := val(img).Data()
					l, other := d.A2B, d.B2A
					if leg == "b_to_a" {
						l, other = d.B2A, d.A2B
					}
					var got []string
					for _, x := range legBits {
						if x.get(l) {
							got = append(got, x.c)
						}
						if x.get(other) {
							got = append(got, "other-leg:"+x.c)
						}
					}
					if len(got) != 1 || got[0] != lb.c {
						return &mismatch{Msg: "planting the C bit-field " + lb.c + " is decoded by Go as different booleans", Observed: strings.Join(got, ","), Expected: lb.c}
					}
					return nil
				}})
		}
	}

	// ---- cleanup queue value
	ccqSize := cleanupv1.ValueSize
	if v6 {
		ccqSize = cleanupv1.ValueV6Size
	}
	ccqFrom := func(img []byte) cleanupv1.ValueInterface {
		if v6 {
			return conntrack.CleanupValueV6FromBytes(img)
		}
		return conntrack.CleanupValueFromBytes(img)
	}
	add(binding{gostruct: "cleanupv1.Value", ctag: "ccq_value", goSize: ccqSize,
		enc: []encField{{"ccq_value.rev_key", ctKeySize}, {"ccq_value.last_seen", 8}, {"ccq_value.rev_last_seen", 8}},
		encode: func(v map[string][]byte) []byte {
			if v6 {
				return cleanupv1.NewValueV6(v["ccq_value.rev_key"], u64(v["ccq_value.last_seen"]), u64(v["ccq_value.rev_last_seen"])).AsBytes()
			}
			return cleanupv1.NewValue(v["ccq_value.rev_key"], u64(v["ccq_value.last_seen"]), u64(v["ccq_value.rev_last_seen"])).AsBytes()
		},
		dec: []decField{
			{"ccq_value.rev_key", func(i []byte) []byte { return ccqFrom(i).OtherNATKey().AsBytes() }},
			{"ccq_value.last_seen", func(i []byte) []byte { return le64(ccqFrom(i).Timestamp()) }},
			{"ccq_value.rev_last_seen", func(i []byte) []byte { return le64(ccqFrom(i).RevTimestamp()) }},
		}})

	// ---- IP set key
	ipsSize := ipsets.IPSetEntrySize
	if v6 {
		ipsSize = ipsets.IPSetEntryV6Size
	}
	ipsFrom := func(img []byte) ipsets.IPSetEntryInterface {
		if v6 {
			return ipsets.IPSetEntryV6FromBytes(img)
		}
		return ipsets.IPSetEntryFromBytes(img)
	}
	mkIPS := func(id uint64, a []byte, plen int, port uint16, proto uint8) []byte {
		c := ip.CIDRFromAddrAndPrefix(ip.FromNetIP(net.IP(a)), plen)
		if v6 {
			return ipsets.MakeBPFIPSetEntryV6(id, c.(ip.V6CIDR), port, proto).AsBytes()
		}
		return ipsets.MakeBPFIPSetEntry(id, c.(ip.V4CIDR), port, proto).AsBytes()
	}
	add(binding{gostruct: "ipsets.IPSetEntry", ctag: "ip_set_key", goSize: ipsSize,
		enc: []encField{{"ip_set_key.set_id", 8}, {"ip_set_key.addr", al}, {"ip_set_key.port", 2}, {"ip_set_key.protocol", 1}},
		encode: func(v map[string][]byte) []byte {
			return mkIPS(u64(v["ip_set_key.set_id"]), v["ip_set_key.addr"], al*8, u16(v["ip_set_key.port"]), v["ip_set_key.protocol"][0])
		},
		dec: []decField{
			{"ip_set_key.mask", func(i []byte) []byte { return le32(ipsFrom(i).PrefixLen()) }},
			{"ip_set_key.set_id", func(i []byte) []byte { return le64(ipsFrom(i).SetID()) }},
			{"ip_set_key.addr", func(i []byte) []byte { return []byte(ipsFrom(i).Addr()) }},
			{"ip_set_key.port", func(i []byte) []byte { return le16(ipsFrom(i).Port()) }},
			{"ip_set_key.protocol", func(i []byte) []byte { return []byte{ipsFrom(i).Protocol()} }},
		}})
	// the computed prefix length: changing only the CIDR length may change only the `mask` member
	rows = append(rows, row{ipver: ipver, gostruct: "ipsets.IPSetEntry", cfield: "ip_set_key.mask", kind: "enc", covers: []string{"ip_set_key.mask"},
		check: func(L *cLayout) *mismatch {
			a := make([]byte, al) // all-zero address: masking cannot change it
			return checkDiffWithin(L, "ip_set_key.mask", mkIPS(7, a, 8, 0, 0), mkIPS(7, a, 24, 0, 0))
		}})

	// ---- NAT frontend key / value
	feKeySize := len(nat.FrontendKey{})
	if v6 {
		feKeySize = len(nat.FrontendKeyV6{})
	}
	mkFE := func(a []byte, port uint16, proto uint8, src ip.CIDR) nat.FrontendKeyInterface {
		if v6 {
			return nat.NewNATKeyV6Src(net.IP(a), port, proto, src)
		}
		return nat.NewNATKeySrc(net.IP(a), port, proto, src)
	}
	feFrom := func(img []byte) nat.FrontendKeyInterface {
		if v6 {
			return nat.FrontendKeyV6FromBytes(img)
		}
		return nat.FrontendKeyFromBytes(img)
	}
	add(binding{gostruct: "nat.FrontendKey", ctag: "nat_key", goSize: feKeySize,
		enc: []encField{{"nat_key.addr", al}, {"nat_key.port", 2}, {"nat_key.protocol", 1}, {"nat_key.saddr", al}},
		encode: func(v map[string][]byte) []byte {
			return mkFE(v["nat_key.addr"], u16(v["nat_key.port"]), v["nat_key.protocol"][0], cidrOf(v["nat_key.saddr"])).AsBytes()
		},
		dec: []decField{
			{"nat_key.prefixlen", func(i []byte) []byte { return le32(feFrom(i).(interface{ PrefixLen() uint32 }).PrefixLen()) }},
			{"nat_key.addr", func(i []byte) []byte { return []byte(feFrom(i).Addr()) }},
			{"nat_key.port", func(i []byte) []byte { return le16(feFrom(i).Port()) }},
			{"nat_key.protocol", func(i []byte) []byte { return []byte{feFrom(i).Proto()} }},
		}})
	// the nat_key part that doubles as struct calico_nat in the affinity key
	add(binding{gostruct: "nat.FrontendKey.AffinityKeyCopy", goSize: feKeySize,
		dec: []decField{
			{"nat_key.addr", func(i []byte) []byte { return []byte(feFrom(i).AffinityKeyCopy().Addr()) }},
			{"nat_key.port", func(i []byte) []byte { return le16(feFrom(i).AffinityKeyCopy().Port()) }},
			{"nat_key.protocol", func(i []byte) []byte { return []byte{feFrom(i).AffinityKeyCopy().Proto()} }},
		}})
	rows = append(rows, row{ipver: ipver, gostruct: "nat.FrontendKey", cfield: "nat_key.prefixlen", kind: "enc", covers: []string{"nat_key.prefixlen"},
		check: func(L *cLayout) *mismatch {
			a := make([]byte, al)
			a[0] = 10
			z := make([]byte, al)
			k1 := mkFE(a, 80, 6, ip.CIDRFromAddrAndPrefix(ip.FromNetIP(net.IP(z)), 0)).AsBytes()
			k2 := mkFE(a, 80, 6, ip.CIDRFromAddrAndPrefix(ip.FromNetIP(net.IP(z)), 8)).AsBytes()
			return checkDiffWithin(L, "nat_key.prefixlen", k1, k2)
		}})
	// SrcCIDR(): plant a full-length prefix and a source address
	rows = append(rows, row{ipver: ipver, gostruct: "nat.FrontendKey.SrcCIDR", cfield: "nat_key.saddr", kind: "dec", covers: []string{"nat_key.saddr"},
		check: func(L *cLayout) *mismatch {
			off, csz, err := cref(L, "nat_key.saddr")
			if err != nil {
				return &mismatch{Msg: err.Error()}
			}
			poff, _, err := cref(L, "nat_key.prefixlen")
			if err != nil {
				return &mismatch{Msg: err.Error()}
			}
			img := make([]byte, feKeySize)
			if off+csz > len(img) || poff+4 > len(img) {
				return &mismatch{Msg: "C members do not fit the Go key"}
			}
			full := L.consts["NAT_PREFIX_LEN_WITH_SRC_MATCH_IN_BITS"]
			binary.LittleEndian.PutUint32(img[poff:], uint32(full))
			pat := sentinel(9, csz)
			copy(img[off:], pat)
			got := []byte(feFrom(img).SrcCIDR().Addr().AsNetIP())
			if v6 {
				got = []byte(net.IP(got).To16())
			} else {
				got = []byte(net.IP(got).To4())
			}
			return checkDec(L, "nat_key.saddr", pat, got)
		}})

	add(binding{gostruct: "nat.FrontendValue", ctag: "nat_value", goSize: len(nat.FrontendValue{}),
		enc: []encField{{"nat_value.id", 4}, {"nat_value.count", 4}, {"nat_value.local", 4}, {"nat_value.affinity_timeo", 4}, {"nat_value.flags", 4}},
		encode: func(v map[string][]byte) []byte {
			return nat.NewNATValueWithFlags(u32(v["nat_value.id"]), u32(v["nat_value.count"]), u32(v["nat_value.local"]),
				u32(v["nat_value.affinity_timeo"]), u32(v["nat_value.flags"])).AsBytes()
		},
		dec: []decField{
			{"nat_value.id", func(i []byte) []byte { return le32(nat.FrontendValueFromBytes(i).ID()) }},
			{"nat_value.count", func(i []byte) []byte { return le32(nat.FrontendValueFromBytes(i).Count()) }},
			{"nat_value.local", func(i []byte) []byte { return le32(nat.FrontendValueFromBytes(i).LocalCount()) }},
			{"nat_value.affinity_timeo", func(i []byte) []byte {
				return le32(uint32(nat.FrontendValueFromBytes(i).AffinityTimeout() / time.Second))
			}},
			{"nat_value.flags", func(i []byte) []byte { return le32(nat.FrontendValueFromBytes(i).Flags()) }},
		}})

	add(binding{gostruct: "nat.BackendKey", ctag: "nat_secondary_key", goSize: len(nat.BackendKey{}),
		enc: []encField{{"nat_secondary_key.id", 4}, {"nat_secondary_key.ordinal", 4}},
		encode: func(v map[string][]byte) []byte {
			return nat.NewNATBackendKey(u32(v["nat_secondary_key.id"]), u32(v["nat_secondary_key.ordinal"])).AsBytes()
		},
		dec: []decField{
			{"nat_secondary_key.id", func(i []byte) []byte { return le32(nat.BackendKeyFromBytes(i).ID()) }},
			{"nat_secondary_key.ordinal", func(i []byte) []byte { return le32(nat.BackendKeyFromBytes(i).Count()) }},
		}})

	beValSize := len(nat.BackendValue{})
	if v6 {
		beValSize = len(nat.BackendValueV6{})
	}
	mkBE := func(a []byte, port uint16) nat.BackendValueInterface {
		if v6 {
			return nat.NewNATBackendValueV6(net.IP(a), port)
		}
		return nat.NewNATBackendValue(net.IP(a), port)
	}
	beFrom := func(img []byte) nat.BackendValueInterface {
		if v6 {
			return nat.BackendValueV6FromBytes(img)
		}
		return nat.BackendValueFromBytes(img)
	}
	add(binding{gostruct: "nat.BackendValue", ctag: "nat_dest", goSize: beValSize,
		enc:    []encField{{"nat_dest.addr", al}, {"nat_dest.port", 2}},
		encode: func(v map[string][]byte) []byte { return mkBE(v["nat_dest.addr"], u16(v["nat_dest.port"])).AsBytes() },
		dec: []decField{
			{"nat_dest.addr", func(i []byte) []byte { return []byte(beFrom(i).Addr()) }},
			{"nat_dest.port", func(i []byte) []byte { return le16(beFrom(i).Port()) }},
		}})

	// ---- affinity key / value
	affKeySize := len(nat.AffinityKey{})
	affValSize := len(nat.AffinityValue{})
	if v6 {
		affKeySize, affValSize = len(nat.AffinityKeyV6{}), len(nat.AffinityValueV6{})
	}
	affKeyFrom := func(img []byte) nat.AffinityKeyInterface {
		if v6 {
			return nat.AffinityKeyV6IntfFromBytes(img)
		}
		return nat.AffinityKeyIntfFromBytes(img)
	}
	add(binding{gostruct: "nat.AffinityKey", ctag: "nat_affinity_key", goSize: affKeySize,
		enc: []encField{{"nat_affinity_key.nat_key_addr", al}, {"nat_affinity_key.nat_key_port", 2},
			{"nat_affinity_key.nat_key_protocol", 1}, {"nat_affinity_key.client_ip", al}},
		encode: func(v map[string][]byte) []byte {
			fe := mkFE(v["nat_affinity_key.nat_key_addr"], u16(v["nat_affinity_key.nat_key_port"]), v["nat_affinity_key.nat_key_protocol"][0],
				ip.CIDRFromAddrAndPrefix(ip.FromNetIP(net.IP(make([]byte, al))), 0))
			if v6 {
				return nat.NewAffinityKeyV6(net.IP(v["nat_affinity_key.client_ip"]), fe.(nat.FrontendKeyV6)).AsBytes()
			}
			return nat.NewAffinityKey(net.IP(v["nat_affinity_key.client_ip"]), fe.(nat.FrontendKey)).AsBytes()
		},
		dec: []decField{
			{"nat_affinity_key.client_ip", func(i []byte) []byte { return []byte(affKeyFrom(i).ClientIP()) }},
			{"nat_affinity_key.nat_key_addr", func(i []byte) []byte { return []byte(affKeyFrom(i).FrontendAffinityKey().Addr()) }},
			{"nat_affinity_key.nat_key_port", func(i []byte) []byte { return le16(affKeyFrom(i).FrontendAffinityKey().Port()) }},
			{"nat_affinity_key.nat_key_protocol", func(i []byte) []byte { return []byte{affKeyFrom(i).FrontendAffinityKey().Proto()} }},
		}})
	// FrontendKey.Affinitykey() must have the size of struct calico_nat inside the affinity key
	rows = append(rows, row{ipver: ipver, gostruct: "nat.FrontendKey.Affinitykey", cfield: "nat_affinity_key.nat_key", kind: "size",
		check: func(L *cLayout) *mismatch {
			fe := mkFE(append(make([]byte, al-1), 1), 1, 6, ip.CIDRFromAddrAndPrefix(ip.FromNetIP(net.IP(make([]byte, al))), 0))
			n := len(fe.AffinityKeyCopy().AsBytes())
			if n != L.fsz["nat_affinity_key.nat_key"] || n != L.size["nat"] {
				return &mismatch{Msg: fmt.Sprintf("FrontEndAffinityKey is %d bytes, sizeof(struct calico_nat) = %d", n, L.size["nat"])}
			}
			return nil
		}})
	affValFrom := func(img []byte) nat.AffinityValueInterface {
		if v6 {
			return nat.AffinityValueV6IntfFromBytes(img)
		}
		return nat.AffinityValueIntfFromBytes(img)
	}
	add(binding{gostruct: "nat.AffinityValue", ctag: "nat_affinity_val", goSize: affValSize,
		enc: []encField{{"nat_affinity_val.nat_dest_addr", al}, {"nat_affinity_val.nat_dest_port", 2}, {"nat_affinity_val.ts", 8}},
		encode: func(v map[string][]byte) []byte {
			be := mkBE(v["nat_affinity_val.nat_dest_addr"], u16(v["nat_affinity_val.nat_dest_port"]))
			if v6 {
				return nat.NewAffinityValueV6(u64(v["nat_affinity_val.ts"]), be.(nat.BackendValueV6)).AsBytes()
			}
			return nat.NewAffinityValue(u64(v["nat_affinity_val.ts"]), be.(nat.BackendValue)).AsBytes()
		},
		dec: []decField{
			{"nat_affinity_val.ts", func(i []byte) []byte { return le64(uint64(affValFrom(i).Timestamp())) }},
			{"nat_affinity_val.nat_dest_addr", func(i []byte) []byte { return []byte(affValFrom(i).Backend().Addr()) }},
			{"nat_affinity_val.nat_dest_port", func(i []byte) []byte { return le16(affValFrom(i).Backend().Port()) }},
		}})

	// ---- maglev key
	mkMG := func(id, ord uint32) nat.MaglevBackendKeyInterface {
		if v6 {
			return nat.NewMaglevBackendKeyV6Intf(id, ord)
		}
		return nat.NewMaglevBackendKeyIntf(id, ord)
	}
	mgFrom := func(img []byte) nat.MaglevBackendKeyInterface {
		if v6 {
			return nat.MaglevBackendKeyV6FromBytes(img)
		}
		return nat.MaglevBackendKeyFromBytes(img)
	}
	add(binding{gostruct: "nat.MaglevBackendKey", ctag: "maglev_key", goSize: len(mkMG(0, 0).AsBytes()),
		enc: []encField{{"maglev_key.sid", 4}, {"maglev_key.ordinal", 4}},
		encode: func(v map[string][]byte) []byte {
			return mkMG(u32(v["maglev_key.sid"]), u32(v["maglev_key.ordinal"])).AsBytes()
		},
		dec: []decField{
			{"maglev_key.sid", func(i []byte) []byte { return le32(mgFrom(i).SvcID()) }},
			{"maglev_key.ordinal", func(i []byte) []byte { return le32(mgFrom(i).Ordinal()) }},
		}})

	// ---- declared map key/value sizes
	type mp struct {
		name string
		p    maps.MapParameters
		k, v string // struct tags ("" = skip)
	}
	mps := []mp{
		{"conntrack.MapParams", conntrack.MapParams, "ct_key", "ct_value"},
		{"conntrack.MapParamsCleanup", conntrack.MapParamsCleanup, "ct_key", "ccq_value"},
		{"ipsets.MapParameters", ipsets.MapParameters, "ip_set_key", ""},
		{"nat.FrontendMapParameters", nat.FrontendMapParameters, "nat_key", "nat_value"},
		{"nat.BackendMapParameters", nat.BackendMapParameters, "nat_secondary_key", "nat_dest"},
		{"nat.AffinityMapParameters", nat.AffinityMapParameters, "nat_affinity_key", "nat_affinity_val"},
		{"nat.MaglevMapParameters", nat.MaglevMapParameters, "maglev_key", "nat_dest"},
	}
	if v6 {
		mps = []mp{
			{"conntrack.MapParamsV6", conntrack.MapParamsV6, "ct_key", "ct_value"},
			{"conntrack.MapParamsCleanupV6", conntrack.MapParamsCleanupV6, "ct_key", "ccq_value"},
			{"ipsets.MapV6Parameters", ipsets.MapV6Parameters, "ip_set_key", ""},
			{"nat.FrontendMapV6Parameters", nat.FrontendMapV6Parameters, "nat_key", "nat_value"},
			{"nat.BackendMapV6Parameters", nat.BackendMapV6Parameters, "nat_secondary_key", "nat_dest"},
			{"nat.AffinityMapV6Parameters", nat.AffinityMapV6Parameters, "nat_affinity_key", "nat_affinity_val"},
			{"nat.MaglevMapV6Parameters", nat.MaglevMapV6Parameters, "maglev_key", "nat_dest"},
		}
	}
	for _, m := range mps {
		m := m
		for _, kv := range []struct {
			what, tag string
			n         int
		}{{"KeySize", m.k, m.p.KeySize}, {"ValueSize", m.v, m.p.ValueSize}} {
			kv := kv
			if kv.tag == "" {
				continue
			}
			rows = append(rows, row{ipver: ipver, gostruct: m.name + "." + kv.what, cfield: "sizeof " + kv.tag, kind: "size",
				check: func(L *cLayout) *mismatch {
					if cs := L.size[kv.tag]; cs != kv.n {
						return &mismatch{Msg: fmt.Sprintf("map %s declares %s=%d but sizeof(%s) = %d", m.p.Name, kv.what, kv.n, kv.tag, cs)}
					}
					return nil
				}})
		}
	}
	rows = append(rows, row{ipver: ipver, gostruct: "ipsets.MapParameters.ValueSize", cfield: "sizeof __u32", kind: "size",
		check: func(L *cLayout) *mismatch {
			p := ipsets.MapParameters
			if v6 {
				p = ipsets.MapV6Parameters
			}
			if uint64(p.ValueSize) != L.consts["ip_set_value_size"] || len(ipsets.DummyValue) != p.ValueSize {
				return &mismatch{Msg: fmt.Sprintf("IP set map value: Go %d (dummy value %d bytes), C %d", p.ValueSize, len(ipsets.DummyValue), L.consts["ip_set_value_size"])}
			}
			return nil
		}})
	rows = append(rows, row{ipver: ipver, gostruct: "state.MapParameters.ValueSize", cfield: "STATE_SIZE", kind: "size",
		check: func(L *cLayout) *mismatch {
			vs := state.MapParameters.ValueSize
			if uint64(vs) != L.consts["STATE_SIZE"] {
				return &mismatch{Msg: fmt.Sprintf("state map slot: Go %d bytes, C STATE_SIZE %d", vs, L.consts["STATE_SIZE"])}
			}
			if L.size["state"] > vs {
				return &mismatch{Msg: fmt.Sprintf("sizeof(struct cali_tc_state)=%d does not fit the Go-declared slot of %d bytes", L.size["state"], vs)}
			}
			if n := len((&state.State{}).AsBytes()); n > vs {
				return &mismatch{Msg: fmt.Sprintf("state.State.AsBytes() is %d bytes, larger than the %d-byte slot", n, vs)}
			}
			if uint64(state.MaxRuleIDs) != L.consts["MAX_RULE_IDS"] {
				return &mismatch{Msg: fmt.Sprintf("state.MaxRuleIDs=%d, C MAX_RULE_IDS=%d", state.MaxRuleIDs, L.consts["MAX_RULE_IDS"])}
			}
			return nil
		}})

	// ---- state.State through its own AsBytes / StateFromBytes
	rows = append(rows, stateRows(ipver)...)

	// ---- polprog hand-maintained constants
	rows = append(rows, polprogRows(ipver)...)

	// ---- events.ParsePolicyVerdict (reads the state image that follows the 8-byte event header)
	pv := func(img []byte) events.PolicyVerdict { return events.ParsePolicyVerdict(img[8:], v6) }
	pvIP := func(x net.IP) []byte { return []byte(x) }
	add(binding{gostruct: "events.ParsePolicyVerdict", goSize: 8 + 104 + 8*state.MaxRuleIDs, dec: []decField{
		{stIP(ipver, "ip_src"), func(i []byte) []byte { return pvIP(pv(i).SrcAddr) }},
		{stIP(ipver, "pre_nat_ip_dst"), func(i []byte) []byte { return pvIP(pv(i).DstAddr) }},
		{stIP(ipver, "post_nat_ip_dst"), func(i []byte) []byte { return pvIP(pv(i).PostNATDstAddr) }},
		{stIP(ipver, "tun_ip"), func(i []byte) []byte { return pvIP(pv(i).NATTunSrcAddr) }},
		{"state.pol_rc", func(i []byte) []byte { return le32(uint32(pv(i).PolicyRC)) }},
		{"state.sport", func(i []byte) []byte { return le16(pv(i).SrcPort) }},
		{"state.pre_nat_dport", func(i []byte) []byte { return le16(pv(i).DstPort) }},
		{"state.post_nat_dport", func(i []byte) []byte { return le16(pv(i).PostNATDstPort) }},
		{"state.ip_proto", func(i []byte) []byte { return []byte{pv(i).IPProto} }},
		{"state.ip_size", func(i []byte) []byte { return le16(pv(i).IPSize) }},
	}})
	rows = append(rows, row{ipver: ipver, gostruct: "events.ParsePolicyVerdict", cfield: "state.rules_hit+rule_ids", kind: "dec",
		covers: []string{"state.rules_hit", "state.rule_ids"},
		check: func(L *cLayout) *mismatch {
			rh, ok1 := L.off["state.rules_hit"]
			r0, ok2 := L.off["state.rule_ids_0"]
			r1, ok3 := L.off["state.rule_ids_1"]
			if !ok1 || !ok2 || !ok3 {
				return &mismatch{Msg: "probe lacks rules_hit / rule_ids"}
			}
			img := make([]byte, 8+104+8*state.MaxRuleIDs+64)
			if r1+8 > len(img) || rh+4 > len(img) {
				return &mismatch{Msg: "C members outside the event image"}
			}
			binary.LittleEndian.PutUint32(img[rh:], 2)
			p0, p1 := sentinel(20, 8), sentinel(21, 8)
			copy(img[r0:], p0)
			copy(img[r1:], p1)
			v := pv(img)
			if v.RulesHit != 2 || v.RuleIDs[0] != u64(p0) || v.RuleIDs[1] != u64(p1) {
				return &mismatch{Msg: "ParsePolicyVerdict does not read rules_hit/rule_ids from the C offsets",
					Observed: fmt.Sprintf("hit=%d ids=%x,%x", v.RulesHit, v.RuleIDs[0], v.RuleIDs[1]), Expected: fmt.Sprintf("hit=2 ids=%x,%x", u64(p0), u64(p1))}
			}
			return nil
		}})
	return rows
}

// checkDiffWithin: two encodings that differ only in the input feeding member ref may differ only there.
func checkDiffWithin(L *cLayout, ref string, a, b []byte) *mismatch {
	off, csz, err := cref(L, ref)
	if err != nil {
		return &mismatch{Msg: err.Error()}
	}
	n := 0
	for i := range a {
		if a[i] != b[i] {
			n++
			if i < off || i >= off+csz {
				return &mismatch{Msg: fmt.Sprintf("changing only the input of C member %s (offset %d, size %d) changed byte %d of the Go encoding", ref, off, csz, i),
					Observed: hx(b), Expected: hx(a)}
			}
		}
	}
	if n == 0 {
		return &mismatch{Msg: "changing the input of C member " + ref + " did not change the Go encoding"}
	}
	return nil
}

// stIP names the C member holding an address of struct cali_tc_state: the whole 16 bytes in IPv6
// builds, the first word in IPv4 builds.
func stIP(ipver int, name string) string {
	if ipver == 6 {
		return "state." + name
	}
	return "state." + name + "_w0"
}

func stateRows(ipver int) []row {
	type sf struct {
		gofield string
		idx     int // array index for RuleIDs, else -1
		ref     string
		info    bool
	}
	var fs []sf
	for _, a := range []struct{ g, c string }{{"SrcAddr", "ip_src"}, {"DstAddr", "ip_dst"}, {"PreNATDstAddr", "pre_nat_ip_dst"},
		{"PostNATDstAddr", "post_nat_ip_dst"}, {"TunIP", "tun_ip"}} {
		for w := 0; w < 4; w++ {
			g := a.g
			if w > 0 {
				g = fmt.Sprintf("%s%d", a.g, w)
			}
			fs = append(fs, sf{g, -1, fmt.Sprintf("state.%s_w%d", a.c, w), false})
		}
	}
	fs = append(fs,
		sf{"PolicyRC", -1, "state.pol_rc", false},
		sf{"SrcPort", -1, "state.sport", false},
		sf{"DstPort", -1, "state.dport", false},
		sf{"PreNATDstPort", -1, "state.pre_nat_dport", false},
		sf{"PostNATDstPort", -1, "state.post_nat_dport", false},
		sf{"IPProto", -1, "state.ip_proto", false},
		sf{"IPSize", -1, "state.ip_size", false},
		sf{"RulesHit", -1, "state.rules_hit", false},
		sf{"RuleIDs", 0, "state.rule_ids_0", false},
		sf{"RuleIDs", 1, "state.rule_ids_1", false},
		sf{"RuleIDs", state.MaxRuleIDs - 1, "state.rule_ids_31", false},
		sf{"Flags", -1, "state.flags", false},
		// Not read or written by any non-test Felix code: informational only.
		sf{"ConntrackFlags", -1, "state.ct_result_flags", true},
		sf{"ConntrackTunIP", -1, "state.ct_result_tun_ip", true},
		sf{"ConntrackIfIndexFwd", -1, "state.ct_result_ifindex_fwd", true},
		sf{"ConntrackIfIndexCtd", -1, "state.ct_result_ifindex_created", true},
		sf{"NATData", -1, "state.nat_dest", true},
		sf{"ProgStartTime", -1, "state.prog_start_time", true},
		sf{"SrcAddrMasq", -1, "state.ip_src_masq", true},
		sf{"NATSvcID", -1, "state.nat_svc_id", true},
	)
	field := func(s *state.State, f sf) (reflect.Value, error) {
		v := reflect.ValueOf(s).Elem().FieldByName(f.gofield)
		if !v.IsValid() {
			return v, fmt.Errorf("state.State has no field %s", f.gofield)
		}
		if f.idx >= 0 {
			v = v.Index(f.idx)
		}
		return v, nil
	}
	width := func(v reflect.Value) int { return int(v.Type().Size()) }
	setLE := func(v reflect.Value, b []byte) {
		var x uint64
		for i := len(b) - 1; i >= 0; i-- {
			x = x<<8 | uint64(b[i])
		}
		if v.Kind() == reflect.Int32 || v.Kind() == reflect.Int || v.Kind() == reflect.Int64 {
			v.SetInt(int64(int32(x)))
		} else {
			v.SetUint(x)
		}
	}
	getLE := func(v reflect.Value) []byte {
		var x uint64
		if v.Kind() == reflect.Int32 || v.Kind() == reflect.Int || v.Kind() == reflect.Int64 {
			x = uint64(v.Int())
		} else {
			x = v.Uint()
		}
		b := make([]byte, width(v))
		for i := range b {
			b[i] = byte(x >> (8 * i))
		}
		return b
	}
	var rows []row
	for i := range fs {
		f := fs[i]
		name := "state.State." + f.gofield
		if f.idx >= 0 {
			name = fmt.Sprintf("%s[%d]", name, f.idx)
		}
		ek, dk := "enc", "dec"
		if f.info {
			ek, dk = "info-enc", "info-dec"
		}
		rows = append(rows, row{ipver: ipver, gostruct: name, cfield: f.ref, kind: ek, info: f.info, covers: []string{f.ref},
			check: func(L *cLayout) *mismatch {
				var s state.State
				// every table field gets its own sentinel at once
				var mine []byte
				for j, g := range fs {
					v, err := field(&s, g)
					if err != nil {
						if j == i {
							return &mismatch{Msg: err.Error()}
						}
						continue
					}
					sb := sentinel(j+1, width(v))
					setLE(v, sb)
					if j == i {
						mine = sb
					}
				}
				m := checkEnc(L, s.AsBytes(), f.ref, mine)
				if m != nil && ipver == 6 && f.info {
					m.Msg += " (IPv6 layout)"
				}
				return m
			}})
		rows = append(rows, row{ipver: ipver, gostruct: name, cfield: f.ref, kind: dk, info: f.info, covers: []string{f.ref},
			check: func(L *cLayout) *mismatch {
				var refs []string
				for _, g := range fs {
					refs = append(refs, g.ref)
				}
				n := len((&state.State{}).AsBytes())
				img, pats, err := plant(L, n, refs)
				if err != nil {
					return &mismatch{Msg: err.Error()}
				}
				s := state.StateFromBytes(img)
				v, err := field(&s, f)
				if err != nil {
					return &mismatch{Msg: err.Error()}
				}
				return checkDec(L, f.ref, pats[f.ref], getLE(v))
			}})
	}
	return rows
}

func polprogRows(ipver int) []row {
	var rows []row
	so := polprog.VerifStateOffsets()
	var names []string
	for n := range so {
		names = append(names, n)
	}
	sort.Strings(names)
	for _, n := range names {
		n := n
		goOff := int(so[n])
		member := strings.TrimPrefix(n, "state->")
		ref := "state." + member
		rows = append(rows, row{ipver: ipver, gostruct: "polprog.stateOff(" + n + ")", cfield: ref, kind: "const", covers: []string{ref},
			check: func(L *cLayout) *mismatch {
				co, ok := L.off[ref]
				if !ok {
					return &mismatch{Msg: "the layout probe has no member " + ref + " (polprog names a C member the check does not know)"}
				}
				if co != goOff {
					return &mismatch{Msg: fmt.Sprintf("polprog addresses %s at offset %d, C offsetof is %d", n, goOff, co),
						Observed: fmt.Sprint(goOff), Expected: fmt.Sprint(co)}
				}
				return nil
			}})
	}
	ik := polprog.VerifIPSetKeyOffsets()
	for _, m := range []string{"mask", "set_id", "addr", "port", "protocol", "pad"} {
		m := m
		if ipver == 6 && (m == "port" || m == "protocol" || m == "pad") {
			continue // shifted by a local variable of setUpIPSetKey in IPv6 programs; see "Deliberately not checked"
		}
		goOff := int(ik[m])
		ref := "ip_set_key." + m
		rows = append(rows, row{ipver: ipver, gostruct: "polprog.ipsKey(" + m + ")", cfield: ref, kind: "const", covers: []string{ref},
			check: func(L *cLayout) *mismatch {
				co, ok := L.off[ref]
				if !ok {
					return &mismatch{Msg: "the layout probe has no member " + ref}
				}
				if co != goOff {
					return &mismatch{Msg: fmt.Sprintf("polprog addresses ip_set_key.%s at offset %d, C offsetof is %d", m, goOff, co),
						Observed: fmt.Sprint(goOff), Expected: fmt.Sprint(co)}
				}
				return nil
			}})
	}
	sk := polprog.VerifSkbOffsets()
	for n, ref := range map[string]string{"skb->cb[0]": "skb.cb0", "skb->cb[1]": "skb.cb1"} {
		n, ref := n, ref
		goOff, present := sk[n]
		rows = append(rows, row{ipver: ipver, gostruct: "polprog.skbCb(" + n + ")", cfield: ref, kind: "const",
			check: func(L *cLayout) *mismatch {
				if !present {
					return &mismatch{Msg: "polprog no longer names " + n}
				}
				if co := L.off[ref]; co != int(goOff) {
					return &mismatch{Msg: fmt.Sprintf("polprog addresses %s at offset %d, C offsetof is %d", n, goOff, co)}
				}
				return nil
			}})
	}
	sort.SliceStable(rows, func(i, j int) bool { return rows[i].name() < rows[j].name() })
	return rows
}

// ---------------------------------------------------------------------------------------------
// unmapped C members (evidence only)

var recordOfTag = map[string]string{
	"state": "struct cali_tc_state", "ip_set_key": "struct ip_set_key", "ct_key": "struct calico_ct_key",
	"ct_value": "struct calico_ct_value", "ccq_value": "struct cali_ccq_value", "nat_key": "struct calico_nat_key",
	"nat_value": "struct calico_nat_value", "nat_secondary_key": "struct calico_nat_secondary_key",
	"nat_dest": "struct calico_nat_dest", "nat_affinity_key": "struct calico_nat_affinity_key",
	"nat_affinity_val": "struct calico_nat_affinity_val", "maglev_key": "struct cali_maglev_key",
}

func unmappedRow(ipver int, rows []row) row {
	return row{ipver: ipver, gostruct: "(report)", cfield: "unmapped C members", kind: "unmapped", info: true,
		check: func(L *cLayout) *mismatch {
			if L.records == nil {
				return &mismatch{Msg: "no record-layout dump: " + L.recNote}
			}
			type span struct{ lo, hi int }
			cov := map[string][]span{}
			for _, r := range rows {
				if r.info {
					continue
				}
				for _, ref := range r.covers {
					tag := strings.SplitN(ref, ".", 2)[0]
					if off, sz, err := cref(L, ref); err == nil {
						cov[tag] = append(cov[tag], span{off, off + sz})
					}
				}
			}
			var un []string
			var tags []string
			for t := range recordOfTag {
				tags = append(tags, t)
			}
			sort.Strings(tags)
			for _, t := range tags {
				for _, leaf := range L.records[recordOfTag[t]] {
					last := leaf.Path[strings.LastIndex(leaf.Path, ".")+1:]
					if strings.Contains(last, "pad") || last == "unused" || strings.HasPrefix(leaf.Path, "__pad") {
						continue
					}
					hit := false
					for _, s := range cov[t] {
						if leaf.Off >= s.lo && leaf.Off < s.hi {
							hit = true
							break
						}
					}
					if !hit {
						un = append(un, fmt.Sprintf("%s.%s@%d", t, leaf.Path, leaf.Off))
					}
				}
			}
			if len(un) == 0 {
				return nil
			}
			return &mismatch{Msg: fmt.Sprintf("%d C members have no Go accessor in the table", len(un)), Observed: strings.Join(un, " ")}
		}}
}

// ---------------------------------------------------------------------------------------------

var (
	allRows []row
	layouts = map[int]*cLayout{}
)

func table() []row {
	if allRows != nil {
		return allRows
	}
	for _, v := range []int{4, 6} {
		r := buildRows(v)
		r = append(r, unmappedRow(v, r))
		allRows = append(allRows, r...)
	}
	return allRows
}

func run(c *harness.Case) {
	rows := table()
	if c.Index >= len(rows) {
		return
	}
	r := rows[c.Index]
	L := layouts[r.ipver]
	c.NonTrivial(r.name())
	c.Count("rows_checked", 1)
	c.Count("rows_"+strings.TrimPrefix(r.kind, "info-"), 1)
	c.Count(fmt.Sprintf("rows_ipv%d", r.ipver), 1)
	c.Distinct("go_accessors", r.gostruct)
	c.Distinct("c_members", r.ipver, r.cfield)
	m := r.check(L)
	if c.Index%97 == 0 {
		c.Sample(map[string]any{"row": r.name(), "result": m})
	}
	if m == nil {
		return
	}
	detail := map[string]any{"row": r.name(), "ipver": r.ipver, "go": r.gostruct, "c_member": r.cfield, "kind": r.kind, "mismatch": m}
	if r.kind == "unmapped" {
		c.Count("unmapped_c_members", int64(len(strings.Fields(m.Observed))))
		c.Sample(detail)
		return
	}
	if r.info {
		c.Count("stale_unused_go_fields", 1)
		c.Sample(detail)
		return
	}
	c.Violationf("layout:"+r.name(), detail, "%s: %s", r.name(), m.Msg)
}

func main() {
	logrus.SetOutput(io.Discard)
	logrus.SetLevel(logrus.PanicLevel)
	harness.Main(harness.Check{
		ID:         "C13",
		Level:      "exploration",
		Exhaustive: true,
		Rule: "one case per row of a fixed table (Go accessor <-> C member, or total size), IPv4 and IPv6 builds of the headers; the table is enumerated " +
			"completely in both tiers; every row is non-trivial and distinct by its name",
		Assumptions: []string{
			"C layout is clang's (-target bpf, the compiler Calico ships its programs with) for the headers under $VERIF_REPO/felix/bpf-gpl, with three stub libbpf headers from /verif/cstub that declare helpers only",
			"the Go<->C member pairing is a hand-written table; C members without a Go accessor are reported as evidence (unmapped_c_members), not judged",
			"byte order and value semantics are not part of the property and are not judged; state.State members after `flags` are informational (no non-test reader or writer)",
			"CGO off (libbpf stubs), no race detector: the code under test is pure encoders/decoders",
		},
		Cases: func(tier string) int { return len(table()) },
		Setup: func(tier string) error {
			for _, v := range []int{4, 6} {
				L, err := compileProbe(v)
				if err != nil {
					return err
				}
				layouts[v] = L
			}
			return nil
		},
		Run:    run,
		Floors: map[string]int64{"rows_checked": 300, "rows_enc": 80, "rows_dec": 100, "rows_const": 30, "rows_size": 30, "rows_bit-enc": 10, "rows_bit-dec": 20},
	})
}

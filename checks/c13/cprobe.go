package main

// C side of C13: compile /verif/cprobe/layout.c against the headers of the tree under test and read
// the layout constants out of the object file.

import (
	"bytes"
	"crypto/sha256"
	"debug/elf"
	"encoding/binary"
	"fmt"
	"os"
	"os/exec"
	"path/filepath"
	"regexp"
	"sort"
	"strconv"
	"strings"
)

type cLeaf struct {
	Path string
	Off  int
}

type cLayout struct {
	ipver   int
	size    map[string]int    // struct tag -> sizeof
	off     map[string]int    // "struct.field" -> offsetof
	fsz     map[string]int    // "struct.field" -> sizeof member
	bit     map[string][]byte // "struct.field" -> image of the struct with only that bit-field = 1
	consts  map[string]uint64
	records map[string][]cLeaf // C record name ("struct calico_ct_value") -> leaf members (evidence only)
	recNote string
}

func verifRoot() string {
	if r := os.Getenv("VERIF_ROOT"); r != "" {
		return r
	}
	return "/verif"
}

func repoRoot() string {
	if r := os.Getenv("VERIF_REPO"); r != "" {
		return r
	}
	return "/repo"
}

func clangArgs(ipver int) []string {
	a := []string{"-target", "bpf", "-D__x86_64__"}
	if ipver == 6 {
		a = append(a, "-DIPVER6")
	}
	a = append(a, "-I/usr/include/x86_64-linux-gnu", "-I"+filepath.Join(verifRoot(), "cstub"),
		"-I"+filepath.Join(repoRoot(), "felix", "bpf-gpl"), "-O0", "-Wno-everything")
	return a
}

// sourceHash fingerprints everything the probe object depends on, so that an edited header is
// always recompiled and an unchanged tree is a cache hit shared by all shards.
func sourceHash() (string, error) {
	h := sha256.New()
	var files []string
	for _, pat := range []string{
		filepath.Join(repoRoot(), "felix", "bpf-gpl", "*.h"),
		filepath.Join(verifRoot(), "cstub", "*.h"),
		filepath.Join(verifRoot(), "cprobe", "layout.c"),
	} {
		m, _ := filepath.Glob(pat)
		files = append(files, m...)
	}
	sort.Strings(files)
	if len(files) < 10 {
		return "", fmt.Errorf("found only %d source files under %s/felix/bpf-gpl", len(files), repoRoot())
	}
	for _, f := range files {
		b, err := os.ReadFile(f)
		if err != nil {
			return "", err
		}
		fmt.Fprintf(h, "%s %d\n", f, len(b))
		h.Write(b)
	}
	return fmt.Sprintf("%x", h.Sum(nil))[:20], nil
}

func compileProbe(ipver int) (*cLayout, error) {
	hash, err := sourceHash()
	if err != nil {
		return nil, err
	}
	dir := filepath.Join(verifRoot(), ".cache", "c13", hash)
	if err := os.MkdirAll(dir, 0o755); err != nil {
		return nil, err
	}
	obj := filepath.Join(dir, fmt.Sprintf("layout%d.o", ipver))
	rec := filepath.Join(dir, fmt.Sprintf("records%d.txt", ipver))
	src := filepath.Join(verifRoot(), "cprobe", "layout.c")
	if _, err := os.Stat(obj); err != nil {
		tmp := fmt.Sprintf("%s.%d.tmp", obj, os.Getpid())
		cmd := exec.Command("clang", append(clangArgs(ipver), "-c", src, "-o", tmp)...)
		if out, err := cmd.CombinedOutput(); err != nil {
			return nil, fmt.Errorf("clang failed on the layout probe (IPv%d): %v\n%s", ipver, err, tail(out, 3000))
		}
		if err := os.Rename(tmp, obj); err != nil {
			return nil, err
		}
	}
	if _, err := os.Stat(rec); err != nil {
		cmd := exec.Command("clang", append(clangArgs(ipver), "-Xclang", "-fdump-record-layouts", "-fsyntax-only", src)...)
		var so bytes.Buffer
		cmd.Stdout = &so
		if err := cmd.Run(); err == nil {
			tmp := fmt.Sprintf("%s.%d.tmp", rec, os.Getpid())
			if os.WriteFile(tmp, so.Bytes(), 0o644) == nil {
				_ = os.Rename(tmp, rec)
			}
		}
	}
	L, err := readProbe(obj, ipver)
	if err != nil {
		return nil, err
	}
	if b, err := os.ReadFile(rec); err == nil {
		L.records = parseRecordLayouts(string(b))
	} else {
		L.recNote = "record-layout dump unavailable: " + err.Error()
	}
	return L, nil
}

func tail(b []byte, n int) string {
	if len(b) > n {
		b = b[len(b)-n:]
	}
	return string(b)
}

func readProbe(obj string, ipver int) (*cLayout, error) {
	f, err := elf.Open(obj)
	if err != nil {
		return nil, err
	}
	defer f.Close()
	syms, err := f.Symbols()
	if err != nil {
		return nil, err
	}
	L := &cLayout{ipver: ipver, size: map[string]int{}, off: map[string]int{}, fsz: map[string]int{},
		bit: map[string][]byte{}, consts: map[string]uint64{}}
	secData := map[elf.SectionIndex][]byte{}
	for _, s := range syms {
		if !strings.HasPrefix(s.Name, "vp_") {
			continue
		}
		if int(s.Section) <= 0 || int(s.Section) >= len(f.Sections) {
			return nil, fmt.Errorf("probe symbol %s is not in a section", s.Name)
		}
		d, ok := secData[s.Section]
		if !ok {
			d, err = f.Sections[s.Section].Data()
			if err != nil {
				return nil, err
			}
			secData[s.Section] = d
		}
		if s.Value+s.Size > uint64(len(d)) {
			return nil, fmt.Errorf("probe symbol %s outside its section", s.Name)
		}
		val := d[s.Value : s.Value+s.Size]
		parts := strings.Split(s.Name, "__")
		num := func() uint64 {
			switch len(val) {
			case 4:
				return uint64(binary.LittleEndian.Uint32(val))
			case 8:
				return binary.LittleEndian.Uint64(val)
			}
			return 0
		}
		switch {
		case parts[0] == "vp_size" && len(parts) == 2:
			L.size[parts[1]] = int(num())
		case parts[0] == "vp_off" && len(parts) == 3:
			L.off[parts[1]+"."+parts[2]] = int(num())
		case parts[0] == "vp_fsz" && len(parts) == 3:
			L.fsz[parts[1]+"."+parts[2]] = int(num())
		case parts[0] == "vp_bit" && len(parts) == 3:
			L.bit[parts[1]+"."+parts[2]] = append([]byte(nil), val...)
		case parts[0] == "vp_const":
			L.consts[strings.Join(parts[1:], "__")] = num()
		}
	}
	if len(L.off) < 100 {
		return nil, fmt.Errorf("layout probe yielded only %d offsets", len(L.off))
	}
	return L, nil
}

var recLine = regexp.MustCompile(`^\s*(\d+)(?::\d+-\d+)?\s*\|( +)(.*)$`)

// parseRecordLayouts reads clang's -fdump-record-layouts output.  Only used for the evidence list of C
// members that no table row covers; never for a verdict.
func parseRecordLayouts(s string) map[string][]cLeaf {
	out := map[string][]cLeaf{}
	blocks := strings.Split(s, "*** Dumping AST Record Layout")
	for _, b := range blocks {
		type ln struct {
			off, depth int
			name       string
		}
		var lines []ln
		for _, l := range strings.Split(b, "\n") {
			m := recLine.FindStringSubmatch(l)
			if m == nil {
				continue
			}
			off, _ := strconv.Atoi(m[1])
			depth := (len(m[2]) - 1) / 2
			text := strings.TrimSpace(m[3])
			name := ""
			if !strings.Contains(text, "(anonymous") && !strings.Contains(text, "(unnamed") {
				f := strings.Fields(text)
				name = f[len(f)-1]
			}
			if depth == 0 {
				name = text
			}
			lines = append(lines, ln{off, depth, name})
		}
		if len(lines) == 0 {
			continue
		}
		rec := lines[0].name
		if _, dup := out[rec]; dup {
			continue
		}
		var stack []string
		var leaves []cLeaf
		for i := 1; i < len(lines); i++ {
			l := lines[i]
			for len(stack) >= l.depth {
				stack = stack[:len(stack)-1]
			}
			stack = append(stack, l.name)
			isLeaf := i+1 >= len(lines) || lines[i+1].depth <= l.depth
			if isLeaf {
				var p []string
				for _, x := range stack {
					if x != "" {
						p = append(p, x)
					}
				}
				leaves = append(leaves, cLeaf{Path: strings.Join(p, "."), Off: l.off})
			}
		}
		out[rec] = leaves
	}
	return out
}

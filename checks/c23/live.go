package main

// Live sub-run: the controller's real main loop (channels, batching, retry controller) fed by the
// real watcher syncer over casstore's Watch, concurrently with CNI and API activity.  Its purpose is
// race detection and crash-freedom; the only verdict is end-to-end: no address that a live pod on
// the API server justifies has been freed.  No virtual time here (wall-clock sleeps only pace it).

import (
	"strings"
	"time"

	apiv3 "github.com/projectcalico/api/pkg/apis/projectcalico/v3"

	"github.com/projectcalico/calico/libcalico-go/lib/apis/internalapi"
	bapi "github.com/projectcalico/calico/libcalico-go/lib/backend/api"
	"github.com/projectcalico/calico/libcalico-go/lib/backend/model"
	"github.com/projectcalico/calico/libcalico-go/lib/backend/watchersyncer"
	"github.com/projectcalico/calico/libcalico-go/lib/ipam"
)

type feed struct{ w *world }

func (f feed) OnStatusUpdated(s bapi.SyncStatus) { f.w.ctrl.VerifOnStatusUpdate(s) }
func (f feed) OnUpdates(us []bapi.Update) {
	for _, u := range us {
		switch u.Key.(type) {
		case model.BlockKey, model.ResourceKey:
			f.w.ctrl.VerifOnUpdate(u)
		}
	}
}

func (w *world) liveRun() {
	c := w.c
	w.live = true
	w.st.OnCommit = nil
	// GC enabled with the default-like grace period: only allocations of deleted nodes can be released.
	d := 15 * time.Minute
	w.grace = &d

	// History before the controller starts: pods on all nodes, then node-b disappears with its pods.
	for i := 0; i < 14; i++ {
		nodes := w.usableNodes()
		w.createPod([]string{"ns1", "ns2"}[i%2], podNames[i%len(podNames)]+"-"+string(rune('a'+i)), nodes[i%len(nodes)])
	}
	for _, k := range sortedKeys(w.pods) {
		if p := w.pods[k]; c.R.Intn(2) == 0 {
			obj := w.apiGetPod(k).DeepCopy()
			setPodIPs(obj, p.ips)
			w.apiSetPod(obj)
		}
	}
	w.cniAssign("vxlan-tunnel-addr-node-b", "node-b", map[string]string{ipam.AttributeNode: "node-b", ipam.AttributeType: tunnelType}, false, apiv3.IPPoolAllowedUseTunnel)
	w.deliverPodsLive()
	w.deliverNodesLive()

	w.ctrl = w.newController()
	stop := make(chan struct{})
	done := make(chan struct{})
	go func() {
		defer close(done)
		w.ctrl.VerifRunLoop(stop)
	}()
	syncer := watchersyncer.New(w.gcBC, []watchersyncer.ResourceType{
		{ListInterface: model.ResourceListOptions{Kind: internalapi.KindNode}},
		{ListInterface: model.BlockListOptions{}},
		{ListInterface: model.ResourceListOptions{Kind: apiv3.KindIPPool}},
	}, feed{w})
	syncer.Start()

	// Concurrent activity while the loop runs.
	w.apiDelNode("node-b")
	for _, k := range sortedKeys(w.pods) {
		if p := w.pods[k]; p.node == "node-b" {
			w.apiDelPod(k)
			delete(w.pods, k)
		}
	}
	w.deleteCalicoNode("node-b")
	w.deliverPodsLive()
	w.deliverNodesLive()
	for i := 0; i < 6; i++ {
		time.Sleep(150 * time.Millisecond)
		nodes := w.usableNodes()
		w.createPod("ns1", "late-"+string(rune('a'+i)), nodes[i%len(nodes)])
		if p := w.pickPod(); p != nil && i%2 == 0 {
			w.apiDelPod(p.key)
			w.stopSandbox(p, 50)
			delete(w.pods, p.key)
		}
		w.deliverPodsLive()
	}
	// Wait (bounded) for the node-b clean-up to happen; not a verdict if it does not.
	deadline := time.Now().Add(6 * time.Second)
	for time.Now().Before(deadline) {
		left := 0
		for _, a := range w.storeAllocs() {
			if a.attrs[ipam.AttributeNode] == "node-b" {
				left++
			}
		}
		if left == 0 {
			c.Count("live_node_cleanups_completed", 1)
			break
		}
		time.Sleep(100 * time.Millisecond)
	}
	syncer.Stop()
	close(stop)
	select {
	case <-done:
	case <-time.After(30 * time.Second):
		c.Inconclusive("live controller loop did not stop")
		return
	}
	c.Count("live_runs", 1)

	// Verdict: every pod the API server holds with a sandbox still has all its addresses, and a
	// host that Kubernetes does not orchestrate keeps its tunnel address while its Calico Node exists.
	have := w.storeAllocs()
	for _, bn := range w.bareNodes() {
		found, had := false, false
		for _, o := range w.ops {
			had = had || (strings.Contains(o, "bare-node-create "+bn) && !strings.Contains(o, "[]"))
		}
		for _, a := range have {
			found = found || (a.attrs[ipam.AttributeNode] == bn && a.attrs[ipam.AttributeType] != "")
		}
		if had {
			c.Count("live_addresses_checked", 1)
			if !found {
				w.viol("live-address-freed", map[string]any{"node": bn}, "live run: the tunnel address of %s, whose Calico Node resource exists, is no longer allocated", bn)
				return
			}
		}
	}
	for _, k := range sortedKeys(w.pods) {
		p := w.pods[k]
		if p.handle == "" || w.apiGetPod(k) == nil {
			continue
		}
		for _, ip := range p.ips {
			c.Count("live_addresses_checked", 1)
			if a, ok := have[ip]; !ok || a.handle != p.handle {
				w.viol("live-address-freed", map[string]any{"pod": k, "ip": ip, "handle": p.handle},
					"live run: address %s of pod %s (handle %s), which exists on the API server, is no longer allocated", ip, k, p.handle)
				return
			}
		}
	}
}

func (w *world) deliverPodsLive() {
	for _, e := range w.podQ {
		if e.del {
			_ = w.podIdx.Delete(e.pod)
			if w.ctrl != nil {
				w.ctrl.OnKubernetesPodDeleted(e.pod)
			}
		} else {
			_ = w.podIdx.Add(e.pod)
		}
	}
	w.podQ = nil
}

func (w *world) deliverNodesLive() {
	for _, e := range w.nodeQ {
		if e.del {
			_ = w.nodeIdx.Delete(e.node)
			if w.ctrl != nil {
				w.ctrl.OnKubernetesNodeDeleted(e.node)
			}
		} else {
			_ = w.nodeIdx.Add(e.node)
		}
	}
	w.nodeQ = nil
}

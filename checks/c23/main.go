// C23 — the IPAM garbage collector never frees an address that is still in use.
//
// Drives the real kube-controllers IPAM controller (node.NewIPAMController) with the REAL calico IPAM
// client on an in-memory CAS datastore (internal/casstore), stepped through a verif export instead of
// its channels and timers.  The harness is the Kubernetes API server (authoritative pod/node maps
// served through a fake clientset), the informers (pod/node indexers that receive the API events in
// order but with lag), the syncer (ordered stream of every committed block / calico-node write,
// delivered with lag), the CNI plugin (real AutoAssign / ReleaseByHandle on another client) and the
// clock (virtual time: the controller's and the store's timestamps are shifted back).
//
// Observed at the IPAM client boundary: ReleaseIPs, ReleaseByHandle, ReleaseBlockAffinity,
// ReleaseHostAffinities.  Oracle (see oracle.go):
//   - a pod address is released only if no live pod justifies it: judged on the authoritative API
//     server where the controller itself re-reads it (Kubernetes node name known), else on the pod
//     cache it was shown; end-to-end, no justified address disappears from the datastore in a sync;
//   - if the node was present in what the controller was shown at every scan since the allocation was
//     last delivered / seen justified, the release happens at least one grace period (minus 60 s
//     slack) after a scan that saw it unjustified; never when GC is disabled;
//   - the release names the handle and sequence number of the allocation as last delivered;
//   - a ReleaseIPs call names all addresses of a handle that the controller was shown, or none;
//   - tunnel addresses only when the node is absent from what the controller was shown; host
//     affinities only then and when nothing valid (by the shown pod cache) or of unknown source
//     remains on the node;
//   - an empty block's affinity only if the blocks delivered so far give that node another block,
//     the delivered block is empty, and a sync at least a grace period earlier already saw it empty;
//   - after every delivery and sync the controller's bookkeeping maps equal the delivered blocks.
//
// Deliberately not generated:
//   - re-creating a non-Kubernetes ("bare") Calico Node under a name whose resource was deleted (raw
//     datastore delete, IPAM data left behind) earlier in the same history.  On the unchanged tree that
//     history can release the tunnel address of the re-created, existing node: the address was correctly
//     confirmed as leaked while the resource was gone, ReleaseIPs kept failing, and after the re-creation
//     checkAllocations skips the node (ErrorNotKubernetes) so nothing refreshes a.knode ("" = gone) or
//     clears the entry in confirmedLeaks; garbageCollectKnownLeaks then releases it (tunnel validity is
//     a.knode != "").  Witness: /verif/replays/C23/4-quick-271-4b08.json.  Judged by the coordinator to
//     be at the edge of what the component can legitimately receive (1 in 2400 histories).
//
// Deliberately not checked:
//   - KubeVirt VM allocations (none are generated) and Windows reserved handles;
//   - liveness (that leaks are eventually collected) and metrics values;
//   - an "evicted pod that never reported an IP": the code keeps it, the reading used here would
//     allow either;
//   - the exact moment leak timers restart after a justified observation that the oracle could not
//     be sure the controller made (dirty-only scans, failed node look-ups): the oracle then uses an
//     earlier anchor, i.e. demands less.
package main

import (
	"context"
	"fmt"
	"io"
	"os"
	"runtime"
	"sort"
	"strings"
	"time"

	apiv3 "github.com/projectcalico/api/pkg/apis/projectcalico/v3"
	"github.com/sirupsen/logrus"
	v1 "k8s.io/api/core/v1"

	"github.com/projectcalico/calico/libcalico-go/lib/apis/internalapi"
	bapi "github.com/projectcalico/calico/libcalico-go/lib/backend/api"
	"github.com/projectcalico/calico/libcalico-go/lib/backend/model"
	"github.com/projectcalico/calico/libcalico-go/lib/ipam"
	cnet "github.com/projectcalico/calico/libcalico-go/lib/net"

	"verif/internal/casstore"
	"verif/internal/harness"
)

var podNames = []string{"web-0", "web-1", "db-0", "job-a", "job-b", "cache-0"}

// ---- CNI plugin side ----

func (w *world) cniAssign(handle, host string, attrs map[string]string, v6 bool, use apiv3.IPPoolAllowedUse) []string {
	args := ipam.AutoAssignArgs{Num4: 1, HandleID: &handle, Attrs: attrs, Hostname: host, IntendedUse: use}
	if v6 {
		args.Num6 = 1
	}
	a4, a6, err := w.cni.AutoAssign(context.Background(), args)
	var ips []string
	for _, as := range []*ipam.IPAMAssignments{a4, a6} {
		if as == nil {
			continue
		}
		for _, n := range as.IPs {
			ips = append(ips, n.IP.String())
		}
	}
	if err != nil {
		w.c.Count("cni_assign_errors", 1)
	}
	return ips
}

func (w *world) newHandle() string {
	w.handleSeq++
	return fmt.Sprintf("k8s-pod-network.%05x", w.handleSeq*7919)
}

func (w *world) usableNodes() []string {
	var out []string
	for _, n := range w.apiNodeNames() {
		if w.calicoNodeExists(n) {
			out = append(out, n)
		}
	}
	return out
}

var bareNames = []string{"bm-0", "bm-1"}

var tunnelKinds = []struct{ prefix, typ string }{
	{"vxlan-tunnel-addr-", ipam.AttributeTypeVXLAN},
	{"ipip-tunnel-addr-", ipam.AttributeTypeIPIP},
	{"wireguard-tunnel-addr-", ipam.AttributeTypeWireguard},
}

// bareNodes lists the existing Calico nodes that Kubernetes does not orchestrate.
func (w *world) bareNodes() []string {
	var out []string
	for _, n := range bareNames {
		if in, k := w.calicoNodeInStore(n); in && k == "" {
			out = append(out, n)
		}
	}
	return out
}

func (w *world) startSandbox(p *podRec) bool {
	p.handle = w.newHandle()
	attrs := map[string]string{ipam.AttributePod: p.name, ipam.AttributeNamespace: p.ns, ipam.AttributeNode: p.node,
		ipam.AttributeTimestamp: "2026-01-01 00:00:00 +0000 UTC"}
	p.ips = w.cniAssign(p.handle, p.node, attrs, w.dual && w.c.R.Intn(2) == 0, apiv3.IPPoolAllowedUseWorkload)
	w.c.Count("pod_addresses_assigned", int64(len(p.ips)))
	return len(p.ips) > 0
}

func (w *world) stopSandbox(p *podRec, leakP int) {
	if p.handle == "" {
		return
	}
	if w.c.R.Intn(100) < leakP {
		w.c.Count("leaked_handles", 1)
		w.logf("  (CNI DEL lost: handle %s %v leaks)", p.handle, p.ips)
	} else {
		_ = w.cni.ReleaseByHandle(context.Background(), p.handle)
	}
	p.handle, p.ips = "", nil
}

func (w *world) pickPod() *podRec {
	ks := sortedKeys(w.pods)
	if len(ks) == 0 {
		return nil
	}
	return w.pods[ks[w.c.R.Intn(len(ks))]]
}

func (w *world) createPod(ns, name, nodeName string) {
	p := &podRec{key: podKey(ns, name), ns: ns, name: name, node: nodeName}
	if !w.startSandbox(p) {
		return
	}
	obj := w.newPodObj(ns, name, nodeName)
	if w.c.R.Intn(100) < 40 {
		setPodIPs(obj, p.ips)
	}
	w.apiSetPod(obj)
	w.pods[p.key] = p
	w.logf("pod-create %s on %s handle=%s ips=%v reported=%v", p.key, nodeName, p.handle, p.ips, obj.Status.PodIP != "")
	w.c.Count("pods_created", 1)
}

func (w *world) userStep() {
	r := w.c.R
	switch x := r.Intn(100); {
	case x < 30: // new pod
		nodes := w.usableNodes()
		if len(nodes) == 0 {
			return
		}
		ns := []string{"ns1", "ns2"}[r.Intn(2)]
		name := podNames[r.Intn(len(podNames))]
		if _, ok := w.pods[podKey(ns, name)]; ok {
			return
		}
		w.createPod(ns, name, nodes[r.Intn(len(nodes))])
	case x < 40: // kubelet reports the pod IPs (sometimes different ones)
		p := w.pickPod()
		if p == nil {
			return
		}
		obj := w.apiGetPod(p.key)
		if obj == nil {
			return
		}
		obj = obj.DeepCopy()
		ips := p.ips
		switch y := r.Intn(20); {
		case y < 2:
			ips = []string{fmt.Sprintf("192.0.2.%d", 1+r.Intn(200))}
		case y < 5 && len(ips) > 1:
			// a cluster that is not dual-stack on the Kubernetes side reports one family only
			ips = ips[:1]
		}
		if obj.Status.Phase == v1.PodFailed || obj.Status.Phase == v1.PodSucceeded {
			return
		}
		setPodIPs(obj, ips)
		w.apiSetPod(obj)
		w.logf("pod-status %s reports %v", p.key, ips)
	case x < 56: // pod deleted
		p := w.pickPod()
		if p == nil {
			return
		}
		w.apiDelPod(p.key)
		w.logf("pod-delete %s", p.key)
		w.stopSandbox(p, 65)
		delete(w.pods, p.key)
		w.c.Count("pods_deleted", 1)
	case x < 63: // same name comes back (StatefulSet / rescheduled), maybe on another node
		p := w.pickPod()
		nodes := w.usableNodes()
		if p == nil || len(nodes) == 0 {
			return
		}
		w.apiDelPod(p.key)
		w.stopSandbox(p, 60)
		delete(w.pods, p.key)
		w.logf("pod-recreate %s", p.key)
		w.createPod(p.ns, p.name, nodes[r.Intn(len(nodes))])
		w.c.Count("pods_recreated", 1)
	case x < 68: // sandbox restarted: new handle and address, status still shows the old one for a while
		p := w.pickPod()
		if p == nil || !w.calicoNodeExists(p.node) {
			return
		}
		w.stopSandbox(p, 40)
		ok := w.startSandbox(p)
		w.logf("pod-sandbox-restart %s new handle=%s ips=%v", p.key, p.handle, p.ips)
		if !ok {
			w.apiDelPod(p.key)
			delete(w.pods, p.key)
		}
	case x < 74: // pod finishes
		p := w.pickPod()
		if p == nil {
			return
		}
		obj := w.apiGetPod(p.key)
		if obj == nil {
			return
		}
		obj = obj.DeepCopy()
		if r.Intn(2) == 0 {
			obj.Status.Phase, obj.Status.Reason = v1.PodFailed, "Evicted"
		} else {
			obj.Status.Phase = v1.PodSucceeded
		}
		w.apiSetPod(obj)
		w.logf("pod-finished %s phase=%s", p.key, obj.Status.Phase)
		w.stopSandbox(p, 50)
	case x < 80: // node goes away
		nodes := w.apiNodeNames()
		if len(nodes) <= 1 {
			return
		}
		n := nodes[r.Intn(len(nodes))]
		w.apiDelNode(n)
		for _, k := range sortedKeys(w.pods) {
			if p := w.pods[k]; p.node == n {
				w.apiDelPod(k)
				w.stopSandbox(p, 85)
				delete(w.pods, k)
			}
		}
		rm := r.Intn(2) == 0
		if rm {
			w.deleteCalicoNode(n)
		}
		w.logf("node-delete %s calico-node-removed=%v", n, rm)
		w.c.Count("nodes_deleted", 1)
	case x < 85: // node (re)joins
		all := []string{"node-a", "node-b", "node-c", "node-d"}
		n := all[r.Intn(len(all))]
		if !w.calicoNodeExists(n) {
			if err := w.createCalicoNode(n); err != nil {
				return
			}
		}
		w.mu.Lock()
		_, have := w.apiNodes[n]
		w.mu.Unlock()
		if !have {
			w.apiSetNode(n)
			w.logf("node-create %s", n)
		}
	case x < 88: // a calico node resource whose Kubernetes node is long gone is cleaned up; bare hosts come and go
		if r.Intn(3) == 0 {
			n := bareNames[r.Intn(len(bareNames))]
			if in, _ := w.calicoNodeInStore(n); in {
				if r.Intn(3) == 0 { // decommissioned without cleaning up its IPAM data
					w.deleteCalicoNode(n)
					w.bareDeleted[n] = true
					w.logf("bare-node-delete %s", n)
				}
			} else if w.bareDeleted[n] {
				// deliberately not generated: see the header comment
				return
			} else if err := w.createBareNode(n, r.Intn(2) == 0); err == nil {
				w.logf("bare-node-create %s", n)
				w.c.Count("non_kubernetes_nodes_created", 1)
			}
			return
		}
		for _, n := range []string{"node-a", "node-b", "node-c", "node-d"} {
			w.mu.Lock()
			_, have := w.apiNodes[n]
			w.mu.Unlock()
			if !have && w.calicoNodeExists(n) && r.Intn(2) == 0 {
				w.deleteCalicoNode(n)
				w.logf("calico-node-delete %s", n)
				return
			}
		}
	case x < 92: // tunnel address
		nodes := w.usableNodes()
		if bare := w.bareNodes(); len(bare) > 0 && (len(nodes) == 0 || r.Intn(3) == 0) {
			nodes = bare
		}
		if len(nodes) == 0 {
			return
		}
		n := nodes[r.Intn(len(nodes))]
		tk := tunnelKinds[r.Intn(len(tunnelKinds))]
		h := tk.prefix + n
		if r.Intn(2) == 0 {
			// The tunnel address is released and claimed again under the same handle: same address, new
			// sequence number (a static re-claim with AssignIP), or simply released before a new one is taken.
			var cur []string
			for _, a := range w.storeAllocs() {
				if a.handle == h {
					cur = append(cur, a.ip)
				}
			}
			sort.Strings(cur)
			if err := w.cni.ReleaseByHandle(context.Background(), h); err == nil {
				w.logf("tunnel-release %s %v", n, cur)
				if r.Intn(3) != 0 {
					for _, ip := range cur {
						hh := h
						err := w.cni.AssignIP(context.Background(), ipam.AssignIPArgs{IP: *cnet.ParseIP(ip), HandleID: &hh, Hostname: n,
							Attrs: map[string]string{ipam.AttributeNode: n, ipam.AttributeType: tk.typ}, IntendedUse: apiv3.IPPoolAllowedUseTunnel})
						w.logf("tunnel-reclaim %s %s err=%v", n, ip, err != nil)
					}
					return
				}
			}
		}
		ips := w.cniAssign(h, n, map[string]string{ipam.AttributeNode: n, ipam.AttributeType: tk.typ}, false, apiv3.IPPoolAllowedUseTunnel)
		w.logf("tunnel-assign %s %s %v", n, tk.typ, ips)
		w.c.Count("tunnel_addresses_assigned", int64(len(ips)))
	case x < 95: // an empty block is handed from one node to another (ReleaseAffinity + ClaimAffinity)
		nodes := append(w.usableNodes(), w.bareNodes()...)
		type eb struct{ cidr, host string }
		var empties []eb
		w.st.View(func(v casstore.View) {
			for _, kvp := range v.Blocks() {
				b := kvp.Value.(*model.AllocationBlock)
				if _, nonNil, _ := blockAllocs("", b); nonNil == 0 && b.Affinity != nil && strings.HasPrefix(*b.Affinity, "host:") {
					empties = append(empties, eb{kvp.Key.(model.BlockKey).CIDR.String(), strings.TrimPrefix(*b.Affinity, "host:")})
				}
			}
		})
		if len(empties) == 0 || len(nodes) < 2 {
			return
		}
		e := empties[r.Intn(len(empties))]
		to := nodes[r.Intn(len(nodes))]
		if to == e.host {
			return
		}
		_, cidr, err := cnet.ParseCIDR(e.cidr)
		if err != nil {
			return
		}
		if err := w.cni.ReleaseAffinity(context.Background(), *cidr, e.host, true); err != nil {
			return
		}
		_, _, err = w.cni.ClaimAffinity(context.Background(), *cidr, ipam.AffinityConfig{AffinityType: ipam.AffinityTypeHost, Host: to})
		w.logf("block-handover %s from %s to %s err=%v", e.cidr, e.host, to, err != nil)
		w.c.Count("block_handovers", 1)
	case x < 96: // allocation of unknown source on a node (e.g. an OpenStack workload on a bare host)
		nodes := w.usableNodes()
		if bare := w.bareNodes(); len(bare) > 0 && r.Intn(4) == 0 {
			nodes = bare
		}
		if len(nodes) == 0 {
			return
		}
		n := nodes[r.Intn(len(nodes))]
		ips := w.cniAssign(fmt.Sprintf("manual-%d", r.Intn(1000)), n, map[string]string{ipam.AttributeNode: n}, false, apiv3.IPPoolAllowedUseWorkload)
		w.logf("manual-assign on %s %v", n, ips)
	default: // CNI DEL for a pod that still exists on the API server arrives (delete in progress)
		p := w.pickPod()
		if p == nil {
			return
		}
		w.stopSandbox(p, 0)
		w.logf("cni-del-early %s", p.key)
	}
}

// ---- deliveries ----

func (w *world) deliverSyncer(max int) {
	n := 0
	for n < max {
		w.qmu.Lock()
		if len(w.sq) == 0 {
			w.qmu.Unlock()
			break
		}
		e := w.sq[0]
		w.sq = w.sq[1:]
		w.qmu.Unlock()
		w.deliverSync(e)
		n++
	}
	if n > 0 {
		w.logf("deliver-syncer %d", n)
		w.checkBookkeeping("after syncer delivery")
	}
}

// resyncSyncer models a watch failure: the pending events are lost and the syncer re-lists, so the
// controller is shown the current state of every block and calico node (and deletions of the ones
// that vanished) without the intermediate revisions.
func (w *world) resyncSyncer() {
	w.qmu.Lock()
	w.sq = nil
	w.qmu.Unlock()
	var cur []syncEvt
	have := map[string]bool{}
	haveNode := map[string]bool{}
	w.st.View(func(v casstore.View) {
		for _, kvp := range v.List(model.ResourceListOptions{Kind: internalapi.KindNode}) {
			cur = append(cur, syncEvt{kvp: *kvp})
			haveNode[kvp.Key.(model.ResourceKey).Name] = true
		}
		for _, kvp := range v.Blocks() {
			cur = append(cur, syncEvt{kvp: *kvp})
			have[kvp.Key.(model.BlockKey).CIDR.String()] = true
		}
	})
	n := 0
	for _, cidr := range sortedKeys(w.V) {
		if !have[cidr] {
			w.deliverSync(syncEvt{kvp: model.KVPair{Key: w.V[cidr].key}})
			n++
		}
	}
	for _, name := range sortedKeys(w.delivNodes) {
		if !haveNode[name] {
			w.deliverSync(syncEvt{kvp: model.KVPair{Key: model.ResourceKey{Kind: internalapi.KindNode, Name: name}}})
			n++
		}
	}
	for _, e := range cur {
		w.deliverSync(e)
		n++
	}
	w.logf("syncer-resync (%d updates, intermediate revisions skipped)", n)
	w.c.Count("syncer_resyncs", 1)
	w.checkBookkeeping("after syncer resync")
}

func (w *world) deliverPods(max int) {
	n := 0
	for ; n < max && len(w.podQ) > 0; n++ {
		e := w.podQ[0]
		w.podQ = w.podQ[1:]
		if e.del {
			_ = w.podIdx.Delete(e.pod)
			w.ctrl.VerifPodDeleted(e.pod)
		} else {
			_ = w.podIdx.Add(e.pod) // Add replaces
		}
	}
	if n > 0 {
		w.logf("deliver-pod-events %d", n)
		w.c.Count("pod_events_delivered", int64(n))
	}
}

func (w *world) deliverNodes(max int) {
	n := 0
	del := false
	for ; n < max && len(w.nodeQ) > 0; n++ {
		e := w.nodeQ[0]
		w.nodeQ = w.nodeQ[1:]
		if e.del {
			_ = w.nodeIdx.Delete(e.node)
			del = true
		} else {
			_ = w.nodeIdx.Add(e.node)
		}
	}
	if del {
		w.ctrl.VerifFullScanNextSync("Batch node deletion")
	}
	if n > 0 {
		w.logf("deliver-node-events %d", n)
		w.c.Count("node_events_delivered", int64(n))
	}
}

func (w *world) advance(d time.Duration) {
	w.vnow += int64(d.Seconds())
	w.ctrl.VerifShiftTime(d)
	w.st.ShiftTimestamps(d)
	w.logf("advance %s", d)
}

// start creates a controller and gives it the syncer's initial snapshot followed by InSync.  The
// informers belong to the same process, so they restart from the API server's current state too.
func (w *world) start(first bool) {
	w.ctrl = w.newController()
	w.V = map[string]*vblock{}
	w.delivNodes = map[string]string{}
	w.syncTimes = nil
	w.qmu.Lock()
	w.sq = nil
	w.qmu.Unlock()
	w.podQ, w.nodeQ = nil, nil
	_ = w.podIdx.Replace(nil, "")
	_ = w.nodeIdx.Replace(nil, "")
	w.mu.Lock()
	for _, k := range sortedKeys(w.apiPods) {
		_ = w.podIdx.Add(w.apiPods[k].DeepCopy())
	}
	for _, k := range sortedKeys(w.apiNodes) {
		_ = w.nodeIdx.Add(w.apiNodes[k].DeepCopy())
	}
	w.mu.Unlock()
	for _, p := range basePools {
		w.ctrl.VerifHandleUpdate(model.KVPair{Key: model.ResourceKey{Kind: apiv3.KindIPPool, Name: p.Name}, Value: p.DeepCopy()})
	}
	var snap []syncEvt
	w.st.View(func(v casstore.View) {
		for _, kvp := range v.List(model.ResourceListOptions{Kind: internalapi.KindNode}) {
			snap = append(snap, syncEvt{kvp: *kvp})
		}
		for _, kvp := range v.Blocks() {
			snap = append(snap, syncEvt{kvp: *kvp})
		}
	})
	for _, e := range snap {
		w.deliverSync(e)
	}
	w.ctrl.VerifHandleUpdate(bapi.InSync)
	if !first {
		w.logf("controller-restart (snapshot of %d objects)", len(snap))
		w.c.Count("controller_restarts", 1)
	}
	w.checkBookkeeping("after start")
}

func run(c *harness.Case) {
	t0 := time.Now()
	if os.Getenv("VERIF_C23_TIMING") != "" {
		defer func() { fmt.Fprintf(os.Stderr, "case %d took %.2fs\n", c.Index, time.Since(t0).Seconds()) }()
	}
	w, err := newWorld(c)
	if err != nil {
		c.Inconclusive("set-up failed: " + err.Error())
		return
	}
	r := c.R
	for _, n := range []string{"node-a", "node-b", "node-c"} {
		if err := w.createCalicoNode(n); err != nil {
			c.Inconclusive("set-up failed: " + err.Error())
			return
		}
		w.apiSetNode(n)
	}
	if r.Intn(10) < 7 {
		// a host that runs calico-node but is not a Kubernetes node, with its tunnel address
		n := bareNames[0]
		if err := w.createBareNode(n, r.Intn(2) == 0); err != nil {
			c.Inconclusive("set-up failed: " + err.Error())
			return
		}
		c.Count("non_kubernetes_nodes_created", 1)
		tk := tunnelKinds[r.Intn(len(tunnelKinds))]
		ips := w.cniAssign(tk.prefix+n, n, map[string]string{ipam.AttributeNode: n, ipam.AttributeType: tk.typ}, false, apiv3.IPPoolAllowedUseTunnel)
		w.logf("bare-node-create %s tunnel %s %v", n, tk.typ, ips)
		c.Count("tunnel_addresses_assigned", int64(len(ips)))
	}
	if c.Index%40 == 39 {
		w.liveRun()
		c.NonTrivial("live", c.Index)
		return
	}
	// some history before the controller starts
	for i := r.Intn(8); i > 0; i-- {
		w.userStep()
	}
	w.start(true)

	steps := 40 + r.Intn(c.Pick(30, 60))
	lazy := r.Intn(4) == 0
	for i := 0; i < steps && !c.Failed(); i++ {
		switch x := r.Intn(100); {
		case x < 34:
			w.userStep()
		case x < 48:
			if lazy {
				// a syncer whose watch keeps failing: it only ever re-lists, so the controller sees
				// snapshots of the latest revisions and never the revisions in between
				if r.Intn(2) == 0 {
					w.resyncSyncer()
				}
				continue
			}
			w.deliverSyncer(1 + r.Intn(6))
		case x < 58:
			w.deliverPods(1 + r.Intn(4))
		case x < 64:
			w.deliverNodes(1 + r.Intn(2))
		case x < 76:
			w.advance([]time.Duration{time.Minute, 3 * time.Minute, 5 * time.Minute, 8 * time.Minute, 16 * time.Minute}[r.Intn(5)])
		case x < 94:
			w.qmu.Lock()
			w.faultP = []float64{0, 0, 0, 0.08, 0.25}[r.Intn(5)]
			w.qmu.Unlock()
			w.podGetErr = []float64{0, 0, 0, 0.2}[r.Intn(4)]
			w.doSync(r.Intn(3) == 0)
			w.qmu.Lock()
			w.faultP = 0
			w.qmu.Unlock()
		case x < 96:
			w.start(false)
		case x < 99:
			w.resyncSyncer()
		default:
			// everything catches up
			w.deliverSyncer(1000)
			w.deliverPods(1000)
			w.deliverNodes(1000)
		}
		if time.Since(t0) > 50*time.Second {
			c.Inconclusive("case ran too long on the wall clock for the virtual-time slack")
			return
		}
	}
	// drain: everything delivered, time passes, two fault-free full syncs (still judged)
	for k := 0; k < 2 && !c.Failed(); k++ {
		w.deliverSyncer(1000)
		w.deliverPods(1000)
		w.deliverNodes(1000)
		w.advance(16 * time.Minute)
		w.podGetErr = 0
		w.doSync(true)
	}
	if w.released > 0 {
		c.NonTrivial(strings.Join(w.ops, ";"))
	}
	shape := []string{}
	for _, a := range w.storeAllocs() {
		shape = append(shape, a.attrs[ipam.AttributeNode]+"|"+a.attrs[ipam.AttributePod]+"|"+a.attrs[ipam.AttributeType])
	}
	sort.Strings(shape)
	c.Distinct("final_allocation_shapes", strings.Join(shape, ","))
	head := w.ops
	if len(head) > 16 {
		head = head[:16]
	}
	var errs []string
	for _, o := range w.ops {
		if strings.Contains(o, "error:") && len(errs) < 3 {
			errs = append(errs, o)
		}
	}
	c.Sample(map[string]any{"release_errors": errs, "grace_s": graceS(w), "cooldown_s": w.cooldown, "dual_stack": w.dual, "n_ops": len(w.ops), "released": w.released, "ops_head": head})
}

func main() {
	logrus.SetOutput(io.Discard)
	logrus.SetLevel(logrus.PanicLevel)
	// ReleaseIPs works on up to GOMAXPROCS blocks in parallel; one P makes that sequential so that a
	// case replays identically.  vcheck runs one worker process per core anyway.
	runtime.GOMAXPROCS(1)
	harness.Main(harness.Check{
		ID:    "C23",
		Level: "exploration",
		Rule: "one case = one PRNG history of 40-70 (thorough 40-100) steps on 3-4 nodes, a /27 IPv4 pool with /30 blocks (and a /123 IPv6 pool with /126 blocks for dual-stack handles), leak grace 15m/5m/0/unset, optional 120 s IP cooldown: " +
			"pod create / status report (sometimes a foreign IP or one family only) / delete with lost CNI DEL / same-name re-create / sandbox restart / finish (Evicted, Succeeded), node delete (with or without the calico node) and re-join, " +
			"tunnel addresses (assign, release, re-claim under the same handle), unknown-source allocations, hand-over of an empty block to another node; " +
			"in-order delivery with lag of every committed block / calico-node revision, of pod and of node events; syncer re-lists that skip intermediate revisions (a quarter of the cases only ever re-list); virtual time advances of 1-16 min; " +
			"syncs (dirty-only and periodic full) with datastore faults on the controller's client and API Get errors; controller restarts; " +
			"every 40th case runs the real main loop and watcher syncer instead (race detection). Non-trivial = the controller released at least one address; distinct by operation list",
		Assumptions: []string{
			"internal/casstore (etcd-like CAS semantics) under the real libcalico-go IPAM client; the CNI side uses the same real client without faults",
			"the harness's Kubernetes API: pods/nodes maps served through Pods().Get on a fake clientset; informer caches receive its events in order with arbitrary lag; no pod annotations, no host-network pods",
			"virtual time by shifting the controller's leakedAt / block-empty stamps (verif export) and the store's ReleasedAt stamps; a case must finish within 50 s of wall time (else inconclusive) for the 60 s slack to be sound",
			"which nodes a sync scans is read from the controller's dirty set through the export, only to avoid demanding more than the controller could have observed",
			"GOMAXPROCS=1 in the worker so that ReleaseIPs' per-block goroutines run one after the other",
		},
		Cases: func(tier string) int {
			if tier == "thorough" {
				return 12000
			}
			return 480
		},
		Run: run,
		Floors: map[string]int64{
			"syncs": 500, "released_addresses_judged": 150, "release_judged_against_api": 130, "grace_checks": 100, "bookkeeping_compares": 900,
			"block_updates_delivered": 1000, "multi_address_handle_checks": 35, "host_affinity_release_checks": 60, "tunnel_release_checks": 4,
			"block_affinity_release_checks": 10, "stale_cache_would_release_live_address": 5, "syncer_resyncs": 50, "live_runs": 1,
		},
	})
}

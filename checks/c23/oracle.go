package main

// Oracle for C23.  V is the reference view "what the controller has been shown and should therefore
// be tracking" (blocks delivered by the syncer stream, minus allocations whose release the IPAM
// client acknowledged, minus blocks whose affinity release succeeded).  Every judgement about what
// the controller may know is made against V and the informer caches; justification by a live pod
// is judged against the authoritative API server only on the path where the controller itself
// re-reads the API server (allocation with a known Kubernetes node name).

import (
	"fmt"
	"sort"
	"strings"

	v1 "k8s.io/api/core/v1"

	"github.com/projectcalico/calico/kube-controllers/pkg/controllers/node"
	"github.com/projectcalico/calico/libcalico-go/lib/apis/internalapi"
	bapi "github.com/projectcalico/calico/libcalico-go/lib/backend/api"
	"github.com/projectcalico/calico/libcalico-go/lib/backend/model"
	"github.com/projectcalico/calico/libcalico-go/lib/ipam"
)

type valloc struct {
	salloc
	anchor     int64   // last time it was delivered / re-sequenced / observed justified at a scan
	absentSeen bool    // at some scan since anchor the node was absent from what the controller was shown
	scans      []int64 // scans since anchor at which it was shown unjustified
}

func (a *valloc) id() string   { return a.handle + "/" + a.ip }
func (a *valloc) node() string { return a.attrs[ipam.AttributeNode] }
func (a *valloc) isPod() bool {
	return a.attrs[ipam.AttributeNamespace] != "" && a.attrs[ipam.AttributePod] != ""
}
func (a *valloc) isTunnel() bool {
	switch a.attrs[ipam.AttributeType] {
	case ipam.AttributeTypeIPIP, ipam.AttributeTypeVXLAN, ipam.AttributeTypeVXLANV6, ipam.AttributeTypeWireguard, ipam.AttributeTypeWireguardV6:
		return true
	}
	return false
}

type vblock struct {
	key        model.BlockKey
	cidr       string
	host       string // affinity host ("" if none)
	nonNil     int    // allocated ordinals, including ones in cooldown
	cold       bool
	allocs     map[string]*valloc
	emptySince int64 // time it was first shown empty (since it was last shown in use); -1 if not empty
}

// justifies: does pod p (may be nil) justify allocation a, whose Kubernetes node name is knode?
// Reading of the property: a pod of that namespace/name exists, has not moved to another node, is not
// finished (Failed incl. Evicted / Succeeded), and either reports no IP yet or reports this IP.
func justifies(p *v1.Pod, a *valloc, knode string) bool {
	if p == nil {
		return false
	}
	if p.Spec.NodeName != "" && knode != "" && p.Spec.NodeName != knode {
		return false
	}
	if p.Status.Phase == v1.PodFailed || p.Status.Phase == v1.PodSucceeded {
		return false
	}
	if p.Status.PodIP == "" || len(p.Status.PodIPs) == 0 {
		return true
	}
	for _, ip := range p.Status.PodIPs {
		if ip.IP == a.ip {
			return true
		}
	}
	return false
}

func (w *world) shownPod(ns, name string) *v1.Pod {
	o, ok, _ := w.podIdx.GetByKey(podKey(ns, name))
	if !ok {
		return nil
	}
	return o.(*v1.Pod)
}

func (w *world) shownNodeExists(k string) bool {
	_, ok, _ := w.nodeIdx.GetByKey(k)
	return ok
}

// nodeState is what the controller can determine about the owner node of an allocation / block.
//   - Kubernetes node: name from the mapping it was delivered, else from a direct datastore read of
//     the Calico Node; the node exists iff the node cache it was shown holds that name.
//   - Calico Node resource present in the datastore without a k8s orchRef (not orchestrated by
//     Kubernetes): the controller always reads the datastore for these, so the datastore is the
//     truth; such a node exists as long as its resource does, and nothing of it may be cleaned up.
//   - no mapping and no resource: the node is gone.
func (w *world) nodeState(cnode string) (knode string, exists bool, bare bool) {
	if k := w.delivNodes[cnode]; k != "" {
		return k, w.shownNodeExists(k), false
	}
	inStore, k := w.calicoNodeInStore(cnode)
	switch {
	case !inStore:
		return "", false, false
	case k == "":
		return "", true, true
	}
	return k, w.shownNodeExists(k), false
}

func (w *world) justifiedShown(a *valloc, knode string) bool {
	return justifies(w.shownPod(a.attrs[ipam.AttributeNamespace], a.attrs[ipam.AttributePod]), a, knode)
}

func (w *world) justifiedAPI(a *valloc, knode string) bool {
	return justifies(w.apiGetPod(podKey(a.attrs[ipam.AttributeNamespace], a.attrs[ipam.AttributePod])), a, knode)
}

// ---- syncer deliveries ----

func (w *world) deliverSync(e syncEvt) {
	switch k := e.kvp.Key.(type) {
	case model.BlockKey:
		cidr := k.CIDR.String()
		if e.kvp.Value == nil {
			delete(w.V, cidr)
		} else {
			b := e.kvp.Value.(*model.AllocationBlock)
			as, nonNil, cold := blockAllocs(cidr, b)
			old := w.V[cidr]
			nb := &vblock{key: k, cidr: cidr, nonNil: nonNil, cold: cold, allocs: map[string]*valloc{}, emptySince: -1}
			if b.Affinity != nil {
				if h, ok := strings.CutPrefix(*b.Affinity, "host:"); ok {
					nb.host = h
				}
			}
			for _, sa := range as {
				na := &valloc{salloc: sa, anchor: w.vnow}
				if old != nil {
					if oa, ok := old.allocs[na.id()]; ok {
						if oa.seq != na.seq {
							w.c.Count("allocations_resequenced_in_place", 1)
						}
						if oa.seq == na.seq {
							// same allocation object in the controller: timers keep running
							na.anchor, na.absentSeen, na.scans = oa.anchor, oa.absentSeen, oa.scans
						}
					}
				}
				nb.allocs[na.id()] = na
			}
			if old != nil && old.host != "" && nb.host != "" && old.host != nb.host {
				w.c.Count("blocks_moved_between_nodes_in_place", 1)
			}
			if nb.host != "" && nonNil == 0 {
				nb.emptySince = w.vnow
				if old != nil && old.emptySince >= 0 {
					nb.emptySince = old.emptySince
				}
			}
			w.V[cidr] = nb
		}
		w.c.Count("block_updates_delivered", 1)
	case model.ResourceKey:
		if e.kvp.Value == nil {
			delete(w.delivNodes, k.Name)
		} else if n, ok := e.kvp.Value.(*internalapi.Node); ok {
			name := ""
			for _, o := range n.Spec.OrchRefs {
				if o.Orchestrator == "k8s" {
					name = o.NodeName
				}
			}
			w.delivNodes[k.Name] = name
		}
		w.c.Count("node_updates_delivered", 1)
	}
	w.ctrl.VerifHandleUpdate(e.kvp)
}

func (w *world) allV() []*valloc {
	var out []*valloc
	for _, cidr := range sortedKeys(w.V) {
		b := w.V[cidr]
		for _, id := range sortedKeys(b.allocs) {
			out = append(out, b.allocs[id])
		}
	}
	return out
}

func (w *world) findV(ip string) *valloc {
	for _, b := range w.V {
		for _, a := range b.allocs {
			if a.ip == ip {
				return a
			}
		}
	}
	return nil
}

func sortedKeys[T any](m map[string]T) []string {
	out := make([]string, 0, len(m))
	for k := range m {
		out = append(out, k)
	}
	sort.Strings(out)
	return out
}

// ---- one sync ----

func (w *world) doSync(periodic bool) {
	c := w.c
	if periodic {
		w.ctrl.VerifFullScanNextSync("verif periodic tick")
	}
	snap := w.ctrl.VerifSnapshot()
	scanned := map[string]bool{}
	if snap.FullSyncRequired {
		for _, n := range snap.NodesByBlock {
			scanned[n] = true
		}
		for n := range snap.AllocationsByNode {
			scanned[n] = true
		}
	} else {
		for _, n := range snap.DirtyNodes {
			scanned[n] = true
		}
	}
	w.qmu.Lock()
	w.faultsIn, w.nodeGetF = 0, 0
	w.qmu.Unlock()

	// Scan observations.  What the controller is shown does not change during the sync, so they are
	// computed up front: "unjustified" / "node absent" observations take effect immediately (the
	// same sync may release on them), "justified" observations are applied afterwards.
	var validSeen []*valloc
	if snap.SyncStatus == bapi.InSync {
		for _, a := range w.allV() {
			if !a.isPod() || a.isTunnel() || a.node() == "" || !scanned[a.node()] {
				continue
			}
			knode, exists, bare := w.nodeState(a.node())
			if bare {
				continue // the controller skips nodes that Kubernetes does not orchestrate
			}
			if w.justifiedShown(a, knode) {
				validSeen = append(validSeen, a)
				continue
			}
			if !exists {
				a.absentSeen = true
			}
			a.scans = append(a.scans, w.vnow)
			if exists && w.justifiedAPI(a, knode) && w.grace != nil && *w.grace > 0 && a.scans[0] <= w.vnow-int64(w.grace.Seconds()) {
				c.Count("stale_cache_would_release_live_address", 1)
			}
		}
	}
	before := w.storeAllocs()
	w.syncTimes = append(w.syncTimes, w.vnow)

	err := w.ctrl.VerifSyncIPAM()
	w.ctrl.VerifUpdateMetrics()

	c.Count("syncs", 1)
	if snap.FullSyncRequired {
		c.Count("syncs_full", 1)
	}
	if err != nil {
		c.Count("syncs_with_error", 1)
	}
	w.qmu.Lock()
	faults, nodeGetFaults := w.faultsIn, w.nodeGetF
	w.qmu.Unlock()
	c.Count("gc_datastore_faults", int64(faults))
	w.logf("sync periodic=%v full=%v scanned=%v faults=%d err=%v", periodic, snap.FullSyncRequired, sortedKeys(scanned), faults, err != nil)

	// Valid observations made by this sync reset the leak timers (unless a node lookup may have failed).
	if nodeGetFaults == 0 {
		for _, a := range validSeen {
			a.anchor, a.absentSeen, a.scans = w.vnow, false, nil
		}
	}

	// End-to-end: no address that a live pod on the API server justifies was freed by this sync.
	after := w.storeAllocs()
	for _, ip := range sortedKeys(before) {
		b := before[ip]
		if a, ok := after[ip]; ok && a.handle == b.handle && a.seq == b.seq {
			continue
		}
		va := &valloc{salloc: b}
		c.Count("addresses_freed_by_gc", 1)
		if !va.isPod() || va.isTunnel() {
			continue
		}
		knode := w.calicoNodeK8sName(va.node())
		if knode != "" && w.justifiedAPI(va, knode) {
			w.viol("live-address-freed", map[string]any{"ip": ip, "handle": b.handle, "attrs": b.attrs},
				"sync freed %s (handle %s) although pod %s/%s on the API server still justifies it", ip, b.handle,
				b.attrs[ipam.AttributeNamespace], b.attrs[ipam.AttributePod])
			return
		}
	}
	w.checkBookkeeping("after sync")
}

func (w *world) viol(key string, extra map[string]any, f string, a ...any) {
	d := map[string]any{"ops": w.ops, "grace_s": graceS(w), "cooldown_s": w.cooldown, "vnow": w.vnow}
	for k, v := range extra {
		d[k] = v
	}
	w.c.Violationf(key, d, f, a...)
}

func graceS(w *world) any {
	if w.grace == nil {
		return nil
	}
	return int64(w.grace.Seconds())
}

// ---- IPAM client boundary ----

func (w *world) onReleaseIPs(opts []ipam.ReleaseOptions) {
	c := w.c
	c.Count("release_ips_calls", 1)
	if w.live {
		return
	}
	snap := w.ctrl.VerifSnapshot()
	knodeOf := map[string]string{}
	for _, as := range snap.AllocationsByBlock {
		for _, a := range as {
			knodeOf[a.ID] = a.KNode
		}
	}
	desc := []string{}
	named := map[string]map[string]bool{} // handle -> ips
	for _, o := range opts {
		seq := "nil"
		if o.SequenceNumber != nil {
			seq = fmt.Sprint(*o.SequenceNumber)
		}
		desc = append(desc, fmt.Sprintf("%s handle=%s seq=%s", o.Address, o.Handle, seq))
		if named[o.Handle] == nil {
			named[o.Handle] = map[string]bool{}
		}
		named[o.Handle][o.Address] = true
	}
	w.logf("ReleaseIPs %v", desc)
	ex := func(a *valloc) map[string]any {
		m := map[string]any{"call": desc}
		if a != nil {
			m["allocation"] = map[string]any{"ip": a.ip, "handle": a.handle, "seq": a.seq, "attrs": a.attrs, "anchor": a.anchor,
				"absent_seen": a.absentSeen, "scans": a.scans}
			if a.isPod() {
				m["api_pod"] = w.apiGetPod(podKey(a.attrs[ipam.AttributeNamespace], a.attrs[ipam.AttributePod]))
				m["shown_pod"] = w.shownPod(a.attrs[ipam.AttributeNamespace], a.attrs[ipam.AttributePod])
			}
		}
		return m
	}
	for _, o := range opts {
		a := w.findV(o.Address)
		c.Count("released_addresses_judged", 1)
		if a == nil || a.handle != o.Handle {
			w.viol("release-of-allocation-never-shown", ex(a), "ReleaseIPs names %s with handle %q which is not an allocation the controller was shown", o.Address, o.Handle)
			return
		}
		if o.SequenceNumber == nil || *o.SequenceNumber != a.seq {
			w.viol("release-wrong-sequence-number", ex(a), "ReleaseIPs names %s with sequence number %v, the allocation shown has %d", o.Address, o.SequenceNumber, a.seq)
			return
		}
		cnode := a.node()
		oknode, nodeShown, bare := w.nodeState(cnode)
		switch {
		case a.isTunnel():
			c.Count("tunnel_release_checks", 1)
			if bare {
				c.Count("tunnel_release_checks_non_kubernetes_node", 1)
				w.viol("tunnel-address-released-node-exists", ex(a), "tunnel address %s of node %s released while its Calico Node resource (not orchestrated by Kubernetes) still exists", a.ip, cnode)
				return
			}
			if nodeShown {
				w.viol("tunnel-address-released-node-exists", ex(a), "tunnel address %s of node %s released while the node exists in what the controller was shown", a.ip, cnode)
				return
			}
			if in, _ := w.calicoNodeInStore(cnode); !in && w.delivNodes[cnode] == "" {
				c.Count("tunnel_released_calico_node_gone", 1)
			}
			// The owner of a tunnel address is the node, and the node is gone.  Whether something else
			// on the node currently looks valid is not judged: the controller decides that at the scan
			// that confirms the leak, and a later (failed, retried) release may find a different picture.
			if v := w.validOnNode(cnode, oknode); v != nil {
				c.Count("tunnel_released_while_something_valid_on_node", 1)
			}
		case a.isPod():
			ctrlK := knodeOf[a.id()]
			if ctrlK != "" {
				c.Count("release_judged_against_api", 1)
				if w.justifiedAPI(a, ctrlK) {
					w.viol("released-address-of-live-pod", ex(a), "%s (handle %s) released although pod %s/%s on the API server still justifies it",
						a.ip, a.handle, a.attrs[ipam.AttributeNamespace], a.attrs[ipam.AttributePod])
					return
				}
			} else {
				c.Count("release_judged_against_cache", 1)
				if w.justifiedShown(a, "") {
					w.viol("released-address-of-shown-pod", ex(a), "%s (handle %s) released although the pod cache shown to the controller still justifies it", a.ip, a.handle)
					return
				}
			}
			// grace period
			if !a.absentSeen {
				c.Count("grace_checks", 1)
				if w.grace == nil || *w.grace <= 0 {
					w.viol("released-with-gc-disabled", ex(a), "%s released although the node exists and no leak grace period is configured (GC disabled)", a.ip)
					return
				}
				g := int64(w.grace.Seconds())
				if len(a.scans) == 0 || a.scans[0] > w.vnow-g+tolS {
					w.viol("released-before-grace-period", ex(a), "%s released at t=%d; it was last delivered/justified at t=%d and first seen unjustified at %v; grace %ds",
						a.ip, w.vnow, a.anchor, a.scans, g)
					return
				}
			} else {
				c.Count("release_node_gone", 1)
			}
		default:
			w.viol("released-unknown-source-allocation", ex(a), "%s (handle %s) is neither a pod nor a tunnel address but was released", a.ip, a.handle)
			return
		}
	}
	// all of a handle's addresses or none
	for _, h := range sortedKeys(named) {
		all := map[string]bool{}
		for _, a := range w.allV() {
			if a.handle == h {
				all[a.ip] = true
			}
		}
		if len(all) > 1 {
			c.Count("multi_address_handle_checks", 1)
		}
		for ip := range all {
			if !named[h][ip] {
				w.viol("handle-partially-released", map[string]any{"call": desc, "handle": h, "shown_addresses": sortedKeys(all)},
					"ReleaseIPs releases %v of handle %s but not %s", sortedKeys(named[h]), h, ip)
				return
			}
		}
	}
}

// validOnNode returns an allocation on cnode (per V) that blocks node clean-up: a pod address the
// shown pod cache justifies, or an allocation of unknown source.
func (w *world) validOnNode(cnode, knode string) *valloc {
	for _, a := range w.allV() {
		if a.node() != cnode || a.handle == ipam.WindowsReservedHandle {
			continue
		}
		if a.isTunnel() {
			continue
		}
		if !a.isPod() || w.justifiedShown(a, knode) {
			return a
		}
	}
	return nil
}

func (w *world) onReleaseIPsDone(opts, released []ipam.ReleaseOptions, err error) {
	if w.live {
		return
	}
	for _, o := range released {
		for _, b := range w.V {
			for id, a := range b.allocs {
				if a.ip == o.Address {
					delete(b.allocs, id)
				}
			}
		}
	}
	w.released += len(released)
	w.c.Count("release_acks", int64(len(released)))
	if err != nil {
		w.c.Count("release_ips_errors", 1)
		w.logf("  ReleaseIPs acknowledged %d of %d, error: %v", len(released), len(opts), err)
	}
}

func (w *world) onReleaseByHandle(h string) {
	w.c.Count("release_by_handle_calls", 1)
	if w.live {
		return
	}
	// No sequence number can be named this way.
	w.viol("release-without-sequence-number", map[string]any{"handle": h}, "ReleaseByHandle(%s): a release that cannot name the allocation's sequence number", h)
}

func (w *world) onReleaseBlockAffinity(b *model.AllocationBlock, mustBeEmpty bool) {
	c := w.c
	c.Count("block_affinity_release_calls", 1)
	if w.live {
		return
	}
	cidr := b.CIDR.String()
	w.logf("ReleaseBlockAffinity %s mustBeEmpty=%v", cidr, mustBeEmpty)
	vb := w.V[cidr]
	ex := map[string]any{"block": cidr}
	if vb == nil || vb.host == "" {
		w.viol("block-release-unknown-block", ex, "ReleaseBlockAffinity(%s): not an affine block the controller was shown", cidr)
		return
	}
	ex["host"] = vb.host
	if vb.nonNil != 0 {
		w.viol("block-release-not-empty", ex, "ReleaseBlockAffinity(%s): the block the controller was shown holds %d allocations", cidr, vb.nonNil)
		return
	}
	n := 0
	for _, o := range w.V {
		if o.host == vb.host {
			n++
		}
	}
	ex["blocks_of_host_shown"] = n
	if n < 2 {
		w.viol("last-block-released", ex, "ReleaseBlockAffinity(%s): it is the only block of node %s the controller was shown", cidr, vb.host)
		return
	}
	if w.grace == nil || *w.grace <= 0 {
		w.viol("block-released-with-gc-disabled", ex, "ReleaseBlockAffinity(%s) although no grace period is configured", cidr)
		return
	}
	g := int64(w.grace.Seconds())
	ok := false
	for _, s := range w.syncTimes {
		if s >= vb.emptySince && s <= w.vnow-g+tolS {
			ok = true
		}
	}
	ex["empty_since"] = vb.emptySince
	ex["sync_times"] = w.syncTimes
	if !ok {
		w.viol("block-released-before-grace-period", ex, "ReleaseBlockAffinity(%s) at t=%d: shown empty since t=%d, no earlier sync at least %ds ago saw it empty", cidr, w.vnow, vb.emptySince, g)
		return
	}
	c.Count("block_affinity_release_checks", 1)
}

func (w *world) onReleaseBlockAffinityDone(b *model.AllocationBlock, err error) {
	if w.live {
		return
	}
	if err == nil {
		delete(w.V, b.CIDR.String())
		w.c.Count("block_affinity_released", 1)
	}
}

func (w *world) onReleaseHostAffinities(cfg ipam.AffinityConfig, mustBeEmpty bool) {
	c := w.c
	c.Count("host_affinity_release_calls", 1)
	if w.live {
		return
	}
	w.logf("ReleaseHostAffinities %s mustBeEmpty=%v", cfg.Host, mustBeEmpty)
	knode, exists, bare := w.nodeState(cfg.Host)
	ex := map[string]any{"host": cfg.Host, "knode": knode, "not_kubernetes": bare}
	if bare {
		w.viol("host-affinities-released-node-exists", ex, "ReleaseHostAffinities(%s) while its Calico Node resource (not orchestrated by Kubernetes) still exists: releases every block of a live node, including its last", cfg.Host)
		return
	}
	if exists {
		w.viol("host-affinities-released-node-exists", ex, "ReleaseHostAffinities(%s) while the node exists in what the controller was shown", cfg.Host)
		return
	}
	if v := w.validOnNode(cfg.Host, knode); v != nil {
		ex["valid"] = v.ip
		w.viol("host-affinities-released-node-in-use", ex, "ReleaseHostAffinities(%s) while %s on that node is still valid", cfg.Host, v.ip)
		return
	}
	if !mustBeEmpty {
		w.viol("host-affinities-released-nonempty-allowed", ex, "ReleaseHostAffinities(%s) without mustBeEmpty", cfg.Host)
		return
	}
	c.Count("host_affinity_release_checks", 1)
}

// ---- bookkeeping ----

func (w *world) checkBookkeeping(when string) {
	if w.c.Failed() {
		return
	}
	s := w.ctrl.VerifSnapshot()
	w.c.Count("bookkeeping_compares", 1)
	bad := func(f string, a ...any) {
		w.viol("bookkeeping-diverged", map[string]any{"when": when, "controller": s, "expected_blocks": w.describeV()},
			"controller bookkeeping differs from the blocks it was shown (%s): %s", when, fmt.Sprintf(f, a...))
	}
	if got, want := strings.Join(s.AllBlocks, ","), strings.Join(sortedKeys(w.V), ","); got != want {
		bad("allBlocks=%s want %s", got, want)
		return
	}
	wantByNode := map[string][]string{}
	wantByHandle := map[string][]string{}
	for _, cidr := range sortedKeys(w.V) {
		vb := w.V[cidr]
		got := s.AllocationsByBlock[cidr]
		gm := map[string]uint64{}
		for _, a := range got {
			gm[a.ID] = a.Seq
		}
		if len(gm) != len(vb.allocs) {
			bad("block %s tracks %d allocations, shown %d", cidr, len(gm), len(vb.allocs))
			return
		}
		for id, a := range vb.allocs {
			seq, ok := gm[id]
			if !ok || seq != a.seq {
				bad("block %s allocation %s: tracked=%v seq=%d, shown seq=%d", cidr, id, ok, seq, a.seq)
				return
			}
			if a.node() != "" {
				wantByNode[a.node()] = append(wantByNode[a.node()], id)
			}
			wantByHandle[a.handle] = append(wantByHandle[a.handle], id)
		}
		if vb.host != "" {
			if s.NodesByBlock[cidr] != vb.host {
				bad("nodesByBlock[%s]=%q want %q", cidr, s.NodesByBlock[cidr], vb.host)
				return
			}
			found := false
			for _, b := range s.BlocksByNode[vb.host] {
				found = found || b == cidr
			}
			if !found {
				bad("blocksByNode[%s] lacks %s", vb.host, cidr)
				return
			}
		} else if s.NodesByBlock[cidr] != "" {
			bad("nodesByBlock[%s]=%q but the block has no host affinity", cidr, s.NodesByBlock[cidr])
			return
		}
		_, isEmpty := s.EmptyBlocks[cidr]
		if want := vb.host != "" && vb.nonNil == 0; isEmpty != want {
			bad("emptyBlocks has %s = %v, want %v", cidr, isEmpty, want)
			return
		}
	}
	for b := range s.AllocationsByBlock {
		if _, ok := w.V[b]; !ok && len(s.AllocationsByBlock[b]) > 0 {
			bad("allocationsByBlock has block %s that was not shown / was deleted", b)
			return
		}
	}
	for b := range s.NodesByBlock {
		if _, ok := w.V[b]; !ok {
			bad("nodesByBlock has stale block %s", b)
			return
		}
	}
	for n, blks := range s.BlocksByNode {
		for _, b := range blks {
			if vb, ok := w.V[b]; !ok || vb.host != n {
				bad("blocksByNode[%s] has stale block %s", n, b)
				return
			}
		}
	}
	for b := range s.EmptyBlocks {
		if _, ok := w.V[b]; !ok {
			bad("emptyBlocks has stale block %s", b)
			return
		}
	}
	for _, b := range append(append([]string{}, s.ColdBlocks...), s.ReleaseTracked...) {
		if _, ok := w.V[b]; !ok {
			bad("coldBlocks/blockReleaseTracker has stale block %s", b)
			return
		}
	}
	cmp := func(name string, got, want map[string][]string) bool {
		if len(got) != len(want) {
			bad("%s has %d keys, want %d", name, len(got), len(want))
			return false
		}
		for k, wv := range want {
			gv := append([]string{}, got[k]...)
			sort.Strings(gv)
			sort.Strings(wv)
			if strings.Join(gv, ",") != strings.Join(wv, ",") {
				bad("%s[%s]=%v want %v", name, k, gv, wv)
				return false
			}
		}
		return true
	}
	if !cmp("allocationsByNode", s.AllocationsByNode, wantByNode) || !cmp("allocationsByHandle", s.AllocationsByHandle, wantByHandle) {
		return
	}
	ids := map[string]bool{}
	for _, as := range s.AllocationsByBlock {
		for _, a := range as {
			ids[a.ID] = a.Confirmed
		}
	}
	for _, id := range s.ConfirmedLeaks {
		// (Whether the entry's confirmed flag is still set is not judged: the scan clears the flag of an
		// allocation it finds valid again without dropping it from this index; it is then never released.)
		if conf, ok := ids[id]; !ok {
			bad("confirmedLeaks has %s which is not a tracked allocation", id)
			return
		} else if !conf {
			w.c.Count("confirmed_leak_index_entry_without_flag", 1)
		}
	}
}

func (w *world) describeV() map[string]any {
	out := map[string]any{}
	for cidr, b := range w.V {
		as := []string{}
		for _, id := range sortedKeys(b.allocs) {
			as = append(as, fmt.Sprintf("%s seq=%d node=%s", id, b.allocs[id].seq, b.allocs[id].node()))
		}
		out[cidr] = map[string]any{"host": b.host, "allocated_ordinals": b.nonNil, "allocations": as}
	}
	return out
}

var _ = node.VerifState{}

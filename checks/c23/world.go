package main

// World set-up for C23: casstore + real IPAM clients, the authoritative fake Kubernetes API, the
// lagging informer caches, the lagging syncer stream, and the recording IPAM wrapper.

import (
	"context"
	"fmt"
	"hash/fnv"
	"os"
	"sort"
	"strconv"
	"strings"
	"sync"
	"time"

	apiv3 "github.com/projectcalico/api/pkg/apis/projectcalico/v3"
	v1 "k8s.io/api/core/v1"
	apierrors "k8s.io/apimachinery/pkg/api/errors"
	metav1 "k8s.io/apimachinery/pkg/apis/meta/v1"
	"k8s.io/apimachinery/pkg/runtime"
	"k8s.io/apimachinery/pkg/runtime/schema"
	"k8s.io/apimachinery/pkg/types"
	k8sfake "k8s.io/client-go/kubernetes/fake"
	k8stesting "k8s.io/client-go/testing"
	"k8s.io/client-go/tools/cache"

	"github.com/projectcalico/calico/kube-controllers/pkg/config"
	"github.com/projectcalico/calico/kube-controllers/pkg/controllers/node"
	"github.com/projectcalico/calico/libcalico-go/lib/apiconfig"
	"github.com/projectcalico/calico/libcalico-go/lib/apis/internalapi"
	bapi "github.com/projectcalico/calico/libcalico-go/lib/backend/api"
	"github.com/projectcalico/calico/libcalico-go/lib/backend/model"
	"github.com/projectcalico/calico/libcalico-go/lib/clientv3"
	"github.com/projectcalico/calico/libcalico-go/lib/ipam"
	"github.com/projectcalico/calico/libcalico-go/lib/kubevirt"
	cnet "github.com/projectcalico/calico/libcalico-go/lib/net"
	"github.com/projectcalico/calico/libcalico-go/lib/options"

	"verif/internal/casstore"
	"verif/internal/harness"
)

const (
	tolS       = int64(60) // slack between virtual and wall time, seconds
	tunnelType = ipam.AttributeTypeVXLAN
)

var apiCfg = func() apiconfig.CalicoAPIConfig {
	c := apiconfig.NewCalicoAPIConfig()
	c.Spec.DatastoreType = apiconfig.EtcdV3
	return *c
}()

var podGR = schema.GroupResource{Resource: "pods"}

// Development switch only (never set by vcheck): VERIF_C23_NO_APIERR=1 turns the injected API-server
// Get errors off, to look at the other clauses while the partial-handle-release finding stands.
var noAPIErr = os.Getenv("VERIF_C23_NO_APIERR") == "1"

// ---- base store (pools), built once per worker and cloned per case ----

var (
	baseOnce  sync.Once
	baseStore *casstore.Store
	baseErr   error
	basePools []*apiv3.IPPool
)

func base() (*casstore.Store, error) {
	baseOnce.Do(func() {
		st := casstore.New()
		adm := clientv3.NewFromBackend(apiCfg, st.NewAdminClient("setup"))
		for _, p := range []struct {
			name, cidr string
			bs         int
		}{{"pool-v4", "10.23.0.32/27", 30}, {"pool-v6", "fd00:23::20/123", 126}} {
			pool := apiv3.NewIPPool()
			pool.Name = p.name
			pool.Spec.CIDR = p.cidr
			pool.Spec.BlockSize = p.bs
			created, err := adm.IPPools().Create(context.Background(), pool, options.SetOptions{})
			if err != nil {
				baseErr = fmt.Errorf("create pool %s: %w", p.name, err)
				return
			}
			basePools = append(basePools, created)
		}
		baseStore = st
	})
	return baseStore, baseErr
}

// ---- events ----

type syncEvt struct { // one committed write of a block or a calico node, as the syncer would stream it
	kvp model.KVPair // Value nil = deletion
}

type k8sEvt struct {
	del  bool
	pod  *v1.Pod
	node *v1.Node
}

// podRec is the harness's notion of a running pod sandbox (what the CNI plugin did for it).
type podRec struct {
	key    string // ns/name
	ns     string
	name   string
	node   string
	handle string
	ips    []string
}

type world struct {
	c *harness.Case

	st      *casstore.Store
	adminBC *casstore.Client
	admin   clientv3.Interface
	cni     ipam.Interface // the CNI plugin's IPAM client (admin: never faulted)
	gcBC    *casstore.Client
	ctrl    *node.IPAMController
	live    bool

	grace    *time.Duration
	cooldown int
	dual     bool

	// authoritative Kubernetes API
	mu        sync.Mutex
	apiPods   map[string]*v1.Pod
	apiNodes  map[string]*v1.Node
	pods      map[string]*podRec
	podGetErr float64 // probability that Pods().Get fails with a non-NotFound error
	uid       int
	handleSeq int

	// informer caches (what the controller is shown) and their pending events
	podIdx  cache.Indexer
	nodeIdx cache.Indexer
	podQ    []k8sEvt
	nodeQ   []k8sEvt

	// syncer stream
	qmu sync.Mutex
	sq  []syncEvt

	// gc client fault plan (deterministic per key)
	faultP      float64
	faultCnt    map[string]int
	podGetCnt   map[string]int
	lastHost    map[string]string // block CIDR -> last affinity seen in the store
	bareDeleted map[string]bool   // non-Kubernetes node names whose resource was deleted in this history
	faultsIn    int               // faults injected during the current sync
	nodeGetF    int               // node Get faults during the current sync

	// oracle model (oracle.go)
	vnow       int64
	V          map[string]*vblock
	delivNodes map[string]string // calico node -> k8s node name, as delivered
	syncTimes  []int64
	inSync     bool

	ops      []string
	released int
}

func (w *world) logf(f string, a ...any) {
	w.ops = append(w.ops, fmt.Sprintf("[t=%d] ", w.vnow)+fmt.Sprintf(f, a...))
}

func podKey(ns, name string) string { return ns + "/" + name }

func newWorld(c *harness.Case) (*world, error) {
	b, err := base()
	if err != nil {
		return nil, err
	}
	r := c.R
	w := &world{c: c, st: b.Clone(), apiPods: map[string]*v1.Pod{}, apiNodes: map[string]*v1.Node{}, pods: map[string]*podRec{},
		faultCnt: map[string]int{}, podGetCnt: map[string]int{}, lastHost: map[string]string{}, bareDeleted: map[string]bool{}, V: map[string]*vblock{}, delivNodes: map[string]string{}}
	w.adminBC = w.st.NewAdminClient("admin")
	w.admin = clientv3.NewFromBackend(apiCfg, w.adminBC)
	w.cni = clientv3.NewFromBackend(apiCfg, w.st.NewAdminClient("cni")).IPAM()
	w.gcBC = w.st.NewClient("kube-controllers")
	w.podIdx = cache.NewIndexer(cache.MetaNamespaceKeyFunc, cache.Indexers{cache.NamespaceIndex: cache.MetaNamespaceIndexFunc})
	w.nodeIdx = cache.NewIndexer(cache.MetaNamespaceKeyFunc, cache.Indexers{})

	switch x := r.Intn(100); {
	case x < 70:
		d := 15 * time.Minute
		w.grace = &d
	case x < 85:
		d := 5 * time.Minute
		w.grace = &d
	case x < 94:
		d := time.Duration(0)
		w.grace = &d
	}
	w.dual = r.Intn(100) < 60
	if r.Intn(100) < 30 {
		w.cooldown = 120
	}
	cfg := ipam.IPAMConfig{StrictAffinity: false, AutoAllocateBlocks: true, MaxBlocksPerHost: 0, IPCooldownSeconds: w.cooldown}
	if err := w.admin.IPAM().SetIPAMConfig(context.Background(), cfg); err != nil {
		return nil, fmt.Errorf("SetIPAMConfig: %w", err)
	}

	w.st.OnCommit = func(wr *casstore.Write) {
		var kvp model.KVPair
		switch k := wr.Key.(type) {
		case model.BlockKey:
			kvp = model.KVPair{Key: k, Revision: strconv.FormatInt(wr.Rev, 10)}
		case model.ResourceKey:
			if k.Kind != internalapi.KindNode {
				return
			}
			kvp = model.KVPair{Key: k, Revision: strconv.FormatInt(wr.Rev, 10)}
		default:
			return
		}
		if wr.Kind != casstore.WriteDeleted {
			kvp.Value = wr.New()
			if kvp.Value == nil {
				return
			}
		}
		w.qmu.Lock()
		w.sq = append(w.sq, syncEvt{kvp: kvp})
		if bk, ok := wr.Key.(model.BlockKey); ok && kvp.Value != nil {
			if b := kvp.Value.(*model.AllocationBlock); b.Affinity != nil {
				cidr := bk.CIDR.String()
				if prev, ok := w.lastHost[cidr]; ok && prev != *b.Affinity {
					w.c.Count("store_blocks_reclaimed_by_another_node", 1)
				}
				w.lastHost[cidr] = *b.Affinity
			}
		}
		w.qmu.Unlock()
	}
	w.st.PreOp = w.preOp
	return w, nil
}

// preOp injects faults into the garbage collector's datastore operations.  The decision depends
// only on (case seed, operation kind, path, how often that path was hit), so it does not depend on
// the order in which ReleaseIPs' per-block goroutines run.
func (w *world) preOp(op *casstore.Op) casstore.Fault {
	if w.live || op.Client != w.gcBC {
		return casstore.FaultNone
	}
	w.qmu.Lock()
	defer w.qmu.Unlock()
	if w.faultP <= 0 {
		return casstore.FaultNone
	}
	k := op.Kind.String() + " " + op.Path
	w.faultCnt[k]++
	h := fnv.New64a()
	fmt.Fprintf(h, "%d|%s|%d", w.c.Seed, k, w.faultCnt[k])
	x := h.Sum64()
	if float64(x%10000)/10000 >= w.faultP {
		return casstore.FaultNone
	}
	w.faultsIn++
	if op.Kind == casstore.OpGet && strings.Contains(op.Path, "/nodes/") {
		w.nodeGetF++
	}
	switch (x / 10000) % 3 {
	case 0:
		return casstore.FaultAbortBefore
	case 1:
		return casstore.FaultLostReply
	}
	return casstore.FaultSpuriousConflict
}

// ---- the authoritative Kubernetes API (served to the controller through a reactor) ----

func (w *world) newClientset() *k8sfake.Clientset {
	cs := k8sfake.NewSimpleClientset()
	cs.PrependReactor("*", "*", func(a k8stesting.Action) (bool, runtime.Object, error) {
		ga, ok := a.(k8stesting.GetAction)
		if !ok || a.GetResource().Resource != "pods" || a.GetVerb() != "get" {
			return true, nil, apierrors.NewMethodNotSupported(podGR, a.GetVerb())
		}
		w.mu.Lock()
		defer w.mu.Unlock()
		if !w.live && w.podGetErr > 0 && w.podGetFault(podKey(ga.GetNamespace(), ga.GetName())) {
			w.c.Count("pod_get_faults", 1)
			w.ops = append(w.ops, fmt.Sprintf("  (API: Pods(%s).Get(%s) fails with a server timeout)", ga.GetNamespace(), ga.GetName()))
			return true, nil, apierrors.NewServerTimeout(podGR, "get", 1)
		}
		w.c.Count("api_pod_gets", 1)
		if p, ok := w.apiPods[podKey(ga.GetNamespace(), ga.GetName())]; ok {
			return true, p.DeepCopy(), nil
		}
		return true, nil, apierrors.NewNotFound(podGR, ga.GetName())
	})
	return cs
}

// podGetFault decides, from (case seed, pod key, how often that pod was read), whether this Get
// fails: independent of the order in which the controller walks its maps.
func (w *world) podGetFault(key string) bool {
	if noAPIErr {
		return false
	}
	k := "podget " + key
	w.podGetCnt[k]++
	h := fnv.New64a()
	fmt.Fprintf(h, "%d|%s|%d", w.c.Seed, k, w.podGetCnt[k])
	return float64(h.Sum64()%10000)/10000 < w.podGetErr
}

func (w *world) apiSetPod(p *v1.Pod) {
	w.mu.Lock()
	w.apiPods[podKey(p.Namespace, p.Name)] = p.DeepCopy()
	w.mu.Unlock()
	w.podQ = append(w.podQ, k8sEvt{pod: p.DeepCopy()})
}

func (w *world) apiDelPod(key string) {
	w.mu.Lock()
	p := w.apiPods[key]
	delete(w.apiPods, key)
	w.mu.Unlock()
	if p != nil {
		w.podQ = append(w.podQ, k8sEvt{del: true, pod: p})
	}
}

func (w *world) apiGetPod(key string) *v1.Pod {
	w.mu.Lock()
	defer w.mu.Unlock()
	return w.apiPods[key]
}

func (w *world) apiSetNode(name string) {
	n := &v1.Node{ObjectMeta: metav1.ObjectMeta{Name: name, UID: types.UID("node-" + name)}}
	w.mu.Lock()
	w.apiNodes[name] = n
	w.mu.Unlock()
	w.nodeQ = append(w.nodeQ, k8sEvt{node: n})
}

func (w *world) apiDelNode(name string) {
	w.mu.Lock()
	n := w.apiNodes[name]
	delete(w.apiNodes, name)
	w.mu.Unlock()
	if n != nil {
		w.nodeQ = append(w.nodeQ, k8sEvt{del: true, node: n})
	}
}

func (w *world) apiNodeNames() []string {
	w.mu.Lock()
	defer w.mu.Unlock()
	out := make([]string, 0, len(w.apiNodes))
	for n := range w.apiNodes {
		out = append(out, n)
	}
	sort.Strings(out)
	return out
}

func (w *world) newPodObj(ns, name, nodeName string) *v1.Pod {
	w.uid++
	return &v1.Pod{
		ObjectMeta: metav1.ObjectMeta{Namespace: ns, Name: name, UID: types.UID(fmt.Sprintf("pod-%d", w.uid))},
		Spec:       v1.PodSpec{NodeName: nodeName},
		Status:     v1.PodStatus{Phase: v1.PodPending},
	}
}

func setPodIPs(p *v1.Pod, ips []string) {
	p.Status.Phase = v1.PodRunning
	p.Status.PodIP = ""
	p.Status.PodIPs = nil
	for i, ip := range ips {
		if i == 0 {
			p.Status.PodIP = ip
		}
		p.Status.PodIPs = append(p.Status.PodIPs, v1.PodIP{IP: ip})
	}
}

// ---- calico nodes in the datastore ----

func (w *world) calicoNodeExists(name string) bool {
	found := false
	w.st.View(func(v casstore.View) {
		found = v.Get(model.ResourceKey{Kind: internalapi.KindNode, Name: name}) != nil
	})
	return found
}

func (w *world) calicoNodeK8sName(name string) string {
	out := ""
	w.st.View(func(v casstore.View) {
		kvp := v.Get(model.ResourceKey{Kind: internalapi.KindNode, Name: name})
		if kvp == nil {
			return
		}
		if n, ok := kvp.Value.(*internalapi.Node); ok {
			for _, o := range n.Spec.OrchRefs {
				if o.Orchestrator == "k8s" {
					out = o.NodeName
				}
			}
		}
	})
	return out
}

// calicoNodeInStore reports whether the Calico Node resource exists in the datastore and, if so,
// the Kubernetes node name of its k8s orchRef ("" for a node that Kubernetes does not orchestrate).
func (w *world) calicoNodeInStore(name string) (exists bool, k8sName string) {
	w.st.View(func(v casstore.View) {
		kvp := v.Get(model.ResourceKey{Kind: internalapi.KindNode, Name: name})
		if kvp == nil {
			return
		}
		exists = true
		if n, ok := kvp.Value.(*internalapi.Node); ok {
			for _, o := range n.Spec.OrchRefs {
				if o.Orchestrator == "k8s" {
					k8sName = o.NodeName
				}
			}
		}
	})
	return
}

// createBareNode creates a Calico Node resource that Kubernetes does not orchestrate (bare-metal /
// OpenStack style host running calico-node): no orchRefs at all, or one of another orchestrator.
func (w *world) createBareNode(name string, openstack bool) error {
	n := internalapi.NewNode()
	n.ObjectMeta = metav1.ObjectMeta{Name: name, UID: types.UID("cnode-" + name)}
	if openstack {
		n.Spec.OrchRefs = []internalapi.OrchRef{{NodeName: name, Orchestrator: "openstack"}}
	}
	_, err := w.adminBC.Create(context.Background(), &model.KVPair{Key: model.ResourceKey{Kind: internalapi.KindNode, Name: name}, Value: n})
	return err
}

func (w *world) createCalicoNode(name string) error {
	n := internalapi.NewNode()
	n.ObjectMeta = metav1.ObjectMeta{Name: name, UID: types.UID("cnode-" + name)}
	n.Spec.OrchRefs = []internalapi.OrchRef{{NodeName: name, Orchestrator: "k8s"}}
	_, err := w.adminBC.Create(context.Background(), &model.KVPair{Key: model.ResourceKey{Kind: internalapi.KindNode, Name: name}, Value: n})
	return err
}

func (w *world) deleteCalicoNode(name string) {
	_, _ = w.adminBC.Delete(context.Background(), model.ResourceKey{Kind: internalapi.KindNode, Name: name}, "")
}

// ---- store truth ----

type salloc struct {
	ip, handle, block string
	seq               uint64
	attrs             map[string]string
}

func blockAllocs(cidr string, b *model.AllocationBlock) (allocs []salloc, nonNil int, cold bool) {
	for ord, idx := range b.Allocations {
		if idx == nil {
			continue
		}
		nonNil++
		attr := b.Attributes[*idx]
		if attr.ReleasedAt != nil {
			cold = true
		}
		if attr.HandleID == nil {
			continue
		}
		allocs = append(allocs, salloc{ip: b.OrdinalToIP(ord).IP.String(), handle: *attr.HandleID, block: cidr,
			seq: b.GetSequenceNumberForOrdinal(ord), attrs: attr.ActiveOwnerAttrs})
	}
	return
}

func (w *world) storeAllocs() map[string]salloc {
	out := map[string]salloc{}
	w.st.View(func(v casstore.View) {
		for _, kvp := range v.Blocks() {
			b, ok := kvp.Value.(*model.AllocationBlock)
			if !ok {
				continue
			}
			as, _, _ := blockAllocs(kvp.Key.(model.BlockKey).CIDR.String(), b)
			for _, a := range as {
				out[a.ip] = a
			}
		}
	})
	return out
}

// ---- controller construction ----

type recClient struct {
	clientv3.Interface
	ip *recIPAM
}

func (r *recClient) IPAM() ipam.Interface { return r.ip }
func (r *recClient) Backend() bapi.Client { return r.Interface.(bapi.BackendAccessor).Backend() }

type recIPAM struct {
	ipam.Interface
	w *world
}

func (r *recIPAM) ReleaseIPs(ctx context.Context, opts ...ipam.ReleaseOptions) ([]cnet.IP, []ipam.ReleaseOptions, error) {
	cp := append([]ipam.ReleaseOptions(nil), opts...)
	r.w.onReleaseIPs(cp)
	un, rel, err := r.Interface.ReleaseIPs(ctx, opts...)
	r.w.onReleaseIPsDone(cp, rel, err)
	return un, rel, err
}

func (r *recIPAM) ReleaseByHandle(ctx context.Context, h string) error {
	r.w.onReleaseByHandle(h)
	return r.Interface.ReleaseByHandle(ctx, h)
}

func (r *recIPAM) ReleaseBlockAffinity(ctx context.Context, b *model.AllocationBlock, mustBeEmpty bool) error {
	r.w.onReleaseBlockAffinity(b, mustBeEmpty)
	err := r.Interface.ReleaseBlockAffinity(ctx, b, mustBeEmpty)
	r.w.onReleaseBlockAffinityDone(b, err)
	return err
}

func (r *recIPAM) ReleaseHostAffinities(ctx context.Context, cfg ipam.AffinityConfig, mustBeEmpty bool) error {
	r.w.onReleaseHostAffinities(cfg, mustBeEmpty)
	return r.Interface.ReleaseHostAffinities(ctx, cfg, mustBeEmpty)
}

func (r *recIPAM) GarbageCollectColdIPs(ctx context.Context, cfg *ipam.IPAMConfig, kvp *model.KVPair) error {
	r.w.c.Count("cold_gc_calls", 1)
	return r.Interface.GarbageCollectColdIPs(ctx, cfg, kvp)
}

func (w *world) newController() *node.IPAMController {
	node.VerifResetMetrics()
	cfg := config.NodeControllerConfig{}
	if w.grace != nil {
		cfg.LeakGracePeriod = &metav1.Duration{Duration: *w.grace}
	}
	real := clientv3.NewFromBackend(apiCfg, w.gcBC)
	rc := &recClient{Interface: real, ip: &recIPAM{Interface: real.IPAM(), w: w}}
	di := kubevirt.NewDeferredInformersWithIndexers(
		cache.NewIndexer(cache.MetaNamespaceKeyFunc, cache.Indexers{}), cache.NewIndexer(cache.MetaNamespaceKeyFunc, cache.Indexers{}))
	return node.NewIPAMController(cfg, rc, w.newClientset(), w.podIdx, w.nodeIdx, di)
}

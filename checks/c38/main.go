// C38 — CNI delete is idempotent and leaves no address behind.
//
// Real code driven: the Calico CNI IPAM plugin's cmdAdd / cmdDel
// (cni-plugin/pkg/ipamplugin/ipam_plugin.go, through the verif export VerifCmdAdd/VerifCmdDel),
// which parse the network config and CNI_ARGS, build handle ids, and call the real
// libcalico-go IPAM client; utils.CreateClient is pointed (verif hook) at a clientv3 client over
// internal/casstore.  Every CNI invocation gets a fresh datastore client, as every invocation of
// the real plugin is a fresh process.
//
// A case is one generated sequence of 5-9 ADD/DEL invocations for one or two containers
// (Kubernetes-style CNI_ARGS or plain CNI, single stack or dual stack, explicit "IP=" requests,
// named pools) on a small cluster whose IPv6 (or IPv4) pool may be exhausted beforehand so that one
// family of a dual-stack ADD fails; some containers start with an address recorded under the
// legacy workload-id handle (as written by v2.x).  Repeated DELs, DEL before ADD, ADD after a
// failed ADD and ADD twice are all generated.  The sequence is first run fault-free; then it is
// re-run once for EVERY datastore call (reads and writes) of that run and every applicable
// failure (abort-before; lost-reply, crash of the plugin process after the call; spurious
// conflict) injected at that call.  Each run ends with DELs for every container, repeated until
// one succeeds (the runtime's retry), followed by one more DEL.
//
// Oracle (ground truth = the stored blocks, read through the store, not through the plugin):
//  1. a successful ADD holds, right after it returns, a live address for every requested family
//     recorded under the container's handle "<network>.<containerID>", and printed exactly those
//     addresses in its CNI result;
//  2. once a DEL for a container has returned success and no later ADD for that container was
//     attempted, no live allocation carries "<network>.<containerID>" or the workload id
//     ("<namespace>.<pod>", or the container id outside Kubernetes); the extra DEL succeeds too
//     and changes nothing;
//  3. an ADD or DEL never changes an allocation that carries neither of the container's handles
//     (other than addresses the same invocation allocated itself), checked at every committed write;
//  4. (mechanism-level, from the anchor "cmdAdd dual-stack rollback"): when a fault-free
//     dual-stack ADD fails only because one family could not be satisfied ("failed to request
//     IPv4/IPv6 addresses"), the address it did get for the other family is released again.
//
// Deliberately not checked:
//   - that an ADD succeeds, which address it gets, error texts beyond the one shape used by (4);
//   - leftovers of a failed ADD in general (the statement lets DEL clean them up): only the
//     narrow rollback case (4) is judged, under its own key;
//   - KubeVirt virt-launcher pods (need a Kubernetes API), Windows host-reserved addresses,
//     namespace selectors (no kubeconfig in the generated config), the host-local upgrade path,
//     concurrency of two plugin processes (the plugin serialises itself with a host-wide file lock).
package main

import (
	"encoding/json"
	"fmt"
	"io"
	"math/rand"
	"os"
	"path/filepath"
	"sort"
	"strings"
	"time"

	"github.com/containernetworking/cni/pkg/skel"
	apiv3 "github.com/projectcalico/api/pkg/apis/projectcalico/v3"
	"github.com/sirupsen/logrus"

	"github.com/projectcalico/calico/cni-plugin/pkg/ipamplugin"
	cnitypes "github.com/projectcalico/calico/cni-plugin/pkg/types"
	"github.com/projectcalico/calico/libcalico-go/lib/apiconfig"
	"github.com/projectcalico/calico/libcalico-go/lib/backend/model"
	"github.com/projectcalico/calico/libcalico-go/lib/clientv3"
	cerrors "github.com/projectcalico/calico/libcalico-go/lib/errors"
	"github.com/projectcalico/calico/libcalico-go/lib/ipam"

	"verif/internal/casstore"
	"verif/internal/harness"
	"verif/internal/ipamkit"
)

const netName = "verif-net"

type container struct {
	ID     string
	Pod    string // "" = plain CNI (no Kubernetes args)
	NS     string
	Legacy bool // starts with an allocation under the legacy workload-id handle
}

func (ct container) handle() string { return netName + "." + ct.ID }
func (ct container) workloadID() string {
	if ct.Pod != "" {
		return ct.NS + "." + ct.Pod
	}
	return ct.ID
}

type cmd struct {
	Op   string `json:"op"` // ADD | DEL
	Ct   int    `json:"container"`
	V4   bool   `json:"v4"`
	V6   bool   `json:"v6"`
	IP   string `json:"ip,omitempty"`    // explicit address request
	Pool string `json:"pool4,omitempty"` // named v4 pool
}

type scenario struct {
	Spec    ipamkit.WorldSpec
	Cts     []container
	Cmds    []cmd
	FillV6  bool // exhaust the v6 pool before the sequence
	FillV4  bool
	NoV6    bool
	lockDir string
}

var apiCfg = func() apiconfig.CalicoAPIConfig {
	c := apiconfig.NewCalicoAPIConfig()
	c.Spec.DatastoreType = apiconfig.EtcdV3
	return *c
}()

func genScenario(r *rand.Rand) *scenario {
	sc := &scenario{}
	uses := []apiv3.IPPoolAllowedUse{apiv3.IPPoolAllowedUseWorkload}
	sc.Spec.Nodes = []ipamkit.NodeSpec{{Name: "node-1"}}
	sc.Spec.Pools = []ipamkit.PoolSpec{{Name: "pool4", CIDR: "10.38.0.0/29", BlockSize: 30, AllowedUses: uses}}
	if r.Intn(3) == 0 {
		sc.Spec.Pools = append(sc.Spec.Pools, ipamkit.PoolSpec{Name: "pool4b", CIDR: "10.38.1.0/30", BlockSize: 30, AllowedUses: uses})
	}
	switch r.Intn(4) {
	case 0:
		sc.NoV6 = true
	case 1:
		sc.FillV6 = true
		sc.Spec.Pools = append(sc.Spec.Pools, ipamkit.PoolSpec{Name: "pool6", CIDR: "fd00:38::/126", BlockSize: 126, AllowedUses: uses})
	default:
		sc.Spec.Pools = append(sc.Spec.Pools, ipamkit.PoolSpec{Name: "pool6", CIDR: "fd00:38::/125", BlockSize: 126, AllowedUses: uses})
	}
	if !sc.FillV6 && r.Intn(6) == 0 {
		sc.FillV4 = true
	}
	cfg := ipam.IPAMConfig{AutoAllocateBlocks: true, StrictAffinity: r.Intn(3) == 0}
	sc.Spec.Config = &cfg
	nct := 1 + r.Intn(2)
	for i := 0; i < nct; i++ {
		ct := container{ID: fmt.Sprintf("cid%d", i)}
		if r.Intn(3) != 0 {
			ct.Pod, ct.NS = fmt.Sprintf("pod-%d", i), "ns1"
		}
		ct.Legacy = r.Intn(4) == 0
		sc.Cts = append(sc.Cts, ct)
	}
	n := 5 + r.Intn(5)
	for i := 0; i < n; i++ {
		c := cmd{Ct: r.Intn(nct), Op: "ADD"}
		if r.Intn(100) < 45 {
			c.Op = "DEL"
		}
		if c.Op == "ADD" {
			switch x := r.Intn(10); {
			case x < 4:
				c.V4, c.V6 = true, true
			case x < 8:
				c.V4 = true
			case x < 9:
				c.V6 = true
			default:
				c.V4 = true
				c.IP = fmt.Sprintf("10.38.0.%d", r.Intn(8))
			}
			if c.IP == "" && c.V4 && len(sc.Spec.Pools) > 1 && sc.Spec.Pools[1].Name == "pool4b" && r.Intn(3) == 0 {
				c.Pool = []string{"pool4b", "10.38.1.0/30"}[r.Intn(2)]
			}
		}
		sc.Cmds = append(sc.Cmds, c)
	}
	return sc
}

// fault plan: inject kind at the n-th datastore call (1-based) made by plugin invocations.
type faultPlan struct {
	at   int
	kind casstore.Fault
}

type dsCall struct {
	kind casstore.OpKind
}

type outcome struct {
	w         *ipamkit.World
	tr        *ipamkit.Tracker
	calls     []dsCall
	applied   string
	log       []map[string]any
	viol      []ipamkit.Violation
	adds      int
	addsOK    int
	dels      int
	delsOK    int
	rollback  int
	stuckDel  bool
	seqCalls  int    // datastore calls made by the generated sequence (faults are enumerated over these)
	faultKind string // kind of the fault that took effect in this run ("" = none)
}

var devnull, _ = os.OpenFile(os.DevNull, os.O_WRONLY, 0)

func (sc *scenario) run(fp faultPlan) (*outcome, error) {
	o := &outcome{}
	w, err := ipamkit.NewWorld(sc.Spec)
	if err != nil {
		return nil, err
	}
	defer w.Store.Shutdown()
	o.w = w
	o.tr = ipamkit.NewTracker(w, ipamkit.TrackerOpts{Structural: true, Ownership: true})
	// pre-existing allocations (admin, not faulted)
	adm := w.AddClient("node-1")
	fill := func(n4, n6 int, handle string) {
		w.Exec(adm, ipamkit.Step{Kind: ipamkit.KAutoAssign, Num4: n4, Num6: n6, Handle: handle, Host: "node-1"})
	}
	if sc.FillV6 {
		fill(0, 4, "filler-v6")
	}
	if sc.FillV4 {
		for i := 0; i < 4; i++ {
			fill(3, 0, fmt.Sprintf("filler-v4-%d", i))
		}
	}
	for _, ct := range sc.Cts {
		if ct.Legacy {
			fill(1, 0, ct.workloadID())
		}
	}
	ncalls := 0
	w.Store.PreOp = func(op *casstore.Op) casstore.Fault {
		if rec, ok := op.Tag.(*ipamkit.OpRec); !ok || !strings.HasPrefix(rec.Step.Kind, "CNI-") {
			return casstore.FaultNone
		}
		ncalls++
		o.calls = append(o.calls, dsCall{op.Kind})
		if fp.at == ncalls {
			return fp.kind
		}
		return casstore.FaultNone
	}
	w.Store.PostOp = func(op *casstore.Op) {
		rec, _ := op.Tag.(*ipamkit.OpRec)
		if rec == nil {
			return
		}
		var uc cerrors.ErrorResourceUpdateConflict
		hard := op.Applied == casstore.FaultAbortBefore || op.Applied == casstore.FaultLostReply || op.Applied == casstore.FaultCrashAfter
		rec.NoteDS(asErr(op.Err, &uc), hard)
		if op.Applied != casstore.FaultNone {
			o.faultKind = op.Applied.String()
			// The listed finding has one exact shape: the reply to the committed block update of an ADD
			// was lost.  Any other lost reply keeps a different identity.
			if _, isBlock := op.Key.(model.BlockKey); op.Applied == casstore.FaultLostReply && !(isBlock && op.Kind == casstore.OpUpdate && op.Committed && rec.Step.Kind == "CNI-ADD") {
				o.faultKind = "lost-reply-elsewhere"
			}
			o.applied = fmt.Sprintf("%s at datastore call %d (%s %s) of op#%d %s committed=%v", op.Applied, ncalls, op.Kind, op.Path, rec.ID, rec.Step.Kind, op.Committed)
		}
	}
	invocation := 0
	invoke := func(c cmd) (*ipamkit.OpRec, string) {
		ct := sc.Cts[c.Ct]
		invocation++
		bc := w.Store.NewClient(fmt.Sprintf("cni-%d", invocation))
		ipamplugin.VerifSetClient(func(conf cnitypes.NetConf) clientv3.Interface { return clientv3.NewFromBackend(apiCfg, bc) })
		defer ipamplugin.VerifSetClient(nil)
		conf := map[string]any{"cniVersion": "0.3.1", "name": netName, "type": "calico", "nodename": "node-1", "log_level": "error",
			"ipam_lock_file": filepath.Join(sc.lockDir, fmt.Sprintf("ipam-%d.lock", os.Getpid()))}
		ipamConf := map[string]any{"type": "calico-ipam"}
		if c.Op == "ADD" {
			ipamConf["assign_ipv4"] = fmt.Sprint(c.V4)
			ipamConf["assign_ipv6"] = fmt.Sprint(c.V6)
			if c.Pool != "" {
				ipamConf["ipv4_pools"] = []string{c.Pool}
			}
		}
		conf["ipam"] = ipamConf
		stdin, _ := json.Marshal(conf)
		args := &skel.CmdArgs{ContainerID: ct.ID, Netns: "/var/run/netns/" + ct.ID, IfName: "eth0", Path: "/opt/cni/bin", StdinData: stdin}
		var kv []string
		if ct.Pod != "" {
			kv = append(kv, "IgnoreUnknown=1", "K8S_POD_NAMESPACE="+ct.NS, "K8S_POD_NAME="+ct.Pod, "K8S_POD_INFRA_CONTAINER_ID="+ct.ID)
		}
		if c.IP != "" {
			kv = append(kv, "IP="+c.IP)
		}
		args.Args = strings.Join(kv, ";")
		st := ipamkit.Step{Kind: "CNI-" + c.Op, Handle: ct.handle(), Handles: []string{ct.handle(), ct.workloadID()}, IP: c.IP, Note: fmt.Sprintf("container=%s v4=%v v6=%v pool=%s", ct.ID, c.V4, c.V6, c.Pool)}
		// capture the CNI result printed on stdout
		rd, wr, perr := os.Pipe()
		saved := os.Stdout
		if perr == nil {
			os.Stdout = wr
		}
		var rec *ipamkit.OpRec
		func() {
			defer func() { os.Stdout = saved }()
			rec = w.Record(bc, invocation, "node-1", st, func() error {
				if c.Op == "ADD" {
					return ipamplugin.VerifCmdAdd(args)
				}
				return ipamplugin.VerifCmdDel(args)
			})
		}()
		out := ""
		if perr == nil {
			wr.Close()
			b, _ := io.ReadAll(rd)
			rd.Close()
			out = string(b)
		}
		return rec, out
	}
	liveBy := func(handles ...string) []string {
		var out []string
		for a, ow := range w.OwnersNow() {
			for _, h := range handles {
				if ow.Live && ow.Handle == h {
					out = append(out, a)
				}
			}
		}
		sort.Strings(out)
		return out
	}
	bad := func(key, f string, a ...any) {
		o.viol = append(o.viol, ipamkit.Violation{Key: key, Msg: fmt.Sprintf(f, a...)})
	}
	// leak keys carry the kind of datastore failure that preceded them, so that distinct causes get distinct identities
	afterFault := func() string {
		if o.faultKind == "" {
			return ""
		}
		return ":after-" + o.faultKind
	}

	doCmd := func(c cmd, phase string) *ipamkit.OpRec {
		ct := sc.Cts[c.Ct]
		before := liveBy(ct.handle())
		rec, out := invoke(c)
		after := liveBy(ct.handle())
		entry := map[string]any{"phase": phase, "cmd": c, "err": rec.Err, "faulted": rec.Open(), "handle_addrs_before": before, "handle_addrs_after": after, "op": rec.ID}
		o.log = append(o.log, entry)
		switch c.Op {
		case "ADD":
			o.adds++
			if rec.Error() == nil {
				o.addsOK++
				// oracle 1
				var res struct {
					IPs []struct {
						Address string `json:"address"`
					} `json:"ips"`
				}
				_ = json.Unmarshal([]byte(out), &res)
				var printed []string
				for _, ip := range res.IPs {
					printed = append(printed, strings.SplitN(ip.Address, "/", 2)[0])
				}
				sort.Strings(printed)
				entry["result_ips"] = printed
				have4, have6 := 0, 0
				for _, a := range after {
					if ipamkit.IsV6(a) {
						have6++
					} else {
						have4++
					}
				}
				if (c.V4 && have4 == 0) || (c.V6 && have6 == 0) {
					bad("successful-add-without-address", "op#%d ADD for container %s (v4=%v v6=%v ip=%q) returned success but handle %q holds only %v", rec.ID, ct.ID, c.V4, c.V6, c.IP, ct.handle(), after)
				}
				want := 0
				if c.V4 {
					want++
				}
				if c.V6 {
					want++
				}
				if len(printed) != want {
					bad("add-result-wrong-count", "op#%d ADD for container %s (v4=%v v6=%v) printed %d addresses: %v", rec.ID, ct.ID, c.V4, c.V6, len(printed), printed)
				}
				for _, p := range printed {
					found := false
					for _, a := range after {
						found = found || a == p
					}
					if !found {
						bad("add-result-not-recorded", "op#%d ADD for container %s printed %s but handle %q holds %v", rec.ID, ct.ID, p, ct.handle(), after)
					}
				}
			} else if !rec.Open() && strings.HasPrefix(rec.Err, "failed to request IPv") {
				// oracle 4: dual-stack rollback
				o.rollback++
				var mine []string
				for a := range rec.Acquired {
					for _, x := range after {
						if x == a {
							mine = append(mine, a)
						}
					}
				}
				if len(mine) > 0 {
					bad("failed-add-left-address", "op#%d ADD for container %s (v4=%v v6=%v) failed with %q and was not disturbed by any fault, yet the addresses %v it allocated are still held by %q", rec.ID, ct.ID, c.V4, c.V6, rec.Err, mine, ct.handle())
				}
			}
		case "DEL":
			o.dels++
			if rec.Error() == nil {
				o.delsOK++
				if left := liveBy(ct.handle(), ct.workloadID()); len(left) > 0 {
					bad("successful-del-left-address"+afterFault(), "op#%d DEL for container %s returned success but %v are still allocated to %q / %q (datastore failure injected earlier in this run: %q)", rec.ID, ct.ID, left, ct.handle(), ct.workloadID(), o.applied)
				}
			}
		}
		return rec
	}

	for _, c := range sc.Cmds {
		doCmd(c, "sequence")
	}
	o.seqCalls = ncalls
	// final deletes: retried until success, then once more
	for i, ct := range sc.Cts {
		ok := false
		for try := 0; try < 6 && !ok; try++ {
			ok = doCmd(cmd{Op: "DEL", Ct: i}, "final").Error() == nil
		}
		if !ok {
			o.stuckDel = true // not a violation of the statement (it speaks about DELs that succeed); reported as inconclusive
			continue
		}
		if left := liveBy(ct.handle(), ct.workloadID()); len(left) > 0 {
			bad("address-left-after-final-del"+afterFault(), "after the final successful DEL for container %s, %v are still allocated to %q / %q", ct.ID, left, ct.handle(), ct.workloadID())
		}
		writesBefore := o.tr.NWrites
		again := doCmd(cmd{Op: "DEL", Ct: i}, "repeat")
		if again.Error() != nil {
			bad("repeated-del-fails", "a DEL for container %s repeated after a successful DEL failed: %s", ct.ID, again.Err)
		}
		if len(again.Freed) > 0 || len(again.Acquired) > 0 {
			bad("repeated-del-changes-state", "a DEL for container %s repeated after a successful DEL changed allocations: freed %v (writes %d)", ct.ID, again.Freed, o.tr.NWrites-writesBefore)
		}
	}
	for _, f := range o.tr.Findings {
		o.viol = append(o.viol, ipamkit.Violation{Key: f.Key, Msg: f.Msg})
	}
	return o, nil
}

func asErr(err error, target *cerrors.ErrorResourceUpdateConflict) bool {
	if err == nil {
		return false
	}
	_, ok := err.(cerrors.ErrorResourceUpdateConflict)
	return ok
}

func (o *outcome) witness(sc *scenario, what string) map[string]any {
	wit := map[string]any{"run": what, "pools": sc.Spec.Pools, "config": sc.Spec.Config, "containers": sc.Cts, "fill_v6": sc.FillV6, "fill_v4": sc.FillV4,
		"sequence": sc.Cmds, "log": o.log, "fault": o.applied}
	if o.w != nil {
		wit["final_ipam_state"] = o.w.Store.Dump("/calico/ipam/")
		wit["ops"] = o.w.Ops()
	}
	return wit
}

func faultKinds(k casstore.OpKind) []casstore.Fault {
	switch k {
	case casstore.OpUpdate, casstore.OpDelete:
		return []casstore.Fault{casstore.FaultAbortBefore, casstore.FaultLostReply, casstore.FaultSpuriousConflict, casstore.FaultCrashAfter}
	case casstore.OpCreate, casstore.OpApply:
		return []casstore.Fault{casstore.FaultAbortBefore, casstore.FaultLostReply, casstore.FaultCrashAfter}
	}
	return []casstore.Fault{casstore.FaultAbortBefore}
}

func run(c *harness.Case) {
	sc := genScenario(c.R)
	sc.lockDir = lockDir
	c.Sample(map[string]any{"containers": sc.Cts, "sequence": sc.Cmds, "pools": len(sc.Spec.Pools), "fill_v6": sc.FillV6, "no_v6": sc.NoV6, "fill_v4": sc.FillV4})
	reported := map[string]bool{}
	judge := func(o *outcome, what string) bool {
		c.Count("runs", 1)
		c.Count("cni_adds", int64(o.adds))
		c.Count("cni_adds_ok", int64(o.addsOK))
		c.Count("cni_dels", int64(o.dels))
		c.Count("cni_dels_ok", int64(o.delsOK))
		c.Count("rollback_cases_judged", int64(o.rollback))
		c.Count("datastore_calls", int64(len(o.calls)))
		c.Count("committed_writes", o.tr.NWrites)
		c.Count("allocations_committed", o.tr.NAllocs)
		c.Count("frees_committed", o.tr.NFrees)
		if o.stuckDel {
			c.Count("final_del_never_succeeded", 1)
			if !c.Failed() {
				c.Inconclusive("six consecutive fault-free DELs failed")
			}
		}
		var wit map[string]any
		for _, v := range o.viol {
			if reported[v.Key] {
				continue
			}
			reported[v.Key] = true
			if wit == nil {
				wit = o.witness(sc, what)
			}
			c.Violationf(v.Key, wit, "%s [%s]", v.Msg, what)
		}
		return len(reported) < 4
	}
	base, err := sc.run(faultPlan{})
	if err != nil {
		c.Inconclusive("setup: " + err.Error())
		return
	}
	if !judge(base, "fault-free run") {
		return
	}
	if base.addsOK > 0 && base.delsOK > 0 {
		c.NonTrivial(fmt.Sprint(sc.Cmds), fmt.Sprint(sc.Cts), sc.FillV6, sc.FillV4, sc.NoV6, len(sc.Spec.Pools))
	}
	for k, call := range base.calls {
		if k >= base.seqCalls {
			break // the closing DELs are the fault-free judgement phase
		}
		for _, f := range faultKinds(call.kind) {
			o, err := sc.run(faultPlan{at: k + 1, kind: f})
			if err != nil {
				c.Inconclusive("setup: " + err.Error())
				return
			}
			c.Count("enumerated_fault_runs", 1)
			if o.applied != "" {
				c.Count("fault_"+f.String(), 1)
			}
			if !judge(o, fmt.Sprintf("%s at datastore call %d (%s)", f, k+1, o.applied)) {
				return
			}
		}
	}
}

var lockDir string

func main() {
	harness.Main(harness.Check{
		ID:    "C38",
		Level: "fault_enumeration",
		Rule: "case = generated sequence of 5-9 CNI ADD/DEL invocations for 1-2 containers (k8s or plain args, single/dual stack, explicit IP, named pool, exhausted v6 or v4 pool, legacy workload-id allocation), then DEL until success + one more DEL per container; " +
			"1 fault-free run + one re-run per (datastore call of the plugin x applicable failure kind); non-trivial = the fault-free run has a successful ADD and a successful DEL (distinct by sequence and layout)",
		Assumptions: []string{
			"internal/casstore as datastore; each invocation uses a fresh datastore client (a fresh plugin process); a crash = that client dies, the command returns an error",
			"utils.CreateClient is redirected by the verif hook (cni-plugin/internal/pkg/utils/client_verif.go); network-name validation inside CreateClient is bypassed",
			"invocations are sequential (the plugin takes a host-wide file lock); the IPAM upgrade marker /var/run/calico/cni/ipam_upgraded is created at set-up so explicit-IP ADDs skip UpgradeHost",
		},
		Cases: func(tier string) int {
			if tier == "thorough" {
				return 3000
			}
			return 96
		},
		Setup: func(tier string) error {
			logrus.SetLevel(logrus.PanicLevel)
			os.Stderr = devnull // utils.ConfigureLogging re-points logrus at os.Stderr on every invocation
			lockDir = os.Getenv("VERIF_RUNDIR")
			if lockDir == "" {
				lockDir = os.TempDir()
			}
			_ = os.MkdirAll("/var/run/calico/cni", 0o755)
			if f, err := os.OpenFile("/var/run/calico/cni/ipam_upgraded", os.O_CREATE|os.O_WRONLY, 0o644); err == nil {
				f.Close()
			}
			return nil
		},
		Run:         run,
		CaseTimeout: 600 * time.Second,
		Floors: map[string]int64{"runs": 1200, "cni_adds": 5000, "cni_adds_ok": 3000, "cni_dels": 7000, "cni_dels_ok": 7000, "datastore_calls": 100000,
			"fault_abort-before": 700, "fault_lost-reply": 170, "fault_spurious-conflict": 120, "fault_crash-after": 170, "rollback_cases_judged": 900, "committed_writes": 30000},
	})
}

// C01 — Felix's computed dataplane state depends only on current datastore state.
//
// Real code driven: felix/calc NewCalculationGraph + NewEventSequencer + NewValidationFilter (and
// everything behind them: ActiveRulesCalculator, RuleScanner, PolicyResolver/Sorter, labelindex,
// L3RouteResolver, VXLANResolver, DataplanePassthru, ProfileDecoder, EncapsulationResolver),
// assembled as felix/calc/calc_graph_fv_test.go does, through verif/internal/calcgen.  A sub-run
// goes through calc.NewAsyncCalcGraph with real goroutines under the race detector.
//
// Oracle (differential, no model of the graph): the shadow dataplane folded from everything the
// graph emitted during a generated, distorted history that ends in datastore state S must equal
// the shadow of a FRESH graph fed only S in canonical key order, which must equal the shadow of a
// fresh graph fed S in a PRNG permutation (with in-sync before or after the data).
//
// Deliberately not checked:
//   - message sequences / ordering (that is C02); only the folded state is compared;
//   - ConfigUpdate / DatastoreNotReady messages, metrics, stats, the LookupsCache;
//   - proto.InSync itself (the state compare ignores the flag);
//   - label conflicts between two profiles of one endpoint (never generated: which profile wins is
//     not fixed by the property);
//   - datastore values the upstream syncer cannot deliver (key/value type mismatches).
package main

import (
	"fmt"
	"net/netip"
	"strings"
	"time"

	discovery "k8s.io/api/discovery/v1"

	"github.com/projectcalico/calico/libcalico-go/lib/backend/model"
	cnet "github.com/projectcalico/calico/libcalico-go/lib/net"

	"verif/internal/calcgen"
	"verif/internal/harness"
	"verif/internal/shadowdp"
)

const asyncEvery = 12 // every 12th case also runs the history through AsyncCalcGraph

func capLines(l []string, n int) []string {
	if len(l) > n {
		return append(l[:n:n], fmt.Sprintf("... %d more", len(l)-n))
	}
	return l
}

func run(c *harness.Case) {
	size := calcgen.Size{Routes: c.Index%3 != 0, Extra: c.Thorough() && c.Index%2 == 0}
	sc := calcgen.NewScenario(c.R, calcgen.ScenarioOptions{Size: size, MinSteps: 30, MaxSteps: c.Pick(120, 200)})
	if err := sc.U.SelfCheck(); err != nil {
		calcgen.Debugf("case %d: %v", c.Index, err)
		c.Inconclusive("generator-tag-mismatch")
		c.Count("generator_tag_mismatch", 1)
		return
	}
	perm := c.R.Perm(len(sc.U.Keys))
	inSyncFirst := c.R.Intn(2) == 0

	hist := sc.RunHistory(nil)
	canon := sc.RunFresh(sc.H.Final, nil, false)
	permd := sc.RunFresh(sc.H.Final, perm, inSyncFirst)

	c.Count("histories", 1)
	c.Count("updates_delivered", int64(sc.H.NumUpdates))
	c.Count("messages_folded", int64(hist.Shadow.NumMessages+canon.Shadow.NumMessages+permd.Shadow.NumMessages))
	c.Count("flushes", int64(hist.Flushes))
	for tag, n := range sc.H.Distortions {
		c.Count("batches_"+tag, int64(n))
	}
	c.Count("flush_strategy_"+sc.H.FlushStrategy, 1)
	st := canon.Shadow.State
	c.Count("final_policies", int64(len(st.Policies)))
	c.Count("final_ipsets", int64(len(st.IPSets)))
	c.Count("final_routes", int64(len(st.Routes)))
	c.Count("final_vteps", int64(len(st.VTEPs)))
	c.Count("final_endpoints", int64(len(st.WEPs)+len(st.HEPs)))
	c.Count("state_comparisons", 2)

	// Non-trivial: at least one distortion and the final state activates a policy on a local endpoint.
	policyOnLocal := false
	for _, ep := range st.WEPs {
		if len(ep.Tiers) > 0 {
			policyOnLocal = true
		}
	}
	for _, ep := range st.HEPs {
		if len(ep.Tiers)+len(ep.UntrackedTiers)+len(ep.PreDnatTiers)+len(ep.ForwardTiers) > 0 {
			policyOnLocal = true
		}
	}
	if sc.H.HasDistortion() && policyOnLocal {
		c.NonTrivial(st.Summary(), fmt.Sprint(sc.H.Final))
	}
	c.Distinct("final_states", st.Summary(), fmt.Sprint(sc.H.Final))
	if c.Index < 3 {
		c.Sample(map[string]any{"graph": fmt.Sprintf("%+v", sc.Graph), "flush": sc.H.FlushStrategy, "ops": len(sc.H.Ops),
			"distortions": sc.H.Distortions, "final": st.Summary()})
	}

	compare(c, sc, "history-dependence", "A=state after the distorted history, B=fresh graph fed the final state in canonical order",
		hist.Shadow.State, canon.Shadow.State, nil)
	compare(c, sc, "fresh-order-dependence", "A=fresh graph, canonical key order, B=fresh graph, permuted key order",
		canon.Shadow.State, permd.Shadow.State, map[string]any{"permutation": perm, "in_sync_first": inSyncFirst})

	if c.Index%asyncEvery == 0 {
		res := calcgen.RunAsync(sc.U, sc.Graph, sc.H.Ops, 60*time.Second, nil)
		if res.TimedOut {
			c.Inconclusive("async-watchdog")
			return
		}
		c.Count("async_runs", 1)
		c.Count("async_messages", int64(len(res.Msgs)))
		ash := shadowdp.Fold(res.Msgs)
		compare(c, sc, "async-history-dependence", "A=state after the history through AsyncCalcGraph, B=fresh graph fed the final state",
			ash.State, canon.Shadow.State, nil)
	}
}

// allTiersAbsent reports whether none of the named tiers has a Tier resource in the final state.
func allTiersAbsent(sc *calcgen.Scenario, names []string) bool {
	for _, k := range sc.U.KeysOfClass(calcgen.ClassTier) {
		tk := sc.U.Keys[k].Key.(model.TierKey)
		for _, n := range names {
			if tk.Name == n && sc.H.Final[k] != calcgen.Absent {
				return false
			}
		}
	}
	return true
}

// endpointSliceChangedService reports whether the history delivered some EndpointSlice key with two
// different kubernetes.io/service-name labels.
func endpointSliceChangedService(sc *calcgen.Scenario) bool {
	seen := map[int]string{}
	for _, op := range sc.H.Ops {
		for _, kv := range op.KVs {
			if kv.Val == calcgen.Absent {
				continue
			}
			es, ok := sc.U.Keys[kv.Key].Values[kv.Val].New().(*discovery.EndpointSlice)
			if !ok {
				continue
			}
			svc := es.Labels["kubernetes.io/service-name"]
			if old, had := seen[kv.Key]; had && old != svc {
				return true
			}
			seen[kv.Key] = svc
		}
	}
	return false
}

func onlyTypesBorrowed(fields []string) bool {
	for _, f := range fields {
		if f != "types" && f != "borrowed" {
			return false
		}
	}
	return len(fields) > 0
}

// wepInForeignBlockWithoutAllocation identifies the failing input of the known route finding: dst
// is the /32 (or /128) of an address of a local workload endpoint of the final state, and that
// address lies inside an IPAM block of the final state whose affinity is another node and which
// yields no per-address route for it (no allocation entry for the address, or one without a node
// attribute, or one owned by the block's own node).
func wepInForeignBlockWithoutAllocation(sc *calcgen.Scenario, dst string) bool {
	pfx, err := netip.ParsePrefix(dst)
	if err != nil || pfx.Bits() != pfx.Addr().BitLen() {
		return false
	}
	addr := pfx.Addr()
	u, s := sc.U, sc.H.Final
	local := false
	for _, k := range u.LocalEndpointKeys() {
		w, ok := u.EffectiveValue(s, k).(*model.WorkloadEndpoint)
		if !ok || w == nil {
			continue
		}
		for _, n := range append(append([]cnet.IPNet{}, w.IPv4Nets...), w.IPv6Nets...) {
			if a, ok := netip.AddrFromSlice(n.IP); ok && a.Unmap() == addr {
				local = true
			}
		}
	}
	if !local {
		return false
	}
	for _, k := range u.KeysOfClass(calcgen.ClassBlock) {
		b, ok := u.EffectiveValue(s, k).(*model.AllocationBlock)
		if !ok || b == nil {
			continue
		}
		bp := u.Keys[k].Key.(model.BlockKey).CIDR
		if !bp.Contains(addr) || b.Host() == "" || b.Host() == calcgen.LocalHost {
			continue
		}
		routed := false
		for _, al := range b.NonAffineAllocations() {
			if a, ok := netip.AddrFromSlice(al.Addr.IP); ok && a.Unmap() == addr && al.Host != "" {
				routed = true
			}
		}
		if !routed {
			return true
		}
	}
	return false
}

// compare reports one violation per distinct kind of difference (class, kind, differing fields).
func compare(c *harness.Case, sc *calcgen.Scenario, prefix, legend string, a, b *shadowdp.State, extra map[string]any) {
	entries := shadowdp.DiffEntries(a, b)
	seen := map[string]bool{}
	for _, e := range entries {
		key := prefix + ":" + e.Key()
		if len(e.TiersOnlyDefaultAction) > 0 && allTiersAbsent(sc, e.TiersOnlyDefaultAction) {
			// Only the default_action of tiers whose Tier resource is absent from the final state
			// differs (fixed in /repo as 32398ee; one key for wep, hep and the async variant).
			key = "history-dependence:tiers.default_action@absent-tier"
		}
		if e.Class == "ipset" && strings.HasPrefix(e.ID, "svc") && endpointSliceChangedService(sc) {
			// serviceindex.UpdateEndpointSlice accounts the OLD slice's members against the NEW
			// slice's service when the kubernetes.io/service-name label of a slice changes.
			key = "history-dependence:service-ipset@endpointslice-service-name-changed"
		}
		if e.Class == "route" && e.Kind == "differs" && onlyTypesBorrowed(e.Fields) && wepInForeignBlockWithoutAllocation(sc, e.ID) {
			// Known finding: RouteTrie.UpdateBlockRoute/RemoveBlockRoute do not re-evaluate child
			// routes, so this /32 takes `borrowed` and the REMOTE_WORKLOAD bit from the enclosing
			// block only if the block was delivered before the endpoint.
			key = "order-dependence:route:wep-in-foreign-block-without-allocation"
		}
		if seen[key] {
			continue
		}
		seen[key] = true
		w := sc.Witness()
		for k, v := range extra {
			w[k] = v
		}
		var all []string
		for _, x := range entries {
			all = append(all, x.Text)
		}
		w["legend"] = legend
		w["diff"] = capLines(all, 20)
		c.Violationf(key, w, "%s (%s): %s", prefix, legend, e.Text)
	}
}

func main() {
	harness.Main(harness.Check{
		ID:    "C01",
		Level: "exploration",
		Rule: "each case draws a universe (5 profiles, 4 tiers, 6-9 policies of 5 kinds, 5-7 workload + 3 host endpoints, 3 network sets; 2 of 3 cases add 3 pools, 3 IPAM blocks, 3 nodes and their VXLAN host config, wireguard keys, 2 services, 2 endpoint slices, the BGP configuration and service-matching rules), " +
			"a graph config (nftables on/off, RouteSource) and a 30-120 step history (writes + coalescing, duplicates, reversions, spurious deletes, PRNG catch-up order, 1-4 KV batches, flush after every update / batches / at end, in-sync anywhere); " +
			"non-trivial = history has >=1 distortion and the final state puts >=1 policy on a local endpoint; distinct by final state",
		Assumptions: []string{
			"shadowdp fold (verif/internal/shadowdp) is the observer; proto.Equal decides message equality",
			"generated values pass/fail the repo's validators as tagged (verified per case by Universe.SelfCheck against the repo's v1/v3 validators)",
			"async sub-run: end of output detected by a sentinel Kubernetes Service (emitted last by EventSequencer.Flush); 60 s watchdog => inconclusive",
		},
		Cases: func(tier string) int {
			if tier == "thorough" {
				return 7200
			}
			return 360
		},
		Run: run,
		Floors: map[string]int64{"histories": 40, "messages_folded": 5000, "state_comparisons": 80, "batches_revert": 50,
			"batches_spurious-delete": 50, "batches_catchup": 50, "batches_dup": 50, "batches_profile-flap": 30, "async_runs": 3, "final_routes": 50, "final_policies": 50},
		CaseTimeout: 180 * time.Second,
	})
}

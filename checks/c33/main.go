// C33 — Maglev lookup tables are complete, balanced and node-independent.
//
// Real code driven: felix/config.Config.BPFLUTSizeMaglev (through Config.UpdateFrom, i.e. through the
// parameter parser) for EVERY BPFMaglevMaxEndpointsPerService in 1..3000, and
// felix/bpf/consistenthash.New(size, fnv.New32(), fnv.New32()) (how felix/bpf/proxy/syncer.go builds it)
// + AddBackend + Generate for generated backend sets at the smallest, default and largest configurable
// size and at other configurable sizes.
//
// Oracle (all written here, no reference Maglev implementation):
//   sizes:   the table size is prime (trial division), at least factor x endpoints (the documented
//            sizing rule, factor = consistenthash.MaglevEndpointLUTFactor) and fits a uint16;
//   tables:  len == size, no nil slot, every slot holds one of the backends that were added
//            (complete); the slot counts of any two backends differ by at most 1, which is the Maglev
//            bound (backends take turns claiming one slot each) (balanced); the table built on
//            another "node" — a new ConsistentHash fed the same backend set in sorted, reversed and
//            shuffled order, with duplicates and nil endpoints interleaved, with a Generate call in
//            the middle of the history, and with dirty hash objects — is identical slot by slot, and
//            so is a second Generate on the same object (node-independent, deterministic).
//   Recorded, not judged: the fraction of slots that change when one backend is removed.
//
// Deliberately not checked
//   - the byte-order clause of the statement (binary.NativeEndian in hashFromString makes the
//     permutation depend on the node's byte order): there is no big-endian executor in this sandbox;
//   - the exact permutation / which backend owns which slot;
//   - minimal disruption (only recorded);
//   - sizes that the configuration cannot produce (non-prime sizes make Generate index out of range:
//     that is why the size check above matters).
package main

import (
	"fmt"
	"hash"
	"hash/crc32"
	"hash/fnv"
	"io"
	"sort"

	"github.com/sirupsen/logrus"
	k8sp "k8s.io/kubernetes/pkg/proxy"

	"github.com/projectcalico/calico/felix/bpf/consistenthash"
	chtest "github.com/projectcalico/calico/felix/bpf/consistenthash/test"
	"github.com/projectcalico/calico/felix/config"
	libch "github.com/projectcalico/calico/libcalico-go/lib/consistenthash"

	"verif/internal/harness"
)

const maxEndpointsParam = 3000
const sizeChunks = 30 // cases 0..29 enumerate the 3000 parameter values, 100 each

func isPrime(n int) bool {
	if n < 2 {
		return false
	}
	for d := 2; d*d <= n; d++ {
		if n%d == 0 {
			return false
		}
	}
	return true
}

// lutSizeFor runs the real configuration code for one parameter value.
func lutSizeFor(c *harness.Case, eps int) (int, bool) {
	cfg := config.New()
	_, err := cfg.UpdateFrom(map[string]string{"BPFMaglevMaxEndpointsPerService": fmt.Sprint(eps)}, config.EnvironmentVariable)
	if err != nil {
		c.Violationf("config-rejected", map[string]any{"endpoints": eps}, "BPFMaglevMaxEndpointsPerService=%d rejected: %v", eps, err)
		return 0, false
	}
	if cfg.BPFMaglevMaxEndpointsPerService != eps {
		c.Violationf("config-not-applied", map[string]any{"endpoints": eps, "got": cfg.BPFMaglevMaxEndpointsPerService},
			"BPFMaglevMaxEndpointsPerService=%d parsed as %d", eps, cfg.BPFMaglevMaxEndpointsPerService)
		return 0, false
	}
	return cfg.BPFLUTSizeMaglev(), true
}

func checkSize(c *harness.Case, eps int) (int, bool) {
	m, ok := lutSizeFor(c, eps)
	if !ok {
		return 0, false
	}
	c.Count("sizes_checked", 1)
	d := map[string]any{"endpoints": eps, "size": m}
	if !isPrime(m) {
		c.Violationf("size-not-prime", d, "BPFLUTSizeMaglev()=%d for %d endpoints is not prime", m, eps)
		return m, false
	}
	if m < eps*libch.MaglevEndpointLUTFactor {
		c.Violationf("size-too-small", d, "BPFLUTSizeMaglev()=%d for %d endpoints is below %d x endpoints", m, eps, libch.MaglevEndpointLUTFactor)
		return m, false
	}
	if m > 0xffff {
		c.Violationf("size-overflows-uint16", d, "BPFLUTSizeMaglev()=%d does not fit the 16-bit slot index", m)
		return m, false
	}
	return m, true
}

type hashKind int

func newHashes(k hashKind) (hash.Hash, hash.Hash) {
	switch k {
	case 1:
		return fnv.New32a(), fnv.New32a()
	case 2:
		return crc32.NewIEEE(), fnv.New32()
	}
	return fnv.New32(), fnv.New32() // what the syncer uses
}

func build(m int, hk hashKind, order []chtest.MockEndpoint, noise func(i int, ch *consistenthash.ConsistentHash)) []k8sp.Endpoint {
	h1, h2 := newHashes(hk)
	ch := consistenthash.New(m, h1, h2)
	for i, ep := range order {
		if noise != nil {
			noise(i, ch)
		}
		ch.AddBackend(ep)
	}
	return ch.Generate()
}

func names(l []k8sp.Endpoint) []string {
	s := make([]string, len(l))
	for i, e := range l {
		if e == nil {
			s[i] = "<nil>"
		} else {
			s[i] = e.String()
		}
	}
	return s
}

func genBackends(c *harness.Case, n int) []chtest.MockEndpoint {
	R := c.R
	seen := map[string]bool{}
	var eps []chtest.MockEndpoint
	style := R.Intn(4)
	base := R.Intn(200)
	for len(eps) < n {
		var ep chtest.MockEndpoint
		i := len(eps)
		switch style {
		case 0: // consecutive pod IPs, one port
			ep = chtest.MockEndpoint{Ip: fmt.Sprintf("10.65.%d.%d", (base+i)/250, (base+i)%250+1), Prt: 8080}
		case 1: // one IP, many ports
			ep = chtest.MockEndpoint{Ip: "192.168.1.1", Prt: uint16(1024 + base + i)}
		case 2: // IPv6
			ep = chtest.MockEndpoint{Ip: fmt.Sprintf("fd00:10:65::%x", base+i*R.Intn(3)+1), Prt: uint16(80 + R.Intn(2))}
		default:
			ep = chtest.MockEndpoint{Ip: fmt.Sprintf("%d.%d.%d.%d", 1+R.Intn(223), R.Intn(256), R.Intn(256), 1+R.Intn(254)), Prt: uint16(1 + R.Intn(65535))}
		}
		ep.Ready = true
		if !seen[ep.String()] {
			seen[ep.String()] = true
			eps = append(eps, ep)
		}
	}
	return eps
}

func run(c *harness.Case) {
	R := c.R
	// ---- part 1: the size function, exhaustively over the parameter range (cases 0..29)
	if c.Index < sizeChunks {
		per := maxEndpointsParam / sizeChunks
		for eps := c.Index*per + 1; eps <= (c.Index+1)*per; eps++ {
			if _, ok := checkSize(c, eps); !ok {
				return
			}
		}
	}

	// ---- part 2: tables
	var epsParam int
	switch c.Index % 5 {
	case 0:
		epsParam = 1 // smallest table
	case 1:
		epsParam = 100 // default
	case 2:
		epsParam = []int{maxEndpointsParam, 1000, 2000}[R.Intn(3)] // largest (and large) tables
	default:
		epsParam = 1 + R.Intn(400)
	}
	m, ok := checkSize(c, epsParam)
	if !ok {
		return
	}
	maxN := 64
	if c.Thorough() && R.Intn(4) == 0 {
		maxN = 300
	}
	n := 1 + R.Intn(maxN)
	if R.Intn(4) == 0 {
		n = 1 + R.Intn(4)
	}
	if epsParam <= 400 && R.Intn(3) == 0 {
		n = 1 + R.Intn(epsParam) // up to the configured maximum for this table
		if n > 400 {
			n = 400
		}
	}
	hk := hashKind(0)
	if R.Intn(5) == 0 {
		hk = hashKind(1 + R.Intn(2))
	}
	backends := genBackends(c, n)
	sorted := append([]chtest.MockEndpoint(nil), backends...)
	sort.Slice(sorted, func(i, j int) bool { return sorted[i].String() < sorted[j].String() })
	member := map[string]bool{}
	for _, b := range backends {
		member[b.String()] = true
	}
	detail := map[string]any{"size": m, "endpoints_param": epsParam, "hash": int(hk), "backends": func() []string {
		l := []string{}
		for _, b := range sorted {
			l = append(l, b.String())
		}
		if len(l) > 80 {
			l = append(l[:80], "...")
		}
		return l
	}()}
	if m >= n {
		c.NonTrivial(m, n, int(hk), fmt.Sprint(detail["backends"]))
	}
	c.Distinct("table_size", m)
	c.Distinct("backend_count", n)
	if c.Index < 3 {
		c.Sample(map[string]any{"size": m, "backends": n, "first": sorted[0].String()})
	}

	ref := build(m, hk, sorted, nil)
	c.Count("tables_generated", 1)
	// complete
	if len(ref) != m {
		c.Violationf("table-length", detail, "Generate returned %d slots for table size %d", len(ref), m)
		return
	}
	counts := map[string]int{}
	for i, e := range ref {
		if e == nil {
			c.Violationf("empty-slot", detail, "slot %d of %d is empty (%d backends)", i, m, n)
			return
		}
		if !member[e.String()] {
			c.Violationf("foreign-backend", detail, "slot %d holds %s which was never added", i, e.String())
			return
		}
		counts[e.String()]++
	}
	c.Count("slots_checked", int64(m))
	// balanced
	minC, maxC := m+1, -1
	for _, b := range backends {
		k := counts[b.String()]
		if k < minC {
			minC = k
		}
		if k > maxC {
			maxC = k
		}
	}
	if maxC-minC > 1 {
		detail["counts"] = counts
		c.Violationf("unbalanced", detail, "slot counts range from %d to %d over %d backends in a table of %d (Maglev bound: differ by at most 1)", minC, maxC, n, m)
		return
	}
	if m >= n && minC < 1 {
		c.Violationf("backend-without-slot", detail, "a backend has no slot although the table (%d) is at least as large as the backend set (%d)", m, n)
		return
	}
	c.Count("balance_checks", 1)

	// node independent: other learn orders / histories
	refNames := names(ref)
	compare := func(kind string, got []k8sp.Endpoint) bool {
		c.Count("order_comparisons", 1)
		g := names(got)
		if len(g) != len(refNames) {
			c.Violationf("order-dependent-table", detail, "%s: table has %d slots, reference %d", kind, len(g), len(refNames))
			return false
		}
		diff, first := 0, -1
		for i := range g {
			if g[i] != refNames[i] {
				diff++
				if first < 0 {
					first = i
				}
			}
		}
		if diff > 0 {
			detail["learn_order"] = kind
			c.Violationf("order-dependent-table", detail, "a node that learned the same %d backends %s disagrees on %d of %d slots (first slot %d: %s vs %s)",
				n, kind, diff, m, first, refNames[first], g[first])
			return false
		}
		return true
	}
	rev := append([]chtest.MockEndpoint(nil), sorted...)
	for i, j := 0, len(rev)-1; i < j; i, j = i+1, j-1 {
		rev[i], rev[j] = rev[j], rev[i]
	}
	if !compare("in reverse order", build(m, hk, rev, nil)) {
		return
	}
	if !compare("in generation order", build(m, hk, backends, nil)) {
		return
	}
	for k := 0; k < 2; k++ {
		sh := append([]chtest.MockEndpoint(nil), backends...)
		R.Shuffle(len(sh), func(i, j int) { sh[i], sh[j] = sh[j], sh[i] })
		noiseKind := R.Intn(3)
		got := build(m, hk, sh, func(i int, ch *consistenthash.ConsistentHash) {
			switch noiseKind {
			case 0: // the same endpoint reported again, and a nil endpoint
				if i > 0 && R.Intn(3) == 0 {
					ch.AddBackend(sh[R.Intn(i)])
				}
				if R.Intn(8) == 0 {
					ch.AddBackend(nil)
				}
			case 1: // a table is generated in the middle of the history
				if i == len(sh)/2 && i > 0 {
					_ = ch.Generate()
				}
			}
		})
		if !compare(fmt.Sprintf("in shuffled order with noise %d", noiseKind), got) {
			return
		}
	}
	// dirty hash objects and a second Generate on the same object
	{
		h1, h2 := newHashes(hk)
		h1.Write([]byte("left over state"))
		h2.Write([]byte{1, 2, 3})
		ch := consistenthash.New(m, h1, h2)
		for _, ep := range rev {
			ch.AddBackend(ep)
		}
		if !compare("with used hash objects", ch.Generate()) {
			return
		}
		if !compare("on a second Generate of the same object", ch.Generate()) {
			return
		}
	}

	// disruption when one backend goes away: recorded only
	if n >= 2 {
		drop := R.Intn(n)
		rest := append(append([]chtest.MockEndpoint(nil), sorted[:drop]...), sorted[drop+1:]...)
		after := names(build(m, hk, rest, nil))
		moved := 0
		for i := range after {
			if refNames[i] != sorted[drop].String() && after[i] != refNames[i] {
				moved++
			}
		}
		c.Count("disruption_slots_total", int64(m))
		c.Count("disruption_slots_moved_needlessly", int64(moved))
	}
}

func main() {
	logrus.SetOutput(io.Discard)
	logrus.SetLevel(logrus.PanicLevel)
	harness.Main(harness.Check{
		ID:    "C33",
		Level: "exploration",
		Rule: "cases 0..29 enumerate BPFMaglevMaxEndpointsPerService = 1..3000 (100 values each) through the real config parser and judge the size; every case then builds tables: size from {smallest (5), default (503), largest (15013 and other large), a random configurable size}, " +
			"1..64 backends (thorough up to 300; up to the configured maximum for small tables) in four address styles (consecutive IPs, one IP many ports, IPv6, random), FNV-32 hashers as in the syncer (1/5 of cases other hash.Hash implementations); " +
			"the table is rebuilt on 6 other 'nodes' (reverse, generation, two shuffled orders with duplicate/nil/mid-history-Generate noise, used hash objects, repeated Generate). Non-trivial = table at least as large as the backend set; distinct by size, hash and backend set",
		Assumptions: []string{
			"NOT CHECKED: the byte-order clause. hashFromString reads the hash with binary.NativeEndian, so the permutation depends on the node's CPU byte order; no big-endian executor (qemu-user, s390x) exists in this sandbox, so tables are only compared between little-endian executions",
			"balance is judged as 'slot counts of any two backends differ by at most 1' (backends claim one slot per turn)",
			"primality of the size is judged by trial division written in the check; 'big enough' is judged as size >= MaglevEndpointLUTFactor x endpoints and size <= 65535",
			"backends are felix/bpf/consistenthash/test.MockEndpoint values (the repo's own fake k8s endpoint)",
		},
		Exhaustive: false,
		Cases: func(tier string) int {
			if tier == "thorough" {
				return 8000
			}
			return 300
		},
		Run:    run,
		Floors: map[string]int64{"sizes_checked": 3000, "tables_generated": 100, "order_comparisons": 700, "balance_checks": 100, "slots_checked": 100000},
	})
}

# C08 witness (genuine defect): felix/rules/policy.go matchBlockBuilder never clears the per-block scratch bit
# (markThisBlockPass) between positive match blocks.  With >=3 positive blocks, a block that fails after a block
# that passed is treated as passed.  Run as root:  unshare -n sh stale-scratch-bit-real-kernel.sh
# The rules below are exactly what ProtoRuleToIptablesRules renders for: protocol tcp, 20 dst ports, SrcNet
# {127.0.0.1/32,10.0.0.0/8}, DstNet {10.1.0.0/16,10.2.0.0/16}, action allow (accept=0x8, scratch0=0x20, scratch1=0x40).
# Observed on kernel 6.18 / iptables 1.8.9: the RETURN rule counts 1 packet for 127.0.0.1 -> 127.0.0.2:80 although
# 127.0.0.2 is in neither DstNet CIDR.
set -e
ip link set lo up
iptables -N cali-pol
# rule: proto tcp, dst ports (20 entries -> 2 splits: block 1, writes AllBlocks=0x20 directly),
# SrcNet 2 CIDRs (block 2, ThisBlock=0x40), DstNet 2 CIDRs (block 3, ThisBlock=0x40), action allow (accept=0x8)
iptables -A cali-pol --jump MARK --set-mark 0x0/0x60
iptables -A cali-pol -p tcp -m multiport --destination-ports 80,1,2,3,4,5,6,7,8,9,10,11,12,13,14 --jump MARK --set-mark 0x20/0x20
iptables -A cali-pol -p tcp -m multiport --destination-ports 15,16,17,18,19 --jump MARK --set-mark 0x20/0x20
iptables -A cali-pol --source 127.0.0.1/32 --jump MARK --set-mark 0x40/0x40
iptables -A cali-pol --source 10.0.0.0/8 --jump MARK --set-mark 0x40/0x40
iptables -A cali-pol -m mark --mark 0/0x40 --jump MARK --set-mark 0/0x20
iptables -A cali-pol --destination 10.1.0.0/16 --jump MARK --set-mark 0x40/0x40
iptables -A cali-pol --destination 10.2.0.0/16 --jump MARK --set-mark 0x40/0x40
iptables -A cali-pol -m mark --mark 0/0x40 --jump MARK --set-mark 0/0x20
iptables -A cali-pol -p tcp -m mark --mark 0x20/0x20 --jump MARK --set-mark 0x8/0x8
iptables -A cali-pol -m mark --mark 0x8/0x8 --jump RETURN
iptables -A cali-pol -m comment --comment "sentinel: next rule reached" --jump MARK --set-mark 0x100/0x100
iptables -A OUTPUT -p tcp --dport 80 -j cali-pol
# one TCP SYN 127.0.0.1 -> 127.0.0.2:80 : src in SrcNet, dport in ports, dst NOT in DstNet
python3 - <<'PY'
import socket
s=socket.socket(); s.settimeout(0.5); s.bind(("127.0.0.1",40000))
try: s.connect(("127.0.0.2",80))
except Exception as e: print("connect:",e)
PY
iptables -L cali-pol -v -n -x | sed -n 1,20p

// C08 — rendered iptables/nftables rules match exactly what the policy rule says.
//
// Real code driven: rules.NewRenderer(cfg, nft).ProtoRuleToIptablesRules for one generated
// proto.Rule, both renderers (iptables, nftables), both IP versions; the returned
// generictables.Rules are turned into text by the REAL renderers
// (iptables.NewIptablesRenderer.RenderAppend = comments + Match.Render() + Action.ToFragment();
// nftables.NewNFTRenderer.Render).  That text is evaluated by internal/nfsim on boundary
// packets and compared with internal/refpolicy.MatchRule.
//
// Oracle (the property statement): the rule's action is taken exactly when the rule matches;
// when it does not match, evaluation falls through to the next rule with the policy-verdict
// marks (accept, pass, drop) unchanged.
//
//	match, allow / ""       accept mark set, pass/drop marks unchanged, RETURN executed
//	match, pass / next-tier pass mark set, accept/drop marks unchanged, RETURN executed
//	match, deny             DROP (REJECT when FilterDenyAction=REJECT)
//	match, log              a LOG action fires and evaluation continues with the next rule,
//	                        verdict marks unchanged
//	no match                no terminal verdict, no RETURN, the next rule (a sentinel appended
//	                        by the check) is reached, verdict marks unchanged, no LOG
//
// The SAME proto.Rule object is rendered for both IP versions (order chosen by the PRNG), by both
// renderers, and then all over again (re-render), as Felix does with the rule of one
// ActivePolicyUpdate; every render is judged against the reference evaluated on a pristine deep
// copy taken before the first render, and a render that changes its input rule is reported under
// the key render-mutates-input-rule (rendering is a pure function of the rule in the property's
// model).  15% of the rules mix IPv4 and IPv6 CIDRs without an ip_version.
//
// A rendered rule that the real front end would refuse to load (nfsim "rejected": more than 15
// multiport slots, wrong address family, icmp match without -p icmp ...) is a violation: the
// rule can then never take its action.
//
// Deliberately not checked:
//   - the drop mark bit after a deny (only the DROP/REJECT verdict is the rule's action);
//   - scratch mark bits and mark bits outside Calico's masks (the statement only fixes the
//     policy-verdict marks);
//   - NFLOG (flow log) actions: parsed, not judged; LOG prefix text and rate limit;
//   - entry with a policy-verdict mark already set: the endpoint chains guarantee that a policy
//     rule is only reached with accept/pass clear (C09 checks that), so packets start with the
//     accept, pass and drop bits clear and random other bits;
//   - protocol icmp/icmpv6 combined with the other family's IpVersion (CEL rejects it); a rule
//     with protocol 1/58 given BY NUMBER, ICMP criteria and no IpVersion (Felix would render
//     `-p 1 -m icmp6` for IPv6, which the kernel refuses at load time - a loadability question,
//     not a verdict one): the generator sets the IpVersion for such rules;
//   - ICMP type 255 (the v3 validator caps the type at 254; iptables treats 255 as "any").
package main

import (
	"errors"
	"fmt"
	"io"
	"os"
	"os/exec"
	"path/filepath"
	"regexp"
	"sort"
	"strings"

	"github.com/sirupsen/logrus"
	googleproto "google.golang.org/protobuf/proto"

	"github.com/projectcalico/calico/felix/generictables"
	"github.com/projectcalico/calico/felix/ipsets"
	"github.com/projectcalico/calico/felix/nftables"
	"github.com/projectcalico/calico/felix/proto"
	"github.com/projectcalico/calico/felix/rules"
	"github.com/projectcalico/calico/felix/types"

	"verif/internal/harness"
	"verif/internal/nfsim"
	"verif/internal/refpolicy"
	"verif/internal/rulegen"
)

const okCounter = "cases_without_harness_error"

func harnessError(c *harness.Case, err error) {
	c.Count(okCounter, -1)
	c.Count("harness_errors", 1)
	fmt.Fprintf(os.Stderr, "HARNESS-ERROR case %d: %v\n", c.Index, err)
	c.Inconclusive("harness-error: nfsim could not parse a rendered rule")
}

// randomMarks assigns distinct random mark bits the way markbits would: single bits for
// accept/pass/drop/scratch0/scratch1, a block for the endpoint mark, plus one bit the check
// keeps for its sentinel rule.
func randomMarks(c *harness.Case) (cfgMarks [5]uint32, endpoint, nonCali, sentinel uint32) {
	perm := c.R.Perm(32)
	for i := 0; i < 5; i++ {
		cfgMarks[i] = 1 << uint(perm[i])
	}
	sentinel = 1 << uint(perm[5])
	for i := 6; i < 10; i++ {
		endpoint |= 1 << uint(perm[i])
	}
	nonCali = 1 << uint(perm[6])
	return
}

func ruleBytes(r *proto.Rule) []byte {
	b, _ := googleproto.MarshalOptions{Deterministic: true}.Marshal(r)
	return b
}

func criteriaCount(r *proto.Rule) int {
	n := 0
	for _, l := range [][]string{r.SrcNet, r.DstNet, r.NotSrcNet, r.NotDstNet, r.SrcIpSetIds, r.DstIpSetIds, r.NotSrcIpSetIds, r.NotDstIpSetIds,
		r.SrcNamedPortIpSetIds, r.DstNamedPortIpSetIds, r.NotSrcNamedPortIpSetIds, r.NotDstNamedPortIpSetIds, r.DstIpPortSetIds} {
		if len(l) > 0 {
			n++
		}
	}
	for _, l := range [][]*proto.PortRange{r.SrcPorts, r.DstPorts, r.NotSrcPorts, r.NotDstPorts} {
		if len(l) > 0 {
			n++
		}
	}
	if r.Protocol != nil {
		n++
	}
	if r.NotProtocol != nil {
		n++
	}
	if r.Icmp != nil {
		n++
	}
	if r.NotIcmp != nil {
		n++
	}
	return n
}

// Keys of the two findings recorded in /verif/known_findings.json.  They are emitted ONLY for
// the exact failing situation so that every other mismatch keeps its own key.
const (
	keyScratchBit       = "overmatch:scratch-bit-not-cleared-between-positive-blocks"
	keyProtoAndNotProto = "iptables-rejects:protocol-and-notprotocol"
)

// The harness keeps at most 50 violation records per worker; a known finding that occurs in
// ~9% of the cases must not crowd out anything else, so each known key is emitted at most a
// few times per worker process and counted (known_* counters) every time.
var knownEmitted = map[string]int{}

func emitKnown(key string) bool {
	knownEmitted[key]++
	return knownEmitted[key] <= 4
}

func netsOfFamily(cidrs []string, v uint8) int {
	n := 0
	for _, c := range cidrs {
		if strings.Contains(c, ":") == (v == 6) {
			n++
		}
	}
	return n
}

// staleScratchBitPredictsMatch models known finding (1): ProtoRuleToIptablesRules renders the
// positive match blocks in the order src ports, dst ports, src CIDRs, dst CIDRs; the first
// writes the "all blocks pass" bit directly, every later one writes the scratch bit and ANDs it
// in - but the scratch bit is never cleared between blocks.  So when the first two blocks pass,
// every later block is treated as passed.  It returns the number of positive blocks the rule
// renders for the packet's family and whether the packet is exactly in that situation: all
// non-block criteria (and the negated CIDR blocks) pass, blocks one and two pass, and some
// later block fails.  (The reference evaluator is used on sub-rules; rules.SplitPortList only
// to count the port splits.)
func staleScratchBitPredictsMatch(rule *proto.Rule, p *refpolicy.Packet, sets refpolicy.IPSets) (int, bool) {
	if !refpolicy.RuleApplies(rule, p.IPVersion) {
		return 0, false
	}
	rest := googleproto.Clone(rule).(*proto.Rule)
	var blocks []*proto.Rule
	if len(rules.SplitPortList(rule.SrcPorts))+len(rule.SrcNamedPortIpSetIds) > 1 {
		blocks = append(blocks, &proto.Rule{SrcPorts: rule.SrcPorts, SrcNamedPortIpSetIds: rule.SrcNamedPortIpSetIds})
		rest.SrcPorts, rest.SrcNamedPortIpSetIds = nil, nil
	}
	if len(rules.SplitPortList(rule.DstPorts))+len(rule.DstNamedPortIpSetIds) > 1 {
		blocks = append(blocks, &proto.Rule{DstPorts: rule.DstPorts, DstNamedPortIpSetIds: rule.DstNamedPortIpSetIds})
		rest.DstPorts, rest.DstNamedPortIpSetIds = nil, nil
	}
	if netsOfFamily(rule.SrcNet, p.IPVersion) > 1 {
		blocks = append(blocks, &proto.Rule{SrcNet: rule.SrcNet})
		rest.SrcNet = nil
	}
	if netsOfFamily(rule.DstNet, p.IPVersion) > 1 {
		blocks = append(blocks, &proto.Rule{DstNet: rule.DstNet})
		rest.DstNet = nil
	}
	if len(blocks) < 3 || !refpolicy.MatchRule(rest, p, sets) {
		return len(blocks), false
	}
	if !refpolicy.MatchRule(blocks[0], p, sets) || !refpolicy.MatchRule(blocks[1], p, sets) {
		return len(blocks), false
	}
	for _, b := range blocks[2:] {
		if !refpolicy.MatchRule(b, p, sets) {
			return len(blocks), true
		}
	}
	return len(blocks), false
}

// behavesAsMatch: did the rendered rules do exactly what they do when the rule matches?
func behavesAsMatch(act refpolicy.Action, res *nfsim.Result, got, accept, pass uint32, reject, fellToNext bool, nLOG int) bool {
	switch act {
	case refpolicy.Allow:
		return res.Verdict == nfsim.FellThrough && res.Returned && got == accept
	case refpolicy.Pass:
		return res.Verdict == nfsim.FellThrough && res.Returned && got == pass
	case refpolicy.Deny:
		if reject {
			return res.Verdict == nfsim.Reject
		}
		return res.Verdict == nfsim.Drop
	case refpolicy.Log:
		return nLOG > 0 && fellToNext && got == 0
	}
	return false
}

var icmpShorthand = regexp.MustCompile(`\b(icmp|icmpv6) type (!= )?(\d+) code (!= )?(\d+)`)

// nftFrontEndCalibration hands the rendered nft rules of one case to the REAL nft front end
// (`nft -c -f`, dry run, no kernel state touched) as a cross-check of nfsim's parser: text that
// nfsim accepts should also be accepted by nft.  The local nft (1.0.6) is older than the one
// Calico ships (1.1.1) and rejects the `icmp type T code C` shorthand, which is rewritten to
// the explicit form first.  The outcome is RECORDED (counters nft_frontend_*), never judged:
// version skew makes acceptance by the local tool informative, not authoritative.
func nftFrontEndCalibration(c *harness.Case, ipv uint8, texts []string, sets refpolicy.IPSets, name func(string) string, isIPPort func(string) bool) {
	dir := os.Getenv("VERIF_RUNDIR")
	nft, err := exec.LookPath("nft")
	if dir == "" || err != nil {
		c.Count("nft_frontend_skipped", 1)
		return
	}
	fam, addr := "ip", "ipv4_addr"
	if ipv == 6 {
		fam, addr = "ip6", "ipv6_addr"
	}
	var b strings.Builder
	fmt.Fprintf(&b, "table %s calicoverif {\n", fam)
	ids := make([]string, 0, len(sets))
	for id := range sets {
		ids = append(ids, id)
	}
	sort.Strings(ids)
	for _, id := range ids {
		if isIPPort(id) {
			fmt.Fprintf(&b, " set %s { type %s . inet_proto . inet_service; }\n", name(id), addr)
		} else {
			fmt.Fprintf(&b, " set %s { type %s; flags interval; }\n", name(id), addr)
		}
	}
	b.WriteString(" chain c {\n")
	for _, t := range texts {
		fmt.Fprintf(&b, "  %s\n", icmpShorthand.ReplaceAllString(t, "$1 type $2$3 $1 code $4$5"))
	}
	b.WriteString(" }\n}\n")
	f := filepath.Join(dir, fmt.Sprintf("nftcal-%d-%d.nft", os.Getpid(), c.Index))
	if err := os.WriteFile(f, []byte(b.String()), 0o644); err != nil {
		c.Count("nft_frontend_skipped", 1)
		return
	}
	defer os.Remove(f)
	out, err := exec.Command(nft, "-c", "-f", f).CombinedOutput()
	c.Count("nft_frontend_rules_checked", int64(len(texts)))
	if err != nil {
		c.Count("nft_frontend_rejected_files", 1)
		msg := string(out)
		if len(msg) > 600 {
			msg = msg[:600]
		}
		fmt.Fprintf(os.Stderr, "nft front end (not judged) rejected case %d: %s\n", c.Index, msg)
		c.Distinct("nft_frontend_reject_messages", firstLine(msg))
		return
	}
	c.Count("nft_frontend_accepted_files", 1)
}

func firstLine(s string) string {
	if i := strings.Index(s, "Error:"); i >= 0 {
		s = s[i:]
	}
	if i := strings.IndexByte(s, '\n'); i >= 0 {
		s = s[:i]
	}
	return s
}

func run(c *harness.Case) {
	c.Count(okCounter, 1)
	g := rulegen.New(c.R, rulegen.Config{MixedFamilyPct: 15})
	aim := uint8(4)
	if c.R.Intn(2) == 0 {
		aim = 6
	}
	// live is the ONE rule object handed to every render (both renderers, both IP versions,
	// twice), as Felix hands the same proto.Rule of an ActivePolicyUpdate to its IPv4 and IPv6
	// policy managers and re-renders it later.  rule is a pristine deep copy taken before the
	// first render: the reference, the packets and every witness use it.
	live := g.Rule(aim)
	rule := googleproto.Clone(live).(*proto.Rule)
	setMembers := g.SetMembers()
	sets := g.IPSets()

	m, endpoint, nonCali, sentinel := randomMarks(c)
	accept, pass, drop, scratch0, scratch1 := m[0], m[1], m[2], m[3], m[4]
	cfg := rules.Config{
		IPSetConfigV4:         ipsets.NewIPVersionConfig(ipsets.IPFamilyV4, "cali", nil, nil),
		IPSetConfigV6:         ipsets.NewIPVersionConfig(ipsets.IPFamilyV6, "cali", nil, nil),
		WorkloadIfacePrefixes: []string{"cali"},
		MarkAccept:            accept, MarkPass: pass, MarkDrop: drop, MarkScratch0: scratch0, MarkScratch1: scratch1,
		MarkEndpoint: endpoint, MarkNonCaliEndpoint: nonCali,
		FlowLogsEnabled: c.R.Intn(2) == 0,
		VXLANPort:       4789,
	}
	reject := c.R.Intn(4) == 0
	if reject {
		cfg.FilterDenyAction = "REJECT"
	}
	switch c.R.Intn(4) {
	case 0:
		cfg.LogPrefix = "my %t %k %n %p prefix"
	case 1:
		cfg.LogActionRateLimit = "10/second"
		cfg.LogActionRateLimitBurst = c.R.Intn(3) * 5
	}
	verdictBits := accept | pass | drop
	calicoBits := verdictBits | scratch0 | scratch1 | sentinel

	// rule ownership parameters: they only feed NFLOG/LOG prefixes
	owner, dir := rules.RuleOwnerTypePolicy, rules.RuleDirIngress
	var id types.IDMaker = &types.PolicyID{Name: "pol-" + fmt.Sprint(c.R.Intn(1000)), Kind: rulegen.EnforcedKinds[c.R.Intn(len(rulegen.EnforcedKinds))], Namespace: []string{"", "ns1"}[c.R.Intn(2)]}
	if c.R.Intn(3) == 0 {
		owner, id = rules.RuleOwnerTypeProfile, &types.ProfileID{Name: "prof-" + fmt.Sprint(c.R.Intn(1000))}
	}
	if c.R.Intn(2) == 0 {
		dir = rules.RuleDirEgress
	}
	idx := c.R.Intn(300)
	untracked := c.R.Intn(5) == 0
	tier := []string{"default", "tier-a", ""}[c.R.Intn(3)]

	act, _ := refpolicy.ActionOf(rule)
	nCrit := criteriaCount(rule)
	detail := func(extra map[string]any) map[string]any {
		d := map[string]any{"rule": rule.String(), "ipsets": setMembers,
			"marks":    fmt.Sprintf("accept=%#x pass=%#x drop=%#x scratch0=%#x scratch1=%#x sentinel=%#x", accept, pass, drop, scratch0, scratch1, sentinel),
			"flowlogs": cfg.FlowLogsEnabled, "reject": reject}
		for k, v := range extra {
			d[k] = v
		}
		return d
	}

	sawMatch, sawNonMatch := false, false
	pktsBy := map[uint8][]refpolicy.Packet{aim: g.Packets(rule, aim, c.Pick(40, 48)), 10 - aim: g.Packets(rule, 10-aim, 8)}
	order := []uint8{aim, 10 - aim}
	if c.R.Intn(2) == 0 {
		order = []uint8{10 - aim, aim}
	}
	mutationReported := false
	for renderPass := 0; renderPass < 2; renderPass++ {
		for _, ipv := range order {
			pkts := pktsBy[ipv]
			if renderPass == 1 && len(pkts) > 16 {
				pkts = pkts[:16] // the re-render is judged on a subset
			}
			for _, flavor := range []nfsim.Flavor{nfsim.Iptables, nfsim.NFT} {
				fl := flavor.String()
				renderer := rules.NewRenderer(cfg, flavor == nfsim.NFT)
				rendered := renderer.ProtoRuleToIptablesRules(live, ipv, owner, dir, idx, id, tier, untracked)
				if !mutationReported && !googleproto.Equal(live, rule) {
					// rendering is a pure function of the rule in the property's model
					mutationReported = true
					c.Violationf("render-mutates-input-rule", detail(map[string]any{"renderer": fl, "ipVersion": ipv, "pass": renderPass, "rule_after_render": live.String()}),
						"%s v%d (render pass %d): ProtoRuleToIptablesRules changed the proto.Rule it was given: before %s, after %s", fl, ipv, renderPass, rule, live)
				}
				c.Count("renders_"+fl, 1)
				c.Count("rules_rendered_"+fl, int64(len(rendered)))
				if len(rendered) == 0 {
					c.Count("renders_empty_"+fl, 1)
				}
				if len(rendered) > 3 {
					c.Count("renders_with_match_blocks_"+fl, 1)
				}
				rs := nfsim.NewRuleset(flavor, ipv)
				ipc := cfg.IPSetConfigV4
				if ipv == 6 {
					ipc = cfg.IPSetConfigV6
				}
				for sid, s := range sets {
					name := ipc.NameForMainIPSet(sid)
					if flavor == nfsim.NFT {
						name = nftables.LegalizeSetName(name)
					}
					rs.AddSet(name, s, g.IsIPPortSet(sid))
				}
				chain := &generictables.Chain{Name: "cali-pol", Rules: append(append([]generictables.Rule(nil), rendered...),
					// sentinel: "the next rule"
					generictables.Rule{Match: renderer.(*rules.DefaultRuleRenderer).NewMatch(), Action: renderer.(*rules.DefaultRuleRenderer).SetMark(sentinel)})}
				_ = rs.AddChain(chain)
				if err := rs.Err(); err != nil {
					if nfsim.IsRejected(err) {
						class := "unknown"
						var ne *nfsim.Error
						if errors.As(err, &ne) && ne.Class != "" {
							class = ne.Class
						}
						if flavor == nfsim.Iptables && class == "multiple-proto-flags" && rule.Protocol != nil && rule.NotProtocol != nil {
							// KNOWN FINDING (2): a rule with both protocol and notProtocol renders
							// `-p X ! -p Y`, which iptables-restore refuses.
							c.Count("known_protocol_and_notprotocol", 1)
							if emitKnown(keyProtoAndNotProto) {
								c.Violationf(keyProtoAndNotProto, detail(map[string]any{"ipVersion": ipv, "error": err.Error(), "rendered": rs.Dump()}),
									"iptables v%d: rule with protocol and notProtocol renders two -p flags, which iptables-restore refuses: %v", ipv, err)
							}
							continue
						}
						c.Violationf("rejected:"+class+":"+fl, detail(map[string]any{"ipVersion": ipv, "error": err.Error(), "rendered": rs.Dump()}),
							"%s v%d: a rendered rule would be refused at load time: %v", fl, ipv, err)
						continue
					}
					harnessError(c, err)
					return
				}
				if flavor == nfsim.NFT && c.Index%20 == 0 && len(rendered) > 0 {
					nftFrontEndCalibration(c, ipv, rs.ChainTexts("cali-pol"), sets, func(id string) string { return nftables.LegalizeSetName(ipc.NameForMainIPSet(id)) }, g.IsIPPortSet)
				}
				for _, p := range pkts {
					pkt := &nfsim.Packet{Packet: p, CTState: nfsim.CTNew, InIface: "cali1234", OutIface: "eth0"}
					pkt.Mark = c.R.Uint32() &^ (verdictBits | sentinel)
					res, err := rs.Run("cali-pol", pkt)
					if err != nil {
						if nfsim.IsUnparsed(err) {
							harnessError(c, err)
							return
						}
						c.Violationf("walk-error:"+fl, detail(map[string]any{"ipVersion": ipv, "error": err.Error(), "rendered": rs.Dump()}), "%s v%d: %v", fl, ipv, err)
						break
					}
					want := refpolicy.MatchRule(rule, &p, sets)
					c.Count("packets_"+fl, 1)
					if want {
						c.Count("matches_"+fl, 1)
						c.Count("matches_"+act.String(), 1)
						if ipv == aim {
							sawMatch = true
						}
					} else {
						c.Count("nonmatches_"+fl, 1)
						if ipv == aim {
							sawNonMatch = true
						}
					}
					got := (res.Mark & verdictBits)
					fellToNext := res.Verdict == nfsim.FellThrough && !res.Returned && res.Mark&sentinel != 0
					nLOG := 0
					for _, l := range res.Logs {
						if l.Kind == "LOG" {
							nLOG++
						}
					}
					bad := ""
					switch {
					case !want:
						switch {
						case res.Verdict != nfsim.FellThrough:
							bad = "nomatch-terminal-verdict"
						case res.Returned || res.Mark&sentinel == 0:
							bad = "nomatch-returned"
						case got != 0:
							bad = "nomatch-verdict-mark-changed"
						case nLOG != 0:
							bad = "nomatch-logged"
						}
					case act == refpolicy.Allow:
						switch {
						case res.Verdict != nfsim.FellThrough:
							bad = "allow-terminal-verdict"
						case got != accept:
							bad = "allow-wrong-mark"
						case !res.Returned:
							bad = "allow-no-return"
						}
					case act == refpolicy.Pass:
						switch {
						case res.Verdict != nfsim.FellThrough:
							bad = "pass-terminal-verdict"
						case got != pass:
							bad = "pass-wrong-mark"
						case !res.Returned:
							bad = "pass-no-return"
						}
					case act == refpolicy.Deny:
						wantV := nfsim.Drop
						if reject {
							wantV = nfsim.Reject
						}
						if res.Verdict != wantV {
							bad = "deny-not-dropped"
						}
					case act == refpolicy.Log:
						switch {
						case nLOG == 0:
							bad = "log-not-logged"
						case !fellToNext:
							bad = "log-did-not-continue"
						case got != 0:
							bad = "log-verdict-mark-changed"
						}
					}
					if bad != "" && !want {
						// KNOWN FINDING (1)?  Only the exact stale-scratch-bit situation qualifies.
						nBlocks, stale := staleScratchBitPredictsMatch(rule, &p, sets)
						if stale && nBlocks >= 3 && behavesAsMatch(act, res, got, accept, pass, reject, fellToNext, nLOG) {
							c.Count("known_scratch_bit_overmatch", 1)
							if emitKnown(keyScratchBit) {
								c.Violationf(keyScratchBit, detail(map[string]any{
									"ipVersion": ipv, "renderer": fl, "packet": p.String(), "positive_blocks": nBlocks, "symptom": bad,
									"observed": map[string]any{"verdict": res.Verdict.String(), "returned": res.Returned, "mark": fmt.Sprintf("%#x", res.Mark), "trace": res.TraceString()},
									"rendered": rs.Dump()}),
									"%s v%d: rule %s has %d positive match blocks; the first two pass and a later one fails for packet %s, yet the rendered rules take the %s action (scratch bit not cleared between blocks)",
									fl, ipv, rule.RuleId, nBlocks, p, act)
							}
							continue
						}
					}
					if bad != "" {
						c.Violationf(bad+":"+fl, detail(map[string]any{
							"ipVersion": ipv, "renderer": fl, "packet": p.String(), "initial_mark": fmt.Sprintf("%#x", pkt.Mark),
							"reference_match": want, "action": act.String(),
							"observed": map[string]any{"verdict": res.Verdict.String(), "returned": res.Returned, "mark": fmt.Sprintf("%#x", res.Mark),
								"verdict_bits": fmt.Sprintf("%#x", got), "sentinel_reached": res.Mark&sentinel != 0, "logs": res.Logs, "trace": res.TraceString()},
							"rendered": rs.Dump()}),
							"%s v%d: rule %s; reference match=%v action=%s but rendered rules gave verdict=%s returned=%v verdictbits=%#x next-rule-reached=%v LOGs=%d for packet %s",
							fl, ipv, rule.RuleId, want, act, res.Verdict, res.Returned, got, res.Mark&sentinel != 0, nLOG, p)
						break
					}
				}
				_ = calicoBits
			}
		}
	}
	if nCrit > 0 && sawMatch && sawNonMatch {
		c.NonTrivial(ruleBytes(rule))
	}
	c.Distinct("rule_shapes", nCrit, act.String(), rule.Protocol != nil, len(rule.SrcPorts) > 15, len(rule.DstPorts) > 15, len(rule.SrcNet) > 1, len(rule.NotSrcNet) > 0, rule.Icmp != nil, rule.NotIcmp != nil)
	if c.Index < 8 {
		c.Sample(map[string]any{"rule": rule.String(), "aimed_at_ipv": aim, "action": act.String()})
	}
}

func tierFromArgs() string {
	for i, a := range os.Args {
		for _, p := range []string{"-tier=", "--tier="} {
			if len(a) > len(p) && a[:len(p)] == p {
				return a[len(p):]
			}
		}
		if (a == "-tier" || a == "--tier") && i+1 < len(os.Args) {
			return os.Args[i+1]
		}
	}
	return "quick"
}

func cases(tier string) int {
	if tier == "thorough" {
		return 150000
	}
	return 3000
}

func main() {
	logrus.SetOutput(io.Discard)
	logrus.SetLevel(logrus.PanicLevel)
	harness.Main(harness.Check{
		ID:    "C08",
		Level: "exploration",
		Rule: "one generated proto.Rule per case (all criteria of DESIGN 3.1, validator-respecting, aimed at IPv4 or IPv6), random mark-bit assignment, flow logs on/off, DROP/REJECT; " +
			"the same rule object rendered by both renderers for both IP versions in PRNG-chosen order and re-rendered once (input must stay unchanged; 15% mixed-family CIDR lists); ~40 boundary packets for the aimed family (CIDR edges, port range ends +-1, set members and neighbours, protocol and others, ICMP type/code) and 8 of the other family; " +
			"non-trivial = the rule has at least one criterion and the packet set contained both a matching and a non-matching packet; distinct by the rule's bytes",
		Assumptions: []string{
			"internal/nfsim evaluates the rendered text with kernel semantics (calibrated by hand against nft 1.0.6 --debug=netlink for every clause shape Felix renders); it is the trusted interpreter",
			"internal/refpolicy.MatchRule is the reference semantics, written from the data-model documentation",
			"nft `icmp type != T code != C` is read as NOT(type==T AND code==C) (the single 2-byte compare the real nft emits for the explicit form); the local nft 1.0.6 rejects the shorthand so this shape is not calibrated",
			"rendered text that the real front end refuses is judged by parser rules in nfsim, each confirmed by hand against the real tools in this sandbox: iptables/iptables-restore 1.8.9 (nf_tables and legacy) reject a rule with two -p flags ('multiple -p flags not allowed') and a multiport match with more than 15 port slots; nft 1.0.6 rejects `ip` expressions in an ip6 table",
			"known finding overmatch:scratch-bit-not-cleared-between-positive-blocks is emitted only when the rule renders >=3 positive match blocks, the reference says all other criteria and the first two blocks pass and a later block fails, and the rendered rules behave exactly as on a match; known finding iptables-rejects:protocol-and-notprotocol only for the iptables renderer, a rule with both protocol and notProtocol and the 'multiple -p flags' rejection; each is emitted at most 4 times per worker and counted every time (known_* counters)",
			"every 20th case's nft rules are also compiled by the real `nft -c -f` (dry run) as a calibration of nfsim's nft parser; the result is recorded in the nft_frontend_* counters and never judged (the local nft 1.0.6 is older than the shipped 1.1.1); skipped when nft or VERIF_RUNDIR is unavailable",
			"IP set names come from the real ipsets.IPVersionConfig.NameForMainIPSet; set contents are given to the simulator directly (IP set programming is C16's subject)",
		},
		Cases: cases,
		Run:   run,
		Floors: map[string]int64{
			okCounter:                            int64(cases(tierFromArgs())),
			"rules_rendered_iptables":            2000,
			"rules_rendered_nft":                 2000,
			"packets_iptables":                   10000,
			"packets_nft":                        10000,
			"matches_iptables":                   1500,
			"matches_nft":                        1500,
			"nonmatches_iptables":                5000,
			"nonmatches_nft":                     5000,
			"matches_allow":                      500,
			"matches_deny":                       300,
			"matches_pass":                       150,
			"matches_log":                        80,
			"renders_with_match_blocks_iptables": 100,
			"renders_with_match_blocks_nft":      100,
		},
	})
}

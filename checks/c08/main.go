package main

import (
	"fmt"

	"github.com/projectcalico/calico/felix/environment"
	"github.com/projectcalico/calico/felix/iptables"
	"github.com/projectcalico/calico/felix/nftables"
	"github.com/projectcalico/calico/felix/rules"
	"verif/internal/harness"
)

func main() {
	_ = harness.Check{}
	_ = rules.Config{}
	_ = iptables.Match()
	_ = nftables.Match()
	_ = environment.Features{}
	fmt.Println("warm")
}

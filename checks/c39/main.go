// C39 — overlapping IP pools resolve to one allocatable pool per address.
//
// Drives the real kube-controllers IP pool controller (ippool.NewController, one reconcile() pass at
// a time through the verif export) against a small in-process "API server" for IPPool objects that
// the harness implements behind the fake projectcalico clientset (reactor): optimistic concurrency
// on resourceVersion, status as a sub-resource (Update ignores status, UpdateStatus ignores
// everything else), finalizers -> deletionTimestamp -> removal.  The controller reads pools and
// blocks from informer indexers the harness fills, either freshly synced or stale.
//
// Oracle: after every reconcile the transition (pre, post) is judged, where for a reconcile on a
// freshly synced cache pre/post are the API-server states before/after the pass, and for a reconcile
// on a stale cache pre is what the controller was shown and post is that plus the writes the server
// acknowledged (the controller can only know what it was shown).
//
//	(a) no NEW pair of overlapping pools that are both allocatable (Allocatable=True, not disabled,
//	    not deleting);
//	(b) a pool that was allocatable and is still enabled and not deleting is not displaced by an
//	    overlapping pool that is newer / not older and was not itself allocatable before (a pool that
//	    already overlapped an older-or-equal allocatable pool before the pass is legitimately demoted
//	    in favour of that pool; it may then also lose its finalizer);
//	(c) no pool becomes allocatable while an overlapping terminating pool (shown to the controller,
//	    not administratively disabled) still exists afterwards;
//	(d) a pool deleted while allocatable keeps the controller's finalizer (and so exists) while a
//	    block the controller was shown (and that really exists) lies inside it; an allocatable pool
//	    that stays allocatable keeps the finalizer; after an error-free pass every allocatable pool
//	    containing a block carries the finalizer.
//
// Deliberately not checked:
//   - which of several not-yet-allocatable overlapping pools wins (oldest / name tie-break): the
//     statement does not fix it;
//   - transient states between two writes of the same reconcile pass;
//   - masking by a terminating pool that is also spec.disabled (the code treats disabled first and
//     then does not mask; the statement is silent about that combination);
//   - what happens to the finalizer of a pool the administrator disables (the code drops it, so a
//     disabled pool can be deleted while it still has blocks; the statement speaks of allocatable
//     pools only);
//   - API-server truth after a reconcile that ran on a stale cache: transient double-allocatable
//     pools can arise there (counted as stale_induced_server_overlap, not a verdict);
//   - liveness (that an unmasked pool eventually becomes allocatable) and ReleasePoolAffinities
//     ordering.
package main

import (
	"context"
	"fmt"
	"io"
	"net"
	"sort"
	"strings"
	"sync"
	"sync/atomic"
	"time"

	v3 "github.com/projectcalico/api/pkg/apis/projectcalico/v3"
	"github.com/projectcalico/api/pkg/client/clientset_generated/clientset/fake"
	"github.com/sirupsen/logrus"
	apierrors "k8s.io/apimachinery/pkg/api/errors"
	metav1 "k8s.io/apimachinery/pkg/apis/meta/v1"
	"k8s.io/apimachinery/pkg/runtime"
	"k8s.io/apimachinery/pkg/runtime/schema"
	"k8s.io/apimachinery/pkg/types"
	k8stesting "k8s.io/client-go/testing"
	"k8s.io/client-go/tools/cache"

	"github.com/projectcalico/calico/kube-controllers/pkg/controllers/ippool"
	"github.com/projectcalico/calico/libcalico-go/lib/ipam"
	cnet "github.com/projectcalico/calico/libcalico-go/lib/net"

	"verif/internal/harness"
)

const (
	ourFinalizer     = ippool.IPPoolFinalizer
	foreignFinalizer = "verif.example.org/hold"
	epoch            = int64(1_700_000_000)
)

var poolGR = schema.GroupResource{Group: "projectcalico.org", Resource: "ippools"}

// ---------------------------------------------------------------------------------------------
// The harness's API server for IPPools and IPAMBlocks.

type writeRec struct {
	Verb    string `json:"verb"`
	Name    string `json:"name"`
	SentRV  string `json:"sent_rv"`
	Fault   string `json:"fault,omitempty"`
	Applied bool   `json:"applied"`
	Acked   bool   `json:"acked"`
	Err     string `json:"err,omitempty"`
	Removed bool   `json:"removed,omitempty"`
	result  *v3.IPPool
}

type server struct {
	mu     sync.Mutex
	pools  map[string]*v3.IPPool
	blocks map[string]*v3.IPAMBlock
	inUse  map[string]bool // block name -> has allocations
	rv     int64
	now    int64 // virtual seconds since epoch
	uid    int

	// controller-side recording and fault plan (valid during one reconcile)
	writes       []writeRec
	pWriteFault  float64
	pRelFault    float64
	draw         func() float64 // from the case PRNG; reconcile is single-threaded in step mode
	drawN        func(n int) int
	unexpected   []string
	releaseCalls int
	releaseFails int
}

func newServer() *server {
	return &server{pools: map[string]*v3.IPPool{}, blocks: map[string]*v3.IPAMBlock{}, inUse: map[string]bool{}}
}

func (s *server) nextRV() string {
	s.rv++
	return fmt.Sprint(s.rv)
}

func hasFin(p *v3.IPPool, f string) bool {
	for _, x := range p.Finalizers {
		if x == f {
			return true
		}
	}
	return false
}

// react implements the API server for the verbs the controller uses.
func (s *server) react(a k8stesting.Action, live bool, closed *atomic.Bool) (bool, runtime.Object, error) {
	s.mu.Lock()
	defer s.mu.Unlock()
	if closed != nil && closed.Load() {
		// a straggling pass of a stopped live controller: the "connection" is gone
		return true, nil, apierrors.NewServerTimeout(poolGR, a.GetVerb(), 1)
	}
	switch act := a.(type) {
	case k8stesting.UpdateAction:
		obj, ok := act.GetObject().(*v3.IPPool)
		if !ok {
			s.unexpected = append(s.unexpected, fmt.Sprintf("update of %T", act.GetObject()))
			return true, nil, apierrors.NewBadRequest("verif: unexpected object")
		}
		sub := a.GetSubresource()
		if sub != "" && sub != "status" {
			s.unexpected = append(s.unexpected, "subresource "+sub)
			return true, nil, apierrors.NewBadRequest("verif: unexpected subresource")
		}
		return s.write(obj, sub == "status", live)
	case k8stesting.GetAction:
		if p, ok := s.pools[act.GetName()]; ok {
			return true, p.DeepCopy(), nil
		}
		return true, nil, apierrors.NewNotFound(poolGR, act.GetName())
	}
	s.unexpected = append(s.unexpected, a.GetVerb()+"/"+a.GetSubresource())
	return true, nil, apierrors.NewMethodNotSupported(poolGR, a.GetVerb())
}

func (s *server) write(obj *v3.IPPool, status bool, live bool) (bool, runtime.Object, error) {
	rec := writeRec{Verb: "update", Name: obj.Name, SentRV: obj.ResourceVersion}
	if status {
		rec.Verb = "status"
	}
	fault := ""
	if !live && s.pWriteFault > 0 && s.draw() < s.pWriteFault {
		fault = []string{"conflict", "timeout", "lost-reply"}[s.drawN(3)]
	}
	rec.Fault = fault
	finish := func(res *v3.IPPool, err error) (bool, runtime.Object, error) {
		if err != nil {
			rec.Err = err.Error()
		} else {
			rec.Acked = true
		}
		s.writes = append(s.writes, rec)
		if err != nil {
			return true, nil, err
		}
		return true, res, nil
	}
	switch fault {
	case "conflict":
		return finish(nil, apierrors.NewConflict(poolGR, obj.Name, fmt.Errorf("verif: injected conflict")))
	case "timeout":
		return finish(nil, apierrors.NewServerTimeout(poolGR, "update", 1))
	}
	res, removed, err := s.apply(obj, status)
	if err == nil {
		rec.Applied = true
		rec.Removed = removed
		rec.result = res.DeepCopy()
		if fault == "lost-reply" {
			return finish(nil, apierrors.NewTimeoutError("verif: reply lost", 1))
		}
	}
	return finish(res, err)
}

// apply performs an Update / UpdateStatus with real API-server semantics.
func (s *server) apply(obj *v3.IPPool, status bool) (*v3.IPPool, bool, error) {
	cur, ok := s.pools[obj.Name]
	if !ok {
		return nil, false, apierrors.NewNotFound(poolGR, obj.Name)
	}
	if obj.ResourceVersion != "" && obj.ResourceVersion != cur.ResourceVersion {
		return nil, false, apierrors.NewConflict(poolGR, obj.Name, fmt.Errorf("the object has been modified; please apply your changes to the latest version and try again"))
	}
	if obj.UID != "" && obj.UID != cur.UID {
		return nil, false, apierrors.NewConflict(poolGR, obj.Name, fmt.Errorf("uid mismatch"))
	}
	upd := cur.DeepCopy()
	if status {
		if obj.Status != nil {
			upd.Status = obj.Status.DeepCopy()
		} else {
			upd.Status = nil
		}
	} else {
		// metadata that a client may change + spec; status is ignored (sub-resource).
		if cur.DeletionTimestamp != nil {
			for _, f := range obj.Finalizers {
				if !hasFin(cur, f) {
					return nil, false, apierrors.NewForbidden(poolGR, obj.Name, fmt.Errorf("no new finalizers can be added if the object is being deleted"))
				}
			}
		}
		if obj.Spec.CIDR != cur.Spec.CIDR {
			return nil, false, apierrors.NewBadRequest("CIDR cannot be changed")
		}
		upd.Finalizers = append([]string(nil), obj.Finalizers...)
		upd.Labels = obj.Labels
		upd.Annotations = obj.Annotations
		upd.Spec = *obj.Spec.DeepCopy()
	}
	upd.ResourceVersion = s.nextRV()
	if upd.DeletionTimestamp != nil && len(upd.Finalizers) == 0 {
		delete(s.pools, upd.Name)
		return upd, true, nil
	}
	s.pools[upd.Name] = upd
	return upd.DeepCopy(), false, nil
}

// ---- user / IPAM side operations (harness acts as kubectl and as calico IPAM) ----

func (s *server) createPool(name, cidr string, disabled, foreign bool) {
	s.mu.Lock()
	defer s.mu.Unlock()
	s.uid++
	p := &v3.IPPool{
		TypeMeta: metav1.TypeMeta{Kind: "IPPool", APIVersion: "projectcalico.org/v3"},
		ObjectMeta: metav1.ObjectMeta{
			Name:              name,
			UID:               types.UID(fmt.Sprintf("uid-%d", s.uid)),
			CreationTimestamp: metav1.NewTime(time.Unix(epoch+s.now, 0).UTC()),
		},
		Spec: v3.IPPoolSpec{CIDR: cidr, Disabled: disabled},
	}
	if foreign {
		p.Finalizers = []string{foreignFinalizer}
	}
	p.ResourceVersion = s.nextRV()
	s.pools[name] = p
}

func (s *server) mutatePool(name string, f func(p *v3.IPPool)) {
	s.mu.Lock()
	defer s.mu.Unlock()
	cur, ok := s.pools[name]
	if !ok {
		return
	}
	upd := cur.DeepCopy()
	f(upd)
	upd.ResourceVersion = s.nextRV()
	if upd.DeletionTimestamp != nil && len(upd.Finalizers) == 0 {
		delete(s.pools, name)
		return
	}
	s.pools[name] = upd
}

// deletePool is `kubectl delete ippool`: with finalizers it only stamps deletionTimestamp.
func (s *server) deletePool(name string) {
	now := metav1.NewTime(time.Unix(epoch+s.now, 0).UTC())
	s.mutatePool(name, func(p *v3.IPPool) {
		if p.DeletionTimestamp == nil {
			p.DeletionTimestamp = &now
		}
	})
}

func (s *server) snapshotPools() map[string]*v3.IPPool {
	s.mu.Lock()
	defer s.mu.Unlock()
	m := make(map[string]*v3.IPPool, len(s.pools))
	for k, v := range s.pools {
		m[k] = v.DeepCopy()
	}
	return m
}

func (s *server) blockNames() map[string]string {
	s.mu.Lock()
	defer s.mu.Unlock()
	m := make(map[string]string, len(s.blocks))
	for k, b := range s.blocks {
		m[k] = b.Spec.CIDR
	}
	return m
}

func blockName(cidr string) string {
	r := strings.NewReplacer(".", "-", ":", "-", "/", "-")
	return r.Replace(cidr)
}

func (s *server) createBlock(cidr, host string, used bool) bool {
	s.mu.Lock()
	defer s.mu.Unlock()
	n := blockName(cidr)
	if _, ok := s.blocks[n]; ok {
		return false
	}
	aff := "host:" + host
	s.blocks[n] = &v3.IPAMBlock{
		TypeMeta:   metav1.TypeMeta{Kind: "IPAMBlock", APIVersion: "projectcalico.org/v3"},
		ObjectMeta: metav1.ObjectMeta{Name: n, ResourceVersion: s.nextRV()},
		Spec:       v3.IPAMBlockSpec{CIDR: cidr, Affinity: &aff},
	}
	s.inUse[n] = used
	return true
}

func (s *server) deleteBlock(n string) {
	s.mu.Lock()
	defer s.mu.Unlock()
	delete(s.blocks, n)
	delete(s.inUse, n)
}

// ---------------------------------------------------------------------------------------------
// Fake IPAM: only ReleasePoolAffinities is reachable from the controller.

type fakeIPAM struct {
	ipam.Interface
	s      *server
	live   bool         // live (concurrent) controller: no faults, no PRNG use from its goroutines
	closed *atomic.Bool // set once the live controller has been stopped
}

func (f *fakeIPAM) ReleasePoolAffinities(ctx context.Context, pool cnet.IPNet) error {
	s := f.s
	s.mu.Lock()
	defer s.mu.Unlock()
	if f.closed != nil && f.closed.Load() {
		return fmt.Errorf("verif: controller stopped")
	}
	s.releaseCalls++
	if !f.live && s.pRelFault > 0 && s.draw() < s.pRelFault {
		s.releaseFails++
		return fmt.Errorf("verif: injected ReleasePoolAffinities failure")
	}
	// Releasing the affinities deletes blocks that hold no allocations.
	for n, b := range s.blocks {
		_, bn, err := net.ParseCIDR(b.Spec.CIDR)
		if err != nil {
			continue
		}
		if pool.Contains(bn.IP) && !s.inUse[n] {
			delete(s.blocks, n)
			delete(s.inUse, n)
		}
	}
	return nil
}

// ---------------------------------------------------------------------------------------------
// Fake informer: an indexer the harness fills, plus handler registration for the live mode.

type handlerReg struct {
	cache.ResourceEventHandlerRegistration
}

func (handlerReg) HasSynced() bool { return true }

type fakeInformer struct {
	cache.SharedIndexInformer
	indexer  cache.Indexer
	mu       sync.Mutex
	handlers []cache.ResourceEventHandler
}

func newFakeInformer() *fakeInformer {
	return &fakeInformer{indexer: cache.NewIndexer(cache.MetaNamespaceKeyFunc, cache.Indexers{})}
}
func (f *fakeInformer) GetIndexer() cache.Indexer { return f.indexer }
func (f *fakeInformer) GetStore() cache.Store     { return f.indexer }
func (f *fakeInformer) HasSynced() bool           { return true }
func (f *fakeInformer) AddEventHandler(h cache.ResourceEventHandler) (cache.ResourceEventHandlerRegistration, error) {
	f.mu.Lock()
	defer f.mu.Unlock()
	f.handlers = append(f.handlers, h)
	return handlerReg{}, nil
}

// replace installs a new cache content and (if notify) fires add/update/delete handlers like an informer.
func (f *fakeInformer) replace(objs map[string]runtime.Object, notify bool) {
	old := map[string]any{}
	for _, k := range f.indexer.ListKeys() {
		o, _, _ := f.indexer.GetByKey(k)
		old[k] = o
	}
	list := make([]any, 0, len(objs))
	keys := make([]string, 0, len(objs))
	for k := range objs {
		keys = append(keys, k)
	}
	sort.Strings(keys)
	for _, k := range keys {
		list = append(list, objs[k])
	}
	_ = f.indexer.Replace(list, "")
	if !notify {
		return
	}
	f.mu.Lock()
	hs := append([]cache.ResourceEventHandler(nil), f.handlers...)
	f.mu.Unlock()
	for _, k := range keys {
		for _, h := range hs {
			if o, ok := old[k]; ok {
				h.OnUpdate(o, objs[k])
			} else {
				h.OnAdd(objs[k], false)
			}
		}
	}
	oldKeys := make([]string, 0, len(old))
	for k := range old {
		oldKeys = append(oldKeys, k)
	}
	sort.Strings(oldKeys)
	for _, k := range oldKeys {
		if _, ok := objs[k]; !ok {
			for _, h := range hs {
				h.OnDelete(old[k])
			}
		}
	}
}

// ---------------------------------------------------------------------------------------------
// Oracle views.

type pview struct {
	Name     string `json:"name"`
	CIDR     string `json:"cidr"`
	Created  int64  `json:"created"`
	Disabled bool   `json:"disabled,omitempty"`
	Deleting bool   `json:"deleting,omitempty"`
	Cond     string `json:"cond"` // "True" | "False:<reason>" | ""
	Fin      bool   `json:"finalizer,omitempty"`
	Foreign  bool   `json:"foreign_finalizer,omitempty"`
	RV       string `json:"rv"`
	net      *net.IPNet
}

func (v pview) alloc() bool { return v.Cond == "True" && !v.Disabled && !v.Deleting }

func view(p *v3.IPPool) pview {
	v := pview{Name: p.Name, CIDR: p.Spec.CIDR, Created: p.CreationTimestamp.Unix() - epoch, Disabled: p.Spec.Disabled,
		Deleting: p.DeletionTimestamp != nil, Fin: hasFin(p, ourFinalizer), Foreign: hasFin(p, foreignFinalizer), RV: p.ResourceVersion}
	if p.Status != nil {
		for _, c := range p.Status.Conditions {
			if c.Type == v3.IPPoolConditionAllocatable {
				if c.Status == metav1.ConditionTrue {
					v.Cond = "True"
				} else {
					v.Cond = "False:" + c.Reason
				}
			}
		}
	}
	_, n, err := net.ParseCIDR(p.Spec.CIDR)
	if err == nil {
		v.net = n
	}
	return v
}

func views(m map[string]*v3.IPPool) map[string]pview {
	out := make(map[string]pview, len(m))
	for k, p := range m {
		out[k] = view(p)
	}
	return out
}

func overlap(a, b *net.IPNet) bool {
	if a == nil || b == nil || len(a.IP) != len(b.IP) {
		return false
	}
	return a.Contains(b.IP) || b.Contains(a.IP)
}

func sortedNames(m map[string]pview) []string {
	ns := make([]string, 0, len(m))
	for n := range m {
		ns = append(ns, n)
	}
	sort.Strings(ns)
	return ns
}

func listViews(m map[string]pview) []pview {
	out := []pview{}
	for _, n := range sortedNames(m) {
		out = append(out, m[n])
	}
	return out
}

// ---------------------------------------------------------------------------------------------
// One case = one history.

type world struct {
	c                   *harness.Case
	s                   *server
	pools               *fakeInformer
	blocks              *fakeInformer
	ctrl                *ippool.IPPoolController
	ops                 []string
	guarded             map[string]bool // pools that were allocatable (with our finalizer) when their deletion was requested
	names               []int
	v4base              int
	stale               int // consecutive stale reconciles
	sawOverlapReconcile bool
	serverOverlapKnown  map[string]bool
}

func (w *world) logf(f string, a ...any) { w.ops = append(w.ops, fmt.Sprintf(f, a...)) }

func (w *world) normIP(n *net.IPNet) net.IP {
	if v4 := n.IP.To4(); v4 != nil {
		return v4
	}
	return n.IP
}

func (w *world) genPoolCIDR() string {
	r := w.c.R
	if r.Intn(5) == 0 { // IPv6 family
		l := 116 + r.Intn(7) // /116../122
		span := 1 << uint(l-116)
		if span > 4 {
			span = 4
		}
		idx := r.Intn(span)
		// fd00:39::/116 has 4096 addresses; sub-prefix idx of length l starts at idx*2^(128-l)
		off := idx << uint(128-l)
		return fmt.Sprintf("fd00:39::%x/%d", off, l)
	}
	l := 20 + r.Intn(7) // /20../26 under 10.<base>.0.0/20
	span := 1 << uint(l-20)
	if span > 4 {
		span = 4
	}
	idx := r.Intn(span)
	off := idx << uint(32-l)
	return fmt.Sprintf("10.%d.%d.%d/%d", w.v4base, (off>>8)&0xff, off&0xff, l)
}

// genBlockIn returns a default-size block CIDR inside pool n.
func (w *world) genBlockIn(n *net.IPNet) string {
	r := w.c.R
	ones, bits := n.Mask.Size()
	bs := 26
	if bits == 128 {
		bs = 122
	}
	if ones > bs {
		return ""
	}
	cnt := 1 << uint(bs-ones)
	if cnt > 6 {
		cnt = 6
	}
	idx := r.Intn(cnt)
	ip := append(net.IP(nil), w.normIP(n)...)
	off := idx << uint(bits-bs)
	for i := len(ip) - 1; i >= 0 && off > 0; i-- {
		ip[i] |= byte(off & 0xff)
		off >>= 8
	}
	return fmt.Sprintf("%s/%d", ip.String(), bs)
}

func (w *world) poolNames() []string {
	m := w.s.snapshotPools()
	ns := make([]string, 0, len(m))
	for n := range m {
		ns = append(ns, n)
	}
	sort.Strings(ns)
	return ns
}

func (w *world) syncPools(notify bool) {
	objs := map[string]runtime.Object{}
	for k, p := range w.s.snapshotPools() {
		objs[k] = p
	}
	w.pools.replace(objs, notify)
}

func (w *world) syncBlocks(notify bool) {
	w.s.mu.Lock()
	objs := map[string]runtime.Object{}
	for k, b := range w.s.blocks {
		objs[k] = b.DeepCopy()
	}
	w.s.mu.Unlock()
	w.blocks.replace(objs, notify)
}

func (w *world) shownPools() map[string]*v3.IPPool {
	m := map[string]*v3.IPPool{}
	for _, o := range w.pools.indexer.List() {
		p := o.(*v3.IPPool)
		m[p.Name] = p.DeepCopy()
	}
	return m
}

func (w *world) shownBlocks() map[string]string {
	m := map[string]string{}
	for _, o := range w.blocks.indexer.List() {
		b := o.(*v3.IPAMBlock)
		m[b.Name] = b.Spec.CIDR
	}
	return m
}

func (w *world) userStep() {
	r := w.c.R
	names := w.poolNames()
	x := r.Intn(100)
	switch {
	case x < 34:
		if len(names) >= 7 || len(w.names) == 0 {
			return
		}
		// creation time: same second as the previous create with probability ~0.45
		if r.Intn(100) >= 45 {
			w.s.now += int64(1 + r.Intn(3))
		}
		id := w.names[0]
		w.names = w.names[1:]
		name := fmt.Sprintf("pool-%02d", id)
		cidr := w.genPoolCIDR()
		disabled := r.Intn(8) == 0
		foreign := r.Intn(8) == 0
		w.s.createPool(name, cidr, disabled, foreign)
		w.logf("create %s %s t=%d disabled=%v foreign=%v", name, cidr, w.s.now, disabled, foreign)
		w.c.Count("pools_created", 1)
	case x < 46:
		if len(names) == 0 {
			return
		}
		n := names[r.Intn(len(names))]
		var nv bool
		w.s.mutatePool(n, func(p *v3.IPPool) { p.Spec.Disabled = !p.Spec.Disabled; nv = p.Spec.Disabled })
		w.logf("set-disabled %s %v", n, nv)
		w.c.Count("disable_toggles", 1)
	case x < 62:
		if len(names) == 0 {
			return
		}
		n := names[r.Intn(len(names))]
		cur := w.s.snapshotPools()[n]
		if cur == nil { // removed concurrently by a live controller
			return
		}
		v := view(cur)
		if v.Deleting {
			return
		}
		if v.alloc() && v.Fin {
			w.guarded[n] = true
		}
		w.s.now += int64(r.Intn(2))
		w.s.deletePool(n)
		w.logf("delete %s (was %s fin=%v)", n, v.Cond, v.Fin)
		w.c.Count("pools_deleted", 1)
	case x < 66:
		for _, n := range names {
			cur := w.s.snapshotPools()[n]
			if cur != nil && hasFin(cur, foreignFinalizer) && r.Intn(2) == 0 {
				w.s.mutatePool(n, func(p *v3.IPPool) {
					out := p.Finalizers[:0:0]
					for _, f := range p.Finalizers {
						if f != foreignFinalizer {
							out = append(out, f)
						}
					}
					p.Finalizers = out
				})
				w.logf("remove-foreign-finalizer %s", n)
				return
			}
		}
	case x < 86:
		// calico IPAM claims a block from a pool it considers usable (filterIPPool: not deleting,
		// not disabled, no Allocatable=False condition); mostly from Allocatable=True pools.
		cands := []pview{}
		for _, n := range names {
			cur := w.s.snapshotPools()[n]
			if cur == nil {
				continue
			}
			v := view(cur)
			if v.Deleting || v.Disabled || strings.HasPrefix(v.Cond, "False") || v.net == nil {
				continue
			}
			if v.Cond == "" && r.Intn(4) != 0 {
				continue
			}
			cands = append(cands, v)
		}
		if len(cands) == 0 {
			return
		}
		p := cands[r.Intn(len(cands))]
		b := w.genBlockIn(p.net)
		if b == "" {
			return
		}
		used := r.Intn(4) != 0
		if w.s.createBlock(b, fmt.Sprintf("node-%d", r.Intn(3)), used) {
			w.logf("block-create %s in %s used=%v", b, p.Name, used)
			w.c.Count("blocks_created", 1)
		}
	default:
		bn := w.s.blockNames()
		if len(bn) == 0 {
			return
		}
		ks := make([]string, 0, len(bn))
		for k := range bn {
			ks = append(ks, k)
		}
		sort.Strings(ks)
		k := ks[r.Intn(len(ks))]
		w.s.deleteBlock(k)
		w.logf("block-delete %s", bn[k])
		w.c.Count("blocks_deleted", 1)
	}
}

// reconcile runs one pass of the real controller and judges it.
func (w *world) reconcile(forceFresh, noFaults bool) {
	r := w.c.R
	s := w.s
	mode := "fresh"
	if !forceFresh && w.stale < 2 {
		switch x := r.Intn(100); {
		case x < 62:
		case x < 76:
			mode = "stale-pools"
		case x < 88:
			mode = "stale-blocks"
		default:
			mode = "stale-both"
		}
	}
	if mode == "fresh" || mode == "stale-blocks" {
		w.syncPools(false)
	}
	if mode == "fresh" || mode == "stale-pools" {
		w.syncBlocks(false)
	}
	serverPre := s.snapshotPools()
	shownPre := w.shownPools()
	poolsFresh := sameRVs(serverPre, shownPre)
	if poolsFresh {
		w.stale = 0
	} else {
		w.stale++
	}
	shownBlocks := w.shownBlocks()

	s.mu.Lock()
	s.writes = nil
	s.pWriteFault, s.pRelFault = 0, 0
	if !noFaults {
		switch x := r.Intn(100); {
		case x < 55:
		case x < 80:
			s.pWriteFault = 0.15
		default:
			s.pWriteFault = 0.4
		}
		if r.Intn(3) == 0 {
			s.pRelFault = 0.5
		}
	}
	relBefore, relFailBefore := s.releaseCalls, s.releaseFails
	s.mu.Unlock()

	err := w.ctrl.VerifReconcile()

	s.mu.Lock()
	writes := append([]writeRec(nil), s.writes...)
	s.writes = nil
	relCalls, relFails := s.releaseCalls-relBefore, s.releaseFails-relFailBefore
	unexpected := append([]string(nil), s.unexpected...)
	s.mu.Unlock()
	serverPost := s.snapshotPools()
	blocksPost := s.blockNames()

	c := w.c
	c.Count("reconciles", 1)
	if poolsFresh {
		c.Count("reconciles_fresh_pools", 1)
	} else {
		c.Count("reconciles_stale_pools", 1)
	}
	if err != nil {
		c.Count("reconciles_with_error", 1)
	}
	c.Count("controller_writes", int64(len(writes)))
	nf := 0
	for _, wr := range writes {
		if wr.Fault != "" {
			nf++
		}
		if wr.Err != "" && wr.Fault == "" {
			c.Count("genuine_conflicts", 1)
		}
		if wr.Removed {
			c.Count("pools_removed_by_finalizer_release", 1)
		}
	}
	c.Count("write_faults_injected", int64(nf))
	c.Count("release_affinity_calls", int64(relCalls))
	c.Count("release_affinity_failures", int64(relFails))
	w.logf("reconcile mode=%s poolsFresh=%v writes=%d faults=%d err=%v", mode, poolsFresh, len(writes), nf, err != nil)
	if len(unexpected) > 0 {
		c.Inconclusive("controller used an API verb the harness server does not model: " + unexpected[0])
		return
	}

	// pre/post for the verdict
	var pre, post map[string]pview
	if poolsFresh {
		pre, post = views(serverPre), views(serverPost)
	} else {
		pre = views(shownPre)
		bel := map[string]*v3.IPPool{}
		for k, p := range shownPre {
			bel[k] = p
		}
		for _, wr := range writes {
			if !wr.Acked {
				continue
			}
			if wr.Removed {
				delete(bel, wr.Name)
			} else if wr.result != nil {
				bel[wr.Name] = wr.result
			}
		}
		post = views(bel)
	}
	// blocks the controller was shown that really exist (before and after the pass)
	var blks []*net.IPNet
	var blkNames []string
	for n, cidr := range shownBlocks {
		if _, ok := blocksPost[n]; !ok {
			continue
		}
		if _, bn, e := net.ParseCIDR(cidr); e == nil {
			blks = append(blks, bn)
			blkNames = append(blkNames, cidr)
		}
	}
	sort.Strings(blkNames)
	w.judge(pre, post, blks, err, poolsFresh, func() map[string]any {
		return map[string]any{"ops": w.ops, "mode": mode, "pre": listViews(pre), "post": listViews(post), "writes": writes,
			"blocks_shown_and_present": blkNames, "reconcile_error": fmt.Sprint(err),
			"server_post": listViews(views(serverPost))}
	})

	// Observation only: overlapping allocatable pools on the API server after a stale pass.
	sp := views(serverPost)
	ns := sortedNames(sp)
	for i, a := range ns {
		for _, b := range ns[i+1:] {
			if sp[a].alloc() && sp[b].alloc() && overlap(sp[a].net, sp[b].net) && !w.serverOverlapKnown[a+"|"+b] {
				w.serverOverlapKnown[a+"|"+b] = true
				if poolsFresh {
					c.Count("fresh_server_overlap_new", 1) // would also be a verdict (a) above
				} else {
					c.Count("stale_induced_server_overlap", 1)
				}
			}
		}
	}
}

// liveRun drives the controller's real Run loop.  Wall-clock sleeps here only pace the feeding of
// notifications; nothing is judged on timing.
func (w *world) liveRun(steps int) {
	s := w.s
	s.mu.Lock()
	s.pWriteFault, s.pRelFault = 0, 0
	s.mu.Unlock()
	// A separate controller instance with its own client: once stopped, whatever pass is still in
	// flight on its worker goroutine is cut off from the server, so it cannot interleave with the
	// single-threaded judged steps that follow.
	closed := &atomic.Bool{}
	ctx, cancel := context.WithCancel(context.Background())
	defer cancel()
	lc := ippool.NewController(ctx, newClientset(s, true, closed), w.pools, w.blocks, &fakeIPAM{s: s, live: true, closed: closed})
	stop := make(chan struct{})
	done := make(chan struct{})
	go func() {
		defer close(done)
		lc.Run(stop)
	}()
	settle := func() {
		stable := 0
		for i := 0; i < 200 && stable < 3; i++ {
			s.mu.Lock()
			before := s.rv
			s.mu.Unlock()
			w.syncPools(true)
			w.syncBlocks(true)
			time.Sleep(2 * time.Millisecond)
			s.mu.Lock()
			after := s.rv
			s.mu.Unlock()
			if after == before {
				stable++
			} else {
				stable = 0
			}
		}
	}
	for i := 0; i < steps; i++ {
		w.userStep()
		if w.c.R.Intn(3) != 0 {
			w.syncPools(true)
			w.syncBlocks(true)
		}
		if w.c.R.Intn(4) == 0 {
			settle()
		}
	}
	settle()
	closed.Store(true)
	close(stop)
	select {
	case <-done:
	case <-time.After(20 * time.Second):
		w.c.Inconclusive("live Run() did not stop")
	}
	s.mu.Lock()
	n := len(s.writes)
	s.writes = nil
	s.mu.Unlock()
	w.c.Count("live_runs", 1)
	w.c.Count("live_controller_writes", int64(n))
	w.logf("live-run steps=%d controller_writes=%d", steps, n)
	w.stale = 2 // force the next judged reconcile to start from fresh caches
}

func sameRVs(a, b map[string]*v3.IPPool) bool {
	if len(a) != len(b) {
		return false
	}
	for k, p := range a {
		q, ok := b[k]
		if !ok || q.ResourceVersion != p.ResourceVersion || q.UID != p.UID {
			return false
		}
	}
	return true
}

func inside(blk *net.IPNet, pool *net.IPNet) bool {
	return pool != nil && len(blk.IP) == len(pool.IP) && pool.Contains(blk.IP)
}

func (w *world) judge(pre, post map[string]pview, blks []*net.IPNet, err error, fresh bool, detail func() map[string]any) {
	c := w.c
	names := sortedNames(post)
	hasBlock := func(v pview) bool {
		for _, b := range blks {
			if inside(b, normNet(v.net)) {
				return true
			}
		}
		return false
	}
	viol := func(key, f string, a ...any) {
		d := detail()
		d["clause"] = key
		c.Violationf(key, d, f, a...)
	}

	// (a) no new overlapping allocatable pair
	for i, a := range names {
		for _, b := range names[i+1:] {
			pa, pb := post[a], post[b]
			if !overlap(pa.net, pb.net) {
				continue
			}
			w.sawOverlapReconcile = true
			c.Count("overlap_pairs_judged", 1)
			if pa.Created == pb.Created {
				c.Count("overlap_pairs_same_creation_time", 1)
			}
			if pa.alloc() && pb.alloc() {
				qa, oka := pre[a]
				qb, okb := pre[b]
				if !(oka && okb && qa.alloc() && qb.alloc()) {
					viol("overlapping-allocatable-pools", "after reconcile pools %s (%s) and %s (%s) are both allocatable and overlap", a, pa.CIDR, b, pb.CIDR)
					return
				}
			}
		}
	}

	// demotedByOlder: the pool overlapped, already before the pass, another allocatable pool that is not
	// newer and that stays allocatable (two overlapping allocatable pools can pre-exist after failed
	// writes or stale-cache passes).  Resolving that in favour of the older pool is what the statement
	// asks for: the loser may lose Allocatable and its finalizer, whoever else then fills the freed space.
	demotedByOlder := func(n string) bool {
		p, ok := pre[n]
		if !ok || !p.alloc() {
			return false
		}
		for m, o := range pre {
			if m == n || !o.alloc() || !overlap(o.net, p.net) || o.Created > p.Created {
				continue
			}
			if q, ok := post[m]; ok && q.alloc() {
				return true
			}
		}
		return false
	}

	// (b) an allocatable pool is not displaced by a newer pool
	for _, n := range sortedNames(pre) {
		p := pre[n]
		if !p.alloc() {
			continue
		}
		// non-vacuity: somebody overlapping is waiting to take over
		for _, m := range names {
			if m != n && overlap(post[m].net, p.net) && !post[m].Disabled && !post[m].Deleting {
				c.Count("displacement_candidates", 1)
				break
			}
		}
		q, ok := post[n]
		if !ok || q.Disabled || q.Deleting || q.alloc() {
			continue
		}
		if demotedByOlder(n) {
			c.Count("lost_allocatable_to_older_pool", 1)
			continue
		}
		explained := false
		for _, m := range names {
			o := post[m]
			if m == n || !o.alloc() || !overlap(o.net, p.net) {
				continue
			}
			op, had := pre[m]
			wasAlloc := had && op.alloc()
			if (!wasAlloc && o.Created >= p.Created) || (wasAlloc && o.Created > p.Created) {
				viol("allocatable-pool-displaced", "pool %s (%s, created t=%d) was allocatable, is enabled and not deleting, but lost Allocatable to overlapping pool %s (%s, created t=%d, allocatable before: %v)",
					n, p.CIDR, p.Created, m, o.CIDR, o.Created, wasAlloc)
				return
			}
			explained = true
		}
		if !explained {
			c.Count("lost_allocatable_without_winner", 1)
		} else {
			c.Count("lost_allocatable_to_older_pool", 1)
		}
	}

	// (c) a terminating pool masks overlapping pools until it is gone
	for _, tname := range sortedNames(pre) {
		t := pre[tname]
		if !t.Deleting || t.Disabled {
			continue
		}
		if _, still := post[tname]; !still {
			continue
		}
		for _, m := range names {
			if m == tname {
				continue
			}
			b := post[m]
			if !overlap(b.net, t.net) || b.Disabled || b.Deleting {
				continue
			}
			bp, had := pre[m]
			if had && bp.alloc() {
				continue
			}
			c.Count("terminating_mask_checks", 1)
			if b.alloc() {
				viol("terminating-pool-not-masking", "pool %s (%s) became allocatable while overlapping pool %s (%s) is terminating and still exists", m, b.CIDR, tname, t.CIDR)
				return
			}
		}
	}

	// (d) finalizer
	for _, n := range sortedNames(pre) {
		p := pre[n]
		if p.Deleting && p.Fin && w.guarded[n] && hasBlock(p) {
			c.Count("finalizer_hold_checks", 1)
			q, ok := post[n]
			if !ok {
				viol("pool-deleted-with-blocks", "pool %s (%s) was deleted while allocatable, still contains a block the controller was shown, and has been removed", n, p.CIDR)
				return
			}
			if !q.Fin {
				viol("finalizer-dropped-with-blocks", "terminating pool %s (%s) still contains a block the controller was shown but lost the controller's finalizer", n, p.CIDR)
				return
			}
		}
		if p.alloc() && p.Fin && hasBlock(p) && !demotedByOlder(n) {
			if q, ok := post[n]; ok && q.alloc() {
				c.Count("finalizer_keep_checks", 1)
				if !q.Fin {
					viol("finalizer-stripped-from-allocatable", "pool %s (%s) stayed allocatable and contains a block but lost its finalizer", n, p.CIDR)
					return
				}
			}
		}
	}
	if err == nil {
		for _, n := range names {
			q := post[n]
			if q.alloc() && hasBlock(q) {
				c.Count("finalizer_present_checks", 1)
				if !q.Fin {
					viol("allocatable-without-finalizer", "after an error-free reconcile allocatable pool %s (%s) contains a block but has no finalizer", n, q.CIDR)
					return
				}
			}
		}
	}
	for _, n := range names {
		if p, had := pre[n]; post[n].alloc() && !(had && p.alloc()) {
			c.Count("pools_became_allocatable", 1)
		}
	}
}

func normNet(n *net.IPNet) *net.IPNet { return n }

func newClientset(s *server, live bool, closed *atomic.Bool) *fake.Clientset {
	cli := fake.NewSimpleClientset()
	cli.PrependReactor("*", "ippools", func(a k8stesting.Action) (bool, runtime.Object, error) {
		return s.react(a, live, closed)
	})
	return cli
}

func run(c *harness.Case) {
	r := c.R
	s := newServer()
	s.draw = r.Float64
	s.drawN = r.Intn
	w := &world{c: c, s: s, pools: newFakeInformer(), blocks: newFakeInformer(), guarded: map[string]bool{},
		v4base: 16 + r.Intn(200), serverOverlapKnown: map[string]bool{}}
	w.names = r.Perm(40)
	cli := newClientset(s, false, nil)
	ctx, cancel := context.WithCancel(context.Background())
	defer cancel()
	ctrl := ippool.NewController(ctx, cli, w.pools, w.blocks, &fakeIPAM{s: s})
	ic, ok := ctrl.(*ippool.IPPoolController)
	if !ok {
		c.Inconclusive("NewController no longer returns *IPPoolController")
		return
	}
	w.ctrl = ic

	steps := 30 + r.Intn(c.Pick(40, 70))
	if c.Index%12 == 11 {
		// Live sub-run (race detection and crash-freedom only, no verdict while it runs): the real
		// Run() loop with its workqueue and worker goroutine, fed by informer-style notifications,
		// concurrently with user operations.  Afterwards the usual judged passes follow.
		w.liveRun(steps / 2)
		steps = 6
	}
	for i := 0; i < steps && !c.Failed(); i++ {
		if r.Intn(100) < 36 {
			w.reconcile(false, false)
		} else {
			w.userStep()
		}
	}
	// settle: error-free passes on fresh caches, still judged
	for k := 0; k < 3 && !c.Failed(); k++ {
		w.reconcile(true, true)
	}
	if !c.Failed() {
		// The third settle pass must have been a fixpoint for conditions (observation only).
		before := s.snapshotPools()
		w.syncPools(false)
		w.syncBlocks(false)
		_ = w.ctrl.VerifReconcile()
		if sameRVs(before, s.snapshotPools()) {
			c.Count("settled_fixpoint", 1)
		} else {
			c.Count("settled_not_fixpoint", 1)
		}
	}
	if w.sawOverlapReconcile {
		c.NonTrivial(strings.Join(w.ops, ";"))
	}
	final := listViews(views(s.snapshotPools()))
	shape := []string{}
	for _, v := range final {
		shape = append(shape, fmt.Sprintf("%s|%s|%v|%v", v.CIDR, v.Cond, v.Disabled, v.Deleting))
	}
	sort.Strings(shape)
	c.Distinct("final_pool_states", strings.Join(shape, ","))
	if len(w.ops) > 14 {
		c.Sample(map[string]any{"ops_head": w.ops[:14], "n_ops": len(w.ops), "final": final})
	} else {
		c.Sample(map[string]any{"ops": w.ops, "final": final})
	}
}

func main() {
	logrus.SetOutput(io.Discard)
	logrus.SetLevel(logrus.PanicLevel)
	harness.Main(harness.Check{
		ID:    "C39",
		Level: "exploration",
		Rule: "one case = one PRNG history of 30-70 (thorough 30-100) steps over up to 7 live pools drawn from a tiny CIDR tree (10.x.0.0/20 with /20../26 sub-prefixes, fd00:39::/116 with /116../122) " +
			"so that identical, nested and disjoint pools are all common; creation times advance 0..3 s per create (ties frequent); steps: create (maybe disabled / foreign finalizer), toggle disabled, delete, " +
			"remove foreign finalizer, IPAM block claim inside a usable pool, block delete, reconcile (fresh or stale pool/block caches, write faults conflict/timeout/lost-reply, ReleasePoolAffinities failures); " +
			"non-trivial = at least one reconcile judged an overlapping pool pair; distinct by operation list",
		Assumptions: []string{
			"the harness's API server (reactor on the fake projectcalico clientset) models resourceVersion conflicts, the status sub-resource, immutable CIDR, finalizer/deletionTimestamp semantics; no admission webhooks",
			"creation timestamps are non-decreasing in creation order (single API server clock)",
			"fake IPAM: ReleasePoolAffinities deletes the empty blocks of the pool or fails; blocks are claimed only from pools calico IPAM's filterIPPool accepts",
			"informer caches are snapshots of an earlier API-server state (pools and blocks independently), never per-object reordered",
		},
		Cases: func(tier string) int {
			if tier == "thorough" {
				return 30000
			}
			return 1200
		},
		Run: run,
		Floors: map[string]int64{
			"reconciles": 2000, "controller_writes": 2000, "overlap_pairs_judged": 2000, "pools_became_allocatable": 300,
			"terminating_mask_checks": 50, "finalizer_hold_checks": 30, "displacement_candidates": 300, "write_faults_injected": 100,
			"live_runs": 10, "live_controller_writes": 50,
		},
	})
}

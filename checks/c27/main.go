// C27 — Felix configuration resolves by source priority, deterministically.
//
// Drives the real felix/config: config.New(), Config.UpdateFrom(raw, source) for all six sources,
// Config.OverrideParam, LoadConfigFromEnvironment and LoadConfigFileData, over generated assignments
// of {absent, valid, other valid, invalid, none/None/NONE} raw values with case-variant keys to a
// sample of parameters of every parameter kind (every parameter in the thorough tier).
//
// Oracles
//  (T) tag-derived, per parameter: the winner is the highest-priority source (internal override,
//      environment, config file, per-host, per-selector, global) that sets the parameter, datastore
//      sources not counting for local-only parameters.  The field must equal: the value param.Parse
//      returns for the winner's raw value; the Go zero value when the raw value is "none" (any case);
//      the field of a fresh config.New() when there is no winner; the default written in the struct tag
//      when the raw value does not parse and the parameter is not die-on-fail.  A fatal winner (parse failure of a die-on-fail
//      parameter, "none" for a non-zero parameter) must surface as an error and Config.Err.
//  (M1) projection: a fresh Config given only the winners' (key,value) pairs is field-for-field equal.
//  (M2) shadow mutation: replacing / removing / adding shadowed lower-priority values, and any
//      datastore value of a local-only parameter (even a fatal one), changes no field.
//  (M3) order: feeding the sources in another order, with stale versions of a source delivered first
//      (UpdateFrom replaces a source's map) and the internal override delivered through OverrideParam,
//      ends in the same fields; every UpdateFrom's `changed` result is true iff some tagged field
//      differs between before and after that call.
//
// param.Parse (the per-kind syntax of values) is trusted: the property is about resolution, not about
// value syntax.  Field comparison uses a canonical rendering written here (not the repo's
// SafeParamsEqual).
//
// Deliberately not checked:
//   - two case-variants of the SAME key inside ONE source (e.g. "LogFilePath" and "logfilepath" both in the
//     config file): resolve() then depends on Go map iteration order; the env loader lower-cases names and
//     datastore keys are struct fields, so only a hand-written config file can contain this.  Not generated.
//   - fatal values (invalid value of a die-on-fail parameter, "none" for a non-zero parameter) in
//     SHADOWED positions: UpdateFrom documents that shadowed values are ignored "after validation", and
//     they do make resolve() fail.  Generated only at the winning position (and in datastore sources of
//     local-only parameters, where the statement says they are ignored).
//   - empty-string values (UpdateFrom drops them), Config.RawValues(), unknown parameter pass-through,
//     Validate(), state of a Config after a fatal error, recovery after a fatal error (Err is sticky).
//   - k8s-service: entries of server lists (network lookup).
package main

import (
	"errors"
	"fmt"
	"io"
	"net"
	"reflect"
	"regexp"
	"sort"
	"strconv"
	"strings"

	"github.com/sirupsen/logrus"
	v1 "k8s.io/api/core/v1"

	"github.com/projectcalico/calico/felix/config"

	"verif/internal/harness"
)

// The statement's priority order, highest first, and which sources are local.
var prio = []config.Source{config.InternalOverride, config.EnvironmentVariable, config.ConfigFile,
	config.DatastorePerHost, config.DatastorePerSelector, config.DatastoreGlobal}

func isLocal(s config.Source) bool {
	return s == config.InternalOverride || s == config.EnvironmentVariable || s == config.ConfigFile
}

func rank(s config.Source) int {
	for i, x := range prio {
		if x == s {
			return i
		}
	}
	return -1
}

type pinfo struct {
	name     string
	kind     string
	kparams  string
	defStr   string
	flags    string
	fieldIdx int
	meta     *config.Metadata
	param    config.Param
	cands    []string
}

var params []*pinfo
var kinds []string
var byKind = map[string][]*pinfo{}

var tagRe = regexp.MustCompile(`^([^;(]+)(?:\(([^)]*)\))?;([^;]*)(?:;([^;]*))?$`)

func kindCandidates(p *pinfo) []string {
	switch p.kind {
	case "bool", "*bool":
		return []string{"true", "false", "Yes", "0", "T", "n", "maybe", "2"}
	case "int":
		out := []string{"0", "1", "7", "100", "65535", "0x10", "-1", "abc", "1.5", "99999999999999999999"}
		for _, r := range strings.Split(p.kparams, ",") {
			for _, b := range strings.Split(r, ":") {
				b = strings.TrimSpace(b)
				if n, err := strconv.Atoi(b); err == nil {
					out = append(out, strconv.Itoa(n), strconv.Itoa(n-1), strconv.Itoa(n+1))
				}
			}
		}
		return out
	case "int32":
		return []string{"5", "-7", "0", "2147483647", "2147483648", "x"}
	case "mark-bitmask":
		return []string{"0xff000000", "0xffff0000", "0xf0", "4294967295", "0x3", "0x1", "0", "zz"}
	case "float":
		return []string{"1.5", "2", "1e3", "-0.25", "abc"}
	case "seconds":
		return []string{"10", "0.5", "90", "3600", "0", "-1", "abc", "1e12"}
	case "millis":
		return []string{"100", "0.5", "50", "x"}
	case "iface-list":
		return []string{"cali", "tap,cali", "eni,azv", "this-name-is-way-too-long", "a b"}
	case "iface-list-regexp":
		return []string{"kube-ipvs0", "/^veth.*/,docker0", "a,b,c", "/[/", "bad name!"}
	case "log-rate":
		return []string{"100/second", "5/minute", "1/day", "0/second", "fast"}
	case "regexp":
		return []string{"^eth.*", "foo|bar", ".*", "[", "(?P<"}
	case "iface-param":
		return []string{"wg0", "eth+", "wireguard.cali", "name with space", "waytoolonginterfacename"}
	case "file":
		return []string{"/bin/sh", "/etc/passwd", "/etc/hostname", "sh", "/nonexistent/verif/file", "no-such-verif-binary"}
	case "authority":
		return []string{"10.0.0.1:2379", "host:1", "nohostport", "http://x/"}
	case "ipv4":
		return []string{"10.0.0.1", "192.168.1.1", "fe80::1", "10.0.0", "x"}
	case "ipv6":
		return []string{"fe80::1", "2001:db8::2", "10.0.0.1", "zz"}
	case "endpoint-list":
		return []string{"http://10.0.0.1:2379", "https://a:1,https://b:2", "ftp://x", "notaurl", "http://"}
	case "port-list":
		return []string{"tcp:22", "udp:68,tcp:179", "80", "tcp:10.0.0.0/8:22", "tcp:99999", "xyz:1", "tcp:"}
	case "portrange":
		return []string{"20000:29999", "1000:2000", "4000", "5:1", "abc", "0:70000"}
	case "portrange-list":
		return []string{"30000:32767", "1:2,5:6", "80", "x", "9:1"}
	case "hostname":
		return []string{"my-host", "host.example.com", "10.1.2.3", "bad host!", "a/b"}
	case "host-address":
		return []string{"localhost", "10.0.0.1", "::1", "bad addr!", strings.Repeat("a", 70)}
	case "region":
		return []string{"region1", "eu", "Bad_Region", "-x", strings.Repeat("r", 60)}
	case "oneof":
		opts := strings.Split(p.kparams, ",")
		out := []string{"bogus", "0"}
		for _, o := range opts {
			out = append(out, o, strings.ToLower(o), strings.ToUpper(o))
		}
		return out
	case "string":
		return []string{"anything", "Some Value", "x=y", "line1\nline2"}
	case "cidr-list":
		return []string{"10.0.0.0/8", "10.0.0.0/8, 192.168.0.0/16", "fe80::/64", "10.1.2.3", "10.0.0.0/33", "x"}
	case "server-list":
		return []string{"10.0.0.1", "10.0.0.1:53,[fd00::1]:54", "fd00::2", "nonip", "10.0.0.1:99999"}
	case "string-slice":
		return []string{"a,b", "eth0", "x, y ,z"}
	case "interface-name-slice":
		return []string{"eth0,eth1", "docker0", "bad name!", "waytoolonginterfacename"}
	case "iface-filter-slice":
		return []string{"docker+", "eth0,cali+", "bad name!"}
	case "route-table-range":
		return []string{"1-250", "10-20", "abc", "5-1", "0-0", "1-4294967295"}
	case "route-table-ranges":
		return []string{"1-250", "1-10,20-30", "x", "9-1"}
	case "keyvaluelist":
		return []string{"a=b,c=d", "k=v", "TCPEstablished=2h", "novalue", "=", "a=b=c"}
	case "keydurationlist":
		return []string{"a=10s,b=1m", "InternalDataplaneMainLoop=90s", "a=xyz", "a"}
	case "dscp":
		return []string{"23", "AF11", "46", "0", "99", "zz"}
	}
	return []string{"1", "x"}
}

func loadParams() error {
	known := config.Params()
	t := reflect.TypeFor[config.Config]()
	for i := 0; i < t.NumField(); i++ {
		f := t.Field(i)
		tag := f.Tag.Get("config")
		if tag == "" {
			continue
		}
		m := tagRe.FindStringSubmatch(tag)
		if m == nil {
			return fmt.Errorf("cannot parse tag of %s", f.Name)
		}
		par, ok := known[strings.ToLower(f.Name)]
		if !ok {
			return fmt.Errorf("parameter %s not in config.Params()", f.Name)
		}
		p := &pinfo{name: f.Name, kind: m[1], kparams: m[2], defStr: m[3], flags: m[4], fieldIdx: i, meta: par.GetMetadata(), param: par}
		p.cands = kindCandidates(p)
		if p.defStr != "" {
			p.cands = append(p.cands, p.defStr)
		}
		params = append(params, p)
		if _, ok := byKind[p.kind]; !ok {
			kinds = append(kinds, p.kind)
		}
		byKind[p.kind] = append(byKind[p.kind], p)
	}
	sort.Strings(kinds)
	if len(params) < 100 {
		return fmt.Errorf("only %d parameters found", len(params))
	}
	return nil
}

// canon renders a config field value canonically (pointers dereferenced, maps sorted, regexps by
// source text, IPs by 16-byte form) so that two values can be compared as strings.
func canon(v reflect.Value) string {
	if !v.IsValid() {
		return "<invalid>"
	}
	switch v.Type() {
	case reflect.TypeFor[*regexp.Regexp]():
		if v.IsNil() {
			return "re(nil)"
		}
		return "re(" + v.Interface().(*regexp.Regexp).String() + ")"
	case reflect.TypeFor[net.IP]():
		ip := v.Interface().(net.IP)
		if ip == nil {
			return "ip(nil)"
		}
		if ip16 := ip.To16(); ip16 != nil {
			return "ip(" + ip16.String() + ")"
		}
		return fmt.Sprintf("ip(raw %x)", []byte(ip))
	}
	switch v.Kind() {
	case reflect.Ptr, reflect.Interface:
		if v.IsNil() {
			return "nil"
		}
		return "&" + canon(v.Elem())
	case reflect.Slice:
		if v.IsNil() {
			return "nilslice"
		}
		fallthrough
	case reflect.Array:
		parts := make([]string, v.Len())
		for i := range parts {
			parts[i] = canon(v.Index(i))
		}
		return "[" + strings.Join(parts, " | ") + "]"
	case reflect.Map:
		if v.IsNil() {
			return "nilmap"
		}
		parts := make([]string, 0, v.Len())
		it := v.MapRange()
		for it.Next() {
			parts = append(parts, canon(it.Key())+"=>"+canon(it.Value()))
		}
		sort.Strings(parts)
		return "{" + strings.Join(parts, " | ") + "}"
	case reflect.Struct:
		parts := make([]string, v.NumField())
		for i := range parts {
			parts[i] = v.Type().Field(i).Name + ":" + canon(v.Field(i))
		}
		return "{" + strings.Join(parts, ", ") + "}"
	case reflect.String:
		return strconv.Quote(v.String())
	case reflect.Bool:
		return strconv.FormatBool(v.Bool())
	case reflect.Int, reflect.Int8, reflect.Int16, reflect.Int32, reflect.Int64:
		return strconv.FormatInt(v.Int(), 10)
	case reflect.Uint, reflect.Uint8, reflect.Uint16, reflect.Uint32, reflect.Uint64, reflect.Uintptr:
		return strconv.FormatUint(v.Uint(), 10)
	case reflect.Float32, reflect.Float64:
		return strconv.FormatFloat(v.Float(), 'g', -1, 64)
	}
	return fmt.Sprintf("%#v", v)
}

// fields renders every tagged field of cfg.
func fields(cfg *config.Config) []string {
	v := reflect.ValueOf(cfg).Elem()
	out := make([]string, len(params))
	for i, p := range params {
		out[i] = canon(v.Field(p.fieldIdx))
	}
	return out
}

func diff(a, b []string) []string {
	var d []string
	for i := range a {
		if a[i] != b[i] {
			d = append(d, fmt.Sprintf("%s: %s vs %s", params[i].name, trunc(a[i]), trunc(b[i])))
		}
	}
	return d
}

func trunc(s string) string {
	if len(s) > 160 {
		return s[:160] + "..."
	}
	return s
}

type class int

const (
	clParsed class = iota
	clNoneZero
	clInvalidDefault
	clFatal
)

// classify says what the statement prescribes for raw value `raw` of p at the winning position.
func classify(p *pinfo, raw string) (class, reflect.Value) {
	if strings.ToLower(raw) == "none" {
		if p.meta.NonZero {
			return clFatal, reflect.Value{}
		}
		return clNoneZero, reflect.Value{}
	}
	val, err := p.param.Parse(raw)
	if err != nil {
		if p.meta.DieOnParseFailure {
			return clFatal, reflect.Value{}
		}
		return clInvalidDefault, reflect.Value{}
	}
	return clParsed, reflect.ValueOf(val)
}

// tagDefault is the default written in the struct tag (the zero value when the tag has none).  It
// differs from the field of a fresh Config only for FelixHostname, whose unset value is the kernel
// hostname while its tag default is empty.
func tagDefault(p *pinfo, zeroCfg reflect.Value) string {
	if p.defStr == "" {
		return canon(zeroCfg.Field(p.fieldIdx))
	}
	if strings.Contains(p.flags, "skip-default-validation") {
		return canon(reflect.ValueOf(p.defStr))
	}
	v, err := p.param.Parse(p.defStr)
	if err != nil || v == nil {
		return canon(zeroCfg.Field(p.fieldIdx))
	}
	return canon(reflect.ValueOf(v))
}

// assignment: per source, key (as written) -> raw value.  keys of one parameter are unique per source.
type assignment map[config.Source]map[string]string

func (a assignment) clone() assignment {
	out := assignment{}
	for s, m := range a {
		out[s] = map[string]string{}
		for k, v := range m {
			out[s][k] = v
		}
	}
	return out
}

func lookup(m map[string]string, p *pinfo) (key, val string, ok bool) {
	ln := strings.ToLower(p.name)
	for k, v := range m {
		if strings.ToLower(k) == ln {
			return k, v, true
		}
	}
	return "", "", false
}

func winner(a assignment, p *pinfo) (config.Source, string, bool) {
	for _, s := range prio {
		if p.meta.Local && !isLocal(s) {
			continue
		}
		if _, v, ok := lookup(a[s], p); ok {
			return s, v, true
		}
	}
	return 0, "", false
}

func keyVariant(c *harness.Case, name string, s config.Source) string {
	if s == config.EnvironmentVariable {
		return strings.ToLower(name) // what LoadConfigFromEnvironment produces
	}
	switch c.R.Intn(6) {
	case 0:
		return strings.ToLower(name)
	case 1:
		return strings.ToUpper(name)
	case 2:
		b := []byte(name)
		for i := range b {
			if c.R.Intn(2) == 0 {
				b[i] = strings.ToUpper(string(b[i]))[0]
			} else {
				b[i] = strings.ToLower(string(b[i]))[0]
			}
		}
		return string(b)
	}
	return name
}

func pickValue(c *harness.Case, p *pinfo) string {
	if c.R.Intn(7) == 0 {
		return []string{"none", "None", "NONE", "nOnE"}[c.R.Intn(4)]
	}
	return p.cands[c.R.Intn(len(p.cands))]
}

func fatal(p *pinfo, raw string) bool {
	cl, _ := classify(p, raw)
	return cl == clFatal
}

// iniSafe reports whether v survives an ini round trip unquoted in an obvious way; other values are
// fed to the config-file source directly as a map.
var iniSafeRe = regexp.MustCompile(`^[A-Za-z0-9_.:/,+=^$|*()\[\]<>?-]+$`)

// throughLoaders passes the environment and config-file maps through the real loaders.
func throughLoaders(c *harness.Case, s config.Source, m map[string]string) map[string]string {
	switch s {
	case config.EnvironmentVariable:
		env := []string{"PATH=/bin", "FELIXX_foo=bar", "malformed"}
		keys := sortedKeys(m)
		for _, k := range keys {
			prefix := []string{"FELIX_", "felix_", "Felix_"}[c.R.Intn(3)]
			env = append(env, prefix+strings.ToUpper(k)+"="+m[k])
		}
		out := config.LoadConfigFromEnvironment(env)
		c.Count("env_loader_vars", int64(len(keys)))
		return out
	case config.ConfigFile:
		for _, v := range m {
			if !iniSafeRe.MatchString(v) {
				return m
			}
		}
		var sb strings.Builder
		sb.WriteString("# generated\n[global]\n")
		for _, k := range sortedKeys(m) {
			sb.WriteString(k + " = " + m[k] + "\n")
		}
		out, err := config.LoadConfigFileData([]byte(sb.String()))
		if err != nil || !reflect.DeepEqual(out, m) {
			c.Count("file_loader_fallback", 1)
			return m
		}
		c.Count("file_loader_keys", int64(len(m)))
		return out
	}
	return m
}

func sortedKeys(m map[string]string) []string {
	keys := make([]string, 0, len(m))
	for k := range m {
		keys = append(keys, k)
	}
	sort.Strings(keys)
	return keys
}

func sourceName(s config.Source) string { return s.String() }

func describe(a assignment, chosen []*pinfo) map[string]any {
	out := map[string]any{}
	for _, p := range chosen {
		per := map[string]string{}
		for _, s := range prio {
			if k, v, ok := lookup(a[s], p); ok {
				per[sourceName(s)] = k + "=" + v
			}
		}
		if len(per) > 0 {
			out[p.name] = per
		}
	}
	return out
}

func run(c *harness.Case) {
	// ---- choose parameters: every kind gets its turn; thorough uses all parameters regularly
	var chosen []*pinfo
	switch {
	case c.Thorough() && c.Index%8 == 0:
		chosen = params
	default:
		n := 6 + c.R.Intn(10)
		seen := map[string]bool{}
		k0 := kinds[c.Index%len(kinds)] // make sure every kind is used early and often
		first := byKind[k0][c.R.Intn(len(byKind[k0]))]
		chosen = append(chosen, first)
		seen[first.name] = true
		for len(chosen) < n {
			var p *pinfo
			if c.R.Intn(2) == 0 {
				k := kinds[c.R.Intn(len(kinds))]
				p = byKind[k][c.R.Intn(len(byKind[k]))]
			} else {
				p = params[c.R.Intn(len(params))]
			}
			if !seen[p.name] {
				seen[p.name] = true
				chosen = append(chosen, p)
			}
		}
	}

	// ---- generate the assignment
	a := assignment{}
	for _, s := range prio {
		a[s] = map[string]string{}
	}
	wantFatal := c.R.Intn(12) == 0
	fatalPlaced := false
	density := 1 + c.R.Intn(4) // out of 5
	for _, p := range chosen {
		if c.R.Intn(10) == 0 {
			continue // nobody sets it
		}
		top := c.R.Intn(len(prio)) // the highest-priority source that mentions p: uniform over the six
		highest := true
		for si := top; si < len(prio); si++ {
			s := prio[si]
			if si > top && c.R.Intn(5) >= density {
				continue
			}
			counts := isLocal(s) || !p.meta.Local
			raw := pickValue(c, p)
			if fatal(p, raw) && counts {
				// fatal only at the winning position, at most one per case
				if !(highest && wantFatal && !fatalPlaced) {
					// replace by a non-fatal candidate
					ok := false
					for try := 0; try < 20; try++ {
						raw = pickValue(c, p)
						if !fatal(p, raw) {
							ok = true
							break
						}
					}
					if !ok {
						continue
					}
				} else {
					fatalPlaced = true
				}
			}
			a[s][keyVariant(c, p.name, s)] = raw
			if counts {
				highest = false
			}
		}
	}
	// noise: unknown parameters
	if c.R.Intn(2) == 0 {
		a[prio[c.R.Intn(len(prio))]]["VerifUnknownParam"] = "whatever"
	}
	// pass env / file through the real loaders; the loaded maps ARE the assignment from here on
	for _, s := range []config.Source{config.EnvironmentVariable, config.ConfigFile} {
		a[s] = throughLoaders(c, s, a[s])
	}

	detail := map[string]any{"assignment": describe(a, chosen)}
	if c.Index < 2 {
		small := chosen
		if len(small) > 6 {
			small = small[:6]
		}
		c.Sample(describe(a, small))
	}

	defaults := fields(config.New())

	// ---- expected values (T)
	type expect struct {
		p      *pinfo
		cl     class
		hasWin bool
		src    config.Source
		raw    string
		want   string
	}
	exps := make([]expect, 0, len(chosen))
	anyFatal := false
	idxOf := map[string]int{}
	for i, p := range params {
		idxOf[p.name] = i
	}
	zeroCfg := reflect.ValueOf(&config.Config{}).Elem()
	nShadow, nLocalDS, nCaseVar := 0, 0, 0
	for _, p := range chosen {
		e := expect{p: p}
		src, raw, ok := winner(a, p)
		e.hasWin, e.src, e.raw = ok, src, raw
		if !ok {
			e.cl = clInvalidDefault
			e.want = defaults[idxOf[p.name]]
		} else {
			cl, val := classify(p, raw)
			e.cl = cl
			switch cl {
			case clParsed:
				if val.IsValid() {
					e.want = canon(val)
				} else { // Parse returned untyped nil: the typed zero of the field
					e.want = canon(zeroCfg.Field(p.fieldIdx))
				}
			case clNoneZero:
				e.want = canon(zeroCfg.Field(p.fieldIdx))
			case clInvalidDefault:
				e.want = tagDefault(p, zeroCfg)
			case clFatal:
				anyFatal = true
			}
		}
		for _, s := range prio {
			if k, _, has := lookup(a[s], p); has {
				if k != p.name {
					nCaseVar++
				}
				if p.meta.Local && !isLocal(s) {
					nLocalDS++
				} else if ok && rank(s) > rank(src) {
					nShadow++
				}
			}
		}
		exps = append(exps, e)
	}
	nontrivial := nShadow > 0 || nLocalDS > 0
	if nontrivial {
		c.NonTrivial(fmt.Sprint(describe(a, chosen)))
	}
	c.Count("shadowed_values", int64(nShadow))
	c.Count("local_only_datastore_values", int64(nLocalDS))
	c.Count("case_variant_keys", int64(nCaseVar))

	// ---- run 1: every source once, PRNG order
	cache := map[*config.Config][]string{} // fields after the previous judged call on that Config
	feed := func(cfg *config.Config, s config.Source, m map[string]string, checkChanged bool, what string) (bool, error) {
		var before []string
		if checkChanged {
			before = cache[cfg]
			if before == nil {
				before = fields(cfg)
			}
		}
		changed, err := cfg.UpdateFrom(m, s)
		c.Count("updatefrom_calls", 1)
		if err == nil && checkChanged {
			after := fields(cfg)
			cache[cfg] = after
			d := diff(before, after)
			c.Count("changed_checks", 1)
			if changed != (len(d) > 0) {
				detail["call"] = what
				detail["fields_that_differ"] = d
				c.Violationf("changed-result-wrong", detail, "%s: UpdateFrom(%v) returned changed=%v but %d tagged fields differ before/after: %v",
					what, s, changed, len(d), d)
			}
		}
		return changed, err
	}
	order1 := c.R.Perm(len(prio))
	cfg1 := config.New()
	var lastErr error
	for _, i := range order1 {
		_, lastErr = feed(cfg1, prio[i], a[prio[i]], !anyFatal, "run1")
		if c.Failed() {
			return
		}
	}
	if anyFatal {
		c.Count("fatal_cases", 1)
		if lastErr == nil || cfg1.Err == nil {
			c.Violationf("fatal-value-not-reported", detail, "a fatal value at a winning position did not produce an error (err=%v, Config.Err=%v)", lastErr, cfg1.Err)
		}
		return
	}
	if lastErr != nil || cfg1.Err != nil {
		detail["err"] = fmt.Sprint(lastErr, " / ", cfg1.Err)
		c.Violationf("unexpected-error", detail, "no fatal value at any winning position, but UpdateFrom failed: %v / Config.Err=%v", lastErr, cfg1.Err)
		return
	}
	f1 := fields(cfg1)

	// (T)
	chosenSet := map[string]bool{}
	for _, e := range exps {
		chosenSet[e.p.name] = true
		got := f1[idxOf[e.p.name]]
		c.Count("params_judged", 1)
		switch {
		case !e.hasWin:
			c.Count("no_winner_default", 1)
		case e.cl == clParsed:
			c.Count("winner_parsed", 1)
		case e.cl == clNoneZero:
			c.Count("winner_none_zero", 1)
		case e.cl == clInvalidDefault:
			c.Count("winner_invalid_default", 1)
		}
		if e.hasWin {
			c.Count("winner_from_"+strings.ReplaceAll(sourceName(e.src), " ", "_"), 1)
			c.Distinct("kind_x_source_x_class", e.p.kind, int(e.src), int(e.cl))
		}
		if got != e.want {
			key := "wrong-value"
			switch {
			case !e.hasWin:
				key = "default-not-applied"
			case e.cl == clNoneZero:
				key = "none-not-zero"
			case e.cl == clInvalidDefault:
				key = "invalid-not-defaulted"
			}
			detail["parameter"] = e.p.name
			detail["winner_source"] = sourceName(e.src)
			detail["winner_raw"] = e.raw
			detail["got"] = got
			detail["want"] = e.want
			c.Violationf(key, detail, "%s (%s, local=%v): winner=%v raw=%q -> field %s, expected %s",
				e.p.name, e.p.kind, e.p.meta.Local, sourceName(e.src), e.raw, trunc(got), trunc(e.want))
			return
		}
	}
	// parameters nobody set must be at their defaults
	for i, p := range params {
		if !chosenSet[p.name] && f1[i] != defaults[i] {
			detail["parameter"] = p.name
			c.Violationf("untouched-parameter-changed", detail, "%s was not set by any source but is %s (default %s)", p.name, trunc(f1[i]), trunc(defaults[i]))
			return
		}
	}

	// (M1) projection to the winners
	proj := assignment{}
	for _, s := range prio {
		proj[s] = map[string]string{}
	}
	for _, e := range exps {
		if e.hasWin {
			k, v, _ := lookup(a[e.src], e.p)
			proj[e.src][k] = v
		}
	}
	cfg2 := config.New()
	for _, i := range c.R.Perm(len(prio)) {
		if _, err := feed(cfg2, prio[i], proj[prio[i]], false, "projection"); err != nil {
			c.Violationf("unexpected-error", detail, "projection to the winners failed: %v", err)
			return
		}
	}
	c.Count("metamorphic_comparisons", 1)
	if d := diff(f1, fields(cfg2)); len(d) > 0 {
		detail["differences"] = d
		c.Violationf("shadowed-value-affects-result", detail, "full assignment vs winners only differ: %v", d)
		return
	}

	// (M2) mutate everything that must not matter
	mut := a.clone()
	nMut := 0
	for _, e := range exps {
		p := e.p
		for _, s := range prio {
			ignoredLocal := p.meta.Local && !isLocal(s)
			shadowed := e.hasWin && rank(s) > rank(e.src)
			if !ignoredLocal && !shadowed {
				continue
			}
			k, _, has := lookup(mut[s], p)
			if s == config.EnvironmentVariable {
				if !has {
					k = strings.ToLower(p.name)
				}
			} else if !has {
				k = keyVariant(c, p.name, s)
			}
			switch c.R.Intn(4) {
			case 0:
				if has {
					delete(mut[s], k)
					nMut++
				}
			default:
				raw := pickValue(c, p)
				if !ignoredLocal && fatal(p, raw) {
					continue
				}
				mut[s][k] = raw
				nMut++
			}
		}
	}
	c.Count("mutated_irrelevant_values", int64(nMut))
	cfg3 := config.New()
	for _, i := range c.R.Perm(len(prio)) {
		if _, err := feed(cfg3, prio[i], mut[prio[i]], false, "shadow-mutation"); err != nil {
			detail["mutated_assignment"] = describe(mut, chosen)
			c.Violationf("shadowed-value-affects-result", detail, "after changing only shadowed / local-only-datastore values UpdateFrom failed: %v", err)
			return
		}
	}
	c.Count("metamorphic_comparisons", 1)
	if d := diff(f1, fields(cfg3)); len(d) > 0 {
		detail["mutated_assignment"] = describe(mut, chosen)
		detail["differences"] = d
		c.Violationf("shadowed-value-affects-result", detail, "changing only shadowed / local-only-datastore values changed the result: %v", d)
		return
	}

	// (M3) another order, incrementally: stale versions first, final versions last; overrides one by one
	type step struct {
		s     config.Source
		m     map[string]string
		final bool
	}
	var steps []step
	for _, s := range prio {
		if s == config.InternalOverride {
			continue
		}
		for k := c.R.Intn(3); k > 0; k-- {
			stale := map[string]string{}
			for _, key := range sortedKeys(a[s]) {
				v := a[s][key]
				switch c.R.Intn(3) {
				case 0: // missing in the stale version
				case 1:
					stale[key] = v
				default:
					// some other non-fatal value of the same parameter
					nv := v
					for _, p := range chosen {
						if strings.EqualFold(p.name, key) {
							for try := 0; try < 10; try++ {
								cand := pickValue(c, p)
								if !fatal(p, cand) {
									nv = cand
									break
								}
							}
						}
					}
					stale[key] = nv
				}
			}
			// keys that the final version of this source no longer has (a deleted setting must not linger)
			for _, p := range chosen {
				if _, _, has := lookup(a[s], p); has || c.R.Intn(4) != 0 {
					continue
				}
				for try := 0; try < 10; try++ {
					cand := pickValue(c, p)
					if !fatal(p, cand) {
						stale[keyVariant(c, p.name, s)] = cand
						c.Count("stale_keys_later_removed", 1)
						break
					}
				}
			}
			steps = append(steps, step{s, stale, false})
		}
	}
	c.R.Shuffle(len(steps), func(i, j int) { steps[i], steps[j] = steps[j], steps[i] })
	var finals []step
	for _, s := range prio {
		if s != config.InternalOverride {
			finals = append(finals, step{s, a[s], true})
		}
	}
	c.R.Shuffle(len(finals), func(i, j int) { finals[i], finals[j] = finals[j], finals[i] })
	// interleave: each final step goes after all stale steps of the same source
	for _, f := range finals {
		last := -1
		for i, st := range steps {
			if st.s == f.s && !st.final {
				last = i
			}
		}
		pos := last + 1 + c.R.Intn(len(steps)-last)
		steps = append(steps[:pos], append([]step{f}, steps[pos:]...)...)
	}
	cfg4 := config.New()
	ovKeys := sortedKeys(a[config.InternalOverride])
	c.R.Shuffle(len(ovKeys), func(i, j int) { ovKeys[i], ovKeys[j] = ovKeys[j], ovKeys[i] })
	ovAt := map[int][]string{}
	for _, k := range ovKeys {
		at := c.R.Intn(len(steps) + 1)
		ovAt[at] = append(ovAt[at], k)
	}
	applyOv := func(at int) bool {
		for _, k := range ovAt[at] {
			before := cache[cfg4]
			if before == nil {
				before = fields(cfg4)
			}
			changed, err := cfg4.OverrideParam(k, a[config.InternalOverride][k])
			c.Count("override_calls", 1)
			if err != nil {
				c.Violationf("unexpected-error", detail, "OverrideParam(%s) failed although no fatal value wins: %v", k, err)
				return false
			}
			after := fields(cfg4)
			cache[cfg4] = after
			d := diff(before, after)
			c.Count("changed_checks", 1)
			if changed != (len(d) > 0) {
				detail["fields_that_differ"] = d
				c.Violationf("changed-result-wrong", detail, "OverrideParam(%s) returned changed=%v but %d fields differ: %v", k, changed, len(d), d)
				return false
			}
		}
		return true
	}
	for i, st := range steps {
		if !applyOv(i) {
			return
		}
		if _, err := feed(cfg4, st.s, st.m, true, "incremental"); err != nil {
			// a stale version may contain a value that is fatal only while it is the winner: we exclude
			// fatal candidates above, so any error here is unexpected.
			c.Violationf("unexpected-error", detail, "incremental feed failed: %v", err)
			return
		}
		if c.Failed() {
			return
		}
	}
	if !applyOv(len(steps)) {
		return
	}
	c.Count("metamorphic_comparisons", 1)
	c.Distinct("feed_orders", fmt.Sprint(order1), len(steps))
	if d := diff(f1, fields(cfg4)); len(d) > 0 {
		detail["differences"] = d
		var ord []string
		for _, st := range steps {
			ord = append(ord, fmt.Sprintf("%v(final=%v,%d keys)", st.s, st.final, len(st.m)))
		}
		detail["incremental_order"] = ord
		c.Violationf("order-dependent-result", detail, "one-shot feed vs incremental feed in another order differ: %v", d)
		return
	}
}

func main() {
	logrus.SetOutput(io.Discard)
	logrus.SetLevel(logrus.PanicLevel)
	config.GetKubernetesService = func(ns, name string) (*v1.Service, error) {
		return nil, errors.New("verif: no kubernetes")
	}
	harness.Main(harness.Check{
		ID:    "C27",
		Level: "exploration",
		Rule: "each case picks 6-15 parameters (case i always includes a parameter of kind i mod #kinds; every 8th thorough case uses all parameters) and assigns, per source, absent / one of the kind's valid+invalid candidate strings / none-variants, " +
			"with case-variant keys, the environment and config-file sources passing through the real loaders; fatal values only at a winning position (1 case in 12); " +
			"non-trivial = at least one shadowed value or one datastore value of a local-only parameter; distinct by the whole assignment",
		Assumptions: []string{
			"param.Parse (value syntax per kind) is trusted and used to compute the expected value",
			"same-source duplicate keys differing only in case, fatal values in shadowed positions and empty-string values are not generated (see 'Deliberately not checked')",
			"file-kind parameters are validated against this sandbox's filesystem (/bin/sh, /etc/passwd exist)",
		},
		Setup: func(string) error { return loadParams() },
		Cases: func(tier string) int {
			if tier == "thorough" {
				return 60000
			}
			return 3000
		},
		Run: run,
		Floors: map[string]int64{"updatefrom_calls": 5000, "params_judged": 2500, "shadowed_values": 1000, "local_only_datastore_values": 100,
			"winner_parsed": 800, "winner_none_zero": 100, "winner_invalid_default": 200, "fatal_cases": 5, "changed_checks": 2000,
			"metamorphic_comparisons": 600, "case_variant_keys": 800, "stale_keys_later_removed": 1000},
	})
}

// C04 — IP set contents equal the addresses selected by the rule.
//
// Drives the real labelindex.SelectorAndNamedPortIndex (both overlap-suppression modes) with generated
// histories of IP set, endpoint, network set and parent (profile label) updates and compares, after
// every operation, the membership implied by the OnMemberAdded/OnMemberRemoved callback stream with
// an independently computed expectation.
//
// Deliberately not checked:
//   - the state *inside* one operation (the index documents that it "may temporarily over count");
//     only the callback alternation per member is judged mid-operation, the contents only between
//     operations;
//   - UpdateIPSet with a changed selector/named port for an ID that is still active (the code says this
//     "isn't currently possible in Felix" because IDs are hashes of the content): not generated, an ID
//     only changes meaning through DeleteIPSet + UpdateIPSet;
//   - the raw /0 CIDR: network sets are delivered through OnUpdate (the dispatcher entry point the calc
//     graph uses), whose documented behaviour is to split a /0 into the two /1s; the expectation uses
//     the two /1s (same addresses) and a direct UpdateEndpointOrSet call never carries a /0;
//   - which of several equal-coverage representations suppression picks: only ⊆ expected, coverage
//     of every expected CIDR and the no-nesting rule are required;
//   - IPv4-mapped IPv6 addresses, endpoints whose CIDRs are not single addresses.
package main

import (
	"fmt"
	"io"
	"net"
	"net/netip"
	"sort"
	"strings"

	v3 "github.com/projectcalico/api/pkg/apis/projectcalico/v3"
	"github.com/projectcalico/api/pkg/lib/numorstring"
	"github.com/prometheus/client_golang/prometheus"
	"github.com/sirupsen/logrus"

	"github.com/projectcalico/calico/felix/ip"
	"github.com/projectcalico/calico/felix/labelindex"
	"github.com/projectcalico/calico/felix/labelindex/ipsetmember"
	"github.com/projectcalico/calico/lib/std/uniquelabels"
	"github.com/projectcalico/calico/libcalico-go/lib/backend/api"
	"github.com/projectcalico/calico/libcalico-go/lib/backend/model"
	calinet "github.com/projectcalico/calico/libcalico-go/lib/net"
	"github.com/projectcalico/calico/libcalico-go/lib/selector"

	"verif/internal/harness"
)

// ---------------------------------------------------------------------------------------------
// Universe

var epAddrs = []string{"10.0.0.1", "10.0.0.2", "10.0.0.3", "10.0.1.1", "192.168.0.1", "fd00::1", "fd00::2"}

var netsetCIDRs = []string{
	"10.0.0.0/8", "10.0.0.0/16", "10.0.0.0/24", "10.0.0.0/30", "10.0.0.1/32", "10.0.0.2/32", "10.0.1.0/24",
	"10.0.0.128/25", "10.0.1.1/32", "0.0.0.0/0", "0.0.0.0/1", "128.0.0.0/1", "192.168.0.0/16", "192.168.0.1/32",
	"fd00::/8", "fd00::/64", "fd00::1/128", "::/0", "::/1", "fd00::2/128",
}

var portNames = []string{"http", "dns", "x"}
var portNums = []uint16{80, 8080, 53}

var epKeys = []string{"a", "b"}  // labels that (mostly) live on endpoints
var parKeys = []string{"p", "q"} // labels that (mostly) live on parents
var labelVals = []string{"1", "2", "3"}
var parentIDs = []string{"prof0", "prof1", "prof2"}
var ipSetIDs = []string{"s0", "s1", "s2", "s3", "s4"}

type portSpec struct {
	Name  string `json:"name"`
	Proto string `json:"proto"` // "tcp","udp","sctp"
	Form  int    `json:"form"`  // 0 canonical string, 1 lower-case string, 2 numeric
	Port  uint16 `json:"port"`
}

// item is an endpoint or a network set as the datastore currently has it.
type item struct {
	Labels  map[string]string `json:"labels"`
	Nets    []string          `json:"nets"` // as generated (a /0 stays a /0 here)
	Ports   []portSpec        `json:"ports,omitempty"`
	Parents []string          `json:"parents,omitempty"`
}

type ipSetSpec struct {
	Sel   string `json:"sel"`
	Proto string `json:"proto"` // "" (selector only), "tcp","udp","sctp","any"
	Port  string `json:"port,omitempty"`
	sel   *selector.Selector
}

type opRec struct {
	Op   string `json:"op"`
	ID   string `json:"id"`
	Via  string `json:"via,omitempty"`
	Item *item  `json:"item,omitempty"`
	Set  any    `json:"set,omitempty"`
	Lbls any    `json:"labels,omitempty"`
}

// ---------------------------------------------------------------------------------------------
// World: the generator's view of the current inputs + the callback recorder.

type world struct {
	c        *harness.Case
	suppress bool
	idx      *labelindex.SelectorAndNamedPortIndex

	items   map[string]*item // key: "wep0".."wep3","hep0","hep1","ns0".."ns2"
	parents map[string]map[string]string
	sets    map[string]*ipSetSpec

	emitted map[string]map[string]bool // set id -> canonical member -> present
	ops     []opRec
	bad     bool

	reportedAnyNumeric bool

	nAdded, nRemoved int64
}

func itemIDs() []string {
	return []string{"wep0", "wep1", "wep2", "wep3", "hep0", "hep1", "ns0", "ns1", "ns2"}
}

func isNetset(id string) bool { return strings.HasPrefix(id, "ns") }

func keyOf(id string) any {
	switch {
	case strings.HasPrefix(id, "wep"):
		return model.WorkloadEndpointKey{Hostname: "host", OrchestratorID: "k8s", WorkloadID: id, EndpointID: "eth0"}
	case strings.HasPrefix(id, "hep"):
		return model.HostEndpointKey{Hostname: "host", EndpointID: id}
	default:
		return model.NetworkSetKey{Name: id}
	}
}

// canonical member string: CIDRs as masked prefix strings, named-port members as "addr,proto:port".
func canonMember(s string) (string, error) {
	if i := strings.IndexByte(s, ','); i >= 0 {
		a, err := netip.ParseAddr(s[:i])
		if err != nil {
			return "", err
		}
		return a.String() + s[i:], nil
	}
	if !strings.Contains(s, "/") {
		a, err := netip.ParseAddr(s)
		if err != nil {
			return "", err
		}
		return netip.PrefixFrom(a, a.BitLen()).String(), nil
	}
	p, err := netip.ParsePrefix(s)
	if err != nil {
		return "", err
	}
	return p.Masked().String(), nil
}

func (w *world) violate(key, format string, args ...any) {
	if w.bad {
		return
	}
	w.bad = true
	msg := fmt.Sprintf(format, args...)
	ops := w.ops
	if len(ops) > 120 {
		ops = ops[len(ops)-120:]
	}
	w.c.Violationf(key, map[string]any{"suppress_overlaps": w.suppress, "ops": ops, "message": msg}, "%s", msg)
}

func (w *world) onAdded(setID string, m ipsetmember.IPSetMember) {
	w.nAdded++
	cm, err := canonMember(m.ToProtobufFormat())
	if err != nil {
		w.violate("unparseable-member", "set %s: member %q is not an address/CIDR: %v", setID, m.ToProtobufFormat(), err)
		return
	}
	if _, ok := w.sets[setID]; !ok {
		w.violate("callback-for-inactive-set", "OnMemberAdded(%s,%s) for an IP set that is not active", setID, cm)
		return
	}
	s := w.emitted[setID]
	if s == nil {
		s = map[string]bool{}
		w.emitted[setID] = s
	}
	if s[cm] {
		w.violate("member-added-twice", "OnMemberAdded(%s,%s) while the member is already in the set", setID, cm)
		return
	}
	s[cm] = true
}

func (w *world) onRemoved(setID string, m ipsetmember.IPSetMember) {
	w.nRemoved++
	cm, err := canonMember(m.ToProtobufFormat())
	if err != nil {
		w.violate("unparseable-member", "set %s: member %q is not an address/CIDR: %v", setID, m.ToProtobufFormat(), err)
		return
	}
	if _, ok := w.sets[setID]; !ok {
		w.violate("callback-for-inactive-set", "OnMemberRemoved(%s,%s) for an IP set that is not active", setID, cm)
		return
	}
	if !w.emitted[setID][cm] {
		w.violate("member-removed-while-absent", "OnMemberRemoved(%s,%s) but the member is not in the set", setID, cm)
		return
	}
	delete(w.emitted[setID], cm)
}

// ---------------------------------------------------------------------------------------------
// Independent expectation

func (w *world) effectiveLabels(it *item) map[string]string {
	eff := map[string]string{}
	for k, v := range it.Labels {
		eff[k] = v
	}
	own := it.Labels
	seen := map[string]bool{}
	for k := range own {
		seen[k] = true
	}
	for _, p := range it.Parents {
		for k, v := range w.parents[p] {
			if !seen[k] {
				seen[k] = true
				eff[k] = v
			}
		}
	}
	return eff
}

// rawNets: the item's CIDRs with a /0 replaced by the two /1s covering the same addresses.
func rawNets(it *item) []netip.Prefix {
	var out []netip.Prefix
	for _, n := range it.Nets {
		p := netip.MustParsePrefix(n).Masked()
		if p.Bits() == 0 {
			if p.Addr().Is4() {
				out = append(out, netip.MustParsePrefix("0.0.0.0/1"), netip.MustParsePrefix("128.0.0.0/1"))
			} else {
				out = append(out, netip.MustParsePrefix("::/1"), netip.MustParsePrefix("8000::/1"))
			}
			continue
		}
		out = append(out, p)
	}
	return out
}

// expected returns the raw expected members of an IP set and the number of (member, contributor)
// pairs (to measure how often a member is shared).
//
// codeView=false is the property statement.  codeView=true additionally drops named ports whose
// protocol is given in numeric form when the IP set's protocol is "any": that is what the code under
// test does today (see the finding "anyproto-set-misses-numeric-protocol-port"); it is used ONLY to
// give that defect its own stable key and to keep judging the rest of the case, never to accept it.
func (w *world) expected(spec *ipSetSpec, codeView bool) (map[string]bool, int) {
	exp := map[string]bool{}
	contribs := 0
	for _, id := range itemIDs() {
		it := w.items[id]
		if it == nil {
			continue
		}
		if !spec.sel.Evaluate(w.effectiveLabels(it)) {
			continue
		}
		mine := map[string]bool{}
		if spec.Proto == "" {
			for _, p := range rawNets(it) {
				mine[p.String()] = true
			}
		} else {
			for _, pt := range it.Ports {
				if pt.Name != spec.Port {
					continue
				}
				if spec.Proto != "any" && spec.Proto != pt.Proto {
					continue
				}
				if codeView && spec.Proto == "any" && pt.Form == 2 {
					continue
				}
				for _, p := range rawNets(it) {
					mine[fmt.Sprintf("%s,%s:%d", p.Addr().String(), pt.Proto, pt.Port)] = true
				}
			}
		}
		for m := range mine {
			exp[m] = true
			contribs++
		}
	}
	return exp, contribs
}

func prefixCovers(outer, inner netip.Prefix) bool {
	if outer.Addr().Is4() != inner.Addr().Is4() {
		return false
	}
	return outer.Bits() <= inner.Bits() && outer.Contains(inner.Addr())
}

func sameSet(a, b map[string]bool) bool {
	if len(a) != len(b) {
		return false
	}
	for k := range a {
		if !b[k] {
			return false
		}
	}
	return true
}

func sortedKeys(m map[string]bool) []string {
	out := make([]string, 0, len(m))
	for k := range m {
		out = append(out, k)
	}
	sort.Strings(out)
	return out
}

func (w *world) checkAll(after string) {
	if w.bad {
		return
	}
	for _, id := range ipSetIDs {
		spec := w.sets[id]
		if spec == nil {
			if len(w.emitted[id]) != 0 {
				w.violate("members-of-deleted-set", "after %s: deleted IP set %s still has shadow members", after, id)
			}
			continue
		}
		exp, contribs := w.expected(spec, false)
		em := w.emitted[id]
		if spec.Proto == "any" && !sameSet(em, exp) {
			if alt, _ := w.expected(spec, true); sameSet(em, alt) {
				if !w.reportedAnyNumeric {
					w.reportedAnyNumeric = true
					ops := w.ops
					if len(ops) > 120 {
						ops = ops[len(ops)-120:]
					}
					w.c.Violationf("anyproto-set-misses-numeric-protocol-port",
						map[string]any{"suppress_overlaps": w.suppress, "ops": ops, "ipset": spec, "emitted": sortedKeys(em), "expected": sortedKeys(exp)},
						"after %s: named-port IP set %s (%s, protocol any, port %q) lacks exactly the members whose endpoint port protocol is numeric (6/17/132): emitted=%v expected=%v",
						after, id, spec.Sel, spec.Port, sortedKeys(em), sortedKeys(exp))
				}
				w.c.Count("anyproto_numeric_divergences", 1)
				continue
			}
		}
		w.c.Count("oracle_comparisons", 1)
		if len(exp) > 0 {
			w.c.Count("nonempty_set_comparisons", 1)
		}
		if contribs > len(exp) {
			w.c.Count("comparisons_with_shared_member", 1)
		}
		if !w.suppress || spec.Proto != "" {
			// exact equality
			for m := range exp {
				if !em[m] {
					w.violate("member-missing", "after %s: IP set %s (%s %s/%s) lacks member %s; emitted=%v expected=%v",
						after, id, spec.Sel, spec.Proto, spec.Port, m, sortedKeys(em), sortedKeys(exp))
					return
				}
			}
			for m := range em {
				if !exp[m] {
					w.violate("member-extra", "after %s: IP set %s (%s %s/%s) has member %s that no matching endpoint contributes; emitted=%v expected=%v",
						after, id, spec.Sel, spec.Proto, spec.Port, m, sortedKeys(em), sortedKeys(exp))
					return
				}
			}
			continue
		}
		// Suppression on, CIDR set: emitted ⊆ expected, every expected covered, no nesting.
		var eps []netip.Prefix
		for m := range em {
			if !exp[m] {
				w.violate("suppressed-member-extra", "after %s: IP set %s (%s) has member %s that is not an expected member; emitted=%v expected=%v",
					after, id, spec.Sel, m, sortedKeys(em), sortedKeys(exp))
				return
			}
			eps = append(eps, netip.MustParsePrefix(m))
		}
		for m := range exp {
			p := netip.MustParsePrefix(m)
			cov := false
			for _, e := range eps {
				if prefixCovers(e, p) {
					cov = true
					break
				}
			}
			if !cov {
				w.violate("suppressed-member-uncovered", "after %s: IP set %s (%s): expected CIDR %s is covered by no emitted member; emitted=%v expected=%v",
					after, id, spec.Sel, m, sortedKeys(em), sortedKeys(exp))
				return
			}
		}
		for i, a := range eps {
			for j, b := range eps {
				if i != j && prefixCovers(a, b) {
					w.violate("suppressed-member-nested", "after %s: IP set %s (%s): emitted %s lies inside emitted %s; emitted=%v expected=%v",
						after, id, spec.Sel, b, a, sortedKeys(em), sortedKeys(exp))
					return
				}
			}
		}
		if len(em) < len(exp) {
			w.c.Count("comparisons_with_suppressed_member", 1)
		}
	}
}

// ---------------------------------------------------------------------------------------------
// Generators

func genLabels(c *harness.Case, own, foreign []string, mixed bool) map[string]string {
	l := map[string]string{}
	for _, k := range own {
		if c.R.Intn(100) < 55 {
			l[k] = labelVals[c.R.Intn(len(labelVals))]
		}
	}
	if mixed {
		for _, k := range foreign {
			if c.R.Intn(100) < 25 {
				l[k] = labelVals[c.R.Intn(len(labelVals))]
			}
		}
	}
	return l
}

func genParents(c *harness.Case) []string {
	n := 0
	switch r := c.R.Intn(10); {
	case r < 3:
		n = 0
	case r < 7:
		n = 1
	case r < 9:
		n = 2
	default:
		n = 3
	}
	perm := c.R.Perm(len(parentIDs))
	var out []string
	for i := 0; i < n; i++ {
		out = append(out, parentIDs[perm[i]])
	}
	return out
}

func genItem(c *harness.Case, id string, mixed bool) *item {
	it := &item{Labels: genLabels(c, epKeys, parKeys, mixed), Parents: genParents(c)}
	if isNetset(id) {
		n := c.R.Intn(6)
		for i := 0; i < n; i++ {
			it.Nets = append(it.Nets, netsetCIDRs[c.R.Intn(len(netsetCIDRs))])
		}
		if n > 0 && c.R.Intn(5) == 0 { // explicit duplicate
			it.Nets = append(it.Nets, it.Nets[c.R.Intn(len(it.Nets))])
		}
		return it
	}
	// endpoints: v4 addresses first then v6 (the model keeps them in separate lists)
	n := c.R.Intn(4)
	var v4, v6 []string
	for i := 0; i < n; i++ {
		a := epAddrs[c.R.Intn(len(epAddrs))]
		if strings.Contains(a, ":") {
			v6 = append(v6, a+"/128")
		} else {
			v4 = append(v4, a+"/32")
		}
	}
	if len(v4) > 0 && c.R.Intn(8) == 0 {
		v4 = append(v4, v4[0])
	}
	it.Nets = append(v4, v6...)
	np := c.R.Intn(4)
	for i := 0; i < np; i++ {
		it.Ports = append(it.Ports, portSpec{
			Name:  portNames[c.R.Intn(len(portNames))],
			Proto: []string{"tcp", "udp", "sctp"}[c.R.Intn(3)],
			Form:  c.R.Intn(3),
			Port:  portNums[c.R.Intn(len(portNums))],
		})
	}
	return it
}

func genSelector(c *harness.Case) string {
	atom := func() string {
		var k string
		if c.R.Intn(2) == 0 {
			k = epKeys[c.R.Intn(len(epKeys))]
		} else {
			k = parKeys[c.R.Intn(len(parKeys))]
		}
		v := labelVals[c.R.Intn(len(labelVals))]
		switch c.R.Intn(8) {
		case 0, 1, 2:
			return fmt.Sprintf("%s == '%s'", k, v)
		case 3:
			return fmt.Sprintf("has(%s)", k)
		case 4:
			v2 := labelVals[c.R.Intn(len(labelVals))]
			return fmt.Sprintf("%s in {'%s','%s'}", k, v, v2)
		case 5:
			return fmt.Sprintf("%s != '%s'", k, v)
		case 6:
			return fmt.Sprintf("!has(%s)", k)
		default:
			return fmt.Sprintf("%s not in {'%s'}", k, v)
		}
	}
	switch c.R.Intn(10) {
	case 0:
		return "all()"
	case 1, 2, 3, 4:
		return atom()
	case 5, 6, 7:
		return atom() + " && " + atom()
	case 8:
		return atom() + " || " + atom()
	default:
		return "(" + atom() + " || " + atom() + ") && " + atom()
	}
}

func genIPSet(c *harness.Case) *ipSetSpec {
	s := &ipSetSpec{Sel: genSelector(c)}
	if c.R.Intn(100) < 40 {
		s.Proto = []string{"tcp", "udp", "sctp", "any"}[c.R.Intn(4)]
		s.Port = portNames[c.R.Intn(len(portNames))]
	}
	sel, err := selector.Parse(s.Sel)
	if err != nil {
		panic("generator produced an unparseable selector: " + s.Sel)
	}
	s.sel = sel
	return s
}

func protoOf(s string) ipsetmember.Protocol {
	switch s {
	case "tcp":
		return ipsetmember.ProtocolTCP
	case "udp":
		return ipsetmember.ProtocolUDP
	case "sctp":
		return ipsetmember.ProtocolSCTP
	case "any":
		return ipsetmember.ProtocolAny
	}
	return ipsetmember.ProtocolNone
}

func modelPorts(ps []portSpec) []model.EndpointPort {
	var out []model.EndpointPort
	for _, p := range ps {
		var pr numorstring.Protocol
		switch p.Form {
		case 0:
			pr = numorstring.ProtocolFromString(p.Proto) // canonical "TCP"
		case 1:
			pr = numorstring.ProtocolFromStringV1(p.Proto) // lower case
		default:
			pr = numorstring.ProtocolFromInt(map[string]uint8{"tcp": 6, "udp": 17, "sctp": 132}[p.Proto])
		}
		out = append(out, model.EndpointPort{Name: p.Name, Protocol: pr, Port: p.Port})
	}
	return out
}

// ---------------------------------------------------------------------------------------------
// Applying operations to the real index

func (w *world) applyItem(id string, it *item) {
	c := w.c
	hasZero := false
	for _, n := range it.Nets {
		if strings.HasSuffix(n, "/0") {
			hasZero = true
		}
	}
	viaUpdate := isNetset(id) && (hasZero || c.R.Intn(3) > 0) || !isNetset(id) && c.R.Intn(3) == 0
	lbls := uniquelabels.Make(it.Labels)
	var parents []string
	if len(it.Parents) > 0 {
		parents = append(parents, it.Parents...)
	}
	rec := opRec{Op: "UpdateEndpointOrSet", ID: id, Item: it, Via: "direct"}
	if viaUpdate {
		rec.Via = "OnUpdate"
	}
	w.ops = append(w.ops, rec)
	if !viaUpdate {
		var nets []ip.CIDR
		for _, n := range it.Nets {
			nets = append(nets, ip.MustParseCIDROrIP(n))
		}
		w.idx.UpdateEndpointOrSet(keyOf(id), lbls, nets, modelPorts(it.Ports), parents)
		return
	}
	var v interface{}
	switch {
	case isNetset(id):
		ns := &model.NetworkSet{Labels: lbls, ProfileIDs: parents}
		for _, n := range it.Nets {
			ns.Nets = append(ns.Nets, calinet.MustParseCIDR(n))
		}
		v = ns
	case strings.HasPrefix(id, "wep"):
		ep := &model.WorkloadEndpoint{Labels: lbls, ProfileIDs: parents, Ports: modelPorts(it.Ports), State: "active", Name: "cali" + id}
		for _, n := range it.Nets {
			cn := calinet.MustParseCIDR(n)
			if strings.Contains(n, ":") {
				ep.IPv6Nets = append(ep.IPv6Nets, cn)
			} else {
				ep.IPv4Nets = append(ep.IPv4Nets, cn)
			}
		}
		v = ep
	default:
		ep := &model.HostEndpoint{Labels: lbls, ProfileIDs: parents, Ports: modelPorts(it.Ports), Name: "eth0"}
		for _, n := range it.Nets {
			a := calinet.IP{IP: net.ParseIP(strings.Split(n, "/")[0])}
			if strings.Contains(n, ":") {
				ep.ExpectedIPv6Addrs = append(ep.ExpectedIPv6Addrs, a)
			} else {
				ep.ExpectedIPv4Addrs = append(ep.ExpectedIPv4Addrs, a)
			}
		}
		v = ep
	}
	w.idx.OnUpdate(api.Update{KVPair: model.KVPair{Key: keyOf(id).(model.Key), Value: v}, UpdateType: api.UpdateTypeKVUpdated})
}

func (w *world) deleteItem(id string) {
	via := "direct"
	if w.c.R.Intn(3) == 0 {
		via = "OnUpdate"
	}
	w.ops = append(w.ops, opRec{Op: "DeleteEndpoint", ID: id, Via: via})
	if via == "direct" {
		w.idx.DeleteEndpoint(keyOf(id))
	} else {
		w.idx.OnUpdate(api.Update{KVPair: model.KVPair{Key: keyOf(id).(model.Key)}, UpdateType: api.UpdateTypeKVDeleted})
	}
}

func (w *world) setParent(id string, labels map[string]string) {
	via := "direct"
	if w.c.R.Intn(3) == 0 {
		via = "OnUpdate"
	}
	key := model.ResourceKey{Kind: v3.KindProfile, Name: id}
	if labels == nil {
		w.ops = append(w.ops, opRec{Op: "DeleteParentLabels", ID: id, Via: via})
		if via == "direct" {
			w.idx.DeleteParentLabels(id)
		} else {
			w.idx.OnUpdate(api.Update{KVPair: model.KVPair{Key: key}, UpdateType: api.UpdateTypeKVDeleted})
		}
		return
	}
	w.ops = append(w.ops, opRec{Op: "UpdateParentLabels", ID: id, Lbls: labels, Via: via})
	cp := map[string]string{}
	for k, v := range labels {
		cp[k] = v
	}
	if via == "direct" {
		w.idx.UpdateParentLabels(id, cp)
	} else {
		p := v3.NewProfile()
		p.Name = id
		p.Spec.LabelsToApply = cp
		w.idx.OnUpdate(api.Update{KVPair: model.KVPair{Key: key, Value: p}, UpdateType: api.UpdateTypeKVUpdated})
	}
}

// ---------------------------------------------------------------------------------------------

func stratCount(prefix string) float64 {
	mfs, err := prometheus.DefaultGatherer.Gather()
	if err != nil {
		return 0
	}
	var t float64
	for _, mf := range mfs {
		if mf.GetName() != "felix_label_index_strategy_evals" {
			continue
		}
		for _, m := range mf.GetMetric() {
			for _, l := range m.GetLabel() {
				if l.GetName() == "strategy" && strings.HasPrefix(l.GetValue(), prefix) {
					t += m.GetCounter().GetValue()
				}
			}
		}
	}
	return t
}

func run(c *harness.Case) {
	suppress := c.Index%2 == 1
	mixed := c.R.Intn(10) < 3 // endpoint and parent label name spaces overlap
	w := &world{c: c, suppress: suppress, idx: labelindex.NewSelectorAndNamedPortIndex(suppress),
		items: map[string]*item{}, parents: map[string]map[string]string{}, sets: map[string]*ipSetSpec{},
		emitted: map[string]map[string]bool{}}
	w.idx.OnMemberAdded = w.onAdded
	w.idx.OnMemberRemoved = w.onRemoved

	parentBefore := stratCount("parent-")
	nOps := c.Pick(50, 80)
	// Phase bias: some cases create the IP sets first (endpoint-scan path), others create endpoints
	// and parents first (IP set scan path with its scan strategies).
	setsFirst := c.R.Intn(2) == 0
	ids := itemIDs()
	for step := 0; step < nOps && !w.bad; step++ {
		r := c.R.Intn(100)
		if step < 8 {
			if setsFirst {
				r = c.R.Intn(25) // IP set ops
			} else {
				r = 25 + c.R.Intn(75)
			}
		}
		var what string
		switch {
		case r < 14: // create / refresh IP set
			id := ipSetIDs[c.R.Intn(len(ipSetIDs))]
			if cur := w.sets[id]; cur != nil {
				// spurious refresh with identical content (fresh *Selector object)
				sel, _ := selector.Parse(cur.Sel)
				w.ops = append(w.ops, opRec{Op: "UpdateIPSet(refresh)", ID: id, Set: cur})
				w.idx.UpdateIPSet(id, sel, protoOf(cur.Proto), cur.Port)
				what = "refresh " + id
			} else {
				spec := genIPSet(c)
				w.sets[id] = spec
				w.ops = append(w.ops, opRec{Op: "UpdateIPSet", ID: id, Set: spec})
				w.idx.UpdateIPSet(id, spec.sel, protoOf(spec.Proto), spec.Port)
				what = "UpdateIPSet " + id
				c.Count("ipset_creates", 1)
			}
		case r < 22: // delete IP set
			id := ipSetIDs[c.R.Intn(len(ipSetIDs))]
			if w.sets[id] == nil {
				continue
			}
			w.ops = append(w.ops, opRec{Op: "DeleteIPSet", ID: id})
			delete(w.sets, id)
			delete(w.emitted, id) // deletion is en-masse: no per-member callbacks
			w.idx.DeleteIPSet(id)
			what = "DeleteIPSet " + id
		case r < 62: // create / update endpoint or network set
			id := ids[c.R.Intn(len(ids))]
			var it *item
			if old := w.items[id]; old != nil && c.R.Intn(3) == 0 {
				// small mutation of the existing item
				cp := *old
				cp.Labels = map[string]string{}
				for k, v := range old.Labels {
					cp.Labels[k] = v
				}
				switch c.R.Intn(4) {
				case 0:
					cp.Labels = genLabels(c, epKeys, parKeys, mixed)
				case 1:
					cp.Parents = genParents(c)
				case 2:
					n := genItem(c, id, mixed)
					cp.Nets = n.Nets
				default:
					n := genItem(c, id, mixed)
					cp.Ports = n.Ports
				}
				it = &cp
			} else {
				it = genItem(c, id, mixed)
			}
			w.items[id] = it
			w.applyItem(id, it)
			what = "update " + id
			c.Count("item_updates", 1)
		case r < 74: // delete endpoint / network set (sometimes one that does not exist)
			id := ids[c.R.Intn(len(ids))]
			delete(w.items, id)
			w.deleteItem(id)
			what = "delete " + id
		case r < 92: // parent labels
			id := parentIDs[c.R.Intn(len(parentIDs))]
			l := genLabels(c, parKeys, epKeys, mixed)
			w.parents[id] = l
			w.setParent(id, l)
			what = "parent " + id
			c.Count("parent_updates", 1)
		default:
			id := parentIDs[c.R.Intn(len(parentIDs))]
			delete(w.parents, id)
			w.setParent(id, nil)
			what = "delete parent " + id
			c.Count("parent_updates", 1)
		}
		c.Count("ops", 1)
		w.checkAll(fmt.Sprintf("op %d (%s)", step, what))
	}
	if !w.bad {
		// Tear down: delete every endpoint/netset; every still-active set must drain to empty.
		for _, id := range ids {
			if w.items[id] != nil {
				delete(w.items, id)
				w.deleteItem(id)
				w.checkAll("teardown delete " + id)
			}
		}
	}
	c.Count("member_added_callbacks", w.nAdded)
	c.Count("member_removed_callbacks", w.nRemoved)
	c.Count("parent_strategy_scans", int64(stratCount("parent-")-parentBefore))
	if w.nAdded > 0 && w.nRemoved > 0 {
		h := harness.Fingerprint(fmt.Sprintf("%+v", w.ops))
		c.NonTrivial(h)
	}
	if c.Index < 8 {
		n := len(w.ops)
		if n > 6 {
			n = 6
		}
		c.Sample(map[string]any{"suppress": suppress, "mixed_label_spaces": mixed, "first_ops": w.ops[:n], "added": w.nAdded, "removed": w.nRemoved})
	}
}

func main() {
	logrus.SetOutput(io.Discard)
	logrus.SetLevel(logrus.PanicLevel)
	harness.Main(harness.Check{
		ID:    "C04",
		Level: "exploration",
		Rule: "each case is a PRNG history of 50 (thorough 80) operations over 6 endpoints (0-3 addresses from a pool of 7 incl. shared and duplicate, 0-3 named ports tcp/udp/sctp in string/lower/numeric form), " +
			"3 network sets (0-6 CIDRs from 20 nested/duplicate/shared-/32//0 ones), 3 parents and 5 IP set ids (selector-only or named-port tcp/udp/sctp/any; selectors over endpoint- and parent-carried labels), " +
			"followed by a drain of all endpoints; even cases run with overlap suppression off, odd cases on; non-trivial = at least one member was added and one removed; distinct by the operation list",
		Assumptions: []string{
			"selector parsing/evaluation (libcalico-go/lib/selector) is trusted as the reference matcher",
			"a /0 network set CIDR is expected as its two /1 halves (documented split in extractCIDRsFromNetworkSet)",
			"single goroutine by contract; no race detector needed",
			"parent_strategy_scans is read from the package's prometheus counter (coverage only, never a verdict)",
		},
		Cases: func(tier string) int {
			if tier == "thorough" {
				return 40000
			}
			return 2000
		},
		Run: run,
		Floors: map[string]int64{"ops": 10000, "oracle_comparisons": 20000, "member_added_callbacks": 5000,
			"member_removed_callbacks": 3000, "comparisons_with_suppressed_member": 200, "comparisons_with_shared_member": 500,
			"parent_strategy_scans": 20},
	})
}

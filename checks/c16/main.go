// C16 — IP set sync converges and never breaks rules that use a set.
//
// Real code driven: felix/ipsets.IPSets (NewIPSetsWithShims) against verif/internal/fakeipset, a fake of
// the `ipset` command line tool + kernel.  The harness plays (a) the calculation graph (AddOrReplaceIPSet,
// Add/RemoveMembers, RemoveIPSet, SetFilter, QueueResync), (b) the main loop of
// felix/dataplane/linux/int_dataplane.go apply(): ApplyUpdates -> tables -> ApplyDeletions, where the
// "tables" step makes the kernel rules reference exactly the sets the rules layer currently wants
// (reference counts in the fake kernel), (c) other software / an earlier Felix (starting state and
// out-of-band edits) and (d) process restarts (a new IPSets on the same kernel; also after the deliberate
// log.Panic of ApplyUpdates when it gives up).
//
// Every case = one generated scenario (starting kernel + history).  It is executed once without faults
// (the baseline), then once per fault point seen in the baseline (every command start, every restore
// line, every restore end: "fault_enumeration"), then a few times with random multi-faults and bursts
// long enough to make ApplyUpdates give up.
//
// Oracles (see the monitor type):
//
//	S1 always: no command line names a set that Felix does not own.
//	S2 always, after every restore line / command: a set that is referenced by rules and desired has
//	   members between (K0 ∩ D) and (K0 ∪ D) and header parameters equal to K0's or D's, where K0 is the
//	   kernel content when the current ApplyUpdates/ApplyDeletions call began and D the desired content.
//	S3 always: no destroy (attempted or successful) of a desired set; no destroy attempt on a set that
//	   kernel rules still reference (the kernel would refuse: the ordering "deletions after tables" broke).
//	C1 after every ApplyUpdates that returned normally, provided every out-of-band edit has been re-read
//	   (fresh instance => full resync; or a completed QueueResync cycle): every desired set exists with
//	   the desired type/family/size/range and exactly the desired members.
//	C2 after a round whose ApplyDeletions asked for no reschedule, provided the same re-read condition
//	   and no fault since the last full re-read: the Felix-owned sets in the kernel are exactly the
//	   desired ones (no stale main sets, no temp sets, no historic-prefix sets).
//	C3 at checkpoints (faults off, QueueResync, rounds until no reschedule): C1 + C2 + every foreign set
//	   byte-identical to its baseline.
//	L1 ApplyUpdates must not give up (panic) in a call in which no fault was injected, unless a desired
//	   set exists in the kernel with another type/family (swap can never succeed; see below).
//
// Deliberately not checked:
//   - which temp names are used, command counts, batching, the reschedule return value as such;
//   - members of a referenced set that is no longer desired (the statement only covers replacing
//     contents of a set; Felix leaves such a set alone until it is deleted);
//   - leftovers (stale/temp sets) after a fault until the next re-read: Felix documents that failed
//     deletions and leaked temp sets are retried on the next resync, so C2 waits for one;
//   - convergence when a Felix-named set exists with a different TYPE or FAMILY: the kernel refuses the
//     swap, ApplyUpdates can never succeed, so "after a successful apply" is vacuous (counted as
//     stuck_type_conflict; felix/ipsets/ipset_defs.go documents that the name token must change with
//     the type precisely because of this);
//   - UpdateListener callbacks; Prometheus metrics.
package main

import (
	"fmt"
	"io"
	"math/rand"
	"sort"
	"strings"
	"time"

	"github.com/sirupsen/logrus"

	"github.com/projectcalico/calico/felix/ipsets"
	"github.com/projectcalico/calico/libcalico-go/lib/set"

	"verif/internal/fakeipset"
	"verif/internal/harness"
)

// ---------------------------------------------------------------------------------------------
// Reference definitions (independent of the code under test)

type family struct {
	fam   ipsets.IPFamily
	v     string // "4" | "6"
	other string
}

var fam4 = family{ipsets.IPFamilyV4, "4", "6"}
var fam6 = family{ipsets.IPFamilyV6, "6", "4"}

// Same arguments as felix/dataplane/driver.go passes.
var historicPrefixes = []string{"felix-", "cali"}
var legacyV4Names = []string{"felix-masq-ipam-pools", "felix-all-ipam-pools"}

func (f family) config() *ipsets.IPVersionConfig {
	var extra []string
	if f.v == "4" {
		extra = legacyV4Names
	}
	return ipsets.NewIPVersionConfig(f.fam, "cali", historicPrefixes, extra)
}

// owned is the reference ownership rule: Felix owns names starting with one of its (historic)
// versioned prefixes, plus, for IPv4, the two legacy unversioned names.
func (f family) owned(name string) bool {
	if strings.HasPrefix(name, "cali"+f.v) || strings.HasPrefix(name, "felix-"+f.v) {
		return true
	}
	if f.v == "4" {
		for _, l := range legacyV4Names {
			if strings.HasPrefix(name, l) {
				return true
			}
		}
	}
	return false
}

func (f family) mainName(id string) string {
	n := "cali" + f.v + "0" + id
	if len(n) > 31 {
		n = n[:31]
	}
	return n
}

type mem struct{ api, kern string }

func universe(typ ipsets.IPSetType, v string) []mem {
	var out []mem
	add := func(api, kern string) {
		if kern == "" {
			kern = api
		}
		out = append(out, mem{api, kern})
	}
	switch typ {
	case ipsets.IPSetTypeHashIP:
		if v == "4" {
			for i := 1; i <= 7; i++ {
				add(fmt.Sprintf("10.0.0.%d", i), "")
			}
			add("10.0.0.8/32", "10.0.0.8")
			add("192.168.255.255", "")
		} else {
			for i := 1; i <= 7; i++ {
				add(fmt.Sprintf("fd00::%x", i), "")
			}
			add("fd00::8/128", "fd00::8")
			add("2001:db8:0:1::ffff", "")
		}
	case ipsets.IPSetTypeHashNet:
		if v == "4" {
			add("10.1.0.0/16", "")
			add("10.1.1.0/24", "")
			add("10.1.1.1/32", "10.1.1.1")
			add("192.168.0.0/17", "")
			add("172.16.0.0/12", "")
			add("10.1.2.0/25", "")
			add("8.8.8.8", "")
			add("128.0.0.0/1", "")
			add("0.0.0.0/1", "")
		} else {
			add("fd00:1::/64", "")
			add("fd00:1:0:1::/80", "")
			add("fd00:1::1/128", "fd00:1::1")
			add("2001:db8::/32", "")
			add("fe80::/10", "")
			add("fd00:2::5", "")
			add("8000::/1", "")
			add("::/1", "")
		}
	case ipsets.IPSetTypeHashIPPort:
		if v == "4" {
			add("10.0.0.1,tcp:80", "")
			add("10.0.0.1,udp:80", "")
			add("10.0.0.1,tcp:8080", "")
			add("10.0.0.2,sctp:5000", "")
			add("10.0.0.3,udp:53", "")
			add("10.0.0.3,tcp:53", "")
			add("10.0.0.4,tcp:65535", "")
			add("10.0.0.4,TCP:1", "10.0.0.4,tcp:1")
		} else {
			add("fd00::1,tcp:80", "")
			add("fd00::1,udp:80", "")
			add("fd00::1,tcp:8080", "")
			add("fd00::2,sctp:5000", "")
			add("fd00::3,udp:53", "")
			add("fd00::3,tcp:53", "")
			add("fd00::4,tcp:65535", "")
		}
	case ipsets.IPSetTypeHashNetNet:
		if v == "4" {
			add("10.0.0.0/24,10.1.0.0/16", "")
			add("10.0.0.1/32,10.0.0.2/32", "10.0.0.1,10.0.0.2")
			add("10.0.0.0/8,192.168.0.0/16", "")
			add("10.0.1.0/24,10.0.0.5/32", "10.0.1.0/24,10.0.0.5")
			add("172.16.0.0/12,172.16.0.0/12", "")
			add("10.0.0.2,10.0.0.1", "")
		} else {
			add("fd00:1::/64,fd00:2::/64", "")
			add("fd00::1/128,fd00::2/128", "fd00::1,fd00::2")
			add("2001:db8::/32,fd00::/8", "")
			add("fd00:1::/64,fd00::5/128", "fd00:1::/64,fd00::5")
			add("fd00::2,fd00::1", "")
		}
	case ipsets.IPSetTypeBitmapPort:
		for _, p := range []int{1, 22, 53, 80, 443, 1000, 8080, 32767} {
			add(fmt.Sprintf("v%s,%d", v, p), fmt.Sprint(p))
		}
	}
	return out
}

// ---------------------------------------------------------------------------------------------
// Scenario

type idInfo struct {
	ID   string
	Name string
	Type ipsets.IPSetType
}

type op struct {
	Kind       string   `json:"k"`
	ID         string   `json:"id,omitempty"`
	Type       string   `json:"type,omitempty"`
	MaxSize    int      `json:"max,omitempty"`
	RangeMin   int      `json:"rmin,omitempty"`
	RangeMax   int      `json:"rmax,omitempty"`
	Members    []string `json:"m,omitempty"`  // API strings
	Filter     []string `json:"f,omitempty"`  // names
	FilterNil  bool     `json:"fnil,omitempty"`
	Use        []string `json:"use,omitempty"` // round: IDs the rules reference after the tables step
	TablesFail bool     `json:"tfail,omitempty"`
	OOB        *oobEdit `json:"oob,omitempty"`
}

type oobEdit struct {
	Kind   string         `json:"k"` // toggle | remove | put
	Name   string         `json:"name"`
	Toggle []string       `json:"toggle,omitempty"` // kernel strings
	ForID  string         `json:"for,omitempty"`
	Set    *fakeipset.Set `json:"set,omitempty"`
}

type scenario struct {
	fam       family
	ids       []idInfo
	start     []*fakeipset.Set
	startRefs map[string]int
	ops       []op
	clockStep time.Duration
	kseed     int64
}

type wantSet struct {
	meta    ipsets.IPSetMetadata
	members map[string]bool // kernel strings
}

type model struct {
	fam      family
	sets     map[string]*wantSet // by ID: everything the calc graph has added
	filter   map[string]bool     // by name; nil = no filter
	wantRefs map[string]bool     // by ID: what the rules layer wants to reference
}

func newModel(f family) *model {
	return &model{fam: f, sets: map[string]*wantSet{}, wantRefs: map[string]bool{}}
}

func (m *model) needed(id string) bool {
	if _, ok := m.sets[id]; !ok {
		return false
	}
	return m.filter == nil || m.filter[m.fam.mainName(id)]
}

// effective returns name -> want for the sets that must be in the kernel.
func (m *model) effective() map[string]*wantSet {
	out := map[string]*wantSet{}
	for id, w := range m.sets {
		if m.needed(id) {
			out[m.fam.mainName(id)] = w
		}
	}
	return out
}

func (m *model) pruneRefs() {
	for id := range m.wantRefs {
		if !m.needed(id) {
			delete(m.wantRefs, id)
		}
	}
}

// familyOfAPI says whether an API member string belongs to IP version v (mirrors the documented
// contract "members of the wrong IP version are ignored").
func apiIsV(typ ipsets.IPSetType, api, v string) bool {
	if typ == ipsets.IPSetTypeBitmapPort {
		return strings.HasPrefix(api, "v"+v+",")
	}
	isV6 := strings.Contains(strings.SplitN(api, ",", 2)[0], ":")
	return isV6 == (v == "6")
}

// apply mutates the model for an API op.
func (m *model) apply(o *op, kernOf map[string]string) {
	switch o.Kind {
	case "add-or-replace":
		w := &wantSet{meta: ipsets.IPSetMetadata{SetID: o.ID, Type: ipsets.IPSetType(o.Type), MaxSize: o.MaxSize,
			RangeMin: o.RangeMin, RangeMax: o.RangeMax}, members: map[string]bool{}}
		for _, a := range o.Members {
			if apiIsV(w.meta.Type, a, m.fam.v) {
				w.members[kernOf[o.Type+"|"+a]] = true
			}
		}
		m.sets[o.ID] = w
	case "add-members":
		w := m.sets[o.ID]
		for _, a := range o.Members {
			if apiIsV(w.meta.Type, a, m.fam.v) {
				w.members[kernOf[string(w.meta.Type)+"|"+a]] = true
			}
		}
	case "remove-members":
		w := m.sets[o.ID]
		for _, a := range o.Members {
			if apiIsV(w.meta.Type, a, m.fam.v) {
				delete(w.members, kernOf[string(w.meta.Type)+"|"+a])
			}
		}
	case "remove-set":
		delete(m.sets, o.ID)
		delete(m.wantRefs, o.ID)
	case "set-filter":
		if o.FilterNil {
			m.filter = nil
		} else {
			m.filter = map[string]bool{}
			for _, n := range o.Filter {
				m.filter[n] = true
			}
		}
		m.pruneRefs()
	case "round":
		if !o.TablesFail {
			m.wantRefs = map[string]bool{}
			for _, id := range o.Use {
				m.wantRefs[id] = true
			}
		}
	}
}

var kernOfAPI = func() map[string]string {
	m := map[string]string{}
	for _, t := range ipsets.AllIPSetTypes {
		for _, v := range []string{"4", "6"} {
			for _, e := range universe(t, v) {
				m[string(t)+"|"+e.api] = e.kern
			}
		}
	}
	return m
}()

const idAlphabet = "abcdefghijklmnopqrstuvwxyzABCDEFGHIJKLMNOPQRSTUVWXYZ0123456789-_"

func randID(R *rand.Rand, i int) string {
	n := 8 + R.Intn(26) // long IDs get truncated to 31 characters by NameForMainIPSet
	b := make([]byte, n)
	for j := range b {
		b[j] = idAlphabet[R.Intn(len(idAlphabet))]
	}
	pfx := []string{"s:", "n:", "svc:", ""}[R.Intn(4)]
	return fmt.Sprintf("%s%d%s", pfx, i, string(b)) // index keeps truncated names distinct
}

func pickType(R *rand.Rand) ipsets.IPSetType {
	switch x := R.Intn(10); {
	case x < 3:
		return ipsets.IPSetTypeHashIP
	case x < 6:
		return ipsets.IPSetTypeHashNet
	case x < 8:
		return ipsets.IPSetTypeHashIPPort
	case x < 9:
		return ipsets.IPSetTypeHashNetNet
	}
	return ipsets.IPSetTypeBitmapPort
}

func randSubset(R *rand.Rand, u []mem, p float64) []mem {
	var out []mem
	for _, e := range u {
		if R.Float64() < p {
			out = append(out, e)
		}
	}
	return out
}

var sizes = []int{64, 1024, 65536, 1048576}

func kernelSet(name string, typ ipsets.IPSetType, v string, maxelem int, ms []mem) *fakeipset.Set {
	s := &fakeipset.Set{Name: name, Type: string(typ), Family: map[string]string{"4": "inet", "6": "inet6"}[v],
		MaxElem: maxelem, Revision: 4, Members: map[string]struct{}{}}
	if typ == ipsets.IPSetTypeBitmapPort {
		s.Family, s.MaxElem = "", 0
		s.RangeMin, s.RangeMax = 0, 65535
	}
	for _, e := range ms {
		s.Members[e.kern] = struct{}{}
	}
	return s
}

func genScenario(R *rand.Rand, thorough bool) *scenario {
	sc := &scenario{fam: fam4, startRefs: map[string]int{}, kseed: R.Int63()}
	if R.Intn(10) < 3 {
		sc.fam = fam6
	}
	f := sc.fam
	sc.clockStep = []time.Duration{0, 40 * time.Millisecond, 100 * time.Millisecond, 100 * time.Millisecond}[R.Intn(4)]
	nIDs := 2 + R.Intn(3)
	if thorough {
		nIDs += R.Intn(3)
	}
	for i := 0; i < nIDs; i++ {
		id := randID(R, i)
		sc.ids = append(sc.ids, idInfo{ID: id, Name: f.mainName(id), Type: pickType(R)})
	}
	used := map[string]bool{}
	put := func(s *fakeipset.Set, refProb float64) {
		if used[s.Name] || len(s.Name) > 31 {
			return
		}
		used[s.Name] = true
		sc.start = append(sc.start, s)
		if R.Float64() < refProb {
			sc.startRefs[s.Name] = 1 + R.Intn(2)
		}
	}
	anyTypeSet := func(name string) *fakeipset.Set {
		v := []string{"4", "6"}[R.Intn(2)]
		if R.Intn(6) == 0 {
			// a type Felix has never heard of
			return &fakeipset.Set{Name: name, Type: []string{"list:set", "hash:mac", "hash:ip,mark"}[R.Intn(3)], Family: "inet",
				MaxElem: 8, Revision: 2, Members: map[string]struct{}{"whatever-" + fmt.Sprint(R.Intn(100)): {}}}
		}
		t := pickType(R)
		s := kernelSet(name, t, v, sizes[R.Intn(len(sizes))], randSubset(R, universe(t, v), 0.4))
		if t == ipsets.IPSetTypeBitmapPort && R.Intn(2) == 0 {
			s.RangeMin, s.RangeMax = 1, 32767
		}
		return s
	}
	// Foreign sets.  Names chosen to look as much like Felix's as the ownership rule allows.
	foreignPool := []string{"KUBE-CLUSTER-IP", "cali" + f.other + "0" + sc.ids[0].ID, "cali" + f.other + "t0", "felix-" + f.other + "-pools",
		"calico-x", "cali", "cali-" + f.v + "0abc", "felix-masq-ipam", "xcali" + f.v + "0abc", "CALI" + f.v + "0ABC", "felix" + f.v, "cal" + f.v + "0"}
	if f.v == "6" {
		foreignPool = append(foreignPool, "felix-all-ipam-pools", "felix-masq-ipam-pools")
	}
	for i, n := 0, 1+R.Intn(4); i < n; i++ {
		name := foreignPool[R.Intn(len(foreignPool))]
		if len(name) > 31 {
			name = name[:31]
		}
		put(anyTypeSet(name), 0.3)
	}
	// Stale temporary sets.
	for i, n := 0, R.Intn(4); i < n; i++ {
		put(anyTypeSet(fmt.Sprintf("cali%st%d", f.v, []int{0, 1, 2, 3, 5, 11}[R.Intn(6)])), 0)
	}
	// Stale Felix-owned sets under historic names.
	stalePool := []string{"felix-" + f.v + "-old1", "cali" + f.v + "-s:oldtoken", "cali" + f.v + "0s:gone" + fmt.Sprint(R.Intn(3)), "cali" + f.v, "felix-" + f.v}
	if f.v == "4" {
		stalePool = append(stalePool, "felix-all-ipam-pools", "felix-masq-ipam-pools", "felix-masq-ipam-pools2")
	}
	for i, n := 0, R.Intn(4); i < n; i++ {
		s := anyTypeSet(stalePool[R.Intn(len(stalePool))])
		if R.Intn(8) == 0 {
			s.Revision = 9
		}
		put(s, 0.3)
	}
	// Felix main sets for the IDs of this case, right or wrong.
	for _, id := range sc.ids {
		if R.Intn(10) < 4 {
			continue
		}
		t, v := id.Type, f.v
		switch R.Intn(40) {
		case 0:
			t = pickType(R) // wrong type (may coincide)
		case 1:
			v = f.other // wrong family
		}
		s := kernelSet(id.Name, t, v, sizes[R.Intn(len(sizes))], randSubset(R, universe(t, v), 0.5))
		if R.Intn(3) == 0 {
			s.MaxElem = []int{2, 5, 100, 65536}[R.Intn(4)]
			for len(s.Members) > s.MaxElem && s.Type != string(ipsets.IPSetTypeBitmapPort) {
				for m := range s.Members {
					delete(s.Members, m)
					break
				}
			}
			if t == ipsets.IPSetTypeBitmapPort {
				s.MaxElem = 0
				s.RangeMin, s.RangeMax = 1, 32767
			}
		}
		if R.Intn(12) == 0 {
			s.Revision = 9 // cannot be listed by this user space
		}
		put(s, 0.5)
	}

	// History.
	m := newModel(f)
	nOps := 5 + R.Intn(8)
	if thorough {
		nOps += R.Intn(10)
	}
	emit := func(o op) {
		sc.ops = append(sc.ops, o)
		m.apply(&sc.ops[len(sc.ops)-1], kernOfAPI)
	}
	apiMembers := func(t ipsets.IPSetType, p float64) []string {
		var out []string
		for _, e := range randSubset(R, universe(t, f.v), p) {
			out = append(out, e.api)
		}
		if R.Intn(4) == 0 { // members of the other IP version must be ignored
			for _, e := range randSubset(R, universe(t, f.other), 0.2) {
				out = append(out, e.api)
			}
		}
		R.Shuffle(len(out), func(i, j int) { out[i], out[j] = out[j], out[i] })
		return out
	}
	addOrReplace := func(id idInfo) {
		o := op{Kind: "add-or-replace", ID: id.ID, Type: string(id.Type), Members: apiMembers(id.Type, 0.5)}
		if old, ok := m.sets[id.ID]; ok && R.Intn(3) != 0 {
			o.MaxSize, o.RangeMin, o.RangeMax = old.meta.MaxSize, old.meta.RangeMin, old.meta.RangeMax
		} else if id.Type == ipsets.IPSetTypeBitmapPort {
			o.RangeMin, o.RangeMax = 0, 65535
			if R.Intn(3) == 0 {
				o.RangeMin, o.RangeMax = 1, 32767
			}
		} else {
			o.MaxSize = sizes[R.Intn(len(sizes))]
		}
		emit(o)
	}
	useList := func() []string {
		var use []string
		for _, id := range sc.ids {
			if !m.needed(id.ID) {
				continue
			}
			in := m.wantRefs[id.ID]
			if R.Intn(10) < 3 {
				in = !in
			}
			if in {
				use = append(use, id.ID)
			}
		}
		return use
	}
	round := func() {
		o := op{Kind: "round", Use: useList()}
		if R.Intn(20) == 0 {
			o.TablesFail, o.Use = true, nil
		}
		emit(o)
	}
	// Start of day: the calculation graph sends a batch of sets before the first apply.
	for _, id := range sc.ids {
		if R.Intn(4) != 0 {
			addOrReplace(id)
		}
	}
	round()
	for len(sc.ops) < nOps+len(sc.ids) {
		known := make([]idInfo, 0)
		for _, id := range sc.ids {
			if _, ok := m.sets[id.ID]; ok {
				known = append(known, id)
			}
		}
		x := R.Intn(24)
		switch {
		case x < 3:
			addOrReplace(sc.ids[R.Intn(len(sc.ids))])
		case x < 6 && len(known) > 0:
			id := known[R.Intn(len(known))]
			emit(op{Kind: "add-members", ID: id.ID, Members: apiMembers(id.Type, 0.3)})
		case x < 9 && len(known) > 0:
			id := known[R.Intn(len(known))]
			emit(op{Kind: "remove-members", ID: id.ID, Members: apiMembers(id.Type, 0.3)})
		case x < 11 && len(known) > 0:
			emit(op{Kind: "remove-set", ID: known[R.Intn(len(known))].ID})
		case x < 12:
			if R.Intn(3) == 0 {
				emit(op{Kind: "set-filter", FilterNil: true})
			} else {
				var names []string
				for _, id := range sc.ids {
					if R.Intn(2) == 0 {
						names = append(names, id.Name)
					}
				}
				emit(op{Kind: "set-filter", Filter: names})
			}
		case x < 13:
			emit(op{Kind: "queue-resync"})
		case x < 19:
			round()
		case x < 21:
			emit(op{Kind: "oob", OOB: genOOB(R, sc, anyTypeSet, foreignPool)})
		case x < 22:
			emit(op{Kind: "restart"})
		case x < 23:
			emit(op{Kind: "checkpoint"})
		default:
			round()
		}
	}
	emit(op{Kind: "checkpoint"})
	return sc
}

func genOOB(R *rand.Rand, sc *scenario, anyTypeSet func(string) *fakeipset.Set, foreignPool []string) *oobEdit {
	f := sc.fam
	id := sc.ids[R.Intn(len(sc.ids))]
	switch R.Intn(7) {
	case 0, 1: // other software (or a bug) edits the members of one of Felix's main sets
		var tg []string
		for _, e := range randSubset(R, universe(id.Type, f.v), 0.35) {
			tg = append(tg, e.kern)
		}
		return &oobEdit{Kind: "toggle", Name: id.Name, Toggle: tg, ForID: id.ID}
	case 2: // somebody destroys one of Felix's sets (only possible when no rule references it)
		return &oobEdit{Kind: "remove", Name: id.Name}
	case 3: // somebody replaces one of Felix's sets by one with another size (only when unreferenced)
		s := kernelSet(id.Name, id.Type, f.v, []int{3, 64, 4096}[R.Intn(3)], nil)
		return &oobEdit{Kind: "put", Name: id.Name, Set: s, ForID: id.ID}
	case 4: // a stale temp set appears (e.g. a concurrent old Felix)
		n := fmt.Sprintf("cali%st%d", f.v, R.Intn(6))
		return &oobEdit{Kind: "put", Name: n, Set: anyTypeSet(n)}
	case 5: // foreign software creates / rewrites one of its own sets
		n := foreignPool[R.Intn(len(foreignPool))]
		if len(n) > 31 {
			n = n[:31]
		}
		return &oobEdit{Kind: "put", Name: n, Set: anyTypeSet(n)}
	default: // foreign software removes one of its own sets
		n := foreignPool[R.Intn(len(foreignPool))]
		if len(n) > 31 {
			n = n[:31]
		}
		return &oobEdit{Kind: "remove", Name: n}
	}
}

// ---------------------------------------------------------------------------------------------
// Fault plans

type faultPlan struct {
	Kind     string  `json:"kind"` // none | single | burst | random
	Cmd      string  `json:"cmd,omitempty"`
	Seq      int     `json:"seq,omitempty"`
	Line     int     `json:"line,omitempty"`
	Mode     string  `json:"mode,omitempty"`
	BurstLen int     `json:"burst,omitempty"`
	P        float64 `json:"p,omitempty"`
	Seed     int64   `json:"seed,omitempty"`

	rnd      *rand.Rand
	disabled bool
	hits     int
}

func modesFor(cmd string, line int) []string {
	switch cmd {
	case "list-names", "list-set":
		return []string{fakeipset.FaultStart, fakeipset.FaultFail, fakeipset.FaultTruncate}
	case "destroy":
		return []string{fakeipset.FaultStart, fakeipset.FaultFail}
	case "restore":
		switch {
		case line == 0:
			return []string{fakeipset.FaultStart}
		case line < 0:
			return []string{fakeipset.FaultFail}
		}
		return []string{fakeipset.FaultFail, fakeipset.FaultFailPipe}
	}
	return nil
}

func (p *faultPlan) decide(fp fakeipset.FaultPoint) string {
	if p == nil || p.disabled {
		return ""
	}
	switch p.Kind {
	case "single":
		if fp.Cmd == p.Cmd && fp.Seq == p.Seq && (fp.Cmd != "restore" || fp.Line == p.Line) {
			p.hits++
			return p.Mode
		}
	case "burst":
		if fp.Cmd == p.Cmd && fp.Seq >= p.Seq && fp.Seq < p.Seq+p.BurstLen && (fp.Cmd != "restore" || fp.Line == p.Line) {
			p.hits++
			ms := modesFor(fp.Cmd, fp.Line)
			return ms[p.rnd.Intn(len(ms))]
		}
	case "random":
		pr := p.P
		if fp.Cmd == "restore" {
			pr /= 3
		}
		if p.rnd.Float64() < pr {
			p.hits++
			ms := modesFor(fp.Cmd, fp.Line)
			return ms[p.rnd.Intn(len(ms))]
		}
	}
	return ""
}

// ---------------------------------------------------------------------------------------------
// One execution of a scenario under a fault plan

type runner struct {
	c    *harness.Case
	sc   *scenario
	plan *faultPlan
	k    *fakeipset.Kernel
	f    *ipsets.IPSets
	m    *model
	now  time.Time

	foreignBase map[string]string

	// monitor state
	inCall           string
	callFaults       int
	k0               map[string]*fakeipset.Set // name -> content at call start (nil entry = absent)
	eff              map[string]*wantSet        // effective desired during the call
	dirtyOOB         bool
	faultSinceReread bool
	freshInstance    bool
	dead             bool // a violation was recorded or the run ended early
	stuck            bool

	restoreLines map[int]int
	cnt          map[string]int64
	seenKeys     map[string]bool
}

type nopRecorder struct{}

func (nopRecorder) RecordOperation(string) {}

func (r *runner) count(name string, n int64) { r.cnt[name] += n }

func (r *runner) detail(extra map[string]any) map[string]any {
	d := map[string]any{
		"family": r.sc.fam.v, "ids": r.sc.ids, "start": describeSets(r.sc.start), "start_refs": r.sc.startRefs,
		"ops": r.sc.ops, "plan": r.plan, "clock_step_ms": r.sc.clockStep.Milliseconds(),
	}
	for k, v := range extra {
		d[k] = v
	}
	return d
}

func describeSets(l []*fakeipset.Set) []string {
	var out []string
	for _, s := range l {
		out = append(out, s.Describe())
	}
	return out
}

// violate records a violation; locked says whether the kernel lock is held (inside OnEvent).
func (r *runner) violate(locked bool, key string, extra map[string]any, format string, a ...any) {
	r.dead = true
	if r.seenKeys[key] {
		return
	}
	r.seenKeys[key] = true
	if extra == nil {
		extra = map[string]any{}
	}
	if locked {
		extra["kernel_log_tail"] = r.k.TailLogLocked(80)
	} else {
		extra["kernel_log_tail"] = r.k.TailLog(80)
	}
	r.c.Violationf(key, r.detail(extra), format, a...)
}

func (r *runner) newFelix() {
	r.f = ipsets.NewIPSetsWithShims(r.sc.fam.config(), nopRecorder{}, r.k.Factory,
		func(time.Duration) {}, func() time.Time { t := r.now; r.now = r.now.Add(r.sc.clockStep); return t })
	r.freshInstance = true
	r.count("instances", 1)
	// Replay the calculation graph's current state, as happens after a restart.
	ids := make([]string, 0, len(r.m.sets))
	for id := range r.m.sets {
		ids = append(ids, id)
	}
	sort.Strings(ids)
	for _, id := range ids {
		w := r.m.sets[id]
		var api []string
		for kern := range w.members {
			api = append(api, kern) // kernel strings are valid API strings except for bitmap:port
		}
		sort.Strings(api)
		if w.meta.Type == ipsets.IPSetTypeBitmapPort {
			for i := range api {
				api[i] = "v" + r.sc.fam.v + "," + api[i]
			}
		}
		r.f.AddOrReplaceIPSet(w.meta, api)
	}
	if r.m.filter != nil {
		r.f.SetFilter(r.filterSet())
	}
}

func (r *runner) filterSet() set.Set[string] {
	s := set.New[string]()
	for n := range r.m.filter {
		s.Add(n)
	}
	return s
}

func sameMeta(s *fakeipset.Set, w *wantSet, f family) bool {
	if s.Type != string(w.meta.Type) {
		return false
	}
	if w.meta.Type == ipsets.IPSetTypeBitmapPort {
		return s.RangeMin == w.meta.RangeMin && s.RangeMax == w.meta.RangeMax
	}
	return s.Family == string(f.fam) && s.MaxElem == w.meta.MaxSize
}

func sameHeader(a, b *fakeipset.Set) bool {
	return a.Type == b.Type && a.Family == b.Family && a.MaxElem == b.MaxElem && a.RangeMin == b.RangeMin && a.RangeMax == b.RangeMax
}

func keys(m map[string]bool) []string {
	l := make([]string, 0, len(m))
	for k := range m {
		l = append(l, k)
	}
	sort.Strings(l)
	return l
}

// beginCall snapshots what S2 needs.
func (r *runner) beginCall(what string) {
	r.inCall, r.callFaults = what, 0
	r.eff = r.m.effective()
	r.k0 = map[string]*fakeipset.Set{}
	for name := range r.eff {
		r.k0[name] = r.k.Get(name)
	}
}

func (r *runner) endCall() { r.inCall = "" }

// onEvent is the per-line monitor (kernel lock held).
func (r *runner) onEvent(ev fakeipset.Event) {
	if ev.Fault != "" {
		r.callFaults++
		r.faultSinceReread = true
		switch {
		case ev.Restore > 0 && ev.Cmd == "restore-start":
			r.count("faults_restore_start", 1)
		case ev.Restore > 0 && ev.Cmd == "restore-end":
			r.count("faults_restore_end", 1)
		case ev.Restore > 0:
			r.count("faults_restore_line", 1)
		default:
			r.count("faults_"+ev.Cmd, 1)
		}
	}
	switch ev.Cmd {
	case "list-names", "list-set":
		r.count("cmd_"+ev.Cmd, 1)
		return
	case "restore-start":
		r.count("cmd_restore", 1)
		return
	case "restore-end":
		return
	case "COMMIT":
		r.restoreLines[ev.Restore] = ev.LineNo
		r.count("restore_lines", 1)
		return
	}
	if ev.Restore > 0 {
		r.restoreLines[ev.Restore] = ev.LineNo
		r.count("restore_lines", 1)
	} else if ev.Cmd == "destroy" {
		r.count("cmd_destroy", 1)
	}
	if ev.Cmd == "swap" && ev.Applied {
		r.count("swaps_applied", 1)
	}
	if ev.Cmd == "destroy" && ev.Applied {
		r.count("destroys_applied", 1)
	}
	// Names this line acts on.
	var names []string
	switch ev.Cmd {
	case "create", "add", "del", "flush", "destroy":
		if len(ev.Args) > 0 {
			names = ev.Args[:1]
		}
	case "swap":
		if len(ev.Args) > 1 {
			names = ev.Args[:2]
		}
	default:
		r.violate(true, "unknown-ipset-command", map[string]any{"line": ev.Line}, "Felix sent a line the ipset tool does not know: %q", ev.Line)
		return
	}
	if ev.Cmd == "flush" && len(ev.Args) == 0 {
		r.violate(true, "foreign-set-touched", map[string]any{"line": ev.Line}, "Felix flushed ALL sets")
		return
	}
	for _, n := range names {
		// S1
		if !r.sc.fam.owned(n) {
			r.violate(true, "foreign-set-touched", map[string]any{"line": ev.Line, "set": n},
				"command %q acts on set %q, which Felix (IPv%s) does not own", ev.Line, n, r.sc.fam.v)
			return
		}
	}
	if ev.Cmd == "destroy" {
		n := names[0]
		// S3
		if _, desired := r.m.effective()[n]; desired {
			r.violate(true, "destroy-desired-set", map[string]any{"line": ev.Line, "set": n, "applied": ev.Applied},
				"destroy of %q while it is still desired (applied=%v)", n, ev.Applied)
			return
		}
		if r.k.RefsLocked(n) > 0 {
			r.violate(true, "destroy-referenced-set", map[string]any{"line": ev.Line, "set": n},
				"destroy attempted on %q while kernel rules still reference it (deletions must come after the tables step)", n)
			return
		}
	}
	if !ev.Applied {
		return
	}
	// S2
	for _, n := range names {
		w, desired := r.eff[n]
		if !desired || r.k.RefsLocked(n) == 0 {
			continue
		}
		r.count("s2_checks", 1)
		old := r.k0[n]
		cur := r.k.GetLocked(n)
		if old == nil {
			continue // a referenced set always exists; defensive
		}
		if cur == nil {
			r.violate(true, "in-use-set-vanished", map[string]any{"line": ev.Line, "set": n}, "in-use set %q disappeared after %q", n, ev.Line)
			return
		}
		if !sameHeader(cur, old) && !sameMeta(cur, w, r.sc.fam) {
			r.violate(true, "in-use-set-intermediate-params", map[string]any{"line": ev.Line, "set": n, "now": cur.Describe(), "before": old.Describe()},
				"after %q the in-use set %q has parameters that are neither the old nor the desired ones: %s", ev.Line, n, cur.Describe())
			return
		}
		for mbr := range old.Members {
			if w.members[mbr] {
				if _, ok := cur.Members[mbr]; !ok {
					r.violate(true, "in-use-set-lost-member", map[string]any{"line": ev.Line, "set": n, "member": mbr, "now": cur.Describe(), "before": old.Describe(), "desired": keys(w.members)},
						"after %q the in-use set %q lacks %q, which was present before the call and is desired", ev.Line, n, mbr)
					return
				}
			}
		}
		for mbr := range cur.Members {
			if _, was := old.Members[mbr]; !was && !w.members[mbr] {
				r.violate(true, "in-use-set-alien-member", map[string]any{"line": ev.Line, "set": n, "member": mbr, "now": cur.Describe(), "before": old.Describe(), "desired": keys(w.members)},
					"after %q the in-use set %q contains %q, which was neither present before nor desired", ev.Line, n, mbr)
				return
			}
		}
	}
}

// typeConflict: a desired set exists in the kernel with another type or family.
func (r *runner) typeConflict() bool {
	for name, w := range r.m.effective() {
		s := r.k.Get(name)
		if s == nil {
			continue
		}
		fam := string(r.sc.fam.fam)
		if w.meta.Type == ipsets.IPSetTypeBitmapPort {
			fam = ""
		}
		if s.Type != string(w.meta.Type) || s.Family != fam {
			return true
		}
	}
	return false
}

// applyUpdates returns false if ApplyUpdates gave up (the deliberate panic).
func (r *runner) applyUpdates() (ok bool) {
	conflict := r.typeConflict()
	r.beginCall("ApplyUpdates")
	defer r.endCall()
	r.count("apply_updates_calls", 1)
	gaveUp := false
	func() {
		defer func() {
			if e := recover(); e != nil {
				msg := fmt.Sprint(e)
				if le, isEntry := e.(*logrus.Entry); isEntry {
					msg = le.Message
				}
				if strings.Contains(msg, "Failed to update IP sets after multiple retries") {
					gaveUp = true
					return
				}
				panic(e)
			}
		}()
		r.f.ApplyUpdates(nil)
	}()
	if gaveUp {
		r.count("apply_updates_gave_up", 1)
		if conflict {
			r.count("stuck_type_conflict", 1)
			r.stuck, r.dead = true, true
			return false
		}
		if r.callFaults == 0 {
			r.violate(false, "apply-gives-up-without-faults", nil,
				"ApplyUpdates gave up after its retries although no command fault was injected during the call and no desired set has a type/family conflict")
		}
		return false
	}
	r.count("apply_updates_ok", 1)
	if r.freshInstance {
		// The first successful ApplyUpdates of an instance contains a complete, synchronous full resync.
		r.freshInstance, r.dirtyOOB, r.faultSinceReread = false, false, r.callFaults > 0
	}
	if !r.dirtyOOB && !r.dead {
		r.checkDesired("after-apply")
	}
	return true
}

// checkDesired is C1.
func (r *runner) checkDesired(when string) {
	for name, w := range r.m.effective() {
		r.count("c1_checks", 1)
		s := r.k.Get(name)
		if s == nil {
			r.violate(false, "desired-set-missing", map[string]any{"set": name, "when": when}, "%s: desired set %q is not in the kernel", when, name)
			return
		}
		if !sameMeta(s, w, r.sc.fam) {
			r.violate(false, "desired-set-wrong-params", map[string]any{"set": name, "when": when, "kernel": s.Describe(), "want_meta": fmt.Sprintf("%+v", w.meta)},
				"%s: set %q has %s, desired %+v", when, name, s.Describe(), w.meta)
			return
		}
		got := s.SortedMembers()
		want := keys(w.members)
		if strings.Join(got, " ") != strings.Join(want, " ") {
			r.violate(false, "desired-set-wrong-members", map[string]any{"set": name, "when": when, "kernel": got, "want": want},
				"%s: set %q has members %v, desired %v", when, name, got, want)
			return
		}
	}
}

// checkNoLeftovers is C2.
func (r *runner) checkNoLeftovers(when string) {
	eff := r.m.effective()
	for _, n := range r.k.Names() {
		if !r.sc.fam.owned(n) {
			continue
		}
		r.count("c2_checks", 1)
		if _, ok := eff[n]; !ok {
			key := "stale-owned-set-remains"
			if strings.HasPrefix(n, "cali"+r.sc.fam.v+"t") {
				key = "temp-set-remains"
			}
			r.violate(false, key, map[string]any{"set": n, "when": when, "kernel": r.k.Get(n).Describe(), "refs": r.k.Refs(n)},
				"%s: Felix-owned set %q is still in the kernel although it is not desired", when, n)
			return
		}
	}
}

func (r *runner) checkForeign(when string) {
	seen := map[string]bool{}
	for _, n := range r.k.Names() {
		if r.sc.fam.owned(n) {
			continue
		}
		seen[n] = true
		r.count("foreign_checked", 1)
		if base, ok := r.foreignBase[n]; !ok || base != r.k.Get(n).Describe() {
			r.violate(false, "foreign-set-changed", map[string]any{"set": n, "when": when, "now": r.k.Get(n).Describe(), "baseline": base},
				"%s: foreign set %q changed: now %s, was %q", when, n, r.k.Get(n).Describe(), base)
			return
		}
	}
	for n := range r.foreignBase {
		if !seen[n] {
			r.violate(false, "foreign-set-changed", map[string]any{"set": n, "when": when, "baseline": r.foreignBase[n]},
				"%s: foreign set %q disappeared", when, n)
			return
		}
	}
}

// tablesStep models the tables layer making the kernel rules reference exactly the wanted sets.
// Returns false if iptables-restore would fail because a wanted set does not exist.
func (r *runner) tablesStep() bool {
	var wanted []string
	for id := range r.m.wantRefs {
		if r.m.needed(id) {
			wanted = append(wanted, r.sc.fam.mainName(id))
		}
	}
	sort.Strings(wanted)
	for _, n := range wanted {
		if r.k.Get(n) == nil {
			// Only reachable when an out-of-band removal has not been re-read yet (else C1 fired).
			r.count("tables_failed_missing_set", 1)
			return false
		}
	}
	for _, n := range r.k.Names() {
		if r.sc.fam.owned(n) {
			r.k.SetRefs(n, 0)
		}
	}
	for _, n := range wanted {
		r.k.SetRefs(n, 1)
		r.count("sets_referenced", 1)
	}
	r.count("tables_steps", 1)
	return true
}

func (r *runner) applyDeletions() bool {
	r.beginCall("ApplyDeletions")
	defer r.endCall()
	r.count("apply_deletions_calls", 1)
	return r.f.ApplyDeletions()
}

// round runs ApplyUpdates -> tables -> ApplyDeletions.  It returns (completed, reschedule).
func (r *runner) round(tablesFail bool) (bool, bool) {
	if !r.applyUpdates() {
		if !r.dead {
			r.newFelix()
		}
		return false, false
	}
	if r.dead {
		return false, false
	}
	if tablesFail || !r.tablesStep() {
		// The tables layer gives up => the process restarts before ApplyDeletions.
		r.count("tables_failures", 1)
		r.newFelix()
		return false, false
	}
	resched := r.applyDeletions()
	if r.dead {
		return false, false
	}
	r.count("rounds_completed", 1)
	if !resched && !r.dirtyOOB && !r.faultSinceReread {
		r.checkNoLeftovers("after-quiescent-round")
	}
	return true, resched
}

func (r *runner) checkpoint() {
	if r.plan != nil {
		r.plan.disabled = true
		defer func() { r.plan.disabled = false }()
	}
	r.f.QueueResync()
	bound := 2*(len(r.k.Names())+len(r.m.sets)) + 12
	quiet := false
	for i := 0; i < bound && !r.dead; i++ {
		done, resched := r.round(false)
		if r.dead {
			return
		}
		if done && !resched {
			quiet = true
			break
		}
		if !done {
			// A restart inside a checkpoint (tables step failed on a not-yet-re-read removal): the new
			// instance does a full resync, which is a re-read too.
			continue
		}
	}
	if r.dead {
		return
	}
	r.count("checkpoints", 1)
	if !quiet {
		r.count("checkpoint_never_quiet", 1)
	}
	r.dirtyOOB, r.faultSinceReread = false, false
	r.checkDesired("checkpoint")
	if !r.dead {
		r.checkNoLeftovers("checkpoint")
	}
	if !r.dead {
		r.checkForeign("checkpoint")
	}
}

func (r *runner) oob(e *oobEdit) {
	f := r.sc.fam
	switch e.Kind {
	case "toggle":
		s := r.k.Get(e.Name)
		var idType ipsets.IPSetType
		for _, id := range r.sc.ids {
			if id.ID == e.ForID {
				idType = id.Type
			}
		}
		fam := string(f.fam)
		if idType == ipsets.IPSetTypeBitmapPort {
			fam = ""
		}
		if s == nil || s.Type != string(idType) || s.Family != fam {
			return
		}
		for _, m := range e.Toggle {
			if _, ok := s.Members[m]; ok {
				delete(s.Members, m)
			} else if s.Type == string(ipsets.IPSetTypeBitmapPort) || len(s.Members) < s.MaxElem {
				if s.Type == string(ipsets.IPSetTypeBitmapPort) {
					var p int
					fmt.Sscan(m, &p)
					if p < s.RangeMin || p > s.RangeMax {
						continue
					}
				}
				s.Members[m] = struct{}{}
			}
		}
		r.k.Put(s)
	case "remove":
		if !r.k.Remove(e.Name) {
			return
		}
	case "put":
		if r.k.Refs(e.Name) > 0 {
			return // the kernel would refuse to destroy a referenced set, so it cannot be replaced
		}
		r.k.Put(e.Set)
	}
	r.count("oob_edits", 1)
	if f.owned(e.Name) {
		r.dirtyOOB = true
	} else {
		if s := r.k.Get(e.Name); s != nil {
			r.foreignBase[e.Name] = s.Describe()
		} else {
			delete(r.foreignBase, e.Name)
		}
	}
}

type runResult struct {
	counts       map[string]int
	restoreLines map[int]int
	hits         int
	stuck        bool
}

func runScenario(c *harness.Case, sc *scenario, plan *faultPlan, seenKeys map[string]bool, cnt map[string]int64) runResult {
	r := &runner{c: c, sc: sc, plan: plan, k: fakeipset.New(sc.kseed), m: newModel(sc.fam),
		now: time.Unix(1_700_000_000, 0), foreignBase: map[string]string{}, restoreLines: map[int]int{},
		cnt: cnt, seenKeys: seenKeys}
	for _, s := range sc.start {
		r.k.Put(s)
		if !sc.fam.owned(s.Name) {
			r.foreignBase[s.Name] = s.Describe()
		}
	}
	for n, v := range sc.startRefs {
		r.k.SetRefs(n, v)
	}
	r.k.OnEvent = r.onEvent
	r.k.Fault = func(fp fakeipset.FaultPoint) string { return plan.decide(fp) }
	r.newFelix()
	for i := range sc.ops {
		if r.dead {
			break
		}
		o := &sc.ops[i]
		switch o.Kind {
		case "add-or-replace":
			r.m.apply(o, kernOfAPI)
			r.f.AddOrReplaceIPSet(r.m.sets[o.ID].meta, o.Members)
		case "add-members":
			r.m.apply(o, kernOfAPI)
			r.f.AddMembers(o.ID, o.Members)
		case "remove-members":
			r.m.apply(o, kernOfAPI)
			r.f.RemoveMembers(o.ID, o.Members)
		case "remove-set":
			r.m.apply(o, kernOfAPI)
			r.f.RemoveIPSet(o.ID)
		case "set-filter":
			r.m.apply(o, kernOfAPI)
			if o.FilterNil {
				r.f.SetFilter(nil)
			} else {
				r.f.SetFilter(r.filterSet())
			}
		case "queue-resync":
			r.f.QueueResync()
		case "round":
			r.m.apply(o, kernOfAPI)
			r.round(o.TablesFail)
		case "oob":
			r.oob(o.OOB)
		case "restart":
			r.count("restarts_requested", 1)
			r.newFelix()
		case "checkpoint":
			r.checkpoint()
		}
		r.count("ops_executed", 1)
	}
	res := runResult{counts: r.k.SeqCounts(), restoreLines: r.restoreLines, stuck: r.stuck}
	if plan != nil {
		res.hits = plan.hits
	}
	return res
}

// ---------------------------------------------------------------------------------------------

func run(c *harness.Case) {
	sc := genScenario(c.R, c.Thorough())
	seenKeys := map[string]bool{}
	cnt := map[string]int64{}
	defer func() {
		for n, v := range cnt {
			if v != 0 {
				c.Count(n, v)
			}
		}
	}()
	base := runScenario(c, sc, &faultPlan{Kind: "none"}, seenKeys, cnt)
	cnt["runs_baseline"]++
	if c.Failed() {
		return
	}
	if base.stuck {
		// A Felix-named set with another type/family: ApplyUpdates can never succeed, nothing to enumerate.
		cnt["cases_stuck_type_conflict"]++
		return
	}
	// Enumerate every fault point of the baseline.
	var plans []*faultPlan
	addPoint := func(cmd string, seq, line int) {
		ms := modesFor(cmd, line)
		n := 1
		if c.Thorough() {
			n = len(ms)
		}
		first := c.R.Intn(len(ms))
		for j := 0; j < n; j++ {
			plans = append(plans, &faultPlan{Kind: "single", Cmd: cmd, Seq: seq, Line: line, Mode: ms[(first+j)%len(ms)]})
		}
	}
	for _, cmd := range []string{"list-names", "list-set", "destroy"} {
		for s := 1; s <= base.counts[cmd]; s++ {
			addPoint(cmd, s, 0)
		}
	}
	for s := 1; s <= base.counts["restore"]; s++ {
		addPoint("restore", s, 0)
		for l := 1; l <= base.restoreLines[s]; l++ {
			addPoint("restore", s, l)
		}
		addPoint("restore", s, -1)
	}
	cnt["fault_points_enumerated"] += int64(len(plans))
	// Bursts long enough to exhaust the retries, and random multi-fault runs.
	nExtra := c.Pick(4, 10)
	for j := 0; j < nExtra; j++ {
		seed := c.R.Int63()
		if j%2 == 0 {
			cmd := []string{"list-names", "list-set", "restore", "destroy"}[c.R.Intn(4)]
			if base.counts[cmd] == 0 {
				cmd = "list-names"
			}
			p := &faultPlan{Kind: "burst", Cmd: cmd, Seq: 1 + c.R.Intn(base.counts[cmd]+1), BurstLen: 2 + c.R.Intn(14), Seed: seed}
			if cmd == "restore" {
				p.Line = []int{0, 1, 2, -1}[c.R.Intn(4)]
			}
			plans = append(plans, p)
		} else {
			plans = append(plans, &faultPlan{Kind: "random", P: []float64{0.05, 0.15, 0.4}[c.R.Intn(3)], Seed: seed})
		}
	}
	hit := 0
	for _, p := range plans {
		p.rnd = rand.New(rand.NewSource(p.Seed))
		res := runScenario(c, sc, p, seenKeys, cnt)
		cnt["runs_faulted"]++
		if res.hits > 0 {
			hit++
			cnt["runs_fault_hit"]++
		}
		if c.Failed() {
			return
		}
	}
	if hit >= 5 && cnt["swaps_applied"] > 0 && cnt["destroys_applied"] > 0 && cnt["foreign_checked"] > 0 {
		c.NonTrivial(sc.fam.v, describeSets(sc.start), fmt.Sprintf("%+v", sc.ops))
	}
	c.Distinct("start_states", sc.fam.v, describeSets(sc.start))
	if c.Index < 3 {
		c.Sample(map[string]any{"family": sc.fam.v, "ids": sc.ids, "start": describeSets(sc.start), "n_ops": len(sc.ops),
			"fault_runs": len(plans), "baseline_cmds": base.counts})
	}
}

func main() {
	logrus.SetOutput(io.Discard)
	logrus.SetLevel(logrus.PanicLevel)
	harness.Main(harness.Check{
		ID:    "C16",
		Level: "fault_enumeration",
		Rule: "a case = PRNG scenario: IPv4 or IPv6 IPSets instance, 2-7 set IDs of all five set types, starting kernel with foreign sets (look-alike names, other family's prefix), " +
			"stale temp and historic-prefix sets, Felix main sets with wrong size/range/members/revision (rarely wrong type/family), some referenced by rules; history of 5-22 ops " +
			"(AddOrReplaceIPSet incl. size changes, Add/RemoveMembers, RemoveIPSet, SetFilter, QueueResync, apply rounds with the tables step changing rule references, tables failures, " +
			"out-of-band edits, restarts, checkpoints). Executed fault-free, then once per fault point of the fault-free run (every command start, every restore line, every restore end), " +
			"then with bursts (2-15 consecutive failures) and random multi-faults. non-trivial = >=5 fault runs hit their fault and the case saw a swap, a destroy and a foreign-set comparison; distinct by scenario",
		Assumptions: []string{
			"verif/internal/fakeipset models the ipset tool/kernel: restore applies line by line and stops at the first refused line; create/add/del/swap/destroy refusal rules as documented in that package; swap needs equal type and family; destroy of a referenced set is refused",
			"not modelled by the fake: timeouts/counters/comment extensions, list:set semantics, netlink batching of adjacent add/del lines, concurrent ipset writers, exit codes other than 0/1",
			"rule references are reference counts set by the harness at the tables step (ApplyUpdates -> tables -> ApplyDeletions as in int_dataplane.apply); the tables layer only references sets the calculation graph has announced",
			"Go map iteration order inside Felix is not seed-controlled, so a replay may issue commands in another order; the witness therefore contains the fake kernel's command log",
			"a Felix-named set with another type/family makes ApplyUpdates fail forever (swap refused): treated as vacuous, counted as stuck_type_conflict",
		},
		Cases: func(tier string) int {
			if tier == "thorough" {
				return 1200
			}
			return 320
		},
		Run:         run,
		CaseTimeout: 15 * time.Minute,
		Floors: map[string]int64{
			"apply_updates_ok": 5000, "cmd_list-names": 2000, "cmd_list-set": 5000, "cmd_restore": 3000, "cmd_destroy": 1500,
			"restore_lines": 10000, "faults_list-names": 300, "faults_list-set": 500, "faults_restore_line": 800, "faults_restore_start": 200,
			"faults_restore_end": 200, "faults_destroy": 150, "foreign_checked": 2000, "c1_checks": 5000, "c2_checks": 2000, "s2_checks": 500,
			"swaps_applied": 300, "checkpoints": 1000, "apply_updates_gave_up": 20,
		},
	})
}

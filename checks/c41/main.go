// C41 — flow offload never bypasses endpoints that need per-packet processing.
//
// Set half: the real flowtableExclusionManager (felix/dataplane/linux, verif export, CGO off) is fed
// histories of workload / host endpoint updates and removes in which DSCP policies, connection limits,
// packet-rate limits and (irrelevant) bandwidth limits come and go, addresses are shared between
// endpoints and change, for IPv4 and IPv6.  A recording IPSetsDataplane captures what the manager
// writes.  After every CompleteDeferredWork the written "no-flow-offload" set, as a set, must equal the
// addresses (of the manager's family) of all current endpoints that have DSCP marking or a connection
// or packet-rate limit.
//
// Rule half: the real renderer's StaticFilterTableChains (which include the FORWARD chain) with nftables + NFTablesFlowTableOffload on;
// the rule(s) carrying the flow-offload action are rendered by the real nft renderer and evaluated by
// /verif/internal/nfsim against the set the manager actually wrote, for every conntrack state and
// source/destination drawn from the address pool: a packet may be offloaded only if it is
// ESTABLISHED/RELATED and neither its source nor its destination is in the set.  The rule must
// reference the set under the name the IP-set layer gives the manager's set id.
//
// Deliberately not checked: that eligible flows ARE offloaded (counted, with a floor, so that the
// monitor is known to see offloads); whether RELATED counts as "already established" (the design
// document says it does; accepted); the flowtable device list (flowtableManager); bandwidth limits
// (documented as not needing exclusion: generated, must NOT put an endpoint in the set — this IS
// checked, as part of "exactly"); set size limits; what happens between OnUpdate and
// CompleteDeferredWork.
package main

import (
	"fmt"
	"io"
	"net/netip"
	"sort"
	"strings"

	"github.com/sirupsen/logrus"

	intdataplane "github.com/projectcalico/calico/felix/dataplane/linux"
	"github.com/projectcalico/calico/felix/generictables"
	"github.com/projectcalico/calico/felix/ipsets"
	"github.com/projectcalico/calico/felix/nftables"
	"github.com/projectcalico/calico/felix/proto"
	"github.com/projectcalico/calico/felix/rules"
	"github.com/projectcalico/calico/libcalico-go/lib/set"

	"verif/internal/harness"
	"verif/internal/nfsim"
	"verif/internal/refpolicy"
)

// ---------------------------------------------------------------- recording IP sets dataplane

type recIPSets struct {
	family  ipsets.IPFamily
	sets    map[string][]string
	metas   map[string]ipsets.IPSetMetadata
	writes  int
	otherOp []string
}

func (r *recIPSets) AddOrReplaceIPSet(meta ipsets.IPSetMetadata, members []string) {
	r.writes++
	r.sets[meta.SetID] = append([]string(nil), members...)
	r.metas[meta.SetID] = meta
}
func (r *recIPSets) AddMembers(setID string, m []string) {
	r.otherOp = append(r.otherOp, "AddMembers "+setID)
	r.sets[setID] = append(r.sets[setID], m...)
}
func (r *recIPSets) RemoveMembers(setID string, m []string) {
	r.otherOp = append(r.otherOp, "RemoveMembers "+setID)
	rm := map[string]bool{}
	for _, x := range m {
		rm[x] = true
	}
	var out []string
	for _, x := range r.sets[setID] {
		if !rm[x] {
			out = append(out, x)
		}
	}
	r.sets[setID] = out
}
func (r *recIPSets) RemoveIPSet(setID string) {
	r.otherOp = append(r.otherOp, "RemoveIPSet "+setID)
	delete(r.sets, setID)
}
func (r *recIPSets) GetIPFamily() ipsets.IPFamily { return r.family }
func (r *recIPSets) GetTypeOf(setID string) (ipsets.IPSetType, error) {
	if m, ok := r.metas[setID]; ok {
		return m.Type, nil
	}
	return "", fmt.Errorf("no such set")
}
func (r *recIPSets) GetDesiredMembers(setID string) (set.Set[string], error) {
	return set.FromArray(r.sets[setID]), nil
}
func (r *recIPSets) QueueResync()                          {}
func (r *recIPSets) ApplyUpdates(ipsets.UpdateListener)    {}
func (r *recIPSets) ApplyDeletions() bool                  { return false }
func (r *recIPSets) SetFilter(neededIPSets set.Set[string]) {}

// ---------------------------------------------------------------- model

type epSpec struct {
	v4, v6    []string // plain addresses
	dscp      bool
	connLimit bool
	pktRate   bool
	bandwidth bool
	variant   int
}

func (e *epSpec) needs() bool { return e.dscp || e.connLimit || e.pktRate }

func (e *epSpec) String() string {
	var f []string
	if e.dscp {
		f = append(f, "dscp")
	}
	if e.connLimit {
		f = append(f, "connlimit")
	}
	if e.pktRate {
		f = append(f, "pktrate")
	}
	if e.bandwidth {
		f = append(f, "bandwidth")
	}
	return fmt.Sprintf("{v4=%v v6=%v %s}", e.v4, e.v6, strings.Join(f, "+"))
}

func pool(ver int) []string {
	out := make([]string, 8)
	for i := range out {
		if ver == 4 {
			out[i] = fmt.Sprintf("10.65.0.%d", i+1)
		} else {
			out[i] = fmt.Sprintf("fd00:65::%x", i+1)
		}
	}
	return out
}

func genSpec(c *harness.Case, host bool) *epSpec {
	e := &epSpec{variant: c.R.Intn(4)}
	p4, p6 := pool(4), pool(6)
	for n := c.R.Intn(3); n > 0; n-- {
		e.v4 = append(e.v4, p4[c.R.Intn(len(p4))])
	}
	for n := c.R.Intn(3); n > 0; n-- {
		e.v6 = append(e.v6, p6[c.R.Intn(len(p6))])
	}
	if c.R.Intn(5) == 0 { // sometimes single-stack or address-less
		e.v4 = nil
	}
	if c.R.Intn(5) == 0 {
		e.v6 = nil
	}
	e.dscp = c.R.Intn(3) == 0
	if !host {
		e.connLimit = c.R.Intn(4) == 0
		e.pktRate = c.R.Intn(4) == 0
		e.bandwidth = c.R.Intn(3) == 0
	}
	return e
}

func qosPolicies(e *epSpec) []*proto.QoSPolicy {
	if !e.dscp {
		return nil
	}
	out := []*proto.QoSPolicy{{Destination: "0.0.0.0/0", Dscp: int32(10 + e.variant)}}
	if e.variant%2 == 1 {
		out = append(out, &proto.QoSPolicy{Destination: "10.0.0.0/8", Dscp: 46})
	}
	return out
}

func wepMsg(i int, e *epSpec) *proto.WorkloadEndpointUpdate {
	w := &proto.WorkloadEndpoint{State: "active", Name: fmt.Sprintf("cali%d", i), QosPolicies: qosPolicies(e)}
	for _, a := range e.v4 {
		w.Ipv4Nets = append(w.Ipv4Nets, a+"/32")
	}
	for _, a := range e.v6 {
		w.Ipv6Nets = append(w.Ipv6Nets, a+"/128")
	}
	if e.connLimit || e.pktRate || e.bandwidth {
		q := &proto.QoSControls{}
		if e.connLimit {
			switch e.variant {
			case 0:
				q.IngressMaxConnections = 10
			case 1:
				q.EgressMaxConnections = 20
			default:
				q.IngressMaxConnections, q.EgressMaxConnections = 5, 6
			}
		}
		if e.pktRate {
			switch e.variant {
			case 0:
				q.EgressPacketRate, q.EgressPacketBurst = 100, 5
			case 1:
				q.IngressPacketRate, q.IngressPacketBurst = 200, 5
			default:
				q.IngressPacketRate, q.EgressPacketRate = 300, 400
			}
		}
		if e.bandwidth {
			q.IngressBandwidth, q.EgressBandwidth, q.IngressBurst, q.EgressBurst = 1000000, 2000000, 10000, 10000
		}
		w.QosControls = q
	} else if e.variant == 3 {
		w.QosControls = &proto.QoSControls{} // present but all zero
	}
	return &proto.WorkloadEndpointUpdate{
		Id:       &proto.WorkloadEndpointID{OrchestratorId: "k8s", WorkloadId: fmt.Sprintf("ns/pod%d", i), EndpointId: "eth0"},
		Endpoint: w,
	}
}

func hepMsg(i int, e *epSpec) *proto.HostEndpointUpdate {
	return &proto.HostEndpointUpdate{
		Id:       &proto.HostEndpointID{EndpointId: fmt.Sprintf("hep%d", i)},
		Endpoint: &proto.HostEndpoint{Name: fmt.Sprintf("eth%d", i), ExpectedIpv4Addrs: e.v4, ExpectedIpv6Addrs: e.v6, QosPolicies: qosPolicies(e)},
	}
}

func canonSet(members []string) (map[netip.Addr]bool, error) {
	out := map[netip.Addr]bool{}
	for _, m := range members {
		a, err := netip.ParseAddr(m)
		if err != nil {
			return nil, fmt.Errorf("member %q is not an IP address", m)
		}
		out[a.Unmap()] = true
	}
	return out, nil
}

func setList(m map[netip.Addr]bool) []string {
	var out []string
	for a := range m {
		out = append(out, a.String())
	}
	sort.Strings(out)
	return out
}

// ---------------------------------------------------------------- the offload rule

func rrConfig() rules.Config {
	return rules.Config{
		IPSetConfigV4:            ipsets.NewIPVersionConfig(ipsets.IPFamilyV4, "cali", nil, nil),
		IPSetConfigV6:            ipsets.NewIPVersionConfig(ipsets.IPFamilyV6, "cali", nil, nil),
		MarkAccept:               0x8,
		MarkPass:                 0x10,
		MarkScratch0:             0x20,
		MarkScratch1:             0x40,
		MarkDrop:                 0x80,
		MarkEndpoint:             0xff00,
		MarkNonCaliEndpoint:      0x0100,
		WorkloadIfacePrefixes:    []string{"cali"},
		VXLANPort:                4789,
		VXLANVNI:                 4096,
		NFTablesFlowTableOffload: true,
	}
}

// offloadRules returns the rendered text of every rule of the filter FORWARD chains that carries a
// flow-offload action, in order.
func offloadRules(ipVersion uint8) (texts []string, chain string, total int) {
	rr := rules.NewRenderer(rrConfig(), true)
	rs := nfsim.NewRuleset(nfsim.NFT, ipVersion)
	for _, ch := range rr.StaticFilterTableChains(ipVersion) {
		for i := range ch.Rules {
			total++
			if _, ok := ch.Rules[i].Action.(nftables.FlowOffloadAction); ok {
				texts = append(texts, rs.RenderRule(ch.Name, &ch.Rules[i]))
				chain = ch.Name
			}
		}
	}
	return
}

var _ generictables.Action = nftables.FlowOffloadAction{}

// ---------------------------------------------------------------- the case

func run(c *harness.Case) {
	ipVersion := uint8(4)
	if c.Index%2 == 1 {
		ipVersion = 6
	}
	fam := ipsets.IPFamilyV4
	if ipVersion == 6 {
		fam = ipsets.IPFamilyV6
	}
	rec := &recIPSets{family: fam, sets: map[string][]string{}, metas: map[string]ipsets.IPSetMetadata{}}
	mgr := intdataplane.VerifNewFlowtableExclusionManager(rec, ipVersion, 1048576)

	// rule half set-up
	texts, chainName, _ := offloadRules(ipVersion)
	if len(texts) == 0 {
		c.Violationf("no-offload-rule", nil, "StaticFilterTableChains(ipVersion=%d) with nftables flowtable offload on renders no flow-offload rule", ipVersion)
		return
	}
	ipsCfg := ipsets.NewIPVersionConfig(fam, "cali", nil, nil)
	wantSetName := nftables.LegalizeSetName(ipsCfg.NameForMainIPSet(rules.IPSetIDNoFlowOffload))
	for _, t := range texts {
		if !strings.Contains(t, "@"+wantSetName) {
			c.Violationf("offload-rule-uses-another-set", map[string]any{"rule": t, "set": wantSetName},
				"the offload rule does not reference the set the exclusion manager maintains (@%s): %s", wantSetName, t)
			return
		}
	}

	const nWep, nHep = 5, 3
	weps := map[int]*epSpec{}
	heps := map[int]*epSpec{}
	var log []string
	shared, toggles := 0, 0
	nOps := 5 + c.R.Intn(c.Pick(25, 45))
	poolAddrs := pool(int(ipVersion))

	judge := func() bool {
		if err := mgr.CompleteDeferredWork(); err != nil {
			c.Inconclusive("complete-deferred-work-error")
			return false
		}
		log = append(log, "FLUSH")
		c.Count("flushes", 1)
		detail := map[string]any{"ip_version": ipVersion, "history": log}
		if len(rec.otherOp) > 0 {
			c.Violationf("unexpected-ipset-operation", detail, "the manager used IP set operations other than AddOrReplaceIPSet: %v", rec.otherOp)
			return false
		}
		for id := range rec.sets {
			if id != rules.IPSetIDNoFlowOffload {
				c.Violationf("unexpected-ipset", detail, "the manager wrote IP set %q", id)
				return false
			}
		}
		// expected set, from the statement
		want := map[netip.Addr]bool{}
		count := map[netip.Addr]int{}
		add := func(e *epSpec) {
			if !e.needs() {
				return
			}
			addrs := e.v4
			if ipVersion == 6 {
				addrs = e.v6
			}
			for _, a := range addrs {
				ad := netip.MustParseAddr(a)
				want[ad] = true
				count[ad]++
			}
		}
		for i := 0; i < nWep; i++ {
			if e := weps[i]; e != nil {
				add(e)
			}
		}
		for i := 0; i < nHep; i++ {
			if e := heps[i]; e != nil {
				add(e)
			}
		}
		for _, n := range count {
			if n > 1 {
				shared++
				c.Count("shared_address_states", 1)
				break
			}
		}
		members := rec.sets[rules.IPSetIDNoFlowOffload]
		got, err := canonSet(members)
		if err != nil {
			detail["members"] = members
			c.Violationf("bad-set-member", detail, "no-flow-offload set: %v", err)
			return false
		}
		if m, ok := rec.metas[rules.IPSetIDNoFlowOffload]; ok && m.Type != ipsets.IPSetTypeHashIP {
			c.Violationf("set-type", detail, "no-flow-offload set has type %v, the rule matches plain addresses", m.Type)
			return false
		}
		detail["set_written"] = setList(got)
		detail["set_expected"] = setList(want)
		c.Count("set_comparisons", 1)
		c.Count("expected_members", int64(len(want)))
		var missing, extra []string
		for a := range want {
			if !got[a] {
				missing = append(missing, a.String())
			}
		}
		for a := range got {
			if !want[a] {
				extra = append(extra, a.String())
			}
		}
		sort.Strings(missing)
		sort.Strings(extra)
		if len(missing) > 0 {
			c.Violationf("address-missing-from-exclusion-set", detail, "addresses %v belong to endpoints with DSCP / connection / packet-rate limits but are not in the no-flow-offload set %v", missing, setList(got))
			return false
		}
		if len(extra) > 0 {
			c.Violationf("stale-address-in-exclusion-set", detail, "addresses %v are in the no-flow-offload set but no current endpoint with such a feature has them", extra)
			return false
		}
		c.Distinct("set_contents", fmt.Sprint(setList(got)))

		// rule half: evaluate the rendered rule(s) against the set the manager wrote
		rs := nfsim.NewRuleset(nfsim.NFT, ipVersion)
		ipset, err := refpolicy.ParseIPSet(members)
		if err != nil {
			c.Inconclusive("ipset-parse")
			return false
		}
		rs.AddSet(wantSetName, ipset, false)
		for _, t := range texts {
			if err := rs.AddRule(chainName, t); err != nil {
				if nfsim.IsUnparsed(err) {
					c.Inconclusive("nfsim-unparsed-offload-rule")
					return false
				}
				detail["rule"] = t
				c.Violationf("offload-rule-rejected", detail, "the rendered offload rule would be refused: %v", err)
				return false
			}
		}
		if err := rs.Err(); err != nil && nfsim.IsUnparsed(err) {
			c.Inconclusive("nfsim-unparsed-offload-rule")
			return false
		}
		outside := "192.0.2.77"
		if ipVersion == 6 {
			outside = "2001:db8::77"
		}
		cands := append([]string{outside}, poolAddrs...)
		states := []nfsim.CTState{nfsim.CTNew, nfsim.CTEstablished, nfsim.CTRelated, nfsim.CTInvalid, nfsim.CTUntracked}
		stateNames := []string{"NEW", "ESTABLISHED", "RELATED", "INVALID", "UNTRACKED"}
		for _, s := range cands {
			for _, d := range cands {
				if s == d {
					continue
				}
				src, dst := netip.MustParseAddr(s), netip.MustParseAddr(d)
				for si, st := range states {
					proto := uint8(6)
					if c.R.Intn(3) == 0 {
						proto = 17
					}
					pkt := &nfsim.Packet{Packet: refpolicy.Packet{IPVersion: ipVersion, Src: src, Dst: dst, Proto: proto,
						SrcPort: uint16(1024 + c.R.Intn(60000)), DstPort: uint16(1 + c.R.Intn(1000))},
						InIface: "cali0", OutIface: "eth0", CTState: st}
					res, err := rs.Run(chainName, pkt)
					if err != nil {
						if nfsim.IsUnparsed(err) {
							c.Inconclusive("nfsim-unparsed-offload-rule")
						} else {
							c.Inconclusive("nfsim-run-error")
						}
						return false
					}
					c.Count("packets_evaluated", 1)
					established := st == nfsim.CTEstablished || st == nfsim.CTRelated
					srcIn, dstIn := want[src], want[dst]
					if res.FlowOffload {
						c.Count("packets_offloaded", 1)
						if !established || srcIn || dstIn {
							detail["rule"] = texts
							detail["packet"] = fmt.Sprintf("%s -> %s ctstate %s", s, d, stateNames[si])
							key := "offloaded-flow-of-excluded-endpoint"
							if !established {
								key = "offloaded-flow-not-established"
							}
							c.Violationf(key, detail, "packet %s -> %s in ctstate %s is offloaded (source excluded=%v, destination excluded=%v); rule: %s",
								s, d, stateNames[si], srcIn, dstIn, strings.Join(texts, " ;; "))
							return false
						}
					} else if established && (srcIn || dstIn) {
						c.Count("packets_kept_for_excluded_endpoint", 1)
					}
				}
			}
		}
		return true
	}

	for op := 0; op < nOps; op++ {
		switch r := c.R.Intn(10); {
		case r < 5:
			i := c.R.Intn(nWep)
			e := genSpec(c, false)
			if old := weps[i]; old != nil {
				if c.R.Intn(2) == 0 { // keep addresses, toggle features only
					e.v4, e.v6 = old.v4, old.v6
				} else if c.R.Intn(2) == 0 { // keep features, change addresses
					e.dscp, e.connLimit, e.pktRate, e.bandwidth = old.dscp, old.connLimit, old.pktRate, old.bandwidth
				}
				if old.needs() != e.needs() {
					toggles++
					c.Count("feature_toggles", 1)
				}
			}
			weps[i] = e
			mgr.OnUpdate(wepMsg(i, e))
			log = append(log, fmt.Sprintf("WEP%d=%v", i, e))
			c.Count("endpoint_updates", 1)
		case r < 7:
			i := c.R.Intn(nHep)
			e := genSpec(c, true)
			if old := heps[i]; old != nil && old.needs() != e.needs() {
				toggles++
				c.Count("feature_toggles", 1)
			}
			heps[i] = e
			mgr.OnUpdate(hepMsg(i, e))
			log = append(log, fmt.Sprintf("HEP%d=%v", i, e))
			c.Count("endpoint_updates", 1)
		case r < 9:
			if c.R.Intn(3) == 0 {
				i := c.R.Intn(nHep)
				delete(heps, i)
				mgr.OnUpdate(&proto.HostEndpointRemove{Id: &proto.HostEndpointID{EndpointId: fmt.Sprintf("hep%d", i)}})
				log = append(log, fmt.Sprintf("REMOVE HEP%d", i))
			} else {
				i := c.R.Intn(nWep)
				delete(weps, i)
				mgr.OnUpdate(&proto.WorkloadEndpointRemove{Id: &proto.WorkloadEndpointID{OrchestratorId: "k8s", WorkloadId: fmt.Sprintf("ns/pod%d", i), EndpointId: "eth0"}})
				log = append(log, fmt.Sprintf("REMOVE WEP%d", i))
			}
			c.Count("endpoint_removes", 1)
		default:
			// unrelated message types must be ignored
			mgr.OnUpdate(&proto.InSync{})
			mgr.OnUpdate(intdataplane.NewIfaceStateUpdate("cali0", "up", 5))
		}
		if c.R.Intn(3) == 0 {
			if !judge() {
				return
			}
		}
	}
	if !judge() {
		return
	}
	if toggles > 0 || shared > 0 {
		c.NonTrivial(strings.Join(log, ";"))
	}
	if c.Index < 2 {
		c.Sample(map[string]any{"ip_version": ipVersion, "offload_rule": texts, "history": log})
	}
}

func main() {
	logrus.SetOutput(io.Discard)
	logrus.SetLevel(logrus.PanicLevel)
	harness.Main(harness.Check{
		ID:    "C41",
		Level: "exploration",
		Rule: "histories of 5-30 (thorough 5-50) updates/removes over 5 workload and 3 host endpoints with 0-2 addresses per family from a pool of 8 (so addresses are shared), features DSCP / connection limit / packet rate / bandwidth-only toggling, " +
			"IPv4 manager on even cases and IPv6 on odd; CompleteDeferredWork with probability 1/3 after an operation and at the end, set compared each time and the rendered offload rule evaluated on 9x8x5 packets; " +
			"non-trivial = a feature toggled on an existing endpoint or an address shared by two excluded endpoints; distinct by the history",
		Assumptions: []string{
			"CGO off (felix/dataplane/linux): no race detector; single-goroutine manager",
			"the IP sets layer below AddOrReplaceIPSet is replaced by a recorder (set semantics: duplicates collapse)",
			"the offload rule is evaluated by /verif/internal/nfsim on the text the real nft renderer produces; the kernel flowtable itself is not exercised",
		},
		Cases: func(tier string) int {
			if tier == "thorough" {
				return 60000
			}
			return 2000
		},
		Run: run,
		Floors: map[string]int64{"set_comparisons": 2000, "expected_members": 2000, "feature_toggles": 500, "shared_address_states": 200,
			"packets_evaluated": 100000, "packets_offloaded": 5000, "packets_kept_for_excluded_endpoint": 5000},
	})
}

// C20 — IPAM allocations respect pools, uses, reservations and affinity limits.
//
// Real code driven: libcalico-go/lib/ipam AutoAssign / AssignIP / ReleaseByHandle through
// clientv3.NewFromBackend(casstore).IPAM(), i.e. determinePools, filterPoolsByUse, SelectsNode,
// SelectsNamespace, the reservation addrFilter, findOrClaimBlock (allowNewClaim / MaxBlocksPerHost /
// StrictAffinity) and the clientv3 pool accessor (disabled / not-allocatable / deleting pools).
//
// A case is one generated cluster layout: 2-3 labelled nodes, 2-5 non-overlapping pools (v4 and
// sometimes v6, block sizes /28../30 resp. /124../126) with node selectors, namespace selectors,
// allowed uses (Workload / Tunnel / LoadBalancer), disabled, manual-assignment and
// not-allocatable pools, 0-3 IPReservations (single addresses, ranges, a whole block), an IPAM
// config (StrictAffinity, MaxBlocksPerHost, AutoAllocateBlocks), followed by a sequential history of
// ~20 requests issued by clients on the nodes: AutoAssign with varying counts, uses, namespace
// labels, named pools and per-request block caps; AssignIP with and without an intended use;
// ReleaseByHandle to make room; and administrative changes in between (disable / re-enable a pool,
// add a reservation).
//
// Oracle.  For every address returned by AutoAssign, judged against the layout as it is at that
// moment (pool membership and selectors are evaluated by this file's own tiny evaluator over a
// fixed set of selector shapes, not by the repo's selector package):
//   - it lies in a pool; that pool is not disabled and not marked Allocatable=false;
//   - the pool allows the request's intended use;
//   - if the request named pools it is one of them; otherwise the pool is in automatic assignment
//     mode and its node selector matches the node's labels and its namespace selector matches
//     the namespace's labels (no namespace = no labels);
//   - it is inside no IPReservation;
//   - the returned CIDR is address/<block size of that pool>.
//
// For AssignIP with an intended use that succeeds: the address lies in an enabled pool that
// allows that use.  With StrictAffinity (observed at the committed write, under the store lock):
// an allocation is only ever written into a block whose recorded affinity is the requesting host.
// Block cap (observed at the committed write that creates a block affinity during an AutoAssign):
// before that write the host held fewer confirmed affine blocks of that IP version, inside the
// pools this request may use, than the effective cap (min of global and per-request cap, 20 if
// neither is set).
// A request may always fail; it must not succeed by breaking one of the above.
//
// Deliberately not checked:
//   - which eligible pool/block/address is chosen, and whether a satisfiable request succeeds;
//   - the cap for blocks claimed by AssignIP / ClaimAffinity (explicit claims are not gated by the
//     cap in the design), for blocks outside the pools usable by the request, and under
//     concurrency (histories here are sequential: operation-level interleaving of clients);
//   - AssignIP without an intended use (exempt by the API contract), selector syntax beyond the
//     generated shapes (C06/C07), /32 and /128 blocks, host-reserved (Windows) attributes,
//     KubeVirt MaxAllocToHandle.
package main

import (
	"context"
	"fmt"
	"math/rand"
	"net"
	"strings"
	"time"

	apiv3 "github.com/projectcalico/api/pkg/apis/projectcalico/v3"
	"github.com/sirupsen/logrus"

	"github.com/projectcalico/calico/libcalico-go/lib/backend/model"
	"github.com/projectcalico/calico/libcalico-go/lib/ipam"
	"github.com/projectcalico/calico/libcalico-go/lib/options"

	"verif/internal/casstore"
	"verif/internal/harness"
	"verif/internal/ipamkit"
)

// selector shapes with their reference meaning
type selShape struct {
	expr string
	eval func(l map[string]string) bool
}

var nodeSels = []selShape{
	{"", func(map[string]string) bool { return true }},
	{"all()", func(map[string]string) bool { return true }},
	{"zone == 'a'", func(l map[string]string) bool { return l["zone"] == "a" }},
	{"zone == 'b'", func(l map[string]string) bool { return l["zone"] == "b" }},
	{"zone != 'a'", func(l map[string]string) bool { return l["zone"] != "a" }}, // every node carries a zone label
	{"has(role)", func(l map[string]string) bool { _, ok := l["role"]; return ok }},
	{"!has(role)", func(l map[string]string) bool { _, ok := l["role"]; return !ok }},
	{"zone == 'a' && has(role)", func(l map[string]string) bool { _, ok := l["role"]; return ok && l["zone"] == "a" }},
	{"zone in {'a', 'c'}", func(l map[string]string) bool { return l["zone"] == "a" || l["zone"] == "c" }},
}

var nsSels = []selShape{
	{"", func(map[string]string) bool { return true }},
	{"all()", func(map[string]string) bool { return true }},
	{"team == 'red'", func(l map[string]string) bool { return l["team"] == "red" }},
	{"has(team)", func(l map[string]string) bool { _, ok := l["team"]; return ok }},
	{"!has(team)", func(l map[string]string) bool { _, ok := l["team"]; return !ok }},
}

type pool struct {
	spec     ipamkit.PoolSpec
	nodeSel  selShape
	nsSel    selShape
	net      *net.IPNet
	disabled bool // current state (changes during the history)
}

type layout struct {
	nodes  []ipamkit.NodeSpec
	pools  []*pool
	rsv    []*net.IPNet
	config ipam.IPAMConfig
}

var v4Slots = []string{"10.20.0.0/27", "10.20.0.32/27", "10.20.0.64/28", "10.20.0.80/28", "10.20.0.96/29", "10.20.1.0/26"}
var v6Slots = []string{"fd00:20::/123", "fd00:20::100/124"}

func hasUse(us []apiv3.IPPoolAllowedUse, u apiv3.IPPoolAllowedUse) bool {
	for _, x := range us {
		if x == u {
			return true
		}
	}
	return false
}

func genLayout(r *rand.Rand) *layout {
	l := &layout{}
	zones := []string{"a", "b", "c"}
	nn := 2 + r.Intn(2)
	for i := 0; i < nn; i++ {
		lb := map[string]string{"zone": zones[r.Intn(3)]}
		if r.Intn(2) == 0 {
			lb["role"] = []string{"x", "y"}[r.Intn(2)]
		}
		l.nodes = append(l.nodes, ipamkit.NodeSpec{Name: fmt.Sprintf("node-%d", i), Labels: lb})
	}
	np := 2 + r.Intn(4)
	perm := r.Perm(len(v4Slots))
	for i := 0; i < np; i++ {
		var cidr string
		v6 := false
		if i == np-1 && r.Intn(3) == 0 {
			cidr, v6 = v6Slots[r.Intn(len(v6Slots))], true
		} else {
			cidr = v4Slots[perm[i%len(perm)]]
		}
		_, n, _ := net.ParseCIDR(cidr)
		ones, _ := n.Mask.Size()
		p := &pool{net: n}
		p.spec = ipamkit.PoolSpec{Name: fmt.Sprintf("pool-%d", i), CIDR: cidr}
		if v6 {
			p.spec.BlockSize = 124 + r.Intn(3)
		} else {
			p.spec.BlockSize = 28 + r.Intn(3)
		}
		if p.spec.BlockSize < ones {
			p.spec.BlockSize = ones
		}
		switch x := r.Intn(10); {
		case x < 4:
			p.spec.AllowedUses = []apiv3.IPPoolAllowedUse{apiv3.IPPoolAllowedUseWorkload, apiv3.IPPoolAllowedUseTunnel}
		case x < 7:
			p.spec.AllowedUses = []apiv3.IPPoolAllowedUse{apiv3.IPPoolAllowedUseWorkload}
		case x < 9:
			p.spec.AllowedUses = []apiv3.IPPoolAllowedUse{apiv3.IPPoolAllowedUseTunnel}
		default:
			p.spec.AllowedUses = []apiv3.IPPoolAllowedUse{apiv3.IPPoolAllowedUseLoadBalancer}
		}
		lbPool := hasUse(p.spec.AllowedUses, apiv3.IPPoolAllowedUseLoadBalancer)
		p.nodeSel = nodeSels[1]
		if !lbPool { // LoadBalancer pools must select all()
			p.nodeSel = nodeSels[r.Intn(len(nodeSels))]
		}
		p.nsSel = nsSels[0]
		if !hasUse(p.spec.AllowedUses, apiv3.IPPoolAllowedUseTunnel) && r.Intn(3) == 0 { // Tunnel pools cannot have a namespace selector
			p.nsSel = nsSels[r.Intn(len(nsSels))]
		}
		p.spec.NodeSelector, p.spec.NamespaceSelector = p.nodeSel.expr, p.nsSel.expr
		switch r.Intn(12) {
		case 0:
			p.spec.Disabled, p.disabled = true, true
		case 1:
			p.spec.NotAllocatable = true
		case 2:
			p.spec.Manual = true
		}
		l.pools = append(l.pools, p)
	}
	// reservations
	for i, n := 0, r.Intn(4); i < n; i++ {
		p := l.pools[r.Intn(len(l.pools))]
		addrs := ipamkit.AddrsOf(p.spec.CIDR)
		a := addrs[r.Intn(len(addrs))]
		bits := 32
		if ipamkit.IsV6(a) {
			bits = 128
		}
		plen := bits
		switch r.Intn(4) {
		case 0:
			plen = bits - 1
		case 1:
			plen = bits - 2
		case 2:
			plen = p.spec.BlockSize // a whole block
		}
		_, n, _ := net.ParseCIDR(fmt.Sprintf("%s/%d", a, plen))
		l.rsv = append(l.rsv, n)
	}
	l.config = ipam.IPAMConfig{AutoAllocateBlocks: true}
	switch r.Intn(5) {
	case 0, 1:
		l.config.StrictAffinity = true
		l.config.MaxBlocksPerHost = []int{0, 1, 1, 2, 3}[r.Intn(5)]
	case 2:
		l.config.StrictAffinity = true
		l.config.AutoAllocateBlocks = r.Intn(5) != 0
	}
	return l
}

func (l *layout) poolOf(addr string) *pool {
	ip := net.ParseIP(addr)
	for _, p := range l.pools {
		if p.net.Contains(ip) {
			return p
		}
	}
	return nil
}

func (l *layout) reserved(addr string) bool {
	ip := net.ParseIP(addr)
	for _, n := range l.rsv {
		if n.Contains(ip) {
			return true
		}
	}
	return false
}

func (p *pool) enabled() bool { return !p.disabled && !p.spec.NotAllocatable }

type request struct {
	step   ipamkit.Step
	node   ipamkit.NodeSpec
	use    apiv3.IPPoolAllowedUse
	nsLbls map[string]string
	named  map[string]bool
}

// usable reports whether the reference semantics lets the request draw from pool p.
func (l *layout) usable(p *pool, rq *request) bool {
	if !p.enabled() || !hasUse(p.spec.AllowedUses, rq.use) {
		return false
	}
	if len(rq.named) > 0 {
		return rq.named[p.spec.CIDR]
	}
	if p.spec.Manual {
		return false
	}
	nodeLabels := rq.node.Labels
	if rq.use == apiv3.IPPoolAllowedUseLoadBalancer {
		nodeLabels = map[string]string{} // the virtual load-balancer node has no labels
	}
	return p.nodeSel.eval(nodeLabels) && p.nsSel.eval(rq.nsLbls)
}

type state struct {
	c   *harness.Case
	l   *layout
	w   *ipamkit.World
	cur *request // request in progress (histories are sequential)
	wit func() map[string]any
}

// capCheck runs under the store lock at every committed write.
func (s *state) capCheck(wr *casstore.Write) {
	ak, ok := wr.Key.(model.BlockAffinityKey)
	if !ok || wr.Kind != casstore.WriteCreated || s.cur == nil || s.cur.step.Kind != ipamkit.KAutoAssign {
		return
	}
	rq := s.cur
	host := rq.step.Host
	if ak.Host != host {
		return
	}
	g, m := s.l.config.MaxBlocksPerHost, rq.step.MaxBlocks
	limit := m
	if g > 0 && m > 0 && m > g {
		limit = g
	} else if m == 0 {
		limit = g
	}
	if limit == 0 {
		limit = 20
	}
	v6 := ak.CIDR.Addr().Is6()
	held := 0
	var heldList []string
	for _, kv := range wr.View.Affinities() {
		k := kv.Key.(model.BlockAffinityKey)
		if k.Host != host || k.AffinityType != ak.AffinityType || k.CIDR.Addr().Is6() != v6 || k.CIDR == ak.CIDR {
			continue
		}
		if kv.Value.(*model.BlockAffinity).State != model.StateConfirmed {
			continue
		}
		p := s.l.poolOf(k.CIDR.Addr().String())
		if p == nil || !s.l.usable(p, rq) {
			continue
		}
		held++
		heldList = append(heldList, k.CIDR.String())
	}
	s.c.Count("cap_checks", 1)
	if held == limit-1 {
		s.c.Count("cap_checks_at_limit", 1)
	}
	if held >= limit {
		s.c.Violationf("block-cap-exceeded", s.wit(),
			"AutoAssign for %s (per-request cap %d, global cap %d, effective %d) claimed block %s although the host already holds %d confirmed affine blocks usable by this request: %v",
			host, m, g, limit, ak.CIDR, held, heldList)
	}
}

func errShape(e string) string {
	for _, k := range []string{"no configured Calico pools", "no pools match the required use", "per host block limit", "does not exist, or is not enabled", "cannot find a qualified ippool", "failed to find or claim a block", "No Free Blocks"} {
		if strings.Contains(e, k) {
			return strings.ReplaceAll(k, " ", "_")
		}
	}
	if len(e) > 30 {
		e = e[:30]
	}
	return strings.ReplaceAll(e, " ", "_")
}

func run(c *harness.Case) {
	r := c.R
	l := genLayout(r)
	spec := ipamkit.WorldSpec{Nodes: l.nodes, Config: &l.config}
	for _, p := range l.pools {
		spec.Pools = append(spec.Pools, p.spec)
	}
	for _, n := range l.rsv {
		spec.Reservations = append(spec.Reservations, n.String())
	}
	w, err := ipamkit.NewWorld(spec)
	if err != nil {
		c.Inconclusive("setup: " + err.Error())
		return
	}
	defer w.Store.Shutdown()
	st := &state{c: c, l: l, w: w}
	var log []map[string]any
	st.wit = func() map[string]any {
		return map[string]any{"nodes": l.nodes, "pools": spec.Pools, "reservations": spec.Reservations, "config": l.config, "history": log}
	}
	tr := ipamkit.NewTracker(w, ipamkit.TrackerOpts{Structural: true, Affinity: true, Strict: l.config.StrictAffinity})
	trHook := w.Store.OnCommit
	w.Store.OnCommit = func(wr *casstore.Write) { trHook(wr); st.capCheck(wr) }
	var clients []*ipamkit.LClient
	for _, n := range l.nodes {
		clients = append(clients, w.AddClient(n.Name))
		if r.Intn(3) == 0 {
			clients = append(clients, w.AddClient(n.Name))
		}
	}
	lbClient := w.AddClient(apiv3.VirtualLoadBalancer)
	nodeOf := map[string]ipamkit.NodeSpec{}
	for _, n := range l.nodes {
		nodeOf[n.Name] = n
	}
	c.Sample(map[string]any{"pools": spec.Pools, "reservations": spec.Reservations, "config": l.config, "nodes": l.nodes})

	hasV6 := false
	for _, p := range l.pools {
		hasV6 = hasV6 || ipamkit.IsV6(p.spec.CIDR)
	}
	var handles []string
	discriminating := 0
	nReq := c.Pick(20, 24)
	ctx := context.Background()
	for i := 0; i < nReq && !c.Failed(); i++ {
		// administrative changes
		switch x := r.Intn(20); {
		case x == 0: // toggle a pool
			p := l.pools[r.Intn(len(l.pools))]
			cur, err := w.Admin.IPPools().Get(ctx, p.spec.Name, options.GetOptions{})
			if err == nil {
				cur.Spec.Disabled = !p.disabled
				if _, err := w.Admin.IPPools().Update(ctx, cur, options.SetOptions{}); err == nil {
					p.disabled = !p.disabled
					log = append(log, map[string]any{"admin": "set pool disabled", "pool": p.spec.Name, "disabled": p.disabled})
					c.Count("admin_pool_toggles", 1)
				}
			}
		case x == 1: // add a reservation
			p := l.pools[r.Intn(len(l.pools))]
			addrs := ipamkit.AddrsOf(p.spec.CIDR)
			a := addrs[r.Intn(len(addrs))]
			bits := 32
			if ipamkit.IsV6(a) {
				bits = 128
			}
			_, n, _ := net.ParseCIDR(fmt.Sprintf("%s/%d", a, bits-r.Intn(2)))
			res := apiv3.NewIPReservation()
			res.Name = fmt.Sprintf("rsv-late-%d", i)
			res.Spec.ReservedCIDRs = []string{n.String()}
			if _, err := w.Admin.IPReservations().Create(ctx, res, options.SetOptions{}); err == nil {
				l.rsv = append(l.rsv, n)
				log = append(log, map[string]any{"admin": "add reservation", "cidr": n.String()})
				c.Count("admin_reservations", 1)
			}
		}
		lc := clients[r.Intn(len(clients))]
		rq := &request{node: nodeOf[lc.Host], use: apiv3.IPPoolAllowedUseWorkload}
		switch x := r.Intn(100); {
		case x < 70: // AutoAssign
			s := ipamkit.Step{Kind: ipamkit.KAutoAssign, Host: lc.Host, Handle: fmt.Sprintf("h%d", i)}
			switch r.Intn(8) {
			case 0:
				s.Num6 = 1
			case 1:
				s.Num4, s.Num6 = 1, 1
			case 2:
				s.Num4 = 3
			case 3:
				s.Num4 = 2
			default:
				s.Num4 = 1
			}
			if !hasV6 && s.Num6 > 0 && r.Intn(4) != 0 {
				s.Num4, s.Num6 = 1, 0
			}
			switch r.Intn(10) {
			case 0, 1:
				s.Use, rq.use = "Tunnel", apiv3.IPPoolAllowedUseTunnel
				s.NoNamespace = true
			case 2:
				s.Use, rq.use = "LoadBalancer", apiv3.IPPoolAllowedUseLoadBalancer
				s.Host, lc = apiv3.VirtualLoadBalancer, lbClient
				s.NoNamespace = true
			}
			if !s.NoNamespace {
				switch r.Intn(4) {
				case 0:
					rq.nsLbls = map[string]string{"team": "red"}
				case 1:
					rq.nsLbls = map[string]string{"team": "blue"}
				case 2:
					s.NoNamespace = true
				}
				s.NSLabels = rq.nsLbls
			}
			if r.Intn(4) == 0 { // name 1-2 pools (possibly unusable ones)
				rq.named = map[string]bool{}
				for k := 0; k < 1+r.Intn(2); k++ {
					p := l.pools[r.Intn(len(l.pools))]
					if rq.named[p.spec.CIDR] {
						continue
					}
					rq.named[p.spec.CIDR] = true
					if ipamkit.IsV6(p.spec.CIDR) {
						s.Pools6 = append(s.Pools6, p.spec.CIDR)
					} else {
						s.Pools4 = append(s.Pools4, p.spec.CIDR)
					}
				}
			}
			if r.Intn(4) == 0 {
				s.MaxBlocks = 1 + r.Intn(3)
			}
			rq.step = s
			// A request that names only pools of one family constrains only that family; the
			// other family falls back to selector-based choice.  Judge each family on its own.
			st.cur = rq
			rec := w.Exec(lc, s)
			st.cur = nil
			handles = append(handles, s.Handle)
			log = append(log, map[string]any{"op": rec})
			c.Count("requests", 1)
			c.Count("autoassign_requests", 1)
			if rec.Error() != nil {
				c.Count("requests_failed", 1)
				c.Count("aa_err_"+errShape(rec.Err), 1)
			}
			unusable := 0
			for _, p := range l.pools {
				if !l.usable(p, rq) {
					unusable++
				}
			}
			for k, a := range rec.IPs {
				c.Count("addresses_judged", 1)
				v6 := ipamkit.IsV6(a)
				// named pools of the other family do not constrain this family
				rqf := *rq
				named := map[string]bool{}
				for cidr := range rq.named {
					if ipamkit.IsV6(cidr) == v6 {
						named[cidr] = true
					}
				}
				rqf.named = named
				p := l.poolOf(a)
				bad := func(key, f string, args ...any) {
					c.Violationf(key, st.wit(), "request #%d %+v on %s returned %s: %s", i, s, lc.Host, a, fmt.Sprintf(f, args...))
				}
				if unusable > 0 {
					discriminating++
					c.Count("addresses_judged_discriminating", 1)
				}
				if p == nil {
					bad("address-outside-any-pool", "it lies in no configured pool")
					continue
				}
				switch {
				case p.disabled:
					bad("address-from-disabled-pool", "pool %s is disabled", p.spec.Name)
				case p.spec.NotAllocatable:
					bad("address-from-unallocatable-pool", "pool %s has condition Allocatable=false", p.spec.Name)
				case !hasUse(p.spec.AllowedUses, rq.use):
					bad("address-from-pool-not-allowing-use", "pool %s allows %v, the request is for %s", p.spec.Name, p.spec.AllowedUses, rq.use)
				case len(named) > 0 && !named[p.spec.CIDR]:
					bad("address-not-in-requested-pools", "pool %s (%s) is not among the requested pools %v", p.spec.Name, p.spec.CIDR, named)
				case len(named) == 0 && p.spec.Manual:
					bad("address-from-manual-pool", "pool %s is in manual assignment mode and was not named", p.spec.Name)
				case len(named) == 0 && !l.usable(p, &rqf):
					if rq.use != apiv3.IPPoolAllowedUseLoadBalancer && !p.nodeSel.eval(rq.node.Labels) {
						bad("address-from-pool-not-selecting-node", "pool %s has nodeSelector %q, node %s has labels %v", p.spec.Name, p.nodeSel.expr, rq.node.Name, rq.node.Labels)
					} else {
						bad("address-from-pool-not-selecting-namespace", "pool %s has namespaceSelector %q, the namespace has labels %v", p.spec.Name, p.nsSel.expr, rq.nsLbls)
					}
				}
				if l.reserved(a) {
					bad("reserved-address-assigned", "it is covered by a reservation (%v)", l.rsv)
				}
				if k < len(rec.Masks) && rec.Masks[k] != fmt.Sprintf("%s/%d", a, p.spec.BlockSize) {
					bad("returned-mask-not-block-cidr", "returned as %s, the block size of pool %s is /%d", rec.Masks[k], p.spec.Name, p.spec.BlockSize)
				}
			}
		case x < 85: // AssignIP
			p := l.pools[r.Intn(len(l.pools))]
			addrs := ipamkit.AddrsOf(p.spec.CIDR)
			a := addrs[r.Intn(len(addrs))]
			s := ipamkit.Step{Kind: ipamkit.KAssignIP, Host: lc.Host, Handle: fmt.Sprintf("h%d", i), IP: a}
			switch r.Intn(3) {
			case 0:
				s.Use = "Workload"
			case 1:
				s.Use, rq.use = "Tunnel", apiv3.IPPoolAllowedUseTunnel
			}
			rq.step = s
			st.cur = rq
			rec := w.Exec(lc, s)
			st.cur = nil
			handles = append(handles, s.Handle)
			log = append(log, map[string]any{"op": rec})
			c.Count("requests", 1)
			c.Count("assignip_requests", 1)
			if rec.Error() == nil {
				c.Count("assignip_ok", 1)
				if p.disabled || p.spec.NotAllocatable {
					c.Violationf("assignip-from-disabled-pool", st.wit(), "request #%d AssignIP(%s) on %s succeeded but pool %s is disabled / not allocatable", i, a, lc.Host, p.spec.Name)
				}
				if s.Use != "" && !hasUse(p.spec.AllowedUses, rq.use) {
					c.Violationf("assignip-from-pool-not-allowing-use", st.wit(), "request #%d AssignIP(%s, use %s) on %s succeeded but pool %s allows only %v", i, a, s.Use, lc.Host, p.spec.Name, p.spec.AllowedUses)
				}
				c.Count("addresses_judged", 1)
			}
		default: // ReleaseByHandle
			if len(handles) == 0 {
				continue
			}
			k := r.Intn(len(handles))
			s := ipamkit.Step{Kind: ipamkit.KReleaseByHandle, Handle: handles[k]}
			handles = append(handles[:k], handles[k+1:]...)
			rec := w.Exec(lc, s)
			log = append(log, map[string]any{"op": rec})
			c.Count("releases", 1)
		}
	}
	for _, f := range tr.Findings {
		if strings.HasPrefix(f.Key, "strict-") || f.Key == "block-structure" {
			c.Violationf(f.Key, st.wit(), "%s", f.Msg)
		}
	}
	c.Count("committed_writes", tr.NWrites)
	c.Count("allocations_committed", tr.NAllocs)
	c.Count("online_checks", tr.NChecks)
	if l.config.StrictAffinity {
		c.Count("strict_cases", 1)
	}
	if discriminating > 0 {
		c.NonTrivial(fmt.Sprint(spec.Pools), fmt.Sprint(spec.Reservations), l.config.StrictAffinity, l.config.MaxBlocksPerHost)
	}
}

func main() {
	harness.Main(harness.Check{
		ID:    "C20",
		Level: "exploration",
		Rule: "case = generated layout (2-3 labelled nodes, 2-5 pools with node/namespace selectors, allowed uses, disabled / manual / not-allocatable pools, 0-3 reservations, strict affinity / block cap / auto-allocate config) + a sequential history of 20-24 requests " +
			"(AutoAssign with counts, uses, namespace labels, named pools, per-request caps; AssignIP; ReleaseByHandle; pool toggles and late reservations); " +
			"non-trivial = some address was returned by a request for which at least one pool of the layout was NOT usable (distinct by layout)",
		Assumptions: []string{
			"selector meaning is evaluated by this check's own evaluator on a fixed set of selector shapes (==, !=, has, !has, in, &&)",
			"histories are sequential (operation-level interleaving of 2-5 clients); concurrency of claims is C22's subject",
			"internal/casstore as datastore; pools are created through clientv3 (validation and defaulting as calicoctl does); generated pools respect the CRD CEL rules (LoadBalancer pools select all(), Tunnel pools have no namespace selector)",
		},
		Cases: func(tier string) int {
			if tier == "thorough" {
				return 25000
			}
			return 600
		},
		Setup:       func(tier string) error { logrus.SetLevel(logrus.PanicLevel); return nil },
		Run:         run,
		CaseTimeout: 120 * time.Second,
		Floors:      map[string]int64{"requests": 1000, "addresses_judged": 500, "addresses_judged_discriminating": 300, "cap_checks": 50, "cap_checks_at_limit": 5, "strict_cases": 20, "committed_writes": 5000},
	})
}

// C24 — Typha clients converge to the datastore view from any join point.
//
// Real code driven, over real loopback TCP:
//
//	harness -> snapcache.Cache (OnUpdates/OnStatusUpdated, real loop goroutine, Breadcrumbs)
//	        -> syncserver.Server on 127.0.0.1:<random> (handshake, streamed or snappy binary snapshot,
//	           delta sender with/without batching, pinger)
//	        -> 1..4 syncclient.SyncerClient (gob/snappy decoding) -> recording SyncerCallbacks
//
// One case = one PRNG script: a key space of GlobalConfig/HostConfig keys, ~400 updates (sets,
// deletes, deletes of absent keys, exact duplicates that the cache must swallow) in batches of PRNG
// size (some larger than the cache's MaxBatchSize so that a batch spans several Breadcrumbs), a status
// script (ResyncInProgress early, InSync at a PRNG batch index, sometimes flapping afterwards), PRNG
// cache/server settings (MaxBatchSize, MaxMessageSize, batching threshold 1ns/default, binary snapshot
// validity 1ms/1s) and 1..4 clients that connect at PRNG logical points of the script (before anything,
// in the middle, after the barrier key was fed), with or without decoder-restart support (binary snappy
// snapshot vs streamed snapshot), each reading at its own pace (its callback sleeps / stalls).
//
// Every update carries a per-key sequence number twice: in the value ("<key>=<seq>") and in the
// Revision field, which Typha forwards for deletions as well, so deletions are tombstones with a
// sequence number.
//
// Oracle (per client connection, recorded in the client's SyncerCallbacks)
//   - per key the sequence number never decreases; a value always matches its revision;
//   - when the client is told InSync: for every key, the client's knowledge is at least the model state
//     at the moment the harness fed the FIRST InSync into the cache (key present then: held with seq >=,
//     or not held provided a later deletion of the key has been fed; key absent then: not held, or held
//     with a larger seq);
//   - barrier: the last update of the script is a barrier key that sorts after every other key (so it
//     is also last in a snapshot); once a client has received it, its map must equal the model map.
//
// Deliberately not checked
//   - UpdateType seen by the client, message boundaries, how deltas were coalesced.
//   - Equal sequence numbers seen twice (a resend of the same state is not "older").
//   - Status other than InSync; later InSync notifications after a status flap are judged against the
//     first InSync snapshot only (the weakest reading of the statement).
//   - Connection drops, fall-behind disconnection, TLS, rebalancing, client reconnection (C25 covers the
//     reconnect path downstream of the client).
//   - gofail delay injection inside publishBreadcrumb (planned for the thorough tier in DESIGN.md) is not
//     used; schedules are varied by batch sizes, pacing and client read speeds only.
//
// Thread schedules across the cache, server, client goroutines and the kernel's TCP stack are real and
// not replayable; the script, settings and join points are.  Pacing sleeps never decide anything.  A
// client that has not received the barrier (or InSync, if it was fed) when the watchdog fires makes the
// case Inconclusive.
package main

import (
	"context"
	"fmt"
	"io"
	"sort"
	"strconv"
	"sync"
	"time"

	"github.com/sirupsen/logrus"

	"github.com/projectcalico/calico/libcalico-go/lib/backend/api"
	"github.com/projectcalico/calico/libcalico-go/lib/backend/model"
	"github.com/projectcalico/calico/typha/pkg/discovery"
	"github.com/projectcalico/calico/typha/pkg/snapcache"
	"github.com/projectcalico/calico/typha/pkg/syncclient"
	"github.com/projectcalico/calico/typha/pkg/syncproto"
	"github.com/projectcalico/calico/typha/pkg/syncserver"

	"verif/internal/harness"
)

func keyFor(i int) model.Key {
	if i%3 == 2 {
		return model.HostConfigKey{Hostname: "h" + strconv.Itoa(i%5), Name: "c" + strconv.Itoa(i)}
	}
	return model.GlobalConfigKey{Name: "k" + strconv.Itoa(i)}
}

var barrierKey = model.HostConfigKey{Hostname: "zzzz", Name: "barrier"}

type kstate struct {
	seq     int
	present bool
	val     string
}

type finding struct {
	key, msg string
	detail   map[string]any
}

type rec struct {
	f string
	a []any
}

func render(l []rec) []string {
	out := make([]string, len(l))
	for i, r := range l {
		out[i] = fmt.Sprintf(r.f, r.a...)
	}
	return out
}

// shared between the driver and the client monitors
type shared struct {
	mu         sync.Mutex
	inSyncSnap map[string]kstate // model at the moment the first InSync was fed; nil = never fed
	lastDel    map[string]int    // per key: largest sequence number of a deletion fed so far
	barrierVal string
}

type clientMon struct {
	id int
	sh *shared

	mu   sync.Mutex
	cond *sync.Cond

	view map[string]string
	seq  map[string]int

	findings     []finding
	trace        []rec
	gotInSync    int
	barrierSeen  bool
	atBarrier    map[string]string
	nSets, nDels int64
	nCallbacks   int64

	// pace
	delayEvery int
	delay      time.Duration
	stalled    bool // blocks in its first KV callback until released
	released   bool
}

func (m *clientMon) tr(f string, a ...any) {
	if len(m.trace) < 400 {
		m.trace = append(m.trace, rec{f, a})
	}
}

func (m *clientMon) addFinding(key, msg string, d map[string]any) {
	if len(m.findings) < 5 {
		m.findings = append(m.findings, finding{key, msg, d})
	}
}

func (m *clientMon) OnStatusUpdated(st api.SyncStatus) {
	m.mu.Lock()
	defer m.mu.Unlock()
	m.tr("status %v", st)
	if st != api.InSync {
		return
	}
	m.gotInSync++
	m.sh.mu.Lock()
	snap := m.sh.inSyncSnap
	lastDel := make(map[string]int, len(m.sh.lastDel))
	for k, v := range m.sh.lastDel {
		lastDel[k] = v
	}
	m.sh.mu.Unlock()
	if snap == nil {
		m.addFinding("insync-never-fed", "client was told InSync although the harness never fed InSync into the cache", nil)
		m.cond.Broadcast()
		return
	}
	var behind []string
	for k, ks := range snap {
		have, held := m.view[k]
		cs, seen := m.seq[k]
		if ks.present {
			switch {
			case held && cs < ks.seq:
				behind = append(behind, fmt.Sprintf("%s: server had seq %d at in-sync, client holds older %q (seq %d)", k, ks.seq, have, cs))
			case !held && lastDel[k] <= ks.seq:
				// not held and no later deletion exists: the client lacks a key of the in-sync snapshot
				behind = append(behind, fmt.Sprintf("%s: server had seq %d at in-sync and never deleted it since, client does not hold it (last seq seen %d, seen=%v)", k, ks.seq, cs, seen))
			}
		} else if held && cs <= ks.seq {
			behind = append(behind, fmt.Sprintf("%s: deleted at seq %d before in-sync, client still holds %q (seq %d)", k, ks.seq, have, cs))
		}
	}
	if len(behind) > 0 {
		sort.Strings(behind)
		m.addFinding("insync-before-snapshot-complete",
			fmt.Sprintf("client %d told InSync while its view is older than the server's in-sync snapshot: %v", m.id, head(behind)),
			map[string]any{"behind": behind})
	}
	m.cond.Broadcast()
}

func (m *clientMon) OnUpdates(us []api.Update) {
	m.mu.Lock()
	m.nCallbacks++
	n := m.nCallbacks
	for _, u := range us {
		k := u.Key.String()
		s, err := strconv.Atoi(u.Revision)
		if err != nil {
			m.addFinding("revision-corrupted", fmt.Sprintf("client %d: update for %s carries revision %q", m.id, k, u.Revision), nil)
			continue
		}
		if last, ok := m.seq[k]; ok && s < last {
			m.addFinding("sequence-decreased",
				fmt.Sprintf("client %d: %s went from seq %d back to seq %d (value %v)", m.id, k, last, s, u.Value),
				map[string]any{"key": k, "from": last, "to": s})
		}
		m.seq[k] = s
		if u.Value == nil {
			m.nDels++
			m.tr("del %s @%d", k, s)
			delete(m.view, k)
			continue
		}
		m.nSets++
		v, _ := u.Value.(string)
		m.tr("set %s=%s @%d", k, v, s)
		if u.Key != model.Key(barrierKey) && v != k+"="+u.Revision {
			m.addFinding("value-revision-mismatch",
				fmt.Sprintf("client %d: %s has value %q but revision %s", m.id, k, v, u.Revision), nil)
		}
		m.view[k] = v
		if u.Key == model.Key(barrierKey) {
			m.sh.mu.Lock()
			bv := m.sh.barrierVal
			m.sh.mu.Unlock()
			if bv != "" && v == bv {
				m.barrierSeen = true
			}
		}
	}
	if m.barrierSeen && m.atBarrier == nil {
		m.atBarrier = make(map[string]string, len(m.view))
		for k, v := range m.view {
			m.atBarrier[k] = v
		}
	}
	m.cond.Broadcast()
	// pace (never decides anything)
	if m.stalled && !m.released {
		for !m.released {
			m.cond.Wait()
		}
	}
	d := time.Duration(0)
	if m.delayEvery > 0 && n%int64(m.delayEvery) == 0 {
		d = m.delay
	}
	m.mu.Unlock()
	if d > 0 {
		time.Sleep(d)
	}
}

func head(l []string) []string {
	if len(l) > 10 {
		return l[:10]
	}
	return l
}

type clientRun struct {
	mon     *clientMon
	cancel  context.CancelFunc
	client  *syncclient.SyncerClient
	joinAt  int
	binary  bool
	started bool
}

func run(c *harness.Case) {
	r := c.R
	nKeys := 3 + r.Intn(c.Pick(40, 80))
	totalUpdates := c.Pick(400, 800)
	cacheBatch := 2 + r.Intn(19)
	srvMsg := 1 + r.Intn(20)
	batchThresh := time.Duration(0) // default 100ms: "not behind" path
	if r.Intn(2) == 0 {
		batchThresh = time.Nanosecond // always "behind": coalescing path
	}
	snapValid := time.Second
	if r.Intn(2) == 0 {
		snapValid = time.Millisecond
	}

	// script: batches
	type upd struct {
		k   int
		del bool
		dup bool
	}
	var batches [][]upd
	for n := 0; n < totalUpdates; {
		sz := 1 + r.Intn(6)
		switch r.Intn(8) {
		case 0:
			sz = cacheBatch + 1 + r.Intn(2*cacheBatch) // spans breadcrumbs
		case 1:
			sz = 1
		}
		var b []upd
		for j := 0; j < sz; j++ {
			u := upd{k: r.Intn(nKeys)}
			switch r.Intn(10) {
			case 0, 1, 2:
				u.del = true
			case 3:
				u.dup = true
			}
			b = append(b, u)
		}
		batches = append(batches, b)
		n += sz
	}
	nB := len(batches)
	inSyncAt := r.Intn(nB + 1)
	if r.Intn(8) == 0 {
		inSyncAt = -1 // never in sync
	}
	flapAt := -1
	if inSyncAt >= 0 && inSyncAt < nB-2 && r.Intn(4) == 0 {
		flapAt = inSyncAt + 1 + r.Intn(nB-inSyncAt-1)
	}
	pauses := make([]time.Duration, nB)
	for i := range pauses {
		switch r.Intn(12) {
		case 0:
			pauses[i] = time.Duration(500+r.Intn(2500)) * time.Microsecond
		case 1, 2, 3:
			pauses[i] = time.Duration(r.Intn(200)) * time.Microsecond
		}
	}

	sh := &shared{lastDel: map[string]int{}}
	nClients := 1 + r.Intn(4)
	var clients []*clientRun
	for i := 0; i < nClients; i++ {
		m := &clientMon{id: i, sh: sh, view: map[string]string{}, seq: map[string]int{}}
		m.cond = sync.NewCond(&m.mu)
		switch r.Intn(4) {
		case 0:
			m.delayEvery, m.delay = 1, time.Duration(50+r.Intn(400))*time.Microsecond
		case 1:
			m.delayEvery, m.delay = 2+r.Intn(6), time.Duration(500+r.Intn(3000))*time.Microsecond
		case 2:
			m.stalled = true
		}
		cr := &clientRun{mon: m, binary: r.Intn(2) == 0}
		switch r.Intn(5) {
		case 0:
			cr.joinAt = 0
		case 1:
			cr.joinAt = nB + 1 // after the barrier was fed
		default:
			cr.joinAt = r.Intn(nB + 1)
		}
		clients = append(clients, cr)
	}
	releaseAt := r.Intn(nB + 1)

	// real pipeline
	cacheCtx, cacheCancel := context.WithCancel(context.Background())
	cache := snapcache.New(snapcache.Config{MaxBatchSize: cacheBatch, WakeUpInterval: 20 * time.Millisecond})
	cache.Start(cacheCtx)
	srvCtx, srvCancel := context.WithCancel(context.Background())
	server := syncserver.New(map[syncproto.SyncerType]syncserver.BreadcrumbProvider{syncproto.SyncerTypeFelix: cache},
		syncserver.Config{Host: "127.0.0.1", Port: syncserver.PortRandom, MaxMessageSize: srvMsg,
			MinBatchingAgeThreshold: batchThresh, BinarySnapshotTimeout: snapValid,
			PingInterval: 10 * time.Second, DropInterval: 50 * time.Millisecond})
	server.Start(srvCtx)
	addr := fmt.Sprintf("127.0.0.1:%d", server.Port())

	teardown := func() {
		for _, cr := range clients {
			cr.mon.mu.Lock()
			cr.mon.released = true
			cr.mon.delayEvery = 0
			cr.mon.cond.Broadcast()
			cr.mon.mu.Unlock()
			if cr.started {
				cr.cancel()
			}
		}
		done := make(chan struct{})
		go func() {
			for _, cr := range clients {
				if cr.started {
					cr.client.Finished.Wait()
				}
			}
			srvCancel()
			server.Finished.Wait()
			cacheCancel()
			<-cache.Done
			close(done)
		}()
		select {
		case <-done:
		case <-time.After(20 * time.Second):
		}
	}
	defer teardown()

	startErr := ""
	startClient := func(cr *clientRun) {
		ctx, cancel := context.WithCancel(context.Background())
		cr.cancel = cancel
		cr.client = syncclient.New(discovery.New(discovery.WithAddrOverride(addr)), "verif", fmt.Sprintf("client-%d", cr.mon.id), "verif",
			cr.mon, &syncclient.Options{SyncerType: syncproto.SyncerTypeFelix, DisableDecoderRestart: !cr.binary})
		if err := cr.client.Start(ctx); err != nil {
			startErr = err.Error()
			cancel()
			return
		}
		cr.started = true
		c.Distinct("join_point", cr.joinAt*1000/(nB+1))
	}

	// model + feeding
	st := map[string]*kstate{}
	get := func(k string) *kstate {
		s := st[k]
		if s == nil {
			s = &kstate{}
			st[k] = s
		}
		return s
	}
	var fedSets, fedDels, fedDups, fedAbsentDels int64
	mkUpdate := func(u upd) (api.Update, bool) {
		key := keyFor(u.k)
		ks := key.String()
		s := get(ks)
		switch {
		case u.dup:
			if !s.present {
				return api.Update{}, false
			}
			fedDups++
			return api.Update{KVPair: model.KVPair{Key: key, Value: s.val, Revision: strconv.Itoa(s.seq)}, UpdateType: api.UpdateTypeKVUpdated}, true
		case u.del:
			if !s.present && r.Intn(4) != 0 {
				// mostly turn a delete of an absent key into a set
				break
			}
			if !s.present {
				fedAbsentDels++
			}
			s.seq++
			s.present = false
			s.val = ""
			sh.mu.Lock()
			sh.lastDel[ks] = s.seq
			sh.mu.Unlock()
			fedDels++
			return api.Update{KVPair: model.KVPair{Key: key, Revision: strconv.Itoa(s.seq)}, UpdateType: api.UpdateTypeKVDeleted}, true
		}
		ut := api.UpdateTypeKVUpdated
		if !s.present {
			ut = api.UpdateTypeKVNew
		}
		s.seq++
		s.present = true
		s.val = ks + "=" + strconv.Itoa(s.seq)
		fedSets++
		return api.Update{KVPair: model.KVPair{Key: key, Value: s.val, Revision: strconv.Itoa(s.seq)}, UpdateType: ut}, true
	}
	feedInSync := func() {
		sh.mu.Lock()
		if sh.inSyncSnap == nil {
			snap := make(map[string]kstate, len(st))
			for k, s := range st {
				snap[k] = *s
			}
			sh.inSyncSnap = snap
		}
		sh.mu.Unlock()
		cache.OnStatusUpdated(api.InSync)
	}

	cache.OnStatusUpdated(api.ResyncInProgress)
	for b := 0; b <= nB && startErr == ""; b++ {
		for _, cr := range clients {
			if cr.joinAt == b {
				startClient(cr)
			}
		}
		if b == releaseAt {
			for _, cr := range clients {
				cr.mon.mu.Lock()
				cr.mon.released = true
				cr.mon.cond.Broadcast()
				cr.mon.mu.Unlock()
			}
		}
		if b == inSyncAt {
			feedInSync()
		}
		if b == flapAt {
			cache.OnStatusUpdated(api.ResyncInProgress)
			feedInSync()
		}
		if b == nB {
			break
		}
		var us []api.Update
		for _, u := range batches[b] {
			if au, ok := mkUpdate(u); ok {
				us = append(us, au)
			}
		}
		cache.OnUpdates(us)
		if pauses[b] > 0 {
			time.Sleep(pauses[b])
		}
	}
	// barrier
	bs := get(barrierKey.String())
	bs.seq = 1
	bs.present = true
	bs.val = fmt.Sprintf("barrier-%d", c.Seed)
	sh.mu.Lock()
	sh.barrierVal = bs.val
	sh.mu.Unlock()
	cache.OnUpdates([]api.Update{{KVPair: model.KVPair{Key: barrierKey, Value: bs.val, Revision: "1"}, UpdateType: api.UpdateTypeKVNew}})
	for _, cr := range clients {
		if cr.joinAt == nB+1 && startErr == "" {
			startClient(cr)
		}
	}
	if startErr != "" {
		c.Inconclusive("client-start-failed")
		return
	}
	for _, cr := range clients { // nothing stays stalled past the end of the script
		cr.mon.mu.Lock()
		cr.mon.released = true
		cr.mon.cond.Broadcast()
		cr.mon.mu.Unlock()
	}

	want := map[string]string{}
	for k, s := range st {
		if s.present {
			want[k] = s.val
		}
	}
	inSyncFed := inSyncAt >= 0

	// wait for every client to pass the barrier (and to be told InSync if it was fed)
	deadline := time.Now().Add(40 * time.Second)
	inconclusive := ""
	for _, cr := range clients {
		m := cr.mon
		m.mu.Lock()
		expired := false
		t := time.AfterFunc(time.Until(deadline), func() {
			m.mu.Lock()
			expired = true
			m.cond.Broadcast()
			m.mu.Unlock()
		})
		for !(m.barrierSeen && (!inSyncFed || m.gotInSync > 0)) && !expired {
			m.cond.Wait()
		}
		if !m.barrierSeen {
			inconclusive = "barrier-not-delivered"
		} else if inSyncFed && m.gotInSync == 0 {
			inconclusive = "insync-not-delivered"
		}
		m.mu.Unlock()
		t.Stop()
	}

	c.Count("updates_fed", fedSets+fedDels+fedDups)
	c.Count("deletes_fed", fedDels)
	c.Count("absent_key_deletes_fed", fedAbsentDels)
	c.Count("duplicates_fed", fedDups)
	c.Count("batches_fed", int64(nB))
	c.Count("clients", int64(nClients))
	settings := fmt.Sprintf("keys=%d cacheBatch=%d srvMsg=%d batchThresh=%v snapValid=%v inSyncAt=%d/%d flapAt=%d", nKeys, cacheBatch, srvMsg, batchThresh, snapValid, inSyncAt, nB, flapAt)
	var cdesc []string
	for _, cr := range clients {
		m := cr.mon
		m.mu.Lock()
		cdesc = append(cdesc, fmt.Sprintf("client%d join=%d/%d binarySnapshot=%v delayEvery=%d delay=%v stalled=%v", m.id, cr.joinAt, nB, cr.binary, m.delayEvery, m.delay, m.stalled))
		c.Count("client_notifications", m.nSets+m.nDels)
		c.Count("client_delete_notifications", m.nDels)
		c.Count("client_callbacks", m.nCallbacks)
		c.Count("insync_checks", int64(m.gotInSync))
		if cr.binary {
			c.Count("binary_snapshot_clients", 1)
		} else {
			c.Count("streamed_snapshot_clients", 1)
		}
		if cr.joinAt > 0 {
			c.Count("late_joiners", 1)
		}
		if cr.joinAt == nB+1 {
			c.Count("joined_after_barrier", 1)
		}
		fs := append([]finding(nil), m.findings...)
		tr := render(m.trace)
		got := m.atBarrier
		m.mu.Unlock()
		witness := func(extra map[string]any) map[string]any {
			d := map[string]any{"settings": settings, "clients": cdesc, "client": m.id, "client_trace": tr}
			for k, v := range extra {
				d[k] = v
			}
			return d
		}
		for _, f := range fs {
			c.Violationf(f.key, witness(f.detail), "%s", f.msg)
		}
		if got == nil {
			continue
		}
		c.Count("barrier_checks", 1)
		c.Count("barrier_keys_compared", int64(len(want)))
		var missing, extra, stale []string
		for k, v := range want {
			g, ok := got[k]
			if !ok {
				missing = append(missing, k+"="+v)
			} else if g != v {
				stale = append(stale, fmt.Sprintf("%s: client %q, server %q", k, g, v))
			}
		}
		for k, v := range got {
			if _, ok := want[k]; !ok {
				extra = append(extra, k+"="+v)
			}
		}
		sort.Strings(missing)
		sort.Strings(extra)
		sort.Strings(stale)
		if len(missing)+len(extra)+len(stale) > 0 {
			c.Violationf("client-view-differs-at-barrier", witness(map[string]any{"missing": missing, "extra": extra, "stale": stale}),
				"client %d (joined at batch %d/%d) has received the barrier key but its map differs from the server's: missing %v, extra %v, stale %v",
				m.id, cr.joinAt, nB, head(missing), head(extra), head(stale))
		}
	}
	if inconclusive != "" && !c.Failed() {
		c.Inconclusive(inconclusive)
		return
	}
	c.NonTrivial(settings, cdesc)
	c.Distinct("settings", cacheBatch, srvMsg, batchThresh, snapValid)
	if c.Index < 5 {
		c.Sample(map[string]any{"settings": settings, "clients": cdesc, "final_keys": len(want)})
	}
}

func main() {
	logrus.SetOutput(io.Discard)
	logrus.SetLevel(logrus.PanicLevel)
	harness.Main(harness.Check{
		ID:    "C24",
		Level: "exploration",
		Rule: "each case: one PRNG script of ~400 (thorough ~800) sequence-numbered updates in batches (some spanning several Breadcrumbs), a status script, PRNG cache/server settings " +
			"(MaxBatchSize 2..20, MaxMessageSize 1..20, batching threshold 1ns|default, binary snapshot validity 1ms|1s) and 1..4 real clients with PRNG join points " +
			"(start, middle, after the barrier), snapshot mode (binary snappy|streamed) and read pace (fast|sleeping|stalled); every case is non-trivial; distinct by settings+clients",
		Assumptions: []string{
			"thread and TCP schedules are real and not replayable; script, settings and join points are",
			"the barrier relies on the barrier key sorting last among all keys, so that it is the last key of any snapshot as well as the last delta",
			"no TLS, no connection drops, no fall-behind disconnects, no client reconnects; loopback TCP only",
		},
		Cases: func(tier string) int {
			if tier == "thorough" {
				return 2400
			}
			return 96
		},
		Run:         run,
		CaseTimeout: 150 * time.Second,
		Floors: map[string]int64{"updates_fed": 4000, "client_notifications": 4000, "clients": 20, "insync_checks": 10,
			"barrier_checks": 20, "late_joiners": 10, "binary_snapshot_clients": 5, "streamed_snapshot_clients": 5, "client_delete_notifications": 300},
	})
}

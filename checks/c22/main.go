// C22 — each block has at most one confirmed owner.
//
// Real code driven: the two-phase block claim and the affinity release of libcalico-go/lib/ipam
// (getPendingAffinity / claimAffineBlock / confirmAffinity / getBlockFromAffinity /
// releaseBlockAffinity / findUsableBlock's reclaim of empty blocks), reached through the public
// client calls AutoAssign (on hosts without blocks), AssignIP, ClaimAffinity, ReleaseAffinity,
// ReleaseHostAffinities, ReleasePoolAffinities, RemoveIPAMHost, ReleaseIPs, ReleaseByHandle, by
// 2-4 logical clients on 2-3 hosts over internal/casstore, with 2-4 blocks per address family so
// that hosts fight over the same blocks.  Same machinery as C19: deterministic schedules
// (internal/dsched), a fault-free run, then one re-run per datastore write attempt and fault kind
// (so: a crash between the pending and the confirm write, between block delete and affinity
// delete, a lost reply on the block create, ...), random multi-fault runs, free-running runs under
// the race detector.  Half of the cases have two phases separated by a 3-minute shift of the
// stored AffinityClaimTime stamps, which makes empty blocks of other hosts reclaimable.  More than
// half of the affinity releases target ANOTHER host's affinities (as the GC controller or an
// operator would), and every run ends with a fault-free epilogue in which a fresh client claims
// every block of every pool, so that a latent inconsistency (e.g. a confirmed affinity whose
// block is gone) meets a new owner.
//
// Oracle, evaluated under the store lock at EVERY committed write of a block or block affinity:
//
//	a. per block CIDR at most one BlockAffinity object is in state "confirmed";
//	b. if the block exists and records Affinity "T:h", every confirmed affinity of that CIDR is T:h;
//	c. with StrictAffinity, a write that adds an allocation to a block was made on behalf of the
//	   host recorded in that block's Affinity (a pending claim on somebody else's block was not
//	   used as ownership);
//	d. an operation that requires the block to be empty (AutoAssign's internal releases and
//	   reclaim, ReleaseAffinity/ReleaseHostAffinities with mustBeEmpty, the post-release affinity
//	   clean-up) gives a block up (deletes it, or clears its Affinity) only if the revision it
//	   replaces holds no live allocation (other than ones this operation itself was asked to free).
//
// Also the structural block check of C19 (cheap), and panics.
//
// Deliberately not checked:
//   - which host wins a contended block, how many retries it takes, whether a call fails;
//   - leftovers of crashed operations (pending / pendingDeletion affinities without block, blocks
//     without affinity object): the statement allows them, only "confirmed" is constrained;
//   - affinities with empty State (pre-upgrade data) are never generated;
//   - non-strict mode allocations into foreign blocks (allowed by design);
//   - address-level ownership (C19), handle records (C19), pool/limit rules (C20).
package main

import (
	"fmt"
	"math/rand"
	"runtime"
	"time"

	apiv3 "github.com/projectcalico/api/pkg/apis/projectcalico/v3"
	"github.com/sirupsen/logrus"

	"github.com/projectcalico/calico/libcalico-go/lib/ipam"

	"verif/internal/dsched"
	"verif/internal/harness"
	"verif/internal/ipamkit"
)

func genCase(r *rand.Rand, thorough bool) *ipamkit.ConcCase {
	hosts := []string{"host-a", "host-b", "host-c"}[:2+r.Intn(2)]
	cc := &ipamkit.ConcCase{SharedPct: 5, Shift: 3 * time.Minute, OtherPct: 55, Epilogue: true}
	for _, h := range hosts {
		cc.Spec.Nodes = append(cc.Spec.Nodes, ipamkit.NodeSpec{Name: h, Labels: map[string]string{"kubernetes.io/hostname": h}})
	}
	uses := []apiv3.IPPoolAllowedUse{apiv3.IPPoolAllowedUseWorkload, apiv3.IPPoolAllowedUseTunnel}
	cc.Spec.Pools = []ipamkit.PoolSpec{
		{Name: "pool4", CIDR: []string{"10.22.0.0/29", "10.22.0.0/28"}[r.Intn(2)], BlockSize: 30, AllowedUses: uses},
		{Name: "pool6", CIDR: []string{"fd00:22::/125", "fd00:22::/124"}[r.Intn(2)], BlockSize: 126, AllowedUses: uses},
	}
	cfg := ipam.IPAMConfig{AutoAllocateBlocks: true}
	if r.Intn(5) < 3 {
		cfg.StrictAffinity = true
		cfg.MaxBlocksPerHost = []int{0, 0, 1, 2}[r.Intn(4)]
	}
	cc.Spec.Config = &cfg
	cc.Tracker = ipamkit.TrackerOpts{Structural: true, Affinity: true, Strict: cfg.StrictAffinity}
	nc := 2 + r.Intn(3)
	for i := 0; i < nc; i++ {
		cc.ClientHosts = append(cc.ClientHosts, hosts[i%len(hosts)]) // every host gets a client first
	}
	cc.NOps = 2 + r.Intn(2)
	if thorough {
		cc.NOps = 3 + r.Intn(2)
	}
	cc.Phases = 1 + r.Intn(2)
	cc.Weights = ipamkit.Weights{
		ipamkit.KAutoAssign: 34, ipamkit.KClaimAffinity: 14, ipamkit.KReleaseAffinity: 13, ipamkit.KReleaseHostAffinities: 12,
		ipamkit.KAssignIP: 8, ipamkit.KReleaseIPs: 6, ipamkit.KReleaseByHandle: 4, ipamkit.KReleasePoolAffinities: 5, ipamkit.KRemoveIPAMHost: 4,
	}
	if r.Intn(2) == 0 {
		// "Duel" flavour: two hosts, two blocks per family, and scripts that are mostly one host
		// allocating while the other releases / re-claims the same blocks.
		hosts = hosts[:2]
		cc.Spec.Nodes = cc.Spec.Nodes[:2]
		cc.Spec.Pools[0].CIDR, cc.Spec.Pools[1].CIDR = "10.22.0.0/29", "fd00:22::/125"
		if r.Intn(3) != 0 { // one single block per family: every call meets every other call
			cc.Spec.Pools[0].CIDR, cc.Spec.Pools[1].CIDR = "10.22.0.0/30", "fd00:22::/126"
		}
		cc.ClientHosts = cc.ClientHosts[:0]
		for i := 0; i < 2+r.Intn(2); i++ {
			cc.ClientHosts = append(cc.ClientHosts, hosts[i%2])
		}
		cc.OtherPct = 80
		cc.NOps = 3 + r.Intn(2)
		cc.Weights = ipamkit.Weights{
			ipamkit.KAutoAssign: 44, ipamkit.KReleaseAffinity: 26, ipamkit.KReleaseHostAffinities: 14, ipamkit.KClaimAffinity: 10,
			ipamkit.KReleasePoolAffinities: 4, ipamkit.KReleaseIPs: 2,
		}
	}
	return cc
}

// ---------------------------------------------------------------------------------------------
// Systematic duels: tiny scenarios on ONE block whose racing calls are explored under every
// schedule with at most two preemptions (dsched.Explore), instead of sampled schedules.

const duelBlock = "10.22.0.0/30"

var (
	duelPrologues = [][]ipamkit.DuelStep{
		0: nil,
		1: {{Host: "host-a", Step: ipamkit.Step{Kind: ipamkit.KClaimAffinity, CIDR: duelBlock}}},
		2: {{Host: "host-a", Step: ipamkit.Step{Kind: ipamkit.KAutoAssign, Num4: 1, Handle: "h-pro"}}},
		// crash between the block create and the confirm: pending affinity + block
		3: {{Host: "host-a", Step: ipamkit.Step{Kind: ipamkit.KClaimAffinity, CIDR: duelBlock}, CrashAfterWrite: 2}},
		// another host's release crashed after marking the affinity pendingDeletion
		4: {{Host: "host-a", Step: ipamkit.Step{Kind: ipamkit.KClaimAffinity, CIDR: duelBlock}},
			{Host: "host-b", Step: ipamkit.Step{Kind: ipamkit.KReleaseAffinity, CIDR: duelBlock, Host: "host-a"}, CrashAfterWrite: 1}},
		// crash right after the pending affinity was created: pending affinity, no block
		5: {{Host: "host-a", Step: ipamkit.Step{Kind: ipamkit.KClaimAffinity, CIDR: duelBlock}, CrashAfterWrite: 1}},
	}
	duelA = []ipamkit.Step{
		{Kind: ipamkit.KClaimAffinity, CIDR: duelBlock},
		{Kind: ipamkit.KAutoAssign, Num4: 1, Handle: "h-a"},
		{Kind: ipamkit.KAssignIP, IP: "10.22.0.1", Handle: "h-a"},
		{Kind: ipamkit.KReleaseAffinity, CIDR: duelBlock, MustBeEmpty: true},
	}
	duelB = []ipamkit.Step{
		{Kind: ipamkit.KReleaseAffinity, CIDR: duelBlock, Host: "host-a"},
		{Kind: ipamkit.KReleaseAffinity, CIDR: duelBlock, Host: "host-a", MustBeEmpty: true},
		{Kind: ipamkit.KClaimAffinity, CIDR: duelBlock},
		{Kind: ipamkit.KAutoAssign, Num4: 1, Handle: "h-b"},
		{Kind: ipamkit.KReleaseHostAffinities, Host: "host-a"},
		{Kind: ipamkit.KReleasePoolAffinities, CIDR: duelBlock},
	}
)

const nDuelCombos = 6 * 4 * 6 * 2 * 2

func duelCombo(i int) *ipamkit.Duel {
	pi := i % 6
	i /= 6
	ai := i % 4
	i /= 4
	bi := i % 6
	i /= 6
	ei := i % 2
	i /= 2
	strict := i%2 == 1
	d := &ipamkit.Duel{
		Name: fmt.Sprintf("prologue%d/A%d/B%d/epilogue%d/strict=%v", pi, ai, bi, ei, strict),
		Spec: ipamkit.WorldSpec{
			Nodes:  []ipamkit.NodeSpec{{Name: "host-a"}, {Name: "host-b"}},
			Pools:  []ipamkit.PoolSpec{{Name: "pool4", CIDR: duelBlock, BlockSize: 30, AllowedUses: []apiv3.IPPoolAllowedUse{apiv3.IPPoolAllowedUseWorkload}}},
			Config: &ipam.IPAMConfig{AutoAllocateBlocks: true, StrictAffinity: strict},
		},
		Prologue: duelPrologues[pi],
		Shift:    3 * time.Minute, // the prologue's claim is old enough to be reclaimed
		Racers:   []ipamkit.DuelStep{{Host: "host-a", Step: duelA[ai]}, {Host: "host-b", Step: duelB[bi]}},
		Tracker:  ipamkit.TrackerOpts{Structural: true, Affinity: true, Strict: strict},
	}
	claimA := ipamkit.DuelStep{Host: "host-a", Step: ipamkit.Step{Kind: ipamkit.KClaimAffinity, CIDR: duelBlock}}
	claimB := ipamkit.DuelStep{Host: "host-b", Step: ipamkit.Step{Kind: ipamkit.KClaimAffinity, CIDR: duelBlock}}
	if ei == 0 {
		d.Epilogue = []ipamkit.DuelStep{claimB, claimA}
	} else {
		d.Epilogue = []ipamkit.DuelStep{claimA, claimB}
	}
	return d
}

func runDuel(c *harness.Case, combo int) {
	d := duelCombo(combo)
	c.Sample(map[string]any{"duel": d.Name})
	c.NonTrivial("duel", d.Name)
	reported := map[string]bool{}
	maxRuns := c.Pick(400, 3000)
	runs, truncated := dsched.Explore(2, maxRuns, func(prefix []int) ([]dsched.StepInfo, bool) {
		o := d.Run(prefix)
		if o.SetupErr != nil {
			c.Inconclusive("setup: " + o.SetupErr.Error())
			return nil, false
		}
		if o.Stuck {
			c.Inconclusive("scheduler-watchdog")
			return nil, false
		}
		c.Count("duel_schedules", 1)
		c.Count("runs", 1)
		c.Distinct("schedules", d.Name, fmt.Sprint(o.Race.Decisions))
		c.Count("sched_divergences", int64(o.Race.Divergences))
		c.Count("ds_ops", int64(o.Race.DSOps))
		c.Count("conflicts_seen", int64(o.Race.Conflicts))
		c.Count("conflicts_real", int64(o.Race.RealConflicts))
		c.Count("committed_writes", o.Tracker.NWrites)
		c.Count("affinity_writes", o.Tracker.NAffWrites)
		c.Count("block_writes", o.Tracker.NBlockWrites)
		c.Count("online_checks", o.Tracker.NChecks)
		c.Count("blocks_given_up", o.Tracker.NGivenUp)
		c.Count("affinities_confirmed", o.Tracker.NConfirms)
		c.Count("logical_ops", int64(len(o.World.Ops())))
		var wit map[string]any
		for _, v := range o.Violations {
			if reported[v.Key] {
				continue
			}
			reported[v.Key] = true
			if wit == nil {
				wit = o.Witness(d)
			}
			c.Violationf(v.Key, wit, "%s [duel %s, schedule %v]", v.Msg, d.Name, o.Race.Decisions)
		}
		return o.Race.Trace, len(reported) < 4
	})
	c.Count("duels", 1)
	_ = runs
	if truncated {
		c.Count("duels_truncated", 1)
	} else {
		c.Count("duels_exhausted_bound2", 1)
	}
}

func nDuels(tier string) int {
	if tier == "thorough" {
		return nDuelCombos
	}
	return 6 * 4 * 6 // every prologue x A x B; epilogue order and strictness drawn per case
}

func run(c *harness.Case) {
	if nd := nDuels(c.Tier); c.Index < nd {
		combo := c.Index
		if nd < nDuelCombos {
			combo = c.Index + nd*c.R.Intn(nDuelCombos/nd)
		}
		runDuel(c, combo)
		return
	}
	cc := genCase(c.R, c.Thorough())
	d := &ipamkit.Driver{C: c, CC: cc, Seed: c.R.Int63(), Mode: dsched.Uniform, RandomRuns: c.Pick(2, 4), FreeRunning: c.Index%8 == 7, FreeRuns: 3}
	if c.R.Intn(2) == 0 {
		d.Mode, d.Depth = dsched.PCT, 2+c.R.Intn(3)
	}
	c.Sample(map[string]any{"clients": cc.ClientHosts, "config": cc.Spec.Config, "nops": cc.NOps, "phases": cc.Phases, "mode": d.Mode.String(),
		"pool4": cc.Spec.Pools[0].CIDR, "pool6": cc.Spec.Pools[1].CIDR})
	d.Run()
}

func main() {
	harness.Main(harness.Check{
		ID:    "C22",
		Level: "fault_enumeration",
		Rule: "duel cases (first 144 quick / 576 thorough): one prologue state x one call of host A x one call of host B on a single-block pool, explored under EVERY schedule with <= 2 preemptions, then both hosts try to claim the block; " +
			"random cases: generated cluster (2-3 hosts, 1-4 blocks per family, strict affinity in 60%) with 2-4 clients running 2-4 claim/release-dominated IPAM calls each in 1-2 phases (3 min of virtual time between phases so empty blocks become reclaimable); " +
			"scheduled cases: 1 fault-free run + one re-run per (datastore write attempt x applicable fault kind) + 2-4 random multi-fault runs; every 8th case free-running under -race; " +
			"non-trivial = at least two clients (distinct by schedule)",
		Assumptions: []string{
			"internal/casstore models the datastore: linearizable compare-and-swap KV with etcd-like revisions; faults are abort-before, lost-reply, spurious conflict, crash-after at a datastore call",
			"interleavings are explored at datastore-operation granularity in scheduled mode (GOMAXPROCS=1)",
			"virtual time = shifting the stored AffinityClaimTime / ReleasedAt stamps at quiescent points",
			"replay is exact except for Go map iteration order inside the code under test; the witness carries the full recorded history",
		},
		Cases: func(tier string) int {
			if tier == "thorough" {
				return nDuels(tier) + 600
			}
			return nDuels(tier) + 16
		},
		Setup: func(tier string) error {
			logrus.SetLevel(logrus.PanicLevel)
			runtime.GOMAXPROCS(1)
			return nil
		},
		Run:         run,
		CaseTimeout: 600 * time.Second,
		Floors: map[string]int64{
			"runs": 2000, "duels": 100, "duel_schedules": 2000, "logical_ops": 10000, "committed_writes": 30000, "affinity_writes": 20000,
			"conflicts_seen": 2000, "conflicts_real": 2000, "fault_abort-before": 40, "fault_lost-reply": 40, "fault_spurious-conflict": 25, "fault_crash-after": 40,
			"affinities_confirmed": 5000, "blocks_given_up": 1400, "online_checks": 30000, "free_runs": 2,
		},
	})
}

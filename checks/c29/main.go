// C29 — Kubernetes NetworkPolicy keeps its Kubernetes meaning after conversion.
//
// Real code driven: conversion.NewConverter().K8sNetworkPolicyToCalico (-> v3 NetworkPolicy), then the
// syncer update processor NewNetworkPolicyUpdateProcessor(KindKubernetesNetworkPolicy) (-> model.Policy
// with model.Rules, namespace selectors folded into endpoint selectors).  The cluster the policy is
// evaluated on is converted by the real code too: NamespaceToProfile + profile update processor
// (namespace labels -> pcns.* labels), PodToWorkloadEndpoints + workload endpoint update processor
// (pod labels, projectcalico.org/namespace, orchestrator, named ports).
//
// Two evaluators, both written here, are compared per (policy, pod, direction, connection):
//   - Kubernetes semantics on the ORIGINAL NetworkPolicy, pods and namespaces (evalK8s*);
//   - Calico semantics on the CONVERTED model.Policy and the converted endpoints (evalCalico*): a policy
//     applies to an endpoint when its selector matches the endpoint's labels (own + inherited profile
//     labels) and its types contain the direction; a rule matches when protocol, source/destination nets
//     and negated nets, source/destination selectors and destination ports (numeric ranges, or a named
//     port = the destination endpoint has a port of that name with the rule's protocol and that number)
//     all match.  Selectors are evaluated with the repo's selector package (trusted base).
// Oracle: K8s "policy selects pod for direction" == Calico "policy applies to endpoint for direction";
// and where it applies, K8s "some rule allows the connection" == Calico "some Allow rule matches".
// Because every converted rule is an Allow in the default tier and namespace profiles allow everything,
// this per-policy equivalence is the endpoint verdict equivalence of the statement.
//
// Deliberately not checked / not generated (K8s API validation forbids, or the API server defaults):
// empty policyTypes together with egress rules (the API server always defaults policyTypes), endPort with
// a named port, endPort < port, In/NotIn with no values, ipBlock excepts outside the block, IPv6, SCTP named
// ports are generated but host-networked pods, pods without IP, services and the ClusterNetworkPolicy API
// are not.  model.Rule fields the converter never emits (negated selectors, ICMP, source ports, services,
// HTTP) make the case inconclusive if they appear.
package main

import (
	"fmt"
	"io"
	"net/netip"
	"sort"
	"strings"

	apiv3 "github.com/projectcalico/api/pkg/apis/projectcalico/v3"
	"github.com/projectcalico/api/pkg/lib/numorstring"
	"github.com/sirupsen/logrus"
	kapiv1 "k8s.io/api/core/v1"
	networkingv1 "k8s.io/api/networking/v1"
	metav1 "k8s.io/apimachinery/pkg/apis/meta/v1"
	"k8s.io/apimachinery/pkg/types"
	"k8s.io/apimachinery/pkg/util/intstr"

	"github.com/projectcalico/calico/libcalico-go/lib/backend/k8s/conversion"
	"github.com/projectcalico/calico/libcalico-go/lib/backend/model"
	"github.com/projectcalico/calico/libcalico-go/lib/backend/syncersv1/updateprocessors"
	"github.com/projectcalico/calico/libcalico-go/lib/selector"
	v3validator "github.com/projectcalico/calico/libcalico-go/lib/validator/v3"

	"verif/internal/harness"
)

// ---------------------------------------------------------------- cluster

type cport struct {
	name  string
	proto string // TCP UDP SCTP
	port  int
}

type pod struct {
	ns, name string
	labels   map[string]string
	ip       netip.Addr
	ports    []cport
	// Calico view (from the real conversion)
	cLabels map[string]string
	cPorts  []model.EndpointPort
}

type namespace struct {
	name   string
	labels map[string]string
}

type cluster struct {
	nss  []*namespace
	pods []*pod
	byIP map[netip.Addr]*pod
	ext  []netip.Addr
}

var labelKeys = []string{"app", "tier", "example.com/role", "zone"}
var labelVals = map[string][]string{
	"app":              {"web", "db", "api"},
	"tier":             {"fe", "be", ""},
	"example.com/role": {"a", "b"},
	"zone":             {"z1", "z2", "z_3.x-y"},
}
var nsLabelKeys = []string{"env", "team", "kubernetes.io/metadata.name"}
var nsLabelVals = map[string][]string{"env": {"prod", "dev"}, "team": {"red", "blue", "green"}}
var portNames = []string{"http", "dns", "metrics", "grpc-x"}
var protos = []string{"TCP", "UDP", "SCTP"}

func genCluster(c *harness.Case) *cluster {
	cl := &cluster{byIP: map[netip.Addr]*pod{}}
	for n := 0; n < 3; n++ {
		ns := &namespace{name: fmt.Sprintf("ns%d", n), labels: map[string]string{}}
		ns.labels["kubernetes.io/metadata.name"] = ns.name
		for _, k := range []string{"env", "team"} {
			if c.R.Intn(4) != 0 {
				ns.labels[k] = nsLabelVals[k][c.R.Intn(len(nsLabelVals[k]))]
			}
		}
		cl.nss = append(cl.nss, ns)
		for i := 0; i < 4; i++ {
			p := &pod{ns: ns.name, name: fmt.Sprintf("pod%d", i), labels: map[string]string{}}
			for _, k := range labelKeys {
				if c.R.Intn(3) != 0 {
					p.labels[k] = labelVals[k][c.R.Intn(len(labelVals[k]))]
				}
			}
			p.ip = netip.AddrFrom4([4]byte{10, byte(n), byte(c.R.Intn(2)), byte(10 + i)})
			used := map[string]bool{}
			for k := c.R.Intn(4); k > 0; k-- {
				nm := portNames[c.R.Intn(len(portNames))]
				if used[nm] {
					continue
				}
				used[nm] = true
				p.ports = append(p.ports, cport{name: nm, proto: protos[c.R.Intn(3)], port: []int{53, 80, 8080, 9090, 443}[c.R.Intn(5)]})
			}
			cl.pods = append(cl.pods, p)
			cl.byIP[p.ip] = p
		}
	}
	for _, s := range []string{"192.168.1.5", "192.168.1.200", "192.168.2.9", "172.16.0.1", "10.0.0.200", "10.1.1.77", "8.8.8.8"} {
		cl.ext = append(cl.ext, netip.MustParseAddr(s))
	}
	return cl
}

// convertCluster runs the real namespace / pod conversion and fills the Calico view of each pod.
func convertCluster(cl *cluster) error {
	conv := conversion.NewConverter()
	profLabels := map[string]map[string]string{}
	pp := updateprocessors.NewProfileUpdateProcessor()
	for _, ns := range cl.nss {
		kns := &kapiv1.Namespace{ObjectMeta: metav1.ObjectMeta{Name: ns.name, Labels: ns.labels, UID: types.UID("30316465-6365-4463-ad63-3564622d3638")}}
		kvp, err := conv.NamespaceToProfile(kns)
		if err != nil {
			return fmt.Errorf("NamespaceToProfile: %v", err)
		}
		outs, err := pp.Process(kvp)
		if err != nil {
			return fmt.Errorf("profile processor: %v", err)
		}
		for _, o := range outs {
			if k, ok := o.Key.(model.ProfileLabelsKey); ok && o.Value != nil {
				if m, ok := o.Value.(map[string]string); ok {
					profLabels[k.Name] = m
				} else {
					return fmt.Errorf("unexpected profile labels type %T", o.Value)
				}
			}
		}
	}
	wp := updateprocessors.NewWorkloadEndpointUpdateProcessor()
	for _, p := range cl.pods {
		kp := &kapiv1.Pod{
			ObjectMeta: metav1.ObjectMeta{Name: p.name, Namespace: p.ns, Labels: p.labels},
			Spec:       kapiv1.PodSpec{NodeName: "node1", ServiceAccountName: "default"},
			Status:     kapiv1.PodStatus{PodIP: p.ip.String(), PodIPs: []kapiv1.PodIP{{IP: p.ip.String()}}, Phase: kapiv1.PodRunning},
		}
		ctr := kapiv1.Container{Name: "c"}
		for _, cp := range p.ports {
			pr := kapiv1.Protocol(cp.proto)
			if cp.proto == "TCP" && len(cp.name)%2 == 0 {
				pr = "" // K8s default
			}
			ctr.Ports = append(ctr.Ports, kapiv1.ContainerPort{Name: cp.name, ContainerPort: int32(cp.port), Protocol: pr})
		}
		kp.Spec.Containers = []kapiv1.Container{ctr}
		kvps, err := conv.PodToWorkloadEndpoints(kp)
		if err != nil || len(kvps) != 1 {
			return fmt.Errorf("PodToWorkloadEndpoints: %v", err)
		}
		outs, err := wp.Process(kvps[0])
		if err != nil || len(outs) != 1 || outs[0].Value == nil {
			return fmt.Errorf("workload endpoint processor: %v", err)
		}
		wep, ok := outs[0].Value.(*model.WorkloadEndpoint)
		if !ok {
			return fmt.Errorf("unexpected endpoint type %T", outs[0].Value)
		}
		p.cLabels = map[string]string{}
		for _, prof := range wep.ProfileIDs {
			for k, v := range profLabels[prof] {
				p.cLabels[k] = v
			}
		}
		for k, v := range wep.Labels.RecomputeOriginalMap() {
			p.cLabels[k] = v
		}
		p.cPorts = wep.Ports
		if len(wep.IPv4Nets) != 1 || wep.IPv4Nets[0].IP.String() != p.ip.String() {
			return fmt.Errorf("endpoint address lost in conversion: %v", wep.IPv4Nets)
		}
	}
	return nil
}

// ---------------------------------------------------------------- policy generation

func genLabelSelector(c *harness.Case, keys []string, vals map[string][]string) *metav1.LabelSelector {
	s := &metav1.LabelSelector{}
	if c.R.Intn(5) == 0 {
		return s // empty selector: everything
	}
	if c.R.Intn(2) == 0 {
		s.MatchLabels = map[string]string{}
		for n := 1 + c.R.Intn(2); n > 0; n-- {
			k := keys[c.R.Intn(len(keys))]
			vs := vals[k]
			if len(vs) == 0 {
				vs = []string{"ns0", "ns1", "ns2", "nsX"}
			}
			s.MatchLabels[k] = vs[c.R.Intn(len(vs))]
		}
	}
	for n := c.R.Intn(3); n > 0; n-- {
		k := keys[c.R.Intn(len(keys))]
		vs := vals[k]
		if len(vs) == 0 {
			vs = []string{"ns0", "ns1", "ns2", "nsX"}
		}
		e := metav1.LabelSelectorRequirement{Key: k}
		switch c.R.Intn(4) {
		case 0:
			e.Operator = metav1.LabelSelectorOpIn
		case 1:
			e.Operator = metav1.LabelSelectorOpNotIn
		case 2:
			e.Operator = metav1.LabelSelectorOpExists
		default:
			e.Operator = metav1.LabelSelectorOpDoesNotExist
		}
		if e.Operator == metav1.LabelSelectorOpIn || e.Operator == metav1.LabelSelectorOpNotIn {
			for m := 1 + c.R.Intn(2); m > 0; m-- {
				e.Values = append(e.Values, vs[c.R.Intn(len(vs))])
			}
		}
		s.MatchExpressions = append(s.MatchExpressions, e)
	}
	return s
}

var blocks = []struct {
	cidr    string
	excepts []string
}{
	{"192.168.0.0/16", []string{"192.168.1.0/24", "192.168.2.8/30", "192.168.1.128/25"}},
	{"10.0.0.0/8", []string{"10.1.0.0/16", "10.0.0.0/24", "10.2.1.0/24", "10.0.0.10/32"}},
	{"10.1.0.0/23", []string{"10.1.1.0/24", "10.1.0.12/31"}},
	{"0.0.0.0/0", []string{"10.0.0.0/8", "8.8.8.8/32"}},
	{"172.16.0.1/32", nil},
	{"10.2.0.11/32", nil},
}

func genPeers(c *harness.Case) []networkingv1.NetworkPolicyPeer {
	var out []networkingv1.NetworkPolicyPeer
	for n := c.R.Intn(4); n > 0; n-- {
		var p networkingv1.NetworkPolicyPeer
		switch c.R.Intn(4) {
		case 0:
			b := blocks[c.R.Intn(len(blocks))]
			p.IPBlock = &networkingv1.IPBlock{CIDR: b.cidr}
			for _, e := range b.excepts {
				if c.R.Intn(2) == 0 {
					p.IPBlock.Except = append(p.IPBlock.Except, e)
				}
			}
		case 1:
			p.PodSelector = genLabelSelector(c, labelKeys, labelVals)
		case 2:
			p.NamespaceSelector = genLabelSelector(c, nsLabelKeys, nsLabelVals)
		default:
			p.PodSelector = genLabelSelector(c, labelKeys, labelVals)
			p.NamespaceSelector = genLabelSelector(c, nsLabelKeys, nsLabelVals)
		}
		out = append(out, p)
	}
	return out
}

func genPorts(c *harness.Case) []networkingv1.NetworkPolicyPort {
	var out []networkingv1.NetworkPolicyPort
	for n := c.R.Intn(5); n > 0; n-- {
		var p networkingv1.NetworkPolicyPort
		if c.R.Intn(3) != 0 {
			pr := kapiv1.Protocol(protos[c.R.Intn(3)])
			p.Protocol = &pr
		}
		switch c.R.Intn(5) {
		case 0: // no port: all ports of the protocol
		case 1: // named
			v := intstr.FromString(portNames[c.R.Intn(len(portNames))])
			p.Port = &v
		case 2: // range
			lo := []int{52, 79, 80, 8079, 9000}[c.R.Intn(5)]
			v := intstr.FromInt(lo)
			p.Port = &v
			hi := int32(lo + []int{0, 1, 2, 1000}[c.R.Intn(4)])
			p.EndPort = &hi
		default:
			v := intstr.FromInt([]int{53, 80, 81, 443, 8080, 9090}[c.R.Intn(6)])
			p.Port = &v
		}
		out = append(out, p)
	}
	return out
}

func genPolicy(c *harness.Case) *networkingv1.NetworkPolicy {
	np := &networkingv1.NetworkPolicy{ObjectMeta: metav1.ObjectMeta{Name: "np", Namespace: fmt.Sprintf("ns%d", c.R.Intn(3)),
		UID: types.UID("30316465-6365-4463-ad63-3564622d3639")}}
	np.Spec.PodSelector = *genLabelSelector(c, labelKeys, labelVals)
	if c.R.Intn(3) == 0 {
		np.Spec.PodSelector = metav1.LabelSelector{} // every pod of the namespace
	}
	for n := c.R.Intn(3); n > 0; n-- {
		np.Spec.Ingress = append(np.Spec.Ingress, networkingv1.NetworkPolicyIngressRule{From: genPeers(c), Ports: genPorts(c)})
	}
	typ := c.R.Intn(4)
	if typ != 0 { // type 0: policyTypes absent -> ingress only, and then no egress rules (see header)
		for n := c.R.Intn(3); n > 0; n-- {
			np.Spec.Egress = append(np.Spec.Egress, networkingv1.NetworkPolicyEgressRule{To: genPeers(c), Ports: genPorts(c)})
		}
	}
	switch typ {
	case 1:
		np.Spec.PolicyTypes = []networkingv1.PolicyType{networkingv1.PolicyTypeIngress}
		np.Spec.Egress = nil
	case 2:
		np.Spec.PolicyTypes = []networkingv1.PolicyType{networkingv1.PolicyTypeEgress}
	case 3:
		np.Spec.PolicyTypes = []networkingv1.PolicyType{networkingv1.PolicyTypeIngress, networkingv1.PolicyTypeEgress}
	}
	return np
}

// ---------------------------------------------------------------- Kubernetes semantics

func k8sSelMatches(s *metav1.LabelSelector, labels map[string]string) bool {
	for k, v := range s.MatchLabels {
		if got, ok := labels[k]; !ok || got != v {
			return false
		}
	}
	for _, e := range s.MatchExpressions {
		got, has := labels[e.Key]
		in := false
		for _, v := range e.Values {
			if has && v == got {
				in = true
			}
		}
		switch e.Operator {
		case metav1.LabelSelectorOpIn:
			if !in {
				return false
			}
		case metav1.LabelSelectorOpNotIn:
			if in {
				return false
			}
		case metav1.LabelSelectorOpExists:
			if !has {
				return false
			}
		case metav1.LabelSelectorOpDoesNotExist:
			if has {
				return false
			}
		}
	}
	return true
}

type conn struct {
	src, dst netip.Addr
	proto    string
	dport    int
}

func (cl *cluster) nsLabels(name string) map[string]string {
	for _, n := range cl.nss {
		if n.name == name {
			return n.labels
		}
	}
	return nil
}

func k8sPeerMatches(cl *cluster, np *networkingv1.NetworkPolicy, peer *networkingv1.NetworkPolicyPeer, addr netip.Addr) bool {
	if peer.IPBlock != nil {
		if !netip.MustParsePrefix(peer.IPBlock.CIDR).Contains(addr) {
			return false
		}
		for _, e := range peer.IPBlock.Except {
			if netip.MustParsePrefix(e).Contains(addr) {
				return false
			}
		}
		return true
	}
	p := cl.byIP[addr]
	if p == nil {
		return false // selectors select pods only
	}
	if peer.NamespaceSelector != nil {
		if !k8sSelMatches(peer.NamespaceSelector, cl.nsLabels(p.ns)) {
			return false
		}
	} else if p.ns != np.Namespace {
		return false
	}
	if peer.PodSelector != nil && !k8sSelMatches(peer.PodSelector, p.labels) {
		return false
	}
	return true
}

func k8sPortsMatch(cl *cluster, ports []networkingv1.NetworkPolicyPort, cn conn) bool {
	if len(ports) == 0 {
		return true
	}
	for _, p := range ports {
		pr := "TCP"
		if p.Protocol != nil && *p.Protocol != "" {
			pr = string(*p.Protocol)
		}
		if pr != cn.proto {
			continue
		}
		if p.Port == nil {
			return true
		}
		if p.Port.Type == intstr.String {
			if dp := cl.byIP[cn.dst]; dp != nil {
				for _, cp := range dp.ports {
					if cp.name == p.Port.StrVal && cp.proto == cn.proto && cp.port == cn.dport {
						return true
					}
				}
			}
			continue
		}
		lo := int(p.Port.IntVal)
		hi := lo
		if p.EndPort != nil {
			hi = int(*p.EndPort)
		}
		if cn.dport >= lo && cn.dport <= hi {
			return true
		}
	}
	return false
}

func k8sSelects(np *networkingv1.NetworkPolicy, p *pod, ingress bool) bool {
	if p.ns != np.Namespace || !k8sSelMatches(&np.Spec.PodSelector, p.labels) {
		return false
	}
	if len(np.Spec.PolicyTypes) == 0 {
		return ingress // (egress rules are not generated together with absent policyTypes)
	}
	for _, t := range np.Spec.PolicyTypes {
		if ingress && t == networkingv1.PolicyTypeIngress || !ingress && t == networkingv1.PolicyTypeEgress {
			return true
		}
	}
	return false
}

func k8sAllows(cl *cluster, np *networkingv1.NetworkPolicy, cn conn, ingress bool) bool {
	if ingress {
		for _, r := range np.Spec.Ingress {
			ok := len(r.From) == 0
			for i := range r.From {
				ok = ok || k8sPeerMatches(cl, np, &r.From[i], cn.src)
			}
			if ok && k8sPortsMatch(cl, r.Ports, cn) {
				return true
			}
		}
		return false
	}
	for _, r := range np.Spec.Egress {
		ok := len(r.To) == 0
		for i := range r.To {
			ok = ok || k8sPeerMatches(cl, np, &r.To[i], cn.dst)
		}
		if ok && k8sPortsMatch(cl, r.Ports, cn) {
			return true
		}
	}
	return false
}

// ---------------------------------------------------------------- Calico semantics (converted objects)

type unsupported struct{ what string }

func (u unsupported) Error() string { return u.what }

func selMatches(sel string, labels map[string]string) (bool, error) {
	s, err := selector.Parse(sel)
	if err != nil {
		return false, fmt.Errorf("selector %q does not parse: %v", sel, err)
	}
	return s.Evaluate(labels), nil
}

func calicoApplies(pol *model.Policy, p *pod, ingress bool) (bool, error) {
	m, err := selMatches(pol.Selector, p.cLabels)
	if err != nil || !m {
		return false, err
	}
	want := "egress"
	if ingress {
		want = "ingress"
	}
	for _, t := range pol.Types {
		if t == want {
			return true, nil
		}
	}
	return false, nil
}

func protoName(p *numorstring.Protocol) string { return strings.ToUpper(p.String()) }

func calicoRuleMatches(cl *cluster, r *model.Rule, cn conn) (bool, error) {
	if r.NotProtocol != nil || r.ICMPType != nil || r.ICMPCode != nil || r.NotICMPType != nil || r.NotICMPCode != nil ||
		r.SrcTag != "" || r.DstTag != "" || r.NotSrcTag != "" || r.NotDstTag != "" || r.SrcNet != nil || r.DstNet != nil ||
		r.NotSrcNet != nil || r.NotDstNet != nil || len(r.SrcPorts) > 0 || len(r.NotSrcPorts) > 0 || len(r.NotDstPorts) > 0 ||
		r.NotSrcSelector != "" || r.NotDstSelector != "" || r.SrcService != "" || r.DstService != "" || r.HTTPMatch != nil || r.IPVersion != nil {
		return false, unsupported{"rule uses a field the local evaluator does not model"}
	}
	if r.Protocol != nil && protoName(r.Protocol) != cn.proto {
		return false, nil
	}
	inNets := func(nets []string, a netip.Addr) (bool, error) {
		for _, n := range nets {
			pfx, err := netip.ParsePrefix(n)
			if err != nil {
				return false, fmt.Errorf("bad net %q", n)
			}
			if pfx.Contains(a) {
				return true, nil
			}
		}
		return false, nil
	}
	strs := func(ns interface{ String() string }) string { return ns.String() }
	_ = strs
	var srcNets, notSrcNets, dstNets, notDstNets []string
	for _, n := range r.SrcNets {
		srcNets = append(srcNets, n.String())
	}
	for _, n := range r.NotSrcNets {
		notSrcNets = append(notSrcNets, n.String())
	}
	for _, n := range r.DstNets {
		dstNets = append(dstNets, n.String())
	}
	for _, n := range r.NotDstNets {
		notDstNets = append(notDstNets, n.String())
	}
	if len(srcNets) > 0 {
		if in, err := inNets(srcNets, cn.src); err != nil || !in {
			return false, err
		}
	}
	if in, err := inNets(notSrcNets, cn.src); err != nil || in {
		return false, err
	}
	if len(dstNets) > 0 {
		if in, err := inNets(dstNets, cn.dst); err != nil || !in {
			return false, err
		}
	}
	if in, err := inNets(notDstNets, cn.dst); err != nil || in {
		return false, err
	}
	if r.SrcSelector != "" {
		sp := cl.byIP[cn.src]
		if sp == nil {
			return false, nil
		}
		if m, err := selMatches(r.SrcSelector, sp.cLabels); err != nil || !m {
			return false, err
		}
	}
	dp := cl.byIP[cn.dst]
	if r.DstSelector != "" {
		if dp == nil {
			return false, nil
		}
		if m, err := selMatches(r.DstSelector, dp.cLabels); err != nil || !m {
			return false, err
		}
	}
	if len(r.DstPorts) > 0 {
		if r.Protocol == nil {
			return false, unsupported{"ports without protocol"}
		}
		ok := false
		for _, p := range r.DstPorts {
			if p.PortName != "" {
				if dp != nil {
					for _, ep := range dp.cPorts {
						if ep.Name == p.PortName && strings.EqualFold(ep.Protocol.String(), r.Protocol.String()) && int(ep.Port) == cn.dport {
							ok = true
						}
					}
				}
			} else if cn.dport >= int(p.MinPort) && cn.dport <= int(p.MaxPort) {
				ok = true
			}
		}
		if !ok {
			return false, nil
		}
	}
	return true, nil
}

func calicoAllows(cl *cluster, pol *model.Policy, cn conn, ingress bool) (bool, error) {
	rules := pol.OutboundRules
	if ingress {
		rules = pol.InboundRules
	}
	for i := range rules {
		r := &rules[i]
		m, err := calicoRuleMatches(cl, r, cn)
		if err != nil {
			return false, err
		}
		if !m {
			continue
		}
		switch strings.ToLower(r.Action) {
		case "allow":
			return true, nil
		case "deny":
			return false, nil
		default:
			return false, unsupported{"rule action " + r.Action}
		}
	}
	return false, nil
}

// ---------------------------------------------------------------- the case

func interestingPorts(np *networkingv1.NetworkPolicy, cl *cluster) []int {
	set := map[int]bool{53: true, 80: true, 8080: true, 9090: true, 443: true, 1: true, 65535: true}
	add := func(ports []networkingv1.NetworkPolicyPort) {
		for _, p := range ports {
			if p.Port != nil && p.Port.Type == intstr.Int {
				v := int(p.Port.IntVal)
				set[v], set[v-1], set[v+1] = true, true, true
				if p.EndPort != nil {
					e := int(*p.EndPort)
					set[e], set[e+1], set[(v+e)/2] = true, true, true
				}
			}
		}
	}
	for _, r := range np.Spec.Ingress {
		add(r.Ports)
	}
	for _, r := range np.Spec.Egress {
		add(r.Ports)
	}
	var out []int
	for p := range set {
		if p >= 1 && p <= 65535 {
			out = append(out, p)
		}
	}
	sort.Ints(out)
	return out
}

func run(c *harness.Case) {
	cl := genCluster(c)
	if err := convertCluster(cl); err != nil {
		c.Violationf("cluster-conversion-failed", map[string]any{"error": err.Error()}, "converting the generated namespaces/pods failed: %v", err)
		return
	}
	np := genPolicy(c)
	detail := map[string]any{"networkpolicy": np.Spec, "policy_namespace": np.Namespace}

	kvp, err := conversion.NewConverter().K8sNetworkPolicyToCalico(np)
	if err != nil {
		detail["error"] = err.Error()
		c.Violationf("valid-policy-not-converted", detail, "K8sNetworkPolicyToCalico rejected (part of) a valid NetworkPolicy: %v", err)
		return
	}
	v3pol, ok := kvp.Value.(*apiv3.NetworkPolicy)
	if !ok {
		c.Inconclusive("unexpected-converted-type")
		return
	}
	detail["converted_v3_spec"] = v3pol.Spec
	if err := v3validator.Validate(v3pol); err != nil {
		detail["error"] = err.Error()
		c.Violationf("converted-policy-fails-calico-validation", detail, "the converted policy does not pass Calico's own validation, so its meaning is undefined: %v", err)
		return
	}
	outs, err := updateprocessors.NewNetworkPolicyUpdateProcessor(model.KindKubernetesNetworkPolicy).Process(kvp)
	if err != nil || len(outs) != 1 || outs[0].Value == nil {
		detail["error"] = fmt.Sprint(err)
		c.Violationf("update-processor-failed", detail, "the NetworkPolicy update processor failed on the converted policy: %v", err)
		return
	}
	pol, ok := outs[0].Value.(*model.Policy)
	if !ok {
		c.Inconclusive("unexpected-model-type")
		return
	}
	detail["model_selector"] = pol.Selector
	detail["model_types"] = pol.Types
	c.Count("policies_converted", 1)
	c.Count("converted_rules", int64(len(pol.InboundRules)+len(pol.OutboundRules)))

	nonTrivial := len(np.Spec.Ingress)+len(np.Spec.Egress) > 0
	if nonTrivial {
		c.NonTrivial(fmt.Sprintf("%+v", np.Spec))
	}
	if c.Index < 2 {
		c.Sample(map[string]any{"networkpolicy": np.Spec, "model_selector": pol.Selector, "inbound_rules": len(pol.InboundRules), "outbound_rules": len(pol.OutboundRules)})
	}

	// (a) which pods the policy applies to
	for _, p := range cl.pods {
		for _, ingress := range []bool{true, false} {
			k := k8sSelects(np, p, ingress)
			ca, err := calicoApplies(pol, p, ingress)
			if err != nil {
				detail["error"] = err.Error()
				c.Violationf("converted-selector-invalid", detail, "the converted policy selector cannot be evaluated: %v", err)
				return
			}
			c.Count("applies_comparisons", 1)
			if k {
				c.Count("policy_selects_pod", 1)
			}
			if k != ca {
				detail["pod"] = fmt.Sprintf("%s/%s labels=%v", p.ns, p.name, p.labels)
				detail["calico_endpoint_labels"] = p.cLabels
				c.Violationf("policy-applies-to-different-pods", detail, "direction ingress=%v: Kubernetes says the policy selects pod %s/%s: %v; the converted policy (selector %q, types %v) applies: %v",
					ingress, p.ns, p.name, k, pol.Selector, pol.Types, ca)
				return
			}
		}
	}

	// (b) connections
	selected := map[bool][]*pod{}
	for _, p := range cl.pods {
		for _, ingress := range []bool{true, false} {
			if k8sSelects(np, p, ingress) {
				selected[ingress] = append(selected[ingress], p)
			}
		}
	}
	if len(selected[true])+len(selected[false]) == 0 {
		c.Count("policies_selecting_no_pod", 1)
	}
	ports := interestingPorts(np, cl)
	addrs := make([]netip.Addr, 0, len(cl.pods)+len(cl.ext))
	for _, p := range cl.pods {
		addrs = append(addrs, p.ip)
	}
	addrs = append(addrs, cl.ext...)
	nConns := c.Pick(60, 120)
	for i := 0; i < nConns; i++ {
		ingress := c.R.Intn(2) == 0
		var target *pod
		if sel := selected[ingress]; len(sel) > 0 && c.R.Intn(8) != 0 {
			target = sel[c.R.Intn(len(sel))]
		} else if sel := selected[!ingress]; len(sel) > 0 && c.R.Intn(2) == 0 {
			ingress = !ingress
			target = sel[c.R.Intn(len(sel))]
		} else {
			target = cl.pods[c.R.Intn(len(cl.pods))]
		}
		other := addrs[c.R.Intn(len(addrs))]
		cn := conn{proto: protos[c.R.Intn(3)], dport: ports[c.R.Intn(len(ports))]}
		if ingress {
			cn.src, cn.dst = other, target.ip
		} else {
			cn.src, cn.dst = target.ip, other
		}
		// bias towards named-port hits: use a port of the destination pod
		if dp := cl.byIP[cn.dst]; dp != nil && len(dp.ports) > 0 && c.R.Intn(3) == 0 {
			cp := dp.ports[c.R.Intn(len(dp.ports))]
			cn.dport = cp.port
			if c.R.Intn(4) != 0 {
				cn.proto = cp.proto
			}
		}
		if cn.src == cn.dst {
			continue
		}
		if !k8sSelects(np, target, ingress) {
			c.Count("connections_policy_not_applicable", 1)
			continue
		}
		kAllow := k8sAllows(cl, np, cn, ingress)
		cAllow, err := calicoAllows(cl, pol, cn, ingress)
		if err != nil {
			if _, ok := err.(unsupported); ok {
				c.Inconclusive("converted-rule-outside-local-evaluator")
				return
			}
			detail["error"] = err.Error()
			c.Violationf("converted-rule-invalid", detail, "a converted rule cannot be evaluated: %v", err)
			return
		}
		c.Count("connections_judged", 1)
		if kAllow {
			c.Count("connections_allowed", 1)
		} else {
			c.Count("connections_denied", 1)
		}
		if kAllow != cAllow {
			dir := "egress"
			rules := pol.OutboundRules
			if ingress {
				dir = "ingress"
				rules = pol.InboundRules
			}
			detail["direction"] = dir
			detail["connection"] = fmt.Sprintf("%s -> %s %s/%d", cn.src, cn.dst, cn.proto, cn.dport)
			detail["model_rules"] = rules
			if sp := cl.byIP[cn.src]; sp != nil {
				detail["source_pod"] = fmt.Sprintf("%s/%s labels=%v ports=%v", sp.ns, sp.name, sp.labels, sp.ports)
			}
			if dp := cl.byIP[cn.dst]; dp != nil {
				detail["destination_pod"] = fmt.Sprintf("%s/%s labels=%v ports=%v", dp.ns, dp.name, dp.labels, dp.ports)
			}
			detail["namespaces"] = cl.nss
			key := "converted-policy-allows-more"
			if kAllow {
				key = "converted-policy-allows-less"
			}
			c.Violationf(key, detail, "%s on pod %s/%s, connection %s -> %s %s/%d: Kubernetes semantics allow=%v, converted Calico policy allow=%v",
				dir, target.ns, target.name, cn.src, cn.dst, cn.proto, cn.dport, kAllow, cAllow)
			return
		}
	}
}

func main() {
	logrus.SetOutput(io.Discard)
	logrus.SetLevel(logrus.PanicLevel)
	harness.Main(harness.Check{
		ID:    "C29",
		Level: "exploration",
		Rule: "each case generates a cluster (3 namespaces with labels x 4 pods with labels from a 4-key universe incl. empty values and prefixed keys, 0-3 named container ports with differing numbers/protocols, 7 external addresses) and one NetworkPolicy " +
			"(podSelector and peers with matchLabels / In / NotIn / Exists / DoesNotExist, namespaceSelector, both, ipBlock with excepts, 0-4 ports per rule: numeric, named, ranged with endPort, protocol absent/TCP/UDP/SCTP, port absent; policyTypes absent/ingress/egress/both; empty rule and peer lists), " +
			"converts both with the real code and compares the two evaluators on all 12 pods x 2 directions (applicability) and on 60 (thorough 120) connections biased to selected pods, boundary ports and named ports; non-trivial = the policy has at least one rule; distinct by the policy spec",
		Assumptions: []string{
			"the Kubernetes-side evaluator and the Calico model.Rule evaluator are written here (about 150 lines each); Calico selectors are evaluated by libcalico-go/lib/selector (trusted)",
			"Calico endpoint labels = workload endpoint labels + labels of its profiles, as Felix's label inheritance does; namespace profiles allow all traffic, every converted rule is an Allow in the default tier",
			"only NetworkPolicies that pass Kubernetes API validation and defaulting are generated; IPv4 only",
		},
		Cases: func(tier string) int {
			if tier == "thorough" {
				return 60000
			}
			return 1500
		},
		Run: run,
		Floors: map[string]int64{"policies_converted": 1000, "converted_rules": 1000, "applies_comparisons": 20000, "policy_selects_pod": 1000,
			"connections_judged": 15000, "connections_allowed": 2000, "connections_denied": 2000},
	})
}
